/-
Helper lemmas for Props/C07Access: outcomes that are `ok` or `err` (`Safe`), `usize` arithmetic, the bounds-checked
getter, slices of the heap and the per-cell collectors of Model/Access.lean.
-/
import Garnish.Model.Access
namespace Garnish.Access
open Garnish
open Garnish.BasicOpt (Cell)

/-- the outcome is a value or an `Err` the host can handle: not a panic, not out of fuel -/
def Safe {α : Type} (o : Outcome α) : Prop := (∃ a, o = .ok a) ∨ (∃ e, o = .err e)

/-- not a panic (a fuel-bounded loop may still run out of fuel) -/
def NoPanic {α : Type} (o : Outcome α) : Prop := ∀ m, o ≠ .panic m

theorem Safe.noPanic {α} {o : Outcome α} (h : Safe o) : NoPanic o := by
  intro m hm; rcases h with ⟨a, h⟩ | ⟨e, h⟩ <;> simp [h] at hm

theorem safe_ok {α} (a : α) : Safe (Outcome.ok a) := .inl ⟨a, rfl⟩
theorem safe_err {α} (e : ErrClass) : Safe (Outcome.err e : Outcome α) := .inr ⟨e, rfl⟩

theorem safe_bind {α β} {x : Outcome α} {f : α → Outcome β} (hx : Safe x) (hf : ∀ a, x = .ok a → Safe (f a)) :
    Safe (x.bind f) := by
  rcases hx with ⟨a, h⟩ | ⟨e, h⟩
  · subst h; exact hf a rfl
  · subst h; exact safe_err e

theorem noPanic_ok {α} (a : α) : NoPanic (Outcome.ok a) := by intro m h; cases h
theorem noPanic_err {α} (e : ErrClass) : NoPanic (Outcome.err e : Outcome α) := by intro m h; cases h
theorem noPanic_fuelOut {α} : NoPanic (Outcome.fuelOut : Outcome α) := by intro m h; cases h

theorem noPanic_bind {α β} {x : Outcome α} {f : α → Outcome β} (hx : NoPanic x) (hf : ∀ a, x = .ok a → NoPanic (f a)) :
    NoPanic (x.bind f) := by
  cases x with
  | ok a => exact hf a rfl
  | err e => exact noPanic_err e
  | panic m => exact absurd rfl (hx m)
  | fuelOut => exact noPanic_fuelOut

@[simp] theorem bind_ok {α β} (a : α) (f : α → Outcome β) : (Outcome.ok a).bind f = f a := rfl
@[simp] theorem bind_err {α β} (e : ErrClass) (f : α → Outcome β) : (Outcome.err e : Outcome α).bind f = .err e := rfl
@[simp] theorem bind_panic {α β} (m : String) (f : α → Outcome β) : (Outcome.panic m : Outcome α).bind f = .panic m := rfl
@[simp] theorem bind_fuelOut {α β} (f : α → Outcome β) : (Outcome.fuelOut : Outcome α).bind f = .fuelOut := rfl

/-! ### usize -/

theorem uadd_ok {a b : Nat} (h : a + b ≤ USIZE_MAX) : uadd a b = .ok (a + b) := by simp [uadd, h]
theorem usub_ok {a b : Nat} (h : b ≤ a) : usub a b = .ok (a - b) := by simp [usub, h]

theorem uadd_panics_iff (a b : Nat) : (∃ m, uadd a b = .panic m) ↔ USIZE_MAX < a + b := by
  unfold uadd; split <;> simp <;> omega

/-! ### slices of lists -/

theorem extract_sub {α} (xs : List α) {a b a' b' : Nat} (h1 : a ≤ a') (h2 : a' ≤ b') (h3 : b' ≤ b) :
    xs.extract a' b' = (xs.extract a b).extract (a' - a) (b' - a) := by
  simp only [List.extract_eq_take_drop, List.drop_take, List.drop_drop, List.take_take]
  congr 1
  · omega
  · congr 1; omega

theorem mem_extract {α} {xs : List α} {a b : Nat} {x : α} (h : x ∈ xs.extract a b) : x ∈ xs := by
  rw [List.extract_eq_take_drop] at h
  exact List.mem_of_mem_drop (List.mem_of_mem_take h)

theorem map_extract {α β} (f : α → β) (xs : List α) (a b : Nat) : (xs.extract a b).map f = (xs.map f).extract a b := by
  simp [List.extract_eq_take_drop, List.map_take, List.map_drop]

theorem length_extract {α} (xs : List α) {a b : Nat} (h1 : a ≤ b) (h2 : b ≤ xs.length) : (xs.extract a b).length = b - a := by
  simp [List.extract_eq_take_drop]; omega

/-! ### the collectors -/

section collect
variable {β : Type} (proj : Cell → Option β) (bad : Outcome (List β))

theorem collectWith_ok_iff (hbad : ∀ ys, bad ≠ .ok ys) (xs : List Cell) (ys : List β) :
    collectWith proj bad xs = .ok ys ↔ xs.map proj = ys.map some := by
  induction xs generalizing ys with
  | nil => cases ys <;> simp [collectWith]
  | cons c rest ih =>
    unfold collectWith
    cases hp : proj c with
    | none =>
      simp only [List.map_cons, hp]
      constructor
      · intro h; exact absurd h (hbad ys)
      · intro h; cases ys <;> simp at h
    | some b =>
      simp only [List.map_cons, hp]
      cases hr : collectWith proj bad rest with
      | ok bs =>
        have := (ih bs).mp hr
        simp only [bind_ok]
        constructor
        · intro h; cases h; simp [this]
        · intro h
          cases ys with
          | nil => simp at h
          | cons y ys' =>
            simp only [List.map_cons, List.cons.injEq, Option.some.injEq] at h
            obtain ⟨rfl, h2⟩ := h
            have : collectWith proj bad rest = .ok ys' := (ih ys').mpr h2
            rw [hr] at this; cases this; rfl
      | err e =>
        simp only [bind_err]
        constructor
        · intro h; cases h
        · intro h
          cases ys with
          | nil => simp at h
          | cons y ys' =>
            simp only [List.map_cons, List.cons.injEq] at h
            have : collectWith proj bad rest = .ok ys' := (ih ys').mpr h.2
            rw [hr] at this; cases this
      | panic m =>
        simp only [bind_panic]
        constructor
        · intro h; cases h
        · intro h
          cases ys with
          | nil => simp at h
          | cons y ys' =>
            simp only [List.map_cons, List.cons.injEq] at h
            have : collectWith proj bad rest = .ok ys' := (ih ys').mpr h.2
            rw [hr] at this; cases this
      | fuelOut =>
        simp only [bind_fuelOut]
        constructor
        · intro h; cases h
        · intro h
          cases ys with
          | nil => simp at h
          | cons y ys' =>
            simp only [List.map_cons, List.cons.injEq] at h
            have : collectWith proj bad rest = .ok ys' := (ih ys').mpr h.2
            rw [hr] at this; cases this

/-- a collector that succeeds on a list succeeds on every slice of it, with the slice of its result -/
theorem collectWith_extract (hbad : ∀ ys, bad ≠ .ok ys) {xs : List Cell} {ys : List β}
    (h : collectWith proj bad xs = .ok ys) (a b : Nat) :
    collectWith proj bad (xs.extract a b) = .ok (ys.extract a b) := by
  rw [collectWith_ok_iff proj bad hbad] at h ⊢
  rw [map_extract, map_extract, h]

/-- the collector's only outcomes are a list and `bad` -/
theorem collectWith_cases (xs : List Cell) : (∃ ys, collectWith proj bad xs = .ok ys) ∨ collectWith proj bad xs = bad := by
  induction xs with
  | nil => exact .inl ⟨[], rfl⟩
  | cons c rest ih =>
    unfold collectWith
    cases hp : proj c with
    | none => exact .inr rfl
    | some b =>
      rcases ih with ⟨ys, h⟩ | h
      · exact .inl ⟨b :: ys, by simp [h]⟩
      · rw [h]
        cases bad with
        | ok ys => exact .inl ⟨b :: ys, rfl⟩
        | err e => exact .inr rfl
        | panic m => exact .inr rfl
        | fuelOut => exact .inr rfl

end collect

end Garnish.Access
