/-
C04, builder half — sibling order, part 9: `handle_parse_node`, the two loops, `build`.
-/
import Garnish.Lemmas.BuildOrder8
import Garnish.Lemmas.BuildAttr5
namespace Garnish.Lemmas.BuildOrder
open Garnish Garnish.Gen Garnish.Model.Parser Garnish.Model.Literals Garnish.Model.Build Garnish.Lemmas.Build
open Garnish.Lemmas.BuildTotal
open Garnish.Lemmas.BuildAttr (getNode_sat_eq setNodeIdx_sat_eq AddMeta addUnit_meta addFalse_meta addTrue_meta
  parseAddSymbolText_meta noOperand_meta parseAddNumber_meta parseAddCharList_meta parseAddByteList_meta
  parseAddSymbolLiteral_meta rootJump_meta)

variable {F : Type} {root : Nat} {tree : Array ParseNode} {G : Nat → Prop} {m0 : Nat}

section
variable (parseFloat : List Char → Option F)

theorem handleParseNode_ord {ph : Nat → Phase} {ctx : Ctx F} {ni : Nat} {pn : ParseNode}
    (p : PreO root tree G m0 ph ctx ni pn) (crj : Nat) :
    Sat (PostO root tree G m0 ph) (handleParseNode parseFloat ctx crj ni pn) := by
  unfold handleParseNode
  split
  · rename_i heq; exact handleValuePrimitive_ord p (by rw [heq]; decide) (by rw [heq]; rfl) (by rw [heq]; rfl) (addUnit_meta pn)
  · rename_i heq; exact handleValuePrimitive_ord p (by rw [heq]; decide) (by rw [heq]; rfl) (by rw [heq]; rfl) (addFalse_meta pn)
  · rename_i heq; exact handleValuePrimitive_ord p (by rw [heq]; decide) (by rw [heq]; rfl) (by rw [heq]; rfl) (addTrue_meta pn)
  · rename_i heq; exact handleValuePrimitive_ord p (by rw [heq]; decide) (by rw [heq]; rfl) (by rw [heq]; rfl) (parseAddNumber_meta parseFloat pn)
  · rename_i heq; exact handleValuePrimitive_ord p (by rw [heq]; decide) (by rw [heq]; rfl) (by rw [heq]; rfl) (parseAddCharList_meta parseFloat pn)
  · rename_i heq; exact handleValuePrimitive_ord p (by rw [heq]; decide) (by rw [heq]; rfl) (by rw [heq]; rfl) (parseAddByteList_meta parseFloat pn)
  · rename_i heq; exact handleValuePrimitive_ord p (by rw [heq]; decide) (by rw [heq]; rfl) (by rw [heq]; rfl) (parseAddSymbolLiteral_meta pn)
  · rename_i heq; exact handleValueLike_ord p (by rw [heq]; decide) (by rw [heq]; rfl) (by rw [heq]; rfl) (noOperand_meta pn) _
  · rename_i heq; exact handleValueLike_ord p (by rw [heq]; decide) (by rw [heq]; rfl) (by rw [heq]; rfl) (parseAddSymbolText_meta pn) _
  · rename_i heq; exact handleValueLike_ord p (by rw [heq]; decide) (by rw [heq]; rfl) (by rw [heq]; rfl) (parseAddSymbolText_meta pn) _
  · rename_i heq; exact handleValueLike_ord p (by rw [heq]; decide) (by rw [heq]; rfl) (by rw [heq]; rfl) (noOperand_meta pn) _
  · rename_i heq; exact handleUnaryPrefix_ord p (by rw [heq]; decide) (by rw [heq]; rfl) (by rw [heq]; rfl) _
  · rename_i heq; exact handleUnaryPrefix_ord p (by rw [heq]; decide) (by rw [heq]; rfl) (by rw [heq]; rfl) _
  · rename_i heq; exact handleUnaryPrefix_ord p (by rw [heq]; decide) (by rw [heq]; rfl) (by rw [heq]; rfl) _
  · rename_i heq; exact handleUnaryPrefix_ord p (by rw [heq]; decide) (by rw [heq]; rfl) (by rw [heq]; rfl) _
  · rename_i heq; exact handleUnaryPrefix_ord p (by rw [heq]; decide) (by rw [heq]; rfl) (by rw [heq]; rfl) _
  · rename_i heq; exact handleUnaryPrefix_ord p (by rw [heq]; decide) (by rw [heq]; rfl) (by rw [heq]; rfl) _
  · rename_i heq; exact handleUnaryPrefix_ord p (by rw [heq]; decide) (by rw [heq]; rfl) (by rw [heq]; rfl) _
  · rename_i heq; exact handleUnarySuffix_ord p (by rw [heq]; decide) (by rw [heq]; rfl) (by rw [heq]; rfl) _
  · rename_i heq; exact handleUnarySuffix_ord p (by rw [heq]; decide) (by rw [heq]; rfl) (by rw [heq]; rfl) _
  · rename_i heq; exact handleUnarySuffix_ord p (by rw [heq]; decide) (by rw [heq]; rfl) (by rw [heq]; rfl) _
  · rename_i heq; exact handleBinaryOperationWithPush_ord p (by rw [heq]; decide) (by rw [heq]; rfl) _ false (by rw [heq]; rfl)
  · rename_i heq; exact handleBinaryOperationWithPush_ord p (by rw [heq]; decide) (by rw [heq]; rfl) _ false (by rw [heq]; rfl)
  · rename_i heq; exact handleBinaryOperationWithPush_ord p (by rw [heq]; decide) (by rw [heq]; rfl) _ false (by rw [heq]; rfl)
  · rename_i heq; exact handleBinaryOperationWithPush_ord p (by rw [heq]; decide) (by rw [heq]; rfl) _ false (by rw [heq]; rfl)
  · rename_i heq; exact handleBinaryOperationWithPush_ord p (by rw [heq]; decide) (by rw [heq]; rfl) _ false (by rw [heq]; rfl)
  · rename_i heq; exact handleBinaryOperationWithPush_ord p (by rw [heq]; decide) (by rw [heq]; rfl) _ false (by rw [heq]; rfl)
  · rename_i heq; exact handleBinaryOperationWithPush_ord p (by rw [heq]; decide) (by rw [heq]; rfl) _ false (by rw [heq]; rfl)
  · rename_i heq; exact handleBinaryOperationWithPush_ord p (by rw [heq]; decide) (by rw [heq]; rfl) _ false (by rw [heq]; rfl)
  · rename_i heq; exact handleBinaryOperationWithPush_ord p (by rw [heq]; decide) (by rw [heq]; rfl) _ false (by rw [heq]; rfl)
  · rename_i heq; exact handleBinaryOperationWithPush_ord p (by rw [heq]; decide) (by rw [heq]; rfl) _ false (by rw [heq]; rfl)
  · rename_i heq; exact handleBinaryOperationWithPush_ord p (by rw [heq]; decide) (by rw [heq]; rfl) _ false (by rw [heq]; rfl)
  · rename_i heq; exact handleBinaryOperationWithPush_ord p (by rw [heq]; decide) (by rw [heq]; rfl) _ false (by rw [heq]; rfl)
  · rename_i heq; exact handleBinaryOperationWithPush_ord p (by rw [heq]; decide) (by rw [heq]; rfl) _ false (by rw [heq]; rfl)
  · rename_i heq; exact handleBinaryOperationWithPush_ord p (by rw [heq]; decide) (by rw [heq]; rfl) _ false (by rw [heq]; rfl)
  · rename_i heq; exact handleBinaryOperationWithPush_ord p (by rw [heq]; decide) (by rw [heq]; rfl) _ false (by rw [heq]; rfl)
  · rename_i heq; exact handleBinaryOperationWithPush_ord p (by rw [heq]; decide) (by rw [heq]; rfl) _ false (by rw [heq]; rfl)
  · rename_i heq; exact handleBinaryOperationWithPush_ord p (by rw [heq]; decide) (by rw [heq]; rfl) _ false (by rw [heq]; rfl)
  · rename_i heq; exact handleBinaryOperationWithPush_ord p (by rw [heq]; decide) (by rw [heq]; rfl) _ false (by rw [heq]; rfl)
  · rename_i heq; exact handleBinaryOperationWithPush_ord p (by rw [heq]; decide) (by rw [heq]; rfl) _ false (by rw [heq]; rfl)
  · rename_i heq; exact handleBinaryOperationWithPush_ord p (by rw [heq]; decide) (by rw [heq]; rfl) _ false (by rw [heq]; rfl)
  · rename_i heq; exact handleBinaryOperationWithPush_ord p (by rw [heq]; decide) (by rw [heq]; rfl) _ false (by rw [heq]; rfl)
  · rename_i heq; exact handleBinaryOperationWithPush_ord p (by rw [heq]; decide) (by rw [heq]; rfl) _ false (by rw [heq]; rfl)
  · rename_i heq; exact handleBinaryOperationWithPush_ord p (by rw [heq]; decide) (by rw [heq]; rfl) _ false (by rw [heq]; rfl)
  · rename_i heq; exact handleBinaryOperationWithPush_ord p (by rw [heq]; decide) (by rw [heq]; rfl) _ false (by rw [heq]; rfl)
  · rename_i heq; exact handleBinaryOperationWithPush_ord p (by rw [heq]; decide) (by rw [heq]; rfl) _ false (by rw [heq]; rfl)
  · rename_i heq; exact handleBinaryOperationWithPush_ord p (by rw [heq]; decide) (by rw [heq]; rfl) _ false (by rw [heq]; rfl)
  · rename_i heq; exact handleBinaryOperationWithPush_ord p (by rw [heq]; decide) (by rw [heq]; rfl) _ false (by rw [heq]; rfl)
  · rename_i heq; exact handleBinaryOperationWithPush_ord p (by rw [heq]; decide) (by rw [heq]; rfl) _ false (by rw [heq]; rfl)
  · rename_i heq; exact handleBinaryOperationWithPush_ord p (by rw [heq]; decide) (by rw [heq]; rfl) _ false (by rw [heq]; rfl)
  · rename_i heq; exact handleBinaryOperationWithPush_ord p (by rw [heq]; decide) (by rw [heq]; rfl) _ true (by rw [heq]; rfl)
  · rename_i heq; exact handleBinaryOperationWithPush_ord p (by rw [heq]; decide) (by rw [heq]; rfl) _ true (by rw [heq]; rfl)
  · rename_i heq; exact handleList_ord p (by rw [heq]; decide) (by rw [heq]; rfl) (by rw [heq]; rfl)
  · rename_i heq; exact handleList_ord p (by rw [heq]; decide) (by rw [heq]; rfl) (by rw [heq]; rfl)
  · rename_i heq; exact handleLogicalBinary_ord p (by rw [heq]; rfl) (by rw [heq]; decide) _
  · rename_i heq; exact handleLogicalBinary_ord p (by rw [heq]; rfl) (by rw [heq]; decide) _
  · rename_i heq; exact handleGroup_ord p heq
  · rename_i heq; exact handleSideEffect_ord p (by rw [heq]; decide) (by rw [heq]; rfl) (by rw [heq]; rfl)
  · rename_i heq; exact handleNestedExpression_ord p heq crj
  · rename_i heq; exact handleJumpIf_ord p (by rw [heq]; rfl) (by rw [heq]; decide) _
  · rename_i heq; exact handleJumpIf_ord p (by rw [heq]; rfl) (by rw [heq]; decide) _
  · rename_i heq; exact handleElseJump_ord p (by rw [heq]; decide) (by rw [heq]; rfl) (by rw [heq]; rfl)
  · rename_i heq; exact handleReapply_ord p (by rw [heq]; decide) (by rw [heq]; rfl) (by rw [heq]; rfl)
  · rename_i heq; exact handleSubexpression_ord p (by rw [heq]; decide) (by rw [heq]; rfl) (by rw [heq]; rfl)
  · rename_i heq; exact handleSubexpression_ord p (by rw [heq]; decide) (by rw [heq]; rfl) (by rw [heq]; rfl)
  · rename_i heq; exact handleUnaryFixApply_ord p (by rw [heq]; decide) (by rw [heq]; rfl) (by rw [heq]; rfl) (Or.inl rfl)
  · rename_i heq; exact handleUnaryFixApply_ord p (by rw [heq]; decide) (by rw [heq]; rfl) (by rw [heq]; rfl) (Or.inr rfl)
  · rename_i heq; exact handleInfixApply_ord p (by rw [heq]; decide) (by rw [heq]; rfl) (by rw [heq]; rfl)
  · exact sat_buildErr

/-! ### the loops -/

theorem afterHandle_ord {ph : Nat → Phase} {ctx : Ctx F} {S : List Nat} {M : Array (Option Nat)}
    (h : Inv root tree G ph ctx) (ho : OInv root tree G m0 ph S ctx.nodes M) (ni : Nat) :
    Sat (fun nodes => Inv root tree G ph ({ ctx with nodes := nodes } : Ctx F) ∧ OInv root tree G m0 ph S nodes M)
      (afterHandle ctx.nodes ni) := by
  unfold afterHandle
  split
  · rename_i node hnode
    split
    · split
      · have h1 : Inv root tree G ph ({ ctx with nodes := putNode ctx.nodes ni { node with contributesToList := false } } : Ctx F) :=
          inv_putNode_same (bn' := { node with contributesToList := false }) h hnode rfl rfl rfl rfl rfl rfl
        have o1 : OInv root tree G m0 ph S (putNode ctx.nodes ni { node with contributesToList := false }) M :=
          oinv_putNode_same (bn' := { node with contributesToList := false }) ho hnode rfl
        refine sat_bind (getNode_sat_eq _ _) (fun parentNode hp => ?_)
        exact ⟨inv_putNode_same (bn' := { parentNode with childCount := parentNode.childCount + 1 }) h1 hp rfl rfl rfl rfl rfl rfl,
          oinv_putNode_same (bn' := { parentNode with childCount := parentNode.childCount + 1 }) o1 hp rfl⟩
      · exact ⟨inv_congr h rfl rfl rfl, ho⟩
    · exact ⟨inv_congr h rfl rfl rfl, ho⟩
  · exact ⟨inv_congr h rfl rfl rfl, ho⟩

theorem toList_nil_of_back_none {a : Array Nat} (hnone : a.back? = none) : a.toList = [] := by
  have hsz : a.size = 0 := by
    rcases Nat.eq_zero_or_pos a.size with h0 | h0
    · exact h0
    · have : a.back? = some a[a.size - 1] := by
        simp [Array.back?, Array.getElem?_eq_getElem (show a.size - 1 < a.size by omega)]
      rw [this] at hnone; cases hnone
  apply List.eq_nil_of_length_eq_zero; simpa using hsz

theorem innerLoop_ord (V : Validated root tree G) (crj : Nat) :
    ∀ (fuel : Nat) (ph : Nat → Phase) (ctx : Ctx F), Inv root tree G ph ctx →
      OInv root tree G m0 ph ctx.stack.toList ctx.nodes ctx.data.metadata →
      Sat (fun r => ∃ ph', Inv root tree G ph' r.1 ∧ OInv root tree G m0 ph' [] r.1.nodes r.1.data.metadata)
        (innerLoop parseFloat tree crj fuel ctx) := by
  intro fuel
  induction fuel with
  | zero => intro ph ctx _ _; exact sat_fuelOut
  | succ k ih =>
    intro ph ctx h ho
    unfold innerLoop
    split
    · rename_i hnone
      rw [toList_nil_of_back_none hnone] at ho
      exact ⟨ph, h, ho⟩
    · rename_i ni hback
      obtain ⟨hpop, hns, hG, hph⟩ := inv_pop_stack h hback
      split
      · exact sat_buildErr
      · rename_i pn hpn
        have p : PreO root tree G m0 ph ({ ctx with stack := ctx.stack.pop } : Ctx F) ni pn :=
          ⟨⟨V, hpop, hG, hph, hns, hpn⟩, by rw [toList_of_back hback] at ho; exact ho⟩
        refine sat_bind (handleParseNode_ord parseFloat p crj) (fun ctx1 h1 => ?_)
        obtain ⟨ph1, hinv1, _, ho1⟩ := h1
        refine sat_bind (afterHandle_ord hinv1 ho1 ni) (fun nodes hnodes => ?_)
        exact ih ph1 _ hnodes.1 hnodes.2

/-- the terminators of a root are not attributed to a node -/
theorem pushEndInstructions_meta_none (last : Option Instr) (rs : Nat) : ∀ (endL : List Instr) (data : BState F),
    ∃ l, (pushEndInstructions last rs data endL).metadata.toList = data.metadata.toList ++ l ∧ ∀ m, m ∈ l → m = none := by
  intro endL
  induction endL with
  | nil => intro data; exact ⟨[], by simp [pushEndInstructions], fun m hm => by cases hm⟩
  | cons e rest ih =>
    intro data
    unfold pushEndInstructions
    dsimp only
    split
    · split
      · exact ih data
      · obtain ⟨l, h1, h2⟩ := ih (pushInstr data e.1 e.2 none)
        refine ⟨none :: l, by rw [h1]; simp [pushInstr], fun m hm => ?_⟩
        rcases List.mem_cons.1 hm with h | h
        · exact h
        · exact h2 m h
    · obtain ⟨l, h1, h2⟩ := ih (pushInstr data e.1 e.2 none)
      refine ⟨none :: l, by rw [h1]; simp [pushInstr], fun m hm => ?_⟩
      rcases List.mem_cons.1 hm with h | h
      · exact h
      · exact h2 m h

theorem rootLoop_ord (V : Validated root tree G) :
    ∀ (rootFuel stepFuel : Nat) (ph : Nat → Phase) (ctx : Ctx F), Inv root tree G ph ctx →
      OInv root tree G m0 ph [] ctx.nodes ctx.data.metadata →
      Sat (fun c => ∃ ph', OInv root tree G m0 ph' [] c.nodes c.data.metadata)
        (Garnish.Model.Build.rootLoop parseFloat tree rootFuel stepFuel ctx) := by
  intro rootFuel
  induction rootFuel with
  | zero => intro _ ph ctx _ _; exact sat_fuelOut
  | succ k ih =>
    intro stepFuel ph ctx h ho
    unfold Garnish.Model.Build.rootLoop
    split
    · exact ⟨ph, ho⟩
    · rename_i r hback
      dsimp only
      refine sat_bind (rootJump_meta _ _ _) (fun res hres => ?_)
      obtain ⟨data, crj⟩ := res
      dsimp only at hres ⊢
      have hinv1 := (inv_pop_root_exp (ctx' := (⟨data, ctx.nodes, ctx.rootStack.pop, #[r]⟩ : Ctx F)) V h hback rfl rfl rfl).1
      have ho1 : OInv root tree G m0 (popPhase ph r) [r] ctx.nodes data.metadata := by
        rw [hres]; exact pop_ord V h hback ho
      refine sat_bind (innerLoop_ord parseFloat V crj stepFuel _ _ hinv1 ho1) (fun res2 h2 => ?_)
      obtain ⟨ctx2, fuel2⟩ := res2
      obtain ⟨ph2, hinv2, ho2⟩ := h2
      dsimp only at hinv2 ho2 ⊢
      obtain ⟨l, hl1, hl2⟩ := pushEndInstructions_meta_none
        (if (ctx2.data.instrs.size == 0) = true then none else ctx2.data.instrs[ctx2.data.instrs.size - 1]?)
        (getInstructionLen data)
        (match ctx2.nodes[r]? with
          | some (some node) =>
            match node.rootEndInstruction with
            | some endInstruction => endInstruction
            | none => [(Instruction.endExpression, none)]
          | _ => [(Instruction.endExpression, none)]) ctx2.data
      exact ih fuel2 ph2 _ (inv_congr hinv2 rfl rfl rfl) (oinv_meta_none ho2 l hl1 hl2)

/-! ### `build` -/

/-- `Prec` without the set of validated indices -/
def PrecT (tree : Array ParseNode) (x z : Nat) : Prop :=
  (∃ y a b, Ordered tree y a b ∧ Desc tree a x ∧ Desc tree b z) ∨ (∃ y c, BChild tree y c ∧ Desc tree c x ∧ z = y)

theorem isB_subexpression : isB .subexpression = false := rfl

theorem prec_of_precT (V : Validated root tree G) {x z : Nat} (h : PrecT tree x z) : Prec tree G x z := by
  have hG : ∀ y c, BChild tree y c → G y := by
    intro y c ⟨pn, h1, h2, _⟩
    rcases Classical.em (G y) with hy | hy
    · exact hy
    · have := V.rest y pn h1 hy
      rw [this, isB_subexpression] at h2; cases h2
  rcases h with ⟨y, a, b, h1, h2, h3⟩ | ⟨y, c, h1, h2, h3⟩
  · exact Or.inl ⟨y, a, b, hG y a h1.left, h1, h2, h3⟩
  · exact Or.inr ⟨y, c, hG y c h1, h1, h2, h3⟩

theorem buildCore_ord (V : Validated root tree G) (fuel : Nat) (data : BState F) :
    Sat (fun r => ∀ x z, PrecT tree x z → ∀ kx kz : Nat, data.metadata.size ≤ kx → data.metadata.size ≤ kz →
      r.1.metadata[kx]? = some (some x) → r.1.metadata[kz]? = some (some z) → kx < kz)
      (buildCore parseFloat fuel root tree data) := by
  unfold buildCore
  dsimp only
  refine sat_bind (setNodeIdx_sat_eq _ _ _ _) (fun N hN => ?_)
  subst hN
  let ph0 : Nat → Phase := fun x => if x = root then .pr else .p0
  have hph0 : ∀ x, ph0 x = .pr ∨ ph0 x = .p0 := by
    intro x; simp only [ph0]; split
    · exact Or.inl rfl
    · exact Or.inr rfl
  have hget : ∀ (x : Nat) (bn : BuildNode),
      (putNode (Array.replicate tree.size none) root (BuildNode.new root (getJumpTableLen data)))[x]? = some (some bn) →
      x = root ∧ bn = BuildNode.new root (getJumpTableLen data) := by
    intro x bn hx
    rw [getElem?_putNode] at hx
    rcases Classical.em (root = x) with hrx | hrx
    · rw [if_pos hrx] at hx
      split at hx
      · cases hx; exact ⟨hrx.symm, rfl⟩
      · cases hx
    · rw [if_neg hrx] at hx
      simp [Array.getElem?_replicate] at hx
  have hinv : Inv root tree G ph0
      (⟨data, putNode (Array.replicate tree.size none) root (BuildNode.new root (getJumpTableLen data)), #[root], #[]⟩ : Ctx F) := by
    refine ⟨by simp, fun x hx => by simp at hx, by simp, fun x hx => ?_, by simp [size_putNode], ?_, ?_, ?_, ?_, ?_, ?_⟩
    · have : x = root := by simpa using hx
      subst this; exact ⟨V.rootIn, by simp [ph0]⟩
    · intro x bn _ hp2
      simp only [ph0] at hp2
      split at hp2 <;> cases hp2
    · intro x bn hx _ it hit
      obtain ⟨_, hb⟩ := hget x bn hx
      subst hb
      simp [BuildNode.new] at hit
    · intro x bn hx _
      obtain ⟨_, hb⟩ := hget x bn hx
      subst hb
      simp [BuildNode.new]
    · intro c _ hc0
      simp only [ph0] at hc0
      split at hc0
      · rename_i hcr; exact Or.inl hcr
      · exact absurd rfl hc0
    · intro x pn _ hp2
      simp only [ph0] at hp2
      split at hp2 <;> cases hp2
    · intro x bn hx
      obtain ⟨hxr, hb⟩ := hget x bn hx
      subst hb; subst hxr; rfl
  have hnoattr : ∀ x, ¬ Attr data.metadata.size data.metadata x := by
    intro x ⟨k, hk, hm⟩
    rw [Array.getElem?_eq_none hk] at hm; cases hm
  have hno : ∀ x, ph0 x ≠ .p1 ∧ ph0 x ≠ .p2 ∧ ph0 x ≠ .p3 := by
    intro x
    rcases hph0 x with h | h <;> rw [h] <;> exact ⟨(fun h => by cases h), (fun h => by cases h), (fun h => by cases h)⟩
  have ho : OInv root tree G data.metadata.size ph0 []
      (putNode (Array.replicate tree.size none) root (BuildNode.new root (getJumpTableLen data))) data.metadata := by
    refine ⟨List.nodup_nil, ?_, ?_, ?_, ?_, ?_, ?_, ?_, ?_, ?_, ?_⟩
    · intro x hx; rcases hx with h | h
      · exact absurd h (hno x).1
      · exact absurd h (hno x).2.1
    · intro x hx; exact absurd hx (hnoattr x)
    · intro y pn _ _ hy; exact absurd hy (hnoattr y)
    · intro y c _ _ hy; rcases hy with h | h
      · exact absurd h (hno y).2.1
      · exact absurd h (hno y).2.2
    · intro y c _ _ hc; rcases hc with h | h
      · exact absurd h (hno c).1
      · exact absurd h (hno c).2.1
    · intro y c _ _ hy; exact absurd hy (hno y).2.2
    · intro y a b _ _ ha; rcases ha with h | h
      · exact absurd h (hno a).1
      · exact absurd h (hno a).2.1
    · intro y a b _ _ hb; rcases hb with h | h
      · exact absurd h (hno b).2.1
      · exact absurd h (hno b).2.2
    · intro x bn hx _
      obtain ⟨_, hb⟩ := hget x bn hx
      subst hb; rfl
    · intro x z _ kx kz hkx _ hmx _
      rw [Array.getElem?_eq_none hkx] at hmx; cases hmx
  refine sat_bind (rootLoop_ord parseFloat V fuel fuel ph0 _ hinv ho) (fun ctx hctx => ?_)
  obtain ⟨ph', ho'⟩ := hctx
  split
  · intro x z hp
    exact ho'.ord x z (prec_of_precT V hp)
  · exact sat_buildErr

/-- after a successful `build`: whatever is attributed to a node that has to come first lies before whatever is
attributed to a node that has to come later -/
theorem build_ord (fuel root : Nat) (data : BState F) :
    Sat (fun r => ∀ x z, PrecT tree x z → ∀ kx kz : Nat, data.metadata.size ≤ kx → data.metadata.size ≤ kz →
      r.1.metadata[kx]? = some (some x) → r.1.metadata[kz]? = some (some z) → kx < kz)
      (build parseFloat fuel root tree data) := by
  unfold build
  split
  · rename_i hempty
    have hsz : tree.size = 0 := by simpa [Array.isEmpty] using hempty
    have hnone : ∀ y c, ¬ BChild tree y c := by
      intro y c ⟨pn, h1, _⟩
      rw [Array.getElem?_eq_none (by omega)] at h1; cases h1
    intro x z hp
    rcases hp with ⟨y, a, b, h1, _⟩ | ⟨y, c, h1, _⟩
    · exact absurd h1.left (hnone y a)
    · exact absurd h1 (hnone y c)
  · cases hv : validateParseTree root tree with
    | ok u =>
      cases u
      simp only [bind_ok]
      obtain ⟨G, V⟩ := validateParseTree_ok hv
      exact buildCore_ord parseFloat V fuel data
    | err e => exact sat_err
    | panic s => exact sat_panic
    | fuelOut => exact sat_fuelOut

end

end Garnish.Lemmas.BuildOrder
