/-
Lexing of SPELLED literals, part 1 (C14, lexer side): an explicit description of the lexer in the middle of a token
(`At`: state, pending type and text, start of the token, position in the text, quote counters), one lemma per arm of
`process_char` for the characters that CONTINUE the token, the step that ends a token and starts the next one
(`emit_step`), the first character of a token between tokens (`start_step`), and the two ways a token ends:
a blank after it (`tail_blank`) and the end of the input (`tail_end`).
-/
import Garnish.Lemmas.LexRewrite3
set_option linter.unusedSimpArgs false
set_option linter.unusedVariables false
namespace Garnish.Model.Lexer
open Garnish.Model Garnish.Model.Parser Garnish.Spec

/-- row and column after one more character: the tail of `process_char` -/
def adv (p : Nat × Nat) (x : Char) : Nat × Nat := if x == '\n' then (p.1 + 1, 0) else (p.1, p.2 + 1)

/-- row and column after a run of characters -/
def advs (p : Nat × Nat) (xs : List Char) : Nat × Nat := xs.foldl adv p

theorem advs_cons (p : Nat × Nat) (x : Char) (xs : List Char) : advs p (x :: xs) = advs (adv p x) xs := rfl

theorem advs_append (p : Nat × Nat) (xs ys : List Char) : advs p (xs ++ ys) = advs (advs p xs) ys := by
  simp [advs, List.foldl_append]

theorem advs_snoc (p : Nat × Nat) (xs : List Char) (x : Char) : advs p (xs ++ [x]) = adv (advs p xs) x := by
  rw [advs_append]; rfl

/-- without a newline the row stays and the column counts the characters -/
theorem advs_noNewline : ∀ (xs : List Char) (p : Nat × Nat), '\n' ∉ xs → advs p xs = (p.1, p.2 + xs.length)
  | [], p, _ => rfl
  | x :: xs, p, h => by
    have hx : (x == '\n') = false := by
      have : x ≠ '\n' := fun e => h (by simp [e])
      simpa using this
    rw [advs_cons, advs_noNewline xs _ (fun m => h (List.mem_cons_of_mem _ m))]
    simp only [adv, hx, Bool.false_eq_true, ↓reduceIte, List.length_cons]
    congr 1; omega

/-- the lexer in the middle of a token: state `st`, pending type `ty` and text `cs`, the token started at `p0`, the
text position is `p`, quote counters `sq` / `eq`, `at_end = ae`; nothing went wrong so far -/
structure At (σ : Lexer) (st : LexingState) (ty : Option Gen.TokenType) (cs : List Char) (p0 p : Nat × Nat)
    (sq eq : Nat) (ae : Bool) : Prop where
  state : σ.state = st
  type : σ.currentTokenType = ty
  chars : σ.currentCharacters = cs
  srow : σ.tokenStartRow = p0.1
  scol : σ.tokenStartColumn = p0.2
  trow : σ.textRow = p.1
  tcol : σ.textColumn = p.2
  create : σ.shouldCreate = true
  ok : σ.result = .ok
  tree : σ.operatorTree = theTree
  atEnd : σ.atEnd = ae
  sq : σ.startQuoteCount = sq
  eq : σ.endQuoteCount = eq

theorem At.lexed {σ : Lexer} {st ty cs p0 p sq eq ae} (h : At σ st ty cs p0 p sq eq ae) (n : Nat) :
    At { σ with charactersLexed := n } st ty cs p0 p sq eq ae :=
  ⟨h.state, h.type, h.chars, h.srow, h.scol, h.trow, h.tcol, h.create, h.ok, h.tree, h.atEnd, h.sq, h.eq⟩

theorem At.setAtEnd {σ : Lexer} {st ty cs p0 p sq eq ae} (h : At σ st ty cs p0 p sq eq ae) (b : Bool) :
    At { σ with atEnd := b } st ty cs p0 p sq eq b :=
  ⟨h.state, h.type, h.chars, h.srow, h.scol, h.trow, h.tcol, h.create, h.ok, h.tree, rfl, h.sq, h.eq⟩

theorem At.bump {e : Lexer} {st ty cs p0 p sq eq ae} (h : At e st ty cs p0 p sq eq ae) (x : Char) :
    At (bumpColumn e x) st ty cs p0 (adv p x) sq eq ae := by
  obtain ⟨h1, h2, h3, h4, h5, h6, h7, h8, h9, h10, h11, h12, h13⟩ := h
  unfold bumpColumn adv
  split <;> constructor <;> simp_all

/-- an arm that does not end the token: `process_char` returns the lexer of the arm, one column further -/
theorem step_none (cc : CharClass) (σ e : Lexer) (x : Char)
    (hstep : stateStep cc { σ with charactersLexed := σ.charactersLexed + 1 } x = .ok (.cont e none false)) :
    processChar cc σ x = .ok (bumpColumn e x, none) := by
  unfold processChar
  simp only []
  rw [hstep]
  simp [finishChar]

/-- … stated with `At` -/
theorem step_of_arm (cc : CharClass) (σ : Lexer) (x : Char) {st ty cs p0 p sq eq ae}
    (h : ∃ e, stateStep cc { σ with charactersLexed := σ.charactersLexed + 1 } x = .ok (.cont e none false) ∧
      At e st ty cs p0 p sq eq ae) :
    ∃ σ', processChar cc σ x = .ok (σ', none) ∧ At σ' st ty cs p0 (adv p x) sq eq ae := by
  obtain ⟨e, hs, he⟩ := h
  exact ⟨_, step_none cc σ e x hs, he.bump x⟩

/-! ## the arms on characters that continue the token -/

theorem arm_number (cc : CharClass) (τ : Lexer) (x : Char) {ty cs p0 p sq eq ae}
    (h : At τ .number ty cs p0 p sq eq ae) (hx : (cc.isNumeric x || x == '_' || cc.isAlphanumeric x) = true) :
    ∃ e, stateStep cc τ x = .ok (.cont e none false) ∧ At e .number ty (cs ++ [x]) p0 p sq eq ae := by
  obtain ⟨h1, h2, h3, h4, h5, h6, h7, h8, h9, h10, h11, h12, h13⟩ := h
  have hs : stateStep cc τ x = .ok (.cont { τ with currentCharacters := τ.currentCharacters ++ [x] } none false) := by
    unfold stateStep; rw [h1]; simp [Step.ofPair, armNumber, hx, push, h1]
  exact ⟨_, hs, by constructor <;> simp_all⟩

theorem arm_identifier (cc : CharClass) (τ : Lexer) (x : Char) {ty cs p0 p sq eq ae}
    (h : At τ .identifier ty cs p0 p sq eq ae) (hx : isIdentifierChar cc x = true) :
    ∃ e, stateStep cc τ x = .ok (.cont e none false) ∧ At e .identifier ty (cs ++ [x]) p0 p sq eq ae := by
  obtain ⟨h1, h2, h3, h4, h5, h6, h7, h8, h9, h10, h11, h12, h13⟩ := h
  have hs : stateStep cc τ x = .ok (.cont { τ with currentCharacters := τ.currentCharacters ++ [x] } none false) := by
    unfold stateStep; rw [h1]; simp [Step.ofPair, armIdentifier, hx, push, h1]
  exact ⟨_, hs, by constructor <;> simp_all⟩

theorem arm_operator (cc : CharClass) (τ : Lexer) (x : Char) {ty cs p0 p sq eq ae} (n : LexerOperatorNode)
    (h : At τ .operator ty cs p0 p sq eq ae) (hx : walkOperator theTree (cs ++ [x]) = some n) :
    ∃ e, stateStep cc τ x = .ok (.cont e none false) ∧ At e .operator n.tokenType (cs ++ [x]) p0 p sq eq ae := by
  obtain ⟨h1, h2, h3, h4, h5, h6, h7, h8, h9, h10, h11, h12, h13⟩ := h
  have hs : stateStep cc τ x = .ok (.cont
      { τ with currentCharacters := τ.currentCharacters ++ [x], currentTokenType := n.tokenType } none false) := by
    have hw : walkOperator τ.operatorTree (τ.currentCharacters ++ [x]) = some n := by rw [h10, h3]; exact hx
    unfold stateStep; rw [h1]
    simp [Step.ofPair, armOperator, currentOperator, push, hw, h1]
  exact ⟨_, hs, by constructor <;> simp_all⟩

/-- one more opening quote -/
theorem arm_startCharList_quote (cc : CharClass) (τ : Lexer) {ty cs p0 p sq eq}
    (h : At τ .startCharList ty cs p0 p sq eq false) :
    ∃ e, stateStep cc τ '"' = .ok (.cont e none false) ∧ At e .startCharList ty (cs ++ ['"']) p0 p sq eq false := by
  obtain ⟨h1, h2, h3, h4, h5, h6, h7, h8, h9, h10, h11, h12, h13⟩ := h
  have hs : stateStep cc τ '"' = .ok (.cont { τ with currentCharacters := τ.currentCharacters ++ ['"'] } none false) := by
    unfold stateStep; rw [h1]; simp [Step.ofPair, armStartCharList, push, h1, h11]
  exact ⟨_, hs, by constructor <;> simp_all⟩

/-- the first character of the body: the number of opening quotes is recorded -/
theorem arm_startCharList_body (cc : CharClass) (τ : Lexer) (x : Char) {ty cs p0 p sq eq}
    (h : At τ .startCharList ty cs p0 p sq eq false) (hx : x ≠ '"') (h2q : utf8Len cs ≠ 2) :
    ∃ e, stateStep cc τ x = .ok (.cont e none false) ∧ At e .charList ty (cs ++ [x]) p0 p (utf8Len cs) eq false := by
  obtain ⟨h1, h2, h3, h4, h5, h6, h7, h8, h9, h10, h11, h12, h13⟩ := h
  have hxq : (x != '"') = true := by simpa using hx
  have hl : (utf8Len τ.currentCharacters == 2) = false := by rw [h3]; simpa using h2q
  have hs : stateStep cc τ x = .ok (.cont
      { τ with startQuoteCount := utf8Len τ.currentCharacters, state := .charList, currentCharacters := τ.currentCharacters ++ [x] } none false) := by
    unfold stateStep; rw [h1]; simp [Step.ofPair, armStartCharList, push, h1, h11, hxq, hl]
  exact ⟨_, hs, by constructor <;> simp_all⟩

theorem arm_charList_body (cc : CharClass) (τ : Lexer) (x : Char) {ty cs p0 p sq eq ae}
    (h : At τ .charList ty cs p0 p sq eq ae) (hx : x ≠ '"') :
    ∃ e, stateStep cc τ x = .ok (.cont e none false) ∧ At e .charList ty (cs ++ [x]) p0 p sq 0 ae := by
  obtain ⟨h1, h2, h3, h4, h5, h6, h7, h8, h9, h10, h11, h12, h13⟩ := h
  have hxq : (x == '"') = false := by simpa using hx
  have hs : stateStep cc τ x = .ok (.cont
      { τ with endQuoteCount := 0, currentCharacters := τ.currentCharacters ++ [x] } none false) := by
    unfold stateStep; rw [h1]; simp [Step.ofPair, armCharList, push, h1, hxq]
  exact ⟨_, hs, by constructor <;> simp_all⟩

/-- a closing quote that is not yet the last one -/
theorem arm_charList_quote (cc : CharClass) (τ : Lexer) {ty cs p0 p sq eq ae}
    (h : At τ .charList ty cs p0 p sq eq ae) (hne : sq ≠ eq + 1) :
    ∃ e, stateStep cc τ '"' = .ok (.cont e none false) ∧ At e .charList ty (cs ++ ['"']) p0 p sq (eq + 1) ae := by
  obtain ⟨h1, h2, h3, h4, h5, h6, h7, h8, h9, h10, h11, h12, h13⟩ := h
  have hq : (τ.startQuoteCount == τ.endQuoteCount + 1) = false := by rw [h12, h13]; simpa using hne
  have hs : stateStep cc τ '"' = .ok (.cont
      { τ with endQuoteCount := τ.endQuoteCount + 1, currentCharacters := τ.currentCharacters ++ ['"'] } none false) := by
    unfold stateStep; rw [h1]; simp [Step.ofPair, armCharList, push, h1, hq]
  exact ⟨_, hs, by constructor <;> simp_all⟩

theorem arm_startByteList_quote (cc : CharClass) (τ : Lexer) {ty cs p0 p sq eq}
    (h : At τ .startByteList ty cs p0 p sq eq false) :
    ∃ e, stateStep cc τ '\'' = .ok (.cont e none false) ∧ At e .startByteList ty (cs ++ ['\'']) p0 p sq eq false := by
  obtain ⟨h1, h2, h3, h4, h5, h6, h7, h8, h9, h10, h11, h12, h13⟩ := h
  have hs : stateStep cc τ '\'' = .ok (.cont { τ with currentCharacters := τ.currentCharacters ++ ['\''] } none false) := by
    unfold stateStep; rw [h1]; simp [Step.ofPair, armStartByteList, push, h1, h11]
  exact ⟨_, hs, by constructor <;> simp_all⟩

theorem arm_startByteList_body (cc : CharClass) (τ : Lexer) (x : Char) {ty cs p0 p sq eq}
    (h : At τ .startByteList ty cs p0 p sq eq false) (hx : x ≠ '\'') (h2q : utf8Len cs ≠ 2) :
    ∃ e, stateStep cc τ x = .ok (.cont e none false) ∧ At e .byteList ty (cs ++ [x]) p0 p (utf8Len cs) eq false := by
  obtain ⟨h1, h2, h3, h4, h5, h6, h7, h8, h9, h10, h11, h12, h13⟩ := h
  have hxq : (x != '\'') = true := by simpa using hx
  have hl : (utf8Len τ.currentCharacters == 2) = false := by rw [h3]; simpa using h2q
  have hs : stateStep cc τ x = .ok (.cont
      { τ with startQuoteCount := utf8Len τ.currentCharacters, state := .byteList, currentCharacters := τ.currentCharacters ++ [x] } none false) := by
    unfold stateStep; rw [h1]; simp [Step.ofPair, armStartByteList, push, h1, h11, hxq, hl]
  exact ⟨_, hs, by constructor <;> simp_all⟩

theorem arm_byteList_body (cc : CharClass) (τ : Lexer) (x : Char) {ty cs p0 p sq eq ae}
    (h : At τ .byteList ty cs p0 p sq eq ae) (hx : x ≠ '\'') :
    ∃ e, stateStep cc τ x = .ok (.cont e none false) ∧ At e .byteList ty (cs ++ [x]) p0 p sq 0 ae := by
  obtain ⟨h1, h2, h3, h4, h5, h6, h7, h8, h9, h10, h11, h12, h13⟩ := h
  have hxq : (x == '\'') = false := by simpa using hx
  have hs : stateStep cc τ x = .ok (.cont
      { τ with endQuoteCount := 0, currentCharacters := τ.currentCharacters ++ [x] } none false) := by
    unfold stateStep; rw [h1]; simp [Step.ofPair, armByteList, push, h1, hxq]
  exact ⟨_, hs, by constructor <;> simp_all⟩

theorem arm_byteList_quote (cc : CharClass) (τ : Lexer) {ty cs p0 p sq eq ae}
    (h : At τ .byteList ty cs p0 p sq eq ae) (hne : sq ≠ eq + 1) :
    ∃ e, stateStep cc τ '\'' = .ok (.cont e none false) ∧ At e .byteList ty (cs ++ ['\'']) p0 p sq (eq + 1) ae := by
  obtain ⟨h1, h2, h3, h4, h5, h6, h7, h8, h9, h10, h11, h12, h13⟩ := h
  have hq : (τ.startQuoteCount == τ.endQuoteCount + 1) = false := by rw [h12, h13]; simpa using hne
  have hs : stateStep cc τ '\'' = .ok (.cont
      { τ with endQuoteCount := τ.endQuoteCount + 1, currentCharacters := τ.currentCharacters ++ ['\''] } none false) := by
    unfold stateStep; rw [h1]; simp [Step.ofPair, armByteList, push, h1, hq]
  exact ⟨_, hs, by constructor <;> simp_all⟩

end Garnish.Model.Lexer
