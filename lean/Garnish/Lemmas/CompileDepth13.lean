/-
C06 static half on compiled code, part 13: `loopC` — when the layout loop has finished, every `Expression` constant allocated
from a state on names a body whose first instruction is entered at depth 0, provided every pending root satisfies `TermOK` there.
-/
import Garnish.Lemmas.CompileDepth12
namespace Garnish.Abs
open Garnish Gen Garnish.Spec Garnish.Props.C06

variable {F : Type}

section loop
variable (bodies : List (Nat × Expr F))

theorem loopC : ∀ (fuel : Nat) (s : LState F), Inv s → DInv s →
    (layoutRoots bodies fuel s).pending = [] →
    (∀ q ∈ (layoutRoots bodies fuel s).done, LabelOK q) →
    ((layoutRoots bodies fuel s).done.map (·.patch)).Nodup →
    (∀ id b, lookupBody bodies id = some b → wfE b = true ∧ tailR b = true) →
    (∀ q ∈ (layoutRoots bodies fuel s).done, ∀ id, q.kind = .ref id → ∃ b, lookupBody bodies id = some b) →
    (∀ p ∈ s.pending.zip s.pendDep, TermOK (layoutRoots bodies fuel s) p.1 p.2) →
    ∀ k j, s.consts.size ≤ k → (layoutRoots bodies fuel s).consts[k]? = some (.expr j) → ContOK (layoutRoots bodies fuel s) j
  | 0, s, _, _, _, _, _, _, _, _ => by
    intro k j h1 h2; simp only [layoutRoots] at h2
    rw [Array.getElem?_eq_none h1] at h2; cases h2
  | fuel + 1, s, inv, dinv, hc, hlab, hnd, hprog, hfound, hyp => by
    cases hp : s.pending with
    | nil =>
      intro k j h1 h2; simp only [layoutRoots, hp] at h2
      rw [Array.getElem?_eq_none h1] at h2; cases h2
    | cons r rest =>
      have hr_mem : r ∈ s.pending := by rw [hp]; exact List.mem_cons_self
      have hrest : ∀ q ∈ rest, q ∈ s.pending := fun q hq => by rw [hp]; exact List.mem_cons_of_mem _ hq
      have hz := dinv.zlen
      rw [hp] at hz
      cases hpd : s.pendDep with
      | nil => rw [hpd] at hz; simp at hz
      | cons dr drest =>
        -- facts about the whole run from `s`
        obtain ⟨_, hlocS, _, lS, hlS, hmemS⟩ := layoutRoots_located bodies (fuel + 1) s inv hc hlab hnd
        obtain ⟨_, _, hrootsS⟩ := monoD bodies (fuel + 1) s inv dinv hc hlab hnd
        have hj := head_jump bodies inv hp hc hlab hnd
        have hpair : (r, dr) ∈ s.pending.zip s.pendDep := by rw [hp, hpd]; simp
        have hrD := hrootsS _ hpair
        have hrT := hyp _ hpair
        obtain ⟨hrLab, hrLoc⟩ := (hlocS r hr_mem).1
        have hrRef := inv.ref r hr_mem
        have hr_done : r ∈ (layoutRoots bodies (fuel + 1) s).done := by
          rw [hlS]; exact List.mem_append.2 (.inl (hmemS r hr_mem))
        -- the step
        obtain ⟨inv', _, _, _, _, _, _, _⟩ := layoutRoot_facts bodies inv hp
        obtain ⟨al', _, _, hkeepZ, hzl⟩ := layoutRoot_ghost bodies (r := r) (s := { s with pending := rest })
          (dr := dr) (drest := drest) hpd dinv.al (inv.cont r hr_mem) hrRef
        have dinv' : DInv (layoutRoot bodies r { s with pending := rest }) :=
          ⟨al', by rw [hpd] at hz; simp only [List.length_cons] at hz; simp only at hzl; omega⟩
        simp only [layoutRoots, hp] at hc hlab hnd hfound hyp hj hrD hrT hrLoc hr_done ⊢
        obtain ⟨ev', _, _, _⟩ := layoutRoots_located bodies fuel _ inv' hc hlab hnd
        obtain ⟨dappF, _, hrootsF⟩ := monoD bodies fuel _ inv' dinv' hc hlab hnd
        -- the body of the root and what is known about it
        have hbody : ∃ b, rootBody bodies r = some b ∧ wfE b = true ∧ (noR b = true ∨ (tailR b = true ∧ dr = 0)) ∧
            ContOK (layoutRoots bodies fuel (layoutRoot bodies r { s with pending := rest })) r.containing := by
          cases hk : r.kind with
          | code b =>
            obtain ⟨h1, h2, h3, _⟩ := hrT.2.1 b hk
            exact ⟨b, by simp [rootBody, hk], h1, h2, h3⟩
          | ref id =>
            obtain ⟨b, hb⟩ := hfound r hr_done id hk
            have hd0 := hrT.2.2 id hk
            have hc0 := (hrRef id hk).1
            refine ⟨b, by simp [rootBody, hk, hb], (hprog id b hb).1, .inr ⟨(hprog id b hb).2, hd0⟩, ?_⟩
            rw [hc0]; rw [hd0] at hrD; exact hrD
        obtain ⟨b, hb, hwfb, htlb, hcurb⟩ := hbody
        obtain ⟨tb, htb, hlocb, _⟩ := hrLoc b hb
        have htbs : tb = s.instrs.size := by rw [toProg_jumps, hj] at htb; simpa using htb.symm
        subst htbs
        -- the layout of the root, unfolded
        have hE : layoutRoot bodies r { s with pending := rest } =
            addTerms s.instrs.size
              (emit r.patch r.containing b (LState.mk s.instrs (s.jumps.setIfInBounds r.patch s.instrs.size) s.consts rest
                (r :: s.done) s.depths dr drest)).instrs.back? r.term
              (emit r.patch r.containing b (LState.mk s.instrs (s.jumps.setIfInBounds r.patch s.instrs.size) s.consts rest
                (r :: s.done) s.depths dr drest)) := by
          rw [layoutRoot_eq]
          simp only [bodyState, hb, hpd, List.headD_cons, List.tail_cons]
        generalize hS' : layoutRoot bodies r { s with pending := rest } = S' at *
        generalize hs1 : LState.mk s.instrs (s.jumps.setIfInBounds r.patch s.instrs.size) s.consts rest
          (r :: s.done) s.depths dr drest = s1 at hE
        have s1_instrs : s1.instrs = s.instrs := by rw [← hs1]
        have s1_jsize : s1.jumps.size = s.jumps.size := by rw [← hs1]; simp
        have s1_pending : s1.pending = rest := by rw [← hs1]
        have s1_pd : s1.pendDep = drest := by rw [← hs1]
        have s1_dep : s1.dep = dr := by rw [← hs1]
        rw [← s1_instrs] at hE
        subst hE
        have hp1 : PendOK s1 := fun q hq => by
          rw [s1_pending] at hq; rw [s1_jsize]; exact inv.pend q (hrest q hq)
        have al1 : Al s1 := by
          have : s1.depths = s.depths := by rw [← hs1]
          simp only [Al, this, s1_instrs]; exact dinv.al
        have hreg := root_region (s1 := s1) (r := r) (b := b) (dr := dr) hp1
          (by rw [s1_jsize]; exact inv.cont r hr_mem) al1 s1_dep ev' dappF
          (fun p hp' => hrootsF p hp') hwfb htlb hcurb hrT hrRef
          (fun e he => by
            have : rootBody bodies r = some e := by simp [rootBody, he]
            rw [hb] at this; exact (Option.some.inj this).symm)
          (by have e : s1.instrs.size = s.instrs.size := by rw [s1_instrs]
              rw [← e] at hlocb; exact hlocb)
        -- the roots pending after the step
        have hyp' : ∀ p ∈ (addTerms s1.instrs.size (emit r.patch r.containing b s1).instrs.back? r.term
              (emit r.patch r.containing b s1)).pending.zip
            (addTerms s1.instrs.size (emit r.patch r.containing b s1).instrs.back? r.term
              (emit r.patch r.containing b s1)).pendDep,
            TermOK (layoutRoots bodies fuel (addTerms s1.instrs.size (emit r.patch r.containing b s1).instrs.back? r.term
              (emit r.patch r.containing b s1))) p.1 p.2 := by
          intro p hp'
          by_cases hin : p ∈ s1.pending.zip s1.pendDep
          · rw [s1_pending, s1_pd] at hin
            exact hyp p (by rw [hpd]; simp only [List.zip_cons_cons, List.mem_cons]; exact .inr hin)
          · refine hreg.2 p ?_ hin
            obtain ⟨e1, e2⟩ := addTerms_pending s1.instrs.size (emit r.patch r.containing b s1).instrs.back? r.term
              (emit r.patch r.containing b s1)
            rw [e1, e2] at hp'
            exact hp'
        have hcs := emit_consts r.patch r.containing b s1 (by rw [s1_jsize]; exact inv.cont r hr_mem) hwfb
        have s1_consts : s1.consts = s.consts := by rw [← hs1]
        intro k j h1 h2
        by_cases hlt : k < (addTerms s1.instrs.size (emit r.patch r.containing b s1).instrs.back? r.term
            (emit r.patch r.containing b s1)).consts.size
        · rw [ev'.consts k hlt, addTerms_consts] at h2
          rcases hcs k j (by rw [s1_consts]; exact h1) h2 with rfl | ⟨p, hpz, hpj, id, hid⟩
          · exact hcurb
          · obtain ⟨e1, e2⟩ := addTerms_pending s1.instrs.size (emit r.patch r.containing b s1).instrs.back? r.term
              (emit r.patch r.containing b s1)
            have hpz' : p ∈ (addTerms s1.instrs.size (emit r.patch r.containing b s1).instrs.back? r.term
                (emit r.patch r.containing b s1)).pending.zip
              (addTerms s1.instrs.size (emit r.patch r.containing b s1).instrs.back? r.term
                (emit r.patch r.containing b s1)).pendDep := by rw [e1, e2]; exact hpz
            have h0 := (hyp' p hpz').2.2 id hid
            have hd := hrootsF p hpz'
            rw [h0] at hd
            intro t ht
            exact hd t (by rw [hpj]; exact ht)
        · exact loopC fuel _ inv' dinv' hc hlab hnd hprog hfound hyp' k j (by omega) h2

end loop

end Garnish.Abs
