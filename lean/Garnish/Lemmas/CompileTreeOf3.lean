/-
`treeOf` (3): the numbered skeleton of an expression represents it (`Rep`).
-/
import Garnish.Lemmas.CompileTreeOf2
namespace Garnish.Abs.Tree
open Garnish Garnish.Gen Garnish.Spec Garnish.Abs Garnish.Model.Parser Garnish.Model.Literals Garnish.Model.Build
open Sk

variable {F : Type} (pf : List Char → Option F) (bodies : List (Nat × Expr F))

def Good (s : Sk) (e : Expr F) : Prop :=
  ∀ (tree : Array ParseNode) (lo : Nat) (par : Option Nat), Agree tree s lo par →
    Rep pf tree bodies lo (lo + s.size) (lo + s.root) e

/-- the definition of an operand's root: does not look at `conditional_parent`, and is not a list node -/
def okLab (d : Definition) : Prop := condDef d = false ∧ d ≠ .commaList

def GoodW (s : Sk) (e : Expr F) : Prop := Good pf bodies s e ∧ okLab s.lab.1

def GoodArm (s : Sk) (a : Bool × Expr F × Expr F) : Prop :=
  ∀ (tree : Array ParseNode) (lo : Nat) (par : Option Nat), Agree tree s lo par →
    RepArm pf tree bodies lo (lo + s.size) (lo + s.root) a.1 a.2.1 a.2.2

def GoodArms (s : Sk) (arms : List (Bool × Expr F × Expr F)) : Prop :=
  ∀ (tree : Array ParseNode) (lo : Nat) (par : Option Nat), Agree tree s lo par →
    RepArms pf tree bodies lo (lo + s.size) (lo + s.root) arms

def GoodItems (s : Sk) (items : List (Expr F)) : Prop :=
  ∀ (tree : Array ParseNode) (lo : Nat) (par : Option Nat), Agree tree s lo par →
    RepItems pf tree bodies .commaList lo (lo + s.size) (lo + s.root) items

theorem size_pre (lo : Nat) (d : Lab) (c : Sk) : lo + (Sk.pre d c).size = lo + 1 + c.size := by simp [size]; omega
theorem root_pre (lo : Nat) (d : Lab) (c : Sk) : lo + (Sk.pre d c).root = lo := by simp [root]
theorem size_suf (lo : Nat) (d : Lab) (c : Sk) : lo + (Sk.suf c d).size = lo + c.size + 1 := by simp [size]; omega
theorem root_suf (lo : Nat) (d : Lab) (c : Sk) : lo + (Sk.suf c d).root = lo + c.size := by simp [root]
theorem size_bin (lo : Nat) (d : Lab) (l r : Sk) : lo + (Sk.bin l d r).size = lo + l.size + 1 + r.size := by
  simp [size]; omega
theorem root_bin (lo : Nat) (d : Lab) (l r : Sk) : lo + (Sk.bin l d r).root = lo + l.size := by simp [root]

variable {pf bodies}

theorem LitRep.okLab {d : Lab} {v : Val F} (h : LitRep pf (mkPN d none none none) v) : okLab d.1 := by
  have hd : (mkPN d none none none).definition = d.1 := rfl
  cases h <;> rename_i h1 <;> first
    | (rw [hd] at h1; rw [h1]; exact ⟨rfl, by decide⟩)
    | (rename_i h0; rw [hd] at h0; rw [h0]; exact ⟨rfl, by decide⟩)

theorem LitRep.move {d : Lab} {v : Val F} (par : Option Nat) (h : LitRep pf (mkPN d none none none) v) :
    LitRep pf (mkPN d par none none) v := by
  cases h with
  | unit h => exact .unit h
  | tru h => exact .tru h
  | fls h => exact .fls h
  | num h1 h2 => exact .num h1 h2
  | chars h1 h2 => exact .chars h1 h2
  | bytes h1 h2 => exact .bytes h1 h2
  | sym h1 h2 => exact .sym h1 h2
  | prop h => exact .prop (pn := mkPN d par none none) h

theorem LitRep.moveR {d : Lab} {v : Val F} (par r : Option Nat) (h : LitRep pf (mkPN d none none none) v) :
    LitRep pf (mkPN d par none r) v := by
  cases h with
  | unit h => exact .unit h
  | tru h => exact .tru h
  | fls h => exact .fls h
  | num h1 h2 => exact .num h1 h2
  | chars h1 h2 => exact .chars h1 h2
  | bytes h1 h2 => exact .bytes h1 h2
  | sym h1 h2 => exact .sym h1 h2
  | prop h => exact .prop (pn := mkPN d par none r) h

/-- the definition of the node at the root of an operand -/
theorem root_def {tree : Array ParseNode} {s : Sk} {lo : Nat} {par : Option Nat} (h : Agree tree s lo par) (ho : okLab s.lab.1) :
    NotCond tree (lo + s.root) ∧ NotDef tree (lo + s.root) .commaList := by
  obtain ⟨pn, h1, h2, _, _⟩ := h.rootNode
  refine ⟨fun q hq => ?_, fun q hq => ?_⟩
  · rw [h1] at hq; cases hq; rw [h2]; exact ho.1
  · rw [h1] at hq; cases hq; rw [h2]; exact ho.2

theorem good_wrap {s : Sk} {e : Expr F} (hg : Good pf bodies s e) (hl : isLeafE e = true → okLab s.lab.1) :
    GoodW pf bodies (wrap (isLeafE e) s) e := by
  cases hleaf : isLeafE e with
  | true => exact ⟨by simpa [wrap] using hg, by simpa [wrap] using hl hleaf⟩
  | false =>
    refine ⟨?_, show okLab Definition.group from ⟨rfl, by decide⟩⟩
    intro tree lo par h
    simp only [wrap, Bool.false_eq_true, if_false] at h ⊢
    obtain ⟨h1, h2⟩ := h.pre
    rw [size_pre, root_pre]
    exact Rep.group h1 rfl rfl (hg _ _ _ h2)

/-! ### spines -/

inductive All2 {α β : Type} (R : α → β → Prop) : List α → List β → Prop where
  | nil : All2 R [] []
  | cons {a b as bs} : R a b → All2 R as bs → All2 R (a :: as) (b :: bs)


theorem arm_one {s : Sk} {a : Bool × Expr F × Expr F} (h : GoodArm pf bodies s a) : GoodArms pf bodies s [a] :=
  fun tree lo par ha => RepArms.one (h tree lo par ha)

theorem arms_step {acc x : Sk} {A : List (Bool × Expr F × Expr F)} {a : Bool × Expr F × Expr F}
    (h1 : GoodArms pf bodies acc A) (h2 : GoodArm pf bodies x a) :
    GoodArms pf bodies (.bin acc ej x) (A ++ [a]) ∧ Good pf bodies (.bin acc ej x) (.chain (A ++ [a]) none) := by
  refine ⟨fun tree lo par h => ?_, fun tree lo par h => ?_⟩
  · obtain ⟨hn, ha, hb⟩ := h.bin
    rw [size_bin, root_bin]
    exact RepArms.more hn rfl rfl rfl (h1 _ _ _ ha) (h2 _ _ _ hb)
  · obtain ⟨hn, ha, hb⟩ := h.bin
    rw [size_bin, root_bin]
    exact Rep.chainNoFinal hn rfl rfl rfl (h1 _ _ _ ha) (h2 _ _ _ hb)

theorem arms_spine : ∀ (rest : List Sk) (R : List (Bool × Expr F × Expr F)) (acc : Sk) (A : List (Bool × Expr F × Expr F)),
    GoodArms pf bodies acc A → All2 (GoodArm pf bodies) rest R → GoodArms pf bodies (spine ej acc rest) (A ++ R)
  | [], _, acc, A, h1, h2 => by cases h2; simpa [spine] using h1
  | x :: rest, _, acc, A, h1, h2 => by
    cases h2 with
    | cons hx hr =>
      rename_i a R
      have := arms_spine rest R (.bin acc ej x) (A ++ [a]) (arms_step h1 hx).1 hr
      simpa [spine] using this

theorem chain_spine : ∀ (rest : List Sk) (R : List (Bool × Expr F × Expr F)) (acc : Sk) (A : List (Bool × Expr F × Expr F)),
    GoodArms pf bodies acc A → Good pf bodies acc (.chain A none) → All2 (GoodArm pf bodies) rest R →
    Good pf bodies (spine ej acc rest) (.chain (A ++ R) none)
  | [], _, acc, A, _, h0, h2 => by cases h2; simpa [spine] using h0
  | x :: rest, _, acc, A, h1, _, h2 => by
    cases h2 with
    | cons hx hr =>
      rename_i a R
      have := chain_spine rest R (.bin acc ej x) (A ++ [a]) (arms_step h1 hx).1 (arms_step h1 hx).2 hr
      simpa [spine] using this

theorem items_two {a b : Sk} {ea eb : Expr F} (h1 : GoodW pf bodies a ea) (h2 : GoodW pf bodies b eb) :
    GoodItems pf bodies (.bin a comma b) [ea, eb] := by
  intro tree lo par h
  obtain ⟨hn, ha, hb⟩ := h.bin
  rw [size_bin, root_bin]
  exact RepItems.two hn rfl rfl rfl (root_def ha h1.2).2 (root_def hb h2.2).2 (h1.1 _ _ _ ha) (h2.1 _ _ _ hb)

theorem items_step {acc x : Sk} {A : List (Expr F)} {b : Expr F} (h1 : GoodItems pf bodies acc A) (h2 : GoodW pf bodies x b) :
    GoodItems pf bodies (.bin acc comma x) (A ++ [b]) := by
  intro tree lo par h
  obtain ⟨hn, ha, hb⟩ := h.bin
  rw [size_bin, root_bin]
  exact RepItems.snoc hn rfl rfl rfl (root_def hb h2.2).2 (h1 _ _ _ ha) (h2.1 _ _ _ hb)

theorem items_spine : ∀ (rest : List Sk) (R : List (Expr F)) (acc : Sk) (A : List (Expr F)),
    GoodItems pf bodies acc A → All2 (GoodW pf bodies) rest R → GoodItems pf bodies (spine comma acc rest) (A ++ R)
  | [], _, acc, A, h1, h2 => by cases h2; simpa [spine] using h1
  | x :: rest, _, acc, A, h1, h2 => by
    cases h2 with
    | cons hx hr =>
      rename_i b R
      have := items_spine rest R (.bin acc comma x) (A ++ [b]) (items_step h1 hx) hr
      simpa [spine] using this

end Garnish.Abs.Tree
