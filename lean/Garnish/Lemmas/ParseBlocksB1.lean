/-
`refParseB` on `v [ body ]`, reference side: block-free segments of `refLoopB` are `refRun` (`refLoopB_segment`), what a
successful `refLoop` says about its tokens (`refLoop_ok_noblock`, `refLoop_ok_balanced`), and the run over the body of a
block in run form (`body_run`), obtained from the loop-form statement of the fragment induction (`ex_ok`).
-/
import Garnish.Lemmas.RefParseB1
import Garnish.Lemmas.RefWrap3d
import Garnish.Lemmas.ParseBlocksB0

namespace Garnish.Spec
open Garnish Garnish.Gen Garnish.Model.Parser

theorem refLoopB_segment : ∀ (seg : List PToken) (s : BSt) (pos : Nat) (rest : List PToken), s.pend = none →
    (∀ t ∈ seg, noBlockTok t = true) →
    refLoopB Table.gen s pos (seg ++ rest) =
      Outcome.bind (refRun Table.gen s.f s.stack pos seg rest) fun p =>
        refLoopB Table.gen { s with f := p.1, stack := p.2 } (pos + seg.length) rest
  | [], s, pos, rest, hp, _ => by
    simp only [List.nil_append, refRun, Outcome.bind, List.length_nil, Nat.add_zero]
  | t :: seg, s, pos, rest, hp, h => by
    simp only [List.cons_append, refRun]
    rw [refLoopB]
    rw [refStepB_noblock (h t (List.mem_cons_self ..)) s hp]
    cases hs : refStep Table.gen s.f s.stack pos t (seg ++ rest) with
    | ok fs =>
      simp only [liftStep, Outcome.bind]
      rw [refLoopB_segment seg _ (pos + 1) rest rfl (fun x hx => h x (List.mem_cons_of_mem _ hx))]
      have : pos + 1 + seg.length = pos + (seg.length + 1) := by omega
      simp only [List.length_cons, this]
      rw [hp]; rfl
    | err _ => rfl
    | panic _ => rfl
    | fuelOut => rfl

theorem refStep_block_err {t : PToken} (h : noBlockTok t = false) (f : Frame) (S : List Frame) (pos : Nat)
    (rest : List PToken) : refStep Table.gen f S pos t rest = .err .unsupported := by
  unfold noBlockTok at h
  unfold refStep
  simp only [Bool.not_eq_false', Bool.or_eq_true, beq_iff_eq] at h
  rcases h with h | h <;> rw [h] <;> rfl

theorem refLoop_ok_noblock : ∀ (toks : List PToken) (f : Frame) (S : List Frame) (pos : Nat) (T : RTree),
    refLoop Table.gen f S pos toks = .ok T → ∀ t ∈ toks, noBlockTok t = true
  | [], _, _, _, _, _, t, ht => by cases ht
  | x :: toks, f, S, pos, T, h, t, ht => by
    unfold refLoop at h
    cases hx : noBlockTok x with
    | false => rw [refStep_block_err hx] at h; cases h
    | true =>
      rcases List.mem_cons.mp ht with e | e
      · rw [e]; exact hx
      · cases hs : refStep Table.gen f S pos x toks with
        | ok fs => rw [hs] at h; exact refLoop_ok_noblock toks fs.1 fs.2 (pos + 1) T h t e
        | err _ => rw [hs] at h; cases h
        | panic _ => rw [hs] at h; cases h
        | fuelOut => rw [hs] at h; cases h

theorem refLoop_ok_balanced : ∀ (toks : List PToken) (f : Frame) (S : List Frame) (pos : Nat) (T : RTree),
    refLoop Table.gen f S pos toks = .ok T → balancedFrom S.length toks = true
  | [], f, S, pos, T, h => by
    unfold refLoop at h
    cases S with
    | nil => rfl
    | cons _ _ => simp at h
  | t :: toks, f, S, pos, T, h => by
    unfold refLoop at h
    simp only [balancedFrom]
    cases hs : refStep Table.gen f S pos t toks with
    | ok fs =>
      obtain ⟨f1, S1⟩ := fs
      rw [hs] at h
      simp only [Outcome.bind] at h
      have ih := refLoop_ok_balanced toks f1 S1 (pos + 1) T h
      by_cases hc : secOf t = .endGrouping
      · have hns : (secOf t == SecDef.startGrouping) = false := by rw [hc]; rfl
        rw [hns, if_neg (by simp), hc, if_pos (by rfl)]
        cases S with
        | nil =>
          exfalso
          unfold secOf at hc
          unfold refStep at hs
          have hd : Table.gen.define t.type = getDefinition t.type := rfl
          rw [hd] at hs
          generalize getDefinition t.type = ds at hc hs
          obtain ⟨d, s⟩ := ds
          simp only at hc
          subst hc
          simp only at hs
          cases hctx : f.ctx <;> simp [hctx] at hs
        | cons parent S0 =>
          obtain ⟨e1, _, _⟩ := refStep_closer hc hs
          subst e1
          simpa using ih
      · have hce : (secOf t == SecDef.endGrouping) = false := by simpa using hc
        rw [refStep_noclose hc f S] at hs
        cases hs0 : refStep Table.gen f [] pos t toks with
        | ok fs0 =>
          obtain ⟨f0, Y⟩ := fs0
          rw [hs0] at hs
          simp only [Outcome.mapT, Outcome.ok.injEq, Prod.mk.injEq] at hs
          obtain ⟨_, e2⟩ := hs
          rcases refStep_noclose_shape hc hs0 with ⟨hop, g1, hY, _⟩ | ⟨hnop, hY, _⟩
          · subst hY; subst e2
            simp only [hop, beq_self_eq_true, if_true]
            simpa using ih
          · subst hY; subst e2
            have hns : (secOf t == SecDef.startGrouping) = false := by simpa using hnop
            simp only [hns, hce, Bool.false_eq_true, if_false]
            simpa using ih
        | err _ => rw [hs0] at hs; cases hs
        | panic _ => rw [hs0] at hs; cases hs
        | fuelOut => rw [hs0] at hs; cases hs
    | err _ => rw [hs] at h; cases h
    | panic _ => rw [hs] at h; cases h
    | fuelOut => rw [hs] at h; cases h

/-- a run of trivia tokens only sets the `ws` flag -/
theorem refRun_trivia : ∀ (ws : List PToken), (∀ w ∈ ws, isTriviaTok w = true) → ∀ (f : Frame) (S : List Frame) (pos : Nat)
    (rest : List PToken), ∃ b, refRun Table.gen f S pos ws rest = .ok ({ f with ws := b }, S)
  | [], _, f, S, _, _ => ⟨f.ws, rfl⟩
  | w :: ws, h, f, S, pos, rest => by
    have hw := h w (List.mem_cons_self ..)
    simp only [refRun]
    unfold isTriviaTok at hw
    simp only [Bool.or_eq_true, beq_iff_eq] at hw
    rcases hw with (hw | hw) | hw
    · rw [refStep_whitespace (by simp [isWsTok, hw])]
      simp only [Outcome.bind]
      obtain ⟨b, hb⟩ := refRun_trivia ws (fun x hx => h x (List.mem_cons_of_mem _ hx)) { f with ws := true } S (pos + 1) rest
      exact ⟨b, hb⟩
    · rw [refStep_annotation (by simp [isAnnTok, hw])]
      simp only [Outcome.bind]
      exact refRun_trivia ws (fun x hx => h x (List.mem_cons_of_mem _ hx)) f S (pos + 1) rest
    · rw [refStep_annotation (by simp [isAnnTok, hw])]
      simp only [Outcome.bind]
      exact refRun_trivia ws (fun x hx => h x (List.mem_cons_of_mem _ hx)) f S (pos + 1) rest

theorem trivia_noblock {ws : List PToken} (h : ∀ w ∈ ws, isTriviaTok w = true) : ∀ w ∈ ws, noBlockTok w = true := by
  intro w hw
  have := h w hw
  unfold isTriviaTok at this
  unfold noBlockTok
  simp only [Bool.or_eq_true, beq_iff_eq] at this
  rcases this with (e | e) | e <;> rw [e] <;> rfl

theorem unB_shift (k : Nat) : ∀ t : RTree, unB (t.shift k) = (unB t).shift k
  | .nil => rfl
  | .node l d p r => by simp only [RTree.shift, unB, unB_shift k l, unB_shift k r]
  | .group d p i => by
    simp only [RTree.shift, unB]
    split <;> simp only [RTree.shift, unB_shift k i]

end Garnish.Spec
