/-
Acceptance on the operator fragment: the model of `parse` returns `.ok` for every list `value (trivia* binop trivia* value)*`.
-/
import Garnish.Lemmas.ParserAccept

namespace Garnish.Spec
open Garnish Garnish.Gen Garnish.Model.Parser

/-- both steps of a (binary operator, value) pair succeed -/
theorem pair_ok {st : PState} {T : Tree} {rt : Nat} {o a : PToken} (il : Bool)
    (hinv : FragInv st T rt) (ho : isBinopTok o = true) (ha : isAtom10 a = true) :
    ∃ st1 st2, step st o false = .ok st1 ∧ step st1 a il = .ok st2 := by
  have hinv' := hinv
  obtain ⟨htree, hin, hpos, hll, hcfl, hnnl, hgs, hcg, hprios, ⟨bnd, hb1, hb2⟩, hprev⟩ := hinv
  have ho' := ho
  unfold isBinopTok at ho'
  obtain ⟨q, hq, hq10⟩ := binop_prio o.type ho'
  obtain ⟨f1, f2, f3, f4⟩ := binop_def_facts o.type ho'
  obtain ⟨hsa, hqa⟩ := atom10_facts ha
  have hso := binop_secdef ho
  obtain ⟨hadj, _, _⟩ := fragInv_adjust hinv'
  -- the walk of the operator
  have hchain : Chain st.nodes (rspineUp T) := by
    have := chain_of_tree hprios htree [] trivial rfl
    simpa using this
  have hhead : (rspineUp T).head? = some (st.nodes.size - 1) := by
    rw [rspineUp_head, hin, List.getLast?_range]; simp [Nat.ne_of_gt hpos]
  have hlen : (rspineUp T).length ≤ st.nodes.size := by
    have := rspineUp_length T; rw [hin] at this; simpa using this
  have hwalk := walkLoop_chain st.nodes q ((getDefinition o.type).2 == .binaryRightToLeft) (rspineUp T)
    (st.nodes.size + 1) 0 (some (st.nodes.size - 1)) hchain (by omega) (by omega)
  rw [hhead] at hwalk
  have hbot : bottomOK (prioAt st.nodes) q ((getDefinition o.type).2 == .binaryRightToLeft) T := by
    apply bottomOK_of_last
    intro b hb
    rw [hin, List.getLast?_range] at hb
    simp only [Nat.ne_of_gt hpos, if_false, Option.some.injEq] at hb
    subst hb
    have : prioAt st.nodes (st.nodes.size - 1) = 10 := by simp [prioAt, hb1, hb2]
    rw [this]; exact stops_ten _ hq10
  have hnd : T.inorder.Nodup := by rw [hin]; exact List.nodup_range
  have hmem : ∀ j, j ∈ T.inorder ↔ j < st.nodes.size := by intro j; rw [hin]; exact List.mem_range
  obtain ⟨hS, hN⟩ := walk_insert st.nodes q ((getDefinition o.type).2 == .binaryRightToLeft) st.nodes.size o.col a.col
    htree rt rfl hnd hbot (some (st.nodes.size - 1))
  -- `parse_token` of the operator succeeds, and returns `right` unchanged
  have hpt : ∃ nodes' info, parseToken st.nodes.size (getDefinition o.type).1 (some (st.nodes.size - 1))
      (some (st.nodes.size + 1)) st.nodes none ((getDefinition o.type).2 == .binaryRightToLeft) = .ok (nodes', info) ∧
      info.right = some (st.nodes.size + 1) := by
    rcases hw : walkSpec st.nodes q ((getDefinition o.type).2 == .binaryRightToLeft) (some (st.nodes.size - 1))
      (rspineUp T) with ⟨tl, par⟩
    rw [hw] at hwalk
    cases par with
    | some x =>
      obtain ⟨tlv, t', nx, e1, m1, _, ne, hx, hxr, _, _⟩ := hS tl x hw
      subst e1
      obtain ⟨nodes', info, h⟩ := parseToken_stop_ok (id := st.nodes.size) (right := some (st.nodes.size + 1)) hq hwalk ne
        hx hxr ((hmem tlv).mp m1)
      exact ⟨nodes', info, h, (parseToken_stop hq hwalk ne hx hxr h).1 ▸ rfl⟩
    | none =>
      obtain ⟨e1, _, _⟩ := hN tl hw
      subst e1
      obtain ⟨nodes', info, h⟩ := parseToken_root_ok (id := st.nodes.size) (right := some (st.nodes.size + 1)) hq hwalk
        ((hmem rt).mp htree.root_mem)
      exact ⟨nodes', info, h, (parseToken_root hq hwalk h).1 ▸ rfl⟩
  obtain ⟨nodes', info, hpt, hir⟩ := hpt
  obtain ⟨st1, h1⟩ := step_binop_ok st o ho hcg hadj (by rw [hcfl]; exact composition_atom_binop _ _ hprev hso)
    ⟨nodes', info, by rw [hll]; exact hpt⟩
  refine ⟨st1, ?_⟩
  -- the state after the operator
  obtain ⟨nodes1, info1, hpt1, hn1, hl1, hc1, hnl1, hgs1, hcg1, hp1⟩ := step_binop_spec st st1 o ho hnnl hcg hadj h1
  rw [hll] at hpt1
  rw [hpt] at hpt1
  injection hpt1 with hpt1; injection hpt1 with e1 e2; subst e1; subst e2
  have hsz' : nodes'.size = st.nodes.size := (parseToken_size_def hpt).1
  have hs1 : st1.nodes.size = st.nodes.size + 1 := by rw [hn1]; simp [hsz']
  have hopn : st1.nodes[st.nodes.size]? =
      some ⟨(getDefinition o.type).1, (getDefinition o.type).2, info.parent, info.left, info.right, o⟩ := by
    rw [hn1, ← hsz']; simp
  have hadj1 : adjustLastLeft st1 none = .ok st1 := by
    unfold adjustLastLeft
    have : ((getDefinition o.type).1 == Definition.sideEffect) = false := not_sideEffect_of_not_groupLike f4
    simp [hl1, hopn, this]
  obtain ⟨st2, h2⟩ := step_atom_ok st1 a il hsa hc1 hcg1 hadj1 (by rw [hp1]; exact composition_binop_atom _ _ hso hsa)
    (by
      rw [hl1]
      have := parseToken_atom_ok (nodes := st1.nodes) (m := st.nodes.size) (qo := q) (d := (getDefinition a.type).1)
        (right := none) (rtl := false) hqa hopn hq hq10 (by simp [hir, hs1])
      rw [hs1] at this ⊢
      exact this)
  exact ⟨st2, h1, h2⟩

/-- the loop over the items succeeds and re-establishes the invariant -/
theorem loop_items_ok : ∀ (items : List WItem) (st : PState) (T : Tree) (rt : Nat), FragInv st T rt →
    (∀ it ∈ items, it.ok) → ∃ stF TF rtF, loop st (flatDec items) = .ok stF ∧ FragInv stF TF rtF
  | [], st, T, rt, hinv, _ => ⟨st, T, rt, rfl, hinv⟩
  | it :: items, st, T, rt, hinv, hoks => by
    have hok := hoks it (List.mem_cons_self ..)
    obtain ⟨st1, st2, h1, h2⟩ := pair_ok (flatDec items).isEmpty hinv hok.2.1 hok.2.2.2
    obtain ⟨q, rt', _, hinv2, _⟩ := pair_step hinv hok.2.1 hok.2.2.2 h1 h2
    obtain ⟨stF, TF, rtF, hl, hF⟩ := loop_items_ok items st2 _ rt' hinv2 (fun x hx => hoks x (List.mem_cons_of_mem _ hx))
    refine ⟨stF, TF, rtF, ?_, hF⟩
    simp only [flatDec]
    rw [item_loop_eq hinv it hok, h1]
    simp only [Outcome.bind, h2, hl]

theorem first_step_ok (a : PToken) (il : Bool) (ha : isAtom10 a = true) : ∃ st0, step PState.init a il = .ok st0 := by
  obtain ⟨hsa, hqa⟩ := atom10_facts ha
  apply step_atom_ok PState.init a il hsa rfl rfl rfl
  · rcases hsa with h | h <;> rw [h] <;> rfl
  · exact parseToken_first_ok hqa

/-- **acceptance on the fragment** -/
theorem parse_items_ok (a0 : PToken) (items : List WItem) (ha0 : isAtom10 a0 = true) (hoks : ∀ it ∈ items, it.ok) :
    ∃ r, parse (a0 :: flatDec items) = .ok r := by
  obtain ⟨htrim, _, _⟩ := trim_id (a0 :: flatDec items) (by simp) (atom10_not_trimmable ha0)
    (atom10_not_trimmable (last_atom_items items a0 ha0 hoks))
  obtain ⟨st0, h0⟩ := first_step_ok a0 (flatDec items).isEmpty ha0
  obtain ⟨hinv0, _⟩ := first_step ha0 h0
  obtain ⟨stF, TF, rtF, hl, hF⟩ := loop_items_ok items st0 _ 0 hinv0 hoks
  obtain ⟨r, hr⟩ := finish_ok hF
  refine ⟨r, ?_⟩
  unfold parse
  rw [htrim]
  simp only [Outcome.bind, List.isEmpty_cons, Bool.false_eq_true, if_false, loop, h0, hl, hr]

theorem parse_frag4_ok (toks : List PToken) (hf : frag4 toks = true) : ∃ r, parse toks = .ok r := by
  obtain ⟨a0, items, rfl, ha0, hoks⟩ := frag4_sound hf
  exact parse_items_ok a0 items ha0 hoks

end Garnish.Spec
