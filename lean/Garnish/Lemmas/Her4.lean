/-
Lemmas/NoCustom4.lean parametrised: `HostHer`, `HerState`, `ConstsHer`, `applyKind` (`KindHer`).
-/
import Garnish.Lemmas.Her3
set_option linter.unusedSimpArgs false
set_option linter.unusedVariables false
set_option linter.unusedSectionVars false
namespace Garnish.Lemmas.Her
open Garnish Gen Garnish.Abs

variable {F : Type} {q : Val F → Bool} [hq : LeafOK q] (fo : FloatOps F)

/-- the host's answers satisfy the test -/
structure HostHer (q : Val F → Bool) (host : Host F) : Prop where
  defer : ∀ op l r v, host.defer op l r = some v → her q v = true
  resolve : ∀ y v, host.resolve y = some v → her q v = true
  apply : ∀ n a v, host.apply n a = some v → her q v = true

/-- the test holds everywhere in the machine state: registers, input values, the registers the frames saved -/
structure HerState (q : Val F → Bool) (m : MState F) : Prop where
  regs : herL q m.regs = true
  vals : herL q m.vals = true
  frames : ∀ fr ∈ m.frames, herL q fr.saved = true

/-- the constants satisfy the test -/
def ConstsHer (q : Val F → Bool) (P : Prog F) : Prop := ∀ (k : Nat) (v : Val F), P.consts[k]? = some v → her q v = true

theorem her_narrowRange {a b v : Val F} (h : narrowRange fo a b = .ok v) : her q v = true := by
  unfold narrowRange at h
  split at h
  · split at h
    · split at h
      · cases h; show (her q (.num _) && her q (.num _)) = true; rw [her_num, her_num]; rfl
      · cases h
    · cases h
  · cases h

theorem her_merge {l r v : Val F} (h : mergeSymList l r = some v) : her q v = true := by
  cases l <;> cases r <;> simp [mergeSymList] at h <;> (subst h; exact her_symList _)

theorem outHer_acc {a : Acc F} (h : ∀ v, a = .some v → her q v = true) :
    OutHer q (match a with
      | .some v => OpOut.val v | .none => .val .unit | .unsupported => .err .unsupported | .err e => .err e) := by
  cases a with
  | some v => exact h v rfl
  | none => fresh
  | unsupported => trivial
  | err e => trivial

/-- what `applyKind` hands on is custom-free -/
def KindHer (q : Val F → Bool) : ApplyKind F → Prop
  | .enter _ input => her q input = true
  | .external _ arg => her q arg = true
  | .out o => OutHer q o

theorem acc_some {a : Acc F} {k : ApplyKind F}
    (hk : (match a with
      | .some v => ApplyKind.out (.val v) | .none => .out (.val .unit) | .unsupported => .out (.err .unsupported)
      | .err e => .out (.err e)) = k) (h : ∀ v, a = .some v → her q v = true) : KindHer q k := by
  cases a with
  | some v => subst hk; exact h v rfl
  | none => subst hk; fresh
  | unsupported => subst hk; trivial
  | err e => subst hk; trivial

/-- `apply_internal` at value level: the new input value of an entered body, the argument offered to the host and the
value of an outcome are custom-free -/
theorem applyKind_her (instr : Instruction) (ur : Bool) {l r : Val F} (hl : her q l = true) (hr : her q r = true) :
    KindHer q (applyKind fo instr ur l r) := by
  generalize hk : applyKind fo instr ur l r = k
  unfold applyKind at hk
  simp only [] at hk
  split at hk
  · subst hk; exact hr
  · subst hk; exact hr
  · subst hk
    simp [her] at hl
    cases ur
    · exact hl.2
    · show (her q _ && her q _) = true; rw [hl.2, hr]; rfl
  · subst hk; fresh
  · split at hk
    · subst hk; exact her_merge ‹_›
    · subst hk; trivial
  · split at hk
    · subst hk; exact her_merge ‹_›
    · subst hk; trivial
  · split at hk
    · subst hk; exact her_merge ‹_›
    · subst hk; trivial
  · split at hk
    · subst hk; exact her_narrowRange fo ‹_›
    · subst hk; trivial
  · split at hk
    · subst hk
      simp [her] at hl
      show (her q _ && her q _) = true
      rw [hl.1, her_narrowRange fo ‹_›]; fresh
    · subst hk; trivial
  · exact acc_some hk (fun v h => her_accessInt fo hl h)
  · exact acc_some hk (fun v h => her_accessInt fo hl h)
  · exact acc_some hk (fun v h => her_accessInt fo hl h)
  · exact acc_some hk (fun v h => her_accessSym hl h)
  · exact acc_some hk (fun v h => her_accessSym hl h)
  · exact acc_some hk (fun v h => her_accessPath fo _ _ _ hl h)
  all_goals first
    | (subst hk; show (her q _ && her q _) = true; rw [hl, hr]; fresh)
    | (subst hk; trivial)

end Garnish.Lemmas.Her
