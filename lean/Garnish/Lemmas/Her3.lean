/-
Lemmas/NoCustom3.lean parametrised: `OutHer`, `unaryOp` / `binaryOp`.
-/
import Garnish.Lemmas.Her2
set_option linter.unusedSimpArgs false
set_option linter.unusedVariables false
set_option linter.unusedSectionVars false
namespace Garnish.Lemmas.Her
open Garnish Gen Garnish.Abs

variable {F : Type} {q : Val F → Bool} [hq : LeafOK q] (fo : FloatOps F)

/-- the value an outcome carries is custom-free -/
def OutHer (q : Val F → Bool) : OpOut F → Prop
  | .val v => her q v = true
  | _ => True

theorem her_numResult (o : Option (Number F)) : her q (numResult o) = true := by cases o <;> fresh

theorem outHer_arithBinary (op : Instruction) (nop : NumOp) (l r : Val F) : OutHer q (arithBinary fo op nop l r) := by
  unfold arithBinary
  split
  · exact her_numResult _
  · trivial

theorem outHer_arithUnary (op : Instruction) (nop : NumOp) (v : Val F) : OutHer q (arithUnary fo op nop v) := by
  unfold arithUnary
  split
  · exact her_numResult _
  · trivial

theorem her_cmpOp (accept : Ordering → Bool) (l r : Val F) : her q (cmpOp fo accept l r) = true := by
  unfold cmpOp
  split <;> first | exact her_ofBool _ | fresh

theorem outHer_access {l r : Val F} (hl : her q l = true) (hr : her q r = true) : OutHer q (access fo l r) := by
  have hm : OutHer q (match mergeSymList l r with | some v => OpOut.val v | none => .err .data) := by
    cases h : mergeSymList l r with
    | none => trivial
    | some v =>
      show her q v = true
      cases l <;> cases r <;> simp [mergeSymList] at h <;> (subst h; fresh)
  have hg : OutHer q (match getAccess fo r l with
      | .some v => OpOut.val v | .none => .val .unit | .unsupported => .defer .access l r | .err e => .err e) := by
    cases h : getAccess fo r l with
    | some v => exact her_getAccess fo hl h
    | none => fresh
    | unsupported => trivial
    | err e => trivial
  unfold access
  simp only []
  split <;> first | exact hm | exact hg | trivial

theorem outHer_left {v : Val F} (hv : her q v = true) : OutHer q (accessLeftInternal v) := by
  unfold accessLeftInternal
  split <;> first
    | trivial
    | exact her_num _
    | exact her_unit
    | (simp [her] at hv; exact hv.1)

theorem outHer_right {v : Val F} (hv : her q v = true) : OutHer q (accessRightInternal v) := by
  unfold accessRightInternal
  split <;> first
    | trivial
    | exact her_num _
    | exact her_unit
    | (simp [her] at hv; exact hv.2)

theorem outHer_length (v : Val F) : OutHer q (accessLengthInternal fo v) := by
  unfold accessLengthInternal
  split <;> first | fresh | trivial | (split <;> first | fresh | trivial)

theorem outHer_makeRange (a b : Bool) (l r : Val F) : OutHer q (makeRange fo a b l r) := by
  unfold makeRange
  split
  · simp only []
    split <;> first
      | trivial
      | (show (her q (.num _) && her q (.num _)) = true; rw [her_num, her_num]; rfl)
  · trivial

theorem outHer_unaryOp {op : Instruction} {v : Val F} {o : OpOut F} (hv : her q v = true) (h : unaryOp fo op v = some o) :
    OutHer q o := by
  cases op <;> simp [unaryOp, numOpOf] at h <;> subst h <;> first
    | exact outHer_arithUnary fo _ _ _
    | exact her_ofBool _
    | fresh
    | exact outHer_left hv
    | exact outHer_right hv
    | exact outHer_length fo v

theorem outHer_binaryOp {op : Instruction} {l r : Val F} {o : OpOut F} (hl : her q l = true) (hr : her q r = true)
    (h : binaryOp fo op l r = some o) : OutHer q o := by
  cases op <;> simp [binaryOp, numOpOf] at h <;> subst h <;> first
    | exact outHer_arithBinary fo _ _ _ _
    | exact her_ofBool _
    | exact her_cmpOp fo _ _ _
    | (show her q (typeEqual l r) = true; unfold typeEqual; exact her_ofBool _)
    | (show (her q l && her q r) = true; rw [hl, hr]; fresh)
    | exact outHer_access fo hl hr
    | exact outHer_makeRange fo _ _ _ _

end Garnish.Lemmas.Her
