/-
Trace half of the step simulation, part 3 (mirrors Lemmas/RuntimeStep3.lean): the generic-arm instructions.
-/
import Garnish.Lemmas.RuntimeTrace
import Garnish.Lemmas.RuntimeStep9
set_option linter.unusedSimpArgs false
set_option linter.unusedVariables false
namespace Garnish.Lemmas.Runtime
open Garnish Gen Garnish.Abs Garnish.Model.Equality Garnish.Model.Runtime Garnish.Props.RuntimeRefine

variable {F σ : Type} {S : RStore F σ} {P : Prog F} {host : Host F} (fo : FloatOps F)

/-- the twelve binary arithmetic / bitwise instructions -/
theorem stepTrace_arith_binary (L : StoreLaws S) (HR : HostRefines S host) (fuel : Nat) (H : OtherHandlers σ)
    {s : σ} {m : MState F} (hsim : Sim S P s m) {op : Instruction} {operand : Option Nat} {nop : NumOp}
    (hfetch : P.instrs[m.pc]? = some (op, operand)) (hop : numOpOf op = some nop) (hbin : nop.isUnary = false)
    {vr vl : Val F} {rs : List (Val F)} (hregs : m.regs = vr :: vl :: rs) :
    StepTrace fo host S P fuel H s m := by
  obtain ⟨hg, hu, hb, hdisp⟩ := arith_facts_binary (S := S) fo hop hbin fuel H operand vl vr
  exact stepTrace_binary fo L HR fuel H hsim hfetch hg hregs hu hb
    (fun r l rest hr dl dr => by rw [hdisp]; exact C08_refine_perform_op fo L op nop hr dl dr)
    (fun op' a b h => arithBinary_defer fo h)

/-- the three unary ones -/
theorem stepTrace_arith_unary (L : StoreLaws S) (HR : HostRefines S host) (fuel : Nat) (H : OtherHandlers σ)
    {s : σ} {m : MState F} (hsim : Sim S P s m) {op : Instruction} {operand : Option Nat} {nop : NumOp}
    (hfetch : P.instrs[m.pc]? = some (op, operand)) (hop : numOpOf op = some nop) (hun : nop.isUnary = true)
    {v : Val F} {rs : List (Val F)} (hregs : m.regs = v :: rs) :
    StepTrace fo host S P fuel H s m := by
  obtain ⟨hg, hu, hdisp⟩ := arith_facts_unary (S := S) fo hop hun fuel H operand v
  exact stepTrace_unary fo L HR fuel H hsim hfetch hg hregs hu
    (fun a rest hr da => by rw [hdisp]; exact C08_refine_perform_unary_op fo L op nop hr da)
    (fun op' a b h => arithUnary_defer fo h)

/-- `Not`, `Tis` -/
theorem stepTrace_not (L : StoreLaws S) (HR : HostRefines S host) (fuel : Nat) (H : OtherHandlers σ)
    {s : σ} {m : MState F} (hsim : Sim S P s m) {operand : Option Nat}
    (hfetch : P.instrs[m.pc]? = some (.not, operand)) {v : Val F} {rs : List (Val F)} (hregs : m.regs = v :: rs) :
    StepTrace fo host S P fuel H s m :=
  stepTrace_unary fo L HR fuel H hsim hfetch rfl hregs (o := .val (Val.ofBool (!v.truthy))) rfl
    (fun a rest hr da => C10_refine_not L hr da) (fun _ _ _ h => by cases h)

theorem stepTrace_tis (L : StoreLaws S) (HR : HostRefines S host) (fuel : Nat) (H : OtherHandlers σ)
    {s : σ} {m : MState F} (hsim : Sim S P s m) {operand : Option Nat}
    (hfetch : P.instrs[m.pc]? = some (.tis, operand)) {v : Val F} {rs : List (Val F)} (hregs : m.regs = v :: rs) :
    StepTrace fo host S P fuel H s m :=
  stepTrace_unary fo L HR fuel H hsim hfetch rfl hregs (o := .val (Val.ofBool v.truthy)) rfl
    (fun a rest hr da => C10_refine_tis L hr da) (fun _ _ _ h => by cases h)

/-- `Xor`, `Concat`, `PartialApply`: a value, never the host -/
theorem stepTrace_xor (L : StoreLaws S) (HR : HostRefines S host) (fuel : Nat) (H : OtherHandlers σ)
    {s : σ} {m : MState F} (hsim : Sim S P s m) {operand : Option Nat}
    (hfetch : P.instrs[m.pc]? = some (.xor, operand)) {vr vl : Val F} {rs : List (Val F)}
    (hregs : m.regs = vr :: vl :: rs) : StepTrace fo host S P fuel H s m :=
  stepTrace_binary fo L HR fuel H hsim hfetch rfl hregs (o := .val (Val.ofBool (vl.truthy != vr.truthy))) rfl rfl
    (fun r l rest hr dl dr => C10_refine_xor L hr dl dr) (fun _ _ _ h => by cases h)

theorem stepTrace_concat (L : StoreLaws S) (HR : HostRefines S host) (fuel : Nat) (H : OtherHandlers σ)
    {s : σ} {m : MState F} (hsim : Sim S P s m) {operand : Option Nat}
    (hfetch : P.instrs[m.pc]? = some (.concat, operand)) {vr vl : Val F} {rs : List (Val F)}
    (hregs : m.regs = vr :: vl :: rs) : StepTrace fo host S P fuel H s m :=
  stepTrace_binary fo L HR fuel H hsim hfetch rfl hregs (o := .val (.concat vl vr)) rfl rfl
    (fun r l rest hr dl dr => C06_refine_concat L hr dl dr) (fun _ _ _ h => by cases h)

theorem stepTrace_partialApply (L : StoreLaws S) (HR : HostRefines S host) (fuel : Nat) (H : OtherHandlers σ)
    {s : σ} {m : MState F} (hsim : Sim S P s m) {operand : Option Nat}
    (hfetch : P.instrs[m.pc]? = some (.partialApply, operand)) {vr vl : Val F} {rs : List (Val F)}
    (hregs : m.regs = vr :: vl :: rs) : StepTrace fo host S P fuel H s m :=
  stepTrace_binary fo L HR fuel H hsim hfetch rfl hregs (o := .val (.part vl vr)) rfl rfl
    (fun r l rest hr dl dr => C06_refine_partial_apply L hr dl dr) (fun _ _ _ h => by cases h)

/-- the four range instructions -/
theorem stepTrace_make_range (L : StoreLaws S) (HR : HostRefines S host) (fuel : Nat) (H : OtherHandlers σ)
    {s : σ} {m : MState F} (hsim : Sim S P s m) {op : Instruction} {operand : Option Nat} (se ee : Bool)
    (hop : op = rangeInstr se ee)
    (hfetch : P.instrs[m.pc]? = some (op, operand)) {vr vl : Val F} {rs : List (Val F)}
    (hregs : m.regs = vr :: vl :: rs) : StepTrace fo host S P fuel H s m := by
  subst hop
  have facts : isGeneric (rangeInstr se ee) = true ∧ unaryOp fo (rangeInstr se ee) vr = none ∧
      binaryOp fo (rangeInstr se ee) vl vr = some (Abs.makeRange fo se ee vl vr) ∧
      dispatch fo S fuel H (rangeInstr se ee) operand = makeRangeInternal fo S se ee := by
    cases se <;> cases ee <;> exact ⟨rfl, rfl, rfl, rfl⟩
  obtain ⟨hg, hu, hb, hdisp⟩ := facts
  exact stepTrace_binary fo L HR fuel H hsim hfetch hg hregs hu hb
    (fun r l rest hr dl dr => by rw [hdisp]; exact C08_refine_make_range_internal fo L se ee hr dl dr)
    (fun op' a b h => makeRange_defer fo h)

/-- the four comparison instructions, where the code-faithful comparison agrees with Abs/Ops (everywhere except
slices of text / bytes with a range `sliceStart` rejects) -/
theorem stepTrace_compare (L : StoreLaws S) (HR : HostRefines S host) (fuel : Nat) (H : OtherHandlers σ)
    {s : σ} {m : MState F} (hsim : Sim S P s m) {op : Instruction} {operand : Option Nat}
    (hop : op = .lessThan ∨ op = .lessThanOrEqual ∨ op = .greaterThan ∨ op = .greaterThanOrEqual)
    (hfetch : P.instrs[m.pc]? = some (op, operand)) {vr vl : Val F} {rs : List (Val F)}
    (hregs : m.regs = vr :: vl :: rs)
    (ha : textLen vl ≤ 2147483647) (hb : textLen vr ≤ 2147483647) (hf : cmpFuel vl vr ≤ fuel)
    (hagree : compareValsR fo vl vr = some (.ok (compareVals fo vl vr))) :
    StepTrace fo host S P fuel H s m := by
  rcases hop with rfl | rfl | rfl | rfl
  · exact stepTrace_binary fo L HR fuel H hsim hfetch rfl hregs (o := .val (Abs.lessThan fo vl vr)) rfl rfl
      (fun r l rest hr dl dr => (C12_refine_less_than_abs fo L hr dl dr ha hb fuel hf hagree).1)
      (fun _ _ _ h => by cases h)
  · exact stepTrace_binary fo L HR fuel H hsim hfetch rfl hregs (o := .val (Abs.lessThanOrEqual fo vl vr)) rfl rfl
      (fun r l rest hr dl dr => (C12_refine_less_than_abs fo L hr dl dr ha hb fuel hf hagree).2.1)
      (fun _ _ _ h => by cases h)
  · exact stepTrace_binary fo L HR fuel H hsim hfetch rfl hregs (o := .val (Abs.greaterThan fo vl vr)) rfl rfl
      (fun r l rest hr dl dr => (C12_refine_less_than_abs fo L hr dl dr ha hb fuel hf hagree).2.2.1)
      (fun _ _ _ h => by cases h)
  · exact stepTrace_binary fo L HR fuel H hsim hfetch rfl hregs (o := .val (Abs.greaterThanOrEqual fo vl vr)) rfl rfl
      (fun r l rest hr dl dr => (C12_refine_less_than_abs fo L hr dl dr ha hb fuel hf hagree).2.2.2)
      (fun _ _ _ h => by cases h)

/-- `Access` -/
theorem stepTrace_access (L : StoreLaws S) (HR : HostRefines S host) (fuel : Nat) (H : OtherHandlers σ)
    {s : σ} {m : MState F} (hsim : Sim S P s m) {operand : Option Nat}
    (hfetch : P.instrs[m.pc]? = some (.access, operand)) {vr vl : Val F} {rs : List (Val F)}
    (hregs : m.regs = vr :: vl :: rs)
    (hd : accessArm vl.typeOf vr.typeOf = .get → AccessDomain vl ∧ accessFuel vl ≤ fuel ∧
      ∀ n, vr = .num n → (∃ i, n = .int i) ∧ RangeOrdered fo n vl) :
    StepTrace fo host S P fuel H s m :=
  stepTrace_binary fo L HR fuel H hsim hfetch rfl hregs (o := Abs.access fo vl vr) rfl rfl
    (fun r l rest hr dl dr => C08_refine_access fo L fuel hr dl dr hd) (fun op' a b h => access_defer fo h)

end Garnish.Lemmas.Runtime
