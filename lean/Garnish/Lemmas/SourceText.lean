/-
Source texts and the objects built from them: the hypotheses of `C01_text_build` as one predicate (`Src`), the built object
as `compile` of the elaborated program (`text_built`), and a text built into an object that already holds other programs
(`buildTextInto`, `text_into`: there it is `compileInto` of the program with its bodies renamed to the jump entries they
get there).  Used by Props/SourceProps.lean.
-/
import Garnish.Props.C01Text
import Garnish.Lemmas.SourceRep8
import Garnish.Props.C20Compile
namespace Garnish.Abs.Source
open Garnish Garnish.Gen Garnish.Spec Garnish.Abs Garnish.Abs.Tree Garnish.Model Garnish.Model.Parser
open Garnish.Model.Lexer Garnish.Model.Literals Garnish.Model.Build Garnish.Props.C01Build Garnish.Props.C01Source
open Garnish.Props.C02Numbered Garnish.Props.C01Text Garnish.Props.C20

variable {F : Type} (pf : List Char → Option F) (cc : CharClass)

/-- **the pipeline of the models into an existing object**: `build(parse(lex(source)))` on `data` -/
def buildTextInto (data : BState F) (s : List Char) : Outcome (BState F × Nat) :=
  Outcome.bind (lex cc s) fun toks =>
    Outcome.bind (parse (toP toks)) fun r => build pf (defaultFuel r.nodes.size) r.root r.nodes data

theorem buildText_eq_into (s : List Char) : buildText pf cc s = buildTextInto pf cc BState.empty s := rfl

/-- **`s` is a source text of the program `p`**: the lexer model accepts it, the token list is in the fragment `frag9'`, and
its reference tree elaborates to `p` (the hypotheses of `C01_text_build`) -/
def Src (s : List Char) (p : Program F) : Prop :=
  ∃ toks rt, lex cc s = .ok toks ∧ frag9' (toP toks) = true ∧ refParse Table.gen (toP toks) = .ok rt ∧
    elaborate pf (toP toks) rt = some p

variable {pf cc}

/-- the parser's result for a source text represents its program -/
theorem Src.rep {s : List Char} {p : Program F} (h : Src pf cc s p) :
    ∃ toks r, lex cc s = .ok toks ∧ frag9' (toP toks) = true ∧ parse (toP toks) = .ok r ∧
      Rep pf r.nodes p.bodies 0 r.nodes.size r.root p.main ∧
      lookupBody p.bodies 0 = some p.main ∧ validateParseTree r.root r.nodes = .ok () := by
  obtain ⟨toks, rt, hlex, hf, href, hel⟩ := h
  obtain ⟨r, t, h1, h2, h3⟩ :=
    Garnish.Props.C02Parse.C02_parse_correct_fragment_optional (toP toks) (frag9'_sub hf) (toP_numbered toks)
  rw [← Garnish.Props.C02Parse.C02_toRG_eq_treeToRG, href] at h3
  cases h3
  have hwn := C02_parse_wellNumbered (toP toks) hf (toP_numbered toks) r t h1 h2
  exact ⟨toks, r, hlex, hf, h1, parse_rep_elaborate pf (toP toks) r t p h2 hwn hel⟩

/-- the object built from a source text is `compile` of its program -/
theorem Src.built {s : List Char} {p : Program F} (h : Src pf cc s p)
    (hcomplete : (compileState Prog.empty p).pending = []) :
    ∃ d, buildText pf cc s = .ok (d, 0) ∧ progOf d = compile p := by
  obtain ⟨toks, rt, hlex, hf, href, hel⟩ := h
  obtain ⟨d, hb, h1, h2, h3⟩ := C01_text_build pf cc s toks hlex hf rt href p hel hcomplete
  refine ⟨d, hb, ?_⟩
  simp only [progOf, h1, h2, h3]

/-- a source text built into an object that holds `P0 = progOf data`: entry = the next jump entry, and the object is
`compileInto P0` of the program with its bodies renamed to the jump entries they get there -/
theorem Src.into {s : List Char} {p : Program F} (h : Src pf cc s p) (hwf : Garnish.Props.C01.WFProgram p) (data : BState F) :
    ∃ d, buildTextInto pf cc data s = .ok (d, data.jumps.size) ∧
      progOf d = (compileInto (progOf data) (rlProgram (shJ (progOf data)) p)).1 := by
  obtain ⟨toks, r, hlex, _, hp, hrep, hmain, hval⟩ := h.rep
  have hwfAt := WFProgramAt_shift (progOf data) p hwf
  have hrep' : Rep pf r.nodes (rlProgram (shJ (progOf data)) p).bodies 0 r.nodes.size r.root
      (rlProgram (shJ (progOf data)) p).main := Rep.rl (shJ_inj (progOf data)) hrep
  obtain ⟨d, hb, h1, h2, h3⟩ := build_refines_compileInto pf r.nodes (rlProgram (shJ (progOf data)) p) data r.root
    (defaultFuel r.nodes.size) hrep' hwfAt.main0 hval (compile_complete_at _ _ hwfAt.labels)
    (by simp only [defaultFuel]; omega)
  refine ⟨d, by simp only [buildTextInto, hlex, Outcome.bind, hp, hb], ?_⟩
  simp only [progOf, h1, h2, h3]

end Garnish.Abs.Source
