/-
`StoreLawsOn` does not mention `get_list_item_with_symbol`: it carries over from a store to the same store with
another symbol look-up (`withSym`).  Hence `simpleRStoreA` (Lemmas/SimpleListSym.lean) meets the relativised contract.
-/
import Garnish.Lemmas.SimpleListSym
namespace Garnish.Lemmas.Runtime.SimpleSym
open Garnish Gen Garnish.Model.Equality Garnish.Model.Runtime Garnish.Store.Lists Garnish.Lemmas.EqualityRefine
open Garnish.Lemmas.Runtime.Simple Garnish.Props.RuntimeRefine

variable {F σ : Type}

/-- the same store with `g` as its `get_list_item_with_symbol` -/
def withSym (S : RStore F σ) (g : σ → Nat → Nat → Outcome (Option Nat)) : RStore F σ :=
  { S with listItemWithSymbol := g }

section
variable {S : RStore F σ} {g : σ → Nat → Nat → Outcome (Option Nat)} {Inv : σ → Prop} {Rd : σ → Nat → Prop}

theorem keeps_to {s s' : σ} (k : Keeps S s s') : Keeps (withSym S g) s s' := ⟨k.dec, k.jump, k.ilen, k.cur, k.instr⟩

theorem eff_to {s s' : σ} {r v : List Nat} (e : Eff S s s' r v) : Eff (withSym S g) s s' r v :=
  ⟨keeps_to e.keeps, e.regs, e.vals, e.trace, e.frames⟩

theorem feff_to {s s' : σ} {r v : List Nat} {f : List (Nat × List Nat)} (e : FEff S s s' r v f) :
    FEff (withSym S g) s s' r v f :=
  ⟨keeps_to e.keeps, e.regs, e.vals, e.trace, e.frames⟩

theorem addsOn_to {m : RM σ Nat} {s : σ} {v : Val F} (a : AddsOn S Inv m s v) : AddsOn (withSym S g) Inv m s v := by
  obtain ⟨a, s', h1, h2, h3, h4⟩ := a; exact ⟨a, s', h1, h2, eff_to h3, h4⟩

theorem lawsOn_withSym (L : StoreLawsOn S Inv Rd) : StoreLawsOn (withSym S g) Inv Rd where
  rangeTyped := L.rangeTyped
  listIdx := L.listIdx
  charIdx := L.charIdx
  byteIdx := L.byteIdx
  symIdx := L.symIdx
  addUnit := fun s hi => addsOn_to (L.addUnit s hi)
  addTrue := fun s hi => addsOn_to (L.addTrue s hi)
  addFalse := fun s hi => addsOn_to (L.addFalse s hi)
  addNumber := fun n s hi => addsOn_to (L.addNumber n s hi)
  addType := fun t s hi => addsOn_to (L.addType t s hi)
  addChar := fun c s hi => addsOn_to (L.addChar c s hi)
  addByte := fun b s hi => addsOn_to (L.addByte b s hi)
  addSymbol := fun y s hi => addsOn_to (L.addSymbol y s hi)
  addPair := fun l r vl vr s hi hl hr => addsOn_to (L.addPair l r vl vr s hi hl hr)
  addConcatenation := fun l r vl vr s hi hl hr nl nr => addsOn_to (L.addConcatenation l r vl vr s hi hl hr nl nr)
  addRange := fun l r vl vr s hi hl hr => addsOn_to (L.addRange l r vl vr s hi hl hr)
  addSlice := fun l r vl vr s hi hl hr => addsOn_to (L.addSlice l r vl vr s hi hl hr)
  addPartial := fun l r vl vr s hi hl hr => addsOn_to (L.addPartial l r vl vr s hi hl hr)
  mergeSome := fun l r vl vr v s hi hl hr hm nl nr => addsOn_to (L.mergeSome l r vl vr v s hi hl hr hm nl nr)
  startList := fun n s hi => by
    obtain ⟨t, s', h1, h2, h3, h4⟩ := L.startList n s hi; exact ⟨t, s', h1, eff_to h2, h3, h4⟩
  addToList := fun t items a s hi hb => by
    obtain ⟨t', s', h1, h2, h3, h4⟩ := L.addToList t items a s hi hb; exact ⟨t', s', h1, eff_to h2, h3, h4⟩
  endList := fun t items vs s hi hb hd => addsOn_to (L.endList t items vs s hi hb hd)
  popRegisterBuilding := L.popRegisterBuilding
  readable := L.readable
  pushRegister := fun a s hi hr => by
    obtain ⟨s', h1, h2, h3⟩ := L.pushRegister a s hi hr; exact ⟨s', h1, eff_to h2, h3⟩
  popRegisterNil := fun s hi hr hf => by
    obtain ⟨s', h1, h2, h3⟩ := L.popRegisterNil s hi hr hf; exact ⟨s', h1, eff_to h2, h3⟩
  popRegisterCons := fun s a rest hi hr hd => by
    obtain ⟨s', h1, h2, h3⟩ := L.popRegisterCons s a rest hi hr hd; exact ⟨s', h1, eff_to h2, h3⟩
  pushValueStack := fun a s hi hr => by
    obtain ⟨s', h1, h2, h3⟩ := L.pushValueStack a s hi hr; exact ⟨s', h1, eff_to h2, h3⟩
  popValueStackNil := fun s hi hv => by
    obtain ⟨s', h1, h2, h3⟩ := L.popValueStackNil s hi hv; exact ⟨s', h1, eff_to h2, h3⟩
  popValueStackCons := fun s a rest hi hv => by
    obtain ⟨s', h1, h2, h3⟩ := L.popValueStackCons s a rest hi hv; exact ⟨s', h1, eff_to h2, h3⟩
  setCurrentNil := fun r s hi hv => by
    obtain ⟨s', h1, h2, h3⟩ := L.setCurrentNil r s hi hv; exact ⟨s', h1, eff_to h2, h3⟩
  setCurrentCons := fun r s a rest hi hr hv => by
    obtain ⟨s', h1, h2, h3⟩ := L.setCurrentCons r s a rest hi hr hv; exact ⟨s', h1, eff_to h2, h3⟩
  pushFrame := fun j s hi => by
    obtain ⟨s', h1, h2, h3⟩ := L.pushFrame j s hi; exact ⟨s', h1, feff_to h2, h3⟩
  popFrameNil := fun s hi hf => by
    obtain ⟨s', R, h1, h2, h3, h4⟩ := L.popFrameNil s hi hf; exact ⟨s', R, h1, eff_to h2, h3, h4⟩
  popFrameCons := fun s ret saved fs hi hf => by
    obtain ⟨s', h1, h2, h3⟩ := L.popFrameCons s ret saved fs hi hf; exact ⟨s', h1, feff_to h2, h3⟩
  setCursor := L.setCursor
  deferOp := L.deferOp
  resolve := L.resolve
  apply := L.apply
  dataBound := L.dataBound

end

variable {hit : List (SimCell F) → SimCell F → Option Nat} {h : SimHost F}

/-- **`SimpleGarnishData` with its symbol look-up meets the relativised store contract** -/
theorem simpleA_lawsOn (hs : HitSound hit) : StoreLawsOn (simpleRStoreA hit h) SInv SReadable :=
  lawsOn_withSym (C01_simpleStore_lawsOn (h := h) hs)

end Garnish.Lemmas.Runtime.SimpleSym
