/-
The tie between the two builder models (5): `$`, identifiers, literals.
-/
import Garnish.Lemmas.CompileTree4
namespace Garnish.Abs.Tree
open Garnish Garnish.Gen Garnish.Spec Garnish.Abs Garnish.Model.Parser Garnish.Model.Literals Garnish.Model.Build

variable {F : Type} {pf : List Char → Option F} {tree : Array ParseNode} {bodies : List (Nat × Expr F)}

theorem sim_input {i : Nat} {pn : ParseNode} (hpn : tree[i]? = some pn) (hd : pn.definition = .value) (hl : pn.left = none)
    (hr : pn.right = none) : SimT pf tree bodies i (i + 1) i .input := by
  refine leaf_sim (ins := .putValue) hpn (by rw [hd]; rfl) hl hr ?_
  intro crj root cur data nodes RS S s b hb hs hdat
  refine ⟨pushInstr data .putValue none (some i), ?_, ?_, rfl⟩
  · simp only [handleParseNode, hd, handleValueLike, getNode, hb, Outcome.bind, hs]
  · simp only [emit]; exact hdat.push _ _ _

theorem sim_ident {i : Nat} {pn : ParseNode} (hpn : tree[i]? = some pn) (hd : pn.definition = .identifier) (hl : pn.left = none)
    (hr : pn.right = none) : SimT pf tree bodies i (i + 1) i (.ident (parseSymbol pn.lexToken.text)) := by
  refine leaf_sim (ins := .resolve) hpn (by rw [hd]; rfl) hl hr ?_
  intro crj root cur data nodes RS S s b hb hs hdat
  refine ⟨pushInstr (addConst data (.sym (parseSymbol pn.lexToken.text))).1 .resolve
    (some (addConst data (.sym (parseSymbol pn.lexToken.text))).2) (some i), ?_, ?_, rfl⟩
  · simp only [handleParseNode, hd, handleValueLike, getNode, hb, Outcome.bind, hs, parseAddSymbolText, parseAddSymbol]
  · simp only [emit]; exact hdat.pushConst _ _ _

theorem sim_lit {i : Nat} {pn : ParseNode} {v : Val F} (hpn : tree[i]? = some pn) (hl : pn.left = none) (hr : pn.right = none)
    (hv : LitRep pf pn v) : SimT pf tree bodies i (i + 1) i (.lit v) := by
  have hdef : valueInstr pn.definition = some .put := by cases hv <;> simp_all [valueInstr]
  refine leaf_sim hpn hdef hl hr ?_
  intro crj root cur data nodes RS S s b hb hs hdat
  refine ⟨pushInstr (addConst data v).1 .put (some (addConst data v).2) (some i), ?_, ?_, rfl⟩
  · cases hv with
    | unit h => simp only [handleParseNode, h, handleValuePrimitive, handleValueLike, getNode, hb, Outcome.bind, hs, addUnit]
    | tru h => simp only [handleParseNode, h, handleValuePrimitive, handleValueLike, getNode, hb, Outcome.bind, hs, addTrue]
    | fls h => simp only [handleParseNode, h, handleValuePrimitive, handleValueLike, getNode, hb, Outcome.bind, hs, addFalse]
    | num h hp =>
      simp only [handleParseNode, h, handleValuePrimitive, handleValueLike, getNode, hb, Outcome.bind, hs, parseAddNumber, hp]
    | chars h hp =>
      simp only [handleParseNode, h, handleValuePrimitive, handleValueLike, getNode, hb, Outcome.bind, hs, parseAddCharList, hp]
    | bytes h hp =>
      simp only [handleParseNode, h, handleValuePrimitive, handleValueLike, getNode, hb, Outcome.bind, hs, parseAddByteList, hp]
    | sym h hp =>
      simp only [handleParseNode, h, handleValuePrimitive, handleValueLike, getNode, hb, Outcome.bind, hs,
        parseAddSymbolLiteral, hp, parseAddSymbol]
    | prop h =>
      simp only [handleParseNode, h, handleValueLike, getNode, hb, Outcome.bind, hs, parseAddSymbolText, parseAddSymbol]
  · simp only [emit]; exact hdat.pushConst _ _ _

end Garnish.Abs.Tree
