/-
C04, builder half — evaluation order, part 5: one handler call keeps the order invariant (`step_sinv`) and the
side-effect bracket invariant (`step_binv`).
-/
import Garnish.Lemmas.BuildSeq4
namespace Garnish.Lemmas.BuildSeq
open Garnish Garnish.Gen Garnish.Model.Parser Garnish.Model.Literals Garnish.Model.Build Garnish.Lemmas.Build
open Garnish.Lemmas.BuildTotal
open Garnish.Lemmas.BuildOrder (Above above_append_left above_append_mem above_append_right above_mem above_irrefl
  above_top_false above_init Attr Moving nm1 nm2 nm3 nmr nm23 nm123 get_append attr_append)

variable {F : Type} {root : Nat} {tree : Array ParseNode} {G : Nat → Prop} {m0 : Nat}
variable {ph ph' : Nat → Phase} {ctx ctx' : Ctx F} {ni : Nat} {pn : ParseNode} {vni : Phase} {cs rs suf : List Nat}
  {l : List (Option Nat)} {M M' : Array (Option Nat)}

theorem step_sinv (st : Step root tree G ph ph' ctx ctx' ni pn vni cs rs suf l M M')
    (ho : SInv root tree G m0 ph (ctx.stack.toList ++ [ni]) ctx.nodes M) :
    SInv root tree G m0 ph' ctx'.stack.toList ctx'.nodes M' := by
  refine ⟨st.hnodup', ?_, ?_, ?_, step_inl st ho, step_sibAbove st ho, step_sibDone st ho, step_preAbove st ho,
    step_preDone st ho, step_postBelow st ho, step_postAfter st ho, step_owner st ho, ?_, ?_⟩
  · -- onStack
    intro x hx
    rcases st.act' hx with ⟨h, hv2, _⟩ | ⟨h, _, _, _⟩ | ⟨h1, _, hact, _⟩
    · subst h; rw [st.hS]; exact List.mem_append_right _ (st.hsufni hv2)
    · rw [st.hS]; exact List.mem_append_right _ (st.hsufcs x h)
    · have := ho.onStack x hact
      rw [st.hS]
      rcases List.mem_append.1 this with h3 | h3
      · exact List.mem_append_left _ h3
      · simp only [List.mem_singleton] at h3; exact absurd h3 h1
  · -- attrVisited
    intro x hx
    rcases attr_append st.hM hx with h | h
    · have hp := ho.attrVisited x h
      rcases Classical.em (x = ni) with hxn | hxn
      · subst hxn; rw [st.hni']; exact st.hv
      · rw [st.keep23 hp hxn]; exact hp
    · rcases st.hl _ h with h' | h'
      · cases h'
      · cases h'; rw [st.hni']; exact st.hv
  · -- attrLast
    intro y pn' hy hnse hattr
    rcases attr_append st.hM hattr with h | h
    · have hp := ho.attrLast y pn' hy hnse h
      have hyn : y ≠ ni := fun e => st.hph.ne3 (e ▸ hp)
      rw [st.keep (nm3 hp) hyn]; exact hp
    · rcases st.hl _ h with h' | h'
      · cases h'
      · cases h'
        rw [st.hpn] at hy; cases hy
        rw [st.hni']
        rcases st.hattr h with h3 | h3
        · exact h3
        · exact absurd h3 hnse
  · -- uninit
    intro x bn hx hxp
    rcases Classical.em (x = ni) with hxn | hxn
    · subst hxn
      rw [st.hni'] at hxp
      rcases hxp with h' | h'
      · exact absurd h' st.vni_ne1
      · rcases st.hv with h'' | h'' <;> rw [h''] at h' <;> cases h'
    · obtain ⟨h1, h2⟩ := st.huninit x bn hx hxp hxn
      rcases Classical.em (x ∈ cs ++ rs) with hm | hm
      · exact h1 hm
      · obtain ⟨bn0, hb0, hst⟩ := h2 hm
        rw [hst]
        rw [st.hother x hxn hm] at hxp
        exact ho.uninit x bn0 hb0 hxp
  · -- ord
    intro x z hp kx kz hkx hkz hmx hmz
    rcases get_append st.hM hmx with ⟨hx1, hx2⟩ | ⟨hx1, hx2⟩
    · rcases get_append st.hM hmz with ⟨hz1, hz2⟩ | ⟨hz1, _⟩
      · exact ho.ord x z hp kx kz hkx hkz hx2 hz2
      · omega
    · rcases st.hl _ hx2 with h | h
      · cases h
      · cases h
        obtain ⟨hna, hzn⟩ := prec_key st.V st.hinv ho st.hph hp
        rcases get_append st.hM hmz with ⟨_, hz2⟩ | ⟨_, hz2⟩
        · exact absurd ⟨kz, hkz, hz2⟩ hna
        · rcases st.hl _ hz2 with h | h
          · cases h
          · cases h; exact absurd rfl hzn

/-! ### side-effect blocks: the body lies between the two instructions of the block node -/

structure BInv (tree : Array ParseNode) (G : Nat → Prop) (m0 : Nat) (ph : Nat → Phase) (M : Array (Option Nat)) : Prop where
  started : ∀ (y : Nat) (pn : ParseNode), tree[y]? = some pn → pn.definition = .sideEffect → (ph y = .p2 ∨ ph y = .p3) →
    Attr m0 M y
  before : ∀ (y : Nat) (pn : ParseNode) (c x kx : Nat), G y → tree[y]? = some pn → pn.definition = .sideEffect → ILink tree y c →
    IDesc tree c x → m0 ≤ kx → M[kx]? = some (some x) → ∃ ky, m0 ≤ ky ∧ ky < kx ∧ M[ky]? = some (some y)
  after : ∀ (y : Nat) (pn : ParseNode) (c x kx : Nat), G y → tree[y]? = some pn → pn.definition = .sideEffect → ILink tree y c →
    IDesc tree c x → m0 ≤ kx → M[kx]? = some (some x) → ph y = .p3 → ∃ ky, kx < ky ∧ M[ky]? = some (some y)

theorem sideEffect_prec {y c : Nat} {pn : ParseNode} (hy : tree[y]? = some pn) (hd : pn.definition = .sideEffect)
    (hc : ILink tree y c) : PreC tree y c := by
  obtain ⟨pn', h1, h2⟩ := hc
  rw [hy] at h1; cases h1
  rcases h2 with ⟨_, h3⟩ | ⟨h3, _⟩
  · rw [hd] at h3; cases h3
  · exact ⟨pn, hy, Or.inr ⟨h3, by rw [hd]; rfl⟩⟩

theorem get_old {M M' : Array (Option Nat)} {l : List (Option Nat)} (hM : M'.toList = M.toList ++ l) {k : Nat} {v : Option Nat}
    (h : M[k]? = some v) : M'[k]? = some v := by
  have h1 : M.toList[k]? = some v := by simpa using h
  have hk : k < M.toList.length := by
    rcases Nat.lt_or_ge k M.toList.length with h2 | h2
    · exact h2
    · rw [List.getElem?_eq_none h2] at h1; cases h1
  have : M'.toList[k]? = some v := by rw [hM, List.getElem?_append_left hk]; exact h1
  simpa using this

theorem get_lt {M : Array (Option Nat)} {k : Nat} {v : Option Nat} (h : M[k]? = some v) : k < M.size := by
  rcases Nat.lt_or_ge k M.size with h2 | h2
  · exact h2
  · rw [Array.getElem?_eq_none h2] at h; cases h

/-- a new record naming `ni` -/
theorem get_new {M M' : Array (Option Nat)} {l : List (Option Nat)} (hM : M'.toList = M.toList ++ l) {v : Option Nat}
    (h : v ∈ l) : ∃ k, M.size ≤ k ∧ M'[k]? = some v := by
  obtain ⟨i, hi, hv⟩ := List.getElem_of_mem h
  refine ⟨M.size + i, Nat.le_add_right _ _, ?_⟩
  have : M'.toList[M.size + i]? = some v := by
    rw [hM, List.getElem?_append_right (by simp)]
    simp [hv, hi]
  simpa using this

theorem step_binv (st : Step root tree G ph ph' ctx ctx' ni pn vni cs rs suf l M M')
    (ho : SInv root tree G m0 ph (ctx.stack.toList ++ [ni]) ctx.nodes M) (hm0 : m0 ≤ M.size) (hb : BInv tree G m0 ph M) :
    BInv tree G m0 ph' M' := by
  have hmono : ∀ y, Attr m0 M y → Attr m0 M' y := fun y ⟨k, hk, hm⟩ => ⟨k, hk, get_old st.hM hm⟩
  refine ⟨?_, ?_, ?_⟩
  · intro y pn' hy hd hyv
    rcases st.vis' hyv with e | ⟨_, hyv0, _⟩
    · subst e
      rw [st.hpn] at hy; cases hy
      obtain ⟨k, hk, hm⟩ := get_new st.hM (st.hse hd)
      exact ⟨k, by omega, hm⟩
    · exact hmono y (hb.started y pn' hy hd hyv0)
  · intro y pn' c x kx hy hpy hd hc hdc hkx hmx
    rcases get_append st.hM hmx with ⟨_, hx2⟩ | ⟨hx1, hx2⟩
    · obtain ⟨ky, h1, h2, h3⟩ := hb.before y pn' c x kx hy hpy hd hc hdc hkx hx2
      exact ⟨ky, h1, h2, get_old st.hM h3⟩
    · rcases st.hl _ hx2 with h | h
      · cases h
      · cases h
        have hyv := idesc_parent_visited st.V st.hinv hy hc.isChild hdc st.hph.ne0
        obtain ⟨ky, h1, h2⟩ := hb.started y pn' hpy hd hyv
        exact ⟨ky, h1, by have := get_lt h2; omega, get_old st.hM h2⟩
  · intro y pn' c x kx hy hpy hd hc hdc hkx hmx hy3
    have hpc := sideEffect_prec hpy hd hc
    rcases get_append st.hM hmx with ⟨hx1, hx2⟩ | ⟨_, hx2⟩
    · rcases st.vis' (Or.inr hy3) with e | ⟨_, _, hsame⟩
      · subst e
        rw [st.hpn] at hpy; cases hpy
        obtain ⟨k, hk, hm⟩ := get_new st.hM (st.hse hd)
        exact ⟨k, by omega, hm⟩
      · rw [hsame] at hy3
        obtain ⟨ky, h1, h2⟩ := hb.after y pn' c x kx hy hpy hd hc hdc hkx hx2 hy3
        exact ⟨ky, h1, get_old st.hM h2⟩
    · rcases st.hl _ hx2 with h | h
      · cases h
      · cases h
        -- a new record for the visited node `x`, which lies below `c`
        rcases st.vis' (Or.inr hy3) with e | ⟨_, _, hsame⟩
        · have := (ho.preAbove y c ni hy hpc hdc st.hph).2
          rw [e] at this
          exact absurd this (above_irrefl ho.nodup)
        · rw [hsame] at hy3
          exact absurd st.hph (ho.preDone y c ni hy hpc hdc hy3)

end Garnish.Lemmas.BuildSeq
