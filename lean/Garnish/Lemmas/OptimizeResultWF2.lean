/-
`WF` is kept by `optimize`: the compacted block is the retained prefix followed by well-formed copies whose links
lead to retained nodes or to copies at lower addresses.
-/
import Garnish.Lemmas.OptimizeResultWF
set_option maxHeartbeats 2000000
namespace Garnish.BasicOpt
open Garnish

/-- the retained prefix of a store, without heads and symbol names -/
def truncStore (s : Store) : Store :=
  { s with cells := s.cells.extract 0 s.retention, currentRegister := none, currentValue := none,
           currentFrame := none, symtab := #[] }

/-- a store without heads and symbol names -/
def bareStore (s : Store) : Store :=
  { s with currentRegister := none, currentValue := none, currentFrame := none, symtab := #[] }

/-- the retained prefix alone, without heads and symbol names, is well formed -/
theorem WF.truncate {s : Store} (hwf : WF s) : WF (truncStore s) := by
  unfold truncStore
  have hsz : (s.cells.extract 0 s.retention).size = s.retention := by
    simp [Array.size_extract]; exact Nat.min_eq_left hwf.retLe
  have hcell : ∀ i, i < s.retention → (s.cells.extract 0 s.retention)[i]? = s.cells[i]? := by
    intro i hi
    rw [Array.getElem?_extract]
    have := hwf.retLe
    simp <;> omega
  have hshape : ∀ i, i < s.retention → shape (s.cells.extract 0 s.retention) i = shape s.cells i := by
    intro i hi
    have := hwf.extent i hi
    simpa [extentOK] using this
  have hnode : ∀ i, i < s.retention → isNode (s.cells.extract 0 s.retention) i = isNode s.cells i := by
    intro i hi; simp [isNode, hshape i hi]
  refine ⟨by simp only [hsz]; exact Nat.le_refl _, ?_, ?_, ?_, ?_, rfl, rfl, rfl, by simp⟩
  · intro i hi
    simp only [hsz] at hi
    have h0 := hwf.nodes i (by have := hwf.retLe; omega)
    simp only [nodeOK, hshape i hi] at h0 ⊢
    cases hsh : shape s.cells i with
    | none => rfl
    | some sh =>
      rw [hsh] at h0
      simp only [List.all_eq_true, Bool.and_eq_true, decide_eq_true_eq] at h0 ⊢
      intro k hk
      obtain ⟨h1, h2⟩ := h0 k hk
      exact ⟨h1, by rw [hnode k (by omega)]; exact h2⟩
  · intro i hi
    simp only [hsz] at hi
    have h0 := hwf.lists i (by have := hwf.retLe; omega)
    simpa [listOK, hcell i hi] using h0
  · intro i hi
    simp only [hsz] at hi
    have h0 := hwf.headers i (by have := hwf.retLe; omega)
    simpa [headerOK, hcell i hi, hnode i hi] using h0
  · intro i hi
    simp only at hi
    simp only [extentOK, decide_eq_true_eq]
    have : (s.cells.extract 0 s.retention).extract 0 s.retention = s.cells.extract 0 s.retention := by
      apply Array.ext_getElem?
      intro j
      rw [Array.getElem?_extract]
      by_cases hj : j < s.retention
      · simp [hsz, hj]
      · have hn : (s.cells.extract 0 s.retention)[j]? = none := Array.getElem?_eq_none (by omega)
        simp [hsz, hj]
    rw [this]

/-- **`optimize` keeps `WF`** and reports the roots at readable addresses -/
theorem optimize_wf {s s' : Store} {roots m : List Nat} (hwf : WF s) (hroots : rootsOK s roots = true)
    (h : Store.optimize s roots = .ok (s', m)) : WF s' ∧ rootsOK s' m = true := by
  obtain ⟨hr, hbody⟩ := optimize_ok h
  have hy := hwf.optHyp
  obtain ⟨s5, s6, sR, hinv, hc0A, hret6, hstart6, _, hR, tf, hidx, hnoidx⟩ := optimizeBody_core hbody hr hy.listsWF
  have hvc' : ValueLinksClosed s6 := by
    intro i p v hi hcell
    rw [hret6] at hi ⊢
    have hcell0 : s.cells[i]? = some (.value p v) ∨ s.cells[i]? = some (.valueRoot v) := by
      have hlt : i < s.cells.size := by omega
      obtain ⟨c, hc⟩ : ∃ c, s.cells[i]? = some c := ⟨s.cells[i], by simp [hlt]⟩
      have := hinv.agree0 i c hc
      rcases hcell with h | h
      · rw [h] at this; left; rw [hc]; exact this.symm ▸ rfl
      · rw [h] at this; right; rw [hc]; exact this.symm ▸ rfl
    exact hy.valueLinksClosed i p v hi hcell0
  have hsame : sR = s6 := repointLoop_noop _ _ _ _ _ _ hvc' hR
  subst hsame
  have hpre := indexPhase_pre hwf hroots hidx
  have hfresh := hinv.fresh hpre
  -- names
  have hrA : s.retention ≤ s5.cells.size := by omega
  have hoff : s5.cells.size - s.retention + s.retention = s5.cells.size := by omega
  -- `sR` is `s` with cells appended
  have hcells6 : sR.cells = s.cells ++ sR.cells.extract s.cells.size sR.cells.size :=
    prefix_append (Nat.le_trans hc0A hinv.hiLe) (fun i hi => by
      obtain ⟨c, hc⟩ : ∃ c, s.cells[i]? = some c := ⟨s.cells[i], by simp [hi]⟩
      rw [hc]; exact hinv.agree0 i c hc)
  have hshape6 : ∀ k, k < s.cells.size → shape sR.cells k = shape s.cells k := by
    intro k hk; rw [hcells6]; exact shape_append_eq _ _ hwf.headers hk
  -- the compacted block is the truncated store with cells appended
  have hwfP := hwf.truncate
  have hszP : (s.cells.extract 0 s.retention).size = s.retention := by
    simp [Array.size_extract]; exact Nat.min_eq_left hr
  have hcellP : ∀ i, i < s.retention → (s.cells.extract 0 s.retention)[i]? = s.cells[i]? := by
    intro i hi
    rw [Array.getElem?_extract]; simp <;> omega
  have hpreV : ∀ i, i < s.retention → s'.cells[i]? = s.cells[i]? := by
    intro i hi
    rw [tf.pre i hi]
    have hlt : i < s.cells.size := by omega
    obtain ⟨c, hc⟩ : ∃ c, s.cells[i]? = some c := ⟨s.cells[i], by simp [hlt]⟩
    rw [hc]; exact hinv.agree0 i c hc
  have hszV : s.retention ≤ s'.cells.size := by
    rcases Nat.lt_or_ge s'.cells.size s.retention with hlt | hge
    · exfalso
      have h1 := hpreV s'.cells.size hlt
      rw [Array.getElem?_eq_none (Nat.le_refl _)] at h1
      have hlt2 : s'.cells.size < s.cells.size := by omega
      rw [Array.getElem?_eq_getElem hlt2] at h1; cases h1
    · exact hge
  have hcellsV : s'.cells = s.cells.extract 0 s.retention ++ s'.cells.extract s.retention s'.cells.size := by
    have := prefix_append (A := s.cells.extract 0 s.retention) (A' := s'.cells) (by rw [hszP]; exact hszV)
      (fun i hi => by rw [hszP] at hi; rw [hpreV i hi, hcellP i hi])
    rw [hszP] at this
    exact this
  -- shapes in the compacted block
  have hshapeV_old : ∀ k sh, k < s.retention → shape s.cells k = some sh → shape s'.cells k = some sh := by
    intro k sh hk hsh
    have h1 := hy.extent k sh hk hsh
    rw [hcellsV]
    exact shape_agree (agree_append _ _) h1
  have hno : s.cells.size < s5.cells.size → framePoint sR.cells s5.cells.size = none := by
    intro hpos
    obtain ⟨o2, n2, hc2, _, _⟩ := hinv.done (s5.cells.size - 1) (by omega) (by omega)
    have e : s5.cells.size = (s5.cells.size - 1) + 1 := by omega
    rw [e]
    simp [framePoint, hc2]
  have hshapeV_new : ∀ u sh, s5.cells.size + u < sR.cells.size → shape sR.cells (s5.cells.size + u) = some sh →
      shape s'.cells (s.retention + u) = some sh := by
    intro u sh hu hsh
    have hpos : s.cells.size < s5.cells.size := by
      rcases Nat.lt_or_ge s.cells.size s5.cells.size with h | h
      · exact h
      · have := hnoidx (by omega); omega
    exact shape_shift tf.shift (hno hpos) hsh
  -- a link leads to a readable address of the compacted block
  have hlinkNode : ∀ x x', Link sR s.cells.size s5.cells.size x x' → (∃ sh, shape s.cells x = some sh) →
      isNode s'.cells x' = true := by
    intro x x' hl ⟨shx, hshx⟩
    have retained : x < s.retention → isNode s'.cells x = true := by
      intro hxr; simp [isNode, hshapeV_old x shx hxr hshx]
    rcases hl with ⟨rfl, hxr⟩ | ⟨j, hj1, hj2, hjc⟩
    · exact retained (by rw [hret6] at hxr; exact hxr)
    · obtain ⟨o', n', hcell', _, hg⟩ := hinv.done j (by omega) hj2
      rw [hjc] at hcell'
      simp only [Option.some.injEq, Cell.cloneIndexMap.injEq] at hcell'
      obtain ⟨ho, hn⟩ := hcell'
      subst ho; subst hn
      rcases hg with ⟨rfl, hxr⟩ | ⟨ni, hni1, hni2, hg⟩
      · exact retained (by rw [hret6] at hxr; exact hxr)
      · obtain ⟨sh', g1, _⟩ := hg shx hshx
        have hb := shape_bound g1
        have e1 : ni = s5.cells.size + (ni - s5.cells.size) := by omega
        have e2 : x' = s.retention + (ni - s5.cells.size) := by omega
        rw [e1] at g1 hb
        have := hshapeV_new _ _ hb g1
        rw [← e2] at this
        simp [isNode, this]
  -- the cells-only part of `WF s'`, through a store without heads
  have hwfV : WF (bareStore s') := by
    refine append_wf (s := truncStore s) (s' := bareStore s') _ hwfP hcellsV tf.retention rfl ?_ rfl rfl rfl
    intro j hj1 hj2
    have hj1' : s.retention ≤ j := by simpa [truncStore, hszP] using hj1
    have hj2' : j < s'.cells.size := hj2
    clear hj1 hj2
    have hj1 := hj1'
    have hj2 := hj2'
    obtain ⟨u, rfl⟩ : ∃ u, j = s.retention + u := ⟨j - s.retention, by omega⟩
    -- the cell comes from behind the index list
    have hcellV : s'.cells[s.retention + u]? = sR.cells[s5.cells.size + u]? := tf.shift u
    have hJ : s5.cells.size + u < sR.cells.size := by
      rcases Nat.lt_or_ge (s5.cells.size + u) sR.cells.size with h | h
      · exact h
      · rw [Array.getElem?_eq_none h] at hcellV
        rw [Array.getElem?_eq_getElem hj2] at hcellV; cases hcellV
    obtain ⟨c, hc, hl, hk⟩ := hfresh (s5.cells.size + u) (by omega) hJ
    have hcV : s'.cells[s.retention + u]? = some c := by rw [hcellV]; exact hc
    have hlist : listOK s'.cells (s.retention + u) = true := by
      unfold listOK; rw [hcV]
      cases c <;> first | rfl | (simp only [decide_eq_true_eq]; exact hl _ _ rfl)
    show nodeOK s'.cells (s.retention + u) = true ∧ listOK s'.cells (s.retention + u) = true ∧
      headerOK s'.cells (s.retention + u) = true
    rcases hk with hn | ⟨sh, hsh, hkids⟩
    · exact ⟨by simp [nodeOK, neverNode_shape hcV hn], hlist, headerOK_of hcV (Or.inl hn)⟩
    · have hshV := hshapeV_new u sh hJ hsh
      refine ⟨?_, hlist, headerOK_of hcV (Or.inr (by simp [isNode, hshV]))⟩
      simp only [nodeOK, hshV, List.all_eq_true, Bool.and_eq_true, decide_eq_true_eq]
      intro k' hk'
      rcases hkids k' hk' with ⟨h1, sh2, h2⟩ | ⟨h1, h2, sh2, h3⟩
      · rw [hret6] at h1
        have hk0 : k' < s.cells.size := by omega
        rw [hshape6 k' hk0] at h2
        exact ⟨by omega, by simp [isNode, hshapeV_old k' sh2 h1 h2]⟩
      · have e1 : k' + (s5.cells.size - s.retention) = s5.cells.size + (k' + (s5.cells.size - s.retention) - s5.cells.size) := by omega
        have hb := shape_bound h3
        rw [e1] at h3 hb
        have := hshapeV_new _ _ hb h3
        have e2 : s.retention + (k' + (s5.cells.size - s.retention) - s5.cells.size) = k' := by omega
        rw [e2] at this
        exact ⟨by omega, by simp [isNode, this]⟩
  -- heads, symbol names, roots
  have headNode : ∀ {o o' : Option Nat}, headOK s.cells o = true → HeadRel (Link sR s.cells.size s5.cells.size) o o' →
      headOK s'.cells o' = true := by
    intro o o' ho hrel
    rcases hrel with ⟨_, rfl⟩ | ⟨i, m', rfl, rfl, hl⟩
    · rfl
    · exact hlinkNode i m' hl (node_shape ho)
  refine ⟨⟨hwfV.retLe, hwfV.nodes, hwfV.lists, hwfV.headers, hwfV.extent, headNode hwf.reg tf.register,
    headNode hwf.val tf.value, headNode hwf.frm tf.frame, ?_⟩, ?_⟩
  · intro c hc
    obtain ⟨j, hj⟩ := List.getElem?_of_mem hc
    rw [Array.getElem?_toList] at hj
    have hjlt : j < s.symtab.size := by
      rw [← tf.symLen]
      rcases Nat.lt_or_ge j s'.symtab.size with h | h
      · exact h
      · rw [Array.getElem?_eq_none h] at hj; cases hj
    have hmem : s.symtab[j] ∈ s.symtab.toList := by simp
    have hok := hwf.syms _ hmem
    cases hcj : s.symtab[j] with
    | associativeItem sym di =>
      rw [hcj] at hok
      obtain ⟨di', h1, h2⟩ := tf.syms j sym di (by rw [Array.getElem?_eq_getElem hjlt, hcj])
      rw [hj] at h1
      simp only [Option.some.injEq] at h1
      subst h1
      simp only [symOK]
      exact hlinkNode di di' h2 (node_shape (by simpa [symOK] using hok))
    | _ => rw [hcj] at hok; simp [symOK] at hok
  · simp only [rootsOK, List.all_eq_true]
    intro r' hr'
    obtain ⟨k, hk⟩ := List.getElem?_of_mem hr'
    have hklt : k < roots.length := by
      rw [← tf.rootsLen]
      rcases Nat.lt_or_ge k m.length with h | h
      · exact h
      · rw [List.getElem?_eq_none h] at hk; cases hk
    obtain ⟨r'', g1, g2⟩ := tf.roots k roots[k] (by simp [hklt])
    rw [hk] at g1
    simp only [Option.some.injEq] at g1
    subst g1
    simp only [rootsOK, List.all_eq_true] at hroots
    exact hlinkNode _ _ g2 (node_shape (hroots _ (List.getElem_mem hklt)))

end Garnish.BasicOpt
