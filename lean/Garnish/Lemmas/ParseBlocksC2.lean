/-
`refParseB` on `e op [ body ]` and `e op [ body ] v`, reference side, part 2: the pass up to the closing `]`
(`refLoopB_op_block`) and the two values (`refParseB_op_block`, `refParseB_op_block_value`).
-/
import Garnish.Lemmas.ParseBlocksC1

namespace Garnish.Spec
open Garnish Garnish.Gen Garnish.Model.Parser Garnish.Abs.Source

theorem bin3_noblock {op : PToken} (h : isBin3Tok op = true) : noBlockTok op = true := by
  unfold isBin3Tok at h
  unfold noBlockTok
  revert h
  cases op.type <;> simp [getDefinition]

theorem refParse_noBG {toks : List PToken} {t : RTree} (h : refParse Table.gen toks = .ok t)
    (hn : ∀ x ∈ toks, noBlockTok x = true) : noBG t = true :=
  noBG_of_unB t (unB_id hn t (refParse_nodes toks t h))

/-- **the pass over `e op [ body ]`**, followed by anything: a pending block -/
theorem refLoopB_op_block {F : Fl} (e body : Ex) (op o c : PToken) (ws1 ws2 wsA wsB rest : List PToken)
    (he : e.ok F false = true) (hbody : body.ok F false = true) (hop : isBin3Tok op = true)
    (ho : o.type = .startSideEffect) (hc : c.type = .endSideEffect)
    (hw1 : ∀ w ∈ ws1, isTriviaTok w = true) (hw2 : ∀ w ∈ ws2, isTriviaTok w = true)
    (hwA : ∀ w ∈ wsA, isTriviaTok w = true) (hwB : ∀ w ∈ wsB, isTriviaTok w = true)
    (hnumE : NumberedFrom 0 e.toks)
    (hnumB : NumberedFrom (e.toks.length + ws1.length + 1 + ws2.length + 1 + wsA.length) body.toks)
    (te tb : RTree) (hte : refParse Table.gen e.toks = .ok te) (htb : refParse Table.gen body.toks = .ok tb)
    (q : Nat) (hq : priority (getDefinition op.type).1 = some q) :
    ∃ sB : BSt,
      refLoopB Table.gen BSt.top 0
          (e.toks ++ (ws1 ++ (op :: (ws2 ++ (o :: (wsA ++ (body.toks ++ (wsB ++ (c :: rest))))))))) =
        refLoopB Table.gen sB
          (e.toks.length + ws1.length + 1 + ws2.length + 1 + wsA.length + body.toks.length + wsB.length + 1) rest ∧
      sB.stack = [] ∧ sB.f.last ≠ .sep ∧
      sB.pend = some (attach Table.gen q ((getDefinition op.type).2 == .binaryRightToLeft) (getDefinition op.type).1
            (e.toks.length + ws1.length) te,
          .group .sideEffect (e.toks.length + ws1.length + 1 + ws2.length)
            (tb.shift (e.toks.length + ws1.length + 1 + ws2.length + 1 + wsA.length)), false) ∧
      sB.f.cur = plug (attach Table.gen q ((getDefinition op.type).2 == .binaryRightToLeft) (getDefinition op.type).1
            (e.toks.length + ws1.length) te)
          (.group .sideEffect (e.toks.length + ws1.length + 1 + ws2.length)
            (tb.shift (e.toks.length + ws1.length + 1 + ws2.length + 1 + wsA.length))) := by
  -- `e`
  obtain ⟨g, hrunE, hgcur, hgctx, hglast, hnbE⟩ := expr_run e he 0 hnumE te hte Frame.top rfl rfl rfl []
    (ws1 ++ (op :: (ws2 ++ (o :: (wsA ++ (body.toks ++ (wsB ++ (c :: rest))))))))
  rw [shift_zero] at hgcur
  have e1 := stage_seg_run BSt.top rfl e.toks hnbE 0 _ g [] hrunE
  let s1 : BSt := { BSt.top with f := g, stack := [] }
  obtain ⟨b1, e2⟩ := stage_triv s1 rfl ws1 hw1 (0 + e.toks.length)
    (op :: (ws2 ++ (o :: (wsA ++ (body.toks ++ (wsB ++ (c :: rest)))))))
  -- the operator
  let s2 : BSt := { s1 with f := { g with ws := b1 } }
  let A3 : RTree := attach Table.gen q ((getDefinition op.type).2 == .binaryRightToLeft) (getDefinition op.type).1
    (0 + e.toks.length + ws1.length) te
  let F3 : Frame := { ctx := g.ctx, cur := A3, last := lastAfter (getDefinition op.type).2, ws := false, prevSep := false }
  let s3 : BSt := { s2 with f := F3 }
  have e3 : refLoopB Table.gen s2 (0 + e.toks.length + ws1.length)
      (op :: (ws2 ++ (o :: (wsA ++ (body.toks ++ (wsB ++ (c :: rest))))))) =
      refLoopB Table.gen s3 (0 + e.toks.length + ws1.length + 1) (ws2 ++ (o :: (wsA ++ (body.toks ++ (wsB ++ (c :: rest)))))) := by
    apply stage_tok
    have hst := ref_op_stepK { g with ws := b1 } [] (0 + e.toks.length + ws1.length) q op
      (ws2 ++ (o :: (wsA ++ (body.toks ++ (wsB ++ (c :: rest)))))) hop hq hglast
    rw [refStepB_noblock (bin3_noblock hop) s2 rfl]
    show liftStep s2 none (refStep Table.gen { g with ws := b1 } [] _ op _) = _
    rw [hst]
    simp only [liftStep, s3, s2, s1, F3, A3, hgcur]
    rfl
  obtain ⟨b2, e4⟩ := stage_triv s3 rfl ws2 hw2 (0 + e.toks.length + ws1.length + 1)
    (o :: (wsA ++ (body.toks ++ (wsB ++ (c :: rest)))))
  -- `[`
  let s4 : BSt := { s3 with f := { F3 with ws := b2 } }
  let s5 : BSt := { f := blockFrame (0 + e.toks.length + ws1.length + 1 + ws2.length), stack := [{ F3 with ws := b2 }],
                    modes := [.pending false], pend := none }
  have hF3l : F3.last = .op ∨ F3.last = .optOp := by
    show lastAfter _ = _ ∨ lastAfter _ = _
    unfold lastAfter; split
    · exact Or.inr rfl
    · exact Or.inl rfl
  have e5 : refLoopB Table.gen s4 (0 + e.toks.length + ws1.length + 1 + ws2.length)
      (o :: (wsA ++ (body.toks ++ (wsB ++ (c :: rest))))) =
      refLoopB Table.gen s5 (0 + e.toks.length + ws1.length + 1 + ws2.length + 1)
        (wsA ++ (body.toks ++ (wsB ++ (c :: rest)))) :=
    stage_tok s4 s5 _ o _ (refStepB_open_pending ho s4 rfl hF3l _ _)
  obtain ⟨b3, e6⟩ := stage_triv s5 rfl wsA hwA (0 + e.toks.length + ws1.length + 1 + ws2.length + 1)
    (body.toks ++ (wsB ++ (c :: rest)))
  -- the body
  let s6 : BSt := { s5 with f := { blockFrame (0 + e.toks.length + ws1.length + 1 + ws2.length) with ws := b3 } }
  have epos : 0 + e.toks.length + ws1.length + 1 + ws2.length + 1 + wsA.length =
      e.toks.length + ws1.length + 1 + ws2.length + 1 + wsA.length := by omega
  obtain ⟨gB, hrunB, hgBcur, hgBctx, hgBlast, hnbB⟩ := expr_run body hbody _ hnumB tb htb
    { blockFrame (0 + e.toks.length + ws1.length + 1 + ws2.length) with ws := b3 } rfl rfl rfl [{ F3 with ws := b2 }]
    (wsB ++ (c :: rest))
  have e7 := stage_seg_run s6 rfl body.toks hnbB (0 + e.toks.length + ws1.length + 1 + ws2.length + 1 + wsA.length)
    (wsB ++ (c :: rest)) gB _ (by rw [epos]; exact hrunB)
  let s7 : BSt := { s6 with f := gB, stack := [{ F3 with ws := b2 }] }
  obtain ⟨b4, e8⟩ := stage_triv s7 rfl wsB hwB
    (0 + e.toks.length + ws1.length + 1 + ws2.length + 1 + wsA.length + body.toks.length) (c :: rest)
  -- `]`
  let s8 : BSt := { s7 with f := { gB with ws := b4 } }
  have hlB : (gB.last == Last.op || gB.last == Last.sep) = false := by
    rcases hgBlast with h | h <;> rw [h] <;> rfl
  have e9 := stage_tok s8 _
    (0 + e.toks.length + ws1.length + 1 + ws2.length + 1 + wsA.length + body.toks.length + wsB.length) c rest
    (refStepB_close_pending hc s8 (0 + e.toks.length + ws1.length + 1 + ws2.length) { F3 with ws := b2 } [] [] hgBctx rfl rfl
      rfl hlB _ _)
  let seB : RTree := .group .sideEffect (0 + e.toks.length + ws1.length + 1 + ws2.length) gB.cur
  let fB : Frame := { ctx := g.ctx, cur := plug A3 seB, last := lastAfter (getDefinition op.type).2, ws := false,
                      prevSep := false }
  let sB : BSt := { f := fB, stack := [], modes := [], pend := some (A3, seB, false) }
  refine ⟨sB, ?_, rfl, ?_, ?_, ?_⟩
  · rw [e1, e2, e3, e4, e5, e6, e7, e8, e9]
    have hp : 0 + e.toks.length + ws1.length + 1 + ws2.length + 1 + wsA.length + body.toks.length + wsB.length + 1 =
        e.toks.length + ws1.length + 1 + ws2.length + 1 + wsA.length + body.toks.length + wsB.length + 1 := by omega
    rw [hp]
  · show lastAfter _ ≠ _
    unfold lastAfter; split <;> simp
  · show some (A3, seB, false) = _
    simp only [A3, seB, hgBcur, Nat.zero_add]
  · show plug A3 seB = _
    simp only [A3, seB, hgBcur, Nat.zero_add]

end Garnish.Spec
