/-
C04, builder half — evaluation order, part 9: the visit lemmas of Lemmas/BuildTotalHandlers with the order invariant.
-/
import Garnish.Lemmas.BuildSeq8
import Garnish.Lemmas.BuildTotalHandlers2
namespace Garnish.Lemmas.BuildSeq
open Garnish Garnish.Gen Garnish.Model.Parser Garnish.Model.Literals Garnish.Model.Build Garnish.Lemmas.Build
open Garnish.Lemmas.BuildTotal
open Garnish.Lemmas.BuildOrder (Above Attr)

variable {F : Type} {root : Nat} {tree : Array ParseNode} {G : Nat → Prop} {m0 : Nat}

/-- the order invariant with the side-effect brackets -/
def FInv (root : Nat) (tree : Array ParseNode) (G : Nat → Prop) (m0 : Nat) (ph : Nat → Phase) (S : List Nat)
    (nodes : Nodes) (M : Array (Option Nat)) : Prop :=
  SInv root tree G m0 ph S nodes M ∧ BInv tree G m0 ph M ∧ m0 ≤ M.size

theorem step_finv {ph ph' : Nat → Phase} {ctx ctx' : Ctx F} {ni : Nat} {pn : ParseNode} {vni : Phase} {cs rs suf : List Nat}
    {l : List (Option Nat)} {M M' : Array (Option Nat)}
    (st : Step root tree G ph ph' ctx ctx' ni pn vni cs rs suf l M M')
    (h : FInv root tree G m0 ph (ctx.stack.toList ++ [ni]) ctx.nodes M) :
    FInv root tree G m0 ph' ctx'.stack.toList ctx'.nodes M' := by
  refine ⟨step_sinv st h.1, step_binv st h.1 h.2.2 h.2.1, ?_⟩
  have := congrArg List.length st.hM
  simp only [Array.length_toList, List.length_append] at this
  have := h.2.2
  omega

/-- `Pre` plus the order invariant on the whole work list (the visited node on top) -/
structure PreS (root : Nat) (tree : Array ParseNode) (G : Nat → Prop) (m0 : Nat) (ph : Nat → Phase) (ctx : Ctx F) (ni : Nat)
    (pn : ParseNode) : Prop where
  pre : Pre root tree G ph ctx ni pn
  inv : FInv root tree G m0 ph (ctx.stack.toList ++ [ni]) ctx.nodes ctx.data.metadata

/-- what a handler establishes, with the order invariant -/
def PostS (root : Nat) (tree : Array ParseNode) (G : Nat → Prop) (m0 : Nat) (ph : Nat → Phase) (ctx' : Ctx F) : Prop :=
  ∃ ph', Inv root tree G ph' ctx' ∧ total ph' tree.size < total ph tree.size ∧
    FInv root tree G m0 ph' ctx'.stack.toList ctx'.nodes ctx'.data.metadata

theorem layout_sideEffect {d : Definition} (h : d = .sideEffect) : layout d = .rn := by subst h; rfl
theorem oolR_not_sideEffect {d : Definition} (h : oolR d = true) : d ≠ .sideEffect := by
  intro e; subst e; simp [oolR, isLate] at h

section pre
variable {ph : Nat → Phase} {ctx : Ctx F} {ni : Nat} {pn : ParseNode}

theorem PreS.firstVisit (p : PreS root tree G m0 ph ctx ni pn) {ctx' : Ctx F} {node : BuildNode}
    (hnode : ctx.nodes[ni]? = some (some node)) (hst : node.state = .uninitialized)
    (hd : pn.definition ≠ .group ∧ pn.definition ≠ .nestedExpression)
    (cs suf : List Nat) (asg : List (Nat × BuildNode)) (l : List (Option Nat))
    (hM : ctx'.data.metadata.toList = ctx.data.metadata.toList ++ l) (hl : ∀ m, m ∈ l → m = none ∨ m = some ni)
    (hS : ctx'.stack.toList = ctx.stack.toList ++ suf) (hR : ctx'.rootStack = ctx.rootStack)
    (hN : ctx'.nodes = assign ctx.nodes asg)
    (hsuf : ∀ x, x ∈ suf → x = ni ∨ x ∈ cs) (hsufN : ni ∉ cs → cs.Nodup → suf.Nodup) (hcs : cs.Nodup)
    (hnisuf : ni ∈ suf) (hsufcs : ∀ c, c ∈ cs → c ∈ suf)
    (hchild : ∀ c, c ∈ cs → IsChild tree ni c ∧ ¬ LateRight tree ni c)
    (hasgp : ∀ q, q ∈ asg → q.2.parseNodeIndex = q.1)
    (hasg : ∀ q, q ∈ asg → (q.1 = ni ∧ q.2.state = .initialized ∧ q.2.conditionalItems = node.conditionalItems) ∨
      (q.1 ∈ cs ∧ q.2.conditionalItems = #[]))
    (hasgni : ∃ b, (ni, b) ∈ asg)
    (hasgU : ∀ q, q ∈ asg → q.1 = ni ∨ q.2.state = .uninitialized)
    (hasgall : ∀ c, c ∈ cs → ∃ b, (c, b) ∈ asg)
    (conf : Conf tree ni .p2 cs suf)
    (hattr : some ni ∈ l → pn.definition = .sideEffect) (hse : pn.definition = .sideEffect → some ni ∈ l) :
    PostS root tree G m0 ph ctx' := by
  have hp1 := p.pre.p1 hnode hst
  have hchild' : ∀ c, c ∈ cs ++ [] → IsChild tree ni c ∧ (LateRight tree ni c → Phase.p2 = .p3) ∧ (ph ni = .p2 → LateRight tree ni c) := by
    intro c hc
    have hc' : c ∈ cs := by simpa using hc
    refine ⟨(hchild c hc').1, fun hl => absurd hl (hchild c hc').2, fun h2 => ?_⟩
    rw [hp1] at h2; cases h2
  have h1 := step_inv_exp p.pre.V p.pre.inv p.pre.hG p.pre.hph p.pre.hns p.pre.hpn .p2 (Or.inl rfl) (fun _ => ⟨hp1, hd⟩) cs [] suf []
    asg hS (by rw [hR]; simp) hN (fun x hx => by
      rcases hsuf x hx with h | h
      · exact Or.inl ⟨h, rfl⟩
      · exact Or.inr h) hsufN (fun x hx => by cases hx) (fun _ => List.nodup_nil) (by simpa using hcs) hchild' hasgp
    (fun q hq => by
      rcases hasg q hq with ⟨h1, h2, h3⟩ | ⟨h1, h2⟩
      · exact Or.inl ⟨h1, fun _ => h2, node, hnode, h3⟩
      · exact Or.inr ⟨by simpa using h1, h2⟩) (fun _ => hasgni)
  have hkeys : ∀ q, q ∈ asg → q.1 = ni ∨ (q.1 ∈ cs ++ [] ∧ q.2.state = .uninitialized) := by
    intro q hq
    rcases hasg q hq with ⟨h1, _⟩ | ⟨h1, _⟩
    · exact Or.inl h1
    · rcases hasgU q hq with h2 | h2
      · exact Or.inl h2
      · exact Or.inr ⟨by simpa using h1, h2⟩
  have st := mkStep (M := ctx.data.metadata) (M' := ctx'.data.metadata) p.pre.V p.pre.inv p.pre.hG p.pre.hph p.pre.hpn .p2
    (Or.inl rfl) (fun _ => hp1) cs [] suf asg l hS hN hM hl
    (fun _ => hnisuf) hsufcs h1.1.stackNodup (by simpa using hcs) hchild' hkeys (fun c hc => hasgall c (by simpa using hc))
    (fun _ => hp1) conf (fun h => Or.inr (hattr h)) hse (fun c hc => by cases hc)
  exact ⟨_, h1.1, h1.2, step_finv st p.inv⟩

theorem PreS.lastVisit (p : PreS root tree G m0 ph ctx ni pn) {ctx' : Ctx F} (asg : List (Nat × BuildNode))
    (l : List (Option Nat))
    (hM : ctx'.data.metadata.toList = ctx.data.metadata.toList ++ l) (hl : ∀ m, m ∈ l → m = none ∨ m = some ni)
    (hS : ctx'.stack = ctx.stack) (hR : ctx'.rootStack = ctx.rootStack) (hN : ctx'.nodes = assign ctx.nodes asg)
    (hasgp : ∀ q, q ∈ asg → q.2.parseNodeIndex = q.1)
    (hasg : ∀ q, q ∈ asg → q.1 = ni ∧ ∃ bn, ctx.nodes[ni]? = some (some bn) ∧ q.2.conditionalItems = bn.conditionalItems)
    (hse : pn.definition = .sideEffect → some ni ∈ l) : PostS root tree G m0 ph ctx' := by
  have h1 := step_inv_exp p.pre.V p.pre.inv p.pre.hG p.pre.hph p.pre.hns p.pre.hpn .p3 (Or.inr rfl) (fun h => by cases h) [] [] [] [] asg
    (by rw [hS]; simp) (by rw [hR]; simp) hN (fun x hx => by cases hx) (fun _ _ => List.nodup_nil)
    (fun x hx => by cases hx) (fun _ => List.nodup_nil) (by simp) (fun c hc => by cases hc) hasgp
    (fun q hq => Or.inl ⟨(hasg q hq).1, (fun h => by cases h), (hasg q hq).2⟩) (fun h => by cases h)
  have st := mkStep (M := ctx.data.metadata) (M' := ctx'.data.metadata) p.pre.V p.pre.inv p.pre.hG p.pre.hph p.pre.hpn .p3 (Or.inr rfl) (fun h => by cases h) [] [] [] asg l
    (by rw [hS]; simp) hN hM hl (fun h => by cases h) (fun c hc => by cases hc) h1.1.stackNodup (by simp)
    (fun c hc => by cases hc) (fun q hq => Or.inl (hasg q hq).1) (fun c hc => by cases hc) (fun h => absurd rfl h)
    (conf_nil tree ni .p3 []) (fun _ => Or.inl rfl) hse (fun c hc => by cases hc)
  exact ⟨_, h1.1, h1.2, step_finv st p.inv⟩

theorem PreS.rootVisit (p : PreS root tree G m0 ph ctx ni pn) {ctx' : Ctx F} {r : Nat} (hr : pn.right = some r)
    (hlate : ph ni = .p2 → isLate pn.definition = true) (hoolr : oolR pn.definition = true)
    (b : BuildNode) (hb : b.parseNodeIndex = r) (hbi : b.conditionalItems = #[]) (hbu : b.state = .uninitialized)
    (l : List (Option Nat))
    (hM : ctx'.data.metadata.toList = ctx.data.metadata.toList ++ l) (hl : ∀ m, m ∈ l → m = none ∨ m = some ni)
    (hS : ctx'.stack = ctx.stack) (hR : ctx'.rootStack = ctx.rootStack.push r) (hN : ctx'.nodes = putNode ctx.nodes r b) :
    PostS root tree G m0 ph ctx' := by
  have hchild' : ∀ c, c ∈ [] ++ [r] → IsChild tree ni c ∧ (LateRight tree ni c → Phase.p3 = .p3) ∧ (ph ni = .p2 → LateRight tree ni c) := by
    intro c hc
    have : c = r := by simpa using hc
    subst this
    exact ⟨p.pre.childR hr, fun _ => rfl, fun h2 => p.pre.lateRight (hlate h2) hr⟩
  have h1 := step_inv_exp p.pre.V p.pre.inv p.pre.hG p.pre.hph p.pre.hns p.pre.hpn .p3 (Or.inr rfl) (fun h => by cases h) [] [r] [] [r]
    [(r, b)] (by rw [hS]; simp) (by rw [hR]; simp) (by rw [hN]; rfl) (fun x hx => by cases hx) (fun _ _ => List.nodup_nil)
    (fun x hx => hx) (fun h => h) (by simp) hchild'
    (fun q hq => by
      have : q = (r, b) := by simpa using hq
      subst this; exact hb)
    (fun q hq => by
      have : q = (r, b) := by simpa using hq
      subst this; exact Or.inr ⟨by simp, hbi⟩) (fun h => by cases h)
  have st := mkStep (M := ctx.data.metadata) (M' := ctx'.data.metadata) p.pre.V p.pre.inv p.pre.hG p.pre.hph p.pre.hpn .p3 (Or.inr rfl) (fun h => by cases h) [] [r] [] [(r, b)] l
    (by rw [hS]; simp) (by rw [hN]; rfl) hM hl (fun h => by cases h) (fun c hc => by cases hc) h1.1.stackNodup (by simp) hchild'
    (fun q hq => by
      have : q = (r, b) := by simpa using hq
      subst this; exact Or.inr ⟨by simp, hbu⟩)
    (fun c hc => by
      have : c = r := by simpa using hc
      subst this; exact ⟨b, by simp⟩)
    (fun h => absurd rfl h) (conf_nil tree ni .p3 []) (fun _ => Or.inl rfl)
    (fun h => absurd h (oolR_not_sideEffect hoolr))
    (fun c hc => by
      have : c = r := by simpa using hc
      subst this; exact ⟨pn, p.pre.hpn, hr, hoolr⟩)
  exact ⟨_, h1.1, h1.2, step_finv st p.inv⟩

theorem PreS.stackVisit (p : PreS root tree G m0 ph ctx ni pn) {ctx' : Ctx F} {r : Nat} (hr : pn.right = some r)
    (hp1 : ph ni = .p1) (hnl : isLate pn.definition = false) (hk : layout pn.definition = .gr)
    (b : BuildNode) (hb : b.parseNodeIndex = r) (hbi : b.conditionalItems = #[]) (hbu : b.state = .uninitialized)
    (hD : ctx'.data = ctx.data)
    (hS : ctx'.stack = ctx.stack.push r) (hR : ctx'.rootStack = ctx.rootStack) (hN : ctx'.nodes = putNode ctx.nodes r b) :
    PostS root tree G m0 ph ctx' := by
  have hchild' : ∀ c, c ∈ [r] ++ [] → IsChild tree ni c ∧ (LateRight tree ni c → Phase.p3 = .p3) ∧ (ph ni = .p2 → LateRight tree ni c) := by
    intro c hc
    have : c = r := by simpa using hc
    subst this
    exact ⟨p.pre.childR hr, fun _ => rfl, fun h2 => by rw [hp1] at h2; cases h2⟩
  have h1 := step_inv_exp p.pre.V p.pre.inv p.pre.hG p.pre.hph p.pre.hns p.pre.hpn .p3 (Or.inr rfl) (fun h => by cases h) [r] [] [r] []
    [(r, b)] (by rw [hS]; simp) (by rw [hR]; simp) (by rw [hN]; rfl) (fun x hx => Or.inr hx) (fun _ h => h)
    (fun x hx => by cases hx) (fun _ => List.nodup_nil) (by simp) hchild'
    (fun q hq => by
      have : q = (r, b) := by simpa using hq
      subst this; exact hb)
    (fun q hq => by
      have : q = (r, b) := by simpa using hq
      subst this; exact Or.inr ⟨by simp, hbi⟩) (fun h => by cases h)
  have hnse : pn.definition ≠ .sideEffect := fun e => by rw [layout_sideEffect e] at hk; cases hk
  have st := mkStep (M := ctx.data.metadata) (M' := ctx'.data.metadata) p.pre.V p.pre.inv p.pre.hG p.pre.hph p.pre.hpn .p3 (Or.inr rfl) (fun h => by cases h) [r] [] [r] [(r, b)] []
    (by rw [hS]; simp) (by rw [hN]; rfl) (by rw [hD]; simp) (fun m hm => by cases hm) (fun h => by cases h) (fun c hc => hc)
    h1.1.stackNodup (by simp) hchild'
    (fun q hq => by
      have : q = (r, b) := by simpa using hq
      subst this; exact Or.inr ⟨by simp, hbu⟩)
    (fun c hc => by
      have : c = r := by simpa using hc
      subst this; exact ⟨b, by simp⟩)
    (fun _ => hp1)
    (conf_layout p.pre.hpn pn.left (some r) rfl hr .gr hk .p3 (fun h => absurd rfl h) [r] [r] rfl (fun c => by simp [csOf]))
    (fun h => by cases h) (fun h => absurd h hnse) (fun c hc => by cases hc)
  exact ⟨_, h1.1, h1.2, step_finv st p.inv⟩

theorem PreS.condVisit (p : PreS root tree G m0 ph ctx ni pn) {ctx' : Ctx F} {r : Nat} (hr : pn.right = some r)
    (hlate : isLate pn.definition = true) {cp : Nat} {parent : BuildNode} (hcp : ctx.nodes[cp]? = some (some parent))
    (item : ConditionItem) (hitem : item.nodeIndex = r) (l : List (Option Nat))
    (hM : ctx'.data.metadata.toList = ctx.data.metadata.toList ++ l) (hl : ∀ m, m ∈ l → m = none ∨ m = some ni)
    (hS : ctx'.stack = ctx.stack) (hR : ctx'.rootStack = ctx.rootStack)
    (hN : ctx'.nodes = putNode ctx.nodes cp { parent with conditionalItems := parent.conditionalItems.push item }) :
    PostS root tree G m0 ph ctx' := by
  have h1 := cond_inv_exp p.pre.V p.pre.inv p.pre.hG p.pre.hph p.pre.hns p.pre.hpn hr hlate hcp item hitem hS hR hN
  exact ⟨_, h1.1, h1.2, step_finv (mkStep_cond p.pre.V p.pre.inv p.pre.hG p.pre.hph p.pre.hpn p.inv.1.nodup hr hlate hcp item l
    hS hN hM hl) p.inv⟩

theorem PreS.elseVisit (p : PreS root tree G m0 ph ctx ni pn) {ctx' : Ctx F} (hnse : pn.definition ≠ .sideEffect)
    {node : BuildNode} (hnode : ctx.nodes[ni]? = some (some node)) (containing jumpToIndex : Nat) (l : List (Option Nat))
    (hM : ctx'.data.metadata.toList = ctx.data.metadata.toList ++ l) (hl : ∀ m, m ∈ l → m = none ∨ m = some ni)
    (hS : ctx'.stack = ctx.stack)
    (hR : ctx'.rootStack.toList = ctx.rootStack.toList ++ node.conditionalItems.toList.map (·.nodeIndex))
    (hN : ctx'.nodes = assign ctx.nodes (node.conditionalItems.toList.map (itemNode containing jumpToIndex))) :
    PostS root tree G m0 ph ctx' := by
  have h1 := else_inv_exp p.pre.V p.pre.inv p.pre.hG p.pre.hph p.pre.hns hnode containing jumpToIndex hS hR hN
  exact ⟨_, h1.1, h1.2, step_finv (mkStep_else p.pre.V p.pre.inv p.pre.hG p.pre.hph p.pre.hpn hnse p.inv.1.nodup hnode containing
    jumpToIndex l hS hN hM hl) p.inv⟩

end pre

end Garnish.Lemmas.BuildSeq
