import Garnish.Lemmas.AccessBasic
namespace Garnish.Access
open Garnish
open Garnish.BasicOpt (Cell)

/-- the first and one-past-the-last position an extent selects in a sequence of `len` items:
`min start len` and `max (min end len) (min start len)` (a descending extent is empty) -/
def extentLo (s : Num) (len : Nat) : Nat := min (usizeFrom s) len
def extentHi (s e : Num) (len : Nat) : Nat := max (min (usizeFrom e) len) (extentLo s len)

theorem extentLo_le_hi (s e : Num) (len : Nat) : extentLo s len ≤ extentHi s e len := by unfold extentHi; omega
theorem extentHi_le_len (s e : Num) (len : Nat) : extentHi s e len ≤ len := by unfold extentHi extentLo; omega

theorem extentsToStartEnd_ok (s e : Num) {base len : Nat} (hb : base + 1 + len ≤ USIZE_MAX) :
    extentsToStartEnd s e base len = .ok (base + 1 + extentLo s len, base + 1 + extentHi s e len) := by
  unfold extentsToStartEnd
  rw [uadd_ok (by omega)]; simp only [bind_ok]
  rw [uadd_ok (by have : min (usizeFrom s) len ≤ len := Nat.min_le_right _ _; omega)]; simp only [bind_ok]
  rw [uadd_ok (by have : min (usizeFrom e) len ≤ len := Nat.min_le_right _ _; omega)]; simp only [bind_ok]
  unfold extentHi extentLo
  congr 2; omega

/-- `extents_to_start_end` never overflows when the announced cells exist, whatever the extents (the cast values are
`min`-ed with the length before they are added) -/
theorem extentsToStartEnd_panics_iff (s e : Num) (base len : Nat) :
    (∃ m, extentsToStartEnd s e base len = .panic m) ↔
      USIZE_MAX < base + 1 + max (min (usizeFrom s) len) (min (usizeFrom e) len) := by
  unfold extentsToStartEnd uadd
  by_cases h1 : base + 1 ≤ USIZE_MAX
  · simp only [h1, if_true, bind_ok]
    by_cases h2 : base + 1 + min (usizeFrom s) len ≤ USIZE_MAX
    · simp only [h2, if_true, bind_ok]
      by_cases h3 : base + 1 + min (usizeFrom e) len ≤ USIZE_MAX
      · simp only [h3, if_true, bind_ok]; simp; omega
      · simp only [h3, if_false, bind_panic]; simp; omega
    · simp only [h2, if_false, bind_panic]; simp; omega
  · simp only [h1, if_false, bind_panic]; simp; omega

/-- the four data-block iterator constructors share this body -/
def genIter {β : Type} (h : Heap) (hdr : Cell → Outcome Nat) (proj : Cell → Option β) (bad : Outcome (List β)) (site : String)
    (li : Nat) (s e : Num) : Outcome (List β) :=
  (h.getData li).bind fun c => (hdr c).bind fun len =>
  (uadd h.dstart li).bind fun base =>
  (extentsToStartEnd s e base len).bind fun se =>
  (h.rawSlice se.1 se.2 site).bind (collectWith proj bad)

theorem getCharListIter_eq (h : Heap) (li : Nat) (s e : Num) :
    getCharListIter h li s e = genIter h asCharList charOf (.panic "garnish_impl.rs:get_char_list_iter: as_char().unwrap() on a cell that is not a Char") "garnish_impl.rs:get_char_list_iter" li s e := rfl
theorem getByteListIter_eq (h : Heap) (li : Nat) (s e : Num) :
    getByteListIter h li s e = genIter h asByteList byteOf (.panic "garnish_impl.rs:get_byte_list_iter: as_byte().unwrap() on a cell that is not a Byte") "garnish_impl.rs:get_byte_list_iter" li s e := rfl
theorem getListItemIter_eq (h : Heap) (li : Nat) (s e : Num) :
    getListItemIter h li s e = genIter h asListLen itemOf (.err .data) "garnish_impl.rs:get_list_item_iter" li s e := by
  unfold getListItemIter genIter asListLen collectItems
  cases h.getData li with
  | ok c => simp only [bind_ok]; cases asList c <;> rfl
  | _ => rfl

theorem getSymbolListIter_eq (h : Heap) (li : Nat) (s e : Num) :
    getSymbolListIter h li s e = genIter h asSymbolList partOf (.err .data) "garnish_impl.rs:get_symbol_list_iter" li s e := by
  unfold getSymbolListIter genIter extentsToStartEnd collectParts
  cases h.getData li with
  | ok c =>
    simp only [bind_ok]
    cases asSymbolList c with
    | ok len =>
      simp only [bind_ok]
      cases uadd h.dstart li with
      | ok base =>
        simp only [bind_ok]
        cases uadd base 1 with
        | ok b1 =>
          simp only [bind_ok]
          cases uadd b1 (min (usizeFrom s) len) with
          | ok st =>
            simp only [bind_ok]
            cases uadd b1 (min (usizeFrom e) len) <;> rfl
          | _ => rfl
        | _ => rfl
      | _ => rfl
    | _ => rfl
  | _ => rfl

section gen
variable {β : Type} {h : Heap} {hdr : Cell → Outcome Nat} {proj : Cell → Option β} {bad : Outcome (List β)}

/-- the iterator constructors: never a panic, for every extent; on a header of the right kind the iterator yields
exactly the announced items from `min start len` up to `min end len` (nothing for a descending extent) -/
theorem genIter_spec (wf : h.WF) (hbad : ∀ ys, bad ≠ .ok ys) (fit : Fits h hdr proj bad) (site : String)
    (li : Nat) (s e : Num) :
    Safe (genIter h hdr proj bad site li s e) ∧
    ∀ c n, li < h.cursor → h.cell li = some c → hdr c = .ok n →
      ∃ ys, collectWith proj bad (h.cellsAt (li + 1) n) = .ok ys ∧ ys.length = n ∧
        genIter h hdr proj bad site li s e = .ok (ys.extract (extentLo s n) (extentHi s e n)) := by
  have main : ∀ c n, li < h.cursor → h.cell li = some c → hdr c = .ok n →
      ∃ ys, collectWith proj bad (h.cellsAt (li + 1) n) = .ok ys ∧ ys.length = n ∧
        genIter h hdr proj bad site li s e = .ok (ys.extract (extentLo s n) (extentHi s e n)) := by
    intro c n hli hc hn
    obtain ⟨ys, hys, an⟩ := fit.announced li c n hli hc hn
    refine ⟨ys, hys, an.length, ?_⟩
    have h1 := wf.1; have h2 := wf.2.1; have h3 := an.below
    unfold genIter
    rw [getData_lt wf hli hc]; simp only [bind_ok, hn]
    rw [uadd_ok (by omega)]; simp only [bind_ok]
    rw [extentsToStartEnd_ok s e (by omega)]; simp only [bind_ok]
    have hlo := extentLo_le_hi s e n
    have hhi := extentHi_le_len s e n
    rw [rawSlice_ok h site (by omega) (by omega)]; simp only [bind_ok]
    have := cellsAt_sub h (li + 1) n (extentLo s n) (extentHi s e n) hlo hhi
    have e1 : h.dstart + li + 1 + extentLo s n = h.dstart + (li + 1) + extentLo s n := by omega
    have e2 : h.dstart + li + 1 + extentHi s e n = h.dstart + (li + 1) + extentHi s e n := by omega
    rw [e1, e2, this]
    exact collectWith_extract proj bad hbad hys _ _
  refine ⟨?_, main⟩
  rcases getData_cases wf li with ⟨_, h1⟩ | ⟨hli, c, hc, h1⟩
  · unfold genIter; rw [h1]; exact safe_err _
  · rcases fit.hdr_cases c with ⟨n, hn⟩ | he
    · obtain ⟨ys, _, _, h2⟩ := main c n hli hc hn
      rw [h2]; exact safe_ok _
    · unfold genIter; rw [h1]; simp only [bind_ok, he, bind_err]; exact safe_err _

end gen

theorem extract_descending {α} (xs : List α) (s e : Num) (n : Nat) (h : min (usizeFrom e) n ≤ min (usizeFrom s) n) :
    xs.extract (extentLo s n) (extentHi s e n) = [] := by
  unfold extentHi extentLo
  simp [List.extract_eq_take_drop]; omega

end Garnish.Access
