/-
C06 static half on compiled code, part 10: `loopE` — when the layout loop has finished, every instruction laid out
from a state on is `EdgeOK` in the final state, provided every pending root satisfies `TermOK` there.
-/
import Garnish.Lemmas.CompileDepth9
import Garnish.Lemmas.CompileLast
namespace Garnish.Abs
open Garnish Gen Garnish.Spec Garnish.Props.C06

variable {F : Type}

/-- the final state with the pending lists of an intermediate state put back: same program, same depths -/
def withPending (Fs s' : LState F) : LState F := { Fs with pending := s'.pending, pendDep := s'.pendDep }

theorem edgeOK_withPending {Fs s' : LState F} {pc : Nat} (h : EdgeOK (withPending Fs s') pc) : EdgeOK Fs pc := h
theorem termOK_withPending {Fs s' : LState F} {r : Root F} {d : Nat} (h : TermOK (withPending Fs s') r d) : TermOK Fs r d := h

section loop
variable (bodies : List (Nat × Expr F))

theorem push_instr_at {s2 s' Fs : LState F} {i : Instruction} {d : Option Nat} (h1 : App (s2.push i d) s') (ev : Ev s' Fs) :
    Fs.instrs[s2.instrs.size]? = some (i, d) := by
  have := instr_at (sF := Fs) h1 ev
  simpa using this

/-- one root: its main line and its terminators are `EdgeOK` in the final state, and the roots it pushes are `TermOK` -/
theorem root_region {Fs s1 : LState F} {r : Root F} {b : Expr F} {dr : Nat}
    (hp1 : PendOK s1) (hc : r.containing < s1.jumps.size) (al1 : Al s1) (hdep : s1.dep = dr)
    (ev' : Ev (addTerms s1.instrs.size (emit r.patch r.containing b s1).instrs.back? r.term (emit r.patch r.containing b s1)) Fs)
    (dappF : DApp (addTerms s1.instrs.size (emit r.patch r.containing b s1).instrs.back? r.term
      (emit r.patch r.containing b s1)) Fs)
    (hrootsF : ∀ p ∈ (addTerms s1.instrs.size (emit r.patch r.containing b s1).instrs.back? r.term
        (emit r.patch r.containing b s1)).pending.zip
      (addTerms s1.instrs.size (emit r.patch r.containing b s1).instrs.back? r.term (emit r.patch r.containing b s1)).pendDep,
      RootD Fs p.1 p.2)
    (hwfb : wfE b = true) (htlb : noR b = true ∨ (tailR b = true ∧ dr = 0)) (hcurb : ContOK Fs r.containing)
    (hrT : TermOK Fs r dr) (hrRef : RefOK r) (hkb : ∀ e, r.kind = .code e → e = b)
    (hlocb : Located Fs.toProg r.patch r.containing s1.instrs.size b) :
    (∀ pc, s1.instrs.size ≤ pc →
      pc < (addTerms s1.instrs.size (emit r.patch r.containing b s1).instrs.back? r.term
        (emit r.patch r.containing b s1)).instrs.size → EdgeOK Fs pc) ∧
    (∀ p ∈ (emit r.patch r.containing b s1).pending.zip (emit r.patch r.containing b s1).pendDep,
      p ∉ s1.pending.zip s1.pendDep → TermOK Fs p.1 p.2) := by
  obtain ⟨p12, z2⟩ := emit_pre r.patch r.containing b s1 hc
  obtain ⟨d12, k2⟩ := emit_dep r.patch r.containing b s1 hwfb
  have al2 : Al (emit r.patch r.containing b s1) := al1.emit hc hwfb
  have hpos := len_pos b
  generalize hs2 : emit r.patch r.containing b s1 = s2 at *
  have pT := addTerms_pre s1.instrs.size s2.instrs.back? r.term s2
  have aT := addTerms_appD s1.instrs.size s2.instrs.back? r.term s2
  obtain ⟨pdT1, pdT2⟩ := addTerms_pending s1.instrs.size s2.instrs.back? r.term s2
  -- the terminators: their positions, instructions and depths, and that they are `EdgeOK`
  have hterms : (Fs.instrs.size ≤ s2.instrs.size ∨ Fs.depths[s2.instrs.size]? = some (dr + 1)) ∧
      (∀ pc, s2.instrs.size ≤ pc → pc < (addTerms s1.instrs.size s2.instrs.back? r.term s2).instrs.size → EdgeOK Fs pc) := by
    cases hk : r.kind with
    | ref id =>
      have ht := (hrRef id hk).2
      have hd0 := hrT.2.2 id hk
      -- the body does not end with `EndExpression`, so the terminator is pushed
      obtain ⟨i, d, hi, hcl⟩ := last_cases Fs.toProg r.patch r.containing b s1.instrs.size hlocb (wfE_wfC b hwfb)
      have hlast : s2.instrs.back? = some (i, d) := by
        rw [Array.back?_eq_getElem?, z2, ← hi, toProg_instrs,
          ev'.instrs _ (by have := pT.isize; omega), pT.instrs _ (by omega)]
      have hns : ¬ (s2.instrs.back? = some (Instruction.endExpression, (none : Option Nat)) ∧
          (Instruction.endExpression, (none : Option Nat)).1 = .endExpression) := by
        intro hcon
        rw [hlast] at hcon
        simp only [Option.some.injEq, Prod.mk.injEq] at hcon
        exact hcl.2 hcon.1.1
      rw [ht, addTerms_cons_push hns] at ev' dappF ⊢
      simp only [addTerms] at ev' dappF ⊢
      have dd : Fs.depths[s2.instrs.size]? = some (dr + 1) := by
        rw [dappF.1 _ (by simp; rw [al2]; omega)]
        have := first_push al2 .endExpression none
        rw [k2, hdep] at this
        exact this
      refine ⟨.inr dd, fun pc h1 h2 => ?_⟩
      obtain rfl : pc = s2.instrs.size := by simp at h2; omega
      rw [hd0] at dd
      exact .mk dd (edges_end (push_instr_at (.refl _) ev')) (by simp)
    | code e =>
      obtain ⟨_, _, _, hshape⟩ := hrT.2.1 e hk
      rcases hshape with ⟨j, ht⟩ | ⟨j, ht⟩
      · have hns : ¬ (s2.instrs.back? = some (Instruction.jumpTo, some j) ∧
            (Instruction.jumpTo, some j).1 = .endExpression) := by simp
        rw [ht, addTerms_cons_push hns] at ev' dappF ⊢
        simp only [addTerms] at ev' dappF ⊢
        have dd : Fs.depths[s2.instrs.size]? = some (dr + 1) := by
          rw [dappF.1 _ (by simp; rw [al2]; omega)]
          have := first_push al2 .jumpTo (some j)
          rw [k2, hdep] at this
          exact this
        refine ⟨.inr dd, fun pc h1 h2 => ?_⟩
        obtain rfl : pc = s2.instrs.size := by simp at h2; omega
        obtain ⟨tj, htj, hdj⟩ := hrT.1 j (by rw [ht]; simp)
        refine .mk dd (edges_jumpTo (push_instr_at (.refl _) ev') htj) (fun e hm => ?_)
        simp only [List.mem_singleton] at hm
        subst hm
        exact hdj
      · have hns1 : ¬ (s2.instrs.back? = some (Instruction.tis, (none : Option Nat)) ∧
            (Instruction.tis, (none : Option Nat)).1 = .endExpression) := by simp
        have hns2 : ¬ (s2.instrs.back? = some (Instruction.jumpTo, some j) ∧
            (Instruction.jumpTo, some j).1 = .endExpression) := by simp
        rw [ht, addTerms_cons_push hns1, addTerms_cons_push hns2] at ev' dappF ⊢
        simp only [addTerms] at ev' dappF ⊢
        have alt := al2.push .tis none
        have dd1 : Fs.depths[s2.instrs.size]? = some (dr + 1) := by
          rw [dappF.1 _ (by simp; rw [al2]; omega)]
          have := first_app (first_push al2 .tis none) (AppD.push _ .jumpTo (some j))
          rw [k2, hdep] at this
          exact this
        have dd2 : Fs.depths[s2.instrs.size + 1]? = some (dr + 1) := by
          have := first_push alt .jumpTo (some j)
          simp only [push_isize, push_dep, k2, hdep, fall] at this
          rw [dappF.1 _ (by simp; rw [al2]; omega)]
          exact this
        refine ⟨.inr dd1, fun pc h1 h2 => ?_⟩
        by_cases heq : pc = s2.instrs.size
        · subst heq
          have i1 := push_instr_at (s2 := s2) (i := .tis) (d := none) (App.push _ _ _) ev'
          exact .next dd1 (edges_un (k := dr) i1 rfl) (.inr dd2)
        · obtain rfl : pc = s2.instrs.size + 1 := by simp at h2; omega
          obtain ⟨tj, htj, hdj⟩ := hrT.1 j (by rw [ht]; simp)
          have i2 := push_instr_at (s2 := s2.push .tis none) (i := .jumpTo) (d := some j) (.refl _) ev'
          simp only [push_isize] at i2
          refine .mk dd2 (edges_jumpTo i2 htj) (fun e hm => ?_)
          simp only [List.mem_singleton] at hm
          subst hm
          exact hdj
  obtain ⟨hnext, htermE⟩ := hterms
  -- the main line
  have evW : Ev (addTerms s1.instrs.size s2.instrs.back? r.term s2)
      (withPending Fs (addTerms s1.instrs.size s2.instrs.back? r.term s2)) :=
    ⟨ev'.instrs, ev'.isize, ev'.consts, ev'.csize, ev'.jumps, ev'.jsize, fun q hq => .inl hq⟩
  have hadW : AppD (addTerms s1.instrs.size s2.instrs.back? r.term s2)
      (withPending Fs (addTerms s1.instrs.size s2.instrs.back? r.term s2)) :=
    ⟨dappF.1, dappF.2, fun p hp => hp⟩
  have hW : W2 s1.jumps.size s2 (addTerms s1.instrs.size s2.instrs.back? r.term s2) := ⟨pT.within _, aT⟩
  have res := emit_edges (sF := withPending Fs (addTerms s1.instrs.size s2.instrs.back? r.term s2))
    (root := r.patch) (cur := r.containing) b s1 _ hc hp1 al1 (hs2 ▸ hW) evW hadW
    (fun p hp _ => hrootsF p hp) hwfb (by rw [hdep]; exact htlb) hcurb
    (by rw [hdep, ← z2]; exact hnext)
  rw [hs2] at res
  refine ⟨fun pc h1 h2 => ?_, fun p hp hn => termOK_withPending (res.2 p hp hn)⟩
  by_cases hlt : pc < s2.instrs.size
  · exact edgeOK_withPending (res.1 pc h1 (by omega))
  · exact htermE pc (by omega) h2

end loop

end Garnish.Abs
