/-
Well-formed data blocks: a decidable invariant of `BasicGarnishData` stores (checked by evaluation on concrete
heaps, by the driver on every generated case) from which the hypotheses of the compaction theorems follow.
-/
import Garnish.Lemmas.OptimizePreserve
namespace Garnish.BasicOpt
open Garnish

/-- the address holds something that can be read back -/
def isNode (cells : Array Cell) (a : Nat) : Bool := (shape cells a).isSome

/-- every link of the node at `i` points to a node at a lower address -/
def nodeOK (cells : Array Cell) (i : Nat) : Bool :=
  match shape cells i with
  | some sh => sh.kids.all (fun k => decide (k < i) && isNode cells k)
  | none => true

/-- a list header's key table is no longer than the list -/
def listOK (cells : Array Cell) (i : Nat) : Bool :=
  match cells[i]? with
  | some (.list n k) => decide (k ≤ n)
  | _ => true

/-- a header cell (text, bytes, symbol list, list) has all the cells it announces -/
def headerOK (cells : Array Cell) (i : Nat) : Bool :=
  match cells[i]? with
  | some (.charList _) | some (.byteList _) | some (.symbolList _) | some (.list _ _) => isNode cells i
  | _ => true

/-- the node at `i` reads the same with and without the cells at or above `r` -/
def extentOK (cells : Array Cell) (r i : Nat) : Bool :=
  decide (shape (cells.extract 0 r) i = shape cells i)

def headOK (cells : Array Cell) : Option Nat → Bool
  | none => true
  | some a => isNode cells a

def symOK (cells : Array Cell) : Cell → Bool
  | .associativeItem _ d => isNode cells d
  | _ => false

/-- **WF**: the decidable well-formedness of a store (independent of any root set) -/
def wf (s : Store) : Bool :=
  decide (s.retention ≤ s.cells.size) &&
  (List.range s.cells.size).all (fun i => nodeOK s.cells i && listOK s.cells i && headerOK s.cells i) &&
  (List.range s.retention).all (extentOK s.cells s.retention) &&
  headOK s.cells s.currentRegister && headOK s.cells s.currentValue && headOK s.cells s.currentFrame &&
  s.symtab.toList.all (symOK s.cells)

/-- the roots handed to `optimize` are readable addresses -/
def rootsOK (s : Store) (roots : List Nat) : Bool := roots.all (isNode s.cells)

structure WF (s : Store) : Prop where
  retLe : s.retention ≤ s.cells.size
  nodes : ∀ i, i < s.cells.size → nodeOK s.cells i = true
  lists : ∀ i, i < s.cells.size → listOK s.cells i = true
  headers : ∀ i, i < s.cells.size → headerOK s.cells i = true
  extent : ∀ i, i < s.retention → extentOK s.cells s.retention i = true
  reg : headOK s.cells s.currentRegister = true
  val : headOK s.cells s.currentValue = true
  frm : headOK s.cells s.currentFrame = true
  syms : ∀ c ∈ s.symtab.toList, symOK s.cells c = true

theorem wf_iff (s : Store) : wf s = true ↔ WF s := by
  unfold wf
  simp only [Bool.and_eq_true, decide_eq_true_eq, List.all_eq_true, List.mem_range]
  constructor
  · rintro ⟨⟨⟨⟨⟨⟨h1, h2⟩, h3⟩, h4⟩, h5⟩, h6⟩, h7⟩
    exact ⟨h1, fun i hi => (h2 i hi).1.1, fun i hi => (h2 i hi).1.2, fun i hi => (h2 i hi).2, h3, h4, h5, h6, h7⟩
  · intro h
    exact ⟨⟨⟨⟨⟨⟨h.retLe, fun i hi => ⟨⟨h.nodes i hi, h.lists i hi⟩, h.headers i hi⟩⟩, h.extent⟩, h.reg⟩, h.val⟩,
      h.frm⟩, h.syms⟩

instance (s : Store) : Decidable (WF s) := decidable_of_iff _ (wf_iff s)

theorem shape_lt {cells : Array Cell} {a : Nat} {sh : Shape} (h : shape cells a = some sh) : a < cells.size := by
  obtain ⟨c, hc⟩ := shape_cell h
  rcases Nat.lt_or_ge a cells.size with h | h
  · exact h
  · rw [Array.getElem?_eq_none h] at hc; cases hc

theorem allSome_of_forall {α β} {f : α → Option β} : ∀ (l : List α), (∀ x ∈ l, ∃ y, f x = some y) →
    ∃ ys, allSome f l = some ys
  | [], _ => ⟨[], rfl⟩
  | a :: l, h => by
    obtain ⟨y, hy⟩ := h a (by simp)
    obtain ⟨ys, hys⟩ := allSome_of_forall l (fun x hx => h x (by simp [hx]))
    exact ⟨y :: ys, by simp [allSome, hy, hys]⟩

/-- in a block whose nodes link downwards to nodes, every node has an unfolding -/
theorem dec_of_nodes {cells : Array Cell} (hn : ∀ i, i < cells.size → nodeOK cells i = true) :
    ∀ (fuel a : Nat), a < fuel → isNode cells a = true → ∃ t, unfold cells fuel a = some t
  | 0, a, h, _ => by omega
  | fuel + 1, a, h, hnode => by
    simp only [isNode, Option.isSome_iff_exists] at hnode
    obtain ⟨sh, hsh⟩ := hnode
    have hok := hn a (shape_lt hsh)
    simp only [nodeOK, hsh, List.all_eq_true, Bool.and_eq_true, decide_eq_true_eq] at hok
    obtain ⟨ts, hts⟩ := allSome_of_forall (f := unfold cells fuel) sh.kids (fun k hk => by
      obtain ⟨h1, h2⟩ := hok k hk
      exact dec_of_nodes hn fuel k (by omega) h2)
    exact ⟨Tree.node sh.label sh.inl ts, by simp [unfold, hsh, hts]⟩

theorem WF.dec {s : Store} (h : WF s) {a : Nat} (ha : isNode s.cells a = true) : Dec s.cells a := by
  obtain ⟨t, ht⟩ := dec_of_nodes h.nodes (a + 1) a (by omega) ha
  exact ⟨a + 1, t, ht⟩

theorem WF.optHyp {s : Store} (h : WF s) : OptHyp s := by
  refine ⟨?_, ?_, ?_⟩
  · intro i n k hc
    have hi : i < s.cells.size := by
      rcases Nat.lt_or_ge i s.cells.size with h | h
      · exact h
      · rw [Array.getElem?_eq_none h] at hc; cases hc
    have := h.lists i hi
    simpa [listOK, hc] using this
  · intro i sh hsh k hk
    have := h.nodes i (shape_lt hsh)
    simp only [nodeOK, hsh, List.all_eq_true, Bool.and_eq_true, decide_eq_true_eq] at this
    exact (this k hk).1
  · intro i sh hi hsh
    have := h.extent i hi
    simp only [extentOK, decide_eq_true_eq] at this
    rw [this]; exact hsh

end Garnish.BasicOpt
