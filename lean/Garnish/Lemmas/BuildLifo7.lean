/-
C04, builder half — the order of the out-of-line parts, part 7: one handler call keeps the fields of `LInv` about the
moment at which an out-of-line child is recorded / pushed.
-/
import Garnish.Lemmas.BuildLifo6
namespace Garnish.Lemmas.BuildSeq
open Garnish Garnish.Gen Garnish.Model.Parser Garnish.Model.Literals Garnish.Model.Build Garnish.Lemmas.Build
open Garnish.Lemmas.BuildTotal
open Garnish.Lemmas.BuildOrder (Above above_append_left above_append_mem above_append_right above_mem above_irrefl
  above_top_false above_init Attr Moving nm1 nm2 nm3 nmr nm23 nm123 get_append attr_append)

variable {F : Type} {root : Nat} {tree : Array ParseNode} {G : Nat → Prop} {m0 : Nat}
variable {ph ph' : Nat → Phase} {ctx ctx' : Ctx F} {ni : Nat} {pn : ParseNode} {vni : Phase} {cs rs suf rsuf : List Nat}
  {l : List (Option Nat)} {M M' : Array (Option Nat)}

theorem Arm.kG (V : Validated root tree G) {r s k : Nat} (h : Arm tree G root r s k) : G k := by
  obtain ⟨pn, h1, _, h3, _⟩ := h
  exact def_G V h1 (by intro e; rw [e] at h3; simp [isJumpIf] at h3)

theorem Arm.ool {r s k : Nat} (h : Arm tree G root r s k) : OolChild tree k r := h.sched.ool

/-- the build node of the visited node -/
theorem StepL.node (sl : StepL root tree G ph ph' ctx ctx' ni pn vni cs rs suf rsuf l M M')
    (hl : LInv root tree G m0 ph ctx.nodes ctx.rootStack.toList M) : ∃ bn : BuildNode, ctx.nodes[ni]? = some (some bn) :=
  hl.hasNode ni sl.st.hph.ne0 (fun o h => by rcases sl.st.hph with e | e <;> rw [e] at h <;> cases h)

/-- an arm whose owner is the visited node: the build node names the head, and the head has a build node -/
theorem StepL.armNode (sl : StepL root tree G ph ph' ctx ctx' ni pn vni cs rs suf rsuf l M M')
    (ho : SInv root tree G m0 ph (ctx.stack.toList ++ [ni]) ctx.nodes M)
    (hl : LInv root tree G m0 ph ctx.nodes ctx.rootStack.toList M) {s : Nat} (hcp : CP tree G root ni s) :
    ∃ bn parent : BuildNode, ctx.nodes[ni]? = some (some bn) ∧ bn.conditionalParent = some s ∧ ph s = .p2 ∧
      ctx.nodes[s]? = some (some parent) := by
  obtain ⟨bn, hn⟩ := sl.node hl
  have hdyn := hl.cpOk ni bn hn
  have hs2 := cp_head_p2 sl.st.V sl.st.hinv ho sl.st.hph hcp
  obtain ⟨parent, hpar⟩ := hl.hasNode s (by rw [hs2]; intro h; cases h) (fun o h => by rw [hs2] at h; cases h)
  cases hc : bn.conditionalParent with
  | none => rw [hc] at hdyn; exact absurd hdyn (fun hn' => CP.excl sl.st.V hcp hn')
  | some cp' =>
    rw [hc] at hdyn
    have := CP.unique sl.st.V hdyn hcp
    subst this
    exact ⟨bn, parent, hn, hc, hs2, hpar⟩

/-- the owner of a recorded arm -/
theorem recd_owner (V : Validated root tree G) {nodes : Nodes} {R : List Nat}
    (hl : LInv root tree G m0 ph nodes R M) {r s k o : Nat} (ha : Arm tree G root r s k) (hp : ph r = .pc o) :
    o = s ∧ ph k = .p3 ∧ ∃ bn : BuildNode, nodes[s]? = some (some bn) ∧ r ∈ itemsOf bn := by
  obtain ⟨k', kn, bn, h1, h2, h3, h4, h5, h6, h7⟩ := hl.recd r o hp
  obtain ⟨pn, g1, g2, g3, g4, _⟩ := ha
  have hk'G : G k' := def_G V h1 (by intro e; rw [e] at h2; simp [isJumpIf] at h2)
  have hkG : G k := def_G V g1 (by intro e; rw [e] at g3; simp [isJumpIf] at g3)
  have := parent_unique V hk'G hkG ⟨kn, h1, Or.inr h3⟩ ⟨pn, g1, Or.inr g2⟩
  subst this
  have := CP.unique V h4 g4
  subst this
  exact ⟨rfl, h5, bn, h6, h7⟩

theorem stepL_armRec (sl : StepL root tree G ph ph' ctx ctx' ni pn vni cs rs suf rsuf l M M')
    (ho : SInv root tree G m0 ph (ctx.stack.toList ++ [ni]) ctx.nodes M)
    (hl : LInv root tree G m0 ph ctx.nodes ctx.rootStack.toList M) :
    ∀ r s k, Arm tree G root r s k → ph' k = .p3 → ph' r ≠ .p0 := by
  intro r s k ha hk3
  rcases sl.st.vis' (Or.inr hk3) with e | ⟨_, hkv, hsame⟩
  · subst e
    have hv3 : vni = .p3 := by rw [← sl.st.hni']; exact hk3
    obtain ⟨kn, g1, g2, g3, g4, _⟩ := ha
    rw [sl.st.hpn] at g1; cases g1
    obtain ⟨bn, parent, hn, hcp, _, hpar⟩ := sl.armNode ho hl g4
    have := ((sl.hlast hv3 r bn g2 hn).2 g3 s parent hcp hpar).2
    rw [this]; intro h; cases h
  · rw [hsame] at hk3
    exact sl.ne0 (hl.armRec r s k ha hk3)

theorem stepL_armLate (sl : StepL root tree G ph ph' ctx ctx' ni pn vni cs rs suf rsuf l M M')
    (hl : LInv root tree G m0 ph ctx.nodes ctx.rootStack.toList M) :
    ∀ r s k, Arm tree G root r s k → (ph' r = .pr ∨ ph' r = .p1 ∨ ph' r = .p2 ∨ ph' r = .p3) → ph' s = .p3 := by
  intro r s k ha hr
  have V := sl.st.V
  have hkG := ha.kG V
  have keep3 : ph s = .p3 → ph' s = .p3 := by
    intro h3
    have hsn : s ≠ ni := fun e => sl.st.hph.ne3 (e ▸ h3)
    rw [sl.st.keep (nm3 h3) hsn]; exact h3
  rcases sl.st.cases r with e | ⟨e, _⟩ | ⟨e, _⟩ | ⟨h1, h2⟩
  · subst e
    refine keep3 (hl.armLate r s k ha ?_)
    rcases sl.st.hph with h | h
    · exact Or.inr (Or.inl h)
    · exact Or.inr (Or.inr (Or.inl h))
  · have := sl.st.parent_cs hkG ha.ool.isChild e
    subst this
    exact absurd (sl.st.hinl r e) (ool_not_ilink V hkG ha.ool)
  · have hpr : ph' r = .pr := by
      rcases sl.hrsph r e with h | ⟨o, h⟩
      · exact h
      · rw [h] at hr; rcases hr with h' | h' | h' | h' <;> cases h'
    rcases sl.hrsFrom r e with ⟨h0, hright⟩ | ⟨hpc, _, _, _⟩
    · have hkni := parent_unique V hkG sl.st.hG ha.ool.isChild ⟨pn, sl.st.hpn, Or.inr hright⟩
      subst hkni
      obtain ⟨kn, g1, _, g3, g4, _⟩ := ha
      rw [sl.st.hpn] at g1; cases g1
      obtain ⟨bn, hn⟩ := sl.node hl
      rcases sl.hdirect r e h0 hpr bn hn with hd | ⟨_, hnone⟩
      · rw [jumpIf_not_direct g3] at hd; cases hd
      · have := hl.cpOk k bn hn
        rw [hnone] at this
        exact absurd this (fun hn' => CP.excl V g4 hn')
    · obtain ⟨e', _, _⟩ := recd_owner V hl ha hpc
      subst e'
      rw [sl.st.hni']; exact sl.hrs3 (List.ne_nil_of_mem e)
  · rw [sl.st.hother r h1 h2] at hr
    exact keep3 (hl.armLate r s k ha hr)

theorem stepL_pushed (sl : StepL root tree G ph ph' ctx ctx' ni pn vni cs rs suf rsuf l M M')
    (ho : SInv root tree G m0 ph (ctx.stack.toList ++ [ni]) ctx.nodes M)
    (hl : LInv root tree G m0 ph ctx.nodes ctx.rootStack.toList M) :
    ∀ r s k, Sched tree G root r s k → ph' s = .p3 → ph' r ≠ .p0 ∧ ∀ o, ph' r ≠ .pc o := by
  intro r s k hs hs3
  have V := sl.st.V
  have hpr : ph' r = .pr → ph' r ≠ .p0 ∧ ∀ o, ph' r ≠ .pc o := by
    intro h; rw [h]; exact ⟨(fun h' => by cases h'), (fun o h' => by cases h')⟩
  rcases sl.st.vis' (Or.inr hs3) with e | ⟨_, _, hsame⟩
  · subst e
    have hv3 : vni = .p3 := by rw [← sl.st.hni']; exact hs3
    obtain ⟨bn, hn⟩ := sl.node hl
    rcases hs.cases with ⟨e, kn, g1, g2, g3⟩ | ha
    · subst e
      rw [sl.st.hpn] at g1; cases g1
      refine hpr ((sl.hlast hv3 r bn g2 hn).1 ?_).2
      rcases g3 with hd | ⟨hj, hncp⟩
      · exact Or.inl hd
      · refine Or.inr ⟨hj, ?_⟩
        cases hc : bn.conditionalParent with
        | none => rfl
        | some cp' =>
          have := hl.cpOk s bn hn
          rw [hc] at this
          exact absurd hncp (fun hn' => CP.excl V this hn')
    · -- an arm of the chain whose head is finishing
      have hkG := ha.kG V
      obtain ⟨kn, g1, g2, g3, g4, sn, g5, g6⟩ := ha
      rw [sl.st.hpn] at g5; cases g5
      obtain ⟨c, hc, hd⟩ := g4.pre
      have hk3 := last_done sl ho hl hv3 hkG (Or.inr (Or.inl ⟨c, hc, hd⟩))
      have ha : Arm tree G root r s k := ⟨kn, g1, g2, g3, g4, pn, sl.st.hpn, g6⟩
      have hr0 := hl.armRec r s k ha hk3
      rcases Classical.em (∃ o, ph r = .pc o) with ⟨o, hpc⟩ | hnpc
      · obtain ⟨e', _, bn', hb', hmem⟩ := recd_owner V hl ha hpc
        rw [hn] at hb'; cases hb'
        have hnone : bn.conditionalParent = none := by
          cases hc' : bn.conditionalParent with
          | none => rfl
          | some cp' =>
            have := hl.cpOk s bn hn
            rw [hc'] at this
            exact absurd (g4.head sl.st.hpn g6) (fun hn' => CP.excl V this hn')
        have := sl.helse hv3 g6 bn hn hnone
        exact hpr ((sl.hrsuf r).1 (by rw [this]; exact hmem)).2
      · have := sl.settled hr0 (fun o h => hnpc ⟨o, h⟩)
        exact ⟨this.1, this.2.1⟩
  · rw [hsame] at hs3
    obtain ⟨h0, hc⟩ := hl.pushed r s k hs hs3
    have := sl.settled h0 hc
    exact ⟨this.1, this.2.1⟩

theorem stepL_armsOrd (sl : StepL root tree G ph ph' ctx ctx' ni pn vni cs rs suf rsuf l M M')
    (ho : SInv root tree G m0 ph (ctx.stack.toList ++ [ni]) ctx.nodes M)
    (hl : LInv root tree G m0 ph ctx.nodes ctx.rootStack.toList M) :
    ∀ (r1 r2 s k1 k2 : Nat) (bn : BuildNode), Arm tree G root r1 s k1 → Arm tree G root r2 s k2 → LastB tree G k1 k2 →
      ph' r2 = .pc s → ctx'.nodes[s]? = some (some bn) → ph' r1 = .pc s ∧ Above (itemsOf bn) r2 r1 := by
  intro r1 r2 s k1 k2 bn' ha1 ha2 hlast hr2 hb'
  have V := sl.st.V
  -- r1 keeps the phase `pc s` unless the head `s` releases its arms in this step, and then `r2` is released too
  have keep1 : ph r1 = .pc s → ph r2 = .pc s ∨ r2 ∈ rs → ph' r1 = .pc s := by
    intro hp1 _
    rcases sl.st.cases r1 with e | ⟨_, h0⟩ | ⟨e, _⟩ | ⟨h1, h2⟩
    · subst e; rcases sl.st.hph with h | h <;> rw [h] at hp1 <;> cases hp1
    · rw [h0] at hp1; cases hp1
    · rcases sl.hrsFrom r1 e with ⟨h0, _⟩ | ⟨hpc, hdef, _, hnone⟩
      · rw [h0] at hp1; cases hp1
      · rw [hp1] at hpc
        have hsn : s = ni := by cases hpc; rfl
        subst hsn
        obtain ⟨bn, hn⟩ := sl.node hl
        have hv3 := sl.hrs3 (List.ne_nil_of_mem e)
        have hsuf := sl.helse hv3 hdef bn hn (hnone bn hn)
        -- r2 is recorded at s as well
        have hr2s : ph r2 = .pc s := by
          rcases sl.st.cases r2 with e2 | ⟨e2, _⟩ | ⟨e2, _⟩ | ⟨g1, g2⟩
          · subst e2; rw [sl.st.hni'] at hr2; rcases sl.st.hv with h | h <;> rw [h] at hr2 <;> cases hr2
          · rw [sl.st.hcs' r2 e2] at hr2; cases hr2
          · rcases sl.hrsFrom r2 e2 with ⟨_, hright⟩ | ⟨h, _⟩
            · -- r2 would be the out-of-line child of s, which is an ElseJump
              exfalso
              have := (sl.st.hool r2 e2 (by rcases sl.hrsFrom r2 e2 with ⟨h0, _⟩ | ⟨h, _, h', _⟩
                                            · exact h0
                                            · rw [h'] at hr2; cases hr2))
              obtain ⟨pn', q1, _, q3⟩ := this
              rw [sl.st.hpn] at q1; cases q1
              rw [hdef] at q3; simp [oolR, isLate] at q3
            · exact h
          · rw [sl.st.hother r2 g1 g2] at hr2; exact hr2
        obtain ⟨_, _, bn2, hb2, hmem⟩ := recd_owner V hl ha2 hr2s
        rw [hn] at hb2; cases hb2
        have := ((sl.hrsuf r2).1 (by rw [hsuf]; exact hmem)).2
        rw [this] at hr2; cases hr2
    · rw [sl.st.hother r1 h1 h2]; exact hp1
  rcases sl.st.cases r2 with e | ⟨e, _⟩ | ⟨e, _⟩ | ⟨h1, h2⟩
  · subst e; rw [sl.st.hni'] at hr2; rcases sl.st.hv with h | h <;> rw [h] at hr2 <;> cases hr2
  · rw [sl.st.hcs' r2 e] at hr2; cases hr2
  · rcases sl.hrsFrom r2 e with ⟨h0, hright⟩ | ⟨_, _, hp, _⟩
    · -- r2 is recorded in this step: its owner is the visited node
      have hk2 := parent_unique V (ha2.kG V) sl.st.hG ha2.ool.isChild ⟨pn, sl.st.hpn, Or.inr hright⟩
      subst hk2
      have hv3 := sl.hrs3 (List.ne_nil_of_mem e)
      have hk13 := last_done sl ho hl hv3 (ha1.kG V) hlast
      have hr10 := hl.armRec r1 s k1 ha1 hk13
      obtain ⟨kn, _, _, _, g4, _⟩ := ha2
      have hs2 := cp_head_p2 V sl.st.hinv ho sl.st.hph g4
      have hpc1 : ph r1 = .pc s := by
        cases hp : ph r1 with
        | p0 => exact absurd hp hr10
        | pc o => obtain ⟨e', _⟩ := recd_owner V hl ha1 hp; rw [e']
        | pr => have := hl.armLate r1 s k1 ha1 (Or.inl hp); rw [hs2] at this; cases this
        | p1 => have := hl.armLate r1 s k1 ha1 (Or.inr (Or.inl hp)); rw [hs2] at this; cases this
        | p2 => have := hl.armLate r1 s k1 ha1 (Or.inr (Or.inr (Or.inl hp))); rw [hs2] at this; cases this
        | p3 => have := hl.armLate r1 s k1 ha1 (Or.inr (Or.inr (Or.inr hp))); rw [hs2] at this; cases this
      obtain ⟨_, _, bn0, hb0, hmem⟩ := recd_owner V hl ha1 hpc1
      obtain ⟨_, bn, parent, _, _, hpar, bn'', hb'', hit⟩ := sl.hcond r2 s e hr2
      rw [hb'] at hb''; cases hb''
      rw [hb0] at hpar; cases hpar
      refine ⟨keep1 hpc1 (Or.inr e), ?_⟩
      rw [hit]; exact above_append_mem hmem (by simp)
    · rw [hp] at hr2; cases hr2
  · rw [sl.st.hother r2 h1 h2] at hr2
    obtain ⟨_, _, bn0, hb0, _⟩ := recd_owner V hl ha2 hr2
    obtain ⟨bn, hb, _, hit⟩ := sl.hnOld s bn' hb' ⟨bn0, hb0⟩
    obtain ⟨hp1, hab⟩ := hl.armsOrd r1 r2 s k1 k2 bn ha1 ha2 hlast hr2 hb
    refine ⟨keep1 hp1 (Or.inl hr2), ?_⟩
    rcases hit with e | ⟨c, _, _, e⟩ <;> rw [e]
    · exact hab
    · exact above_append_left hab

end Garnish.Lemmas.BuildSeq
