/-
Tree-level lemmas for operands with prefix operators: insertion of a binary operator whose right operand is an arbitrary
index subtree (`insertS`), the chain tree of `prefix* value` (`chainTree`), and the image under `toRd`:
what `attach` followed by one `plug` per prefix operator / value does on the reference tree.
-/
import Garnish.Lemmas.ParserTree

namespace Garnish.Spec
open Garnish Garnish.Gen Garnish.Model.Parser

def newOpS (s : Tree) (n ko : Nat) (sub : Tree) : Tree := .node s n ko sub

/-- `absorbI` with an arbitrary right operand `sub` for the new operator `n` -/
def absorbS (pr : Nat → Nat) (q : Nat) (rtl : Bool) (n ko : Nat) (sub : Tree) : Tree → Option Tree
  | .nil => none
  | .node l i k r =>
    match absorbS pr q rtl n ko sub r with
    | some r' => some (.node l i k r')
    | none => if stops q rtl (pr i) then some (.node l i k (newOpS r n ko sub)) else none

def insertS (pr : Nat → Nat) (q : Nat) (rtl : Bool) (n ko : Nat) (sub : Tree) (t : Tree) : Tree :=
  match absorbS pr q rtl n ko sub t with
  | some t' => t'
  | none => newOpS t n ko sub

theorem absorbS_inorder (pr : Nat → Nat) (q : Nat) (rtl : Bool) (n ko : Nat) (sub : Tree) :
    ∀ t t', absorbS pr q rtl n ko sub t = some t' → t'.inorder = t.inorder ++ n :: sub.inorder := by
  intro t
  induction t with
  | nil => intro t' h; simp [absorbS] at h
  | node l i k r _ ihr =>
    intro t' h
    simp only [absorbS] at h
    cases hr : absorbS pr q rtl n ko sub r with
    | some r' =>
      simp only [hr, Option.some.injEq] at h; subst h
      simp [Tree.inorder, ihr r' hr]
    | none =>
      simp only [hr] at h
      split at h
      · simp only [Option.some.injEq] at h; subst h
        simp [Tree.inorder, newOpS]
      · cases h

theorem insertS_inorder (pr : Nat → Nat) (q : Nat) (rtl : Bool) (n ko : Nat) (sub t : Tree) :
    (insertS pr q rtl n ko sub t).inorder = t.inorder ++ n :: sub.inorder := by
  unfold insertS
  cases h : absorbS pr q rtl n ko sub t with
  | some t' => exact absorbS_inorder pr q rtl n ko sub t t' h
  | none => simp [newOpS, Tree.inorder]

/-- the operand `prefix* value` as an index tree: nodes `m, m+1, ..`, each the right child of the previous one -/
def chainTree : Nat → List Nat → Nat → Tree
  | m, [], ka => .node .nil m ka .nil
  | m, kp :: rest, ka => .node .nil m kp (chainTree (m + 1) rest ka)

theorem chainTree_inorder : ∀ (ks : List Nat) (m ka : Nat), (chainTree m ks ka).inorder = List.range' m (ks.length + 1)
  | [], m, ka => by simp [chainTree, Tree.inorder]
  | k :: ks, m, ka => by
    simp only [chainTree, Tree.inorder, List.nil_append, chainTree_inorder ks (m + 1) ka, List.length_cons]
    simp [List.range'_succ]

/-! ### reference trees -/

/-- one `plug` per leaf `(definition, position)` -/
def plugLeaves (R : RTree) : List (Definition × Nat) → RTree
  | [] => R
  | (d, k) :: rest => plugLeaves (plug R (.node .nil d k .nil)) rest

theorem plug_isNil_false (R x : RTree) (h : R.isNil = false) : (plug R x).isNil = false := by
  cases R with
  | nil => simp [RTree.isNil] at h
  | group d k inner => rfl
  | node l d k r => simp only [plug]; split <;> rfl

theorem plugLeaves_node (l : RTree) (a : Definition) (k : Nat) :
    ∀ (xs : List (Definition × Nat)) (R : RTree), R.isNil = false →
      plugLeaves (.node l a k R) xs = .node l a k (plugLeaves R xs)
  | [], R, _ => rfl
  | (d, kd) :: rest, R, h => by
    simp only [plugLeaves]
    have : plug (.node l a k R) (.node .nil d kd .nil) = .node l a k (plug R (.node .nil d kd .nil)) := by
      simp [plug, h]
    rw [this]
    exact plugLeaves_node l a k rest _ (plug_isNil_false R _ h)

/-- `attach` then the plugs = `insertS` with the operand subtree, provided the plugs build `toRd sub` in the open operand
    position of a fresh operator node -/
theorem absorb_toRdS (df : Nat → Definition) (pr : Nat → Nat) (q : Nat) (rtl : Bool) (n ko : Nat) (sub : Tree)
    (xs : List (Definition × Nat))
    (hsub : ∀ l : RTree, plugLeaves (.node l (df n) ko .nil) xs = .node l (df n) ko (toRd df sub)) :
    ∀ t : Tree, (∀ i ∈ t.inorder, Table.gen.prio (df i) = some (pr i)) →
      match absorb Table.gen q rtl (df n) ko (toRd df t), absorbS pr q rtl n ko sub t with
      | some R', some t' => plugLeaves R' xs = toRd df t' ∧ R'.isNil = false
      | none, none => True
      | _, _ => False := by
  intro t
  induction t with
  | nil => intro _; simp [toRd, absorb, absorbS]
  | node l i k r _ ihr =>
    intro hp
    have hpr : ∀ j ∈ r.inorder, Table.gen.prio (df j) = some (pr j) :=
      fun j hj => hp j (by simp [Tree.inorder, hj])
    have hpi : Table.gen.prio (df i) = some (pr i) := hp i (by simp [Tree.inorder])
    have ih := ihr hpr
    simp only [toRd, absorb, absorbS]
    cases hR : absorb Table.gen q rtl (df n) ko (toRd df r) with
    | some R' =>
      cases hI : absorbS pr q rtl n ko sub r with
      | some r' =>
        simp only [hR, hI] at ih ⊢
        obtain ⟨h1, h2⟩ := ih
        refine ⟨?_, rfl⟩
        rw [plugLeaves_node _ _ _ xs R' h2, h1]
        rfl
      | none => simp [hR, hI] at ih
    | none =>
      cases hI : absorbS pr q rtl n ko sub r with
      | some r' => simp [hR, hI] at ih
      | none =>
        simp only [hpi]
        by_cases hs : stops q rtl (pr i) = true
        · simp only [hs, if_true]
          refine ⟨?_, rfl⟩
          rw [plugLeaves_node _ _ _ xs _ (by rfl), hsub]
          rfl
        · simp [hs]

theorem insertS_toRd (df : Nat → Definition) (pr : Nat → Nat) (q : Nat) (rtl : Bool) (n ko : Nat) (sub : Tree)
    (xs : List (Definition × Nat))
    (hsub : ∀ l : RTree, plugLeaves (.node l (df n) ko .nil) xs = .node l (df n) ko (toRd df sub))
    (t : Tree) (hp : ∀ i ∈ t.inorder, Table.gen.prio (df i) = some (pr i)) :
    plugLeaves (attach Table.gen q rtl (df n) ko (toRd df t)) xs = toRd df (insertS pr q rtl n ko sub t) := by
  have h := absorb_toRdS df pr q rtl n ko sub xs hsub t hp
  unfold attach insertS
  cases hR : absorb Table.gen q rtl (df n) ko (toRd df t) with
  | some R' =>
    cases hI : absorbS pr q rtl n ko sub t with
    | some t' => simp only [hR, hI] at h; exact h.1
    | none => simp [hR, hI] at h
  | none =>
    cases hI : absorbS pr q rtl n ko sub t with
    | some t' => simp [hR, hI] at h
    | none => simp only [hsub]; rfl

/-- definition stored for a leaf plugged below a node of definition `dAbove` -/
def underDef (dAbove d : Definition) : Definition :=
  match d with
  | .identifier => if dAbove == .access then .property else d
  | d => d

theorem plug_fresh (l : RTree) (dAbove : Definition) (k : Nat) (d : Definition) (kd : Nat) :
    plug (.node l dAbove k .nil) (.node .nil d kd .nil) = .node l dAbove k (.node .nil (underDef dAbove d) kd .nil) := by
  simp only [plug, RTree.isNil, if_true]
  congr 1
  unfold underDef asProperty
  cases d <;> (split <;> simp_all)

/-- plugging `prefix* value` leaves into a fresh node builds the chain, when `df` holds the stored definitions -/
theorem plugLeaves_chain (df : Nat → Definition) :
    ∀ (ps : List (Definition × Nat)) (dA : Definition) (ka m : Nat) (l : RTree) (dAbove : Definition) (k : Nat),
      (∀ (i : Nat) (h : i < ps.length), df (m + i) = (ps[i]'h).1) → (∀ p ∈ ps, p.1 ≠ Definition.identifier) →
      (∀ p ∈ ps, p.1 ≠ Definition.access) →
      df (m + ps.length) = underDef (match ps.getLast? with | some p => p.1 | none => dAbove) dA →
      plugLeaves (.node l dAbove k .nil) (ps ++ [(dA, ka)]) =
        .node l dAbove k (toRd df (chainTree m (ps.map (·.2)) ka))
  | [], dA, ka, m, l, dAbove, k, _, _, _, hlast => by
    simp only [List.nil_append, plugLeaves, plug_fresh, List.map_nil, chainTree, toRd]
    simp only [List.length_nil, Nat.add_zero, List.getLast?_nil] at hlast
    rw [hlast]
  | (d, kd) :: ps, dA, ka, m, l, dAbove, k, hdf, hni, hna, hlast => by
    have hd : d ≠ Definition.identifier := hni (d, kd) (List.mem_cons_self ..)
    have hud : underDef dAbove d = d := by unfold underDef; cases d <;> first | rfl | exact absurd rfl hd
    simp only [List.cons_append, plugLeaves, plug_fresh, hud]
    rw [plugLeaves_node _ _ _ _ _ (by rfl)]
    have ih := plugLeaves_chain df ps dA ka (m + 1) .nil d kd
      (by intro i h
          have := hdf (i + 1) (by simp; omega)
          simp only [List.getElem_cons_succ] at this
          rw [← this]; congr 1; omega)
      (fun p hp => hni p (List.mem_cons_of_mem _ hp)) (fun p hp => hna p (List.mem_cons_of_mem _ hp))
      (by
        have e : m + 1 + ps.length = m + (ps.length + 1) := by omega
        rw [e]
        simp only [List.length_cons] at hlast
        rw [hlast]
        cases ps with
        | nil => simp
        | cons p ps' =>
          cases hgl : (p :: ps').getLast? with
          | none => simp at hgl
          | some z => simp [List.getLast?_cons_cons, hgl])
    rw [ih]
    have h0 := hdf 0 (by simp)
    simp only [Nat.add_zero, List.getElem_cons_zero] at h0
    simp only [List.map_cons, chainTree, toRd, h0]

end Garnish.Spec
