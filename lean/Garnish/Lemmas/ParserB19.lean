/-
Separators (blank-line `Subexpression` tokens and `;`), part 1 (model side).  What the Subexpression arm does depends on
the innermost open bracket: inside a `( )` group a separator is whitespace (`setup_space_list_check(.., under_group)`);
elsewhere it is dropped when `last_left` is itself a separator or the `{` that opened the frame, and is otherwise a binary
operator of priority 1000 / 990 (`sepState`, `sep_stepU`).
-/
import Garnish.Lemmas.ParserB11

namespace Garnish.Spec
open Garnish Garnish.Gen Garnish.Model.Parser

def isSepTok (t : PToken) : Bool := (getDefinition t.type).2 == .subexpression

theorem sep_def_facts (tt : TokenType) (h : (getDefinition tt).2 = SecDef.subexpression) :
    ∃ q, priority (getDefinition tt).1 = some q ∧ 20 < q ∧ ((getDefinition tt).1 != Definition.drop) = true ∧
      (getDefinition tt).1 ≠ Definition.identifier ∧ isBracketDef (getDefinition tt).1 = false ∧
      (getDefinition tt).1.isValueLike = false ∧ (getDefinition tt).1.isGroupLike = false := by
  revert h
  cases tt <;> simp only [getDefinition] <;> decide

/-- what `current_group` / `group_stack` say about the innermost frame -/
theorem group_facts {st : PState} {ug : Option Nat} {inG : Bool} (hug : underGroupOf st = .ok ug)
    (hk : KindOK st ug inG) :
    (st.currentGroup = none ∧ ug = none ∧ inG = false) ∨
      (∃ c g fl G, st.currentGroup = some c ∧ st.groupStack[c]? = some (g, fl) ∧ ug = some g ∧
        st.nodes[g]? = some G ∧ (G.definition == Definition.group) = inG) := by
  unfold underGroupOf at hug
  cases hcg : st.currentGroup with
  | none =>
    rw [hcg] at hug
    injection hug with hug
    subst hug
    exact Or.inl ⟨rfl, rfl, hk⟩
  | some c =>
    rw [hcg] at hug
    simp only at hug
    cases hgs : st.groupStack[c]? with
    | none => rw [hgs] at hug; cases hug
    | some gf =>
      obtain ⟨g, fl⟩ := gf
      rw [hgs] at hug
      injection hug with hug
      subst hug
      obtain ⟨G, hG, hd⟩ := hk
      exact Or.inr ⟨c, g, fl, G, rfl, hgs, rfl, hG, hd⟩

/-- inside a group a separator is whitespace -/
theorem armSub_group {st : PState} {ug : Option Nat} (hug : underGroupOf st = .ok ug) (hk : KindOK st ug true)
    (id : Nat) (d : Definition) (ar : Option Nat) :
    armSubexpression st id d ar ug = setupSpaceListCheck st ug := by
  rcases group_facts hug hk with ⟨_, _, h⟩ | ⟨c, g, fl, G, h1, h2, _, h4, h5⟩
  · cases h
  · have hd : G.definition = .group := by simpa using h5
    unfold armSubexpression
    simp [h1, h2, h4, hd, Outcome.bind]

/-- outside of groups: the data the Subexpression arm looks at -/
theorem armSub_other {st : PState} {ug : Option Nat} (hug : underGroupOf st = .ok ug) (hk : KindOK st ug false)
    (id : Nat) (d : Definition) (ar : Option Nat) (b : Nat) (nb : ParseNode) (hl : st.lastLeft = some b)
    (hb : st.nodes[b]? = some nb) (hopt : nb.definition.isOptional = false ∨ nb.right = none) :
    ∃ gd gi, ((ug = none ∧ gd = .drop) ∨ ug = some gi) ∧
      (∀ g, ug = some g → ∃ G, st.nodes[g]? = some G ∧ G.definition = gd) ∧
      armSubexpression st id d ar ug =
        (if (nb.secondaryDefinition == .subexpression || (gd == .nestedExpression && gi == b)) then
          .ok ({ st with nextLastLeft := st.lastLeft }, ⟨.drop, none, none, none⟩)
        else parseTokenLeftToRight { st with nextParent := some id } id d st.lastLeft ar ug) := by
  have hsame : modifyNode? st.nodes b
      (fun _ => if nb.definition.isOptional = true then { nb with right := none } else nb) = some st.nodes := by
    have e : (if nb.definition.isOptional = true then { nb with right := none } else nb) = nb := by
      rcases hopt with h | h
      · simp [h]
      · split
        · cases nb; simp_all
        · rfl
    rw [e]; exact modifyNode?_same hb
  have hnb : (if nb.definition.isOptional = true then { nb with right := none } else nb).secondaryDefinition =
      nb.secondaryDefinition := by split <;> rfl
  rcases group_facts hug hk with ⟨h1, h2, _⟩ | ⟨c, g, fl, G, h1, h2, h3, h4, h5⟩
  · refine ⟨.drop, 0, Or.inl ⟨h2, rfl⟩, ?_, ?_⟩
    · intro g hg; rw [h2] at hg; cases hg
    · unfold armSubexpression
      simp only [h1, Outcome.bind, hl, hb, hsame, hnb]
      have : (Definition.drop == Definition.group) = false := rfl
      simp only [this, Bool.false_eq_true, if_false]
  · have hd : (G.definition == Definition.group) = false := h5
    refine ⟨G.definition, g, Or.inr h3, ?_, ?_⟩
    · intro g' hg'; rw [h3] at hg'; injection hg' with hg'; subst hg'; exact ⟨G, h4, rfl⟩
    · unfold armSubexpression
      simp only [h1, h2, h4, Outcome.bind, hl, hb, hsame, hnb, hd, Bool.false_eq_true, if_false]

/-- the state after a separator that is processed as an operator -/
def sepState (st : PState) (t : PToken) (nodes' : Array ParseNode) (info : Info) : PState :=
  { st with nodes := nodes'.push ⟨(getDefinition t.type).1, .subexpression, info.parent, info.left, info.right, t⟩,
            nextParent := some st.nodes.size, lastLeft := some st.nodes.size, checkForList := false,
            previousSecondDef := .subexpression, lastToken := t }

theorem UInv.comp_sep {st : PState} {ug p : Option Nat} {base : Nat} {E : Tree} {re cb : Nat}
    (h : UInv st ug p base E re cb) : checkComposition st.previousSecondDef .subexpression st.checkForList = true := by
  generalize st.checkForList = c
  rcases h.prev with h | h | h | h | h | h <;> rw [h] <;> cases c <;> rfl

/-- the node `last_left` points to in a state that satisfies `UInv` -/
theorem UInv.bottom_node {st : PState} {ug p : Option Nat} {base : Nat} {E : Tree} {re cb : Nat}
    (h : UInv st ug p base E re cb) :
    ∃ b nb, st.lastLeft = some b ∧ st.nodes[b]? = some nb ∧ base ≤ b ∧
      (nb.definition.isOptional = false ∨ nb.right = none) ∧ (nb.secondaryDefinition == SecDef.subexpression) = false := by
  cases h.bot with
  | plain hl hb hlast hsec =>
    obtain ⟨nd, hnd, hr, _⟩ := hb
    have hm : st.nodes.size - 1 ∈ E.inorder := List.mem_of_getLast? hlast
    exact ⟨_, nd, hl, hnd, (h.n.mem _ hm).1, Or.inr hr, hsec nd hnd⟩
  | closed cb G _ hl hG hbr hsp hsec =>
    have hm := onSpine_mem cb E hsp
    exact ⟨cb, G, hl, hG, (h.n.mem _ hm).1, Or.inl (bracket_facts hbr).2.2.2.2.1, hsec⟩

/-- a separator after an operand, outside of groups, is not dropped -/
theorem UInv.sep_not_dropped {st : PState} {ug p : Option Nat} {base : Nat} {E : Tree} {re cb : Nat}
    (hinv : UInv st ug p base E re cb) {b : Nat} {nb : ParseNode} (hbb : base ≤ b)
    (hsec : (nb.secondaryDefinition == SecDef.subexpression) = false) {gd : Definition} {gi : Nat}
    (hgi : (ug = none ∧ gd = .drop) ∨ ug = some gi) :
    (nb.secondaryDefinition == SecDef.subexpression || (gd == Definition.nestedExpression && gi == b)) = false := by
  rw [hsec, Bool.false_or, Bool.and_eq_false_iff]
  rcases hgi with ⟨_, h⟩ | h
  · left; rw [h]; rfl
  · right
    rw [beq_eq_false_iff_ne]
    intro e
    subst e
    cases hinv.n.frame with
    | top re => cases h
    | bracket g re' G pg _ _ _ _ => injection h with h; omega

/-- **a separator after an operand, outside of groups**: an operator step -/
theorem step_sep_op {st : PState} {ug p : Option Nat} {base : Nat} {E : Tree} {re cb : Nat}
    (hinv : UInv st ug p base E re cb) (hk : KindOK st ug false) (t : PToken) (ht : isSepTok t = true)
    {nodes' : Array ParseNode} {info : Info}
    (hpt : parseToken st.nodes.size (getDefinition t.type).1 st.lastLeft (some (st.nodes.size + 1)) st.nodes ug false =
      .ok (nodes', info)) :
    step st t false = .ok (sepState st t nodes' info) := by
  have hs : (getDefinition t.type).2 = .subexpression := by unfold isSepTok at ht; simpa using ht
  obtain ⟨q, hq, _, f1, f2, _, _, _⟩ := sep_def_facts t.type hs
  obtain ⟨hsz, hdef⟩ := parseToken_size_def hpt
  obtain ⟨b, nb, hl, hb, hbb, hopt, hsec⟩ := hinv.bottom_node
  have hcomp := hinv.comp_sep
  unfold step sepState
  simp only [hinv.hug, hinv.adjust, Outcome.bind]
  generalize getDefinition t.type = ds at hs f1 f2 hpt hdef ⊢
  obtain ⟨d, s⟩ := ds
  simp only at hs f1 f2 hpt hdef ⊢
  subst hs
  obtain ⟨gd, gi, hgi, _, harm⟩ := armSub_other (st := { st with previousSecondDef := SecDef.subexpression })
    hinv.hug hk st.nodes.size d (some (st.nodes.size + 1)) b nb hl hb hopt
  have hnot := hinv.sep_not_dropped hbb hsec hgi
  have hmatch : ∀ (par : Option Nat) (nodes : Array ParseNode), (match d with
      | Definition.identifier =>
        match par.bind fun p => nodes[p]? with
        | none => d
        | some p => if (p.definition == Definition.access) = true then Definition.property else d
      | d => d) = d := by
    intro par nodes; cases d <;> first | rfl | exact absurd rfl f2
  simp only [hcomp, Bool.not_true, Bool.false_eq_true, if_false, dispatch, harm, hnot, parseTokenLeftToRight,
    parseTokenSt, hpt, Outcome.bind, pushNode, hdef, f1, if_true, hmatch]
  simp [Array.size_push, hsz, hinv.nnl]

/-- an operator node `(d, tok)` has been inserted after the frame's tree `E` and `st1` is the open operand position behind
    it: any complete operand yields the invariant for `insertC .. sub E` -/
theorem operand_closeU {st : PState} {ug p : Option Nat} {base : Nat} {E : Tree} {re cb : Nat}
    (hinv : UInv st ug p base E re cb) (d : Definition) (sd : SecDef) (tok : PToken) (q : Nat) (rtl : Bool)
    (hq : priority d = some q) (hnb : isBracketDef d = false) (nodes' : Array ParseNode) (info : Info)
    (hsz' : nodes'.size = st.nodes.size)
    (hdefs : ∀ j, j < st.nodes.size → (nodes'[j]?).map (·.definition) = (st.nodes[j]?).map (·.definition))
    (hout1 : ∀ j, j < base → (nodes'[j]?).map (setRight none) = (st.nodes[j]?).map (setRight none))
    (hout2 : ∀ j, j + 1 < base → nodes'[j]? = st.nodes[j]?)
    (htreeK : ∀ (arr : Array ParseNode) (sub : Tree) (ko : Nat) {rlink : Option Nat},
      (∀ j, j < st.nodes.size → arr[j]? = nodes'[j]?) →
      (∃ on, arr[st.nodes.size]? = some on ∧ on.parent = info.parent ∧ on.left = info.left ∧
        on.right = rlink ∧ tokPos on = ko) →
      IsTreeAt arr (some st.nodes.size) rlink sub →
      ∃ re', FrameTree arr p re' (insertC cb (prioAt st.nodes) q rtl st.nodes.size ko sub E))
    (st1 : PState)
    (hn1 : st1.nodes = nodes'.push ⟨d, sd, info.parent, info.left, some (st.nodes.size + 1), tok⟩)
    (hO1 : OpenB st1 ug) :
    AllPrio st1.nodes ∧ aboveDef st1 = d ∧ st1.nodes.size = st.nodes.size + 1 ∧
      ∀ (st2 : PState) (sub : Tree) (cb' : Nat), OpdRes st1 st2 sub cb' →
        ∃ re', UInv st2 ug p base (insertC cb (prioAt st.nodes) q rtl st.nodes.size tok.col sub E) re' cb' ∧
          (∀ j, j < st.nodes.size → (st2.nodes[j]?).map (·.definition) = (st.nodes[j]?).map (·.definition)) ∧
          (∀ j, j < base → (st2.nodes[j]?).map (setRight none) = (st.nodes[j]?).map (setRight none)) ∧
          (∀ j, j + 1 < base → st2.nodes[j]? = st.nodes[j]?) ∧
          dfOf st2.nodes st.nodes.size = d := by
  have hs1 : st1.nodes.size = st.nodes.size + 1 := by rw [hn1]; simp [hsz']
  have hon1 : st1.nodes[st.nodes.size]? = some ⟨d, sd, info.parent, info.left, some (st.nodes.size + 1), tok⟩ := by
    rw [hn1, Array.getElem?_push, if_pos hsz'.symm]
  have hlt1 : ∀ j, j < st.nodes.size → st1.nodes[j]? = nodes'[j]? := by
    intro j hj; rw [hn1, Array.getElem?_push, if_neg (by omega)]
  have hprios1 : AllPrio st1.nodes := by
    intro i nd hi
    by_cases c1 : i < st.nodes.size
    · have := hdefs i c1
      rw [← hlt1 i c1, hi] at this
      cases hsi : st.nodes[i]? with
      | none => rw [hsi] at this; cases this
      | some nd0 =>
        rw [hsi] at this
        simp only [Option.map_some, Option.some.injEq] at this
        rw [this]; exact hinv.n.prios i nd0 hsi
    · by_cases c2 : i = st.nodes.size
      · subst c2; rw [hon1] at hi; injection hi with hi; subst hi; exact ⟨q, hq⟩
      · have : st1.nodes[i]? = none := by apply Array.getElem?_eq_none; omega
        rw [this] at hi; cases hi
  have habove : aboveDef st1 = d := by
    unfold aboveDef; rw [hs1, Nat.add_sub_cancel, hon1]; rfl
  refine ⟨hprios1, habove, hs1, ?_⟩
  intro st2 sub cb' hres
  have hbase := hinv.n.pos
  have hlt2 : ∀ j, j < st.nodes.size → st2.nodes[j]? = nodes'[j]? := by
    intro j hj; rw [hres.below j (by omega), hlt1 j hj]
  have hon2 : st2.nodes[st.nodes.size]? = some ⟨d, sd, info.parent, info.left, some (st.nodes.size + 1), tok⟩ := by
    rw [hres.below _ (by omega), hon1]
  have hnp1 : st1.nextParent = some st.nodes.size := by
    rw [hO1.link, hO1.lastLeft_eq (by omega), hs1]; rfl
  have hsub := hres.tree
  rw [hnp1, hs1] at hsub
  obtain ⟨re', htree', hfr'⟩ := htreeK st2.nodes sub tok.col hlt2 ⟨_, hon2, rfl, rfl, rfl, rfl⟩ hsub
  have hdefs2 : ∀ j, j < st.nodes.size → (st2.nodes[j]?).map (·.definition) = (st.nodes[j]?).map (·.definition) := by
    intro j hj; rw [hlt2 j hj]; exact hdefs j hj
  have hdn : dfOf st2.nodes st.nodes.size = d := by simp [dfOf, hon2]
  refine ⟨re', ?_, hdefs2, fun j hj => by rw [hlt2 j (by omega)]; exact hout1 j hj,
    fun j hj => by rw [hlt2 j (by omega)]; exact hout2 j hj, hdn⟩
  have hsz2 := hres.size
  have hframe2 : FrameOK st2.nodes ug p base re' := by
    cases hinv.n.frame with
    | top re => exact .top re'
    | bracket g re G pg hG hgl hpg hGr =>
      obtain ⟨G', hG', hGr', hgl', pg', hpg'⟩ := hfr' g rfl
      exact .bracket g re' G' pg' hG' hgl' hpg' hGr'
  have hcbge := hres.cb_ge
  have hsubin := hres.inord
  rw [hs1] at hsubin
  have hsubne : sub.inorder ≠ [] := List.ne_nil_of_mem hres.tree.root_mem
  refine ⟨⟨htree', ?_, ?_, by omega, hframe2, hres.prios⟩, hres.nnl, hres.hug hO1.hug, ?_, ?_, hres.prev6⟩
  · rw [insertC_inorder]
    exact hinv.n.inord.append_cons hsubin (by omega) (by omega)
  · rw [insertC_inorder]; exact List.mem_append_left _ hinv.n.first
  · cases hres.bot with
    | plain hl hb h3 h4 =>
      refine .plain hl hb ?_ h4
      rw [insertC_inorder, getLast?_append_cons', List.getLast?_cons_of_ne_nil hsubne]
      exact h3
    | closed _ G h1 h2 h3 h4 h5 h6 => exact .closed _ G h1 h2 h3 h4 (onSpine_insertC h5) h6
  · have hcong : ∀ i ∈ E.inorder, dfOf st.nodes i = dfOf st2.nodes i := by
      intro i hi
      have := hdefs2 i (hinv.n.mem i hi).2
      simp only [dfOf, this]
    apply spineG_insertC (by omega) (by rw [hdn]; exact hnb) hres.spine
    · intro hm; have := (hinv.n.mem _ hm).2; omega
    · exact hinv.spine.congr hcong

theorem prio_le_1000 {d : Definition} {q : Nat} (h : priority d = some q) : q ≤ 1000 := by
  revert h; cases d <;> simp only [priority] <;> intro h <;> first | (injection h with h; omega) | cases h

theorem prioAt_le_1000 (nodes : Array ParseNode) (j : Nat) : prioAt nodes j ≤ 1000 := by
  unfold prioAt
  split
  · rename_i n _
    cases hp : priority n.definition with
    | none => simp
    | some q => simpa using prio_le_1000 hp
  · omega

/-- **a separator after an operand, outside of groups, and what follows** (the analogue of `bin_stepU`); for a blank-line
    separator also how to unlink it again -/
theorem sep_stepU {st : PState} {ug p : Option Nat} {base : Nat} {E : Tree} {re cb : Nat}
    (hinv : UInv st ug p base E re cb) (hk : KindOK st ug false) (t : PToken) (ht : isSepTok t = true) :
    ∃ (q : Nat) (nodes' : Array ParseNode) (info : Info),
      priority (getDefinition t.type).1 = some q ∧ step st t false = .ok (sepState st t nodes' info) ∧
      nodes'.size = st.nodes.size ∧ info.right = some (st.nodes.size + 1) ∧
      OpenB (sepState st t nodes' info) ug ∧ AllPrio (sepState st t nodes' info).nodes ∧
      aboveDef (sepState st t nodes' info) = (getDefinition t.type).1 ∧
      (∀ j, j < st.nodes.size → (nodes'[j]?).map (·.definition) = (st.nodes[j]?).map (·.definition)) ∧
      (∀ j, j < base → (nodes'[j]?).map (setRight none) = (st.nodes[j]?).map (setRight none)) ∧
      (∀ j, j + 1 < base → nodes'[j]? = st.nodes[j]?) ∧
      ((getDefinition t.type).1 = .subexpression → (∀ g, p = some g → info.parent.isSome = true) ∧
        ∀ P, info.parent = some P →
        ∃ l, info.left = some l ∧ l < st.nodes.size ∧ P < st.nodes.size ∧ l ≠ P ∧
          ∀ j, (if j = P then (nodes'[j]?).map (setRight (some l))
                else if j = l then (nodes'[j]?).map (setParent (some P)) else nodes'[j]?) = st.nodes[j]?) ∧
      ∀ (st2 : PState) (sub : Tree) (cb' : Nat), OpdRes (sepState st t nodes' info) st2 sub cb' →
        ∃ re', UInv st2 ug p base (insertC cb (prioAt st.nodes) q false st.nodes.size t.col sub E) re' cb' ∧
          (∀ j, j < st.nodes.size → (st2.nodes[j]?).map (·.definition) = (st.nodes[j]?).map (·.definition)) ∧
          (∀ j, j < base → (st2.nodes[j]?).map (setRight none) = (st.nodes[j]?).map (setRight none)) ∧
          (∀ j, j + 1 < base → st2.nodes[j]? = st.nodes[j]?) ∧
          dfOf st2.nodes st.nodes.size = (getDefinition t.type).1 := by
  have hs : (getDefinition t.type).2 = .subexpression := by unfold isSepTok at ht; simpa using ht
  obtain ⟨q, hq, hq20, _, _, hnb, f3, f4⟩ := sep_def_facts t.type hs
  obtain ⟨nodes', info, hpt, hir, hdefs, hout1, hout2, htreeK, hundo⟩ :=
    core_effectU hinv (getDefinition t.type).1 q false (some (st.nodes.size + 1)) hq hq20
  have hsz' : nodes'.size = st.nodes.size := (parseToken_size_def hpt).1
  have hstep := step_sep_op hinv hk t ht hpt
  have hS : (sepState st t nodes' info).nodes[st.nodes.size]? =
      some ⟨(getDefinition t.type).1, .subexpression, info.parent, info.left, info.right, t⟩ := by
    simp only [sepState]; rw [Array.getElem?_push, if_pos hsz'.symm]
  have hsS : (sepState st t nodes' info).nodes.size = st.nodes.size + 1 := by simp [sepState, hsz']
  have hO : OpenB (sepState st t nodes' info) ug := by
    refine ⟨rfl, hinv.nnl, hinv.hug, rfl,
      adjust_noop _ _ (Or.inr ⟨_, _, rfl, hS, Or.inl (not_sideEffect_of_not_groupLike f4)⟩), Or.inr ?_,
      Or.inr (Or.inr (Or.inr (Or.inr (Or.inr (Or.inr (Or.inr (Or.inr (Or.inr rfl))))))))⟩
    exact ⟨_, q, by omega, by rw [hsS]; rfl, by rw [hsS, Nat.add_sub_cancel]; exact hS, hq, by rw [hsS]; exact hir, f3,
      Or.inl ⟨by omega, f4⟩⟩
  have hn1 : (sepState st t nodes' info).nodes =
      nodes'.push ⟨(getDefinition t.type).1, .subexpression, info.parent, info.left, some (st.nodes.size + 1), t⟩ := by
    simp only [sepState, hir]
  obtain ⟨h1, h2, _, h4⟩ := operand_closeU hinv (getDefinition t.type).1 .subexpression t q false hq hnb nodes' info hsz'
    hdefs hout1 hout2 htreeK (sepState st t nodes' info) hn1 hO
  refine ⟨q, nodes', info, hq, hstep, hsz', hir, hO, h1, h2, hdefs, hout1, hout2, ?_, h4⟩
  intro hd
  apply hundo
  intro _
  have hq1000 : q = 1000 := by rw [hd] at hq; injection hq with hq; exact hq.symm
  rw [hq1000]
  have := prioAt_le_1000 st.nodes (st.nodes.size - 1)
  simp only [stops, Bool.and_false, Bool.or_false, decide_eq_false_iff_not]
  omega

/-! ### separators that leave the state alone -/

/-- the node on top allows a separator to be skipped: the open `(` (whitespace), the open `{` or a separator node (dropped) -/
def SkipTop (st : PState) (ug : Option Nat) (inG : Bool) : Prop :=
  ∃ nd, st.nodes[st.nodes.size - 1]? = some nd ∧ nd.definition.isOptional = false ∧
    ((ug = some (st.nodes.size - 1) ∧ (inG = true ∨ nd.definition = .nestedExpression)) ∨
      (inG = false ∧ (nd.secondaryDefinition == SecDef.subexpression) = true))

def FillPrev (st : PState) : Prop :=
  st.previousSecondDef = .startGrouping ∨ st.previousSecondDef = .subexpression ∨
    st.previousSecondDef = .whitespace ∨ st.previousSecondDef = .annotation

theorem FillPrev.comp {st : PState} (h : FillPrev st) : checkComposition st.previousSecondDef .subexpression false = true := by
  rcases h with h | h | h | h <;> rw [h] <;> rfl

/-- a separator directly after `(` / `{` or after another separator changes nothing but `previous_second_def` / `last_token` -/
theorem step_sep_skipB (st : PState) (ug : Option Nat) (inG : Bool) (t : PToken) (il : Bool) (ht : isSepTok t = true)
    (hO : OpenB st ug) (hk : KindOK st ug inG) (hpos : 0 < st.nodes.size) (htop : SkipTop st ug inG) (hfp : FillPrev st) :
    step st t il = .ok { st with previousSecondDef := .subexpression, lastToken := t } := by
  have hs : (getDefinition t.type).2 = .subexpression := by unfold isSepTok at ht; simpa using ht
  obtain ⟨nd, hnd, hopt, hcase⟩ := htop
  have hl := hO.lastLeft_eq hpos
  have hvl : nd.definition.isValueLike = false := by
    rcases hO.top with ⟨_, h2⟩ | ⟨nd', q, _, _, hnd', _, _, hv, _⟩
    · rw [h2] at hpos; simp at hpos
    · rw [hnd] at hnd'; injection hnd' with hnd'; rw [hnd']; exact hv
  have hcomp : checkComposition st.previousSecondDef .subexpression st.checkForList = true := by
    rw [hO.cfl]; exact hfp.comp
  unfold step
  simp only [hO.hug, hO.adj, Outcome.bind]
  generalize getDefinition t.type = ds at hs ⊢
  obtain ⟨d, s⟩ := ds
  simp only at hs ⊢
  subst hs
  cases inG with
  | true =>
    have hug' : ug = some (st.nodes.size - 1) := by
      rcases hcase with ⟨h, _⟩ | ⟨h, _⟩
      · exact h
      · cases h
    have harm := armSub_group (st := { st with previousSecondDef := SecDef.subexpression }) hO.hug hk st.nodes.size d
      (if il = true then none else some (st.nodes.size + 1))
    simp only [hcomp, Bool.not_true, Bool.false_eq_true, if_false, dispatch, harm]
    simp only [setupSpaceListCheck, hl, hnd, hvl, hug', bne_self_eq_false, Bool.and_false, Bool.or_self, Outcome.bind,
      pushNode, Bool.false_eq_true, if_false]
    simp [hO.nnl, hl]
  | false =>
    obtain ⟨gd, gi, hgi, hgG, harm⟩ := armSub_other (st := { st with previousSecondDef := SecDef.subexpression })
      hO.hug hk st.nodes.size d (if il = true then none else some (st.nodes.size + 1)) (st.nodes.size - 1) nd hl hnd
      (Or.inl hopt)
    have hdrop : (nd.secondaryDefinition == SecDef.subexpression ||
        (gd == Definition.nestedExpression && gi == st.nodes.size - 1)) = true := by
      rcases hcase with ⟨h1, h2⟩ | ⟨_, h2⟩
      · rcases h2 with h2 | h2
        · cases h2
        · obtain ⟨G, hG, hGd⟩ := hgG _ h1
          have hG' : st.nodes[st.nodes.size - 1]? = some G := hG
          rw [hnd] at hG'; injection hG' with hG'
          rcases hgi with ⟨h, _⟩ | h
          · rw [h1] at h; cases h
          · rw [h1] at h; injection h with h
            rw [← hGd, ← hG', h2, ← h]; simp
      · rw [h2]; rfl
    simp only [hcomp, Bool.not_true, Bool.false_eq_true, if_false, dispatch, harm, hdrop, if_true, Outcome.bind,
      pushNode]
    simp [hO.nnl, hl]

theorem OpenB.setPrev {st : PState} {ug : Option Nat} (h : OpenB st ug) (sd : SecDef)
    (hsd : sd = .whitespace ∨ sd = .annotation ∨ sd = .subexpression) (w : PToken) :
    OpenB { st with previousSecondDef := sd, lastToken := w } ug := by
  refine ⟨h.cfl, h.nnl, h.hug, h.link, adjust_noop _ ug h.noop_data, h.top, ?_⟩
  rcases hsd with h | h | h
  · exact Or.inr (Or.inr (Or.inr (Or.inr (Or.inr (Or.inr (Or.inl h))))))
  · exact Or.inr (Or.inr (Or.inr (Or.inr (Or.inr (Or.inr (Or.inr (Or.inl h)))))))
  · exact Or.inr (Or.inr (Or.inr (Or.inr (Or.inr (Or.inr (Or.inr (Or.inr (Or.inr h))))))))

def isFillTok (t : PToken) : Bool := isTriviaTok t || isSepTok t

/-- a run of trivia and separator tokens directly after `(` / `{` or after a separator -/
theorem skip_runB (ug : Option Nat) (inG : Bool) : ∀ (ws : List PToken) (st : PState) (rest : List PToken),
    OpenB st ug → KindOK st ug inG → 0 < st.nodes.size → SkipTop st ug inG → FillPrev st →
    (∀ w ∈ ws, isFillTok w = true) →
    ∃ st', loop st (ws ++ rest) = loop st' rest ∧ OpenB st' ug ∧ st'.nodes = st.nodes ∧ st'.nextParent = st.nextParent ∧
      st'.lastLeft = st.lastLeft ∧ st'.groupStack = st.groupStack ∧ st'.currentGroup = st.currentGroup ∧ FillPrev st'
  | [], st, _, h, _, _, _, hfp, _ => ⟨st, rfl, h, rfl, rfl, rfl, rfl, rfl, hfp⟩
  | w :: ws, st, rest, h, hk, hpos, htop, hfp, hws => by
    have hw := hws w (List.mem_cons_self ..)
    unfold isFillTok at hw
    have hstep : ∃ sd, (sd = .whitespace ∨ sd = .annotation ∨ sd = .subexpression) ∧
        step st w (ws ++ rest).isEmpty = .ok { st with previousSecondDef := sd, lastToken := w } := by
      by_cases htr : isTriviaTok w = true
      · exact ⟨_, (trivia_secdef htr).elim Or.inl (fun h => Or.inr (Or.inl h)), step_triviaB st ug w _ htr h hpos⟩
      · have hsp : isSepTok w = true := by simpa [htr] using hw
        exact ⟨_, Or.inr (Or.inr rfl), step_sep_skipB st ug inG w _ hsp h hk hpos htop hfp⟩
    obtain ⟨sd, hsd, hstep⟩ := hstep
    have hfp' : FillPrev { st with previousSecondDef := sd, lastToken := w } := by
      rcases hsd with h | h | h
      · exact Or.inr (Or.inr (Or.inl h))
      · exact Or.inr (Or.inr (Or.inr h))
      · exact Or.inr (Or.inl h)
    obtain ⟨st', h1, h2, h3, h4, h5, h6, h7, h8⟩ :=
      skip_runB ug inG ws { st with previousSecondDef := sd, lastToken := w } rest (h.setPrev sd hsd w) hk hpos htop hfp'
        (fun x hx => hws x (List.mem_cons_of_mem _ hx))
    refine ⟨st', ?_, h2, h3, h4, h5, h6, h7, h8⟩
    simp only [List.cons_append, loop]
    rw [hstep]
    simp only [Outcome.bind]
    exact h1

end Garnish.Spec
