/-
C06 static half on compiled code, part 9: one step of the layout loop, seen from the final state — where the root
starts (`head_jump`), and `monoD`: the ghost depths of a state are still there at the end, and every pending root
starts at the depth recorded for it.
-/
import Garnish.Lemmas.CompileDepth8
namespace Garnish.Abs
open Garnish Gen Garnish.Spec Garnish.Props.C06

variable {F : Type}

section loop
variable (bodies : List (Nat × Expr F))

/-- layout facts of one step (the part of `layoutRoots_located`'s step that does not look at the final state) -/
theorem layoutRoot_facts {s : LState F} {r : Root F} {rest : List (Root F)} (inv : Inv s) (hp : s.pending = r :: rest) :
    let s' := layoutRoot bodies r { s with pending := rest }
    Inv s' ∧ s'.jumps[r.patch]? = some s.instrs.size ∧ s.jumps.size ≤ s'.jumps.size ∧
    (∀ q ∈ s'.pending, q ∈ rest ∨ s.jumps.size ≤ q.patch) ∧ s'.done = r :: s.done ∧ (∀ q ∈ rest, q ∈ s'.pending) ∧
    (∀ i, i < s.instrs.size → s'.instrs[i]? = s.instrs[i]?) ∧ s.instrs.size ≤ s'.instrs.size := by
  have hr_mem : r ∈ s.pending := by rw [hp]; exact List.mem_cons_self
  have hrest : ∀ q ∈ rest, q ∈ s.pending := fun q hq => by rw [hp]; exact List.mem_cons_of_mem _ hq
  have hrp : r.patch < s.jumps.size := inv.pend r hr_mem
  rw [layoutRoot_eq]
  simp only
  generalize hs1 : LState.mk s.instrs (s.jumps.setIfInBounds r.patch s.instrs.size) s.consts rest (r :: s.done)
    s.depths (s.pendDep.headD 0) s.pendDep.tail = s1
  have s1_instrs : s1.instrs = s.instrs := by rw [← hs1]
  have s1_jumps : s1.jumps = s.jumps.setIfInBounds r.patch s.instrs.size := by rw [← hs1]
  have s1_jsize : s1.jumps.size = s.jumps.size := by rw [s1_jumps]; simp
  have s1_pending : s1.pending = rest := by rw [← hs1]
  have s1_done : s1.done = r :: s.done := by rw [← hs1]
  have inv1 : Inv s1 := by
    refine ⟨fun q hq => ?_, fun q hq => ?_, fun q hq => ?_⟩
    · rw [s1_pending] at hq; rw [s1_jsize]; exact inv.pend q (hrest q hq)
    · rw [s1_pending] at hq; rw [s1_jsize]; exact inv.cont q (hrest q hq)
    · rw [s1_pending] at hq; exact inv.ref q (hrest q hq)
  have hcont1 : r.containing < s1.jumps.size := by rw [s1_jsize]; exact inv.cont r hr_mem
  generalize hs2 : bodyState bodies r s1 = s2
  have p12 : Pre s1 s2 := by
    rw [← hs2]
    simp only [bodyState]
    cases rootBody bodies r with
    | none => exact .refl s1
    | some b => exact (emit_pre r.patch r.containing b s1 hcont1).1
  have p1' : Pre s1 (addTerms s.instrs.size s2.instrs.back? r.term s2) := p12.trans (addTerms_pre _ _ _ _)
  refine ⟨inv1.of_pre p1', ?_, ?_, ?_, ?_, ?_, ?_, ?_⟩
  · rw [p1'.jumps r.patch (by omega), s1_jumps]
    simp [hrp]
  · have := p1'.jsize; omega
  · intro q hq
    rcases p1'.pend q hq with h | ⟨h, _⟩
    · rw [s1_pending] at h; exact .inl h
    · exact .inr (by omega)
  · rw [p1'.done, s1_done]
  · intro q hq; exact p1'.keep q (by rw [s1_pending]; exact hq)
  · intro i hi; rw [p1'.instrs i (by rw [s1_instrs]; exact hi), s1_instrs]
  · have := p1'.isize; rw [s1_instrs] at this; exact this

/-- in the final state the jump entry of the root laid out first holds the address at which its layout began -/
theorem head_jump {fuel : Nat} {s : LState F} {r : Root F} {rest : List (Root F)} (inv : Inv s) (hp : s.pending = r :: rest)
    (hc : (layoutRoots bodies (fuel + 1) s).pending = [])
    (hlab : ∀ q ∈ (layoutRoots bodies (fuel + 1) s).done, LabelOK q)
    (hnd : ((layoutRoots bodies (fuel + 1) s).done.map (·.patch)).Nodup) :
    (layoutRoots bodies (fuel + 1) s).jumps[r.patch]? = some s.instrs.size := by
  obtain ⟨inv', hj, hjs, _, hdone, _, _, _⟩ := layoutRoot_facts bodies inv hp
  simp only [layoutRoots, hp] at hc hlab hnd ⊢
  obtain ⟨ev', _, _, l', hl', hmem'⟩ := layoutRoots_located bodies fuel _ inv' hc hlab hnd
  have hrp : r.patch < s.jumps.size := inv.pend r (by rw [hp]; exact List.mem_cons_self)
  rw [ev'.jumps r.patch (by omega) ?_, hj]
  intro q hq heq
  have hq' := hmem' q hq
  rw [hl', hdone, List.map_append, List.nodup_append] at hnd
  exact hnd.2.2 q.patch (List.mem_map.2 ⟨q, hq', rfl⟩) r.patch (by simp) heq

theorem monoD : ∀ (fuel : Nat) (s : LState F), Inv s → DInv s →
    (layoutRoots bodies fuel s).pending = [] →
    (∀ q ∈ (layoutRoots bodies fuel s).done, LabelOK q) →
    ((layoutRoots bodies fuel s).done.map (·.patch)).Nodup →
    DApp s (layoutRoots bodies fuel s) ∧ Al (layoutRoots bodies fuel s) ∧
    (∀ p ∈ s.pending.zip s.pendDep, RootD (layoutRoots bodies fuel s) p.1 p.2)
  | 0, s, _, dinv, hc, _, _ => by
    simp only [layoutRoots] at hc ⊢
    exact ⟨⟨fun _ _ => rfl, Nat.le_refl _⟩, dinv.al, by simp [hc]⟩
  | fuel + 1, s, inv, dinv, hc, hlab, hnd => by
    cases hp : s.pending with
    | nil =>
      simp only [layoutRoots, hp] at hc ⊢
      exact ⟨⟨fun _ _ => rfl, Nat.le_refl _⟩, dinv.al, by simp⟩
    | cons r rest =>
      have hj := head_jump bodies inv hp hc hlab hnd
      obtain ⟨inv', _, _, _, _, _, _, _⟩ := layoutRoot_facts bodies inv hp
      have hz := dinv.zlen
      rw [hp] at hz
      cases hpd : s.pendDep with
      | nil => rw [hpd] at hz; simp at hz
      | cons dr drest =>
        rw [hpd] at hz
        have hr_mem : r ∈ s.pending := by rw [hp]; exact List.mem_cons_self
        obtain ⟨al', dapp, hfirst, hkeep, hzl⟩ := layoutRoot_ghost bodies (r := r) (s := { s with pending := rest })
          (dr := dr) (drest := drest) hpd dinv.al (inv.cont r hr_mem) (inv.ref r hr_mem)
        simp only [layoutRoots, hp] at hc hlab hnd hj ⊢
        have dinv' : DInv (layoutRoot bodies r { s with pending := rest }) :=
          ⟨al', by simp only [List.length_cons] at hz; simp only at hzl; omega⟩
        obtain ⟨dappF, alF, hrootsF⟩ := monoD fuel _ inv' dinv' hc hlab hnd
        refine ⟨DApp.trans dapp dappF, alF, fun p hpm => ?_⟩
        simp only [List.zip_cons_cons, List.mem_cons] at hpm
        rcases hpm with rfl | hpm
        · intro tb htb
          rw [hj] at htb
          simp only [Option.some.injEq] at htb
          subst htb
          right
          have hlt := (Array.getElem?_eq_some_iff.mp hfirst).1
          rw [dappF.1 _ hlt]
          exact hfirst
        · exact hrootsF p (hkeep p hpm)

end loop

end Garnish.Abs
