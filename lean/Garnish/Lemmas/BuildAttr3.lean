/-
C04, builder half — part 3: the handlers with conditional parents, roots and lists.
-/
import Garnish.Lemmas.BuildAttr2
import Garnish.Lemmas.BuildTotalStep2
namespace Garnish.Lemmas.BuildAttr
open Garnish Garnish.Gen Garnish.Model.Parser Garnish.Model.Literals Garnish.Model.Build Garnish.Lemmas.Build
open Garnish.Lemmas.BuildTotal (assign assign_get assign_size getElem?_putNode size_putNode itemNode elseJumpItems_spec)

variable {F : Type}

section handlers
variable {tree : Array ParseNode} {m0 ni : Nat} {ctx : Ctx F} {pn : ParseNode}

/-- the visited node does not have to be attributed: its definition never emits -/
theorem hni_silent (hpn : tree[ni]? = some pn) (hne : emits pn.definition = false) {S R : List Nat} {l : List (Option Nat)} :
    ∀ pn', tree[ni]? = some pn' → ni ∈ S ∨ ni ∈ R ∨ some ni ∈ l ∨ emits pn'.definition = false := by
  intro pn' hp
  rw [hpn] at hp; cases hp
  exact Or.inr (Or.inr (Or.inr hne))

theorem handleGroup_attr (h : AInv tree m0 (some ni) ctx) (hpn : tree[ni]? = some pn) (hne : emits pn.definition = false) :
    Sat (AInv tree m0 none) (handleGroup ctx ni pn) := by
  unfold handleGroup
  cases hr : pn.right with
  | none =>
    dsimp only
    exact attr_step h [] [] rfl (by mem_tac) (by mem_tac) (by simp) (fun q hq => by cases hq) (fun q hq => by cases hq)
      (fun q hq => by cases hq) (hni_silent hpn hne)
  | some r =>
    dsimp only
    refine sat_bind (getNode_sat_eq ctx.nodes ni) (fun node hnode => ?_)
    refine sat_bind (setNodeIdx_sat_eq _ _ _ _) (fun N1 h1 => ?_)
    subst h1
    exact attr_step h [(r, _)] [] rfl (by mem_tac) (by mem_tac) (by simp) (by asgp_tac) (by asgc_tac h, hnode) (by asgd_tac)
      (hni_silent hpn hne)

theorem handleNestedExpression_attr (h : AInv tree m0 (some ni) ctx) (crj : Nat) :
    Sat (AInv tree m0 none) (handleNestedExpression ctx crj ni pn) := by
  unfold handleNestedExpression
  cases hr : pn.right with
  | none =>
    dsimp only
    exact attr_emit h [some ni] rfl rfl rfl (by simp [pushInstr, addConst]) (by simp)
  | some r =>
    dsimp only
    refine sat_bind (setNodeIdx_sat_eq _ _ _ _) (fun N1 h1 => ?_)
    subst h1
    refine attr_step h [(r, _)] [some ni] rfl (by mem_tac) (by mem_tac) (by simp [pushInstr, addConst, pushToJumpTable])
      (by asgp_tac) (fun q hq cp hcp => ?_) (by asgd_tac) (fun _ _ => Or.inr (Or.inr (Or.inl (by simp))))
    simp only [List.mem_cons, List.mem_nil_iff, or_false] at hq
    subst hq
    simp [BuildNode.newWithJump, BuildNode.new] at hcp

theorem handleLogicalBinary_attr (h : AInv tree m0 (some ni) ctx) (ins : Instruction) :
    Sat (AInv tree m0 none) (handleLogicalBinary ins ctx ni pn) := by
  unfold handleLogicalBinary
  refine sat_bind (getNode_sat_eq ctx.nodes ni) (fun node hnode => ?_)
  have hpni := h.pni ni node hnode
  cases hst : node.state with
  | uninitialized =>
    dsimp only
    cases hl : pn.left with
    | none => exact sat_buildErr
    | some l =>
      dsimp only
      refine sat_bind (setNodeIdx_sat_eq _ _ _ _) (fun N1 h1 => ?_)
      subst h1
      simp only [hpni]
      refine attr_step h [(ni, _), (l, _)] [] rfl (by mem_tac) (by mem_tac) (by simp) (by asgp_tac) (fun q hq cp hcp => ?_)
        (by asgd_tac) (fun _ _ => Or.inl (by simp))
      simp only [List.mem_cons, List.mem_nil_iff, or_false] at hq
      rcases hq with e | e <;> subst e
      · exact h.cpOk ni node cp hnode hcp
      · exact ⟨node, by
          simp [BuildNode.newWithConditional, BuildNode.new] at hcp
          subst hcp; exact hnode⟩
  | initialized =>
    dsimp only
    cases hr : pn.right with
    | none => exact sat_buildErr
    | some r =>
      dsimp only
      refine sat_bind (setNodeIdx_sat_eq _ _ _ _) (fun N1 h1 => ?_)
      subst h1
      refine attr_step h [(r, _)] [some ni] rfl (by mem_tac) (by mem_tac) (by simp [pushInstr, pushToJumpTable])
        (by asgp_tac) (fun q hq cp hcp => ?_) (by asgd_tac) (fun _ _ => Or.inr (Or.inr (Or.inl (by simp))))
      simp only [List.mem_cons, List.mem_nil_iff, or_false] at hq
      subst hq
      simp [BuildNode.newWithJumpAndEnd, BuildNode.new] at hcp

theorem handleJumpIf_attr (h : AInv tree m0 (some ni) ctx) (ins : Instruction) :
    Sat (AInv tree m0 none) (handleJumpIf ins ctx ni pn) := by
  unfold handleJumpIf
  refine sat_bind (getNode_sat_eq ctx.nodes ni) (fun node hnode => ?_)
  have hpni := h.pni ni node hnode
  cases hst : node.state with
  | uninitialized =>
    dsimp only
    cases hl : pn.left with
    | none => exact sat_buildErr
    | some l =>
      dsimp only
      refine sat_bind (setNodeIdx_sat_eq _ _ _ _) (fun N1 h1 => ?_)
      subst h1
      simp only [hpni]
      exact attr_step h [(ni, _), (l, _)] [] rfl (by mem_tac) (by mem_tac) (by simp) (by asgp_tac) (by asgc_tac h, hnode)
        (by asgd_tac) (fun _ _ => Or.inl (by simp))
  | initialized =>
    dsimp only
    cases hr : pn.right with
    | none => exact sat_buildErr
    | some r =>
      dsimp only
      cases hcp : node.conditionalParent with
      | some cp =>
        dsimp only
        obtain ⟨parent, hparent⟩ := h.cpOk ni node cp hnode hcp
        rw [hparent]
        dsimp only
        refine attr_step h [(cp, _)] [some ni] rfl (by mem_tac) (by mem_tac) (by simp [pushInstr, pushToJumpTable])
          (fun q hq => ?_) (fun q hq cp' hcp' => ?_) (fun q hq => ?_) (fun _ _ => Or.inr (Or.inr (Or.inl (by simp))))
        · simp only [List.mem_cons, List.mem_nil_iff, or_false] at hq
          subst hq; exact h.pni cp parent hparent
        · simp only [List.mem_cons, List.mem_nil_iff, or_false] at hq
          subst hq; exact h.cpOk cp parent cp' hparent hcp'
        · simp only [List.mem_cons, List.mem_nil_iff, or_false] at hq
          subst hq; exact Or.inr (Or.inr (Or.inr ⟨parent, hparent⟩))
      | none =>
        dsimp only
        refine sat_bind (setNodeIdx_sat_eq _ _ _ _) (fun N1 h1 => ?_)
        subst h1
        refine attr_step h [(r, _)] [some ni, none] rfl (by mem_tac) (by mem_tac) (by simp [pushInstr, pushToJumpTable])
          (by asgp_tac) (fun q hq cp hcp => ?_) (by asgd_tac) (fun _ _ => Or.inr (Or.inr (Or.inl (by simp))))
        simp only [List.mem_cons, List.mem_nil_iff, or_false] at hq
        subst hq
        simp [BuildNode.newWithJumpAndEnd, BuildNode.new] at hcp

theorem assignNewItems_sat_eq : ∀ (l : List (Nat × BuildNode)) (nodes : Nodes),
    Sat (fun N => N = assign nodes l) (assignNewItems nodes l) := by
  intro l
  induction l with
  | nil => intro nodes; rfl
  | cons p rest ih =>
    intro nodes
    obtain ⟨i, b⟩ := p
    simp only [assignNewItems]
    refine sat_bind (setNodeIdx_sat_eq _ _ _ _) (fun N1 h1 => ?_)
    subst h1
    exact ih _

theorem handleElseJump_attr (h : AInv tree m0 (some ni) ctx) (hpn : tree[ni]? = some pn) (hne : emits pn.definition = false) :
    Sat (AInv tree m0 none) (handleElseJump ctx ni pn) := by
  unfold handleElseJump
  refine sat_bind (getNode_sat_eq ctx.nodes ni) (fun node hnode => ?_)
  have hpni := h.pni ni node hnode
  cases hst : node.state with
  | uninitialized =>
    dsimp only
    cases hr : pn.right with
    | none => exact sat_buildErr
    | some r =>
      cases hl : pn.left with
      | none => exact sat_buildErr
      | some l =>
        cases hc : node.conditionalParent with
        | some parent =>
          dsimp only
          refine sat_bind (setNodeIdx_sat_eq _ _ _ _) (fun N1 h1 => ?_)
          subst h1
          refine sat_bind (setNodeIdx_sat_eq _ _ _ _) (fun N2 h2 => ?_)
          subst h2
          simp only [hpni]
          refine attr_step h [(ni, _), (r, _), (l, _)] [] rfl (by mem_tac) (by mem_tac) (by simp) (by asgp_tac)
            (fun q hq cp hcp => ?_) (by asgd_tac) (fun _ _ => Or.inl (by simp))
          simp only [List.mem_cons, List.mem_nil_iff, or_false] at hq
          rcases hq with e | e | e <;> subst e
          · exact h.cpOk ni node cp hnode (by rw [hc]; exact hcp)
          · simp [BuildNode.newWithConditional, BuildNode.new] at hcp
            subst hcp; exact h.cpOk ni node _ hnode hc
          · simp [BuildNode.newWithConditional, BuildNode.new] at hcp
            subst hcp; exact h.cpOk ni node _ hnode hc
        | none =>
          dsimp only
          refine sat_bind (setNodeIdx_sat_eq _ _ _ _) (fun N1 h1 => ?_)
          subst h1
          refine sat_bind (setNodeIdx_sat_eq _ _ _ _) (fun N2 h2 => ?_)
          subst h2
          simp only [hpni]
          refine attr_step h [(ni, _), (r, _), (l, _)] [] rfl (by mem_tac) (by mem_tac) (by simp) (by asgp_tac)
            (fun q hq cp hcp => ?_) (by asgd_tac) (fun _ _ => Or.inl (by simp))
          simp only [List.mem_cons, List.mem_nil_iff, or_false] at hq
          rcases hq with e | e | e <;> subst e
          · exact h.cpOk ni node cp hnode (by rw [hc]; exact hcp)
          · simp [BuildNode.newWithConditional, BuildNode.new] at hcp
            subst hcp; exact ⟨node, hnode⟩
          · simp [BuildNode.newWithConditional, BuildNode.new] at hcp
            subst hcp; exact ⟨node, hnode⟩
  | initialized =>
    dsimp only
    have key0 : Sat (AInv tree m0 none) (Outcome.ok ctx) :=
      attr_step h [] [] rfl (by mem_tac) (by mem_tac) (by simp) (fun q hq => by cases hq) (fun q hq => by cases hq)
        (fun q hq => by cases hq) (hni_silent hpn hne)
    cases hcp : node.conditionalParent with
    | some cp => exact key0
    | none =>
      dsimp only
      split
      · generalize heq : elseJumpItems node.containingExpressionJump (getJumpTableLen ctx.data)
          node.conditionalItems.toList ctx.rootStack #[] = res
        obtain ⟨rootStack, newItems⟩ := res
        dsimp only
        have hspec := elseJumpItems_spec node.containingExpressionJump (getJumpTableLen ctx.data)
          node.conditionalItems.toList ctx.rootStack #[]
        rw [heq] at hspec
        obtain ⟨hs1, hs2⟩ := hspec
        dsimp only at hs1 hs2
        simp only [List.nil_append, show (#[] : Array (Nat × BuildNode)).toList = [] from rfl] at hs2
        refine sat_bind (assignNewItems_sat_eq _ _) (fun N hN => ?_)
        subst hN
        refine attr_step h newItems.toList [] rfl (by mem_tac) (fun x hx => by show x ∈ rootStack.toList; rw [hs1]; simp [hx])
          (by simp [pushToJumpTable]) (fun q hq => ?_) (fun q hq cp hcp' => ?_) (fun q hq => ?_) (hni_silent hpn hne)
        · rw [hs2] at hq
          obtain ⟨it, _, he⟩ := List.mem_map.1 hq
          subst he; rfl
        · rw [hs2] at hq
          obtain ⟨it, _, he⟩ := List.mem_map.1 hq
          subst he
          simp [itemNode, BuildNode.newWithJumpAndEnd, BuildNode.new] at hcp'
        · rw [hs2] at hq
          obtain ⟨it, hit, he⟩ := List.mem_map.1 hq
          subst he
          refine Or.inr (Or.inr (Or.inl ?_))
          show it.nodeIndex ∈ rootStack.toList
          rw [hs1]
          exact List.mem_append_right _ (List.mem_map.2 ⟨it, hit, rfl⟩)
      · exact key0

end handlers

end Garnish.Lemmas.BuildAttr
