/-
The fragment of the parser theorems (`Spec.Ex`: the syntax trees whose token lists the parser is proved correct on) is
closed under inserting ONE trivia token (Whitespace / Annotation) directly after a token `p` that is a trivia token, a
binary or optional-binary operator, or an opening bracket, when `p` is not the last token (`ex_insert`): every such `p`
is followed by a trivia slot of the syntax tree. (Not after a prefix operator — the operand must follow directly — and
not between an operand and a suffix operator; `Good` excludes both.)
-/
import Garnish.Lemmas.ParseNumbered3
import Garnish.Lemmas.ParserB28
set_option linter.unusedVariables false
set_option linter.unusedSimpArgs false
namespace Garnish.Spec
open Garnish Garnish.Gen Garnish.Model.Parser

theorem split_app {α : Type} {L1 L2 pre post : List α} {p : α} (h : L1 ++ L2 = pre ++ p :: post) :
    (∃ post1, L1 = pre ++ p :: post1 ∧ post = post1 ++ L2) ∨ (∃ pre2, pre = L1 ++ pre2 ∧ L2 = pre2 ++ p :: post) := by
  rcases List.append_eq_append_iff.mp h with ⟨a, h1, h2⟩ | ⟨c, h1, h2⟩
  · exact Or.inr ⟨a, h1, h2⟩
  · cases c with
    | nil => exact Or.inr ⟨[], by simpa using h1.symm, by simpa using h2.symm⟩
    | cons x c =>
      simp only [List.cons_append, List.cons.injEq] at h2
      exact Or.inl ⟨c, by rw [h1, h2.1], h2.2⟩

theorem split_cons {α : Type} {x : α} {L pre post : List α} {p : α} (h : x :: L = pre ++ p :: post) :
    (pre = [] ∧ x = p ∧ L = post) ∨ (∃ pre2, pre = x :: pre2 ∧ L = pre2 ++ p :: post) := by
  cases pre with
  | nil => simp at h; exact Or.inl ⟨rfl, h.1, h.2⟩
  | cons y pre2 => simp at h; exact Or.inr ⟨pre2, by rw [h.1], h.2⟩

/-- token types after which a trivia token may be inserted -/
def goodTy (ty : TokenType) : Bool :=
  ty == .whitespace || ty == .annotation || ty == .lineAnnotation ||
  (getDefinition ty).2 == .binaryLeftToRight || (getDefinition ty).2 == .binaryRightToLeft ||
  (getDefinition ty).2 == .optionalBinaryLeftToRight || ty == .startGroup || ty == .startExpression

def Good (p : PToken) : Prop := goodTy p.type = true

theorem goodTy_facts : ∀ ty, goodTy ty = true → ((getDefinition ty).2 == SecDef.unaryPrefix) = false ∧
    ((getDefinition ty).2 == SecDef.unarySuffix) = false ∧
    ((getDefinition ty).2 == SecDef.value || (getDefinition ty).2 == SecDef.identifier) = false ∧
    ty ≠ .endGroup ∧ ty ≠ .endExpression := by
  intro ty; cases ty <;> decide

theorem good_not_prefix {p : PToken} (h : Good p) : isPrefixTok p = false := (goodTy_facts _ h).1
theorem good_not_suffix {p : PToken} (h : Good p) : isSuffixTok p = false := (goodTy_facts _ h).2.1
theorem good_not_atom {p : PToken} (h : Good p) : isAtom10 p = false := by
  unfold isAtom10; rw [(goodTy_facts _ h).2.2.1]; rfl
theorem good_not_close {o p : PToken} (h : Good p) : Ex.closeMatches o p = false := by
  obtain ⟨_, _, _, h1, h2⟩ := goodTy_facts _ h
  simp [Ex.closeMatches, h1, h2]

/-- `e'` is as good as `e` wherever `e` stands -/
def Like (e e' : Ex) : Prop :=
  (∀ F inG, e.ok F inG = true → e'.ok F inG = true) ∧ e'.garb = e.garb ∧ e'.isOpd = e.isOpd ∧
    e'.endsSuffix = e.endsSuffix

/-- the last token of the syntax tree -/
def Ex.lastTok : Ex → PToken
  | .atom _ a => a
  | .br _ _ _ _ _ c => c
  | .brT _ _ _ _ _ _ _ c => c
  | .bin _ _ _ _ x => x.lastTok
  | .suf _ s => s
  | .lst _ _ x => x.lastTok
  | .sep _ _ _ _ x => x.lastTok
  | .brC _ _ _ _ _ _ _ c => c
  | .lead _ _ x => x.lastTok

theorem Ex.toks_last : ∀ e : Ex, ∃ init, e.toks = init ++ [e.lastTok]
  | .atom pre a => ⟨pre, rfl⟩
  | .br pre o wsA e wsB c => ⟨pre ++ (o :: (wsA ++ (e.toks ++ wsB))), by simp [Ex.toks, Ex.lastTok]⟩
  | .brT pre o wsA e ws1 t ws2 c => ⟨pre ++ (o :: (wsA ++ (e.toks ++ (ws1 ++ (t :: ws2))))), by simp [Ex.toks, Ex.lastTok]⟩
  | .bin e ws1 op ws2 x => by
    obtain ⟨i, hi⟩ := Ex.toks_last x
    exact ⟨e.toks ++ (ws1 ++ (op :: (ws2 ++ i))), by simp [Ex.toks, Ex.lastTok, hi]⟩
  | .suf e s => ⟨e.toks, rfl⟩
  | .lst e ws x => by
    obtain ⟨i, hi⟩ := Ex.toks_last x
    exact ⟨e.toks ++ (ws ++ i), by simp [Ex.toks, Ex.lastTok, hi]⟩
  | .sep e ws1 t ws2 x => by
    obtain ⟨i, hi⟩ := Ex.toks_last x
    exact ⟨e.toks ++ (ws1 ++ (t :: (ws2 ++ i))), by simp [Ex.toks, Ex.lastTok, hi]⟩
  | .brC pre o wsA e ws1 k wsB c => ⟨pre ++ (o :: (wsA ++ (e.toks ++ (ws1 ++ (k :: wsB))))), by simp [Ex.toks, Ex.lastTok]⟩
  | .lead op ws x => by
    obtain ⟨i, hi⟩ := Ex.toks_last x
    exact ⟨op :: (ws ++ i), by simp [Ex.toks, Ex.lastTok, hi]⟩

theorem Ex.lastTok_not_good : ∀ (e : Ex) (F : Fl) (inG : Bool), e.ok F inG = true → ¬ Good e.lastTok
  | .atom pre a, F, inG, h, hg => by
    simp only [Ex.ok, Bool.and_eq_true] at h
    have := good_not_atom hg; simp only [Ex.lastTok] at this; rw [h.2] at this; cases this
  | .br pre o wsA e wsB c, F, inG, h, hg => by
    simp only [Ex.ok, Bool.and_eq_true] at h
    have := good_not_close (o := o) hg; simp only [Ex.lastTok] at this; simp_all
  | .brT pre o wsA e ws1 t ws2 c, F, inG, h, hg => by
    simp only [Ex.ok, Bool.and_eq_true] at h
    have := good_not_close (o := o) hg; simp only [Ex.lastTok] at this; simp_all
  | .bin e ws1 op ws2 x, F, inG, h, hg => by
    simp only [Ex.ok, Bool.and_eq_true] at h
    exact Ex.lastTok_not_good x F inG h.2 hg
  | .suf e s, F, inG, h, hg => by
    simp only [Ex.ok, Bool.and_eq_true] at h
    have := good_not_suffix hg; simp only [Ex.lastTok] at this; rw [h.2] at this; cases this
  | .lst e ws x, F, inG, h, hg => by
    simp only [Ex.ok, Bool.and_eq_true] at h
    exact Ex.lastTok_not_good x F inG h.2 hg
  | .sep e ws1 t ws2 x, F, inG, h, hg => by
    simp only [Ex.ok, Bool.and_eq_true] at h
    exact Ex.lastTok_not_good x F inG h.2 hg
  | .brC pre o wsA e ws1 k wsB c, F, inG, h, hg => by
    simp only [Ex.ok, Bool.and_eq_true] at h
    have := good_not_close (o := o) hg; simp only [Ex.lastTok] at this; simp_all
  | .lead op ws x, F, inG, h, hg => by
    simp only [Ex.ok, Bool.and_eq_true] at h
    exact Ex.lastTok_not_good x F inG h.2 hg

/-- a `Good` token is not the last token of a well-formed syntax tree -/
theorem not_last_of_good {e : Ex} {F : Fl} {inG : Bool} (hok : e.ok F inG = true) {pre : List PToken} {p : PToken}
    (h : e.toks = pre ++ [p]) (hg : Good p) : False := by
  obtain ⟨i, hi⟩ := Ex.toks_last e
  have := congrArg List.getLast? (h.symm.trans hi)
  simp at this
  rw [this] at hg
  exact Ex.lastTok_not_good e F inG hok hg

end Garnish.Spec
