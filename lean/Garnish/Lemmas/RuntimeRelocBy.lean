/-
Relocation of a built program along an ARBITRARY address map: `relocBy ρ C P` keeps instructions and jump table, maps
the constant operands of `Put` / `Resolve` by `ρ` and takes `C` as the constant table. If `C` holds at `ρ k` what `P`
holds at `k` (`ConstsAgree`), the value-level machine does not see it (`step_relocBy`, `run_relocBy`).
`reloc` (Lemmas/RuntimeReloc.lean) is the instance `ρ k = k + 3`; on a real `SimpleGarnishData` equal constants share a
cell and `()` / `$!` / `$?` are the preallocated cells 0 / 1 / 2, so the builder's map is in general NOT injective and
not `k + 3` (Props/C01BuilderAddresses.lean): `relocBy` with the map the data object produced covers that.
-/
import Garnish.Lemmas.RuntimeReloc
namespace Garnish.Lemmas.Runtime.On
open Garnish Gen Garnish.Abs

variable {F : Type}

def relocByI (ρ : Nat → Nat) : Instruction × Option Nat → Instruction × Option Nat
  | (.put, some k) => (.put, some (ρ k))
  | (.resolve, some k) => (.resolve, some (ρ k))
  | p => p

def relocBy (ρ : Nat → Nat) (C : Array (Val F)) (P : Prog F) : Prog F :=
  { instrs := (P.instrs.toList.map (relocByI ρ)).toArray, jumps := P.jumps, consts := C }

/-- the new table holds at `ρ k` exactly what the old one holds at `k` (nothing where the old one has nothing) -/
def ConstsAgree (ρ : Nat → Nat) (C : Array (Val F)) (P : Prog F) : Prop := ∀ k, C[ρ k]? = P.consts[k]?

variable {ρ : Nat → Nat} {C : Array (Val F)} {P : Prog F}

theorem relocBy_size : (relocBy ρ C P).instrs.size = P.instrs.size := by simp [relocBy]

theorem finish_relocBy (r : Except ErrClass (MState F × Nat)) : finish (relocBy ρ C P) r = finish P r := by
  unfold finish; rw [relocBy_size]

theorem seqNext_relocBy (s : MState F) (r : Except ErrClass (MState F)) :
    seqNext (relocBy ρ C P) s r = seqNext P s r := by
  unfold seqNext; cases r <;> simp only [finish_relocBy]

theorem jumpTarget_relocBy (j : Nat) : jumpTarget (relocBy ρ C P) j = jumpTarget P j := rfl

variable (fo : FloatOps F) (host : Host F)

theorem applyStep_relocBy (s : MState F) (instr : Instruction) (b : Bool) (l r : Val F) :
    applyStep fo host (relocBy ρ C P) s instr b l r = applyStep fo host P s instr b l r := by
  unfold applyStep; simp only [jumpTarget_relocBy]

theorem step_relocBy (h : ConstsAgree ρ C P) (m : MState F) :
    Abs.step fo host (relocBy ρ C P) m = Abs.step fo host P m := by
  have hfetch : (relocBy ρ C P).instrs[m.pc]? = (P.instrs[m.pc]?).map (relocByI ρ) := by simp [relocBy]
  have hc : ∀ k, (relocBy ρ C P).consts[ρ k]? = P.consts[k]? := h
  unfold Abs.step
  rw [hfetch]
  cases hp : P.instrs[m.pc]? with
  | none => rfl
  | some p =>
    obtain ⟨instr, operand⟩ := p
    cases instr <;> cases operand <;>
      simp only [Option.map, relocByI, finish_relocBy, seqNext_relocBy, jumpTarget_relocBy, applyStep_relocBy, hc,
        relocBy_size]

theorem run_relocBy (h : ConstsAgree ρ C P) :
    ∀ (n : Nat) (m : MState F), Abs.run fo host (relocBy ρ C P) n m = Abs.run fo host P n m
  | 0, _ => rfl
  | n + 1, m => by
    rw [Abs.run, Abs.run, step_relocBy fo host h]
    cases Abs.step fo host P m <;> simp only [run_relocBy h n]

/-- `reloc` is the instance "past the three preallocated cells" -/
theorem reloc_eq_relocBy (P : Prog F) :
    reloc P = relocBy (· + 3) (.unit :: .fls :: .tru :: P.consts.toList).toArray P := by
  simp only [reloc, relocBy]
  have : (relocI : Instruction × Option Nat → _) = relocByI (· + 3) := by
    funext p
    obtain ⟨i, o⟩ := p
    cases i <;> cases o <;> rfl
  rw [this]

theorem reloc_constsAgree (P : Prog F) :
    ConstsAgree (· + 3) (.unit :: .fls :: .tru :: P.consts.toList).toArray P := by
  intro k; simp

end Garnish.Lemmas.Runtime.On
