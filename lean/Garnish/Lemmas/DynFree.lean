/-
The instructions whose residual side condition `DynOK` (Lemmas/NoCustom8.lean) is `True` — the DYN-FREE instructions:
everything except the four comparisons, `Concat`, `Apply`, `EmptyApply`, `Access`, `Resolve`, `Equal`, `NotEqual` and
`AccessLengthInternal` — and the trivial hosts: a host that declines every call answers with nothing, hence with neither
`custom` nor an unknown `Expression`.
-/
import Garnish.Lemmas.Her9
namespace Garnish.Lemmas.Runtime.On
open Garnish Gen Garnish.Abs Garnish.Model.Equality Garnish.Model.Runtime Garnish.Lemmas.Runtime
open Garnish.Lemmas.NoCustom Garnish.Lemmas.Her

variable {F σ : Type}

/-- instructions with no run-time side condition left -/
def dynFree : Instruction → Bool
  | .lessThan | .lessThanOrEqual | .greaterThan | .greaterThanOrEqual | .concat | .apply | .emptyApply | .access
  | .resolve | .equal | .notEqual | .accessLengthInternal => false
  | _ => true

theorem dynOK_of_dynFree (fo : FloatOps F) (S : RStore F σ) (Inv : σ → Prop) (P : Prog F) (fuel : Nat) (m : MState F)
    {i : Instruction} (o : Option Nat) (h : dynFree i = true) : DynOK fo S Inv P fuel m i o := by
  cases i <;> first | trivial | (cases h; done)

/-- every instruction of the program is dyn-free -/
def progDynFree (P : Prog F) : Bool := P.instrs.toList.all (fun x => dynFree x.1)

theorem dynFree_at {P : Prog F} (h : progDynFree P = true) {pc : Nat} {i : Instruction} {o : Option Nat}
    (hi : P.instrs[pc]? = some (i, o)) : dynFree i = true := by
  have hm : (i, o) ∈ P.instrs.toList := List.mem_of_getElem? (by simpa using hi)
  exact (List.all_eq_true.mp h) _ hm

theorem hostNoCustom_declining : HostNoCustom (Host.declining : Host F) :=
  ⟨fun _ _ _ _ h => (by cases h), fun _ _ h => (by cases h), fun _ _ _ h => (by cases h)⟩

theorem hostHer_declining (q : Val F → Bool) : HostHer q (Host.declining : Host F) :=
  ⟨fun _ _ _ _ h => (by cases h), fun _ _ h => (by cases h), fun _ _ _ h => (by cases h)⟩

end Garnish.Lemmas.Runtime.On
