/-
Coverage group 4 (the whole instruction set, Lemmas/RuntimeOnG4.lean) with the look-up condition of `Access` and
`Resolve` in the distinct-keys form: `LookupOnD`, `MachOKOn4D`, `refine_step_on4D`.  Every other instruction keeps its
`MachOKOn4` condition.
-/
import Garnish.Lemmas.RuntimeOnDistinct
set_option linter.unusedSimpArgs false
set_option linter.unusedVariables false
namespace Garnish.Lemmas.Runtime.On
open Garnish Gen Garnish.Abs Garnish.Model.Equality Garnish.Model.Runtime Garnish.Lemmas.Runtime
open Garnish.Props.RuntimeRefine Garnish.Lemmas.Runtime.SimpleSym

variable {F σ : Type} {S : RStore F σ} {Inv : σ → Prop} {Rd : σ → Nat → Prop} {P : Prog F} {host : Host F}
  (fo : FloatOps F)

/-- `LookupOn` without a store hypothesis: no `custom` node in a concatenation that is iterated, a LIST looked into
with a symbol key has pairwise different symbol keys, the value found is not `custom` -/
def LookupOnD (key cur : Val F) : Prop :=
  ncConcat cur ∧ (∀ y, key = .sym y → ∀ vs, cur = .list vs → DistinctKeys vs) ∧
    ∀ v, getAccess fo key cur = .some v → v ≠ .custom

/-- `MachOKOn4` with `LookupOnD` for `Access` and `Resolve` -/
def MachOKOn4D (S : RStore F σ) (Inv : σ → Prop) (P : Prog F) (fuel : Nat) (m : MState F) (instr : Instruction)
    (operand : Option Nat) : Prop :=
  match instr with
  | .access => MDeepN m 2 ∧ ∀ vr vl rs, m.regs = vr :: vl :: rs → AccessOK fo fuel vl vr ∧
      (accessArm vl.typeOf vr.typeOf = .get → LookupOnD fo vr vl) ∧
      (accessArm vl.typeOf vr.typeOf = .merge → (∀ n, vl ≠ .num n) ∧ (∀ n, vr ≠ .num n))
  | .resolve => MDeepN m 0 ∧ ∀ k key, operand = some k → P.consts[k]? = some key →
      ∀ cur vs, m.vals = cur :: vs → (AccessDomain cur ∧ accessFuel cur ≤ fuel ∧
        ∀ n, key = .num n → (∃ i, n = .int i) ∧ RangeOrdered fo n cur) ∧ LookupOnD fo key cur
  | _ => MachOKOn4 fo S Inv P fuel m instr operand

theorem refine_step_on4D (L : StoreLawsOn S Inv Rd) (LS : ListSymDistinctOn S Inv) (HR : HostRefinesI S Inv host)
    (fuel : Nat) (cast : RM σ (Option Nat)) {s : σ} {m : MState F} (hsim : Sim S P s m) (hi : Inv s)
    (hl : Loaded S P s) {instr : Instruction} {operand : Option Nat}
    (hfetch : P.instrs[m.pc]? = some (instr, operand)) (hok : MachOKOn4D fo S Inv P fuel m instr operand) :
    StepSimOn fo host S Inv P fuel (fullHandlers fo S fuel cast) s m := by
  cases instr
  case access =>
    exact total_binary fo fuel _ s hfetch rfl (fun _ => rfl) (fun vr vl rs hr => by
      obtain ⟨hd, hx, hmg⟩ := hok.2 vr vl rs hr
      exact stepSim_access_d fo L LS HR fuel _ hsim hfetch hr hi (hok.1.two hr) hd hx hmg)
  case resolve =>
    cases operand with
    | none => machine_errs_on fo, fuel, (fullHandlers fo S fuel cast), s, hfetch, .implementation, []
    | some k =>
      cases hc : P.consts[k]? with
      | none => machine_errs_on fo, fuel, (fullHandlers fo S fuel cast), s, hfetch, .state, [hc]
      | some key =>
        exact stepSim_resolve_d fo L LS HR fuel _ hsim hfetch hc (hl k key hc)
          (fun cur vs hv => (hok.2 k key rfl hc cur vs hv).1) (fun cur vs hv => (hok.2 k key rfl hc cur vs hv).2)
          hi hok.1
  all_goals exact refine_step_on4 fo L HR fuel cast hsim hi hl hfetch hok

end Garnish.Lemmas.Runtime.On
