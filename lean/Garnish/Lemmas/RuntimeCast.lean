/-
Refinement lemmas for casting.rs, part 1: the prefix of `type_cast` (operands, types, corrected target type), which
arm `castArm` selects against Abs/Casts `castOp`, and the arms without loops.
-/
import Garnish.Model.Runtime.CastLaws
import Garnish.Lemmas.RuntimeData
import Garnish.Lemmas.RuntimeCmp
import Garnish.Lemmas.RuntimeMakeList
import Garnish.Lemmas.RuntimeStep7
import Garnish.Lemmas.Casts
set_option linter.unusedSimpArgs false
set_option linter.unusedVariables false
namespace Garnish.Lemmas.Runtime
open Garnish Gen Garnish.Abs Garnish.Model.Equality Garnish.Model.Runtime

variable {F σ : Type} {S : RStore F σ} (fo : FloatOps F)

/-! ### prefix -/

theorem correctedType_spec {s0 : σ} {r : Nat} {vr : Val F} (hr : Decodes (S.view s0) r vr) :
    correctedType S r vr.typeOf s0 = .ok (castTarget vr, s0) := by
  cases hr <;> try rfl
  rename_i t _ ht
  simp [correctedType, Val.typeOf, castGetType, RM.lift, ht, fetch, Outcome.ofOption, Outcome.bind, castTarget]

theorem typeCast_prefix (L : StoreLaws S) (C : CastOps σ) (fuel : Nat) {s : σ} {r l : Nat} {vr vl : Val F}
    {rest : List Nat} (hregs : S.regs s = r :: l :: rest) (hl : Decodes (S.view s) l vl)
    (hr : Decodes (S.view s) r vr) :
    ∃ s0, Eff S s s0 rest (S.vals s) ∧ Decodes (S.view s0) l vl ∧ Decodes (S.view s0) r vr ∧
      typeCast fo S C fuel s =
        (castBody fo S C fuel l r vl.typeOf (castTarget vr) >>= fun _ => pure (none : Option Nat)) s0 := by
  obtain ⟨s0, h0, e0⟩ := nextTwoRawRef_cons L hregs
  refine ⟨s0, e0, e0.dec hl, e0.dec hr, ?_⟩
  rw [typeCast, bind_ok h0]
  simp only []
  rw [bind_ok (getDataType_of (e0.dec hl)), bind_ok (getDataType_of (e0.dec hr)),
    bind_ok (correctedType_spec (e0.dec hr))]

/-! ### tails -/

/-- an adder, `push_register`, then `Ok(None)` -/
theorem castPush (L : StoreLaws S) {s s0 : σ} {rest : List Nat} {m : RM σ Nat} {v : Val F}
    (e0 : Eff S s s0 rest (S.vals s)) (ha : Adds S m s0 v) :
    Pushed S s (((do let r ← m; S.pushRegister r : RM σ Unit) >>= fun _ => pure (none : Option Nat)) s0)
      none rest v := by
  obtain ⟨ad, s2, h2, d2, e2⟩ := ha
  obtain ⟨s3, h3, e3⟩ := L.pushRegister ad s2
  rw [e2.regs, e2.vals, e0.regs, e0.vals] at e3
  exact ⟨ad, s3, by rw [bind_ok2 h2, bind_ok h3]; rfl, e3.dec d2, (e0.trans e2).trans e3⟩

/-- `push_unit` then `Ok(None)` -/
theorem castPushUnit (L : StoreLaws S) {s s0 : σ} {rest : List Nat} (e0 : Eff S s s0 rest (S.vals s)) :
    Pushed S s ((pushUnit S >>= fun _ => pure (none : Option Nat)) s0) none rest .unit :=
  castPush L e0 (L.addUnit s0)

/-- `push_register(left)` then `Ok(None)` -/
theorem castPushLeft (L : StoreLaws S) {s s0 : σ} {rest : List Nat} {l : Nat} {vl : Val F}
    (e0 : Eff S s s0 rest (S.vals s)) (hl : Decodes (S.view s0) l vl) :
    Pushed S s ((S.pushRegister l >>= fun _ => pure (none : Option Nat)) s0) none rest vl := by
  obtain ⟨s3, h3, e3⟩ := L.pushRegister l s0
  rw [e0.regs, e0.vals] at e3
  exact ⟨l, s3, by rw [bind_ok h3]; rfl, e3.dec hl, e0.trans e3⟩

/-- a delegated conversion, `push_register`, `Ok(None)` -/
theorem castConv (L : StoreLaws S) {s s0 : σ} {rest : List Nat} {m : RM σ Nat} {o : OpOut F} {la ra : Nat}
    (e0 : Eff S s s0 rest (S.vals s)) (hc : ConvOut S m s0 o) :
    RefinesCast S s (((do let r ← m; S.pushRegister r : RM σ Unit) >>= fun _ => pure (none : Option Nat)) s0)
      none rest la ra o := by
  cases o with
  | val w => exact castPush L e0 hc
  | err e =>
    show _ = Outcome.err e
    have hc' : m s0 = .err e := hc
    rw [bind_apply, bind_err hc']
  | defer op a b => exact absurd hc id

/-- `primitive_cast` with a result -/
theorem primitiveCast_some (L : StoreLaws S) {A B : Type} {s s0 : σ} {rest : List Nat} {addr : Nat}
    {get : Nat → RM σ A} {cast : A → Option B} {add : B → RM σ Nat} {x : A} {y : B} {v : Val F}
    (e0 : Eff S s s0 rest (S.vals s)) (hg : get addr s0 = .ok (x, s0)) (hcast : cast x = some y)
    (ha : Adds S (add y) s0 v) :
    Pushed S s ((primitiveCast S addr get cast add >>= fun _ => pure (none : Option Nat)) s0) none rest v := by
  have := castPush L e0 ha
  rw [primitiveCast, bind_ok2 hg]
  simp only [hcast]
  exact this

theorem primitiveCast_none (L : StoreLaws S) {A B : Type} {s s0 : σ} {rest : List Nat} {addr : Nat}
    {get : Nat → RM σ A} {cast : A → Option B} {add : B → RM σ Nat} {x : A}
    (e0 : Eff S s s0 rest (S.vals s)) (hg : get addr s0 = .ok (x, s0)) (hcast : cast x = none) :
    Pushed S s ((primitiveCast S addr get cast add >>= fun _ => pure (none : Option Nat)) s0) none rest .unit := by
  have := castPushUnit L e0
  rw [primitiveCast, bind_ok2 hg]
  simp only [hcast]
  exact this

/-! ### which arm: `castArm` against `castOp` -/

theorem castArm_noop {l r : Ty} : castArm l r = .noop ↔ l = r := by
  cases l <;> cases r <;> decide

theorem castOp_of_ne (env : CastEnv F) {vl vr : Val F} (h : vl.typeOf ≠ castTarget vr) :
    castOp fo env vl vr = castCore fo env vl vr (castTarget vr) := by
  simp [castOp, h]

/-- the arms whose outcome is a fixed value or the offer -/
theorem castCore_simple (env : CastEnv F) (vl vr : Val F) (rt : Ty) :
    (castArm vl.typeOf rt = .falseOut → castCore fo env vl vr rt = .val .fls) ∧
    (castArm vl.typeOf rt = .trueOut → castCore fo env vl vr rt = .val .tru) ∧
    (castArm vl.typeOf rt = .unitOut → castCore fo env vl vr rt = .val .unit) ∧
    (castArm vl.typeOf rt = .deferOp → castCore fo env vl vr rt = .defer .applyType vl vr) := by
  cases vl <;> cases rt <;> simp [castArm, castCore, Val.typeOf]

/-- the arms that delegate to the data object -/
theorem castCore_conv (env : CastEnv F) (vl vr : Val F) (rt : Ty) :
    (castArm vl.typeOf rt = .toCharList → castCore fo env vl vr rt = textOut env vl) ∧
    (castArm vl.typeOf rt = .toByteList → castCore fo env vl vr rt = byteListFrom env vl) ∧
    (castArm vl.typeOf rt = .toSymbol → castCore fo env vl vr rt = symbolFrom env vl) := by
  cases vl <;> cases rt <;> simp [castArm, castCore, Val.typeOf, textOut] <;> (cases textOf env _ <;> rfl)

/-- the primitive arms and the text arms: the operand's shape -/
theorem castArm_shapes (vl : Val F) (rt : Ty) :
    (castArm vl.typeOf rt = .charListNumber → rt = .number ∧ ∃ cs, vl = .chars cs) ∧
    (castArm vl.typeOf rt = .numberChar → rt = .char ∧ ∃ n, vl = .num n) ∧
    (castArm vl.typeOf rt = .numberByte → rt = .byte ∧ ∃ n, vl = .num n) ∧
    (castArm vl.typeOf rt = .charNumber → rt = .number ∧ ∃ c, vl = .char c) ∧
    (castArm vl.typeOf rt = .charByte → rt = .byte ∧ ∃ c, vl = .char c) ∧
    (castArm vl.typeOf rt = .byteNumber → rt = .number ∧ ∃ b, vl = .byte b) ∧
    (castArm vl.typeOf rt = .byteChar → rt = .char ∧ ∃ b, vl = .byte b) ∧
    (castArm vl.typeOf rt = .charListChar → rt = .char ∧ ∃ cs, vl = .chars cs) := by
  cases vl <;> cases rt <;> simp [castArm, Val.typeOf]

/-- the list arms: the operand's shape -/
theorem castArm_list_shapes (vl : Val F) (rt : Ty) :
    (castArm vl.typeOf rt = .symbolListList → rt = .list ∧ ∃ ps, vl = .symList ps) ∧
    (castArm vl.typeOf rt = .rangeList → rt = .list ∧ ∃ a b, vl = .range a b) ∧
    (castArm vl.typeOf rt = .charListList → rt = .list ∧ ∃ cs, vl = .chars cs) ∧
    (castArm vl.typeOf rt = .byteListList → rt = .list ∧ ∃ bs, vl = .bytes bs) ∧
    (castArm vl.typeOf rt = .concatenationList → rt = .list ∧ ∃ a b, vl = .concat a b) ∧
    (castArm vl.typeOf rt = .sliceList → rt = .list ∧ ∃ x rng, vl = .slice x rng) := by
  cases vl <;> cases rt <;> simp [castArm, Val.typeOf]

end Garnish.Lemmas.Runtime
