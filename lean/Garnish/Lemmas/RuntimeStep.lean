/-
Lemmas for the step simulation (Props/RuntimeRefineStep.lean), part 1: related data stay related over the effects of
the contract, the tail of `execute_current_instruction` is Abs/Machine `finish`, and a handler simulation gives a step
simulation.
-/
import Garnish.Model.Runtime.Sim
import Garnish.Lemmas.RuntimeConcat
set_option linter.unusedSimpArgs false
set_option linter.unusedVariables false
namespace Garnish.Lemmas.Runtime
open Garnish Gen Garnish.Abs Garnish.Model.Equality Garnish.Model.Runtime

variable {F σ : Type} {S : RStore F σ} {P : Prog F}

theorem framesRel_keeps {s s' : σ} (k : Keeps S s s') : ∀ {fs : List (Nat × List Nat)} {frs : List (Frame F)},
    FramesRel (S.view s) fs frs → FramesRel (S.view s') fs frs
  | _, _, .nil => .nil
  | _, _, .cons h d t => .cons h (decodesList_keeps k d) (framesRel_keeps k t)

/-- related data stay related over an ordinary effect, with the new stacks -/
theorem SimD.ofEff {s s' : σ} {regs vals regs' vals' : List (Val F)} {frames : List (Frame F)} {R V : List Nat}
    (h : SimD S P s regs vals frames) (e : Eff S s s' R V)
    (hr : DecodesList (S.view s') R regs') (hv : DecodesList (S.view s') V vals') :
    SimD S P s' regs' vals' frames :=
  ⟨e.regs ▸ hr, e.vals ▸ hv, e.frames ▸ framesRel_keeps e.keeps h.frames,
    fun i => by rw [e.keeps.instr]; exact h.instrs i, fun j => by rw [e.keeps.jump]; exact h.jumps j,
    by rw [e.keeps.ilen]; exact h.ilen⟩

/-- … over an effect that changes the frame chain -/
theorem SimD.ofFEff {s s' : σ} {regs vals regs' vals' : List (Val F)} {frames frames' : List (Frame F)}
    {R V : List Nat} {Fr : List (Nat × List Nat)}
    (h : SimD S P s regs vals frames) (e : FEff S s s' R V Fr)
    (hr : DecodesList (S.view s') R regs') (hv : DecodesList (S.view s') V vals')
    (hf : FramesRel (S.view s') Fr frames') :
    SimD S P s' regs' vals' frames' :=
  ⟨e.regs ▸ hr, e.vals ▸ hv, e.frames ▸ hf,
    fun i => by rw [e.keeps.instr]; exact h.instrs i, fun j => by rw [e.keeps.jump]; exact h.jumps j,
    by rw [e.keeps.ilen]; exact h.ilen⟩

/-- … over a host call -/
theorem SimD.ofHEff {s s' : σ} {regs vals regs' : List (Val F)} {frames : List (Frame F)} {R : List Nat}
    (h : SimD S P s regs vals frames) (e : HEff S s s' R) (hr : DecodesList (S.view s') R regs') :
    SimD S P s' regs' vals frames :=
  ⟨e.regs ▸ hr, e.vals ▸ decodesList_keeps e.keeps h.vals, e.frames ▸ framesRel_keeps e.keeps h.frames,
    fun i => by rw [e.keeps.instr]; exact h.instrs i, fun j => by rw [e.keeps.jump]; exact h.jumps j,
    by rw [e.keeps.ilen]; exact h.ilen⟩

theorem decodesList_mapDec {v1 v2 : StoreView F} (hdec : ∀ a v, Decodes v1 a v → Decodes v2 a v) :
    ∀ {ps : List Nat} {pvs : List (Val F)}, DecodesList v1 ps pvs → DecodesList v2 ps pvs
  | [], [], .nil => .nil
  | _ :: _, _ :: _, .cons h t => .cons (hdec _ _ h) (decodesList_mapDec hdec t)

theorem framesRel_mapDec {v1 v2 : StoreView F} (hdec : ∀ a v, Decodes v1 a v → Decodes v2 a v) :
    ∀ {fs : List (Nat × List Nat)} {frs : List (Frame F)}, FramesRel v1 fs frs → FramesRel v2 fs frs
  | _, _, .nil => .nil
  | _, _, .cons h d t => .cons h (decodesList_mapDec hdec d) (framesRel_mapDec hdec t)

/-- the tail of `execute_current_instruction` is Abs/Machine `finish` -/
theorem advance_spec (L : StoreLaws S) {s1 : σ} (next : Option Nat) (md : MState F)
    (hd : SimD S P s1 md.regs md.vals md.frames) :
    match finish P (.ok (md, next.getD (S.cursor s1 + 1))) with
    | .running m' => ∃ s', advance S next s1 = .ok (.running, s') ∧ Sim S P s' m' ∧ DecKept S s1 s'
    | .halted m' => ∃ s', advance S next s1 = .ok (.end_, s') ∧ SimD S P s' m'.regs m'.vals m'.frames ∧
        DecKept S s1 s'
    | .err _ => True := by
  rw [advance, bind_ok (read_apply S.cursor s1), bind_ok (read_apply S.instrLen s1), hd.ilen]
  simp only [finish]
  by_cases hge : next.getD (S.cursor s1 + 1) ≥ P.instrs.size
  · simp only [hge, if_true]
    exact ⟨s1, rfl, hd, fun _ _ h => h⟩
  · simp only [hge, if_false]
    obtain ⟨s2, h2, hc, hdec, hj, hil, hins, _, hregs, hvals, _, hfr⟩ := L.setCursor (next.getD (S.cursor s1 + 1)) s1
    refine ⟨s2, by rw [bind_ok h2]; rfl, ⟨hc, ?_⟩, hdec⟩
    exact ⟨hregs ▸ decodesList_mapDec hdec hd.regs, hvals ▸ decodesList_mapDec hdec hd.vals,
      hfr ▸ framesRel_mapDec hdec hd.frames, fun i => by rw [hins]; exact hd.instrs i,
      fun j => by rw [hj]; exact hd.jumps j, by rw [hil]; exact hd.ilen⟩

/-- from a handler simulation to a step simulation -/
theorem step_of_handler (L : StoreLaws S) (fo : FloatOps F) (fuel : Nat) (H : OtherHandlers σ) {s : σ} {m : MState F}
    (hsim : Sim S P s m) {instr : Instruction} {operand : Option Nat}
    (hfetch : P.instrs[m.pc]? = some (instr, operand))
    {r : Except ErrClass (MState F × Nat)}
    (hh : HandlerSim S P s (dispatch fo S fuel H instr operand s) r) :
    match finish P r with
    | .running m' => ∃ s', executeCurrentInstruction fo S fuel H s = .ok (.running, s') ∧ Sim S P s' m' ∧
        DecKept S s s'
    | .halted m' => ∃ s', executeCurrentInstruction fo S fuel H s = .ok (.end_, s') ∧
        SimD S P s' m'.regs m'.vals m'.frames ∧ DecKept S s s'
    | .err _ => True := by
  obtain ⟨hpc, hd⟩ := hsim
  have hf : (RM.read (fun st => S.instruction st (S.cursor st)) : RM σ _) s = .ok (some (instr, operand), s) := by
    show Outcome.ok (S.instruction s (S.cursor s), s) = _
    rw [hd.instrs, hpc, hfetch]
  cases r with
  | error e => trivial
  | ok p =>
    obtain ⟨md, n⟩ := p
    obtain ⟨next, s1, h1, hn, hc, hd1, hk1⟩ := hh
    have := advance_spec (P := P) L next md hd1
    rw [hc, hn] at this
    rw [executeCurrentInstruction, bind_ok hf]
    simp only []
    rw [bind_ok h1]
    cases hfin : finish P (.ok (md, n)) with
    | running m' =>
      rw [hfin] at this
      obtain ⟨s', h2, hs, hk2⟩ := this
      exact ⟨s', h2, hs, fun a v h => hk2 a v (hk1 a v h)⟩
    | halted m' =>
      rw [hfin] at this
      obtain ⟨s', h2, hs, hk2⟩ := this
      exact ⟨s', h2, hs, fun a v h => hk2 a v (hk1 a v h)⟩
    | err e => trivial

end Garnish.Lemmas.Runtime
