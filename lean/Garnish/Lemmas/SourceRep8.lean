/-
`Rep` does not depend on how the nested bodies are named: renaming the ids in the program (`rlE`, `rlBodies` of
Lemmas/CompileRelabel3.lean) leaves the representation relation intact.  This is what lets a source text be built into an
object that already holds other programs: there its bodies are named by the jump entries they get THERE
(`rlProgram (shJ P0) p`), and the same node array represents the renamed program.
-/
import Garnish.Lemmas.CompileTree15
import Garnish.Lemmas.CompileRelabel3
namespace Garnish.Abs.Tree
open Garnish Garnish.Gen Garnish.Spec Garnish.Abs Garnish.Model.Parser Garnish.Model.Literals Garnish.Model.Build

variable {F : Type} {pf : List Char → Option F} {tree : Array ParseNode} {bodies : List (Nat × Expr F)} {ρ : Nat → Nat}

theorem LitRep.rl_eq {pn : ParseNode} {v : Val F} (h : LitRep pf pn v) : Val.rl ρ v = v := by
  cases h <;> rfl

theorem LeafRep.rl_eq {pn : ParseNode} {x : Expr F} (h : LeafRep pf pn x) : rlE ρ x = x := by
  cases h with
  | lit hv => simp only [rlE, LitRep.rl_eq hv]
  | input _ => rfl
  | ident _ => rfl

theorem rlEs_append (a b : List (Expr F)) : rlEs ρ (a ++ b) = rlEs ρ a ++ rlEs ρ b := by
  induction a with
  | nil => rfl
  | cons x xs ih => simp [rlEs, ih]

theorem rlArms_append (a b : List (Bool × Expr F × Expr F)) : rlArms ρ (a ++ b) = rlArms ρ a ++ rlArms ρ b := by
  induction a with
  | nil => rfl
  | cons x xs ih => obtain ⟨t, c, e⟩ := x; simp [rlArms, ih]

mutual
theorem Rep.rl (hρ : ∀ a b, ρ a = ρ b → a = b) : ∀ {lo hi i : Nat} {e : Expr F}, Rep pf tree bodies lo hi i e →
    Rep pf tree (rlBodies ρ bodies) lo hi i (rlE ρ e)
  | _, _, _, _, .group h hd hr hrep => .group h hd hr (Rep.rl hρ hrep)
  | _, _, _, _, .lit h hl hr hv => by simp only [rlE, LitRep.rl_eq hv]; exact .lit h hl hr hv
  | _, _, _, _, .input h hd hl hr => .input h hd hl hr
  | _, _, _, _, .ident h hd hl hr => .ident h hd hl hr
  | _, _, _, _, .unaryPre h hop hr hrep => by simp only [rlE]; exact .unaryPre h hop hr (Rep.rl hρ hrep)
  | _, _, _, _, .unarySuf h hop hl hrep => by simp only [rlE]; exact .unarySuf h hop hl (Rep.rl hρ hrep)
  | _, _, _, _, .binary h hop hl hr ha hb => by simp only [rlE]; exact .binary h hop hl hr (Rep.rl hρ ha) (Rep.rl hρ hb)
  | _, _, _, _, .pair h hd hl hr ha hb => by simp only [rlE]; exact .pair h hd hl hr (Rep.rl hρ ha) (Rep.rl hρ hb)
  | _, _, _, _, .applyTo h hd hl hr ha hb => by simp only [rlE]; exact .applyTo h hd hl hr (Rep.rl hρ ha) (Rep.rl hρ hb)
  | _, _, _, _, .list hd hitems => by simp only [rlE]; exact .list hd (RepItems.rl hρ hitems)
  | _, _, _, _, .seq h hd hl hr ha hb => by simp only [rlE]; exact .seq h hd hl hr (Rep.rl hρ ha) (Rep.rl hρ hb)
  | _, _, _, _, .reapply h hd hr hrep => by simp only [rlE]; exact .reapply h hd hr (Rep.rl hρ hrep)
  | _, _, _, _, .prefixApply h hd hr hrep => by simp only [rlE]; exact .prefixApply h hd hr (Rep.rl hρ hrep)
  | _, _, _, _, .suffixApply h hd hl hrep => by simp only [rlE]; exact .suffixApply h hd hl (Rep.rl hρ hrep)
  | _, _, _, _, .infixApply h hd hl hr ha hb => by simp only [rlE]; exact .infixApply h hd hl hr (Rep.rl hρ ha) (Rep.rl hρ hb)
  | _, _, _, _, .side h hl hr hx hps hd hrb hrep => by
    simp only [rlE, LeafRep.rl_eq hx]; exact .side h hl hr hx hps hd hrb (Rep.rl hρ hrep)
  | _, _, _, _, .nested h hd hr hbody hrep => by
    simp only [rlE]
    exact .nested h hd hr (by rw [lookupBody_rl hρ, hbody]; rfl) (Rep.rl hρ hrep)
  | _, _, _, _, .emptyNested h hd hr => .emptyNested h hd hr
  | _, _, _, _, .cond h hd hl hr ha hb => by simp only [rlE]; exact .cond h hd hl hr (Rep.rl hρ ha) (Rep.rl hρ hb)
  | _, _, _, _, .and h hd hl hr hn ha hb => by simp only [rlE]; exact .and h hd hl hr hn (Rep.rl hρ ha) (Rep.rl hρ hb)
  | _, _, _, _, .or h hd hl hr hn ha hb => by simp only [rlE]; exact .or h hd hl hr hn (Rep.rl hρ ha) (Rep.rl hρ hb)
  | _, _, _, _, .chain h hd hl hr harms hn hfe => by
    simp only [rlE]; exact .chain h hd hl hr (RepArms.rl hρ harms) hn (Rep.rl hρ hfe)
  | _, _, _, _, .chainNoFinal h hd hl hr harms harm => by
    simp only [rlE, rlArms_append, rlArms]; exact .chainNoFinal h hd hl hr (RepArms.rl hρ harms) (RepArm.rl hρ harm)
theorem RepItems.rl (hρ : ∀ a b, ρ a = ρ b → a = b) : ∀ {d : Definition} {lo hi i : Nat} {items : List (Expr F)},
    RepItems pf tree bodies d lo hi i items → RepItems pf tree (rlBodies ρ bodies) d lo hi i (rlEs ρ items)
  | _, _, _, _, _, .two h hd hl hr n1 n2 ha hb => by simp only [rlEs]; exact .two h hd hl hr n1 n2 (Rep.rl hρ ha) (Rep.rl hρ hb)
  | _, _, _, _, _, .snoc h hd hl hr n hitems hb => by
    simp only [rlEs_append, rlEs]; exact .snoc h hd hl hr n (RepItems.rl hρ hitems) (Rep.rl hρ hb)
theorem RepArms.rl (hρ : ∀ a b, ρ a = ρ b → a = b) : ∀ {lo hi i : Nat} {arms : List (Bool × Expr F × Expr F)},
    RepArms pf tree bodies lo hi i arms → RepArms pf tree (rlBodies ρ bodies) lo hi i (rlArms ρ arms)
  | _, _, _, _, .one harm => by simp only [rlArms]; exact .one (RepArm.rl hρ harm)
  | _, _, _, _, .more h hd hl hr harms harm => by
    simp only [rlArms_append, rlArms]; exact .more h hd hl hr (RepArms.rl hρ harms) (RepArm.rl hρ harm)
theorem RepArm.rl (hρ : ∀ a b, ρ a = ρ b → a = b) : ∀ {lo hi i : Nat} {t : Bool} {c e : Expr F},
    RepArm pf tree bodies lo hi i t c e → RepArm pf tree (rlBodies ρ bodies) lo hi i t (rlE ρ c) (rlE ρ e)
  | _, _, _, _, _, _, .mk h hd hl hr ha hb => .mk h hd hl hr (Rep.rl hρ ha) (Rep.rl hρ hb)
end

end Garnish.Abs.Tree
