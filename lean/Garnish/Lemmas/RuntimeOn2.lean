/-
The runtime refinement over the RELATIVISED store contract `StoreLawsOn` (Model/Runtime/StoreOn.lean), part 2.
Handlers / step / run lemmas of Lemmas/Runtime{Base,Step*,Run}.lean redone with the invariant threaded (`Inv s` in,
`Inv s'` out), `Readable` established at every push (from a `Decodes` fact of a non-`custom` value) and `Deep`
at every pop (from `Sim` and the machine-side condition `MDeep`) — for the instructions `MachOKOn` lists.
-/
import Garnish.Lemmas.RuntimeOn
import Garnish.Lemmas.RuntimeStep8
set_option linter.unusedSimpArgs false
set_option linter.unusedVariables false
namespace Garnish.Lemmas.Runtime.On
open Garnish Gen Garnish.Abs Garnish.Model.Equality Garnish.Model.Runtime Garnish.Lemmas.Runtime
open Garnish.Props.RuntimeRefine

variable {F σ : Type} {S : RStore F σ} {Inv : σ → Prop} {Rd : σ → Nat → Prop} {P : Prog F} {host : Host F}
  (fo : FloatOps F)

/-- `StepSim` (Model/Runtime/Sim.lean) with the invariant re-established -/
def StepSimOn (host : Host F) (S : RStore F σ) (Inv : σ → Prop) (P : Prog F) (fuel : Nat) (H : OtherHandlers σ)
    (s : σ) (m : MState F) : Prop :=
  match Abs.step fo host P m with
  | .running m' => ∃ s', executeCurrentInstruction fo S fuel H s = .ok (.running, s') ∧ Sim S P s' m' ∧
      DecKept S s s' ∧ Inv s'
  | .halted m' => ∃ s', executeCurrentInstruction fo S fuel H s = .ok (.end_, s') ∧
      SimD S P s' m'.regs m'.vals m'.frames ∧ DecKept S s s' ∧ Inv s'
  | .err _ => True

/-- `HandlerSim` with the invariant re-established -/
def HandlerSimOn (S : RStore F σ) (Inv : σ → Prop) (P : Prog F) (s : σ) (res : Outcome (Option Nat × σ))
    (r : Except ErrClass (MState F × Nat)) : Prop :=
  match r with
  | .ok (md, n) => ∃ next s1, res = .ok (next, s1) ∧ next.getD (S.cursor s + 1) = n ∧ S.cursor s1 = S.cursor s ∧
      SimD S P s1 md.regs md.vals md.frames ∧ DecKept S s s1 ∧ Inv s1
  | .error _ => True

/-- the machine's frames save no more registers than `rs` has -/
def MDeep (m : MState F) (rs : List (Val F)) : Prop :=
  ∀ fr frs, m.frames = fr :: frs → fr.saved.length ≤ rs.length

theorem decodesList_length {view : StoreView F} : ∀ {as : List Nat} {vs : List (Val F)}, DecodesList view as vs →
    as.length = vs.length
  | _, _, .nil => rfl
  | _, _, .cons _ t => by simp [decodesList_length t]

theorem deep_of_sim {s : σ} {m : MState F} (hd : SimD S P s m.regs m.vals m.frames) {rest : List Nat}
    {rs : List (Val F)} (hl : DecodesList (S.view s) rest rs) (hm : MDeep m rs) : Deep S s rest := by
  intro ret saved fs hf
  have hfr := hd.frames
  rw [hf] at hfr
  generalize hmf : m.frames = mf at hfr
  cases hfr with
  | cons _ hsaved _ =>
    have := hm _ _ hmf
    rw [decodesList_length hsaved, decodesList_length hl]; exact this

section
variable (L : StoreLawsOn S Inv Rd)
include L

theorem advance_spec_on {s1 : σ} (next : Option Nat) (md : MState F) (hi : Inv s1)
    (hd : SimD S P s1 md.regs md.vals md.frames) :
    match finish P (.ok (md, next.getD (S.cursor s1 + 1))) with
    | .running m' => ∃ s', advance S next s1 = .ok (.running, s') ∧ Sim S P s' m' ∧ DecKept S s1 s' ∧ Inv s'
    | .halted m' => ∃ s', advance S next s1 = .ok (.end_, s') ∧ SimD S P s' m'.regs m'.vals m'.frames ∧
        DecKept S s1 s' ∧ Inv s'
    | .err _ => True := by
  rw [advance, bind_ok (read_apply S.cursor s1), bind_ok (read_apply S.instrLen s1), hd.ilen]
  simp only [finish]
  by_cases hge : next.getD (S.cursor s1 + 1) ≥ P.instrs.size
  · simp only [hge, if_true]
    exact ⟨s1, rfl, hd, fun _ _ h => h, hi⟩
  · simp only [hge, if_false]
    obtain ⟨s2, h2, hc, hdec, hj, hil, hins, _, hregs, hvals, _, hfr, hinv⟩ :=
      L.setCursor (next.getD (S.cursor s1 + 1)) s1
    refine ⟨s2, by rw [bind_ok h2]; rfl, ⟨hc, ?_⟩, hdec, hinv hi⟩
    exact ⟨hregs ▸ decodesList_mapDec hdec hd.regs, hvals ▸ decodesList_mapDec hdec hd.vals,
      hfr ▸ framesRel_mapDec hdec hd.frames, fun i => by rw [hins]; exact hd.instrs i,
      fun j => by rw [hj]; exact hd.jumps j, by rw [hil]; exact hd.ilen⟩

theorem stepSimOn_of (fuel : Nat) (H : OtherHandlers σ) {s : σ} {m : MState F}
    (hsim : Sim S P s m) {instr : Instruction} {operand : Option Nat}
    (hfetch : P.instrs[m.pc]? = some (instr, operand)) {r : Except ErrClass (MState F × Nat)}
    (hstep : Abs.step fo host P m = finish P r)
    (hh : HandlerSimOn S Inv P s (dispatch fo S fuel H instr operand s) r) :
    StepSimOn fo host S Inv P fuel H s m := by
  unfold StepSimOn
  rw [hstep]
  obtain ⟨hpc, hd⟩ := hsim
  have hf : (RM.read (fun st => S.instruction st (S.cursor st)) : RM σ _) s = .ok (some (instr, operand), s) := by
    show Outcome.ok (S.instruction s (S.cursor s), s) = _
    rw [hd.instrs, hpc, hfetch]
  cases r with
  | error e => trivial
  | ok p =>
    obtain ⟨md, n⟩ := p
    obtain ⟨next, s1, h1, hn, hc, hd1, hk1, i1⟩ := hh
    have := advance_spec_on (P := P) L next md i1 hd1
    rw [hc, hn] at this
    rw [executeCurrentInstruction, bind_ok hf]
    simp only []
    rw [bind_ok h1]
    cases hfin : finish P (.ok (md, n)) with
    | running m' =>
      rw [hfin] at this
      obtain ⟨s', h2, hs, hk2, i2⟩ := this
      exact ⟨s', h2, hs, fun a v h => hk2 a v (hk1 a v h), i2⟩
    | halted m' =>
      rw [hfin] at this
      obtain ⟨s', h2, hs, hk2, i2⟩ := this
      exact ⟨s', h2, hs, fun a v h => hk2 a v (hk1 a v h), i2⟩
    | err e => trivial

omit L in
theorem handlerSimOn_ofEff {s s1 : σ} {m md : MState F} (hd : SimD S P s m.regs m.vals m.frames)
    {res : Outcome (Option Nat × σ)} {next : Option Nat} {R V : List Nat} {n : Nat}
    (h1 : res = .ok (next, s1)) (e : Eff S s s1 R V) (i1 : Inv s1)
    (hr : DecodesList (S.view s1) R md.regs) (hv : DecodesList (S.view s1) V md.vals) (hf : md.frames = m.frames)
    (hn : next.getD (S.cursor s + 1) = n) : HandlerSimOn S Inv P s res (.ok (md, n)) :=
  ⟨next, s1, h1, hn, e.keeps.cur, hf ▸ SimD.ofEff hd e hr hv, e.keeps.dec, i1⟩

variable (fuel : Nat) (H : OtherHandlers σ) {s : σ} {m : MState F} (hsim : Sim S P s m) (hi : Inv s)
include hsim hi

theorem stepOn_invalid {operand : Option Nat} (hfetch : P.instrs[m.pc]? = some (.invalid, operand)) :
    StepSimOn fo host S Inv P fuel H s m := by
  refine stepSimOn_of fo L fuel H hsim hfetch (r := .ok (m, m.pc + 1)) (by unfold Abs.step; rw [hfetch]; rfl) ?_
  exact ⟨none, s, rfl, by simp [hsim.1], rfl, hsim.2, fun _ _ h => h, hi⟩

theorem stepOn_put {k : Nat} {v : Val F} (hfetch : P.instrs[m.pc]? = some (.put, some k))
    (hc : P.consts[k]? = some v) (hk : k < S.dataLen s) (hdv : Decodes (S.view s) k v) (hv : v ≠ .custom) :
    StepSimOn fo host S Inv P fuel H s m := by
  refine stepSimOn_of fo L fuel H hsim hfetch (r := .ok ({ m with regs := v :: m.regs }, m.pc + 1))
    (by unfold Abs.step; rw [hfetch]; simp only [hc]; rfl) ?_
  obtain ⟨s1, h1, e1, i1⟩ := put_on L hi hk (L.readable s k v hi hdv hv)
  exact handlerSimOn_ofEff hsim.2 (md := { m with regs := v :: m.regs }) h1 e1 i1
    (.cons (e1.dec hdv) (Sim.tail e1 hsim.2.regs)) (Sim.tail e1 hsim.2.vals) rfl (by simp [hsim.1])

theorem stepOn_putValue {operand : Option Nat} (hfetch : P.instrs[m.pc]? = some (.putValue, operand))
    (hok : ∀ v vs, m.vals = v :: vs → v ≠ .custom) : StepSimOn fo host S Inv P fuel H s m := by
  have hv := hsim.2.vals
  cases hmv : m.vals with
  | nil =>
    rw [hmv] at hv
    cases hsv : S.vals s with
    | cons _ _ => rw [hsv] at hv; cases hv
    | nil =>
      obtain ⟨a, s1, h1, d1, e1, i1⟩ := putValue_nil_on L hi hsv
      refine stepSimOn_of fo L fuel H hsim hfetch (r := .ok ({ m with regs := .unit :: m.regs }, m.pc + 1))
        (by unfold Abs.step; rw [hfetch]; simp only [hmv]; rfl) ?_
      exact handlerSimOn_ofEff hsim.2 (md := { m with regs := .unit :: m.regs }) h1 e1 i1
        (.cons d1 (Sim.tail e1 hsim.2.regs)) (Sim.tail e1 hsim.2.vals) rfl (by simp [hsim.1])
  | cons v vs =>
    rw [hmv] at hv
    obtain ⟨a, as, hsv, da, _⟩ := decodesList_cons_inv hv
    obtain ⟨s1, h1, e1, i1⟩ := putValue_cons_on L hi hsv (L.readable s a v hi da (hok v vs hmv))
    refine stepSimOn_of fo L fuel H hsim hfetch (r := .ok ({ m with regs := v :: m.regs }, m.pc + 1))
      (by unfold Abs.step; rw [hfetch]; simp only [hmv]; rfl) ?_
    exact handlerSimOn_ofEff hsim.2 (md := { m with regs := v :: m.regs }) h1 e1 i1
      (.cons (e1.dec da) (Sim.tail e1 hsim.2.regs)) (Sim.tail e1 hsim.2.vals) rfl (by simp [hsim.1])

theorem stepOn_jumpTo {j t : Nat} (hfetch : P.instrs[m.pc]? = some (.jumpTo, some j)) (hj : P.jumps[j]? = some t) :
    StepSimOn fo host S Inv P fuel H s m := by
  refine stepSimOn_of fo L fuel H hsim hfetch (r := .ok (m, t))
    (by unfold Abs.step; rw [hfetch]; simp only [jumpTarget_some hj]; rfl) ?_
  have h := C10_refine_jump (S := S) j s
  rw [hsim.2.jumps, hj] at h
  exact ⟨some t, s, h, rfl, rfl, hsim.2, fun _ _ h => h, hi⟩

theorem stepOn_jumpIfTrue {j t : Nat} (hfetch : P.instrs[m.pc]? = some (.jumpIfTrue, some j))
    (hj : P.jumps[j]? = some t) {d : Val F} {rs : List (Val F)} (hregs : m.regs = d :: rs) (hm : MDeep m rs) :
    StepSimOn fo host S Inv P fuel H s m := by
  have hr := hsim.2.regs
  rw [hregs] at hr
  obtain ⟨a, rest, hsr, da, tl⟩ := decodesList_cons_inv hr
  obtain ⟨s1, h1, e1, i1⟩ := jumpIfTrue_on L hi (by rw [hsim.2.jumps, hj]) hsr (deep_of_sim hsim.2 tl hm) da
  refine stepSimOn_of fo L fuel H hsim hfetch
    (r := .ok ({ m with regs := rs }, if d.truthy then t else m.pc + 1))
    (by unfold Abs.step; rw [hfetch]; simp only [jumpTarget_some hj, hregs]) ?_
  exact handlerSimOn_ofEff hsim.2 (md := { m with regs := rs }) h1 e1 i1 (Sim.tail e1 tl)
    (Sim.tail e1 hsim.2.vals) rfl (by cases d.truthy <;> simp [hsim.1])

theorem stepOn_jumpIfFalse {j t : Nat} (hfetch : P.instrs[m.pc]? = some (.jumpIfFalse, some j))
    (hj : P.jumps[j]? = some t) {d : Val F} {rs : List (Val F)} (hregs : m.regs = d :: rs) (hm : MDeep m rs) :
    StepSimOn fo host S Inv P fuel H s m := by
  have hr := hsim.2.regs
  rw [hregs] at hr
  obtain ⟨a, rest, hsr, da, tl⟩ := decodesList_cons_inv hr
  obtain ⟨s1, h1, e1, i1⟩ := jumpIfFalse_on L hi (by rw [hsim.2.jumps, hj]) hsr (deep_of_sim hsim.2 tl hm) da
  refine stepSimOn_of fo L fuel H hsim hfetch
    (r := .ok ({ m with regs := rs }, if d.truthy then m.pc + 1 else t))
    (by unfold Abs.step; rw [hfetch]; simp only [jumpTarget_some hj, hregs]) ?_
  exact handlerSimOn_ofEff hsim.2 (md := { m with regs := rs }) h1 e1 i1 (Sim.tail e1 tl)
    (Sim.tail e1 hsim.2.vals) rfl (by cases d.truthy <;> simp [hsim.1])

end
end Garnish.Lemmas.Runtime.On
