/-
The SCALAR class: values without structure and without text (`scalar`), the instructions that build no container and look nothing
up (`scalarInstr`), and the closure of scalars under `unaryOp` / `binaryOp` / `applyKind` for those instructions.
-/
import Garnish.Lemmas.NoCustom10
set_option linter.unusedSimpArgs false
set_option linter.unusedVariables false
namespace Garnish.Lemmas.Scalar
open Garnish Gen Garnish.Abs

variable {F : Type} (fo : FloatOps F)

/-- values without structure and without text: what a program that builds no container, reads no text and merges no
symbols computes with -/
def scalar : Val F → Bool
  | .unit | .tru | .fls | .num _ | .char _ | .byte _ | .sym _ | .expr _ | .ext _ | .type _ => true
  | _ => false

def scalarL : List (Val F) → Bool
  | [] => true
  | x :: xs => scalar x && scalarL xs

theorem scalarL_cons {x : Val F} {xs : List (Val F)} (hx : scalar x = true) (hxs : scalarL xs = true) :
    scalarL (x :: xs) = true := by simp [scalarL, hx, hxs]

theorem head_scalar {x : Val F} {xs ys : List (Val F)} (h : scalarL ys = true) (he : ys = x :: xs) :
    scalar x = true ∧ scalarL xs = true := by subst he; simpa [scalarL] using h

theorem scalarL_tail {xs : List (Val F)} (h : scalarL xs = true) : scalarL xs.tail = true := by
  cases xs with
  | nil => rfl
  | cons x xs => simp [scalarL] at h; exact h.2

theorem scalar_ofBool (b : Bool) : scalar (Val.ofBool b : Val F) = true := by cases b <;> rfl

/-- the instructions of the scalar class: no container is built (`MakePair`, `MakeList`, `Concat`, `PartialApply`, the
ranges), nothing is looked up (`Access`, `Resolve`, `AccessLengthInternal`) -/
def scalarInstr : Instruction → Bool
  | .makePair | .makeList | .concat | .partialApply | .makeRange | .makeStartExclusiveRange
  | .makeEndExclusiveRange | .makeExclusiveRange | .access | .resolve | .accessLengthInternal => false
  | _ => true

def OutScalar : OpOut F → Prop
  | .val v => scalar v = true
  | _ => True

theorem scalar_numResult (o : Option (Number F)) : scalar (numResult o) = true := by cases o <;> rfl

theorem outScalar_unaryOp {op : Instruction} {v : Val F} {o : OpOut F} (hop : scalarInstr op = true)
    (hv : scalar v = true) (h : unaryOp fo op v = some o) : OutScalar o := by
  cases op <;> simp [unaryOp, numOpOf] at h <;> subst h <;> first
    | (cases hop; done)
    | exact scalar_ofBool _
    | rfl
    | (cases v <;> first | exact scalar_numResult _ | trivial | (cases hv; done))

theorem scalar_cmpOp (accept : Ordering → Bool) (l r : Val F) : scalar (cmpOp fo accept l r) = true := by
  unfold cmpOp
  split <;> first | exact scalar_ofBool _ | rfl

theorem outScalar_binaryOp {op : Instruction} {l r : Val F} {o : OpOut F} (hop : scalarInstr op = true)
    (hl : scalar l = true) (hr : scalar r = true) (h : binaryOp fo op l r = some o) : OutScalar o := by
  cases op <;> simp [binaryOp, numOpOf] at h <;> subst h <;> first
    | (cases hop; done)
    | exact scalar_ofBool _
    | exact scalar_cmpOp fo _ _ _
    | (show scalar (typeEqual l r) = true; unfold typeEqual; exact scalar_ofBool _)
    | (cases l <;> cases r <;> first | exact scalar_numResult _ | trivial | (cases hl; done) | (cases hr; done))

def KindScalar : ApplyKind F → Prop
  | .enter _ input => scalar input = true
  | .external _ arg => scalar arg = true
  | .out o => OutScalar o

/-- on scalars `apply_internal` enters a body, asks the host, or defers — it never looks anything up -/
theorem applyKind_scalar (instr : Instruction) (ur : Bool) {l r : Val F} (hl : scalar l = true) (hr : scalar r = true) :
    KindScalar (applyKind fo instr ur l r) := by
  cases l <;> first | (cases hl; done) | skip
  all_goals (cases r <;> first | (cases hr; done) | rfl | trivial)

end Garnish.Lemmas.Scalar
