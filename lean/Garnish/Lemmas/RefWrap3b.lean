/-
C18, wrapping an operand, case 1: `mid` is a single value token.  `wrapValueOK pre v post` is a decidable condition on the
tokens; together with "the reference parser accepts the original list" it gives `WrapOK` (`wrapOK_value`).
-/
import Garnish.Lemmas.RefWrap3

namespace Garnish.Spec
open Garnish Garnish.Gen Garnish.Model.Parser

/-- a value / identifier token that the reference grammar accepts as an operand -/
def isValueTok (v : PToken) : Bool :=
  ((getDefinition v.type).2 == .value || (getDefinition v.type).2 == .identifier) &&
    !((getDefinition v.type).1 == .drop || (getDefinition v.type).1 == .expressionTerminator)

/-- `pre ( v ) post`: `v` is a value token; it is not an Identifier in the Property position of a `.`; the first operator
    after it walks over it (true for every operator of the table: a value binds tightest) -/
def wrapValueOK (pre : List PToken) (v : PToken) (post : List PToken) : Bool :=
  isValueTok v && (!prevAccess pre || !((getDefinition v.type).1 == .identifier)) &&
    NextPasses (.node .nil (getDefinition v.type).1 0 .nil) post

theorem refStep_value {v : PToken} (hv : isValueTok v = true) (f : Frame) (stack : List Frame) (pos : Nat)
    (rest : List PToken) :
    refStep Table.gen f stack pos v rest =
      Outcome.bind (beforeOperand Table.gen f pos) fun f1 =>
        .ok ({ f1 with cur := plug f1.cur (.node .nil (getDefinition v.type).1 pos .nil), last := .operand, ws := false,
                       prevSep := false }, stack) := by
  unfold isValueTok at hv
  unfold refStep
  have hd : Table.gen.define v.type = getDefinition v.type := rfl
  rw [hd]
  generalize getDefinition v.type = ds at hv
  obtain ⟨d, s⟩ := ds
  simp only [Bool.and_eq_true, Bool.or_eq_true, beq_iff_eq, Bool.not_eq_true'] at hv
  obtain ⟨hs, hnd⟩ := hv
  rcases hs with hs | hs <;> subst hs <;> simp only [hnd, Bool.false_eq_true, if_false]

theorem value_head {v : PToken} (hv : isValueTok v = true) :
    (isFiller v.type || isSeparator v.type) = false ∧ isCloser v.type = false := by
  unfold isValueTok at hv
  revert hv
  cases v.type <;> simp [getDefinition, isFiller, isSeparator, isCloser]

theorem nextPasses_leaf_pos (d : Definition) (p : Nat) : ∀ post : List PToken,
    NextPasses (.node .nil d p .nil) post = NextPasses (.node .nil d 0 .nil) post
  | [] => rfl
  | t :: r => by
    simp only [NextPasses, nextPasses_leaf_pos d p r]
    rfl

/-- **a single value token is a complete operand** -/
theorem wrapOK_value {pre post : List PToken} {v : PToken} {T : RTree}
    (hrun : refLoop Table.gen Frame.top [] 0 (pre ++ ([v] ++ post)) = .ok T) (hs : wrapValueOK pre v post = true) :
    ∃ f stack f1 M M0, WrapOK pre [v] post f stack f1 M M0 := by
  unfold wrapValueOK at hs
  simp only [Bool.and_eq_true, Bool.or_eq_true, Bool.not_eq_true'] at hs
  obtain ⟨⟨hv, hacc⟩, hnext⟩ := hs
  -- the run over `pre`
  rw [refLoop_append Table.gen pre ([v] ++ post)] at hrun
  cases hpre : refRun Table.gen Frame.top [] 0 pre ([v] ++ post) with
  | err _ => rw [hpre] at hrun; cases hrun
  | panic _ => rw [hpre] at hrun; cases hrun
  | fuelOut => rw [hpre] at hrun; cases hrun
  | ok fs =>
    obtain ⟨f, stack⟩ := fs
    rw [hpre] at hrun
    simp only [Outcome.bind, Nat.zero_add, List.cons_append, List.nil_append, refLoop, refStep_value hv] at hrun
    cases hb : beforeOperand Table.gen f pre.length with
    | err _ => rw [hb] at hrun; cases hrun
    | panic _ => rw [hb] at hrun; cases hrun
    | fuelOut => rw [hb] at hrun; cases hrun
    | ok f1 =>
      have hinv := refRun_rinv pre false Frame.top [] 0 _ f stack rinv_top hpre
      obtain ⟨hopen, hac⟩ := beforeOperand_rinv hinv hb
      have hhead := value_head hv
      refine ⟨f, stack, f1, .node .nil (getDefinition v.type).1 pre.length .nil, .node .nil (getDefinition v.type).1 1 .nil,
        ⟨hpre, hb, hopen, ?_, ?_, ?_, rfl, ⟨[], v, rfl, ?_⟩, ?_, ?_⟩⟩
      · simp [closerFollows, hhead.1, hhead.2]
      · simp only [refRun, List.nil_append, refStep_value hv, hb, Outcome.bind]
      · simp only [refRun, List.nil_append, refStep_value hv, Outcome.bind]
        rfl
      · unfold endsOperand
        unfold isValueTok at hv
        simp only [Bool.and_eq_true, Bool.or_eq_true] at hv
        simp only [Bool.and_eq_true, Bool.or_eq_true, hhead.1, Bool.not_false, and_true]
        rcases hv.1 with h | h
        · exact Or.inl (Or.inl h)
        · exact Or.inl (Or.inr h)
      · rcases hacc with h | h
        · left
          cases ha : accessBottom f1.cur with
          | false => rfl
          | true => have := hac ha; unfold prevAccess at h; rw [h] at this; cases this
        · right
          unfold asProperty
          split
          · rename_i k heq
            injection heq with _ e _ _
            rw [e] at h; simp at h
          · rfl
      · rw [nextPasses_leaf_pos]; exact hnext

end Garnish.Spec
