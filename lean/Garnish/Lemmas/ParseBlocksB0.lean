/-
`v [ body ]` once more (the proof of `parse_value_block`, Lemmas/ParserB14), exporting also the definition of the value node.
-/
import Garnish.Lemmas.ParserB14

namespace Garnish.Spec
open Garnish Garnish.Gen Garnish.Model.Parser

/-- **`v [ body ]`**: the model of `parse` accepts; the result is the value node, the SideEffect node as its right child,
    and the tree of the body below the SideEffect node -/
theorem parse_value_block_full (v o c : PToken) (ws wsA wsB : List PToken) (body : Ex) (hv : isAtom10 v = true)
    (ho : o.type = .startSideEffect) (hc : c.type = .endSideEffect) {F : Fl} (hbody : body.ok F false = true)
    (hws : ∀ w ∈ ws, isTriviaTok w = true) (hwA : ∀ w ∈ wsA, isTriviaTok w = true)
    (hwB : ∀ w ∈ wsB, isTriviaTok w = true)
    (hnum : NumberedFrom 0 (v :: (ws ++ (o :: (wsA ++ (body.toks ++ (wsB ++ [c]))))))) :
    ∃ r t, parse (v :: (ws ++ (o :: (wsA ++ (body.toks ++ (wsB ++ [c])))))) = .ok r ∧
      toTree r = some (.node .nil 0 v.col (.node .nil 1 o.col t)) ∧ dfOf r.nodes 1 = .sideEffect ∧
      dfOf r.nodes 0 = (getDefinition v.type).1 ∧
      refLoop Table.gen Frame.top [] (1 + ws.length + 1 + wsA.length) body.toks = .ok (toRG (dfOf r.nodes) t) := by
  obtain ⟨hsa, hqa⟩ := atom10_facts hv
  have hne : v :: (ws ++ (o :: (wsA ++ (body.toks ++ (wsB ++ [c]))))) ≠ [] := by simp
  have hhead : isTrimmable ((v :: (ws ++ (o :: (wsA ++ (body.toks ++ (wsB ++ [c])))))).head hne) = false := by
    simp only [List.head_cons]; exact atom10_not_trimmable hv
  have hlast : isTrimmable ((v :: (ws ++ (o :: (wsA ++ (body.toks ++ (wsB ++ [c])))))).getLast hne) = false := by
    have e : v :: (ws ++ (o :: (wsA ++ (body.toks ++ (wsB ++ [c]))))) =
        (v :: (ws ++ (o :: (wsA ++ (body.toks ++ wsB))))) ++ [c] := by simp
    rw [getLast_of_eq_append hne e]; simp only [isTrimmable, hc]; rfl
  obtain ⟨htrim, _, _⟩ := trim_id _ hne hhead hlast
  -- positions
  have hnum1 : NumberedFrom (0 + 1) (ws ++ (o :: (wsA ++ (body.toks ++ (wsB ++ [c]))))) := hnum.2
  have hnum2 := numbered_append ws _ _ hnum1
  have hnum3 := numbered_append wsA _ _ hnum2.2
  have hnumB : NumberedFrom (1 + ws.length + 1 + wsA.length) body.toks := by
    have := numbered_prefix body.toks _ _ hnum3
    rw [Nat.zero_add] at this; exact this
  -- the value
  obtain ⟨stV, hV, hnV, hlV, hcV, hnnlV, hgsV, hcgV, hpV⟩ := value_stepB PState.init none v false openB_init hv
  let V : ParseNode := ⟨underDef (aboveDef PState.init) (getDefinition v.type).1, (getDefinition v.type).2, none, none, none, v⟩
  have hVprio : priority V.definition = some 10 := underDef_prio hqa
  have hnV' : stV.nodes = #[V] := by rw [hnV]; rfl
  have hszV : stV.nodes.size = 1 := by rw [hnV']; rfl
  have hV0 : stV.nodes[0]? = some V := by rw [hnV']; rfl
  have hinvV : UInv stV none none 0 (.node .nil 0 v.col .nil) 0 stV.nodes.size := by
    refine ⟨⟨isTreeAt_node V hV0 rfl (.nil _) (.nil _) rfl, by rw [hszV]; exact sortedIn_range' 0 1 1 (by omega),
      by simp [Tree.inorder], by omega, .top 0, ?_⟩, hnnlV, ?_, ?_, ?_, ?_⟩
    · intro i nd hi
      rw [hnV'] at hi
      cases i with
      | zero => simp at hi; subst hi; exact ⟨10, hVprio⟩
      | succ k => simp at hi
    · simp [underGroupOf, hcgV, PState.init]
    · refine .plain (by rw [hlV, hszV]; rfl) ⟨V, by rw [hszV]; exact hV0, rfl, prio10_not_groupLike hVprio⟩ ?_ ?_
      · rw [hszV]; rfl
      · intro nd hnd
        rw [hszV, hV0] at hnd
        injection hnd with hnd; rw [← hnd]
        show ((getDefinition v.type).2 == SecDef.subexpression) = false
        rcases hsa with h | h <;> rw [h] <;> rfl
    · simp only [SpineG, if_neg (show 0 ≠ stV.nodes.size by omega)]
      have : dfOf stV.nodes 0 = V.definition := by simp [dfOf, hV0]
      rw [this]
      exact ⟨prio10_not_bracket hVprio, trivial⟩
    · rcases hpV with h | h
      · exact Or.inl h
      · exact Or.inr (Or.inl h)
  -- trivia
  obtain ⟨stV', hloopW, hinvV', hnV2, hgsV2, hcgV2⟩ :=
    trivia_runU ws stV ((o :: (wsA ++ (body.toks ++ (wsB ++ [c])))) ++ []) hinvV hws
  have hszV' : stV'.nodes.size = 1 := by rw [hnV2]; exact hszV
  have hllV' : stV'.lastLeft = some 0 := by
    have hb := hinvV'.bot
    generalize hcb : stV.nodes.size = cb0 at hb
    cases hb with
    | plain hl _ _ _ => rw [hl, hszV']
    | closed cb G h1 _ _ _ _ _ => omega
  -- the side-effect token
  have hw : walkLoop stV'.nodes 5 none false (stV'.nodes.size + 1) 0 (some 0) (some 0) = .ok (some 0, some 0) := by
    unfold walkLoop
    rw [hnV2]
    simp [hV0, hVprio]
  have hq5 : priority Definition.sideEffect = some 5 := rfl
  obtain ⟨nodes', info, hpt⟩ := parseToken_bottom_ok (id := stV'.nodes.size) (right := some (stV'.nodes.size + 1)) hq5 hw
    (by rw [hnV2]; exact hV0) rfl
  obtain ⟨hinfo, hg⟩ := parseToken_bottom hq5 hw (by rw [hnV2]; exact hV0) rfl hpt
  have hsz' : nodes'.size = stV'.nodes.size := (parseToken_size_def hpt).1
  have hn0 : nodes'[0]? = some (setRight (some 1) V) := by
    rw [hg 0, if_pos rfl, hnV2, hV0, hszV]; rfl
  have hstep := step_sideOpen stV' none o ho hinvV'.hug hinvV'.adjust hinvV'.nnl hinvV'.comp_sideOpen
    (by rw [hllV']; exact hpt)
  have hprios' : AllPrio nodes' := by
    intro i nd hi
    cases i with
    | zero => rw [hn0] at hi; injection hi with hi; subst hi; exact ⟨10, hVprio⟩
    | succ k =>
      have : nodes'[k + 1]? = none := by apply Array.getElem?_eq_none; omega
      rw [this] at hi; cases hi
  obtain ⟨st2, E, re, S, hloop, hbelow, hS, hSd, hSp, hSl, hSr, hSt, htreeE, hinE, hszE, _, hgs2, hprev2, _, _, _, _, href⟩ :=
    side_body stV' o c nodes' info body wsA wsB hsz' (by rw [hinfo]) hinvV'.nnl hprios' hc hbody hwA hwB _ hnumB []
  rw [hszV'] at hbelow hS htreeE hinE hszE
  rw [hinfo] at hSp hSl
  -- the final tree
  have h20 : st2.nodes[0]? = some (setRight (some 1) V) := by rw [hbelow 0 (by omega)]; exact hn0
  have htree : IsTreeAt st2.nodes none (some 0) (.node .nil 0 v.col (.node .nil 1 o.col E)) := by
    refine isTreeAt_node (setRight (some 1) V) h20 rfl (.nil _) ?_ rfl
    show IsTreeAt st2.nodes (some 0) (some 1) _
    exact isTreeAt_node S hS hSp (by rw [hSl]; exact .nil _) (by rw [hSr]; exact htreeE) (by simp [tokPos, hSt])
  have hnd : (Tree.node .nil 0 v.col (.node .nil 1 o.col E)).inorder.Nodup := by
    simp only [Tree.inorder, List.nil_append]
    rw [List.nodup_cons]
    refine ⟨?_, nodup_cons_sorted 1 2 _ _ (by omega) hinE⟩
    intro hm
    rcases List.mem_cons.mp hm with e | e
    · omega
    · have := (hinE.2 0 e).1; omega
  obtain ⟨r, hr, ht, hn⟩ := finish_gen (st := st2) (by rw [hprev2]; exact comp_endSE _)
    (by rw [hgs2, hgsV2, hgsV]; rfl) htree hnd (by simp [Tree.inorder]) (by omega)
  have hud : underDef (aboveDef PState.init) (getDefinition v.type).1 = (getDefinition v.type).1 := by
    have : aboveDef PState.init = .drop := rfl
    rw [this]; unfold underDef; split <;> rfl
  refine ⟨r, E, ?_, ht, by rw [hn]; simp [dfOf, hS, hSd], by rw [hn]; simp [dfOf, h20, setRight, V, hud],
    by rw [hn]; exact href⟩
  unfold parse
  rw [htrim]
  simp only [Outcome.bind, List.isEmpty_cons, Bool.false_eq_true, if_false, loop]
  have he : (ws ++ (o :: (wsA ++ (body.toks ++ (wsB ++ [c]))))).isEmpty = false := by cases ws <;> simp
  rw [he, hV]
  simp only [Outcome.bind]
  have e1 : ws ++ (o :: (wsA ++ (body.toks ++ (wsB ++ [c])))) =
      ws ++ ((o :: (wsA ++ (body.toks ++ (wsB ++ [c])))) ++ []) := by simp
  rw [e1, hloopW]
  simp only [List.append_nil, loop]
  have he2 : (wsA ++ (body.toks ++ (wsB ++ [c]))).isEmpty = false := by cases wsA <;> simp [body.toks_ne]
  rw [he2, hstep]
  simp only [Outcome.bind]
  have := hloop
  simp only [List.append_nil, loop] at this
  rw [this]
  exact hr

end Garnish.Spec
