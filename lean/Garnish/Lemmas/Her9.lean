/-
`runOKOn4_of_balanced_noHcalls`: the static discharge of `RunOKG` without the call hypothesis.
-/
import Garnish.Lemmas.Her8
import Garnish.Lemmas.NoCustom10
set_option linter.unusedSimpArgs false
set_option linter.unusedVariables false
namespace Garnish.Lemmas.Her
open Garnish Gen Garnish.Abs Garnish.Model.Equality Garnish.Model.Runtime Garnish.Lemmas.Runtime
open Garnish.Lemmas.Runtime.On Garnish.Props.C06 Garnish.Lemmas.NoCustom

variable {F σ : Type} {fo : FloatOps F} {host : Host F} {S : RStore F σ} {Inv : σ → Prop} {P : Prog F}

theorem exprsKnown_reach (HE : HostExprsKnown P host) (hce : ConstsHer (exprQ P) P) {entries : List Nat}
    {s0 s : MState F} (h0 : ExprsKnown P s0) (hr : ReachK fo host P entries s0 s) : ExprsKnown P s := by
  induction hr with
  | refl => exact h0
  | snoc _ hs _ ih => exact step_exprsKnown HE hce ih (Or.inl hs)

/-- **static discharge without the call hypothesis**: `RunOKG (MachOKOn4 …)` for every run of a program the depth
analysis accepts, from custom-free / known constants and input, a host that answers with neither `custom` nor an unknown
`Expression`, and `DynOK` in the reachable states -/
theorem runOKOn4_of_balanced_noHcalls {entry : Nat} {d : Array (Option Nat)} (h : absDepth P entry = some d)
    (hentry : entry < P.instrs.size) (vals : List (Val F)) (tr : List (HostCall F)) (fuel : Nat)
    (HN : HostNoCustom host) (HE : HostExprsKnown P host) (hc : ConstsNC P) (hce : ConstsHer (exprQ P) P)
    (hv : ncL vals = true) (hve : herL (exprQ P) vals = true)
    (hdyn : ∀ s, ReachK fo host P (entry :: exprEntries P) ⟨entry, [], vals, [], tr⟩ s → ∀ i o,
      P.instrs[s.pc]? = some (i, o) → DynOK fo S Inv P fuel s i o)
    (n : Nat) : RunOKG fo (MachOKOn4 fo S Inv P fuel) host P n ⟨entry, [], vals, [], tr⟩ :=
  runOKOn4_of_balanced h hentry vals tr fuel HN hc hv hdyn
    (fun s s' hr hst hg =>
      hcalls_of_exprsKnown h hentry vals tr hr
        (exprsKnown_reach HE hce (s0 := ⟨entry, [], vals, [], tr⟩) ⟨rfl, hve, fun _ hf => by cases hf⟩ hr) hst hg) n

end Garnish.Lemmas.Her
