/-
Compile correctness, part (ii) vocabulary: the length of the main line of an expression, the predicate
`Located P pc e root cur` ("the main line of `e` sits at `pc` in the final program `P`, and each of its
out-of-line bodies is laid out somewhere with its jump entry patched and its terminator returning to the
join"), the well-formedness predicates that make up `WFProgram`, reachability of the flat machine, and one
execution lemma per instruction in the form the simulation proof uses.
-/
import Garnish.Abs.Compile
import Garnish.Props.C01
namespace Garnish.Abs
open Garnish Gen Garnish.Spec

variable {F : Type}

/-! ### length of the main line -/
mutual
def len : Expr F → Nat
  | .lit _ | .input | .ident _ | .nested _ | .emptyNested => 1
  | .unary _ x => len x + 1
  | .binary _ l r | .pair l r | .applyTo l r => len l + len r + 1
  | .list items => lenList items + 1
  | .cond _ c _ => len c + 2
  | .chain arms final => lenArms arms + (match final with
      | some e => len e
      | none => match arms with
        | [] => 1
        | _ :: _ => 0)
  | .and l _ | .or l _ => len l + 1
  | .seq a b => len a + 1 + len b
  | .sideAfter x b => len x + 1 + len b + 1
  | .reapply x => len x + 2
  | .prefixApply _ x | .suffixApply x _ => 1 + len x + 1
  | .infixApply a _ b => 1 + len a + len b + 2
def lenList : List (Expr F) → Nat
  | [] => 0
  | x :: xs => len x + lenList xs
def lenArms : List (Bool × Expr F × Expr F) → Nat
  | [] => 0
  | (_, c, _) :: rest => len c + 1 + lenArms rest
end

mutual
theorem len_pos : ∀ e : Expr F, 0 < len e
  | .lit _ | .input | .ident _ | .nested _ | .emptyNested => by simp [len]
  | .unary _ _ | .binary _ _ _ | .pair _ _ | .applyTo _ _ | .list _ | .cond _ _ _ | .and _ _ | .or _ _
  | .seq _ _ | .sideAfter _ _ | .reapply _ | .prefixApply _ _ | .suffixApply _ _ | .infixApply _ _ _ => by
    simp [len]; try omega
  | .chain [] none => by simp [len]
  | .chain [] (some e) => by have := len_pos e; simp [len, lenArms]; omega
  | .chain ((_, _, _) :: _) (some _) => by simp [len, lenArms]; omega
  | .chain ((_, _, _) :: _) none => by simp [len, lenArms]; omega
end

/-! ### located code -/

def InstrsAt (P : Prog F) : Nat → List Instr → Prop
  | _, [] => True
  | pc, t :: ts => P.instrs[pc]? = some t ∧ InstrsAt P (pc + 1) ts

/-- the terminators that follow a root whose code ends at `pcEnd`: all of them, except an `EndExpression`
equal to the root's own last instruction (`build`'s rule) -/
def termsAfter (P : Prog F) (pcEnd : Nat) (term : List Instr) : List Instr :=
  term.filter (fun t => !(decide (P.instrs[pcEnd - 1]? = some t) && decide (t.1 = .endExpression)))

mutual
/-- `root` is the jump entry of the root the code belongs to; since `{ }` names `cur` (repo commit df89d39) no clause
looks at it any more — it is kept so that the statements of the layout lemmas stay as they were -/
def Located (P : Prog F) (root cur : Nat) : Nat → Expr F → Prop
  | pc, .lit v => ∃ k, P.instrs[pc]? = some (.put, some k) ∧ P.consts[k]? = some v
  | pc, .input => P.instrs[pc]? = some (.putValue, none)
  | pc, .ident sym => ∃ k, P.instrs[pc]? = some (.resolve, some k) ∧ P.consts[k]? = some (.sym sym)
  | pc, .unary op x => Located P root cur pc x ∧ P.instrs[pc + len x]? = some (op, none)
  | pc, .binary op l r =>
    Located P root cur pc l ∧ Located P root cur (pc + len l) r ∧ P.instrs[pc + len l + len r]? = some (op, none)
  | pc, .pair l r =>
    Located P root cur pc r ∧ Located P root cur (pc + len r) l ∧ P.instrs[pc + len r + len l]? = some (.makePair, none)
  | pc, .applyTo x f =>
    Located P root cur pc f ∧ Located P root cur (pc + len f) x ∧ P.instrs[pc + len f + len x]? = some (.apply, none)
  | pc, .list items =>
    LocatedList P root cur pc items ∧ P.instrs[pc + lenList items]? = some (.makeList, some items.length)
  | pc, .cond onTrue c t =>
    Located P root cur pc c ∧ ∃ j join tb,
      P.instrs[pc + len c]? = some (jumpIf onTrue, some j) ∧ P.instrs[pc + len c + 1]? = some (.putValue, none) ∧
      P.jumps[j]? = some tb ∧ P.jumps[join]? = some (pc + len c + 2) ∧ join ≠ cur ∧
      Located P j cur tb t ∧ InstrsAt P (tb + len t) (termsAfter P (tb + len t) [(.jumpTo, some join)])
  | pc, .chain arms final =>
    ∃ join, LocatedArms P root cur join pc arms ∧
      (match final with
        | some e => Located P root cur (pc + lenArms arms) e
        | none => match arms with
          | [] => P.instrs[pc]? = some (.putValue, none)
          | _ :: _ => True) ∧
      (arms ≠ [] → P.jumps[join]? = some (pc + len (.chain arms final)) ∧ join ≠ cur)
  | pc, .and l r =>
    Located P root cur pc l ∧ ∃ j join tb,
      P.instrs[pc + len l]? = some (.and, some j) ∧
      P.jumps[j]? = some tb ∧ P.jumps[join]? = some (pc + len l + 1) ∧ join ≠ cur ∧
      Located P j cur tb r ∧ InstrsAt P (tb + len r) (termsAfter P (tb + len r) [(.tis, none), (.jumpTo, some join)])
  | pc, .or l r =>
    Located P root cur pc l ∧ ∃ j join tb,
      P.instrs[pc + len l]? = some (.or, some j) ∧
      P.jumps[j]? = some tb ∧ P.jumps[join]? = some (pc + len l + 1) ∧ join ≠ cur ∧
      Located P j cur tb r ∧ InstrsAt P (tb + len r) (termsAfter P (tb + len r) [(.tis, none), (.jumpTo, some join)])
  | pc, .seq a b =>
    Located P root cur pc a ∧ P.instrs[pc + len a]? = some (.updateValue, none) ∧ Located P root cur (pc + len a + 1) b
  | pc, .sideAfter x b =>
    Located P root cur pc x ∧ P.instrs[pc + len x]? = some (.startSideEffect, none) ∧
    Located P root cur (pc + len x + 1) b ∧ P.instrs[pc + len x + 1 + len b]? = some (.endSideEffect, none)
  | pc, .nested id => ∃ k, P.instrs[pc]? = some (.put, some k) ∧ P.consts[k]? = some (.expr id)
  | pc, .emptyNested => ∃ k, P.instrs[pc]? = some (.put, some k) ∧ P.consts[k]? = some (.expr cur)
  | pc, .reapply x =>
    Located P root cur pc x ∧ P.instrs[pc + len x]? = some (.updateValue, none) ∧
    P.instrs[pc + len x + 1]? = some (.jumpTo, some cur)
  | pc, .prefixApply sym x =>
    (∃ k, P.instrs[pc]? = some (.resolve, some k) ∧ P.consts[k]? = some (.sym sym)) ∧
    Located P root cur (pc + 1) x ∧ P.instrs[pc + 1 + len x]? = some (.apply, none)
  | pc, .suffixApply x sym =>
    (∃ k, P.instrs[pc]? = some (.resolve, some k) ∧ P.consts[k]? = some (.sym sym)) ∧
    Located P root cur (pc + 1) x ∧ P.instrs[pc + 1 + len x]? = some (.apply, none)
  | pc, .infixApply a sym b =>
    (∃ k, P.instrs[pc]? = some (.resolve, some k) ∧ P.consts[k]? = some (.sym sym)) ∧
    Located P root cur (pc + 1) a ∧ Located P root cur (pc + 1 + len a) b ∧
    P.instrs[pc + 1 + len a + len b]? = some (.makeList, some 2) ∧
    P.instrs[pc + 1 + len a + len b + 1]? = some (.apply, none)
def LocatedList (P : Prog F) (root cur : Nat) : Nat → List (Expr F) → Prop
  | _, [] => True
  | pc, x :: xs => Located P root cur pc x ∧ LocatedList P root cur (pc + len x) xs
/-- the conditions of the arms of an else-chain with their `JumpIf`s, the arm bodies out of line, each
returning to `join` -/
def LocatedArms (P : Prog F) (root cur join : Nat) : Nat → List (Bool × Expr F × Expr F) → Prop
  | _, [] => True
  | pc, (onTrue, c, t) :: rest =>
    Located P root cur pc c ∧ (∃ j tb,
      P.instrs[pc + len c]? = some (jumpIf onTrue, some j) ∧ P.jumps[j]? = some tb ∧
      Located P j cur tb t ∧ InstrsAt P (tb + len t) (termsAfter P (tb + len t) [(.jumpTo, some join)])) ∧
    LocatedArms P root cur join (pc + len c + 1) rest
end

/-! ### well-formedness of expressions (the exclusions of `WFProgram`) -/

/-- unary operators of the language (prefix/suffix operators and `~~`) -/
def unOK : Instruction → Bool
  | .opposite | .absoluteValue | .bitwiseNot | .not | .tis | .typeOf | .accessLeftInternal
  | .accessRightInternal | .accessLengthInternal | .emptyApply => true
  | _ => false

/-- binary operators of the language whose operands are evaluated left first (`=` and `~>` have their own
constructors) -/
def binOK : Instruction → Bool
  | .add | .subtract | .multiply | .divide | .integerDivide | .power | .remainder
  | .bitwiseAnd | .bitwiseOr | .bitwiseXor | .bitwiseShiftLeft | .bitwiseShiftRight
  | .xor | .typeEqual | .equal | .notEqual | .lessThan | .lessThanOrEqual | .greaterThan | .greaterThanOrEqual
  | .access | .makeRange | .makeStartExclusiveRange | .makeEndExclusiveRange | .makeExclusiveRange
  | .concat | .partialApply | .apply | .applyType => true
  | _ => false

mutual
/-- no `^~` that can restart the body `e` belongs to (`{}` bodies are separate bodies) -/
def noR : Expr F → Bool
  | .lit _ | .input | .ident _ | .nested _ | .emptyNested => true
  | .reapply _ => false
  | .unary _ x | .prefixApply _ x | .suffixApply x _ => noR x
  | .binary _ l r | .pair l r | .applyTo l r | .cond _ l r | .and l r | .or l r | .seq l r
  | .sideAfter l r | .infixApply l _ r => noR l && noR r
  | .list items => noRList items
  | .chain arms final => noRArms arms && (match final with | some e => noR e | none => true)
def noRList : List (Expr F) → Bool
  | [] => true
  | x :: xs => noR x && noRList xs
def noRArms : List (Bool × Expr F × Expr F) → Bool
  | [] => true
  | (_, c, t) :: rest => noR c && noR t && noRArms rest
end

mutual
/-- `^~` only where no operand of an enclosing operator is pending: the tail of a body, of a conditional
arm, of the right operand of `&&`/`||` -/
def tailR : Expr F → Bool
  | .reapply x => noR x
  | .seq a b => noR a && tailR b
  | .cond _ c t => noR c && tailR t
  | .and l r | .or l r => noR l && tailR r
  | .chain arms final => tailRArms arms && (match final with | some e => tailR e | none => true)
  | e => noR e
def tailRArms : List (Bool × Expr F × Expr F) → Bool
  | [] => true
  | (_, c, t) :: rest => noR c && tailR t && tailRArms rest
end

mutual
/-- no `{ }` (empty nested expression); no longer part of `wfE` (the builder oddity it excluded is repaired), kept for
the statements that still mention it -/
def enFree : Expr F → Bool
  | .emptyNested => false
  | .lit _ | .input | .ident _ | .nested _ => true
  | .unary _ x | .prefixApply _ x | .suffixApply x _ | .reapply x => enFree x
  | .binary _ l r | .pair l r | .applyTo l r | .cond _ l r | .and l r | .or l r | .seq l r
  | .sideAfter l r | .infixApply l _ r => enFree l && enFree r
  | .list items => enFreeList items
  | .chain arms final => enFreeArms arms && (match final with | some e => enFree e | none => true)
def enFreeList : List (Expr F) → Bool
  | [] => true
  | x :: xs => enFree x && enFreeList xs
def enFreeArms : List (Bool × Expr F × Expr F) → Bool
  | [] => true
  | (_, c, t) :: rest => enFree c && enFree t && enFreeArms rest
end

mutual
/-- expressions the language can produce and on which `build` and the meaning of the source agree -/
def wfE : Expr F → Bool
  -- a literal is a number, text, symbol, …: never an expression value (those come from `{}` only)
  | .lit (.expr _) => false
  | .lit _ | .input | .ident _ | .nested _ | .emptyNested => true
  | .unary op x => unOK op && wfE x
  | .binary op l r => binOK op && wfE l && wfE r
  | .pair l r | .applyTo l r | .seq l r | .infixApply l _ r => wfE l && wfE r
  | .reapply x | .prefixApply _ x | .suffixApply x _ => wfE x
  | .list items => wfEList items
  | .cond _ c t => wfE c && wfE t
  | .and l r | .or l r => wfE l && wfE r
  -- an else-chain has a final (non-conditional) arm: without one no value is pushed when no arm matches (finding #6)
  | .chain arms final => wfEArms arms && (match final with | some e => wfE e | none => false)
  -- a restart from inside a side-effect block would leave the block's copy of `$` on the value stack
  | .sideAfter x b => wfE x && wfE b && noR b
def wfEList : List (Expr F) → Bool
  | [] => true
  | x :: xs => wfE x && wfEList xs
def wfEArms : List (Bool × Expr F × Expr F) → Bool
  | [] => true
  | (_, c, t) :: rest => wfE c && wfE t && wfEArms rest
end

mutual
/-- `wfE` without the requirement that an else-chain has its final arm: the shapes on which `build` and the STRICT
evaluator (Lemmas/CompileStrict.lean: reaching a missing fall-through is an error) agree -/
def wfC : Expr F → Bool
  | .lit (.expr _) => false
  | .lit _ | .input | .ident _ | .nested _ | .emptyNested => true
  | .unary op x => unOK op && wfC x
  | .binary op l r => binOK op && wfC l && wfC r
  | .pair l r | .applyTo l r | .seq l r | .infixApply l _ r => wfC l && wfC r
  | .reapply x | .prefixApply _ x | .suffixApply x _ => wfC x
  | .list items => wfCList items
  | .cond _ c t => wfC c && wfC t
  | .and l r | .or l r => wfC l && wfC r
  | .chain arms final => wfCArms arms && (match final with | some e => wfC e | none => true)
  | .sideAfter x b => wfC x && wfC b && noR b
def wfCList : List (Expr F) → Bool
  | [] => true
  | x :: xs => wfC x && wfCList xs
def wfCArms : List (Bool × Expr F × Expr F) → Bool
  | [] => true
  | (_, c, t) :: rest => wfC c && wfC t && wfCArms rest
end

/-! ### unfolding lemmas for the else-chain (its equations are split by the shape of the final arm) -/

theorem len_chain (arms : List (Bool × Expr F × Expr F)) (final : Option (Expr F)) :
    len (.chain arms final) = lenArms arms + (match final with
      | some e => len e
      | none => match arms with
        | [] => 1
        | _ :: _ => 0) := by rw [len.eq_def]
theorem noR_chain (arms : List (Bool × Expr F × Expr F)) (final : Option (Expr F)) :
    noR (.chain arms final) = (noRArms arms && (match final with | some e => noR e | none => true)) := by
  rw [noR.eq_def]
theorem tailR_chain (arms : List (Bool × Expr F × Expr F)) (final : Option (Expr F)) :
    tailR (.chain arms final) = (tailRArms arms && (match final with | some e => tailR e | none => true)) := by
  rw [tailR.eq_def]
theorem enFree_chain (arms : List (Bool × Expr F × Expr F)) (final : Option (Expr F)) :
    enFree (.chain arms final) = (enFreeArms arms && (match final with | some e => enFree e | none => true)) := by
  rw [enFree.eq_def]
theorem wfE_chain (arms : List (Bool × Expr F × Expr F)) (final : Option (Expr F)) :
    wfE (.chain arms final) = (wfEArms arms && (match final with | some e => wfE e | none => false)) := by
  rw [wfE.eq_def]
theorem wfC_chain (arms : List (Bool × Expr F × Expr F)) (final : Option (Expr F)) :
    wfC (.chain arms final) = (wfCArms arms && (match final with | some e => wfC e | none => true)) := by
  rw [wfC.eq_def]
theorem Located_chain (P : Prog F) (root cur pc : Nat) (arms : List (Bool × Expr F × Expr F)) (final : Option (Expr F)) :
    Located P root cur pc (.chain arms final) =
    ∃ join, LocatedArms P root cur join pc arms ∧
      (match final with
        | some e => Located P root cur (pc + lenArms arms) e
        | none => match arms with
          | [] => P.instrs[pc]? = some (.putValue, none)
          | _ :: _ => True) ∧
      (arms ≠ [] → P.jumps[join]? = some (pc + len (.chain arms final)) ∧ join ≠ cur) := by
  rw [Located.eq_def]

mutual
theorem wfE_wfC : ∀ (e : Expr F), wfE e = true → wfC e = true
  | .lit v, h => by cases v <;> simp_all [wfE, wfC]
  | .input, _ | .ident _, _ | .nested _, _ | .emptyNested, _ => by simp [wfC]
  | .unary _ x, h | .reapply x, h | .prefixApply _ x, h | .suffixApply x _, h => by
    simp only [wfE, wfC, Bool.and_eq_true] at h ⊢
    first | exact wfE_wfC x h | exact ⟨h.1, wfE_wfC x h.2⟩
  | .binary _ l r, h => by
    simp only [wfE, wfC, Bool.and_eq_true] at h ⊢
    exact ⟨⟨h.1.1, wfE_wfC l h.1.2⟩, wfE_wfC r h.2⟩
  | .pair l r, h | .applyTo l r, h | .seq l r, h | .infixApply l _ r, h => by
    simp only [wfE, wfC, Bool.and_eq_true] at h ⊢
    exact ⟨wfE_wfC l h.1, wfE_wfC r h.2⟩
  | .cond _ l r, h | .and l r, h | .or l r, h => by
    simp only [wfE, wfC, Bool.and_eq_true] at h ⊢
    exact ⟨wfE_wfC l h.1, wfE_wfC r h.2⟩
  | .sideAfter l r, h => by
    simp only [wfE, wfC, Bool.and_eq_true] at h ⊢
    exact ⟨⟨wfE_wfC l h.1.1, wfE_wfC r h.1.2⟩, h.2⟩
  | .list items, h => by
    simp only [wfE, wfC] at h ⊢
    exact wfEList_wfC items h
  | .chain arms none, h => by simp [wfE_chain] at h
  | .chain arms (some e), h => by
    simp only [wfE_chain, wfC_chain, Bool.and_eq_true] at h ⊢
    exact ⟨wfEArms_wfC arms h.1, wfE_wfC e h.2⟩
theorem wfEList_wfC : ∀ (l : List (Expr F)), wfEList l = true → wfCList l = true
  | [], _ => rfl
  | x :: xs, h => by
    simp only [wfEList, wfCList, Bool.and_eq_true] at h ⊢
    exact ⟨wfE_wfC x h.1, wfEList_wfC xs h.2⟩
theorem wfEArms_wfC : ∀ (l : List (Bool × Expr F × Expr F)), wfEArms l = true → wfCArms l = true
  | [], _ => rfl
  | (_, c, t) :: rest, h => by
    simp only [wfEArms, wfCArms, Bool.and_eq_true] at h ⊢
    exact ⟨⟨wfE_wfC c h.1.1, wfE_wfC t h.1.2⟩, wfEArms_wfC rest h.2⟩
end

/-! ### reachability of the flat machine -/

variable (fo : FloatOps F) (host : Host F)

inductive Reach (P : Prog F) : MState F → MState F → Prop where
  | refl (s : MState F) : Reach P s s
  | next {s s' s'' : MState F} : step fo host P s = .running s' → Reach P s' s'' → Reach P s s''

variable {fo host}

theorem Reach.trans {P : Prog F} {a b c : MState F} (h1 : Reach fo host P a b) (h2 : Reach fo host P b c) :
    Reach fo host P a c := by
  induction h1 with
  | refl => exact h2
  | next hs _ ih => exact .next hs (ih h2)

theorem Reach.single {P : Prog F} {a b : MState F} (h : step fo host P a = .running b) : Reach fo host P a b :=
  .next h (.refl _)

theorem Reach.snoc {P : Prog F} {a b c : MState F} (h1 : Reach fo host P a b) (h : step fo host P b = .running c) :
    Reach fo host P a c := h1.trans (.single h)

/-- reaching a state whose next step halts is a halting run -/
theorem Reach.run_halts {P : Prog F} {a b h : MState F} (h1 : Reach fo host P a b) (hh : step fo host P b = .halted h) :
    ∃ n, run fo host P n a = (.halted h, n) := by
  induction h1 with
  | refl s => exact ⟨1, by simp [run, hh]⟩
  | next hs _ ih =>
    obtain ⟨n, hn⟩ := ih hh
    exact ⟨n + 1, by simp [run, hs, hn]⟩

/-! ### one step, instruction by instruction -/
section steps
variable {P : Prog F} {pc : Nat} {rs vs : List (Val F)} {fr : List (Frame F)} {tr : List (HostCall F)}

theorem step_put {k : Nat} {v : Val F} (hi : P.instrs[pc]? = some (.put, some k)) (hc : P.consts[k]? = some v)
    (hlt : pc + 1 < P.instrs.size) :
    step fo host P ⟨pc, rs, vs, fr, tr⟩ = .running ⟨pc + 1, v :: rs, vs, fr, tr⟩ := by
  have : ¬ (P.instrs.size ≤ pc + 1) := by omega
  simp [step, hi, hc, seqNext, finish, this]

theorem step_putValue {x : Val F} (hi : P.instrs[pc]? = some (.putValue, none)) (hlt : pc + 1 < P.instrs.size) :
    step fo host P ⟨pc, rs, x :: vs, fr, tr⟩ = .running ⟨pc + 1, x :: rs, x :: vs, fr, tr⟩ := by
  have : ¬ (P.instrs.size ≤ pc + 1) := by omega
  simp [step, hi, seqNext, finish, this]

theorem step_resolve {k sym : Nat} {x v : Val F} {st st' : St F}
    (hi : P.instrs[pc]? = some (.resolve, some k)) (hc : P.consts[k]? = some (.sym sym))
    (hlt : pc + 1 < P.instrs.size) (hin : st.inp = x) (htr : st.trace = tr)
    (hr : resolveVal fo host st sym = .ok (v, st')) :
    step fo host P ⟨pc, rs, x :: vs, fr, tr⟩ = .running ⟨pc + 1, v :: rs, x :: vs, fr, st'.trace⟩ := by
  have : ¬ (P.instrs.size ≤ pc + 1) := by omega
  have h := Props.C01.C01_resolve_agrees fo host ⟨pc, rs, x :: vs, fr, tr⟩ st sym x vs rfl hin htr
  rw [hr] at h
  simp only at h
  simp [step, hi, hc, h, seqNext, finish, this]

theorem pushOut_of_settle {s : MState F} {st st' : St F} {o : OpOut F} {v : Val F}
    (htr : st.trace = s.trace) (h : settle host st o = .ok (v, st')) :
    pushOut host s o = .ok { s with regs := v :: s.regs, trace := st'.trace } :=
  Props.C01.C01_settle_is_pushOut host s st o v st' htr h

theorem settle_inp {st st' : St F} {o : OpOut F} {v : Val F} (h : settle host st o = .ok (v, st')) : st'.inp = st.inp := by
  cases o with
  | val x => simp [settle] at h; obtain ⟨_, rfl⟩ := h; rfl
  | defer op l r =>
    simp only [settle] at h
    cases hd : host.defer op l r <;> simp [hd] at h <;> obtain ⟨_, rfl⟩ := h <;> rfl
  | err e => simp [settle] at h

theorem resolveVal_inp {st st' : St F} {sym : Nat} {v : Val F} (h : resolveVal fo host st sym = .ok (v, st')) :
    st'.inp = st.inp := by
  simp only [resolveVal] at h
  split at h
  · simp at h
  · simp at h
  · simp at h; obtain ⟨_, rfl⟩ := h; rfl
  · cases hh : host.resolve sym <;> simp [hh] at h <;> obtain ⟨_, rfl⟩ := h <;> rfl

theorem step_unary {op : Instruction} {x v : Val F} {o : OpOut F} {st st' : St F}
    (hi : P.instrs[pc]? = some (op, none)) (hlt : pc + 1 < P.instrs.size)
    (hu : unaryOp fo op x = some o) (htr : st.trace = tr) (hs : settle host st o = .ok (v, st')) :
    step fo host P ⟨pc, x :: rs, vs, fr, tr⟩ = .running ⟨pc + 1, v :: rs, vs, fr, st'.trace⟩ := by
  have hlt' : ¬ (P.instrs.size ≤ pc + 1) := by omega
  have hp := pushOut_of_settle (host := host) (s := ⟨pc, rs, vs, fr, tr⟩) htr hs
  cases op <;> first
    | (simp [unaryOp] at hu; done)
    | (simp only [step, hi, hu]; simp [hp, seqNext, finish, hlt'])

theorem unary_none_of_binary {op : Instruction} {l r x : Val F} {o : OpOut F} (hb : binaryOp fo op l r = some o) :
    unaryOp fo op x = none := by
  cases op <;> simp [binaryOp] at hb <;> simp [unaryOp]

theorem step_binary {op : Instruction} {l r v : Val F} {o : OpOut F} {st st' : St F}
    (hi : P.instrs[pc]? = some (op, none)) (hlt : pc + 1 < P.instrs.size)
    (hb : binaryOp fo op l r = some o) (hop : op ≠ .apply) (hmp : op ≠ .makePair)
    (htr : st.trace = tr) (hs : settle host st o = .ok (v, st')) :
    step fo host P ⟨pc, r :: l :: rs, vs, fr, tr⟩ = .running ⟨pc + 1, v :: rs, vs, fr, st'.trace⟩ := by
  have hlt' : ¬ (P.instrs.size ≤ pc + 1) := by omega
  have hat : op ≠ .applyType := by intro h; subst h; simp [binaryOp] at hb
  have h := Props.C01.C01_binary fo host P ⟨pc, r :: l :: rs, vs, fr, tr⟩ op none l r rs o hi rfl
    (unary_none_of_binary hb) hb ⟨hop, hmp, hat⟩
  have hp := pushOut_of_settle (host := host) (s := ⟨pc, rs, vs, fr, tr⟩) htr hs
  rw [h]
  simp [hp, seqNext, finish, hlt']

theorem step_makePair {l r : Val F} (hi : P.instrs[pc]? = some (.makePair, none)) (hlt : pc + 1 < P.instrs.size) :
    step fo host P ⟨pc, l :: r :: rs, vs, fr, tr⟩ = .running ⟨pc + 1, .pair l r :: rs, vs, fr, tr⟩ := by
  have : ¬ (P.instrs.size ≤ pc + 1) := by omega
  simp [step, hi, seqNext, finish, this]

theorem step_makeList {n : Nat} {regs : List (Val F)} (hi : P.instrs[pc]? = some (.makeList, some n))
    (hlt : pc + 1 < P.instrs.size) (hn : n ≤ regs.length) :
    step fo host P ⟨pc, regs, vs, fr, tr⟩ =
      .running ⟨pc + 1, .list (regs.take n).reverse :: regs.drop n, vs, fr, tr⟩ := by
  have : ¬ (P.instrs.size ≤ pc + 1) := by omega
  have h2 : ¬ (regs.length < n) := by omega
  simp [step, hi, seqNext, finish, this, h2]

theorem step_updateValue {r x : Val F} (hi : P.instrs[pc]? = some (.updateValue, none)) (hlt : pc + 1 < P.instrs.size) :
    step fo host P ⟨pc, r :: rs, x :: vs, fr, tr⟩ = .running ⟨pc + 1, rs, r :: vs, fr, tr⟩ := by
  have : ¬ (P.instrs.size ≤ pc + 1) := by omega
  simp [step, hi, seqNext, finish, this]

theorem step_startSideEffect {x : Val F} (hi : P.instrs[pc]? = some (.startSideEffect, none)) (hlt : pc + 1 < P.instrs.size) :
    step fo host P ⟨pc, rs, x :: vs, fr, tr⟩ = .running ⟨pc + 1, rs, x :: x :: vs, fr, tr⟩ := by
  have : ¬ (P.instrs.size ≤ pc + 1) := by omega
  simp [step, hi, seqNext, finish, this]

theorem step_endSideEffect {r x : Val F} (hi : P.instrs[pc]? = some (.endSideEffect, none)) (hlt : pc + 1 < P.instrs.size) :
    step fo host P ⟨pc, r :: rs, x :: vs, fr, tr⟩ = .running ⟨pc + 1, rs, vs, fr, tr⟩ := by
  have : ¬ (P.instrs.size ≤ pc + 1) := by omega
  simp [step, hi, seqNext, finish, this]

theorem step_jumpTo {j t : Nat} (hi : P.instrs[pc]? = some (.jumpTo, some j)) (hj : P.jumps[j]? = some t)
    (hlt : t < P.instrs.size) :
    step fo host P ⟨pc, rs, vs, fr, tr⟩ = .running ⟨t, rs, vs, fr, tr⟩ := by
  have : ¬ (P.instrs.size ≤ t) := by omega
  simp [step, hi, jumpTarget, hj, Except.map, finish, this]

theorem step_jumpIf {onTrue : Bool} {j t : Nat} {d : Val F} (hi : P.instrs[pc]? = some (jumpIf onTrue, some j))
    (hj : P.jumps[j]? = some t) (hlt : t < P.instrs.size) (hlt2 : pc + 1 < P.instrs.size) :
    step fo host P ⟨pc, d :: rs, vs, fr, tr⟩ =
      .running ⟨if d.truthy == onTrue then t else pc + 1, rs, vs, fr, tr⟩ := by
  have h1 : ¬ (P.instrs.size ≤ t) := by omega
  have h2 : ¬ (P.instrs.size ≤ pc + 1) := by omega
  cases onTrue <;> cases hd : d.truthy <;> simp [jumpIf] at hi <;> simp [step, hi, jumpTarget, hj, finish, hd, h1, h2]

theorem step_and {j t : Nat} {d : Val F} (hi : P.instrs[pc]? = some (.and, some j))
    (hj : P.jumps[j]? = some t) (hlt : t < P.instrs.size) (hlt2 : pc + 1 < P.instrs.size) :
    step fo host P ⟨pc, d :: rs, vs, fr, tr⟩ =
      (if d.truthy then .running ⟨t, rs, vs, fr, tr⟩ else .running ⟨pc + 1, .fls :: rs, vs, fr, tr⟩) := by
  have h1 : ¬ (P.instrs.size ≤ t) := by omega
  have h2 : ¬ (P.instrs.size ≤ pc + 1) := by omega
  cases hd : d.truthy <;> simp [step, hi, jumpTarget, hj, finish, seqNext, Except.map, hd, h1, h2]

theorem step_or {j t : Nat} {d : Val F} (hi : P.instrs[pc]? = some (.or, some j))
    (hj : P.jumps[j]? = some t) (hlt : t < P.instrs.size) (hlt2 : pc + 1 < P.instrs.size) :
    step fo host P ⟨pc, d :: rs, vs, fr, tr⟩ =
      (if d.truthy then .running ⟨pc + 1, .tru :: rs, vs, fr, tr⟩ else .running ⟨t, rs, vs, fr, tr⟩) := by
  have h1 : ¬ (P.instrs.size ≤ t) := by omega
  have h2 : ¬ (P.instrs.size ≤ pc + 1) := by omega
  cases hd : d.truthy <;> simp [step, hi, jumpTarget, hj, finish, seqNext, Except.map, hd, h1, h2]

theorem step_endExpression_return {r : Val F} {x : Val F} {ret : Nat} {saved : List (Val F)}
    (hi : P.instrs[pc]? = some (.endExpression, none)) (hlt : ret < P.instrs.size) :
    step fo host P ⟨pc, r :: rs, x :: vs, ⟨ret, saved⟩ :: fr, tr⟩ = .running ⟨ret, r :: saved, vs, fr, tr⟩ := by
  have : ¬ (P.instrs.size ≤ ret) := by omega
  simp [step, hi, finish, this]

theorem step_endExpression_halt {r x : Val F}
    (hi : P.instrs[pc]? = some (.endExpression, none)) :
    step fo host P ⟨pc, r :: rs, x :: vs, [], tr⟩ = .halted ⟨P.instrs.size, rs, r :: vs, [], tr⟩ := by
  simp [step, hi]

theorem step_apply {l r : Val F} (hi : P.instrs[pc]? = some (.apply, none)) :
    step fo host P ⟨pc, r :: l :: rs, vs, fr, tr⟩ =
      finish P (applyStep fo host P ⟨pc, rs, vs, fr, tr⟩ .apply true l r) := by
  simp [step, hi]

theorem step_emptyApply {l : Val F} (hi : P.instrs[pc]? = some (.emptyApply, none)) :
    step fo host P ⟨pc, l :: rs, vs, fr, tr⟩ =
      finish P (applyStep fo host P ⟨pc, rs, vs, fr, tr⟩ .emptyApply false l .unit) := by
  simp [step, hi]

end steps

end Garnish.Abs
