/-
`refParseB` is a conservative extension of `refParse`: on token lists without `[` / `]` tokens the two agree
(`refParseB_conservative`).
-/
import Garnish.Spec.RefParseB
import Garnish.Lemmas.ParseSupport3
import Garnish.Lemmas.RefParseShift

namespace Garnish.Spec
open Garnish Garnish.Gen Garnish.Model.Parser Garnish.Abs.Source

/-- the token is not a side-effect bracket -/
def noBlockTok (t : PToken) : Bool := !(t.type == .startSideEffect || t.type == .endSideEffect)

theorem noBlock_sec {t : PToken} (h : noBlockTok t = true) :
    (getDefinition t.type).2 ≠ .startSideEffect ∧ (getDefinition t.type).2 ≠ .endSideEffect := by
  unfold noBlockTok at h
  revert h
  cases t.type <;> simp [getDefinition]

theorem refStepB_noblock {t : PToken} (h : noBlockTok t = true) (s : BSt) (hp : s.pend = none) (pos : Nat)
    (rest : List PToken) :
    refStepB Table.gen s pos t rest = liftStep s none (refStep Table.gen s.f s.stack pos t rest) := by
  obtain ⟨h1, h2⟩ := noBlock_sec h
  unfold refStepB
  have hd : Table.gen.define t.type = getDefinition t.type := rfl
  rw [hd]
  generalize getDefinition t.type = ds at h1 h2
  obtain ⟨d, sd⟩ := ds
  simp only at h1 h2 ⊢
  cases sd <;> first | exact absurd rfl h1 | exact absurd rfl h2 | simp only [hp]

theorem refLoopB_noblock : ∀ (toks : List PToken) (s : BSt) (pos : Nat), s.pend = none →
    (∀ t ∈ toks, noBlockTok t = true) →
    refLoopB Table.gen s pos toks = (refLoop Table.gen s.f s.stack pos toks).mapT unB
  | [], s, pos, hp, _ => by
    unfold refLoopB refLoop
    simp only [hp, Option.isNone_none, Bool.true_and]
    split
    · rfl
    · split <;> rfl
  | t :: rest, s, pos, hp, h => by
    unfold refLoopB refLoop
    rw [refStepB_noblock (h t (List.mem_cons_self ..)) s hp]
    cases hs : refStep Table.gen s.f s.stack pos t rest with
    | ok fs =>
      obtain ⟨f', stack'⟩ := fs
      simp only [liftStep, Outcome.bind]
      exact refLoopB_noblock rest _ (pos + 1) rfl (fun x hx => h x (List.mem_cons_of_mem _ hx))
    | err _ => rfl
    | panic _ => rfl
    | fuelOut => rfl

/-- a tree whose nodes all sit on tokens that are not `[` contains no block node -/
theorem unB_id {toks : List PToken} (hn : ∀ t ∈ toks, noBlockTok t = true) :
    ∀ t : RTree, TreeOK toks t → unB t = t
  | .nil, _ => rfl
  | .node l d k r, h => by
    simp only [unB]
    rw [unB_id hn l (fun a b hm => h a b (nodeDefs_left l d k r hm)),
      unB_id hn r (fun a b hm => h a b (nodeDefs_right l d k r hm))]
  | .group d k i, h => by
    simp only [unB]
    have hd : (d == Definition.sideEffect) = false := by
      cases hd : d == Definition.sideEffect with
      | false => rfl
      | true =>
        have hde : d = .sideEffect := by simpa using hd
        subst hde
        rcases h .sideEffect k (by simp [nodeDefs]) with e | ⟨tok, htok, e⟩
        · cases e
        · have hm : tok ∈ toks := List.mem_of_getElem? htok
          have := hn tok hm
          unfold noBlockTok at this
          rcases e with e | ⟨e, _⟩
          · revert this e; cases tok.type <;> simp [getDefinition]
          · cases e
    rw [hd]
    simp only [Bool.false_eq_true, if_false]
    rw [unB_id hn i (fun a b hm => h a b (nodeDefs_inner d k i hm))]

/-- **conservative extension** -/
theorem refParseB_conservative (toks : List PToken) (hn : ∀ t ∈ toks, noBlockTok t = true) :
    refParseB Table.gen toks = refParse Table.gen toks := by
  have key : refParseB Table.gen toks = (refParse Table.gen toks).mapT unB := by
    unfold refParseB refParse
    simp only
    split
    · rfl
    · exact refLoopB_noblock _ BSt.top _ rfl
        (fun t ht => hn t (List.mem_of_mem_drop (List.mem_of_mem_take ht)))
  rw [key]
  cases hr : refParse Table.gen toks with
  | ok rt => simp only [Outcome.mapT]; rw [unB_id hn rt (refParse_nodes toks rt hr)]
  | err _ => rfl
  | panic _ => rfl
  | fuelOut => rfl

end Garnish.Spec
