/-
Renaming the body ids does not change the shape predicates (`noR`, `tailR`, `enFree`, `wfE`), the sizes, or which
bodies the table has.
-/
import Garnish.Lemmas.CompileShift
namespace Garnish.Abs
open Garnish Gen Garnish.Spec

variable {F : Type} (ρ : Nat → Nat)

mutual
theorem noR_rl : ∀ (e : Expr F), noR (rlE ρ e) = noR e
  | .lit _ | .input | .ident _ | .nested _ | .emptyNested => by simp [rlE, noR]
  | .reapply _ => by simp [rlE, noR]
  | .unary _ x | .prefixApply _ x | .suffixApply x _ => by simp [rlE, noR, noR_rl x]
  | .binary _ l r | .pair l r | .applyTo l r | .cond _ l r | .and l r | .or l r | .seq l r
  | .sideAfter l r | .infixApply l _ r => by simp [rlE, noR, noR_rl l, noR_rl r]
  | .list items => by simp [rlE, noR, noRList_rl items]
  | .chain arms none => by simp [rlE, noR_chain, noRArms_rl arms]
  | .chain arms (some e) => by simp [rlE, noR_chain, noRArms_rl arms, noR_rl e]
theorem noRList_rl : ∀ (l : List (Expr F)), noRList (rlEs ρ l) = noRList l
  | [] => by simp [rlEs]
  | x :: xs => by simp [rlEs, noRList, noR_rl x, noRList_rl xs]
theorem noRArms_rl : ∀ (l : List (Bool × Expr F × Expr F)), noRArms (rlArms ρ l) = noRArms l
  | [] => by simp [rlArms]
  | (_, c, t) :: rest => by simp [rlArms, noRArms, noR_rl c, noR_rl t, noRArms_rl rest]
end

mutual
theorem tailR_rl : ∀ (e : Expr F), tailR (rlE ρ e) = tailR e
  | .reapply x => by simp [rlE, tailR, noR_rl]
  | .seq a b => by simp [rlE, tailR, noR_rl, tailR_rl b]
  | .cond _ c t => by simp [rlE, tailR, noR_rl, tailR_rl t]
  | .and l r | .or l r => by simp [rlE, tailR, noR_rl, tailR_rl r]
  | .chain arms none => by simp [rlE, tailR_chain, tailRArms_rl arms]
  | .chain arms (some e) => by simp [rlE, tailR_chain, tailRArms_rl arms, tailR_rl e]
  | .lit v => by simp [rlE, tailR, noR]
  | .input | .ident _ | .nested _ | .emptyNested => by simp [rlE, tailR, noR]
  | .unary op x => by have := noR_rl ρ (.unary op x); simpa [rlE, tailR] using this
  | .prefixApply sy x => by have := noR_rl ρ (.prefixApply sy x); simpa [rlE, tailR] using this
  | .suffixApply x sy => by have := noR_rl ρ (.suffixApply x sy); simpa [rlE, tailR] using this
  | .binary op l r => by have := noR_rl ρ (.binary op l r); simpa [rlE, tailR] using this
  | .pair l r => by have := noR_rl ρ (.pair l r); simpa [rlE, tailR] using this
  | .applyTo l r => by have := noR_rl ρ (.applyTo l r); simpa [rlE, tailR] using this
  | .sideAfter l r => by have := noR_rl ρ (.sideAfter l r); simpa [rlE, tailR] using this
  | .infixApply l sy r => by have := noR_rl ρ (.infixApply l sy r); simpa [rlE, tailR] using this
  | .list items => by have := noR_rl ρ (.list items); simpa [rlE, tailR] using this
theorem tailRArms_rl : ∀ (l : List (Bool × Expr F × Expr F)), tailRArms (rlArms ρ l) = tailRArms l
  | [] => by simp [rlArms]
  | (_, c, t) :: rest => by simp [rlArms, tailRArms, noR_rl, tailR_rl t, tailRArms_rl rest]
end

mutual
theorem enFree_rl : ∀ (e : Expr F), enFree (rlE ρ e) = enFree e
  | .lit _ | .input | .ident _ | .nested _ | .emptyNested => by simp [rlE, enFree]
  | .unary _ x | .prefixApply _ x | .suffixApply x _ | .reapply x => by simp [rlE, enFree, enFree_rl x]
  | .binary _ l r | .pair l r | .applyTo l r | .cond _ l r | .and l r | .or l r | .seq l r
  | .sideAfter l r | .infixApply l _ r => by simp [rlE, enFree, enFree_rl l, enFree_rl r]
  | .list items => by simp [rlE, enFree, enFreeList_rl items]
  | .chain arms none => by simp [rlE, enFree_chain, enFreeArms_rl arms]
  | .chain arms (some e) => by simp [rlE, enFree_chain, enFreeArms_rl arms, enFree_rl e]
theorem enFreeList_rl : ∀ (l : List (Expr F)), enFreeList (rlEs ρ l) = enFreeList l
  | [] => by simp [rlEs]
  | x :: xs => by simp [rlEs, enFreeList, enFree_rl x, enFreeList_rl xs]
theorem enFreeArms_rl : ∀ (l : List (Bool × Expr F × Expr F)), enFreeArms (rlArms ρ l) = enFreeArms l
  | [] => by simp [rlArms]
  | (_, c, t) :: rest => by simp [rlArms, enFreeArms, enFree_rl c, enFree_rl t, enFreeArms_rl rest]
end

mutual
theorem wfE_rl : ∀ (e : Expr F), wfE (rlE ρ e) = wfE e
  | .lit v => by cases v <;> simp [rlE, Val.rl, wfE]
  | .input | .ident _ | .nested _ | .emptyNested => by simp [rlE, wfE]
  | .unary _ x | .reapply x | .prefixApply _ x | .suffixApply x _ => by simp [rlE, wfE, wfE_rl x]
  | .binary _ l r | .pair l r | .applyTo l r | .seq l r | .infixApply l _ r => by simp [rlE, wfE, wfE_rl l, wfE_rl r]
  | .cond _ l r | .and l r | .or l r => by simp [rlE, wfE, wfE_rl l, wfE_rl r, enFree_rl]
  | .sideAfter l r => by simp [rlE, wfE, wfE_rl l, wfE_rl r, noR_rl]
  | .list items => by simp [rlE, wfE, wfEList_rl items]
  | .chain arms none => by simp [rlE, wfE_chain]
  | .chain arms (some e) => by simp [rlE, wfE_chain, wfEArms_rl arms, wfE_rl e]
theorem wfEList_rl : ∀ (l : List (Expr F)), wfEList (rlEs ρ l) = wfEList l
  | [] => by simp [rlEs]
  | x :: xs => by simp [rlEs, wfEList, wfE_rl x, wfEList_rl xs]
theorem wfEArms_rl : ∀ (l : List (Bool × Expr F × Expr F)), wfEArms (rlArms ρ l) = wfEArms l
  | [] => by simp [rlArms]
  | (_, c, t) :: rest => by simp [rlArms, wfEArms, wfE_rl c, wfE_rl t, enFree_rl, wfEArms_rl rest]
end

mutual
theorem exprSize_rl : ∀ (e : Expr F), exprSize (rlE ρ e) = exprSize e
  | .lit _ | .input | .ident _ | .nested _ | .emptyNested => by simp [rlE, exprSize]
  | .unary _ x | .reapply x | .prefixApply _ x | .suffixApply x _ => by simp [rlE, exprSize, exprSize_rl x]
  | .binary _ l r | .pair l r | .applyTo l r | .cond _ l r | .and l r | .or l r | .seq l r
  | .sideAfter l r | .infixApply l _ r => by simp [rlE, exprSize, exprSize_rl l, exprSize_rl r]
  | .list items => by simp [rlE, exprSize, exprsSize_rl items]
  | .chain arms none => by simp [rlE, exprSize, armsSize_rl arms]
  | .chain arms (some e) => by simp [rlE, exprSize, armsSize_rl arms, exprSize_rl e]
theorem exprsSize_rl : ∀ (l : List (Expr F)), exprsSize (rlEs ρ l) = exprsSize l
  | [] => by simp [rlEs]
  | x :: xs => by simp [rlEs, exprsSize, exprSize_rl x, exprsSize_rl xs]
theorem armsSize_rl : ∀ (l : List (Bool × Expr F × Expr F)), armsSize (rlArms ρ l) = armsSize l
  | [] => by simp [rlArms]
  | (_, c, t) :: rest => by simp [rlArms, armsSize, exprSize_rl c, exprSize_rl t, armsSize_rl rest]
end

theorem bodiesSize_rl : ∀ (l : List (Nat × Expr F)), bodiesSize (rlBodies ρ l) = bodiesSize l
  | [] => by simp [rlBodies]
  | (k, b) :: rest => by simp [rlBodies, bodiesSize, exprSize_rl, bodiesSize_rl rest]

/-- every body of the renamed table is the renamed body of the table -/
theorem lookupBody_rl_inv : ∀ (l : List (Nat × Expr F)) (id' : Nat) (b' : Expr F), lookupBody (rlBodies ρ l) id' = some b' →
    ∃ id b, id' = ρ id ∧ b' = rlE ρ b ∧ lookupBody l id = some b
  | [], _, _, h => by simp [rlBodies, lookupBody] at h
  | (k, b) :: rest, id', b', h => by
    simp only [rlBodies, lookupBody] at h
    by_cases hk : (ρ k == id') = true
    · rw [if_pos hk] at h
      refine ⟨k, b, (beq_iff_eq.mp hk).symm, by cases h; rfl, by simp [lookupBody]⟩
    · rw [if_neg hk] at h
      obtain ⟨id, b2, h1, h2, h3⟩ := lookupBody_rl_inv rest id' b' h
      refine ⟨id, b2, h1, h2, ?_⟩
      simp only [lookupBody]
      have : ¬ (k == id) = true := fun e => hk (by rw [h1, beq_iff_eq.mp e]; simp)
      rw [if_neg this]; exact h3

end Garnish.Abs
