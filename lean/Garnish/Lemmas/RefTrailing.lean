/-
C18: trailing whitespace.  Whitespace / blank-line tokens appended to a token list are removed by the trimming both
parsers start with: `refParse (a ++ ws) = refParse a` and `parse (a ++ ws) = parse a`, for EVERY token list `a`.
-/
import Garnish.Lemmas.RefTrivia2

namespace Garnish.Spec
open Garnish Garnish.Gen Garnish.Model.Parser

theorem trimStart_le : ∀ a : List PToken, trimStart a ≤ a.length
  | [] => Nat.le_refl _
  | t :: a => by
    simp only [trimStart, List.length_cons]
    split
    · have := trimStart_le a; omega
    · omega

theorem trimStart_all : ∀ (ws r : List PToken), (∀ w ∈ ws, isTrimmable w = true) →
    trimStart (ws ++ r) = ws.length + trimStart r
  | [], r, _ => by simp
  | w :: ws, r, h => by
    simp only [List.cons_append, trimStart, h w (List.mem_cons_self ..), if_true, List.length_cons]
    rw [trimStart_all ws r (fun x hx => h x (List.mem_cons_of_mem _ hx))]
    omega

theorem trimStart_append_lt : ∀ (a x : List PToken), trimStart a < a.length → trimStart (a ++ x) = trimStart a
  | [], _, h => by simp at h
  | t :: a, x, h => by
    simp only [List.cons_append, trimStart, List.length_cons] at h ⊢
    split
    · rename_i ht
      simp only [ht, if_true] at h
      rw [trimStart_append_lt a x (by omega)]
    · rfl

theorem trimStart_full : ∀ (a : List PToken), trimStart a = a.length → ∀ t ∈ a, isTrimmable t = true
  | [], _, t, ht => by cases ht
  | x :: a, h, t, ht => by
    simp only [trimStart, List.length_cons] at h
    split at h
    · rename_i hx
      rcases List.mem_cons.mp ht with e | e
      · rw [e]; exact hx
      · exact trimStart_full a (by omega) t e
    · omega

/-- the tokens both parsers work on -/
def trimmed (toks : List PToken) : List PToken :=
  (toks.drop (trimStart toks)).take (toks.length - trimStart toks.reverse - trimStart toks)

theorem trailing_facts (a ws : List PToken) (hws : ∀ w ∈ ws, isTrimmable w = true) :
    (a ++ ws).length - trimStart (a ++ ws).reverse = a.length - trimStart a.reverse ∧
      (trimStart a < a.length → trimStart (a ++ ws) = trimStart a) ∧
      (trimStart a = a.length → trimStart (a ++ ws) = a.length + ws.length ∧ trimStart a.reverse = a.length) := by
  have hr : trimStart (a ++ ws).reverse = ws.length + trimStart a.reverse := by
    rw [List.reverse_append]
    have := trimStart_all ws.reverse a.reverse (fun w hw => hws w (List.mem_reverse.mp hw))
    simpa using this
  refine ⟨by rw [hr, List.length_append]; omega, trimStart_append_lt a ws, ?_⟩
  intro hfull
  have hall := trimStart_full a hfull
  constructor
  · have := trimStart_all a ws hall
    rw [this]
    have h2 := trimStart_all ws [] hws
    simp only [List.append_nil] at h2
    have h3 : trimStart ([] : List PToken) = 0 := rfl
    omega
  · have := trimStart_all a.reverse [] (fun w hw => hall w (List.mem_reverse.mp hw))
    simp only [List.append_nil, List.length_reverse] at this
    have h3 : trimStart ([] : List PToken) = 0 := rfl
    omega

/-- **trailing whitespace, reference parser**: exactly the same tree -/
theorem refParse_trailingSpace (tbl : Table) {a b : List PToken} (h : TrailingSpace a b) : refParse tbl b = refParse tbl a := by
  cases h with
  | mk ws hws =>
    obtain ⟨h1, h2, h3⟩ := trailing_facts a ws hws
    unfold refParse
    simp only [h1]
    have hle := trimStart_le a
    have hre := trimStart_le a.reverse
    simp only [List.length_reverse] at hre
    by_cases hlt : trimStart a < a.length
    · rw [h2 hlt]
      split
      · rfl
      · rename_i hns
        congr 1
        rw [List.drop_append_of_le_length (by omega), List.take_append_of_le_length (by simp; omega)]
    · have hfull : trimStart a = a.length := by omega
      obtain ⟨h4, h5⟩ := h3 hfull
      rw [h4, h5, hfull]
      simp

theorem trimEnd_eq : ∀ (l : List PToken) (n : Nat), trimStart l ≤ n → trimEnd l n = .ok (n - trimStart l)
  | [], n, _ => by simp [trimEnd, trimStart]
  | t :: l, n, h => by
    simp only [trimEnd, trimStart] at h ⊢
    split
    · rename_i ht
      simp only [ht, if_true] at h
      have hn : n ≠ 0 := by omega
      simp only [hn, if_false]
      rw [trimEnd_eq l (n - 1) (by omega)]
      congr 1; omega
    · simp

theorem trimTokens_eq (toks : List PToken) : trimTokens toks = .ok (trimmed toks) := by
  unfold trimTokens trimmed
  have hre := trimStart_le toks.reverse
  simp only [List.length_reverse] at hre
  rw [trimEnd_eq toks.reverse toks.length hre]
  simp only [Outcome.bind]
  split
  · rename_i hgt
    have : toks.length - trimStart toks.reverse - trimStart toks = 0 := by omega
    rw [this]; simp
  · split
    · omega
    · rfl

theorem trimmed_trailing (a ws : List PToken) (hws : ∀ w ∈ ws, isTrimmable w = true) : trimmed (a ++ ws) = trimmed a := by
  obtain ⟨h1, h2, h3⟩ := trailing_facts a ws hws
  unfold trimmed
  rw [h1]
  have hle := trimStart_le a
  have hre := trimStart_le a.reverse
  simp only [List.length_reverse] at hre
  by_cases hlt : trimStart a < a.length
  · rw [h2 hlt, List.drop_append_of_le_length (by omega), List.take_append_of_le_length (by simp; omega)]
  · have hfull : trimStart a = a.length := by omega
    obtain ⟨h4, h5⟩ := h3 hfull
    rw [h4, h5, hfull]
    simp

/-- **trailing whitespace, the real algorithm**: `parse` returns exactly the same result, for every token list -/
theorem parse_trailingSpace {a b : List PToken} (h : TrailingSpace a b) : parse b = parse a := by
  cases h with
  | mk ws hws =>
    unfold parse
    rw [trimTokens_eq, trimTokens_eq, trimmed_trailing a ws hws]

end Garnish.Spec
