/-
Branch targets lie ahead. The instructions that can transfer control into an out-of-line root — `JumpIfTrue`,
`JumpIfFalse`, `And`, `Or` — always name a jump entry that `emit` has just allocated for a root it pushes; the root is
laid out after the root that contains the instruction is complete (main line AND terminators). Hence in the compiled
program: `instrs[i] = (branch, some j)` → `jumps[j] = some t` with `i + 1 < t` (`branch_forward`): neither the branch
instruction nor the instruction after it belongs to the code it may jump to (used by C10 "in context").
-/
import Garnish.Lemmas.CompileDepth9
namespace Garnish.Abs
open Garnish Gen Garnish.Spec

variable {F : Type}

def isBranch : Instruction → Bool
  | .jumpIfTrue | .jumpIfFalse | .and | .or => true
  | _ => false

/-- the branch instructions written from `s` to `s'` name new jump entries, each the placeholder of a root pending in
`s'` (or one of the arm placeholders `idx` of the else-chain being emitted); new roots have terminators -/
structure BF (idx : List Nat) (s s' : LState F) : Prop where
  br : ∀ i op j, s.instrs.size ≤ i → s'.instrs[i]? = some (op, some j) → isBranch op = true →
    s.jumps.size ≤ j ∧ ((∃ q ∈ s'.pending, q.patch = j) ∨ j ∈ idx)
  roots : ∀ q ∈ s'.pending, q ∈ s.pending ∨ (q.term ≠ [] ∧ ∀ t ∈ q.term, isBranch t.1 = false ∧ t.1 ≠ .putValue)

theorem BF.refl (idx : List Nat) (s : LState F) : BF idx s s :=
  ⟨fun i _ _ hi hx _ => (by rw [Array.getElem?_eq_none hi] at hx; cases hx), fun _ h => .inl h⟩

theorem BF.mono {idx idx' : List Nat} {s s' : LState F} (h : BF idx s s') (hsub : ∀ j ∈ idx, j ∈ idx') : BF idx' s s' :=
  ⟨fun i op j hi hx hb => ⟨(h.br i op j hi hx hb).1, (h.br i op j hi hx hb).2.imp id (hsub j)⟩, h.roots⟩

theorem BF.trans {idx : List Nat} {a b c : LState F} (h1 : BF idx a b) (h2 : BF idx b c) (p1 : Pre a b) (p2 : Pre b c) :
    BF idx a c where
  br i op j hi hx hb := by
    by_cases hlt : i < b.instrs.size
    · rw [p2.instrs i hlt] at hx
      obtain ⟨k1, k2⟩ := h1.br i op j hi hx hb
      refine ⟨k1, k2.imp (fun ⟨q, hq, e⟩ => ⟨q, p2.keep q hq, e⟩) id⟩
    · obtain ⟨k1, k2⟩ := h2.br i op j (by omega) hx hb
      exact ⟨by have := p1.jsize; omega, k2⟩
  roots q hq := by
    rcases h2.roots q hq with h | h
    · exact h1.roots q h
    · exact .inr h

theorem BF.push {idx : List Nat} (s : LState F) (i : Instruction) (d : Option Nat) (h : isBranch i = false ∨ d = none) :
    BF idx s (s.push i d) where
  br k op j hk hx hb := by
    simp only [LState.push, Array.getElem?_push] at hx
    split at hx
    · simp only [Option.some.injEq, Prod.mk.injEq] at hx
      obtain ⟨rfl, rfl⟩ := hx
      rcases h with h | h
      · rw [h] at hb; cases hb
      · cases h
    · rw [Array.getElem?_eq_none hk] at hx; cases hx
  roots _ hq := .inl hq

theorem BF.pushConst {idx : List Nat} (s : LState F) (i : Instruction) (v : Val F) (hi : i = .put ∨ i = .resolve) :
    BF idx s (s.pushConst i v) where
  br k op j hk hx hb := by
    simp only [LState.pushConst, Array.getElem?_push] at hx
    split at hx
    · simp only [Option.some.injEq, Prod.mk.injEq] at hx
      obtain ⟨rfl, _⟩ := hx
      rcases hi with rfl | rfl <;> cases hb
    · rw [Array.getElem?_eq_none hk] at hx; cases hx
  roots _ hq := .inl hq

theorem BF.pushJump {idx : List Nat} (s : LState F) (t : Nat) : BF idx s (s.pushJump t) :=
  ⟨fun i _ _ hi hx _ => (by simp only [LState.pushJump] at hx; rw [Array.getElem?_eq_none hi] at hx; cases hx), fun _ h => .inl h⟩

theorem isBranch_jumpIf (b : Bool) : isBranch (jumpIf b) = true := by cases b <;> rfl

theorem condTail_bf {cur : Nat} {b : Bool} {t : Expr F} {s1 : LState F} : BF [] s1 (condTail cur b t s1) where
  br i op j hi hx hb := by
    simp only [condTail, LState.pushJump, LState.pushRoot, LState.push, Array.getElem?_push, Array.size_push] at hx
    simp only [condTail, LState.pushJump, LState.pushRoot, LState.push]
    split at hx
    · simp only [Option.some.injEq, Prod.mk.injEq] at hx; obtain ⟨rfl, h2⟩ := hx; cases h2
    · split at hx
      · simp only [Option.some.injEq, Prod.mk.injEq] at hx
        obtain ⟨_, h2⟩ := hx
        subst h2
        exact ⟨Nat.le_refl _, .inl ⟨_, List.mem_cons_self, rfl⟩⟩
      · rw [Array.getElem?_eq_none (by omega)] at hx; cases hx
  roots q hq := by
    simp only [condTail, LState.pushJump, LState.pushRoot, LState.push, List.mem_cons] at hq
    rcases hq with rfl | hq
    · exact .inr (by simp [isBranch])
    · exact .inl hq

theorem logicalTail_bf {cur : Nat} {i : Instruction} {r : Expr F} {s1 : LState F} : BF [] s1 (logicalTail cur i r s1) where
  br k op j hk hx hb := by
    simp only [logicalTail, LState.pushJump, LState.pushRoot, LState.push, Array.getElem?_push, Array.size_push] at hx
    simp only [logicalTail, LState.pushJump, LState.pushRoot, LState.push]
    split at hx
    · simp only [Option.some.injEq, Prod.mk.injEq] at hx
      obtain ⟨_, h2⟩ := hx
      subst h2
      exact ⟨Nat.le_refl _, .inl ⟨_, List.mem_cons_self, rfl⟩⟩
    · rw [Array.getElem?_eq_none (by omega)] at hx; cases hx
  roots q hq := by
    simp only [logicalTail, LState.pushJump, LState.pushRoot, LState.push, List.mem_cons] at hq
    rcases hq with rfl | hq
    · exact .inr (by simp [isBranch])
    · exact .inl hq

theorem finishChain_bf {cur : Nat} {s s2 : LState F} {items : List (Expr F × Nat)} (h : BF (items.map (·.2)) s s2) :
    BF [] s (finishChain cur s2 items) := by
  cases items with
  | nil => simpa [finishChain] using h
  | cons it its =>
    simp only [finishChain]
    refine ⟨fun i op j hi hx hb => ?_, fun q hq => ?_⟩
    · obtain ⟨k1, k2⟩ := h.br i op j hi hx hb
      refine ⟨k1, .inl ?_⟩
      rcases k2 with ⟨q, hq, e⟩ | hj
      · exact ⟨q, List.mem_append_right _ hq, e⟩
      · obtain ⟨it', hin, rfl⟩ := List.mem_map.1 hj
        refine ⟨⟨.code it'.1, it'.2, [(.jumpTo, some s2.jumps.size)], cur⟩, List.mem_append_left _ ?_, rfl⟩
        simp only [armRoots, List.mem_reverse, List.mem_map]
        exact ⟨it', hin, rfl⟩
    · simp only [List.mem_append] at hq
      rcases hq with hq | hq
      · simp only [armRoots, List.mem_reverse, List.mem_map] at hq
        obtain ⟨it', _, rfl⟩ := hq
        exact .inr (by simp [isBranch])
      · exact h.roots q hq

theorem BF.pushBranch (s : LState F) (i : Instruction) (j : Nat) (hj : s.jumps.size ≤ j) : BF [j] s (s.push i (some j)) where
  br k op j' hk hx hb := by
    simp only [LState.push, Array.getElem?_push] at hx
    split at hx
    · simp only [Option.some.injEq, Prod.mk.injEq] at hx
      obtain ⟨_, rfl⟩ := hx
      exact ⟨hj, .inr (by simp)⟩
    · rw [Array.getElem?_eq_none hk] at hx; cases hx
  roots _ hq := .inl hq

mutual
theorem emit_bf (root cur : Nat) : ∀ (e : Expr F) (s : LState F), cur < s.jumps.size → BF [] s (emit root cur e s)
  | .lit v, s, _ => by simp only [emit]; exact .pushConst s _ _ (.inl rfl)
  | .input, s, _ => by simp only [emit]; exact .push s _ _ (.inr rfl)
  | .ident sym, s, _ => by simp only [emit]; exact .pushConst s _ _ (.inr rfl)
  | .emptyNested, s, _ => by simp only [emit]; exact .pushConst s _ _ (.inl rfl)
  | .nested id, s, hc => by
    simp only [emit]
    refine ⟨fun i op j hi hx hb => ?_, fun q hq => ?_⟩
    · simp only [LState.pushRoot, LState.pushConst, LState.pushJump, Array.getElem?_push] at hx
      split at hx
      · simp only [Option.some.injEq, Prod.mk.injEq] at hx; obtain ⟨rfl, _⟩ := hx; cases hb
      · rw [Array.getElem?_eq_none hi] at hx; cases hx
    · simp only [LState.pushRoot, LState.pushConst, LState.pushJump, List.mem_cons] at hq
      rcases hq with rfl | hq
      · exact .inr (by simp [isBranch])
      · exact .inl hq
  | .unary op x, s, hc => by
    obtain ⟨p1, _⟩ := emit_pre root cur x s hc
    simp only [emit]
    exact (emit_bf root cur x s hc).trans (.push _ _ _ (.inr rfl)) p1 (.push _ _ _)
  | .binary op l r, s, hc => by
    obtain ⟨p1, _⟩ := emit_pre root cur l s hc
    have hc2 : cur < (emit root cur l s).jumps.size := by have := p1.jsize; omega
    obtain ⟨p2, _⟩ := emit_pre root cur r _ hc2
    simp only [emit]
    exact ((emit_bf root cur l s hc).trans (emit_bf root cur r _ hc2) p1 p2).trans (.push _ _ _ (.inr rfl)) (p1.trans p2) (.push _ _ _)
  | .pair l r, s, hc => by
    obtain ⟨p1, _⟩ := emit_pre root cur r s hc
    have hc2 : cur < (emit root cur r s).jumps.size := by have := p1.jsize; omega
    obtain ⟨p2, _⟩ := emit_pre root cur l _ hc2
    simp only [emit]
    exact ((emit_bf root cur r s hc).trans (emit_bf root cur l _ hc2) p1 p2).trans (.push _ _ _ (.inr rfl)) (p1.trans p2) (.push _ _ _)
  | .applyTo x f, s, hc => by
    obtain ⟨p1, _⟩ := emit_pre root cur f s hc
    have hc2 : cur < (emit root cur f s).jumps.size := by have := p1.jsize; omega
    obtain ⟨p2, _⟩ := emit_pre root cur x _ hc2
    simp only [emit]
    exact ((emit_bf root cur f s hc).trans (emit_bf root cur x _ hc2) p1 p2).trans (.push _ _ _ (.inr rfl)) (p1.trans p2) (.push _ _ _)
  | .list items, s, hc => by
    obtain ⟨p1, _⟩ := emitList_pre root cur items s hc
    simp only [emit]
    exact (emitList_bf root cur items s hc).trans (.push _ _ _ (.inl rfl)) p1 (.push _ _ _)
  | .cond onTrue c t, s, hc => by
    obtain ⟨p1, _⟩ := emit_pre root cur c s hc
    have hc2 : cur < (emit root cur c s).jumps.size := by have := p1.jsize; omega
    simp only [emit]
    exact (emit_bf root cur c s hc).trans condTail_bf p1 (condTail_pre hc2).1
  | .and l r, s, hc => by
    obtain ⟨p1, _⟩ := emit_pre root cur l s hc
    have hc2 : cur < (emit root cur l s).jumps.size := by have := p1.jsize; omega
    simp only [emit]
    exact (emit_bf root cur l s hc).trans logicalTail_bf p1 (logicalTail_pre hc2).1
  | .or l r, s, hc => by
    obtain ⟨p1, _⟩ := emit_pre root cur l s hc
    have hc2 : cur < (emit root cur l s).jumps.size := by have := p1.jsize; omega
    simp only [emit]
    exact (emit_bf root cur l s hc).trans logicalTail_bf p1 (logicalTail_pre hc2).1
  | .seq a b, s, hc => by
    obtain ⟨p1, _⟩ := emit_pre root cur a s hc
    have hc2 : cur < ((emit root cur a s).push .updateValue none).jumps.size := by have := p1.jsize; simp; omega
    obtain ⟨p2, _⟩ := emit_pre root cur b _ hc2
    simp only [emit]
    exact ((emit_bf root cur a s hc).trans (.push _ _ _ (.inr rfl)) p1 (.push _ _ _)).trans (emit_bf root cur b _ hc2)
      (p1.trans (.push _ _ _)) p2
  | .sideAfter x b, s, hc => by
    obtain ⟨p1, _⟩ := emit_pre root cur x s hc
    have hc2 : cur < ((emit root cur x s).push .startSideEffect none).jumps.size := by have := p1.jsize; simp; omega
    obtain ⟨p2, _⟩ := emit_pre root cur b _ hc2
    simp only [emit]
    exact (((emit_bf root cur x s hc).trans (.push _ _ _ (.inr rfl)) p1 (.push _ _ _)).trans (emit_bf root cur b _ hc2)
      (p1.trans (.push _ _ _)) p2).trans (.push _ _ _ (.inr rfl)) ((p1.trans (.push _ _ _)).trans p2) (.push _ _ _)
  | .reapply x, s, hc => by
    obtain ⟨p1, _⟩ := emit_pre root cur x s hc
    simp only [emit]
    exact ((emit_bf root cur x s hc).trans (.push _ _ _ (.inr rfl)) p1 (.push _ _ _)).trans (.push _ _ _ (.inl rfl))
      (p1.trans (.push _ _ _)) (.push _ _ _)
  | .prefixApply sym x, s, hc => by
    have hc2 : cur < (s.pushConst .resolve (.sym sym)).jumps.size := by simpa using hc
    obtain ⟨p1, _⟩ := emit_pre root cur x _ hc2
    simp only [emit]
    exact ((BF.pushConst s _ _ (.inr rfl)).trans (emit_bf root cur x _ hc2) (.pushConst _ _ _) p1).trans (.push _ _ _ (.inr rfl))
      ((Pre.pushConst _ _ _).trans p1) (.push _ _ _)
  | .suffixApply x sym, s, hc => by
    have hc2 : cur < (s.pushConst .resolve (.sym sym)).jumps.size := by simpa using hc
    obtain ⟨p1, _⟩ := emit_pre root cur x _ hc2
    simp only [emit]
    exact ((BF.pushConst s _ _ (.inr rfl)).trans (emit_bf root cur x _ hc2) (.pushConst _ _ _) p1).trans (.push _ _ _ (.inr rfl))
      ((Pre.pushConst _ _ _).trans p1) (.push _ _ _)
  | .infixApply a sym b, s, hc => by
    have hc2 : cur < (s.pushConst .resolve (.sym sym)).jumps.size := by simpa using hc
    obtain ⟨p1, _⟩ := emit_pre root cur a _ hc2
    have hc3 : cur < (emit root cur a (s.pushConst .resolve (.sym sym))).jumps.size := by have := p1.jsize; omega
    obtain ⟨p2, _⟩ := emit_pre root cur b _ hc3
    simp only [emit]
    have q0 : Pre s (s.pushConst .resolve (.sym sym)) := .pushConst _ _ _
    have h3 := ((BF.pushConst (idx := []) s _ (.sym sym) (.inr rfl)).trans (emit_bf root cur a _ hc2) q0 p1).trans
      (emit_bf root cur b _ hc3) (q0.trans p1) p2
    exact (h3.trans (.push _ _ _ (.inl rfl)) ((q0.trans p1).trans p2) (.push _ _ _)).trans (.push _ _ _ (.inr rfl))
      (((q0.trans p1).trans p2).trans (.push _ _ _)) (.push _ _ _)
  | .chain [] none, s, hc => by
    simp only [emit, emitArms, chainNoFinal, finishChain]
    exact .push _ _ _ (.inr rfl)
  | .chain (arm :: rest) none, s, hc => by
    have ha := emitArms_bf root cur (arm :: rest) s hc
    simp only [emit, chainNoFinal]
    exact finishChain_bf ha
  | .chain arms (some e), s, hc => by
    obtain ⟨p1, _, _⟩ := emitArms_pre root cur arms s hc
    have hc2 : cur < (emitArms root cur arms s).1.jumps.size := by have := p1.jsize; omega
    obtain ⟨p2, _⟩ := emit_pre root cur e _ hc2
    have ha := emitArms_bf root cur arms s hc
    simp only [emit]
    exact finishChain_bf (ha.trans ((emit_bf root cur e _ hc2).mono (by simp)) p1 p2)
theorem emitList_bf (root cur : Nat) : ∀ (items : List (Expr F)) (s : LState F), cur < s.jumps.size →
    BF [] s (emitList root cur items s)
  | [], s, _ => by simp only [emitList]; exact .refl _ s
  | x :: xs, s, hc => by
    obtain ⟨p1, _⟩ := emit_pre root cur x s hc
    have hc2 : cur < (emit root cur x s).jumps.size := by have := p1.jsize; omega
    obtain ⟨p2, _⟩ := emitList_pre root cur xs _ hc2
    simp only [emitList]
    exact (emit_bf root cur x s hc).trans (emitList_bf root cur xs _ hc2) p1 p2
theorem emitArms_bf (root cur : Nat) : ∀ (arms : List (Bool × Expr F × Expr F)) (s : LState F), cur < s.jumps.size →
    BF ((emitArms root cur arms s).2.map (·.2)) s (emitArms root cur arms s).1
  | [], s, _ => by simp only [emitArms]; exact .refl _ s
  | (onTrue, c, t) :: rest, s, hc => by
    obtain ⟨p1, _⟩ := emit_pre root cur c s hc
    have j1 := p1.jsize
    have hc2 : cur < (((emit root cur c s).pushJump 0).push (jumpIf onTrue) (some (emit root cur c s).jumps.size)).jumps.size := by
      simp; omega
    obtain ⟨p2, _, _⟩ := emitArms_pre root cur rest _ hc2
    have ih := emitArms_bf root cur rest _ hc2
    simp only [emitArms, List.map_cons]
    have pj : Pre (emit root cur c s) ((emit root cur c s).pushJump 0) := .pushJump _ _
    have pp : Pre ((emit root cur c s).pushJump 0) (((emit root cur c s).pushJump 0).push (jumpIf onTrue) (some (emit root cur c s).jumps.size)) := .push _ _ _
    have hb : BF [(emit root cur c s).jumps.size] (emit root cur c s)
        (((emit root cur c s).pushJump 0).push (jumpIf onTrue) (some (emit root cur c s).jumps.size)) := by
      refine ⟨fun k op j hk hx hbr => ?_, fun _ hq => .inl hq⟩
      simp only [LState.push, LState.pushJump, Array.getElem?_push] at hx
      split at hx
      · simp only [Option.some.injEq, Prod.mk.injEq] at hx
        obtain ⟨_, rfl⟩ := hx
        exact ⟨Nat.le_refl _, .inr (by simp)⟩
      · rw [Array.getElem?_eq_none hk] at hx; cases hx
    have h1 := ((emit_bf root cur c s hc).mono (idx' := (emit root cur c s).jumps.size ::
      (emitArms root cur rest (((emit root cur c s).pushJump 0).push (jumpIf onTrue) (some (emit root cur c s).jumps.size))).2.map (·.2)) (by simp))
    have h3 := hb.mono (idx' := (emit root cur c s).jumps.size ::
      (emitArms root cur rest (((emit root cur c s).pushJump 0).push (jumpIf onTrue) (some (emit root cur c s).jumps.size))).2.map (·.2)) (by simp)
    have h4 := ih.mono (idx' := (emit root cur c s).jumps.size ::
      (emitArms root cur rest (((emit root cur c s).pushJump 0).push (jumpIf onTrue) (some (emit root cur c s).jumps.size))).2.map (·.2))
      (fun j hj => List.mem_cons_of_mem _ hj)
    exact ((h1.trans h3 p1 (pj.trans pp)).trans h4 (p1.trans (pj.trans pp)) p2)
end

/-! ### the loop -/

theorem addTerms_mem (start : Nat) (last : Option Instr) : ∀ (terms : List Instr) (s : LState F) (i : Nat) (x : Instr),
    s.instrs.size ≤ i → (addTerms start last terms s).instrs[i]? = some x → x ∈ terms
  | [], s, i, x, hi, hx => by simp only [addTerms] at hx; rw [Array.getElem?_eq_none hi] at hx; cases hx
  | t :: ts, s, i, x, hi, hx => by
    simp only [addTerms] at hx
    split at hx
    · exact List.mem_cons_of_mem _ (addTerms_mem start last ts s i x hi hx)
    · by_cases h : i = s.instrs.size
      · have p := addTerms_pre start last ts (s.push t.1 t.2)
        rw [p.instrs i (by simp [h])] at hx
        simp only [LState.push, h, Array.getElem?_push_size, Option.some.injEq] at hx
        rw [← hx]; exact List.mem_cons_self
      · exact List.mem_cons_of_mem _ (addTerms_mem start last ts _ i x (by simp; omega) hx)

/-- when the last instruction is not an `EndExpression`, no terminator is skipped: something is appended -/
theorem addTerms_grows (start : Nat) (last : Option Instr) (hl : ∀ t, last = some t → t.1 ≠ .endExpression) :
    ∀ (terms : List Instr) (s : LState F), terms ≠ [] → s.instrs.size < (addTerms start last terms s).instrs.size
  | [], _, h => absurd rfl h
  | t :: ts, s, _ => by
    simp only [addTerms]
    have hn : ¬ (last = some t ∧ t.1 = .endExpression ∧ s.instrs.size > start) := fun h => hl t h.1 h.2.1
    rw [if_neg hn]
    have := (addTerms_pre start last ts (s.push t.1 t.2)).isize
    simp only [LState.push, Array.size_push] at this ⊢
    omega

/-- what the loop maintains about the branch instructions: a resolved target lies beyond the instruction after the
branch — and beyond the `PutValue` after that, if there is one (the conditional's "test failed" continuation) -/
structure FInv (s : LState F) : Prop where
  res : ∀ i op j, s.instrs[i]? = some (op, some j) → isBranch op = true →
    (∃ q ∈ s.pending, q.patch = j) ∨
    (∃ t, s.jumps[j]? = some t ∧ i + 1 < t ∧ t ≤ s.instrs.size ∧ (s.instrs[i + 1]? = some (.putValue, none) → i + 2 < t))
  ahead : ∀ q ∈ s.pending, ∀ i op, s.instrs[i]? = some (op, some q.patch) → isBranch op = true →
    i + 1 < s.instrs.size ∧ (s.instrs[i + 1]? = some (.putValue, none) → i + 2 < s.instrs.size)
  terms : ∀ q ∈ s.pending, q.term ≠ [] ∧ ∀ t ∈ q.term, isBranch t.1 = false ∧ t.1 ≠ .putValue

section loop
variable (bodies : List (Nat × Expr F))

theorem layoutRoot_finv {s : LState F} {r : Root F} {rest : List (Root F)} (inv : Inv s) (fi : FInv s)
    (hp : s.pending = r :: rest) : FInv (layoutRoot bodies r { s with pending := rest }) := by
  have hr_mem : r ∈ s.pending := by rw [hp]; exact List.mem_cons_self
  have hrest : ∀ q ∈ rest, q ∈ s.pending := fun q hq => by rw [hp]; exact List.mem_cons_of_mem _ hq
  have hrp : r.patch < s.jumps.size := inv.pend r hr_mem
  obtain ⟨hrt1, hrt2⟩ := fi.terms r hr_mem
  rw [layoutRoot_eq]
  simp only
  generalize hs1 : LState.mk s.instrs (s.jumps.setIfInBounds r.patch s.instrs.size) s.consts rest (r :: s.done)
    s.depths (s.pendDep.headD 0) s.pendDep.tail = s1
  have s1_instrs : s1.instrs = s.instrs := by rw [← hs1]
  have s1_jumps : s1.jumps = s.jumps.setIfInBounds r.patch s.instrs.size := by rw [← hs1]
  have s1_jsize : s1.jumps.size = s.jumps.size := by rw [s1_jumps]; simp
  have s1_pending : s1.pending = rest := by rw [← hs1]
  -- the invariant after the patch
  have res1 : ∀ i op j, s.instrs[i]? = some (op, some j) → isBranch op = true →
      (∃ q ∈ rest, q.patch = j) ∨
      (∃ t, s1.jumps[j]? = some t ∧ i + 1 < t ∧ t ≤ s.instrs.size ∧ (s.instrs[i + 1]? = some (.putValue, none) → i + 2 < t)) := by
    intro i op j hx hb
    by_cases hj : j = r.patch
    · subst hj
      obtain ⟨a1, a2⟩ := fi.ahead r hr_mem i op hx hb
      refine .inr ⟨s.instrs.size, ?_, a1, Nat.le_refl _, a2⟩
      rw [s1_jumps]; simp [Array.getElem?_setIfInBounds, hrp]
    · rcases fi.res i op j hx hb with ⟨q, hq, e⟩ | ⟨t, ht, hlt, hle, hpv⟩
      · rw [hp, List.mem_cons] at hq
        rcases hq with rfl | hq
        · exact absurd e.symm hj
        · exact .inl ⟨q, hq, e⟩
      · refine .inr ⟨t, ?_, hlt, hle, hpv⟩
        rw [s1_jumps, Array.getElem?_setIfInBounds_ne (Ne.symm hj)]; exact ht
  have hcont1 : r.containing < s1.jumps.size := by rw [s1_jsize]; exact inv.cont r hr_mem
  generalize hs2 : bodyState bodies r s1 = s2
  have h12 : BF [] s1 s2 ∧ Pre s1 s2 := by
    rw [← hs2]
    simp only [bodyState]
    cases rootBody bodies r with
    | none => exact ⟨.refl _ s1, .refl s1⟩
    | some b => exact ⟨emit_bf r.patch r.containing b s1 hcont1, (emit_pre r.patch r.containing b s1 hcont1).1⟩
  obtain ⟨bf, p12⟩ := h12
  have p23 := addTerms_pre s.instrs.size s2.instrs.back? r.term s2
  have hpend3 := (addTerms_pending s.instrs.size s2.instrs.back? r.term s2).1
  have hmem3 := addTerms_mem s.instrs.size s2.instrs.back? r.term s2
  have hgrow3 := fun hl => addTerms_grows s.instrs.size s2.instrs.back? hl r.term s2
  generalize hs3 : addTerms s.instrs.size s2.instrs.back? r.term s2 = s3 at p23 hpend3 hmem3 hgrow3
  have p13 := p12.trans p23
  have i13 := p13.isize
  have i12 := p12.isize
  have i23 := p23.isize
  rw [s1_instrs] at i13 i12
  have old3 : ∀ i, i < s.instrs.size → s3.instrs[i]? = s.instrs[i]? := fun i hi => by
    rw [p13.instrs i (by rw [s1_instrs]; exact hi), s1_instrs]
  -- a terminator is neither a branch nor a `PutValue`
  have hterm : ∀ i x, s2.instrs.size ≤ i → s3.instrs[i]? = some x → isBranch x.1 = false ∧ x.1 ≠ .putValue :=
    fun i x hi hx => hrt2 x (hmem3 i x hi hx)
  -- the new branch instructions
  have hnew : ∀ i op j, s.instrs.size ≤ i → s3.instrs[i]? = some (op, some j) → isBranch op = true →
      i < s2.instrs.size ∧ s1.jumps.size ≤ j ∧ ∃ q ∈ s2.pending, q.patch = j := by
    intro i op j hi hx hb
    by_cases hlt : i < s2.instrs.size
    · rw [p23.instrs i hlt] at hx
      obtain ⟨k1, k2⟩ := bf.br i op j (by rw [s1_instrs]; exact hi) hx hb
      rcases k2 with k2 | k2
      · exact ⟨hlt, k1, k2⟩
      · cases k2
    · have := (hterm i _ (by omega) hx).1
      simp only at this
      rw [hb] at this; cases this
  -- a new branch instruction is followed by an instruction of the same root, and a `PutValue` after it by another one
  have hfollow : ∀ i op j, s.instrs.size ≤ i → s3.instrs[i]? = some (op, some j) → isBranch op = true →
      i + 1 < s3.instrs.size ∧ (s3.instrs[i + 1]? = some (.putValue, none) → i + 2 < s3.instrs.size) := by
    intro i op j hi hx hb
    obtain ⟨hi2, _, _⟩ := hnew i op j hi hx hb
    have hx2 : s2.instrs[i]? = some (op, some j) := by rw [← p23.instrs i hi2]; exact hx
    have hlast : ∀ k y, k + 1 = s2.instrs.size → s2.instrs[k]? = some y → y.1 ≠ .endExpression →
        s2.instrs.size < s3.instrs.size := by
      intro k y hk hy hne
      refine hgrow3 (fun t ht => ?_) hrt1
      have : s2.instrs.back? = some y := by
        have : s2.instrs.size - 1 = k := by omega
        simp only [Array.back?, this]; exact hy
      rw [this] at ht; cases ht; exact hne
    constructor
    · by_cases h : i + 1 < s2.instrs.size
      · omega
      · have := hlast i _ (by omega) hx2 (by intro h'; simp only at h'; rw [h'] at hb; cases hb)
        omega
    · intro hpv
      by_cases h : i + 1 < s2.instrs.size
      · by_cases h2 : i + 2 < s2.instrs.size
        · omega
        · rw [p23.instrs (i + 1) h] at hpv
          have := hlast (i + 1) _ (by omega) hpv (by simp)
          omega
      · exact absurd rfl (hterm (i + 1) _ (by omega) hpv).2
  refine ⟨fun i op j hx hb => ?_, fun q hq i op hx hb => ?_, fun q hq => ?_⟩
  · by_cases hlt : i < s.instrs.size
    · rw [old3 i hlt] at hx
      rcases res1 i op j hx hb with ⟨q, hq, e⟩ | ⟨t, ht, h1, h2, h3⟩
      · exact .inl ⟨q, by rw [hpend3]; exact p12.keep q (by rw [s1_pending]; exact hq), e⟩
      · refine .inr ⟨t, ?_, h1, by omega, fun hpv => h3 ?_⟩
        · have hjlt : j < s1.jumps.size := (Array.getElem?_eq_some_iff.mp ht).1
          rw [p13.jumps j hjlt]; exact ht
        · rw [old3 (i + 1) (by omega)] at hpv; exact hpv
    · obtain ⟨_, _, q, hq, e⟩ := hnew i op j (by omega) hx hb
      exact .inl ⟨q, by rw [hpend3]; exact hq, e⟩
  · rw [hpend3] at hq
    by_cases hlt : i < s.instrs.size
    · -- an old instruction naming `q.patch`: `q` is an old pending root
      rw [old3 i hlt] at hx
      have hq_old : q ∈ rest := by
        rcases p12.pend q hq with h | ⟨h, _⟩
        · rw [s1_pending] at h; exact h
        · exfalso
          rcases res1 i op q.patch hx hb with ⟨q', hq', e⟩ | ⟨t, ht, _⟩
          · have := inv.pend q' (hrest q' hq'); omega
          · have := (Array.getElem?_eq_some_iff.mp ht).1; omega
      obtain ⟨a1, a2⟩ := fi.ahead q (hrest q hq_old) i op hx hb
      refine ⟨by omega, fun hpv => ?_⟩
      rw [old3 (i + 1) a1] at hpv
      have := a2 hpv
      omega
    · exact hfollow i op q.patch (by omega) hx hb
  · rw [hpend3] at hq
    rcases bf.roots q hq with h | h
    · rw [s1_pending] at h; exact fi.terms q (hrest q h)
    · exact h

theorem layoutRoots_finv : ∀ (fuel : Nat) (s : LState F), Inv s → FInv s → FInv (layoutRoots bodies fuel s)
  | 0, s, _, fi => fi
  | fuel + 1, s, inv, fi => by
    cases hp : s.pending with
    | nil => simpa [layoutRoots, hp] using fi
    | cons r rest =>
      simp only [layoutRoots, hp]
      exact layoutRoots_finv fuel _ (layoutRoot_facts bodies inv hp).1 (layoutRoot_finv bodies inv fi hp)

end loop

/-- in the program text: a branch instruction's target lies beyond the instruction that follows it (and beyond a
`PutValue` following that one) -/
def BranchFwd (P : Prog F) : Prop :=
  ∀ i op j, P.instrs[i]? = some (op, some j) → isBranch op = true →
    ∃ t, P.jumps[j]? = some t ∧ i + 1 < t ∧ t ≤ P.instrs.size ∧ (P.instrs[i + 1]? = some (.putValue, none) → i + 2 < t)

theorem startState_finv (P0 : Prog F) (h0 : BranchFwd P0) : FInv (startState P0) where
  res i op j hx hb := by
    obtain ⟨t, ht, h1, hle, h2⟩ := h0 i op j hx hb
    have hjlt := (Array.getElem?_eq_some_iff.mp ht).1
    have hi := (Array.getElem?_eq_some_iff.mp hx).1
    refine .inr ⟨t, ?_, h1, ?_, h2⟩
    · simp only [startState]
      rw [Array.getElem?_push_lt hjlt, ← ht]
      exact (Array.getElem?_eq_getElem hjlt).symm
    · simpa [startState] using hle
  ahead q hq i op hx hb := by
    simp only [startState, List.mem_singleton] at hq
    subst hq
    obtain ⟨t, ht, _⟩ := h0 i op _ hx hb
    have := (Array.getElem?_eq_some_iff.mp ht).1
    simp at this
  terms q hq := by
    simp only [startState, List.mem_singleton] at hq
    subst hq
    simp [isBranch]

theorem compile_branchFwd (P0 : Prog F) (p : Program F) (h0 : BranchFwd P0) (hc : (compileState P0 p).pending = []) :
    BranchFwd (compileState P0 p).toProg := by
  have inv0 : Inv (startState P0) := by
    refine ⟨fun r hr => ?_, fun r hr => ?_, fun r hr => ?_⟩ <;>
      simp only [startState, List.mem_singleton] at hr <;> subst hr
    · simp [startState]
    · simp [startState]
    · intro id _; exact ⟨rfl, rfl⟩
  have fi := layoutRoots_finv p.bodies (bodiesSize p.bodies + 2) (startState P0) inv0 (startState_finv P0 h0)
  intro i op j hx hb
  rcases fi.res i op j hx hb with ⟨q, hq, _⟩ | ⟨t, ht, h1, hle, h2⟩
  · have : (compileState P0 p).pending = [] := hc
    simp only [compileState] at this
    rw [this] at hq; cases hq
  · exact ⟨t, ht, h1, hle, h2⟩

end Garnish.Abs
