/-
Operands with prefix operators, part 4: the reference parser on `prefix* value` and on an item, the first operand of a
token list, and the two loops side by side (`frag_loop_oitems`).
-/
import Garnish.Lemmas.ParserPrefix3

namespace Garnish.Spec
open Garnish Garnish.Gen Garnish.Model.Parser

def flatDecO : List OItem → List PToken
  | [] => []
  | it :: rest => it.dec ++ flatDecO rest

/-- the leaves `(definition, position)` of a run of prefix-operator tokens starting at position `k` -/
def leavesP : List PToken → Nat → List (Definition × Nat)
  | [], _ => []
  | p :: ps, k => ((getDefinition p.type).1, k) :: leavesP ps (k + 1)

theorem leavesP_length : ∀ (ps : List PToken) (k : Nat), (leavesP ps k).length = ps.length
  | [], _ => rfl
  | _ :: ps, k => by simp [leavesP, leavesP_length ps (k + 1)]

theorem leavesP_get : ∀ (ps : List PToken) (k i : Nat) (h : i < (leavesP ps k).length),
    ((leavesP ps k)[i]'h).1 = (getDefinition (ps[i]'(by rw [leavesP_length] at h; exact h)).type).1
  | p :: ps, k, 0, _ => rfl
  | p :: ps, k, i + 1, h => by
    simp only [leavesP, List.getElem_cons_succ]
    exact leavesP_get ps (k + 1) i _

theorem leavesP_cols : ∀ (ps : List PToken) (k : Nat) (rest : List PToken), NumberedFrom k (ps ++ rest) →
    (leavesP ps k).map (·.2) = ps.map (·.col)
  | [], _, _, _ => rfl
  | p :: ps, k, rest, h => by
    simp only [leavesP, List.map_cons, List.cons_append] at h ⊢
    rw [leavesP_cols ps (k + 1) rest h.2, h.1]

theorem leavesP_getLast (ps : List PToken) (k : Nat) :
    (match (leavesP ps k).getLast? with | some p => p.1 | none => d0) =
      (match ps.getLast? with | some p => (getDefinition p.type).1 | none => d0) := by
  induction ps generalizing k with
  | nil => rfl
  | cons p ps ih =>
    cases ps with
    | nil => rfl
    | cons p2 ps2 =>
      have := ih (k + 1)
      simp only [leavesP, List.getLast?_cons_cons] at this ⊢
      exact this

theorem plugLeaves_append (R : RTree) : ∀ (xs ys : List (Definition × Nat)),
    plugLeaves R (xs ++ ys) = plugLeaves (plugLeaves R xs) ys
  | [], _ => rfl
  | (d, k) :: xs, ys => by simp only [List.cons_append, plugLeaves]; exact plugLeaves_append _ xs ys

/-! ### reference side -/

theorem ref_prefix_step (g : Frame) (pos : Nat) (p : PToken) (rest : List PToken) (hp : isPrefixTok p = true)
    (hg : g.last = .op ∨ g.last = .start) :
    refStep Table.gen g [] pos p rest =
      .ok ({ g with cur := plug g.cur (.node .nil (getDefinition p.type).1 pos .nil), last := .op, ws := false,
                    prevSep := false }, []) := by
  have hs : (getDefinition p.type).2 = .unaryPrefix := by unfold isPrefixTok at hp; simpa using hp
  have hgen : Table.gen.define = getDefinition := rfl
  unfold refStep
  rw [hgen]
  generalize getDefinition p.type = ds at hs ⊢
  obtain ⟨d, s⟩ := ds
  simp only at hs ⊢
  subst hs
  rcases hg with hg | hg <;> simp [beforeOperand, hg, Outcome.bind]

theorem ref_prefix_run : ∀ (ps : List PToken) (g : Frame) (pos : Nat) (rest : List PToken),
    (∀ p ∈ ps, isPrefixTok p = true) → (g.last = .op ∨ g.last = .start) →
    ∃ b b2 l, (l = .op ∨ l = .start) ∧ refLoop Table.gen g [] pos (ps ++ rest) =
      refLoop Table.gen { g with cur := plugLeaves g.cur (leavesP ps pos), last := l, ws := b, prevSep := b2 } []
        (pos + ps.length) rest := by
  intro ps
  induction ps with
  | nil => intro g pos rest _ hg; exact ⟨g.ws, g.prevSep, g.last, hg, rfl⟩
  | cons p ps ih =>
    intro g pos rest hps hg
    have hp := hps p (List.mem_cons_self ..)
    let g' : Frame :=
      { g with cur := plug g.cur (.node .nil (getDefinition p.type).1 pos .nil), last := .op, ws := false, prevSep := false }
    obtain ⟨b, b2, l, hl, h⟩ := ih g' (pos + 1) rest (fun x hx => hps x (List.mem_cons_of_mem _ hx)) (Or.inl rfl)
    refine ⟨b, b2, l, hl, ?_⟩
    simp only [List.cons_append, List.length_cons, leavesP, plugLeaves]
    conv => lhs; unfold refLoop
    rw [ref_prefix_step g pos p _ hp hg]
    simp only [Outcome.bind]
    rw [h]
    have : pos + 1 + ps.length = pos + (ps.length + 1) := by omega
    rw [this]

theorem ref_atom_step' (g : Frame) (pos : Nat) (a : PToken) (rest : List PToken) (ha : isAtom10 a = true)
    (hg : g.last = .op ∨ g.last = .start) :
    refStep Table.gen g [] pos a rest =
      .ok ({ g with cur := plug g.cur (.node .nil (getDefinition a.type).1 pos .nil), last := .operand, ws := false,
                    prevSep := false }, []) := by
  obtain ⟨hsa, hqa⟩ := atom10_facts ha
  have hns := prio10_not_special hqa
  have hgen : Table.gen.define = getDefinition := rfl
  unfold refStep
  rw [hgen]
  generalize getDefinition a.type = ds at hsa hns ⊢
  obtain ⟨d, s⟩ := ds
  simp only at hsa hns ⊢
  rcases hg with hg | hg <;> rcases hsa with rfl | rfl <;> simp [hns, beforeOperand, hg, Outcome.bind]

/-- the operand `prefix* value` on the reference side -/
theorem ref_operand (g : Frame) (pos : Nat) (pre : List PToken) (a : PToken) (rest : List PToken)
    (hpre : ∀ p ∈ pre, isPrefixTok p = true) (ha : isAtom10 a = true) (hg : g.last = .op ∨ g.last = .start) :
    refLoop Table.gen g [] pos (pre ++ a :: rest) =
      refLoop Table.gen
        { g with cur := plugLeaves g.cur (leavesP pre pos ++ [((getDefinition a.type).1, pos + pre.length)]),
                 last := .operand, ws := false, prevSep := false } [] (pos + pre.length + 1) rest := by
  obtain ⟨b, b2, l, hl, h⟩ := ref_prefix_run pre g pos (a :: rest) hpre hg
  rw [h]
  conv => lhs; unfold refLoop
  rw [ref_atom_step' _ _ a rest ha hl]
  simp only [Outcome.bind, plugLeaves_append, plugLeaves]

theorem ref_oitem (f : Frame) (pos q : Nat) (it : OItem) (hok : it.ok) (rest : List PToken)
    (hq : priority (getDefinition it.op.type).1 = some q) (hl : f.last = .operand) :
    refLoop Table.gen f [] pos (it.dec ++ rest) =
      refLoop Table.gen
        { f with cur := plugLeaves (attach Table.gen q ((getDefinition it.op.type).2 == .binaryRightToLeft)
                          (getDefinition it.op.type).1 (pos + it.ws1.length) f.cur)
                        (leavesP it.pre (pos + it.ws1.length + 1 + it.ws2.length) ++
                          [((getDefinition it.atom.type).1, pos + it.ws1.length + 1 + it.ws2.length + it.pre.length)]),
                 last := .operand, ws := false, prevSep := false } [] (pos + it.dec.length) rest := by
  obtain ⟨hw1, ho, hw2, hpre, ha⟩ := hok
  have e1 : it.dec ++ rest = it.ws1 ++ (it.op :: (it.ws2 ++ (it.pre ++ it.atom :: rest))) := by simp [OItem.dec]
  rw [e1]
  obtain ⟨b1, hb1⟩ := ref_skip it.ws1 f pos (it.op :: (it.ws2 ++ (it.pre ++ it.atom :: rest))) hw1
  rw [hb1]
  conv => lhs; unfold refLoop
  rw [ref_op_step { f with ws := b1 } _ q it.op _ ho hq hl]
  simp only [Outcome.bind]
  obtain ⟨b2, hb2⟩ := ref_skip it.ws2
    { f with cur := attach Table.gen q ((getDefinition it.op.type).2 == .binaryRightToLeft) (getDefinition it.op.type).1
                      (pos + it.ws1.length) f.cur, last := .op, ws := false, prevSep := false }
    (pos + it.ws1.length + 1) (it.pre ++ it.atom :: rest) hw2
  rw [hb2, ref_operand _ _ it.pre it.atom rest hpre ha (Or.inl rfl)]
  have hlen : pos + it.ws1.length + 1 + it.ws2.length + it.pre.length + 1 = pos + it.dec.length := by
    simp [OItem.dec]; omega
  rw [hlen]

/-! ### the tree equation of an operand -/

/-- plugging the leaves of `prefix* value` below a fresh node of definition `dAbove` builds `toRd` of the chain tree -/
theorem operand_hsub (df : Nat → Definition) (pre : List PToken) (a : PToken) (m k0 : Nat) (dAbove : Definition)
    (rest : List PToken) (hpre : ∀ p ∈ pre, isPrefixTok p = true) (hnum : NumberedFrom k0 (pre ++ a :: rest))
    (hdf : ∀ (i : Nat) (h : i < pre.length), df (m + i) = (getDefinition (pre[i]).type).1)
    (hlast : df (m + pre.length) =
      underDef (match pre.getLast? with | some p => (getDefinition p.type).1 | none => dAbove) (getDefinition a.type).1)
    (l : RTree) (k : Nat) :
    plugLeaves (.node l dAbove k .nil) (leavesP pre k0 ++ [((getDefinition a.type).1, k0 + pre.length)]) =
      .node l dAbove k (toRd df (chainTree m (pre.map (·.col)) a.col)) := by
  have hfacts : ∀ p ∈ leavesP pre k0, p.1 ≠ Definition.identifier ∧ p.1 ≠ Definition.access := by
    intro p hp
    obtain ⟨i, hi, rfl⟩ := List.getElem_of_mem hp
    rw [leavesP_get pre k0 i hi]
    have hi' : i < pre.length := by rw [leavesP_length] at hi; exact hi
    have hs : (getDefinition (pre[i]).type).2 = .unaryPrefix := by
      have := hpre _ (List.getElem_mem hi')
      unfold isPrefixTok at this; simpa using this
    obtain ⟨_, _, _, _, f2, f3, _⟩ := prefix_def_facts _ hs
    exact ⟨f2, f3⟩
  have hacol : a.col = k0 + pre.length := by
    have := numbered_append pre (a :: rest) k0 hnum
    exact this.1
  have := plugLeaves_chain df (leavesP pre k0) (getDefinition a.type).1 (k0 + pre.length) m l dAbove k
    (by intro i h; rw [leavesP_get pre k0 i h]; exact hdf i (by rw [leavesP_length] at h; exact h))
    (fun p hp => (hfacts p hp).1) (fun p hp => (hfacts p hp).2)
    (by
      rw [leavesP_length]
      have e := leavesP_getLast (d0 := dAbove) pre k0
      exact hlast.trans (congrArg (fun d => underDef d (getDefinition a.type).1) e.symm))
  rw [this, leavesP_cols pre k0 (a :: rest) hnum, hacol]

/-! ### the two loops side by side -/

theorem frag_loop_oitems : ∀ (items : List OItem) (st : PState) (T : Tree) (rt : Nat) (f : Frame) (pos : Nat),
    FragInv st T rt → f.last = .operand → f.cur = toRd (dfOf st.nodes) T → (∀ it ∈ items, it.ok) →
    NumberedFrom pos (flatDecO items) →
    ∃ stF TF rtF, loop st (flatDecO items) = .ok stF ∧ FragInv stF TF rtF ∧
      refLoop Table.gen f [] pos (flatDecO items) = .ok (toRd (dfOf stF.nodes) TF)
  | [], st, T, rt, f, pos, hinv, hl, hc, _, _ => by
    refine ⟨st, T, rt, rfl, hinv, ?_⟩
    simp only [flatDecO]
    unfold refLoop
    simp [hl, hc]
  | it :: items, st, T, rt, f, pos, hinv, hl, hc, hoks, hnum => by
    have hok := hoks it (List.mem_cons_self ..)
    simp only [flatDecO] at hnum ⊢
    obtain ⟨q, st2, rt', hq, hloop, hinv2, hdefs, hdn, hdp, hda⟩ := operand_step hinv it hok (flatDecO items)
    rw [hloop, ref_oitem f pos q it hok _ hq hl]
    -- positions
    have e1 : it.dec ++ flatDecO items = it.ws1 ++ (it.op :: (it.ws2 ++ (it.pre ++ it.atom :: flatDecO items))) := by
      simp [OItem.dec]
    have hnum1 : NumberedFrom (pos + it.ws1.length) (it.op :: (it.ws2 ++ (it.pre ++ it.atom :: flatDecO items))) := by
      rw [e1] at hnum; exact numbered_append _ _ _ hnum
    have hco : it.op.col = pos + it.ws1.length := hnum1.1
    have hnum2 : NumberedFrom (pos + it.ws1.length + 1 + it.ws2.length) (it.pre ++ it.atom :: flatDecO items) :=
      numbered_append it.ws2 _ _ hnum1.2
    have hnum' : NumberedFrom (pos + it.dec.length) (flatDecO items) := numbered_append _ _ _ hnum
    have hin := hinv.inord
    have hdf : ∀ i ∈ T.inorder, dfOf st2.nodes i = dfOf st.nodes i := by
      intro i hi
      rw [hin] at hi
      have := hdefs i (List.mem_range.mp hi)
      simp only [dfOf, this]
    have hcur : plugLeaves (attach Table.gen q ((getDefinition it.op.type).2 == .binaryRightToLeft)
          (getDefinition it.op.type).1 (pos + it.ws1.length) f.cur)
          (leavesP it.pre (pos + it.ws1.length + 1 + it.ws2.length) ++
            [((getDefinition it.atom.type).1, pos + it.ws1.length + 1 + it.ws2.length + it.pre.length)]) =
        toRd (dfOf st2.nodes) (insertS (prioAt st.nodes) q ((getDefinition it.op.type).2 == .binaryRightToLeft)
          st.nodes.size it.op.col (chainTree (st.nodes.size + 1) (it.pre.map (·.col)) it.atom.col) T) := by
      rw [hco]
      have := insertS_toRd (dfOf st2.nodes) (prioAt st.nodes) q ((getDefinition it.op.type).2 == .binaryRightToLeft)
        st.nodes.size (pos + it.ws1.length) (chainTree (st.nodes.size + 1) (it.pre.map (·.col)) it.atom.col)
        (leavesP it.pre (pos + it.ws1.length + 1 + it.ws2.length) ++
          [((getDefinition it.atom.type).1, pos + it.ws1.length + 1 + it.ws2.length + it.pre.length)])
        (fun l => operand_hsub (dfOf st2.nodes) it.pre it.atom (st.nodes.size + 1) _ (dfOf st2.nodes st.nodes.size)
          (flatDecO items) hok.2.2.2.1 hnum2 hdp (by rw [hdn]; exact hda) l _) T
        (by
          intro i hi
          rw [hdf i hi]
          rw [hin] at hi
          have hi' := List.mem_range.mp hi
          have hsome : ∃ nd, st.nodes[i]? = some nd := by
            cases hnd : st.nodes[i]? with
            | none => rw [Array.getElem?_eq_none_iff] at hnd; omega
            | some nd => exact ⟨nd, rfl⟩
          obtain ⟨nd, hnd⟩ := hsome
          obtain ⟨p, hp⟩ := hinv.prios i nd hnd
          show priority _ = _
          simp [dfOf, prioAt, hnd, hp])
      rw [hdn, toRd_congr _ _ T hdf] at this
      rw [hc]; exact this
    obtain ⟨stF, TF, rtF, hlF, hinvF, hrefF⟩ := frag_loop_oitems items st2 _ rt'
      { f with cur := plugLeaves (attach Table.gen q ((getDefinition it.op.type).2 == .binaryRightToLeft)
                          (getDefinition it.op.type).1 (pos + it.ws1.length) f.cur)
                        (leavesP it.pre (pos + it.ws1.length + 1 + it.ws2.length) ++
                          [((getDefinition it.atom.type).1, pos + it.ws1.length + 1 + it.ws2.length + it.pre.length)]),
               last := .operand, ws := false, prevSep := false }
      (pos + it.dec.length) hinv2 rfl hcur
      (fun x hx => hoks x (List.mem_cons_of_mem _ hx)) hnum'
    exact ⟨stF, TF, rtF, hlF, hinvF, hrefF⟩

end Garnish.Spec
