/-
The parser's node array represents the elaborated program (4): `binE`, all cases.
-/
import Garnish.Lemmas.SourceRep4
namespace Garnish.Abs.Source
open Garnish Garnish.Gen Garnish.Spec Garnish.Abs Garnish.Abs.Tree Garnish.Model.Parser Garnish.Model.Literals

variable {F : Type} {pf : List Char → Option F} {nodes : Array ParseNode} {B : List (Nat × Expr F)}

theorem bin_out {lo hi i li ri : Nat} {n : ParseNode} {tl tr t' : RTree} {a b y : Res F} {d : Definition}
    (hn : nodes[i]? = some n) (hd : n.definition = d) (hl : n.left = some li) (hr : n.right = some ri)
    (oa : Out pf nodes B lo i li tl a) (ob : Out pf nodes B (i + 1) hi ri tr b)
    (hdl : ∀ pn, nodes[li]? = some pn → rootDef tl = some pn.definition)
    (hdr : ∀ pn, nodes[ri]? = some pn → rootDef tr = some pn.definition) (hroot : rootDef t' = some d)
    (he : binE d n.lexToken.text (rootIs tl d) (rootIs tr d) (rootCond tl) (rootCond tr) (isJumpIf tr) a b = some y) :
    Out pf nodes B lo hi i t' y := by
  unfold binE at he
  simp only at he
  split at he
  · rename_i op hop
    cases he
    exact Out.plain (Rep.binary hn (by rw [hd]; exact hop) hl hr oa.rep ob.rep)
  · split at he
    · cases he; exact Out.plain (Rep.pair hn hd hl hr oa.rep ob.rep)
    · cases he; exact Out.plain (Rep.applyTo hn hd hl hr oa.rep ob.rep)
    · cases he; exact Out.plain (Rep.seq hn (Or.inl hd) hl hr oa.rep ob.rep)
    · cases he; exact Out.plain (Rep.seq hn (Or.inr hd) hl hr oa.rep ob.rep)
    · cases he; exact Out.plain (Rep.infixApply hn hd hl hr oa.rep ob.rep)
    · exact list_out (Or.inl rfl) hn hd hl hr oa ob hdl hdr hroot he
    · exact list_out (Or.inr rfl) hn hd hl hr oa ob hdl hdr hroot he
    · cases he; exact cond_out true hn hd hl hr oa ob
    · cases he; exact cond_out false hn hd hl hr oa ob
    · split at he
      · cases he
      · rename_i hC
        cases he
        exact Out.plain (Rep.and hn hd hl hr (notCond_of_root hdl (by simpa using hC)) oa.rep ob.rep)
    · split at he
      · cases he
      · rename_i hC
        cases he
        exact Out.plain (Rep.or hn hd hl hr (notCond_of_root hdl (by simpa using hC)) oa.rep ob.rep)
    · exact chain_out hn hd hl hr oa ob hdr hroot he
    · cases he

end Garnish.Abs.Source
