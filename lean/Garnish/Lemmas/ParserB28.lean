/-
Operators with optional operands, part 4: a trailing comma as the very last token of the input (`parse_ex_comma`), and the
recogniser `fragTC` for `expr trivia* ,`.
-/
import Garnish.Lemmas.ParserB12
import Garnish.Lemmas.ParserB13

namespace Garnish.Spec
open Garnish Garnish.Gen Garnish.Model.Parser

theorem refParse_notrim (toks : List PToken) (hne : toks ≠ []) (hh : isTrimmable (toks.head hne) = false)
    (hl : isTrimmable (toks.getLast hne) = false) :
    refParse Table.gen toks = refLoop Table.gen Frame.top [] 0 toks := by
  obtain ⟨_, hts, htr⟩ := trim_id _ hne hh hl
  unfold refParse
  simp only [hts, htr]
  have hlen : ¬ (0 ≥ toks.length) := by
    have := List.length_pos_iff.mpr hne; omega
  simp only [List.drop_zero, Nat.sub_zero, List.take_length, hlen, if_false]

/-- **an expression followed by a comma at the very end**: the comma keeps its left operand only -/
theorem parse_ex_comma {F : Fl} (e : Ex) (hok : e.ok F false = true) (ws1 : List PToken) (k : PToken)
    (hw1 : ∀ w ∈ ws1, isTriviaTok w = true) (hk : isCommaTok k = true)
    (hnum : NumberedFrom 0 (e.toks ++ (ws1 ++ [k]))) :
    ∃ r t, parse (e.toks ++ (ws1 ++ [k])) = .ok r ∧ toTree r = some t ∧
      refParse Table.gen (e.toks ++ (ws1 ++ [k])) = .ok (toRG (dfOf r.nodes) t) := by
  obtain ⟨hk3, hkd⟩ := comma_facts hk
  have hne : e.toks ++ (ws1 ++ [k]) ≠ [] := by simp
  obtain ⟨th, trest, hth, hthn⟩ := ex_head e false hok
  have hhead : isTrimmable ((e.toks ++ (ws1 ++ [k])).head hne) = false := by
    have : (e.toks ++ (ws1 ++ [k])).head hne = th := by simp [hth]
    rw [this]; exact hthn
  have hlast : isTrimmable ((e.toks ++ (ws1 ++ [k])).getLast hne) = false := by
    have e1 : e.toks ++ (ws1 ++ [k]) = (e.toks ++ ws1) ++ [k] := by simp
    rw [getLast_of_eq_append hne e1]
    unfold isCommaTok at hk
    have : k.type = .comma := by simpa using hk
    simp only [isTrimmable, this]; rfl
  obtain ⟨htrim, _, _⟩ := trim_id _ hne hhead hlast
  have hnume := numbered_prefix e.toks _ 0 hnum
  have hnumK := numbered_append ws1 [k] _ (numbered_append e.toks _ 0 hnum)
  have hkcol : k.col = 0 + e.toks.length + ws1.length := hnumK.1
  obtain ⟨st1, E, re, cb, hloop, hinv, hgs, hcg, _, _, _, hcnt, href⟩ :=
    (ex_ok e false hok).1 PState.init none none 0 openB_init (.top rfl rfl) (by intro i nd h; simp [PState.init] at h) rfl
      rfl (Or.inl rfl) 0 hnume (ws1 ++ [k])
  obtain ⟨st1', hloopW, hinv', hn1', hgs1', hcg1'⟩ := trivia_runU ws1 st1 [k] hinv hw1
  -- the comma, as the last token
  obtain ⟨nodes', info, hpt, hir, hdefs, _, _, htreeK, _⟩ := core_effectU hinv' .commaList 900 false none rfl (by omega)
  have hsz' : nodes'.size = st1'.nodes.size := (parseToken_size_def hpt).1
  have hpt' : parseToken st1'.nodes.size (getDefinition k.type).1 st1'.lastLeft none st1'.nodes none
      ((getDefinition k.type).2 == .binaryRightToLeft) = .ok (nodes', info) := by rw [hkd]; exact hpt
  obtain ⟨st2, h2⟩ := step_bin3_okT st1' k hk3 hinv'.hug hinv'.adjust
    (hinv'.comp_binop _ (by rw [hkd]; exact Or.inr (Or.inr rfl))) ⟨_, _, hpt'⟩
  obtain ⟨nodes2, info2, hpt2, hn2, hl2, hc2, hnl2, hgs2, hcg2, hp2⟩ :=
    step_bin3_specT st1' st2 k hk3 hinv'.nnl hinv'.hug hinv'.adjust h2
  rw [hpt'] at hpt2
  injection hpt2 with hpt2; injection hpt2 with e1 e2; subst e1; subst e2
  rw [hkd, hir] at hn2
  simp only at hn2
  have hs2 : st2.nodes.size = st1'.nodes.size + 1 := by rw [hn2]; simp [hsz']
  have hC2 : st2.nodes[st1'.nodes.size]? =
      some ⟨.commaList, .optionalBinaryLeftToRight, info.parent, info.left, none, k⟩ := by
    rw [hn2, Array.getElem?_push, if_pos hsz'.symm]
  have hlt2 : ∀ j, j < st1'.nodes.size → st2.nodes[j]? = nodes'[j]? := by
    intro j hj; rw [hn2, Array.getElem?_push, if_neg (by omega)]
  obtain ⟨re', htree', _⟩ := htreeK st2.nodes .nil k.col hlt2 ⟨_, hC2, rfl, rfl, rfl, rfl⟩ (.nil _)
  have hin2 : (insertC cb (prioAt st1'.nodes) 900 false st1'.nodes.size k.col .nil E).inorder =
      E.inorder ++ [st1'.nodes.size] := by rw [insertC_inorder]; rfl
  have hpos := hinv'.n.pos
  have hsorted : SortedIn 0 st2.nodes.size (E.inorder ++ [st1'.nodes.size]) := by
    rw [hs2]
    exact hinv'.n.inord.append_cons (l2 := []) ⟨List.Pairwise.nil, fun j hj => by cases hj⟩ (by omega) (by omega)
  obtain ⟨r, hr, ht, hn⟩ := finish_gen (st := st2) (T := insertC cb (prioAt st1'.nodes) 900 false st1'.nodes.size k.col .nil E)
    (by rw [hp2, hc2, hkd]; rfl) (by rw [hgs2, hgs1', hgs]; rfl) htree' (by rw [hin2]; exact hsorted.nodup)
    (by rw [hin2]; exact List.mem_append_left _ hinv'.n.first) (by omega)
  refine ⟨r, _, ?_, ht, ?_⟩
  · unfold parse
    rw [htrim]
    have he : (e.toks ++ (ws1 ++ [k])).isEmpty = false := by
      cases h : e.toks ++ (ws1 ++ [k]) with
      | nil => exact absurd h hne
      | cons _ _ => rfl
    simp only [Outcome.bind, he, Bool.false_eq_true, if_false]
    rw [hloop, hloopW]
    simp only [loop, List.isEmpty_nil, h2, Outcome.bind]
    exact hr
  · rw [refParse_notrim _ hne hhead hlast, href Frame.top [] (ws1 ++ [k]) rfl rfl rfl]
    let fE : Frame :=
      { Frame.top with cur := toRG (dfOf st1.nodes) E, last := (if e.endsSuffix then Last.suffix else Last.operand),
                       ws := false, prevSep := false }
    obtain ⟨b1, hb1⟩ := ref_skipK ws1 fE [] (0 + e.toks.length) [k] hw1
    rw [hb1]
    conv => lhs; unfold refLoop
    let fE1 : Frame := { fE with ws := b1 }
    rw [ref_op_stepK fE1 [] _ 900 k [] hk3 (by rw [hkd]; rfl) (by cases e.endsSuffix <;> simp [fE1, fE])]
    simp only [Outcome.bind, hkd]
    unfold refLoop
    have hdn : dfOf st2.nodes st1'.nodes.size = .commaList := by simp [dfOf, hC2]
    have hcong : ∀ i ∈ E.inorder, dfOf st1.nodes i = dfOf st2.nodes i := by
      intro i hi
      have hi' := (hinv.n.mem i hi).2
      have := hdefs i (by rw [hn1']; exact hi')
      rw [← hlt2 i (by rw [hn1']; exact hi'), hn1'] at this
      simp only [dfOf, this]
    have hcur : attach Table.gen 900 false Definition.commaList (0 + e.toks.length + ws1.length) (toRG (dfOf st1.nodes) E) =
        toRG (dfOf st2.nodes) (insertC cb (prioAt st1'.nodes) 900 false st1'.nodes.size k.col .nil E) := by
      rw [toRG_congr _ _ E hcong, ← hdn, hkcol]
      apply insertC_toRG_nil (dfOf st2.nodes) (prioAt st1'.nodes) 900 false st1'.nodes.size _ cb (by rw [hdn]; rfl) E
      · intro i hi
        rw [← hcong i hi, hn1']
        exact prio_dfOf hinv.n.prios (hinv.n.mem i hi).2
      · exact hinv.spine.congr hcong
    have hrtl : (SecDef.optionalBinaryLeftToRight == SecDef.binaryRightToLeft) = false := rfl
    simp only [fE1, fE, hrtl, hcur, lastAfter, hn]
    simp

theorem mem_takeWhile_p {α : Type} (p : α → Bool) : ∀ (l : List α) (w : α), w ∈ l.takeWhile p → p w = true
  | [], _, h => by cases h
  | a :: l, w, h => by
    simp only [List.takeWhile] at h
    split at h
    · rename_i hpa
      rcases List.mem_cons.mp h with e | e
      · rw [e]; exact hpa
      · exact mem_takeWhile_p p l w e
    · cases h

/-- `expr trivia* ,` -/
def fragTC (F : Fl) (toks : List PToken) : Bool :=
  match toks.reverse with
  | [] => false
  | k :: r =>
    isCommaTok k && fragF F (r.dropWhile isTriviaTok).reverse

theorem fragTC_sound {F : Fl} {toks : List PToken} (h : fragTC F toks = true) :
    ∃ (e : Ex) (ws1 : List PToken) (k : PToken), e.ok F false = true ∧ (∀ w ∈ ws1, isTriviaTok w = true) ∧
      isCommaTok k = true ∧ toks = e.toks ++ (ws1 ++ [k]) := by
  unfold fragTC at h
  cases hr : toks.reverse with
  | nil => rw [hr] at h; cases h
  | cons k r =>
    rw [hr] at h
    simp only [Bool.and_eq_true] at h
    obtain ⟨e, hok, he⟩ := fragF_sound h.2
    refine ⟨e, (r.takeWhile isTriviaTok).reverse, k, hok, ?_, h.1, ?_⟩
    · intro w hw
      rw [List.mem_reverse] at hw
      exact mem_takeWhile_p _ _ _ hw
    · have : toks = (k :: r).reverse := by rw [← hr, List.reverse_reverse]
      rw [this, he]
      have hsplit : r.reverse = (r.dropWhile isTriviaTok).reverse ++ (r.takeWhile isTriviaTok).reverse := by
        rw [← List.reverse_append, List.takeWhile_append_dropWhile]
      simp [hsplit]

end Garnish.Spec
