/-
Compile correctness, part (iii), concluded: `layout_establishes_located`. When the layout loop has laid out all
pending roots, every root it laid out is located in the final program: its jump entry holds its address,
its main line is `Located` there, its terminators follow.
-/
import Garnish.Lemmas.CompileLayout3
namespace Garnish.Abs
open Garnish Gen Garnish.Spec

variable {F : Type}

/-! ### terminators -/

def ArrAt (a : Array Instr) : Nat → List Instr → Prop
  | _, [] => True
  | pc, t :: ts => a[pc]? = some t ∧ ArrAt a (pc + 1) ts

theorem addTerms_pre (start : Nat) (last : Option Instr) : ∀ (terms : List Instr) (s : LState F),
    Pre s (addTerms start last terms s)
  | [], s => .refl s
  | t :: ts, s => by
    simp only [addTerms]
    split
    · exact addTerms_pre start last ts s
    · exact (Pre.push s _ _).trans (addTerms_pre start last ts _)

theorem addTerms_spec (start : Nat) (last : Option Instr) : ∀ (terms : List Instr) (s : LState F),
    start < s.instrs.size →
    ArrAt (addTerms start last terms s).instrs s.instrs.size
      (terms.filter (fun t => !(decide (last = some t) && decide (t.1 = .endExpression))))
  | [], s, _ => trivial
  | t :: ts, s, hs => by
    simp only [addTerms]
    by_cases hskip : last = some t ∧ t.1 = .endExpression
    · have hc : last = some t ∧ t.1 = .endExpression ∧ s.instrs.size > start := ⟨hskip.1, hskip.2, hs⟩
      rw [if_pos hc]
      have : (!(decide (last = some t) && decide (t.1 = .endExpression))) = false := by simp [hskip.1, hskip.2]
      rw [List.filter_cons_of_neg (by simp [this])]
      exact addTerms_spec start last ts s hs
    · have hc : ¬ (last = some t ∧ t.1 = .endExpression ∧ s.instrs.size > start) := fun h => hskip ⟨h.1, h.2.1⟩
      rw [if_neg hc]
      have : (!(decide (last = some t) && decide (t.1 = .endExpression))) = true := by
        simp only [Bool.not_eq_true', Bool.and_eq_false_iff, decide_eq_false_iff_not]
        by_cases h1 : last = some t
        · exact .inr (fun h2 => hskip ⟨h1, h2⟩)
        · exact .inl h1
      rw [List.filter_cons_of_pos
        (p := fun t => !(decide (last = some t) && decide (t.1 = .endExpression))) (l := ts) (a := t) this]
      have ih := addTerms_spec start last ts (s.push t.1 t.2) (by simp; omega)
      refine ⟨?_, by simpa using ih⟩
      have p := addTerms_pre start last ts (s.push t.1 t.2)
      rw [p.instrs s.instrs.size (by simp)]
      simp [LState.push]

theorem ArrAt.instrsAt {a : Array Instr} {P : Prog F} : ∀ {l : List Instr} {pc : Nat}, ArrAt a pc l →
    (∀ i, i < a.size → P.instrs[i]? = a[i]?) → InstrsAt P pc l
  | [], _, _, _ => trivial
  | t :: ts, pc, h, hp => by
    refine ⟨?_, ArrAt.instrsAt h.2 hp⟩
    rw [hp pc (Array.getElem?_eq_some_iff.mp h.1).1]
    exact h.1

/-! ### one root -/

/-- the state after the main line of the root (nothing is emitted for a nested id without a body) -/
def bodyState (bodies : List (Nat × Expr F)) (r : Root F) (s1 : LState F) : LState F :=
  match rootBody bodies r with
  | some b => emit r.patch r.containing b s1
  | none => s1

theorem layoutRoot_eq (bodies : List (Nat × Expr F)) (r : Root F) (s : LState F) :
    layoutRoot bodies r s =
      let s1 : LState F := { s with jumps := s.jumps.setIfInBounds r.patch s.instrs.size, done := r :: s.done,
                                     dep := s.pendDep.headD 0, pendDep := s.pendDep.tail }
      let s2 := bodyState bodies r s1
      addTerms s1.instrs.size s2.instrs.back? r.term s2 := by
  simp only [layoutRoot, rootBody, bodyState]
  cases r.kind with
  | code e => rfl
  | ref id => cases lookupBody bodies id <;> rfl

/-- what the loop maintains about the pending roots -/
structure Inv (s : LState F) : Prop where
  pend : PendOK s
  cont : ∀ r ∈ s.pending, r.containing < s.jumps.size
  ref : ∀ r ∈ s.pending, RefOK r

theorem Inv.of_pre {s t : LState F} (h : Inv s) (p : Pre s t) : Inv t where
  pend := h.pend.of_pre p
  cont r hr := by
    rcases p.pend r hr with h' | ⟨_, _, h3, _⟩
    · have := h.cont r h'; have := p.jsize; omega
    · exact h3
  ref r hr := by
    rcases p.pend r hr with h' | ⟨_, _, _, h4⟩
    · exact h.ref r h'
    · exact h4

section loop
variable (bodies : List (Nat × Expr F))

/-- the conclusion of `layout_establishes_located` for the run of the loop that starts in `s` and ends in `Fs` -/
def LayoutOK (s Fs : LState F) : Prop :=
  Ev s Fs ∧ (∀ r ∈ s.pending, RootLocated bodies Fs.toProg r ∧ RefOK r) ∧
  (∀ r ∈ Fs.done, r ∈ s.done ∨ (RootLocated bodies Fs.toProg r ∧ RefOK r)) ∧
  ∃ l, Fs.done = l ++ s.done ∧ ∀ r ∈ s.pending, r ∈ l

theorem layoutRoots_located : ∀ (fuel : Nat) (s : LState F), Inv s →
    (layoutRoots bodies fuel s).pending = [] →
    (∀ r ∈ (layoutRoots bodies fuel s).done, LabelOK r) →
    ((layoutRoots bodies fuel s).done.map (·.patch)).Nodup →
    LayoutOK bodies s (layoutRoots bodies fuel s)
  | 0, s, _, hc, _, _ => by
    simp only [layoutRoots] at hc ⊢
    exact ⟨.refl s, by simp [hc], fun r hr => .inl hr, [], rfl, by simp [hc]⟩
  | fuel + 1, s, inv, hc, hlab, hnd => by
    cases hp : s.pending with
    | nil =>
      simp only [layoutRoots, hp] at hc ⊢
      exact ⟨.refl s, by simp [hp], fun r hr => .inl hr, [], rfl, by simp [hp]⟩
    | cons r rest =>
      simp only [layoutRoots, hp] at hc hlab hnd ⊢
      -- the states of this step
      have hr_mem : r ∈ s.pending := by rw [hp]; exact List.mem_cons_self
      have hrest : ∀ q ∈ rest, q ∈ s.pending := fun q hq => by rw [hp]; exact List.mem_cons_of_mem _ hq
      have hrp : r.patch < s.jumps.size := inv.pend r hr_mem
      rw [layoutRoot_eq] at hc hlab hnd ⊢
      simp only at hc hlab hnd ⊢
      generalize hs1 : LState.mk s.instrs (s.jumps.setIfInBounds r.patch s.instrs.size) s.consts rest (r :: s.done)
        s.depths (s.pendDep.headD 0) s.pendDep.tail = s1 at *
      have s1_instrs : s1.instrs = s.instrs := by rw [← hs1]
      have s1_consts : s1.consts = s.consts := by rw [← hs1]
      have s1_jumps : s1.jumps = s.jumps.setIfInBounds r.patch s.instrs.size := by rw [← hs1]
      have s1_jsize : s1.jumps.size = s.jumps.size := by rw [s1_jumps]; simp
      have s1_pending : s1.pending = rest := by rw [← hs1]
      have s1_done : s1.done = r :: s.done := by rw [← hs1]
      have inv1 : Inv s1 := by
        refine ⟨fun q hq => ?_, fun q hq => ?_, fun q hq => ?_⟩
        · rw [s1_pending] at hq; rw [s1_jsize]; exact inv.pend q (hrest q hq)
        · rw [s1_pending] at hq; rw [s1_jsize]; exact inv.cont q (hrest q hq)
        · rw [s1_pending] at hq; exact inv.ref q (hrest q hq)
      have hcont1 : r.containing < s1.jumps.size := by rw [s1_jsize]; exact inv.cont r hr_mem
      generalize hs2 : bodyState bodies r s1 = s2 at *
      have p12 : Pre s1 s2 := by
        rw [← hs2]
        simp only [bodyState]
        cases rootBody bodies r with
        | none => exact .refl s1
        | some b => exact (emit_pre r.patch r.containing b s1 hcont1).1
      have p2' := addTerms_pre s.instrs.size s2.instrs.back? r.term s2
      generalize hs' : addTerms s.instrs.size s2.instrs.back? r.term s2 = s' at *
      have p1' : Pre s1 s' := p12.trans p2'
      have inv' : Inv s' := inv1.of_pre p1'
      obtain ⟨ev', hloc', hdone', l', hl', hmem'⟩ := layoutRoots_located fuel s' inv' hc hlab hnd
      generalize hFs : layoutRoots bodies fuel s' = Fs at *
      have j1' := p1'.jsize
      -- distinct placeholders
      have hdist : ∀ q ∈ s'.pending, q.patch ≠ r.patch := by
        intro q hq heq
        have hq' := hmem' q hq
        rw [hl', p1'.done, s1_done, List.map_append, List.nodup_append] at hnd
        exact hnd.2.2 q.patch (List.mem_map.2 ⟨q, hq', rfl⟩) r.patch (by simp) heq
      -- the loop as a whole
      have evs : Ev s s' := by
        refine ⟨fun i hi => ?_, ?_, fun i hi => ?_, ?_, fun i hi hn => ?_, ?_, fun q hq => ?_⟩
        · rw [p1'.instrs i (by rw [s1_instrs]; exact hi), s1_instrs]
        · have := p1'.isize; rw [s1_instrs] at this; exact this
        · rw [p1'.consts i (by rw [s1_consts]; exact hi), s1_consts]
        · have := p1'.csize; rw [s1_consts] at this; exact this
        · rw [p1'.jumps i (by rw [s1_jsize]; exact hi), s1_jumps]
          have : r.patch ≠ i := hn r hr_mem
          simp [Array.getElem?_setIfInBounds, this]
        · omega
        · rcases p1'.pend q hq with h | ⟨h, _⟩
          · rw [s1_pending] at h; exact .inl (hrest q h)
          · exact .inr (by omega)
      have hr_done : r ∈ Fs.done := by rw [hl', p1'.done, s1_done]; simp
      have hr_loc : RootLocated bodies Fs.toProg r := by
        refine ⟨hlab r hr_done, fun b hb => ?_⟩
        have hs2b : s2 = emit r.patch r.containing b s1 := by rw [← hs2]; simp only [bodyState, hb]
        obtain ⟨_, z2⟩ := emit_pre r.patch r.containing b s1 hcont1
        rw [← hs2b] at z2
        have hpos := len_pos b
        refine ⟨s.instrs.size, ?_, ?_, ?_⟩
        · rw [toProg_jumps, ev'.jumps r.patch (by omega) hdist, p1'.jumps r.patch (by omega), s1_jumps]
          simp [Array.getElem?_setIfInBounds, hrp]
        · have hw : Within s1.jumps.size (emit r.patch r.containing b s1) s' [] := by
            rw [← hs2b]; exact p2'.within _
          have := emit_located (bodies := bodies) (sF := Fs) b s1 s' hcont1 inv1.pend hw ev'
            (fun q hq _ => (hloc' q hq).1)
          rw [s1_instrs] at this
          exact this
        · have hspec := addTerms_spec s.instrs.size s2.instrs.back? r.term s2 (by rw [s1_instrs] at z2; omega)
          rw [hs'] at hspec
          have hia := hspec.instrsAt (P := Fs.toProg) (fun i hi => ev'.instrs i hi)
          rw [z2, s1_instrs] at hia
          have hlast : Fs.toProg.instrs[s.instrs.size + len b - 1]? = s2.instrs.back? := by
            rw [toProg_instrs, ev'.instrs _ (by have := p2'.isize; rw [s1_instrs] at z2; omega),
              p2'.instrs _ (by rw [s1_instrs] at z2; omega), Array.back?_eq_getElem?, z2, s1_instrs]
          simp only [termsAfter, hlast]
          exact hia
      refine ⟨evs.trans ev', fun q hq => ?_, fun q hq => ?_, l' ++ [r], ?_, fun q hq => ?_⟩
      · rw [hp] at hq
        simp only [List.mem_cons] at hq
        rcases hq with rfl | hq
        · exact ⟨hr_loc, inv.ref _ hr_mem⟩
        · exact hloc' q (p1'.keep q (by rw [s1_pending]; exact hq))
      · rcases hdone' q hq with h | h
        · rw [p1'.done, s1_done, List.mem_cons] at h
          rcases h with rfl | h
          · exact .inr ⟨hr_loc, inv.ref _ hr_mem⟩
          · exact .inl h
        · exact .inr h
      · rw [hl', p1'.done, s1_done]; simp
      · rw [hp] at hq
        simp only [List.mem_cons] at hq
        rcases hq with rfl | hq
        · simp
        · exact List.mem_append.2 (.inl (hmem' q (p1'.keep q (by rw [s1_pending]; exact hq))))

end loop

end Garnish.Abs
