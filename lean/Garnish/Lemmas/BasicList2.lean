/-
Totality of list construction, continued: `end_list`, the geometry of the data block through the list operations,
and `Store.buildList` as a whole.
-/
import Garnish.Lemmas.BasicList
set_option linter.unusedSimpArgs false
set_option linter.unusedVariables false
set_option maxHeartbeats 2000000
namespace Garnish.Lemmas.Runtime.Basic
open Garnish Gen Garnish.Model.Equality Garnish.Model.Runtime Garnish.Model.Runtime.Basic Garnish.BasicOpt
open Garnish.Lemmas.Runtime Garnish.Lemmas.EqualityRefine

/-- the operation left the geometry of the data block alone -/
def Geo (s s' : Store) : Prop := s'.start = s.start ∧ s'.size = s.size ∧ s'.custom = s.custom ∧ s'.grow = s.grow

theorem Geo.refl (s : Store) : Geo s s := ⟨rfl, rfl, rfl, rfl⟩
theorem Geo.trans {a b c : Store} (h1 : Geo a b) (h2 : Geo b c) : Geo a c :=
  ⟨h2.1.trans h1.1, h2.2.1.trans h1.2.1, h2.2.2.1.trans h1.2.2.1, h2.2.2.2.trans h1.2.2.2⟩

theorem Geo.layout {s s' : Store} (h : Geo s s') (hl : LayoutOK s) : LayoutOK s' := by
  unfold LayoutOK at hl ⊢; rw [h.1, h.2.1, h.2.2.1]; exact hl

theorem setCell_geo {s s' : Store} {i : Nat} {c : Cell} (h : Store.setCell s i c = .ok s') : Geo s s' := by
  unfold Store.setCell at h
  split at h
  · simp only [Outcome.ok.injEq] at h; subst h; exact ⟨rfl, rfl, rfl, rfl⟩
  · cases h

theorem addToList_geo {s s' : Store} {li a : Nat} (h : Store.addToList s li a = .ok s') : Geo s s' := by
  simp only [Store.addToList, BasicOpt.bind_eq_ok] at h
  obtain ⟨c, _, h⟩ := h
  split at h
  · split at h
    · cases h
    · simp only [BasicOpt.bind_eq_ok] at h
      obtain ⟨s1, h1, s2, h2, c2, _, h3⟩ := h
      have g2 := (setCell_geo h1).trans (setCell_geo h2)
      split at h3
      · simp only [BasicOpt.bind_eq_ok] at h3
        obtain ⟨c3, _, h4⟩ := h3
        split at h4
        · exact g2.trans (setCell_geo h4)
        · simp only [BasicOpt.pure_eq_ok] at h4; subst h4; exact g2
      · simp only [BasicOpt.pure_eq_ok] at h3; subst h3; exact g2
  · cases h

theorem foldl_addToList_geo (li : Nat) : ∀ (items : List Nat) (s s' : Store),
    items.foldlM (fun s a => s.addToList li a) s = .ok s' → Geo s s'
  | [], s, s', h => by simp only [List.foldlM, BasicOpt.pure_eq_ok] at h; subst h; exact Geo.refl s
  | a :: items, s, s', h => by
    simp only [List.foldlM, BasicOpt.bind_eq_ok] at h
    obtain ⟨s1, h1, h2⟩ := h
    exact (addToList_geo h1).trans (foldl_addToList_geo li items s1 s' h2)

/-- a push keeps the data block inside the heap (the custom block moves with the growth step) -/
theorem push_layout {s s' : Store} {c : Cell} {i : Nat} (hl : LayoutOK s) (h : s.push c = .ok (s', i)) : LayoutOK s' := by
  unfold Store.push at h
  simp only at h
  unfold LayoutOK at hl ⊢
  split at h
  · split at h
    · simp at h
    · simp only [Outcome.ok.injEq, Prod.mk.injEq] at h
      obtain ⟨hs, _⟩ := h
      subst hs
      simp only
      omega
  · simp only [Outcome.ok.injEq, Prod.mk.injEq] at h
    obtain ⟨hs, _⟩ := h
    subst hs
    exact hl

theorem pushAll_layout : ∀ (cs : List Cell) (s s' : Store), LayoutOK s → Store.pushAll s cs = .ok s' → LayoutOK s'
  | [], s, s', hl, h => by simp only [Store.pushAll, Outcome.ok.injEq] at h; subst h; exact hl
  | c :: cs, s, s', hl, h => by
    simp only [Store.pushAll, BasicOpt.bind_eq_ok] at h
    obtain ⟨⟨s1, i⟩, h1, h2⟩ := h
    exact pushAll_layout cs s1 s' (push_layout hl h1) h2

theorem startList_layout {s s' : Store} {n li : Nat} (hl : LayoutOK s) (h : Store.startList s n = .ok (s', li)) :
    LayoutOK s' := by
  simp only [Store.startList, BasicOpt.bind_eq_ok, BasicOpt.pure_eq_ok, Prod.mk.injEq] at h
  obtain ⟨⟨s1, i⟩, hp, s2, hall, hs2, _⟩ := h
  subst hs2
  exact pushAll_layout _ _ _ (push_layout hl hp) hall

/-- **`end_list` answers `Ok`** once the announced number of items is there -/
theorem endList_total {base : Array Cell} {items : List Nat} {cur : Store}
    (hinv : ∀ p, cur.cells[p]? = expCell base items items.length p) (hf : Fits cur) (hl : LayoutOK cur) :
    ∃ s' r, Store.endList cur base.size = .ok (s', r) := by
  have hli : cur.cells[base.size]? = some (.uninitializedList items.length items.length) := by
    rw [hinv]; simp [expCell]
  have hsz : base.size + 2 * items.length < cur.cells.size := exp_lt hinv (by omega) (Nat.le_refl _)
  have hchk : ¬ (cur.start + (base.size + 1 + items.length) + items.length > cur.custom.start + cur.custom.size) := by
    have := hf.1
    unfold LayoutOK at hl
    omega
  simp only [Store.endList, bind, Outcome.bind, Store.get, hli]
  rw [if_neg (by omega), if_neg hchk]
  simp only [Store.setCell, setRange_size]
  rw [if_pos (by omega)]
  exact ⟨_, _, rfl⟩

/-- **the whole protocol answers `Ok`**: `start_list(n)`, the `n` announced items, `end_list` -/
theorem buildList_total {s : Store} {items : List Nat} (hf : Fits s) (hl : LayoutOK s)
    (hlt : ∀ a ∈ items, a < s.cells.size)
    (hpair : ∀ a ∈ items, ∀ l r, s.cells[a]? = some (Cell.pair l r) → l < s.cells.size) :
    ∃ s' li, Store.buildList s items = .ok (s', li) ∧ LayoutOK s' := by
  obtain ⟨s1, hp, hc1, hf1⟩ := push_total (.uninitializedList items.length 0) hf
  obtain ⟨s2, hall, hc2, hfr2, hf2⟩ := pushAll_total (List.replicate (items.length * 2) Cell.empty) s1 hf1
  have hstart : s.startList items.length = .ok (s2, s.cells.size) := by
    simp [Store.startList, bind, Outcome.bind, hp, hall, pure]
  have hl2 := startList_layout hl hstart
  have hinv0 := startList_exp hstart
  obtain ⟨s3, hfold⟩ := addAll_total hpair items 0 s2 (by simp) hinv0 hlt
  obtain ⟨hinv3, _⟩ := addAll_exp items 0 s2 s3 (by simp) hinv0 hlt hfold
  simp only [Nat.zero_add] at hinv3
  have hf3 := foldl_addToList_fits _ _ _ _ hf2 hfold
  have hl3 := (foldl_addToList_geo _ _ _ _ hfold).layout hl2
  obtain ⟨s4, r, hend⟩ := endList_total hinv3 hf3 hl3
  refine ⟨s4, r, by simp [Store.buildList, bind, Outcome.bind, hstart, hfold, hend], ?_⟩
  -- `end_list` writes cells only
  simp only [Store.endList, BasicOpt.bind_eq_ok] at hend
  obtain ⟨c, _, hend⟩ := hend
  split at hend
  · split at hend
    · cases hend
    · split at hend
      · cases hend
      · simp only [BasicOpt.bind_eq_ok, BasicOpt.pure_eq_ok, Prod.mk.injEq] at hend
        obtain ⟨s5, h5, h6, _⟩ := hend
        subst h6
        exact (setCell_geo h5).layout (by unfold LayoutOK at hl3 ⊢; exact hl3)
  · cases hend

end Garnish.Lemmas.Runtime.Basic
