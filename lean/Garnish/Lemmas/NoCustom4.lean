/-
`HostNoCustom`, `NoCustom` (machine state), `ConstsNC`; `applyKind` hands on custom-free values (`KindNC`).
-/
import Garnish.Lemmas.NoCustom3
set_option linter.unusedSimpArgs false
set_option linter.unusedVariables false
namespace Garnish.Lemmas.NoCustom
open Garnish Gen Garnish.Abs

variable {F : Type} (fo : FloatOps F)

/-- the host never answers with a value that contains `custom` -/
structure HostNoCustom (host : Host F) : Prop where
  defer : ∀ op l r v, host.defer op l r = some v → nc v = true
  resolve : ∀ y v, host.resolve y = some v → nc v = true
  apply : ∀ n a v, host.apply n a = some v → nc v = true

/-- no `custom` anywhere in the machine state: registers, input values, the registers the frames saved -/
structure NoCustom (m : MState F) : Prop where
  regs : ncL m.regs = true
  vals : ncL m.vals = true
  frames : ∀ fr ∈ m.frames, ncL fr.saved = true

/-- the constants are custom-free -/
def ConstsNC (P : Prog F) : Prop := ∀ (k : Nat) (v : Val F), P.consts[k]? = some v → nc v = true

theorem nc_narrowRange {a b v : Val F} (h : narrowRange fo a b = .ok v) : nc v = true := by
  unfold narrowRange at h
  split at h
  · split at h
    · split at h
      · cases h; rfl
      · cases h
    · cases h
  · cases h

theorem nc_merge {l r v : Val F} (h : mergeSymList l r = some v) : nc v = true := by
  cases l <;> cases r <;> simp [mergeSymList] at h <;> (subst h; rfl)

theorem outNC_acc {a : Acc F} (h : ∀ v, a = .some v → nc v = true) :
    OutNC (match a with
      | .some v => OpOut.val v | .none => .val .unit | .unsupported => .err .unsupported | .err e => .err e) := by
  cases a with
  | some v => exact h v rfl
  | none => rfl
  | unsupported => trivial
  | err e => trivial

/-- what `applyKind` hands on is custom-free -/
def KindNC : ApplyKind F → Prop
  | .enter _ input => nc input = true
  | .external _ arg => nc arg = true
  | .out o => OutNC o

theorem acc_some {a : Acc F} {k : ApplyKind F}
    (hk : (match a with
      | .some v => ApplyKind.out (.val v) | .none => .out (.val .unit) | .unsupported => .out (.err .unsupported)
      | .err e => .out (.err e)) = k) (h : ∀ v, a = .some v → nc v = true) : KindNC k := by
  cases a with
  | some v => subst hk; exact h v rfl
  | none => subst hk; rfl
  | unsupported => subst hk; trivial
  | err e => subst hk; trivial

/-- `apply_internal` at value level: the new input value of an entered body, the argument offered to the host and the
value of an outcome are custom-free -/
theorem applyKind_nc (instr : Instruction) (ur : Bool) {l r : Val F} (hl : nc l = true) (hr : nc r = true) :
    KindNC (applyKind fo instr ur l r) := by
  generalize hk : applyKind fo instr ur l r = k
  unfold applyKind at hk
  simp only [] at hk
  split at hk
  · subst hk; exact hr
  · subst hk; exact hr
  · subst hk
    simp [nc] at hl
    cases ur
    · exact hl
    · show (nc _ && nc _) = true; rw [hl, hr]; rfl
  · subst hk; rfl
  · split at hk
    · subst hk; exact nc_merge ‹_›
    · subst hk; trivial
  · split at hk
    · subst hk; exact nc_merge ‹_›
    · subst hk; trivial
  · split at hk
    · subst hk; exact nc_merge ‹_›
    · subst hk; trivial
  · split at hk
    · subst hk; exact nc_narrowRange fo ‹_›
    · subst hk; trivial
  · split at hk
    · subst hk
      simp [nc] at hl
      show (nc _ && nc _) = true
      rw [hl.1, nc_narrowRange fo ‹_›]; rfl
    · subst hk; trivial
  · exact acc_some hk (fun v h => nc_accessInt fo hl h)
  · exact acc_some hk (fun v h => nc_accessInt fo hl h)
  · exact acc_some hk (fun v h => nc_accessInt fo hl h)
  · exact acc_some hk (fun v h => nc_accessSym hl h)
  · exact acc_some hk (fun v h => nc_accessSym hl h)
  · exact acc_some hk (fun v h => nc_accessPath fo _ _ _ hl h)
  all_goals first
    | (subst hk; show (nc _ && nc _) = true; rw [hl, hr]; rfl)
    | (subst hk; trivial)

end Garnish.Lemmas.NoCustom
