/-
Lemmas for the step simulation, part 3: the instructions of Abs/Machine's generic arm — arithmetic, bitwise, `Not`,
`Tis`, `Xor`, ranges, `Concat`, `PartialApply`, the comparisons, `Access` — each from its handler refinement theorem.
-/
import Garnish.Lemmas.RuntimeStep2
import Garnish.Props.RuntimeRefineLogic
import Garnish.Props.RuntimeRefineArith
import Garnish.Props.RuntimeRefineCompare
import Garnish.Props.RuntimeRefineData
import Garnish.Props.RuntimeRefineAccess
set_option linter.unusedSimpArgs false
set_option linter.unusedVariables false
namespace Garnish.Lemmas.Runtime
open Garnish Gen Garnish.Abs Garnish.Model.Equality Garnish.Model.Runtime Garnish.Props.RuntimeRefine

variable {F σ : Type} {S : RStore F σ} {P : Prog F} {host : Host F} (fo : FloatOps F)

theorem arithBinary_defer {op : Instruction} {nop : NumOp} {vl vr : Val F} {op' : Instruction} {a b : Val F}
    (h : arithBinary fo op nop vl vr = .defer op' a b) : a = vl ∧ b = vr := by
  cases vl <;> cases vr <;> simp [arithBinary] at h <;> first | exact ⟨h.2.1.symm, h.2.2.symm⟩

theorem arithUnary_defer {op : Instruction} {nop : NumOp} {v : Val F} {op' : Instruction} {a b : Val F}
    (h : arithUnary fo op nop v = .defer op' a b) : a = v ∧ b = .unit := by
  cases v <;> simp [arithUnary] at h <;> first | exact ⟨h.2.1.symm, h.2.2.symm⟩

theorem arith_facts_binary {op : Instruction} {nop : NumOp} (hop : numOpOf op = some nop) (hbin : nop.isUnary = false)
    (fuel : Nat) (H : OtherHandlers σ) (operand : Option Nat) (vl vr : Val F) :
    isGeneric op = true ∧ unaryOp fo op vr = none ∧ binaryOp fo op vl vr = some (arithBinary fo op nop vl vr) ∧
    dispatch fo S fuel H op operand = performOp S op (Number.apply fo nop) := by
  cases op <;> simp [numOpOf] at hop <;> subst hop <;> simp [NumOp.isUnary] at hbin <;>
    exact ⟨rfl, rfl, rfl, rfl⟩

theorem arith_facts_unary {op : Instruction} {nop : NumOp} (hop : numOpOf op = some nop) (hun : nop.isUnary = true)
    (fuel : Nat) (H : OtherHandlers σ) (operand : Option Nat) (v : Val F) :
    isGeneric op = true ∧ unaryOp fo op v = some (arithUnary fo op nop v) ∧
    dispatch fo S fuel H op operand = performUnaryOp S op (fun x => Number.apply fo nop x x) := by
  cases op <;> simp [numOpOf] at hop <;> subst hop <;> simp [NumOp.isUnary] at hun <;>
    exact ⟨rfl, rfl, rfl⟩

/-- the twelve binary arithmetic / bitwise instructions -/
theorem stepSim_arith_binary (L : StoreLaws S) (HR : HostRefines S host) (fuel : Nat) (H : OtherHandlers σ)
    {s : σ} {m : MState F} (hsim : Sim S P s m) {op : Instruction} {operand : Option Nat} {nop : NumOp}
    (hfetch : P.instrs[m.pc]? = some (op, operand)) (hop : numOpOf op = some nop) (hbin : nop.isUnary = false)
    {vr vl : Val F} {rs : List (Val F)} (hregs : m.regs = vr :: vl :: rs) :
    StepSim fo host S P fuel H s m := by
  obtain ⟨hg, hu, hb, hdisp⟩ := arith_facts_binary (S := S) fo hop hbin fuel H operand vl vr
  exact stepSim_binary fo L HR fuel H hsim hfetch hg hregs hu hb
    (fun r l rest hr dl dr => by rw [hdisp]; exact C08_refine_perform_op fo L op nop hr dl dr)
    (fun op' a b h => arithBinary_defer fo h)

/-- the three unary ones -/
theorem stepSim_arith_unary (L : StoreLaws S) (HR : HostRefines S host) (fuel : Nat) (H : OtherHandlers σ)
    {s : σ} {m : MState F} (hsim : Sim S P s m) {op : Instruction} {operand : Option Nat} {nop : NumOp}
    (hfetch : P.instrs[m.pc]? = some (op, operand)) (hop : numOpOf op = some nop) (hun : nop.isUnary = true)
    {v : Val F} {rs : List (Val F)} (hregs : m.regs = v :: rs) :
    StepSim fo host S P fuel H s m := by
  obtain ⟨hg, hu, hdisp⟩ := arith_facts_unary (S := S) fo hop hun fuel H operand v
  exact stepSim_unary fo L HR fuel H hsim hfetch hg hregs hu
    (fun a rest hr da => by rw [hdisp]; exact C08_refine_perform_unary_op fo L op nop hr da)
    (fun op' a b h => arithUnary_defer fo h)

/-- `Not`, `Tis` -/
theorem stepSim_not (L : StoreLaws S) (HR : HostRefines S host) (fuel : Nat) (H : OtherHandlers σ)
    {s : σ} {m : MState F} (hsim : Sim S P s m) {operand : Option Nat}
    (hfetch : P.instrs[m.pc]? = some (.not, operand)) {v : Val F} {rs : List (Val F)} (hregs : m.regs = v :: rs) :
    StepSim fo host S P fuel H s m :=
  stepSim_unary fo L HR fuel H hsim hfetch rfl hregs (o := .val (Val.ofBool (!v.truthy))) rfl
    (fun a rest hr da => C10_refine_not L hr da) (fun _ _ _ h => by cases h)

theorem stepSim_tis (L : StoreLaws S) (HR : HostRefines S host) (fuel : Nat) (H : OtherHandlers σ)
    {s : σ} {m : MState F} (hsim : Sim S P s m) {operand : Option Nat}
    (hfetch : P.instrs[m.pc]? = some (.tis, operand)) {v : Val F} {rs : List (Val F)} (hregs : m.regs = v :: rs) :
    StepSim fo host S P fuel H s m :=
  stepSim_unary fo L HR fuel H hsim hfetch rfl hregs (o := .val (Val.ofBool v.truthy)) rfl
    (fun a rest hr da => C10_refine_tis L hr da) (fun _ _ _ h => by cases h)

/-- `Xor`, `Concat`, `PartialApply`: a value, never the host -/
theorem stepSim_xor (L : StoreLaws S) (HR : HostRefines S host) (fuel : Nat) (H : OtherHandlers σ)
    {s : σ} {m : MState F} (hsim : Sim S P s m) {operand : Option Nat}
    (hfetch : P.instrs[m.pc]? = some (.xor, operand)) {vr vl : Val F} {rs : List (Val F)}
    (hregs : m.regs = vr :: vl :: rs) : StepSim fo host S P fuel H s m :=
  stepSim_binary fo L HR fuel H hsim hfetch rfl hregs (o := .val (Val.ofBool (vl.truthy != vr.truthy))) rfl rfl
    (fun r l rest hr dl dr => C10_refine_xor L hr dl dr) (fun _ _ _ h => by cases h)

theorem stepSim_concat (L : StoreLaws S) (HR : HostRefines S host) (fuel : Nat) (H : OtherHandlers σ)
    {s : σ} {m : MState F} (hsim : Sim S P s m) {operand : Option Nat}
    (hfetch : P.instrs[m.pc]? = some (.concat, operand)) {vr vl : Val F} {rs : List (Val F)}
    (hregs : m.regs = vr :: vl :: rs) : StepSim fo host S P fuel H s m :=
  stepSim_binary fo L HR fuel H hsim hfetch rfl hregs (o := .val (.concat vl vr)) rfl rfl
    (fun r l rest hr dl dr => C06_refine_concat L hr dl dr) (fun _ _ _ h => by cases h)

theorem stepSim_partialApply (L : StoreLaws S) (HR : HostRefines S host) (fuel : Nat) (H : OtherHandlers σ)
    {s : σ} {m : MState F} (hsim : Sim S P s m) {operand : Option Nat}
    (hfetch : P.instrs[m.pc]? = some (.partialApply, operand)) {vr vl : Val F} {rs : List (Val F)}
    (hregs : m.regs = vr :: vl :: rs) : StepSim fo host S P fuel H s m :=
  stepSim_binary fo L HR fuel H hsim hfetch rfl hregs (o := .val (.part vl vr)) rfl rfl
    (fun r l rest hr dl dr => C06_refine_partial_apply L hr dl dr) (fun _ _ _ h => by cases h)

theorem makeRange_defer {se ee : Bool} {vl vr : Val F} {op' : Instruction} {a b : Val F}
    (h : Abs.makeRange fo se ee vl vr = .defer op' a b) : a = vl ∧ b = vr := by
  cases vl <;> cases vr <;> simp [Abs.makeRange] at h <;> first
    | exact ⟨h.2.1.symm, h.2.2.symm⟩
    | (split at h <;> cases h)

/-- the four range instructions -/
theorem stepSim_make_range (L : StoreLaws S) (HR : HostRefines S host) (fuel : Nat) (H : OtherHandlers σ)
    {s : σ} {m : MState F} (hsim : Sim S P s m) {op : Instruction} {operand : Option Nat} (se ee : Bool)
    (hop : op = rangeInstr se ee)
    (hfetch : P.instrs[m.pc]? = some (op, operand)) {vr vl : Val F} {rs : List (Val F)}
    (hregs : m.regs = vr :: vl :: rs) : StepSim fo host S P fuel H s m := by
  subst hop
  have facts : isGeneric (rangeInstr se ee) = true ∧ unaryOp fo (rangeInstr se ee) vr = none ∧
      binaryOp fo (rangeInstr se ee) vl vr = some (Abs.makeRange fo se ee vl vr) ∧
      dispatch fo S fuel H (rangeInstr se ee) operand = makeRangeInternal fo S se ee := by
    cases se <;> cases ee <;> exact ⟨rfl, rfl, rfl, rfl⟩
  obtain ⟨hg, hu, hb, hdisp⟩ := facts
  exact stepSim_binary fo L HR fuel H hsim hfetch hg hregs hu hb
    (fun r l rest hr dl dr => by rw [hdisp]; exact C08_refine_make_range_internal fo L se ee hr dl dr)
    (fun op' a b h => makeRange_defer fo h)

/-- the four comparison instructions, where the code-faithful comparison agrees with Abs/Ops (everywhere except
slices of text / bytes with a range `sliceStart` rejects) -/
theorem stepSim_compare (L : StoreLaws S) (HR : HostRefines S host) (fuel : Nat) (H : OtherHandlers σ)
    {s : σ} {m : MState F} (hsim : Sim S P s m) {op : Instruction} {operand : Option Nat}
    (hop : op = .lessThan ∨ op = .lessThanOrEqual ∨ op = .greaterThan ∨ op = .greaterThanOrEqual)
    (hfetch : P.instrs[m.pc]? = some (op, operand)) {vr vl : Val F} {rs : List (Val F)}
    (hregs : m.regs = vr :: vl :: rs)
    (ha : textLen vl ≤ 2147483647) (hb : textLen vr ≤ 2147483647) (hf : cmpFuel vl vr ≤ fuel)
    (hagree : compareValsR fo vl vr = some (.ok (compareVals fo vl vr))) :
    StepSim fo host S P fuel H s m := by
  rcases hop with rfl | rfl | rfl | rfl
  · exact stepSim_binary fo L HR fuel H hsim hfetch rfl hregs (o := .val (Abs.lessThan fo vl vr)) rfl rfl
      (fun r l rest hr dl dr => (C12_refine_less_than_abs fo L hr dl dr ha hb fuel hf hagree).1)
      (fun _ _ _ h => by cases h)
  · exact stepSim_binary fo L HR fuel H hsim hfetch rfl hregs (o := .val (Abs.lessThanOrEqual fo vl vr)) rfl rfl
      (fun r l rest hr dl dr => (C12_refine_less_than_abs fo L hr dl dr ha hb fuel hf hagree).2.1)
      (fun _ _ _ h => by cases h)
  · exact stepSim_binary fo L HR fuel H hsim hfetch rfl hregs (o := .val (Abs.greaterThan fo vl vr)) rfl rfl
      (fun r l rest hr dl dr => (C12_refine_less_than_abs fo L hr dl dr ha hb fuel hf hagree).2.2.1)
      (fun _ _ _ h => by cases h)
  · exact stepSim_binary fo L HR fuel H hsim hfetch rfl hregs (o := .val (Abs.greaterThanOrEqual fo vl vr)) rfl rfl
      (fun r l rest hr dl dr => (C12_refine_less_than_abs fo L hr dl dr ha hb fuel hf hagree).2.2.2)
      (fun _ _ _ h => by cases h)

theorem access_defer {vl vr : Val F} {op' : Instruction} {a b : Val F}
    (h : Abs.access fo vl vr = .defer op' a b) : a = vl ∧ b = vr := by
  rw [access_arm] at h
  cases harm : accessArm vl.typeOf vr.typeOf <;> rw [harm] at h <;> simp only [] at h
  · cases hm : mergeSymList vl vr <;> rw [hm] at h <;> cases h
  · cases hg : getAccess fo vr vl <;> rw [hg] at h <;> simp only [] at h <;> cases h
    exact ⟨rfl, rfl⟩
  · cases h; exact ⟨rfl, rfl⟩

/-- `Access` -/
theorem stepSim_access (L : StoreLaws S) (HR : HostRefines S host) (fuel : Nat) (H : OtherHandlers σ)
    {s : σ} {m : MState F} (hsim : Sim S P s m) {operand : Option Nat}
    (hfetch : P.instrs[m.pc]? = some (.access, operand)) {vr vl : Val F} {rs : List (Val F)}
    (hregs : m.regs = vr :: vl :: rs)
    (hd : accessArm vl.typeOf vr.typeOf = .get → AccessDomain vl ∧ accessFuel vl ≤ fuel ∧
      ∀ n, vr = .num n → (∃ i, n = .int i) ∧ RangeOrdered fo n vl) :
    StepSim fo host S P fuel H s m :=
  stepSim_binary fo L HR fuel H hsim hfetch rfl hregs (o := Abs.access fo vl vr) rfl rfl
    (fun r l rest hr dl dr => C08_refine_access fo L fuel hr dl dr hd) (fun op' a b h => access_defer fo h)

end Garnish.Lemmas.Runtime
