/-
Relativised step theorem, group 1 (logic, arithmetic, bitwise): `MDeepN`, the generic run theorem
`executeLoop_spec_gen` (any coverage predicate `ok` with a step theorem), `MachOKOn1`, `refine_step_on1`.
-/
import Garnish.Lemmas.RuntimeOnStep3
set_option linter.unusedSimpArgs false
set_option linter.unusedVariables false
namespace Garnish.Lemmas.Runtime.On
open Garnish Gen Garnish.Abs Garnish.Model.Equality Garnish.Model.Runtime Garnish.Lemmas.Runtime
open Garnish.Props.RuntimeRefine

variable {F σ : Type} {S : RStore F σ} {Inv : σ → Prop} {Rd : σ → Nat → Prop} {P : Prog F} {host : Host F}
  (fo : FloatOps F)

/-- the instruction pops `k` registers and stays above what the newest frame saved -/
def MDeepN (m : MState F) (k : Nat) : Prop := ∀ fr frs, m.frames = fr :: frs → fr.saved.length + k ≤ m.regs.length

theorem MDeepN.one {m : MState F} (h : MDeepN m 1) {v : Val F} {rs : List (Val F)} (hr : m.regs = v :: rs) : MDeep m rs :=
  fun fr frs hf => by have := h fr frs hf; rw [hr] at this; simp at this; omega

theorem MDeepN.two {m : MState F} (h : MDeepN m 2) {a b : Val F} {rs : List (Val F)} (hr : m.regs = a :: b :: rs) :
    MDeep m rs :=
  fun fr frs hf => by have := h fr frs hf; rw [hr] at this; simp at this; omega

/-- a step theorem for the instructions `ok` allows gives the run theorem for the runs `ok` allows -/
def RunOKG (ok : MState F → Instruction → Option Nat → Prop) (host : Host F) (P : Prog F) : Nat → MState F → Prop
  | 0, _ => True
  | n + 1, m =>
    (∀ instr operand, P.instrs[m.pc]? = some (instr, operand) → ok m instr operand) ∧
    ∀ m', Abs.step fo host P m = .running m' → RunOKG ok host P n m'

theorem executeLoop_spec_gen (ok : MState F → Instruction → Option Nat → Prop) (fuel : Nat) (H : OtherHandlers σ)
    (hstep : ∀ (s : σ) (m : MState F) instr operand, Sim S P s m → Inv s → Loaded S P s →
      P.instrs[m.pc]? = some (instr, operand) → ok m instr operand → StepSimOn fo host S Inv P fuel H s m) :
    ∀ (n : Nat) (s : σ) (m : MState F), Sim S P s m → Inv s → Loaded S P s → RunOKG fo ok host P n m →
      ∀ (m' : MState F) (k : Nat), Abs.run fo host P n m = (.halted m', k) →
        ∃ s', executeLoop fo S fuel H n s = .ok ((.end_, k), s') ∧
          SimD S P s' m'.regs m'.vals m'.frames ∧ DecKept S s s' ∧ Inv s' := by
  intro n
  induction n with
  | zero => intro s m _ _ _ _ m' k h; simp [Abs.run] at h
  | succ n ih =>
    intro s m hsim hi hl hok m' k hrun
    obtain ⟨hmach, hnext⟩ := hok
    have hstepsim : StepSimOn fo host S Inv P fuel H s m := by
      cases hf : P.instrs[m.pc]? with
      | none => exact refine_step_end_on fo fuel H hsim hi hf
      | some p =>
        obtain ⟨instr, operand⟩ := p
        exact hstep s m instr operand hsim hi hl hf (hmach instr operand hf)
    unfold StepSimOn at hstepsim
    rw [Abs.run] at hrun
    cases hst : Abs.step fo host P m with
    | running m1 =>
      rw [hst] at hstepsim hrun
      obtain ⟨s1, h1, hs1, hk1, i1⟩ := hstepsim
      simp only [] at hrun
      cases hr : Abs.run fo host P n m1 with
      | mk r k' =>
        rw [hr] at hrun
        simp only [Prod.mk.injEq] at hrun
        obtain ⟨rfl, rfl⟩ := hrun
        obtain ⟨s2, h2, hd2, hk2, i2⟩ := ih s1 m1 hs1 i1 (loaded_kept hl hk1) (hnext m1 hst) m' k' hr
        refine ⟨s2, ?_, hd2, fun a v h => hk2 a v (hk1 a v h), i2⟩
        rw [executeLoop, bind_ok h1]
        simp only []
        rw [bind_ok h2]; rfl
    | halted m1 =>
      rw [hst] at hstepsim hrun
      obtain ⟨s1, h1, hd1, hk1, i1⟩ := hstepsim
      simp only [Prod.mk.injEq, StepRes.halted.injEq] at hrun
      obtain ⟨rfl, rfl⟩ := hrun
      exact ⟨s1, by rw [executeLoop, bind_ok h1]; rfl, hd1, hk1, i1⟩
    | err e =>
      rw [hst] at hrun
      simp at hrun

/-- a binary instruction of the generic arm, whatever the registers hold -/
theorem total_binary (fuel : Nat) (H : OtherHandlers σ) (s : σ) {m : MState F} {op : Instruction}
    {operand : Option Nat} (hfetch : P.instrs[m.pc]? = some (op, operand)) (hgen : isGeneric op = true)
    (hu : ∀ v : Val F, unaryOp fo op v = none)
    (full : ∀ vr vl rs, m.regs = vr :: vl :: rs → StepSimOn fo host S Inv P fuel H s m) :
    StepSimOn fo host S Inv P fuel H s m := by
  cases hr : m.regs with
  | nil =>
    refine stepSimOn_of_err fo fuel H s (e := .state) ?_
    unfold Abs.step; rw [hfetch]
    cases op <;> simp [isGeneric] at hgen <;> simp only [hr]
  | cons vr t =>
    cases t with
    | nil =>
      refine stepSimOn_of_err fo fuel H s (e := .state) ?_
      unfold Abs.step; rw [hfetch]
      cases op <;> simp [isGeneric] at hgen <;> simp only [hr, hu]
    | cons vl rs => exact full vr vl rs hr

/-- a unary instruction of the generic arm -/
theorem total_unary (fuel : Nat) (H : OtherHandlers σ) (s : σ) {m : MState F} {op : Instruction}
    {operand : Option Nat} (hfetch : P.instrs[m.pc]? = some (op, operand)) (hgen : isGeneric op = true)
    (full : ∀ v rs, m.regs = v :: rs → StepSimOn fo host S Inv P fuel H s m) :
    StepSimOn fo host S Inv P fuel H s m := by
  cases hr : m.regs with
  | nil =>
    refine stepSimOn_of_err fo fuel H s (e := .state) ?_
    unfold Abs.step; rw [hfetch]
    cases op <;> simp [isGeneric] at hgen <;> simp only [hr]
  | cons v rs => exact full v rs hr


section totals
variable (L : StoreLawsOn S Inv Rd) (HR : HostRefinesI S Inv host) (fuel : Nat) (H : OtherHandlers σ) {s : σ}
  {m : MState F} (hsim : Sim S P s m) (hi : Inv s) {operand : Option Nat}
include L hsim hi

theorem total_and (hfetch : P.instrs[m.pc]? = some (.and, operand)) (hok : MDeepN m 1) : StepSimOn fo host S Inv P fuel H s m := by
  cases operand with
  | none => machine_errs_on fo, fuel, H, s, hfetch, .implementation, []
  | some j =>
    cases hr : m.regs with
    | nil => machine_errs_on fo, fuel, H, s, hfetch, .state, [hr]
    | cons d rs =>
      cases hj : P.jumps[j]? with
      | some t => exact stepSim_and fo L fuel H hsim hfetch hj hr hi (hok.one hr)
      | none =>
        cases hd : d.truthy with
        | true => machine_errs_on fo, fuel, H, s, hfetch, .state, [hr, hd, jumpTarget_none hj, finish, Except.map]
        | false =>
          -- a false operand never looks at the jump table
          have hreg := hsim.2.regs
          rw [hr] at hreg
          obtain ⟨a, rest, hsr, da, tl⟩ := decodesList_cons_inv hreg
          have hdeep : Deep S s rest := deep_of_sim hsim.2 tl (hok.one hr)
          have h := C10_refine_and L j hsr da
          rw [hd] at h
          simp only [Bool.false_eq_true, if_false] at h
          obtain ⟨b, s1, h1, d1, e1⟩ := h
          refine stepSim_of fo L fuel H hsim hfetch (r := .ok ({ m with regs := .fls :: rs }, m.pc + 1))
            (by unfold Abs.step; rw [hfetch]; simp only [hr, hd, Bool.false_eq_true, if_false]; rfl) ?_
          exact handlerSim_ofEff hsim.2 (md := { m with regs := .fls :: rs }) h1 e1 (.cons d1 (Sim.tail e1 tl))
            (Sim.tail e1 hsim.2.vals) rfl (by simp [hsim.1])

theorem total_or (hfetch : P.instrs[m.pc]? = some (.or, operand)) (hok : MDeepN m 1) : StepSimOn fo host S Inv P fuel H s m := by
  cases operand with
  | none => machine_errs_on fo, fuel, H, s, hfetch, .implementation, []
  | some j =>
    cases hr : m.regs with
    | nil => machine_errs_on fo, fuel, H, s, hfetch, .state, [hr]
    | cons d rs =>
      cases hj : P.jumps[j]? with
      | some t => exact stepSim_or fo L fuel H hsim hfetch hj hr hi (hok.one hr)
      | none =>
        cases hd : d.truthy with
        | false =>
          machine_errs_on fo, fuel, H, s, hfetch, .state, [hr, hd, jumpTarget_none hj, finish, Except.map]
        | true =>
          have hreg := hsim.2.regs
          rw [hr] at hreg
          obtain ⟨a, rest, hsr, da, tl⟩ := decodesList_cons_inv hreg
          have hdeep : Deep S s rest := deep_of_sim hsim.2 tl (hok.one hr)
          have h := C10_refine_or L j hsr da
          rw [hd] at h
          simp only [if_true] at h
          obtain ⟨b, s1, h1, d1, e1⟩ := h
          refine stepSim_of fo L fuel H hsim hfetch (r := .ok ({ m with regs := .tru :: rs }, m.pc + 1))
            (by unfold Abs.step; rw [hfetch]; simp only [hr, hd, if_true]; rfl) ?_
          exact handlerSim_ofEff hsim.2 (md := { m with regs := .tru :: rs }) h1 e1 (.cons d1 (Sim.tail e1 tl))
            (Sim.tail e1 hsim.2.vals) rfl (by simp [hsim.1])


end totals

/-- group 1: logic and arithmetic / bitwise -/
def MachOKOn1 (P : Prog F) (m : MState F) (instr : Instruction) (operand : Option Nat) : Prop :=
  match instr with
  | .add | .subtract | .multiply | .divide | .integerDivide | .power | .remainder | .bitwiseAnd | .bitwiseOr
  | .bitwiseXor | .bitwiseShiftLeft | .bitwiseShiftRight | .xor => MDeepN m 2
  | .opposite | .absoluteValue | .bitwiseNot | .not | .tis | .and | .or => MDeepN m 1
  | _ => MachOKOn P m instr operand

theorem refine_step_on1 (L : StoreLawsOn S Inv Rd) (HR : HostRefinesI S Inv host) (fuel : Nat) (H : OtherHandlers σ)
    {s : σ} {m : MState F} (hsim : Sim S P s m) (hi : Inv s) (hl : Loaded S P s) {instr : Instruction}
    {operand : Option Nat} (hfetch : P.instrs[m.pc]? = some (instr, operand)) (hok : MachOKOn1 P m instr operand) :
    StepSimOn fo host S Inv P fuel H s m := by
  have arithB : ∀ nop : NumOp, numOpOf instr = some nop → nop.isUnary = false → MDeepN m 2 →
      StepSimOn fo host S Inv P fuel H s m :=
    fun nop h1 h2 hm => total_binary fo fuel H s hfetch
      (arith_facts_binary (S := S) fo h1 h2 fuel H operand .unit .unit).1
      (fun v => (arith_facts_binary (S := S) fo h1 h2 fuel H operand .unit v).2.1)
      (fun vr vl rs hr => stepSim_arith_binary fo L HR fuel H hsim hfetch h1 h2 hr hi (hm.two hr))
  have arithU : ∀ nop : NumOp, numOpOf instr = some nop → nop.isUnary = true → MDeepN m 1 →
      StepSimOn fo host S Inv P fuel H s m :=
    fun nop h1 h2 hm => total_unary fo fuel H s hfetch (arith_facts_unary (S := S) fo h1 h2 fuel H operand .unit).1
      (fun v rs hr => stepSim_arith_unary fo L HR fuel H hsim hfetch h1 h2 hr hi (hm.one hr))
  cases instr
  case add => exact arithB .plus rfl rfl hok
  case subtract => exact arithB .subtract rfl rfl hok
  case multiply => exact arithB .multiply rfl rfl hok
  case divide => exact arithB .divide rfl rfl hok
  case integerDivide => exact arithB .integerDivide rfl rfl hok
  case power => exact arithB .power rfl rfl hok
  case opposite => exact arithU .opposite rfl rfl hok
  case absoluteValue => exact arithU .absoluteValue rfl rfl hok
  case remainder => exact arithB .remainder rfl rfl hok
  case bitwiseNot => exact arithU .bitwiseNot rfl rfl hok
  case bitwiseAnd => exact arithB .bitwiseAnd rfl rfl hok
  case bitwiseOr => exact arithB .bitwiseOr rfl rfl hok
  case bitwiseXor => exact arithB .bitwiseXor rfl rfl hok
  case bitwiseShiftLeft => exact arithB .bitwiseShiftLeft rfl rfl hok
  case bitwiseShiftRight => exact arithB .bitwiseShiftRight rfl rfl hok
  case and => exact total_and fo L fuel H hsim hi hfetch hok
  case or => exact total_or fo L fuel H hsim hi hfetch hok
  case xor =>
    exact total_binary fo fuel H s hfetch rfl (fun _ => rfl)
      (fun vr vl rs hr => stepSim_xor fo L HR fuel H hsim hfetch hr hi (MDeepN.two hok hr))
  case not =>
    exact total_unary fo fuel H s hfetch rfl
      (fun v rs hr => stepSim_not fo L HR fuel H hsim hfetch hr hi (MDeepN.one hok hr))
  case tis =>
    exact total_unary fo fuel H s hfetch rfl
      (fun v rs hr => stepSim_tis fo L HR fuel H hsim hfetch hr hi (MDeepN.one hok hr))
  all_goals exact refine_step_on fo L fuel H hsim hi hl hfetch hok

end Garnish.Lemmas.Runtime.On
