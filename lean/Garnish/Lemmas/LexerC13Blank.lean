/-
Helper lemmas for property C13 (Garnish/Props/C13.lean), about the lexer model Garnish.Model.Lexer — part 3: blank lines (`Boundary`), characters that cannot start a token, first operator lemmas.
(The C13 lemmas are split over LexerC13Core, LexerC13Loop, LexerC13Blank, LexerC13Tree and LexerC13, each importing
the previous one; importing Garnish.Lemmas.LexerC13 gives all of them.)
-/
import Garnish.Lemmas.LexerC13Loop
set_option linter.unusedSimpArgs false
set_option linter.unusedVariables false
namespace Garnish.Model.Lexer

/-! ## blank lines -/

/-- `lex`'s loop on a prefix of the input (the same steps as `lexLoop`, without the end-of-input phase) -/
def runChars (cc : CharClass) : List Char → Lexer → List LexerToken → Outcome (Lexer × List LexerToken)
  | [], σ, toks => .ok (σ, toks)
  | c :: rest, σ, toks =>
    if σ.result.isErr then .err .syntax else
    match processChar cc σ c with
    | .ok (σ1, some t) =>
      match σ1.result with
      | .err => .err .syntax
      | .ok => runChars cc rest σ1 (toks ++ [t])
    | .ok (σ1, none) => runChars cc rest σ1 toks
    | .err e => .err e
    | .panic s => .panic s
    | .fuelOut => .fuelOut

theorem lexLoop_append (cc : CharClass) : ∀ (x rest : List Char) (σ σ1 : Lexer) (toks toks1 : List LexerToken),
    runChars cc x σ toks = .ok (σ1, toks1) → lexLoop cc (x ++ rest) σ toks = lexLoop cc rest σ1 toks1
  | [], rest, σ, σ1, toks, toks1, h => by
    simp only [runChars, Outcome.ok.injEq, Prod.mk.injEq] at h
    obtain ⟨rfl, rfl⟩ := h; rfl
  | c :: x, rest, σ, σ1, toks, toks1, h => by
    simp only [runChars] at h
    simp only [List.cons_append, lexLoop]
    split at h
    · cases h
    · rename_i hE
      simp only [hE, Bool.false_eq_true, ↓reduceIte]
      cases hp : processChar cc σ c with
      | ok r =>
        obtain ⟨σ2, ot⟩ := r
        rw [hp] at h
        cases ot with
        | none => exact lexLoop_append cc x rest σ2 σ1 toks toks1 h
        | some t =>
          simp only [] at h ⊢
          cases hr : σ2.result with
          | err => rw [hr] at h; cases h
          | ok => rw [hr] at h; exact lexLoop_append cc x rest σ2 σ1 _ toks1 h
      | err e => rw [hp] at h; cases h
      | panic m => rw [hp] at h; cases h
      | fuelOut => rw [hp] at h; cases h

theorem runChars_append (cc : CharClass) : ∀ (x y : List Char) (σ σ1 : Lexer) (toks toks1 : List LexerToken),
    runChars cc x σ toks = .ok (σ1, toks1) → runChars cc (x ++ y) σ toks = runChars cc y σ1 toks1
  | [], y, σ, σ1, toks, toks1, h => by
    simp only [runChars, Outcome.ok.injEq, Prod.mk.injEq] at h
    obtain ⟨rfl, rfl⟩ := h; rfl
  | c :: x, y, σ, σ1, toks, toks1, h => by
    simp only [runChars] at h
    simp only [List.cons_append, runChars]
    split at h
    · cases h
    · rename_i hE
      simp only [hE, Bool.false_eq_true, ↓reduceIte]
      cases hp : processChar cc σ c with
      | ok r =>
        obtain ⟨σ2, ot⟩ := r
        rw [hp] at h
        cases ot with
        | none => exact runChars_append cc x y σ2 σ1 toks toks1 h
        | some t =>
          simp only [] at h ⊢
          cases hr : σ2.result with
          | err => rw [hr] at h; cases h
          | ok => rw [hr] at h; exact runChars_append cc x y σ2 σ1 _ toks1 h
      | err e => rw [hp] at h; cases h
      | panic m => rw [hp] at h; cases h
      | fuelOut => rw [hp] at h; cases h

/-- in a run of horizontal whitespace, no newline seen yet -/
structure WsA (σ : Lexer) (cs : List Char) : Prop where
  state : σ.state = .spaces
  chars : σ.currentCharacters = cs
  couldBe : σ.couldBeSubExpression = false
  create : σ.shouldCreate = true
  ok : σ.result = .ok

/-- directly after the first newline of a whitespace run -/
structure WsB (σ : Lexer) (cs : List Char) : Prop where
  state : σ.state = .subexpression
  chars : σ.currentCharacters = cs
  create : σ.shouldCreate = true
  ok : σ.result = .ok

/-- spaces/tabs after the first newline of a whitespace run -/
structure WsC (σ : Lexer) (cs : List Char) : Prop where
  state : σ.state = .spaces
  chars : σ.currentCharacters = cs
  couldBe : σ.couldBeSubExpression = true
  create : σ.shouldCreate = true
  ok : σ.result = .ok

def IsBlank (c : Char) : Prop := c = ' ' ∨ c = '\t'

theorem wsA_blank (cc : CharClass) (σ : Lexer) (cs : List Char) (c : Char) (h : WsA σ cs) (hc : IsBlank c) :
    ∃ σ1, processChar cc σ c = .ok (σ1, none) ∧ WsA σ1 (cs ++ [c]) := by
  obtain ⟨h1, h2, h3, h4, h5⟩ := h
  rcases hc with rfl | rfl
  all_goals
    simp only [processChar, stateStep, h1, Step.ofPair, armSpaces, finishChar]
    refine ⟨_, rfl, ?_⟩
    constructor <;> simp [bumpColumn, push, h1, h2, h3, h4, h5]

theorem wsA_newline (cc : CharClass) (σ : Lexer) (cs : List Char) (h : WsA σ cs) :
    ∃ σ1, processChar cc σ '\n' = .ok (σ1, none) ∧ WsB σ1 (cs ++ ['\n']) := by
  obtain ⟨h1, h2, h3, h4, h5⟩ := h
  simp only [processChar, stateStep, h1, Step.ofPair, armSpaces, finishChar, h3]
  refine ⟨_, rfl, ?_⟩
  constructor <;> simp [bumpColumn, push, h1, h2, h3, h4, h5]

theorem wsB_blank (cc : CharClass) (σ : Lexer) (cs : List Char) (c : Char) (h : WsB σ cs) (hc : IsBlank c) :
    ∃ σ1, processChar cc σ c = .ok (σ1, none) ∧ WsC σ1 (cs ++ [c]) := by
  obtain ⟨h1, h2, h4, h5⟩ := h
  rcases hc with rfl | rfl
  all_goals
    simp only [processChar, stateStep, h1, Step.ofPair, armSubexpression, finishChar]
    refine ⟨_, rfl, ?_⟩
    constructor <;> simp [bumpColumn, push, h1, h2, h4, h5]

theorem wsC_blank (cc : CharClass) (σ : Lexer) (cs : List Char) (c : Char) (h : WsC σ cs) (hc : IsBlank c) :
    ∃ σ1, processChar cc σ c = .ok (σ1, none) ∧ WsC σ1 (cs ++ [c]) := by
  obtain ⟨h1, h2, h3, h4, h5⟩ := h
  rcases hc with rfl | rfl
  all_goals
    simp only [processChar, stateStep, h1, Step.ofPair, armSpaces, finishChar]
    refine ⟨_, rfl, ?_⟩
    constructor <;> simp [bumpColumn, push, h1, h2, h3, h4, h5]

/-- the second newline directly after the first: one Subexpression token with everything (patch 2) -/
theorem wsB_newline (cc : CharClass) (σ : Lexer) (cs : List Char) (h : WsB σ cs) :
    ∃ σ1 t, processChar cc σ '\n' = .ok (σ1, some t) ∧ t.tokenType = .subexpression ∧ t.text = cs ++ ['\n'] ∧
      σ1.result = .ok := by
  obtain ⟨h1, h2, h4, h5⟩ := h
  have hnl : (isAsciiWhitespace '\n' && !('\n' == '\t' || '\n' == ' ')) = true := by decide
  simp only [processChar, stateStep, h1, Step.ofPair, armSubexpression, finishChar, pushNewToken,
    canCreateValidToken, hnl, ↓reduceIte]
  refine ⟨_, _, rfl, ?_⟩
  simp [bumpColumn, push, h1, h2, h4, h5]

/-- the second newline after trailing spaces/tabs: one Subexpression token with everything -/
theorem wsC_newline (cc : CharClass) (σ : Lexer) (cs : List Char) (h : WsC σ cs) :
    ∃ σ1 t, processChar cc σ '\n' = .ok (σ1, some t) ∧ t.tokenType = .subexpression ∧ t.text = cs ++ ['\n'] ∧
      σ1.result = .ok := by
  obtain ⟨h1, h2, h3, h4, h5⟩ := h
  simp only [processChar, stateStep, h1, Step.ofPair, armSpaces, finishChar, pushNewToken,
    canCreateValidToken, h3]
  refine ⟨_, _, rfl, ?_⟩
  simp [bumpColumn, push, h1, h2, h3, h4, h5]

theorem runChars_none (cc : CharClass) (c : Char) (rest : List Char) (σ σ1 : Lexer) (toks : List LexerToken)
    (hok : σ.result = .ok) (hp : processChar cc σ c = .ok (σ1, none)) :
    runChars cc (c :: rest) σ toks = runChars cc rest σ1 toks := by
  simp [runChars, isErr_of_ok hok, hp]

theorem runChars_some (cc : CharClass) (c : Char) (rest : List Char) (σ σ1 : Lexer) (toks : List LexerToken)
    (t : LexerToken) (hok : σ.result = .ok) (hp : processChar cc σ c = .ok (σ1, some t)) (hok1 : σ1.result = .ok) :
    runChars cc (c :: rest) σ toks = runChars cc rest σ1 (toks ++ [t]) := by
  simp [runChars, isErr_of_ok hok, hp, hok1]

theorem runA (cc : CharClass) : ∀ (ws : List Char) (σ : Lexer) (cs : List Char) (toks : List LexerToken),
    WsA σ cs → (∀ c ∈ ws, IsBlank c) → ∃ σ1, runChars cc ws σ toks = .ok (σ1, toks) ∧ WsA σ1 (cs ++ ws)
  | [], σ, cs, toks, h, _ => ⟨σ, rfl, by simpa using h⟩
  | c :: ws, σ, cs, toks, h, hb => by
    obtain ⟨σ1, hp, h1⟩ := wsA_blank cc σ cs c h (hb c (by simp))
    obtain ⟨σ2, hr, h2⟩ := runA cc ws σ1 (cs ++ [c]) toks h1 (fun x hx => hb x (by simp [hx]))
    exact ⟨σ2, by rw [runChars_none cc c ws σ σ1 toks h.ok hp]; exact hr, by simpa using h2⟩

theorem runC (cc : CharClass) : ∀ (ws : List Char) (σ : Lexer) (cs : List Char) (toks : List LexerToken),
    WsC σ cs → (∀ c ∈ ws, IsBlank c) → ∃ σ1, runChars cc ws σ toks = .ok (σ1, toks) ∧ WsC σ1 (cs ++ ws)
  | [], σ, cs, toks, h, _ => ⟨σ, rfl, by simpa using h⟩
  | c :: ws, σ, cs, toks, h, hb => by
    obtain ⟨σ1, hp, h1⟩ := wsC_blank cc σ cs c h (hb c (by simp))
    obtain ⟨σ2, hr, h2⟩ := runC cc ws σ1 (cs ++ [c]) toks h1 (fun x hx => hb x (by simp [hx]))
    exact ⟨σ2, by rw [runChars_none cc c ws σ σ1 toks h.ok hp]; exact hr, by simpa using h2⟩

/-- from directly after the first newline: `ws'` then the second newline give one Subexpression token -/
theorem runB_blank_line (cc : CharClass) (ws' : List Char) (σ : Lexer) (cs : List Char) (toks : List LexerToken)
    (h : WsB σ cs) (hb : ∀ c ∈ ws', IsBlank c) :
    ∃ σ1 t, runChars cc (ws' ++ ['\n']) σ toks = .ok (σ1, toks ++ [t]) ∧ t.tokenType = .subexpression ∧
      t.text = cs ++ ws' ++ ['\n'] := by
  cases ws' with
  | nil =>
    obtain ⟨σ1, t, hp, hty, htx, hok1⟩ := wsB_newline cc σ cs h
    refine ⟨σ1, t, ?_, hty, by simpa using htx⟩
    rw [List.nil_append, runChars_some cc '\n' [] σ σ1 toks t h.ok hp hok1]; rfl
  | cons c r =>
    obtain ⟨σ1, hp, h1⟩ := wsB_blank cc σ cs c h (hb c (by simp))
    obtain ⟨σ2, hr, h2⟩ := runC cc r σ1 (cs ++ [c]) toks h1 (fun x hx => hb x (by simp [hx]))
    obtain ⟨σ3, t, hp3, hty, htx, hok3⟩ := wsC_newline cc σ2 _ h2
    refine ⟨σ3, t, ?_, hty, by simpa using htx⟩
    rw [List.cons_append, runChars_none cc c _ σ σ1 toks h.ok hp, runChars_append cc r ['\n'] σ1 σ2 toks toks hr,
      runChars_some cc '\n' [] σ2 σ3 toks t h2.ok hp3 hok3]
    rfl

/-- a string after which whitespace starts a fresh whitespace token: running the lexer over `a` followed by a
space/tab (resp. a newline) emits tokens spelling `a` and leaves the lexer at the start of a whitespace run -/
structure Boundary (cc : CharClass) (σ0 : Lexer) (a : List Char) : Prop where
  blank : ∀ c, IsBlank c → ∃ σ toks, runChars cc (a ++ [c]) σ0 [] = .ok (σ, toks) ∧ WsA σ [c] ∧ textsOf toks = a
  newline : ∃ σ toks, runChars cc (a ++ ['\n']) σ0 [] = .ok (σ, toks) ∧ WsB σ ['\n'] ∧ textsOf toks = a

/-- the whole whitespace run with a blank line becomes one Subexpression token -/
theorem run_blank_line (cc : CharClass) (σ0 : Lexer) (a ws ws' : List Char) (hbd : Boundary cc σ0 a)
    (hws : ∀ c ∈ ws, IsBlank c) (hws' : ∀ c ∈ ws', IsBlank c) :
    ∃ σ1 toks t, runChars cc (a ++ ws ++ ['\n'] ++ ws' ++ ['\n']) σ0 [] = .ok (σ1, toks ++ [t]) ∧
      textsOf toks = a ∧ t.tokenType = .subexpression ∧ t.text = ws ++ ['\n'] ++ ws' ++ ['\n'] := by
  cases ws with
  | nil =>
    obtain ⟨σ, toks, hr, hB, htx⟩ := hbd.newline
    obtain ⟨σ1, t, hr1, hty, htxt⟩ := runB_blank_line cc ws' σ ['\n'] toks hB hws'
    refine ⟨σ1, toks, t, ?_, htx, hty, by simpa using htxt⟩
    have := runChars_append cc (a ++ ['\n']) (ws' ++ ['\n']) σ0 σ [] toks hr
    simpa [List.append_assoc] using this.trans hr1
  | cons c r =>
    obtain ⟨σ, toks, hr, hA, htx⟩ := hbd.blank c (hws c (by simp))
    obtain ⟨σ2, hr2, hA2⟩ := runA cc r σ [c] toks hA (fun x hx => hws x (by simp [hx]))
    obtain ⟨σ3, hp3, hB3⟩ := wsA_newline cc σ2 _ hA2
    obtain ⟨σ4, t, hr4, hty, htxt⟩ := runB_blank_line cc ws' σ3 _ toks hB3 hws'
    refine ⟨σ4, toks, t, ?_, htx, hty, by simpa using htxt⟩
    have e1 := runChars_append cc (a ++ [c]) (r ++ ['\n'] ++ ws' ++ ['\n']) σ0 σ [] toks hr
    have e2 := runChars_append cc r (['\n'] ++ ws' ++ ['\n']) σ σ2 toks toks hr2
    have e3 : runChars cc (['\n'] ++ ws' ++ ['\n']) σ2 toks = runChars cc (ws' ++ ['\n']) σ3 toks := by
      simpa using runChars_none cc '\n' (ws' ++ ['\n']) σ2 σ3 toks hA2.ok hp3
    have : a ++ c :: r ++ ['\n'] ++ ws' ++ ['\n'] = (a ++ [c]) ++ (r ++ ['\n'] ++ ws' ++ ['\n']) := by simp
    rw [this, e1]
    have : r ++ ['\n'] ++ ws' ++ ['\n'] = r ++ (['\n'] ++ ws' ++ ['\n']) := by simp
    rw [this, e2, e3, hr4]

/-- `lex`'s loop only appends tokens -/
theorem lexEnd_prefix (cc : CharClass) : ∀ (fuel : Nat) (σ σ' : Lexer) (toks toks' : List LexerToken),
    lexEnd cc fuel σ toks = .ok (toks', σ') → ∃ post, toks' = toks ++ post
  | 0, _, _, _, _, h => by simp [lexEnd] at h
  | fuel + 1, σ, σ', toks, toks', h => by
    simp only [lexEnd] at h
    split at h
    · exact ⟨[], by simpa using (lexFinish_ok h).1⟩
    · cases hp : processChar cc { σ with atEnd := true } '\x00' with
      | ok r =>
        obtain ⟨σ1, ot⟩ := r
        rw [hp] at h
        cases ot with
        | none => exact ⟨[], by simpa using (lexFinish_ok h).1⟩
        | some t =>
          simp only [] at h
          cases hr : σ1.result with
          | err => rw [hr] at h; cases h
          | ok =>
            rw [hr] at h
            obtain ⟨post, hpost⟩ := lexEnd_prefix cc fuel σ1 σ' _ toks' h
            exact ⟨t :: post, by simpa using hpost⟩
      | err e => rw [hp] at h; cases h
      | panic m => rw [hp] at h; cases h
      | fuelOut => rw [hp] at h; cases h

theorem lexLoop_prefix (cc : CharClass) : ∀ (input : List Char) (σ σ' : Lexer) (toks toks' : List LexerToken),
    lexLoop cc input σ toks = .ok (toks', σ') → ∃ post, toks' = toks ++ post
  | [], σ, σ', toks, toks', h => lexEnd_prefix cc endFuel σ σ' toks toks' (by simpa [lexLoop] using h)
  | c :: rest, σ, σ', toks, toks', h => by
    simp only [lexLoop] at h
    split at h
    · exact ⟨[], by simpa using (lexFinish_ok h).1⟩
    · cases hp : processChar cc σ c with
      | ok r =>
        obtain ⟨σ1, ot⟩ := r
        rw [hp] at h
        cases ot with
        | none => exact lexLoop_prefix cc rest σ1 σ' toks toks' h
        | some t =>
          simp only [] at h
          cases hr : σ1.result with
          | err => rw [hr] at h; cases h
          | ok =>
            rw [hr] at h
            obtain ⟨post, hpost⟩ := lexLoop_prefix cc rest σ1 σ' _ toks' h
            exact ⟨t :: post, by simpa using hpost⟩
      | err e => rw [hp] at h; cases h
      | panic m => rw [hp] at h; cases h
      | fuelOut => rw [hp] at h; cases h

/-- the operator tree of `Lexer::new` -/
def theTree : LexerOperatorNode :=
  match createOperatorTree Garnish.Gen.LexTables.operatorChars with
  | .ok t => t
  | _ => .mk '\x00' none []

theorem new_eq : Lexer.new = .ok (Lexer.init theTree) := by
  have h := operatorTree_nulFree
  unfold Lexer.new theTree
  cases hc : createOperatorTree Garnish.Gen.LexTables.operatorChars with
  | ok t => rfl
  | err e => rw [hc] at h; cases h
  | panic m => rw [hc] at h; cases h
  | fuelOut => rw [hc] at h; cases h

/-- blank-line theorem in terms of `lex` -/
theorem lex_blank_line (cc : CharClass) (a ws ws' b : List Char)
    (hbd : Boundary cc (Lexer.init theTree) a)
    (hws : ∀ c ∈ ws, IsBlank c) (hws' : ∀ c ∈ ws', IsBlank c) (toks : List LexerToken)
    (h : lex cc (a ++ ws ++ ['\n'] ++ ws' ++ ['\n'] ++ b) = .ok toks) :
    ∃ pre t post, toks = pre ++ [t] ++ post ∧ textsOf pre = a ∧ t.tokenType = .subexpression ∧
      t.text = ws ++ ['\n'] ++ ws' ++ ['\n'] := by
  unfold lex lexFull at h
  rw [new_eq] at h
  simp only [] at h
  obtain ⟨σ1, pre, t, hrun, hpre, hty, htx⟩ := run_blank_line cc (Lexer.init theTree) a ws ws' hbd hws hws'
  rw [lexLoop_append cc _ b (Lexer.init theTree) σ1 [] (pre ++ [t]) hrun] at h
  cases hl : lexLoop cc b σ1 (pre ++ [t]) with
  | ok r =>
    obtain ⟨toks', σ'⟩ := r
    rw [hl] at h
    simp only [Outcome.ok.injEq] at h
    subst h
    obtain ⟨post, hpost⟩ := lexLoop_prefix cc b σ1 σ' _ _ hl
    exact ⟨pre, t, post, hpost, hpre, hty, htx⟩
  | err e => rw [hl] at h; cases h
  | panic m => rw [hl] at h; cases h
  | fuelOut => rw [hl] at h; cases h

/-! ### the family of identifier-like strings satisfies `Boundary` -/

/-- a letter: alphanumeric, not numeric, not whitespace, not `_`/`:`, not the first character of an operator -/
structure Letter (cc : CharClass) (ch : Char) : Prop where
  alnum : cc.isAlphanumeric ch = true
  notNumeric : cc.isNumeric ch = false
  notWs : isAsciiWhitespace ch = false
  notUnderscore : ch ≠ '_'
  notColon : ch ≠ ':'
  notOperator : walkOperator theTree [ch] = none

/-- spaces, tabs and newlines are not alphanumeric -/
structure CharClass.SaneWs (cc : CharClass) : Prop where
  space : cc.isAlphanumeric ' ' = false
  tab : cc.isAlphanumeric '\t' = false
  newline : cc.isAlphanumeric '\n' = false

/-- an identifier under construction -/
structure InIdent (σ : Lexer) (cs : List Char) : Prop where
  state : σ.state = .identifier
  chars : σ.currentCharacters = cs
  type : σ.currentTokenType = some .identifier
  create : σ.shouldCreate = true
  ok : σ.result = .ok
  tree : σ.operatorTree = theTree

theorem treeWs : (walkOperator theTree [' ']).isNone = true ∧ (walkOperator theTree ['\t']).isNone = true ∧
    (walkOperator theTree ['\n']).isNone = true := by decide

theorem letter_not_blank {cc : CharClass} {ch : Char} (h : Letter cc ch) :
    ch ≠ ' ' ∧ ch ≠ '\t' ∧ ch ≠ '\r' := by
  have := h.notWs
  refine ⟨?_, ?_, ?_⟩ <;> (rintro rfl; simp [isAsciiWhitespace] at this)

theorem startToken_letter (cc : CharClass) (σ : Lexer) (c : Char) (hl : Letter cc c)
    (htr : σ.operatorTree = theTree) :
    startToken cc σ c = { σ with currentCharacters := [c], currentTokenType := some .identifier, tokenStartRow := σ.textRow, tokenStartColumn := σ.textColumn, state := .identifier } := by
  have hnb := letter_not_blank hl
  unfold startToken
  simp [currentOperator, push, htr, hl.notOperator, hnb.1, hnb.2.1, hnb.2.2, hl.notWs, hl.notNumeric,
    isIdentifierChar, hl.alnum]

theorem walk_none_of_isNone {t : LexerOperatorNode} {cs : List Char} (h : (walkOperator t cs).isNone = true) :
    walkOperator t cs = none := by
  cases hw : walkOperator t cs with
  | none => rfl
  | some n => rw [hw] at h; cases h

theorem startToken_blank (cc : CharClass) (σ : Lexer) (c : Char) (hb : IsBlank c)
    (htr : σ.operatorTree = theTree) :
    startToken cc σ c = { σ with currentCharacters := [c], currentTokenType := some .whitespace, tokenStartRow := σ.textRow, tokenStartColumn := σ.textColumn, state := .spaces } := by
  have h1 := walk_none_of_isNone treeWs.1
  have h2 := walk_none_of_isNone treeWs.2.1
  unfold startToken
  rcases hb with rfl | rfl <;> simp [currentOperator, push, htr, h1, h2]

theorem startToken_newline (cc : CharClass) (σ : Lexer) (htr : σ.operatorTree = theTree) :
    startToken cc σ '\n' = { σ with currentCharacters := ['\n'], currentTokenType := some .subexpression, tokenStartRow := σ.textRow, tokenStartColumn := σ.textColumn, state := .subexpression } := by
  have h3 := walk_none_of_isNone treeWs.2.2
  unfold startToken
  simp [currentOperator, push, htr, h3, isAsciiWhitespace]

theorem ident_start (cc : CharClass) (σ : Lexer) (c : Char) (hl : Letter cc c) (hs : σ.state = .noToken)
    (hcr : σ.shouldCreate = true) (hok : σ.result = .ok) (htr : σ.operatorTree = theTree) :
    ∃ σ1, processChar cc σ c = .ok (σ1, none) ∧ InIdent σ1 [c] := by
  simp only [processChar, stateStep, hs, Step.ofPair, armNoToken, finishChar]
  refine ⟨_, rfl, ?_⟩
  rw [startToken_letter cc _ c hl (by simpa using htr)]
  constructor <;> simp [bumpColumn, hcr, hok, htr] <;> (split <;> simp [hcr, hok, htr])

theorem ident_push (cc : CharClass) (σ : Lexer) (cs : List Char) (c : Char) (hl : Letter cc c)
    (h : InIdent σ cs) : ∃ σ1, processChar cc σ c = .ok (σ1, none) ∧ InIdent σ1 (cs ++ [c]) := by
  obtain ⟨h1, h2, h3, h4, h5, h6⟩ := h
  have hid : isIdentifierChar cc c = true := by simp [isIdentifierChar, hl.alnum]
  simp only [processChar, stateStep, h1, Step.ofPair, armIdentifier, hid, ↓reduceIte, finishChar]
  refine ⟨_, rfl, ?_⟩
  constructor <;> simp [bumpColumn, push, h1, h2, h3, h4, h5, h6] <;> (split <;> simp [h1, h2, h3, h4, h5, h6, push])

theorem ident_end_blank (cc : CharClass) (hws : cc.SaneWs) (σ : Lexer) (x : Char) (r : List Char) (c : Char)
    (hx : Letter cc x) (hb : IsBlank c) (h : InIdent σ (x :: r)) :
    ∃ σ1 t, processChar cc σ c = .ok (σ1, some t) ∧ t.text = x :: r ∧ WsA σ1 [c] := by
  obtain ⟨h1, h2, h3, h4, h5, h6⟩ := h
  have hid : isIdentifierChar cc c = false := by
    rcases hb with rfl | rfl <;> simp [isIdentifierChar, hws.space, hws.tab]
  have hbt : (c == '`') = false := by rcases hb with rfl | rfl <;> decide
  have hcol : startsWith (x :: r) ':' = false := by simp [startsWith, hx.notColon]
  have hv1 : (x :: r == ['_']) = false := by
    simp only [beq_eq_false_iff_ne, ne_eq, List.cons.injEq, not_and]
    intro hh; exact absurd hh hx.notUnderscore
  have hv2 : (x :: r == [':']) = false := by
    simp only [beq_eq_false_iff_ne, ne_eq, List.cons.injEq, not_and]
    intro hh; exact absurd hh hx.notColon
  simp only [processChar, stateStep, h1, Step.ofPair, armIdentifier, hid, hbt, Bool.false_eq_true, ↓reduceIte,
    h2, hcol, Bool.false_and, finishChar, pushNewToken, canCreateValidToken, h3, hv1, hv2, Bool.or_self, h4]
  simp only [h1, bne_iff_ne, ne_eq, reduceCtorEq, not_false_eq_true, ↓reduceIte, LexResult.isOk]
  rw [startToken_blank cc _ c hb (by simpa using h6)]
  refine ⟨_, _, rfl, rfl, ?_⟩
  constructor <;> simp [bumpColumn, h5] <;> (split <;> simp [h5])

theorem ident_end_newline (cc : CharClass) (hws : cc.SaneWs) (σ : Lexer) (x : Char) (r : List Char)
    (hx : Letter cc x) (h : InIdent σ (x :: r)) :
    ∃ σ1 t, processChar cc σ '\n' = .ok (σ1, some t) ∧ t.text = x :: r ∧ WsB σ1 ['\n'] := by
  obtain ⟨h1, h2, h3, h4, h5, h6⟩ := h
  have hid : isIdentifierChar cc '\n' = false := by simp [isIdentifierChar, hws.newline]
  have hbt : (('\n' : Char) == '`') = false := by decide
  have hcol : startsWith (x :: r) ':' = false := by simp [startsWith, hx.notColon]
  have hv1 : (x :: r == ['_']) = false := by
    simp only [beq_eq_false_iff_ne, ne_eq, List.cons.injEq, not_and]
    intro hh; exact absurd hh hx.notUnderscore
  have hv2 : (x :: r == [':']) = false := by
    simp only [beq_eq_false_iff_ne, ne_eq, List.cons.injEq, not_and]
    intro hh; exact absurd hh hx.notColon
  simp only [processChar, stateStep, h1, Step.ofPair, armIdentifier, hid, hbt, Bool.false_eq_true, ↓reduceIte,
    h2, hcol, Bool.false_and, finishChar, pushNewToken, canCreateValidToken, h3, hv1, hv2, Bool.or_self, h4]
  simp only [h1, bne_iff_ne, ne_eq, reduceCtorEq, not_false_eq_true, ↓reduceIte, LexResult.isOk]
  rw [startToken_newline cc _ (by simpa using h6)]
  refine ⟨_, _, rfl, rfl, ?_⟩
  constructor <;> simp [bumpColumn, h5]

theorem run_ident (cc : CharClass) : ∀ (r : List Char) (σ : Lexer) (cs : List Char) (toks : List LexerToken),
    InIdent σ cs → (∀ ch ∈ r, Letter cc ch) → ∃ σ1, runChars cc r σ toks = .ok (σ1, toks) ∧ InIdent σ1 (cs ++ r)
  | [], σ, cs, toks, h, _ => ⟨σ, rfl, by simpa using h⟩
  | c :: r, σ, cs, toks, h, hl => by
    obtain ⟨σ1, hp, h1⟩ := ident_push cc σ cs c (hl c (by simp)) h
    obtain ⟨σ2, hr, h2⟩ := run_ident cc r σ1 (cs ++ [c]) toks h1 (fun x hx => hl x (by simp [hx]))
    exact ⟨σ2, by rw [runChars_none cc c r σ σ1 toks h.ok hp]; exact hr, by simpa using h2⟩

/-- identifier-like strings (non-empty lists of letters) are token-boundary-safe -/
theorem boundary_letters (cc : CharClass) (hws : cc.SaneWs) (x : Char) (r : List Char)
    (hl : ∀ ch ∈ x :: r, Letter cc ch) : Boundary cc (Lexer.init theTree) (x :: r) := by
  have hx := hl x (by simp)
  obtain ⟨σ1, hp1, hi1⟩ := ident_start cc (Lexer.init theTree) x hx rfl rfl rfl rfl
  obtain ⟨σ2, hr2, hi2⟩ := run_ident cc r σ1 [x] [] hi1 (fun ch hch => hl ch (by simp [hch]))
  have hrun : runChars cc (x :: r) (Lexer.init theTree) [] = .ok (σ2, []) := by
    rw [runChars_none cc x r _ σ1 [] rfl hp1]; exact hr2
  constructor
  · intro c hb
    obtain ⟨σ3, t, hp3, htx, hA⟩ := ident_end_blank cc hws σ2 x r c hx hb (by simpa using hi2)
    refine ⟨σ3, [t], ?_, hA, by simp [textsOf, htx]⟩
    rw [runChars_append cc (x :: r) [c] _ σ2 [] [] hrun, runChars_some cc c [] σ2 σ3 [] t hi2.ok hp3 hA.ok]
    rfl
  · obtain ⟨σ3, t, hp3, htx, hB⟩ := ident_end_newline cc hws σ2 x r hx (by simpa using hi2)
    refine ⟨σ3, [t], ?_, hB, by simp [textsOf, htx]⟩
    rw [runChars_append cc (x :: r) ['\n'] _ σ2 [] [] hrun, runChars_some cc '\n' [] σ2 σ3 [] t hi2.ok hp3 hB.ok]
    rfl

/-! ## characters that cannot start a token -/

/-- `c` can start a token: the disjunction of the branches of `start_token` (other than the end-of-input one) -/
def CanStart (cc : CharClass) (tree : LexerOperatorNode) (c : Char) : Prop :=
  (walkOperator tree [c]).isSome = true ∨ c = ' ' ∨ c = '\t' ∨ c = '\r' ∨ isAsciiWhitespace c = true ∨
  cc.isNumeric c = true ∨ isIdentifierChar cc c = true ∨ c = '`' ∨ c = '@' ∨ c = '"' ∨ c = '\''

theorem startToken_rejects (cc : CharClass) (σ : Lexer) (c : Char) (h : ¬CanStart cc σ.operatorTree c)
    (hns : ¬Sentinel σ c) : (startToken cc σ c).result = .err := by
  unfold CanStart at h
  simp only [not_or] at h
  obtain ⟨h1, h2, h3, h4, h5, h6, h7, h8, h9, h10, h11⟩ := h
  have hw : walkOperator σ.operatorTree [c] = none := by
    cases hw : walkOperator σ.operatorTree [c] with
    | none => rfl
    | some n => rw [hw] at h1; simp at h1
  have hsent : ¬(c = '\x00' ∧ σ.atEnd = true) := hns
  generalize hr : startToken cc σ c = r
  unfold startToken at hr
  simp [currentOperator, push, hw, h2, h3, h4, h5, h6, h7, h8, h9, h10, h11] at hr
  split at hr
  · rename_i hc; exact absurd hc hsent
  · subst hr; rfl

theorem runChars_frame (cc : CharClass) : ∀ (x : List Char) (σ σ1 : Lexer) (toks toks1 : List LexerToken),
    runChars cc x σ toks = .ok (σ1, toks1) → σ1.operatorTree = σ.operatorTree ∧ σ1.atEnd = σ.atEnd
  | [], σ, σ1, toks, toks1, h => by
    simp only [runChars, Outcome.ok.injEq, Prod.mk.injEq] at h
    obtain ⟨rfl, _⟩ := h; exact ⟨rfl, rfl⟩
  | c :: x, σ, σ1, toks, toks1, h => by
    simp only [runChars] at h
    split at h
    · cases h
    · cases hp : processChar cc σ c with
      | ok r =>
        obtain ⟨σ2, ot⟩ := r
        have hf := processChar_frame cc _ _ _ _ hp
        rw [hp] at h
        cases ot with
        | none =>
          have := runChars_frame cc x σ2 σ1 toks toks1 h
          exact ⟨this.1.trans hf.1, this.2.trans hf.2.1⟩
        | some t =>
          simp only [] at h
          cases hr : σ2.result with
          | err => rw [hr] at h; cases h
          | ok =>
            rw [hr] at h
            have := runChars_frame cc x σ2 σ1 _ toks1 h
            exact ⟨this.1.trans hf.1, this.2.trans hf.2.1⟩
      | err e => rw [hp] at h; cases h
      | panic m => rw [hp] at h; cases h
      | fuelOut => rw [hp] at h; cases h

theorem processChar_noToken (cc : CharClass) (σ : Lexer) (c : Char) (hs : σ.state = .noToken) :
    processChar cc σ c =
      .ok (bumpColumn (startToken cc { σ with charactersLexed := σ.charactersLexed + 1 } c) c, none) := by
  unfold processChar
  simp only []
  have hss : stateStep cc { σ with charactersLexed := σ.charactersLexed + 1 } c =
      Step.ofPair (armNoToken cc { σ with charactersLexed := σ.charactersLexed + 1 } c) := by
    unfold stateStep
    have hs' : ({ σ with charactersLexed := σ.charactersLexed + 1 } : Lexer).state = .noToken := hs
    rw [hs']
  rw [hss]
  simp only [Step.ofPair, armNoToken, finishChar, Bool.false_eq_true, ↓reduceIte]

theorem lexLoop_rejects (cc : CharClass) (post : List Char) (c : Char) (σ : Lexer) (toks : List LexerToken)
    (hs : σ.state = .noToken) (hat : σ.atEnd = false) (hc : ¬CanStart cc σ.operatorTree c) :
    lexLoop cc (c :: post) σ toks = .err .syntax := by
  simp only [lexLoop]
  by_cases hE : σ.result.isErr = true
  · have : σ.result = .err := by cases hr : σ.result <;> simp [hr, LexResult.isErr] at hE ⊢
    rw [if_pos hE]
    simp [lexFinish, this]
  · have hns : ¬Sentinel { σ with charactersLexed := σ.charactersLexed + 1 } c := by
      intro hsn; have := hsn.2; simp [hat] at this
    have hrej := startToken_rejects cc { σ with charactersLexed := σ.charactersLexed + 1 } c hc hns
    rw [if_neg hE, processChar_noToken cc σ c hs]
    simp only []
    rw [lexLoop_err cc post _ toks (by simpa using hrej)]

/-- a character that cannot start a token, met between tokens, makes `lex` fail -/
theorem lex_rejects (cc : CharClass) (pre post : List Char) (c : Char) (σ : Lexer) (toks : List LexerToken)
    (hrun : runChars cc pre (Lexer.init theTree) [] = .ok (σ, toks)) (hs : σ.state = .noToken)
    (hc : ¬CanStart cc theTree c) : lex cc (pre ++ c :: post) = .err .syntax := by
  have hfr := runChars_frame cc pre _ σ [] toks hrun
  have h1 : σ.operatorTree = theTree := hfr.1
  have h2 : σ.atEnd = false := hfr.2
  unfold lex lexFull
  rw [new_eq]
  simp only []
  rw [lexLoop_append cc pre (c :: post) _ σ [] toks hrun,
    lexLoop_rejects cc post c σ toks hs h2 (by rw [h1]; exact hc)]

/-! ## operators: what is proved towards longest match -/

/-- every spelling of the regenerated table is recognised by the operator tree with its token type -/
def tableRecognised : Bool :=
  Garnish.Gen.LexTables.operatorChars.all fun p =>
    match walkOperator theTree p.1 with
    | some n => n.tokenType == some p.2
    | none => false

theorem tableRecognised_true : tableRecognised = true := by decide

/-- an operator token ends only when the next character continues no spelling (and no prefix of one):
the Operator arm returns `start_new = true` only if the operator tree has no path for the characters so far
followed by `c` -/
theorem armOperator_maximal (cc : CharClass) (σ : Lexer) (c : Char) (h : (armOperator cc σ c).2 = true) :
    walkOperator σ.operatorTree (σ.currentCharacters ++ [c]) = none := by
  unfold armOperator at h
  simp only [] at h
  split at h
  · simp at h
  · rename_i hnone
    simpa [currentOperator, push] using hnone

/-- while an operator is being extended its token type is the one stored in the tree for the characters so far -/
theorem armOperator_type (cc : CharClass) (σ : Lexer) (c : Char) (node : LexerOperatorNode)
    (h : walkOperator σ.operatorTree (σ.currentCharacters ++ [c]) = some node) :
    (armOperator cc σ c).1.currentTokenType = node.tokenType ∧ (armOperator cc σ c).2 = false ∧
    (armOperator cc σ c).1.currentCharacters = σ.currentCharacters ++ [c] := by
  unfold armOperator
  simp [currentOperator, push, h]

end Garnish.Model.Lexer
