/-
Totality of the emitting traversal of `build` — part 3: the else-chain head, the pops, and the neutral updates.
-/
import Garnish.Lemmas.BuildTotalStep
namespace Garnish.Lemmas.BuildTotal
open Garnish Garnish.Gen Garnish.Model.Parser Garnish.Model.Literals Garnish.Model.Build Garnish.Lemmas.Build

variable {F : Type} {root : Nat} {tree : Array ParseNode} {G : Nat → Prop}

/-! ### `elseJumpItems` / `assignNewItems` as lists -/

def itemNode (containing jumpToIndex : Nat) (c : ConditionItem) : Nat × BuildNode :=
  (c.nodeIndex, BuildNode.newWithJumpAndEnd c.nodeIndex containing c.jumpIndexToUpdate [(.jumpTo, some jumpToIndex)])

theorem elseJumpItems_spec (containing jumpToIndex : Nat) : ∀ (items : List ConditionItem) (rs : Array Nat)
    (acc : Array (Nat × BuildNode)),
    (elseJumpItems containing jumpToIndex items rs acc).1.toList = rs.toList ++ items.map (·.nodeIndex) ∧
    (elseJumpItems containing jumpToIndex items rs acc).2.toList = acc.toList ++ items.map (itemNode containing jumpToIndex) := by
  intro items
  induction items with
  | nil => intro rs acc; simp [elseJumpItems]
  | cons c rest ih =>
    intro rs acc
    simp only [elseJumpItems]
    obtain ⟨h1, h2⟩ := ih (rs.push c.nodeIndex) (acc.push (itemNode containing jumpToIndex c))
    refine ⟨?_, ?_⟩
    · rw [show (c.nodeIndex, BuildNode.newWithJumpAndEnd c.nodeIndex containing c.jumpIndexToUpdate
          [(Instruction.jumpTo, some jumpToIndex)]) = itemNode containing jumpToIndex c from rfl, h1]
      simp
    · rw [show (c.nodeIndex, BuildNode.newWithJumpAndEnd c.nodeIndex containing c.jumpIndexToUpdate
          [(Instruction.jumpTo, some jumpToIndex)]) = itemNode containing jumpToIndex c from rfl, h2]
      simp

theorem setNodeIdx_eq {nodes : Nodes} {i : Nat} (hi : i < nodes.size) (b : BuildNode) (site : String) :
    setNodeIdx nodes i b site = .ok (putNode nodes i b) := by
  unfold setNodeIdx putNode
  rw [dif_pos hi]
  simp [Array.setIfInBounds, hi]

theorem assignNewItems_eq : ∀ (l : List (Nat × BuildNode)) (nodes : Nodes), (∀ p, p ∈ l → p.1 < nodes.size) →
    assignNewItems nodes l = .ok (assign nodes l) := by
  intro l
  induction l with
  | nil => intro nodes _; rfl
  | cons p rest ih =>
    intro nodes hp
    obtain ⟨i, b⟩ := p
    simp only [assignNewItems, assign, List.foldl_cons]
    rw [setNodeIdx_eq (hp (i, b) List.mem_cons_self)]
    simp only [bind_ok]
    exact ih _ (fun q hq => by rw [size_putNode]; exact hp q (List.mem_cons_of_mem _ hq))

/-- the phases after `else_inv` -/
def elsePhase (ph : Nat → Phase) (ni : Nat) (idxs : List Nat) : Nat → Phase :=
  fun x => if x = ni then .p3 else if x ∈ idxs then .pr else ph x

/-- the phases after `inv_pop_root` -/
def popPhase (ph : Nat → Phase) (r : Nat) : Nat → Phase := fun x => if x = r then .p1 else ph x

/-! ### the head of an else-chain releases its arms (`ElseJump`, second visit) -/

theorem else_inv_exp (V : Validated root tree G) {ph : Nat → Phase} {ctx ctx' : Ctx F} (h : Inv root tree G ph ctx)
    {ni : Nat} (hG : G ni) (hph : ph ni = .p1 ∨ ph ni = .p2) (hns : ni ∉ ctx.stack.toList)
    {node : BuildNode} (hnode : ctx.nodes[ni]? = some (some node)) (containing jumpToIndex : Nat)
    (hS : ctx'.stack = ctx.stack)
    (hR : ctx'.rootStack.toList = ctx.rootStack.toList ++ node.conditionalItems.toList.map (·.nodeIndex))
    (hN : ctx'.nodes = assign ctx.nodes (node.conditionalItems.toList.map (itemNode containing jumpToIndex))) :
    Inv root tree G (elsePhase ph ni (node.conditionalItems.toList.map (·.nodeIndex))) ctx' ∧
      total (elsePhase ph ni (node.conditionalItems.toList.map (·.nodeIndex))) tree.size < total ph tree.size := by
  have hni0 : ph ni ≠ .p0 := by rcases hph with h1 | h1 <;> rw [h1] <;> intro h <;> cases h
  have hni3 : ph ni ≠ .p3 := by rcases hph with h1 | h1 <;> rw [h1] <;> intro h <;> cases h
  let idxs := node.conditionalItems.toList.map (·.nodeIndex)
  have hidx : ∀ x, x ∈ idxs → G x ∧ ph x = .pc ni := by
    intro x hx
    obtain ⟨it, hit, hxe⟩ := List.mem_map.1 hx
    subst hxe
    exact h.items ni node hnode hni3 it hit
  have hidxN : idxs.Nodup := h.itemsNodup ni node hnode hni3
  have hidxni : ni ∉ idxs := by
    intro hm
    have := (hidx ni hm).2
    rcases hph with h1 | h1 <;> rw [h1] at this <;> cases this
  let ph' : Nat → Phase := elsePhase ph ni idxs
  have hni' : ph' ni = .p3 := by simp [ph', elsePhase]
  have hidx' : ∀ x, x ∈ idxs → ph' x = .pr := by
    intro x hx
    have : x ≠ ni := fun hxn => hidxni (hxn ▸ hx)
    simp [ph', elsePhase, this, hx]
  have hother : ∀ x, x ≠ ni → x ∉ idxs → ph' x = ph x := by
    intro x h1 h2; simp [ph', elsePhase, h1, h2]
  -- a node whose phase is not `pc ni` (and which is not `ni`) keeps its phase
  have hsame : ∀ x, x ≠ ni → ph x ≠ .pc ni → ph' x = ph x := by
    intro x h1 h2
    exact hother x h1 (fun hm => h2 (hidx x hm).2)
  have hkeys : ∀ (x : Nat) (b : BuildNode), (x, b) ∈ node.conditionalItems.toList.map (itemNode containing jumpToIndex) →
      x ∈ idxs ∧ b.conditionalItems = #[] := by
    intro x b hm
    obtain ⟨it, hit, he⟩ := List.mem_map.1 hm
    simp only [itemNode, Prod.mk.injEq] at he
    obtain ⟨h1, h2⟩ := he
    subst h1; subst h2
    exact ⟨List.mem_map.2 ⟨it, hit, rfl⟩, by simp [BuildNode.newWithJumpAndEnd, BuildNode.new]⟩
  have hget : ∀ (x : Nat) (bn' : BuildNode), ctx'.nodes[x]? = some (some bn') →
      (x ∈ idxs ∧ bn'.conditionalItems = #[]) ∨ ctx.nodes[x]? = some (some bn') := by
    intro x bn' hx
    rw [hN] at hx
    rcases assign_get _ ctx.nodes x _ hx with ⟨b, hb, hv⟩ | ⟨hold, _⟩
    · have hb' := hkeys x b hb
      cases hv; exact Or.inl hb'
    · exact Or.inr hold
  have hold3 : ∀ x, ph' x ≠ .p3 → x ≠ ni := fun x hx hxn => hx (hxn ▸ hni')
  have keep : ∀ (y : Nat) (bn : BuildNode), ctx.nodes[y]? = some (some bn) → y ≠ ni → ph y ≠ .p3 →
      ∀ it, it ∈ bn.conditionalItems.toList → G it.nodeIndex ∧ ph' it.nodeIndex = .pc y := by
    intro y bn hy hyn hy3 it hit
    obtain ⟨g, hp⟩ := h.items y bn hy hy3 it hit
    have hn : it.nodeIndex ≠ ni := by
      intro hn; rw [hn] at hp
      rcases hph with h2 | h2 <;> rw [h2] at hp <;> cases hp
    have hne : ph it.nodeIndex ≠ .pc ni := by
      rw [hp]; intro he; cases he; exact hyn rfl
    exact ⟨g, by rw [hsame _ hn hne]; exact hp⟩
  change Inv root tree G ph' ctx' ∧ total ph' tree.size < total ph tree.size
  refine ⟨⟨?_, ?_, ?_, ?_, ?_, ?_, ?_, ?_, ?_, ?_, ?_⟩, ?_⟩
  · rw [hS]; exact h.stackNodup
  · intro x hx
    rw [hS] at hx
    have hso := h.stackOk x hx
    have hxn : x ≠ ni := fun hxn => hns (hxn ▸ hx)
    have hne : ph x ≠ .pc ni := by rcases hso.2 with h2 | h2 <;> rw [h2] <;> intro h <;> cases h
    rw [hsame x hxn hne]; exact hso
  · rw [hR]
    refine List.nodup_append.2 ⟨h.rootNodup, hidxN, fun a ha b hb hab => ?_⟩
    subst hab
    have h1 := (h.rootOk a ha).2
    rw [(hidx a hb).2] at h1; cases h1
  · intro x hx
    rw [hR] at hx
    rcases List.mem_append.1 hx with h1 | h1
    · have hro := h.rootOk x h1
      have hxn : x ≠ ni := by
        intro hxn; subst hxn
        rcases hph with h2 | h2 <;> rw [h2] at hro <;> cases hro.2
      have hne : ph x ≠ .pc ni := by rw [hro.2]; intro h; cases h
      rw [hsame x hxn hne]; exact hro
    · exact ⟨(hidx x h1).1, hidx' x h1⟩
  · rw [hN, assign_size]; exact h.size
  · intro x bn' hx hp2
    have hxn : x ≠ ni := fun hxn => by subst hxn; rw [hni'] at hp2; cases hp2
    have hxi : x ∉ idxs := fun hm => by rw [hidx' x hm] at hp2; cases hp2
    rcases hget x bn' hx with ⟨h1, _⟩ | h1
    · exact absurd h1 hxi
    · rw [hother x hxn hxi] at hp2; exact h.init x bn' h1 hp2
  · intro x bn' hx hp3 it hit
    have hxn := hold3 x hp3
    rcases hget x bn' hx with ⟨_, h2⟩ | h1
    · rw [h2] at hit; simp at hit
    · have hx3 : ph x ≠ .p3 := by
        rcases Classical.em (x ∈ idxs) with hm | hm
        · rw [(hidx x hm).2]; intro h; cases h
        · rw [← hother x hxn hm]; exact hp3
      exact keep x bn' h1 hxn hx3 it hit
  · intro x bn' hx hp3
    have hxn := hold3 x hp3
    rcases hget x bn' hx with ⟨_, h2⟩ | h1
    · rw [h2]; simp
    · have hx3 : ph x ≠ .p3 := by
        rcases Classical.em (x ∈ idxs) with hm | hm
        · rw [(hidx x hm).2]; intro h; cases h
        · rw [← hother x hxn hm]; exact hp3
      exact h.itemsNodup x bn' h1 hx3
  · have hsd : ∀ p c, SchedDone tree ph p c → SchedDone tree ph' p c := by
      intro p c ⟨hs1, hs2⟩
      rcases Classical.em (p = ni) with hpn' | hpn'
      · subst hpn'
        exact ⟨Or.inr hni', fun _ => hni'⟩
      · have hne : ph p ≠ .pc ni := by rcases hs1 with h1 | h1 <;> rw [h1] <;> intro h <;> cases h
        rw [SchedDone, hsame p hpn' hne]; exact ⟨hs1, hs2⟩
    intro c hcG hc0
    have hc0' : ph c ≠ .p0 := by
      rcases Classical.em (c = ni) with hcn | hcn
      · subst hcn; exact hni0
      · rcases Classical.em (c ∈ idxs) with hm | hm
        · rw [(hidx c hm).2]; intro h; cases h
        · rw [← hother c hcn hm]; exact hc0
    rcases h.fresh c hcG hc0' with h1 | ⟨p, hp, hpc, hs⟩
    · exact Or.inl h1
    · exact Or.inr ⟨p, hp, hpc, hsd p c hs⟩
  · intro x pn' hx hp2
    have hxn : x ≠ ni := fun hxn => by subst hxn; rw [hni'] at hp2; cases hp2
    have hxi : x ∉ idxs := fun hm => by rw [hidx' x hm] at hp2; cases hp2
    rw [hother x hxn hxi] at hp2
    exact h.p2two x pn' hx hp2
  · intro x bn' hx
    rw [hN] at hx
    rcases assign_get _ ctx.nodes x _ hx with ⟨b, hb, hv⟩ | ⟨hold, _⟩
    · obtain ⟨it, hit, he⟩ := List.mem_map.1 hb
      simp only [itemNode, Prod.mk.injEq] at he
      obtain ⟨h1, h2⟩ := he
      cases hv
      rw [← h2, ← h1]; rfl
    · exact h.pni x bn' hold
  · apply total_lt
    · intro x _
      rcases Classical.em (x = ni) with hxn | hxn
      · subst hxn; rw [hni']; simp [Phase.rank]
      · rcases Classical.em (x ∈ idxs) with hm | hm
        · rw [hidx' x hm, (hidx x hm).2]; simp [Phase.rank]
        · rw [hother x hxn hm]; exact Nat.le_refl _
    · refine ⟨ni, G_lt V hG, ?_⟩
      rw [hni']
      rcases hph with h2 | h2 <;> rw [h2] <;> decide


theorem else_inv (V : Validated root tree G) {ph : Nat → Phase} {ctx ctx' : Ctx F} (h : Inv root tree G ph ctx)
    {ni : Nat} (hG : G ni) (hph : ph ni = .p1 ∨ ph ni = .p2) (hns : ni ∉ ctx.stack.toList)
    {node : BuildNode} (hnode : ctx.nodes[ni]? = some (some node)) (containing jumpToIndex : Nat)
    (hS : ctx'.stack = ctx.stack)
    (hR : ctx'.rootStack.toList = ctx.rootStack.toList ++ node.conditionalItems.toList.map (·.nodeIndex))
    (hN : ctx'.nodes = assign ctx.nodes (node.conditionalItems.toList.map (itemNode containing jumpToIndex))) :
    ∃ ph', Inv root tree G ph' ctx' ∧ total ph' tree.size < total ph tree.size :=
  ⟨_, else_inv_exp V h hG hph hns hnode containing jumpToIndex hS hR hN⟩

/-! ### neutral updates and the pops -/

/-- the invariant does not mention `data` -/
theorem inv_congr {ph : Nat → Phase} {ctx ctx' : Ctx F} (h : Inv root tree G ph ctx) (hS : ctx'.stack = ctx.stack)
    (hR : ctx'.rootStack = ctx.rootStack) (hN : ctx'.nodes = ctx.nodes) : Inv root tree G ph ctx' := by
  obtain ⟨h1, h2, h3, h4, h5, h6, h7, h8, h9, h10, h11⟩ := h
  exact ⟨hS ▸ h1, hS ▸ h2, hR ▸ h3, hR ▸ h4, hN ▸ h5, hN ▸ h6, hN ▸ h7, hN ▸ h8, h9, h10, hN ▸ h11⟩

/-- rewriting a build node without touching its state and its conditional items -/
theorem inv_putNode_same {ph : Nat → Phase} {ctx ctx' : Ctx F} (h : Inv root tree G ph ctx) {i : Nat} {bn bn' : BuildNode}
    (hb : ctx.nodes[i]? = some (some bn)) (hs : bn'.state = bn.state) (hi : bn'.conditionalItems = bn.conditionalItems)
    (hpi : bn'.parseNodeIndex = bn.parseNodeIndex) (hS : ctx'.stack = ctx.stack) (hR : ctx'.rootStack = ctx.rootStack) (hN : ctx'.nodes = putNode ctx.nodes i bn') :
    Inv root tree G ph ctx' := by
  have hget : ∀ (x : Nat) (b : BuildNode), ctx'.nodes[x]? = some (some b) →
      ∃ b0, ctx.nodes[x]? = some (some b0) ∧ b.state = b0.state ∧ b.conditionalItems = b0.conditionalItems ∧
        b.parseNodeIndex = b0.parseNodeIndex := by
    intro x b hx
    rw [hN, getElem?_putNode] at hx
    rcases Classical.em (i = x) with hix | hix
    · rw [if_pos hix] at hx
      subst hix
      split at hx
      · cases hx; exact ⟨bn, hb, hs, hi, hpi⟩
      · cases hx
    · rw [if_neg hix] at hx
      exact ⟨b, hx, rfl, rfl, rfl⟩
  obtain ⟨h1, h2, h3, h4, h5, h6, h7, h8, h9, h10, h11⟩ := h
  refine ⟨hS ▸ h1, hS ▸ h2, hR ▸ h3, hR ▸ h4, by rw [hN, size_putNode]; exact h5, ?_, ?_, ?_, h9, h10, ?_⟩
  · intro x b hx hp
    obtain ⟨b0, hb0, e1, _⟩ := hget x b hx
    rw [e1]; exact h6 x b0 hb0 hp
  · intro x b hx hp it hit
    obtain ⟨b0, hb0, _, e2, _⟩ := hget x b hx
    rw [e2] at hit; exact h7 x b0 hb0 hp it hit
  · intro x b hx hp
    obtain ⟨b0, hb0, _, e2, _⟩ := hget x b hx
    rw [e2]; exact h8 x b0 hb0 hp
  · intro x b hx
    obtain ⟨b0, hb0, _, _, e3⟩ := hget x b hx
    rw [e3]; exact h11 x b0 hb0

theorem toList_of_back {a : Array Nat} {x : Nat} (hb : a.back? = some x) : a.toList = a.pop.toList ++ [x] := by
  have hpos := back_some_size_pos hb
  have hne : a.toList ≠ [] := by
    intro h; have : a.size = 0 := by simpa using congrArg List.length h
    omega
  have hlast : a.toList.getLast? = some x := by rw [Array.getLast?_toList]; exact hb
  rw [List.getLast?_eq_some_getLast hne] at hlast
  have hl : a.toList.getLast hne = x := by simpa using hlast
  have := List.dropLast_concat_getLast hne
  rw [hl] at this
  rw [Array.toList_pop]; exact this.symm

/-- popping the inner work list -/
theorem inv_pop_stack {ph : Nat → Phase} {ctx : Ctx F} (h : Inv root tree G ph ctx) {ni : Nat}
    (hb : ctx.stack.back? = some ni) :
    Inv root tree G ph ({ ctx with stack := ctx.stack.pop } : Ctx F) ∧ ni ∉ ctx.stack.pop.toList ∧ G ni ∧
      (ph ni = .p1 ∨ ph ni = .p2) := by
  have hl := toList_of_back hb
  have hnd := h.stackNodup
  rw [hl] at hnd
  obtain ⟨n1, _, n3⟩ := List.nodup_append.1 hnd
  have hmem : ni ∈ ctx.stack.toList := by rw [hl]; simp
  obtain ⟨h1, h2, h3, h4, h5, h6, h7, h8, h9, h10, h11⟩ := h
  refine ⟨⟨n1, fun x hx => h2 x (by rw [hl]; exact List.mem_append_left _ hx), h3, h4, h5, h6, h7, h8, h9, h10, h11⟩, ?_, h2 ni hmem⟩
  intro hm
  exact n3 ni hm ni (by simp) rfl

/-- popping the outer work list: the root becomes the only entry of a fresh inner work list -/
theorem inv_pop_root_exp (V : Validated root tree G) {ph : Nat → Phase} {ctx ctx' : Ctx F} (h : Inv root tree G ph ctx) {r : Nat}
    (hb : ctx.rootStack.back? = some r) (hS : ctx'.stack = #[r]) (hR : ctx'.rootStack = ctx.rootStack.pop)
    (hN : ctx'.nodes = ctx.nodes) :
    Inv root tree G (popPhase ph r) ctx' ∧ total (popPhase ph r) tree.size < total ph tree.size := by
  have hl := toList_of_back hb
  have hnd := h.rootNodup
  rw [hl] at hnd
  obtain ⟨n1, _, n3⟩ := List.nodup_append.1 hnd
  have hmem : r ∈ ctx.rootStack.toList := by rw [hl]; simp
  obtain ⟨hrG, hrp⟩ := h.rootOk r hmem
  let ph' : Nat → Phase := popPhase ph r
  have hr' : ph' r = .p1 := by simp [ph', popPhase]
  have hother : ∀ x, x ≠ r → ph' x = ph x := by intro x hx; simp [ph', popPhase, hx]
  have hsame : ∀ x, ph x ≠ .pr → ph' x = ph x := fun x hx => hother x (fun hxr => hx (hxr ▸ hrp))
  change Inv root tree G ph' ctx' ∧ total ph' tree.size < total ph tree.size
  refine ⟨⟨?_, ?_, ?_, ?_, ?_, ?_, ?_, ?_, ?_, ?_, ?_⟩, ?_⟩
  · rw [hS]; simp
  · intro x hx
    rw [hS] at hx
    simp only [List.mem_singleton] at hx
    subst hx; exact ⟨hrG, Or.inl hr'⟩
  · rw [hR]; exact n1
  · intro x hx
    rw [hR] at hx
    have hxr : x ≠ r := fun hxr => n3 x hx r (by simp) hxr
    have := h.rootOk x (by rw [hl]; exact List.mem_append_left _ hx)
    rw [hother x hxr]; exact this
  · rw [hN]; exact h.size
  · intro x bn hx hp2
    rw [hN] at hx
    have hxr : x ≠ r := fun hxr => by subst hxr; rw [hr'] at hp2; cases hp2
    rw [hother x hxr] at hp2
    exact h.init x bn hx hp2
  · intro x bn hx hp3 it hit
    rw [hN] at hx
    have hx3 : ph x ≠ .p3 := by
      rcases Classical.em (x = r) with hxr | hxr
      · subst hxr; rw [hrp]; intro h; cases h
      · rw [← hother x hxr]; exact hp3
    obtain ⟨g, hp⟩ := h.items x bn hx hx3 it hit
    exact ⟨g, by rw [hsame _ (by rw [hp]; intro h; cases h)]; exact hp⟩
  · intro x bn hx hp3
    rw [hN] at hx
    have hx3 : ph x ≠ .p3 := by
      rcases Classical.em (x = r) with hxr | hxr
      · subst hxr; rw [hrp]; intro h; cases h
      · rw [← hother x hxr]; exact hp3
    exact h.itemsNodup x bn hx hx3
  · intro c hcG hc0
    have hc0' : ph c ≠ .p0 := by
      rcases Classical.em (c = r) with hcr | hcr
      · subst hcr; rw [hrp]; intro h; cases h
      · rw [← hother c hcr]; exact hc0
    rcases h.fresh c hcG hc0' with h1 | ⟨p, hp, hpc, hs1, hs2⟩
    · exact Or.inl h1
    · have hne : ph p ≠ .pr := by rcases hs1 with h1 | h1 <;> rw [h1] <;> intro h <;> cases h
      exact Or.inr ⟨p, hp, hpc, by rw [SchedDone, hsame p hne]; exact ⟨hs1, hs2⟩⟩
  · intro x pn hx hp2
    have hxr : x ≠ r := fun hxr => by subst hxr; rw [hr'] at hp2; cases hp2
    rw [hother x hxr] at hp2
    exact h.p2two x pn hx hp2
  · intro x bn hx
    rw [hN] at hx; exact h.pni x bn hx
  · apply total_lt
    · intro x _
      rcases Classical.em (x = r) with hxr | hxr
      · subst hxr; rw [hr', hrp]; decide
      · rw [hother x hxr]; exact Nat.le_refl _
    · exact ⟨r, G_lt V hrG, by rw [hr', hrp]; decide⟩


theorem inv_pop_root (V : Validated root tree G) {ph : Nat → Phase} {ctx ctx' : Ctx F} (h : Inv root tree G ph ctx) {r : Nat}
    (hb : ctx.rootStack.back? = some r) (hS : ctx'.stack = #[r]) (hR : ctx'.rootStack = ctx.rootStack.pop)
    (hN : ctx'.nodes = ctx.nodes) :
    ∃ ph', Inv root tree G ph' ctx' ∧ total ph' tree.size < total ph tree.size :=
  ⟨_, inv_pop_root_exp V h hb hS hR hN⟩

end Garnish.Lemmas.BuildTotal
