/-
Totality of the emitting traversal of `build` — part 3: the else-chain head, the pops, and the neutral updates.
-/
import Garnish.Lemmas.BuildTotalStep
namespace Garnish.Lemmas.BuildTotal
open Garnish Garnish.Gen Garnish.Model.Parser Garnish.Model.Literals Garnish.Model.Build Garnish.Lemmas.Build

variable {F : Type} {root : Nat} {tree : Array ParseNode} {G : Nat → Prop}

/-! ### `elseJumpItems` / `assignNewItems` as lists -/

def itemNode (containing jumpToIndex : Nat) (c : ConditionItem) : Nat × BuildNode :=
  (c.nodeIndex, BuildNode.newWithJumpAndEnd c.nodeIndex containing c.jumpIndexToUpdate [(.jumpTo, some jumpToIndex)])

theorem elseJumpItems_spec (containing jumpToIndex : Nat) : ∀ (items : List ConditionItem) (rs : Array Nat)
    (acc : Array (Nat × BuildNode)),
    (elseJumpItems containing jumpToIndex items rs acc).1.toList = rs.toList ++ items.map (·.nodeIndex) ∧
    (elseJumpItems containing jumpToIndex items rs acc).2.toList = acc.toList ++ items.map (itemNode containing jumpToIndex) := by
  intro items
  induction items with
  | nil => intro rs acc; simp [elseJumpItems]
  | cons c rest ih =>
    intro rs acc
    simp only [elseJumpItems]
    obtain ⟨h1, h2⟩ := ih (rs.push c.nodeIndex) (acc.push (itemNode containing jumpToIndex c))
    refine ⟨?_, ?_⟩
    · rw [show (c.nodeIndex, BuildNode.newWithJumpAndEnd c.nodeIndex containing c.jumpIndexToUpdate
          [(Instruction.jumpTo, some jumpToIndex)]) = itemNode containing jumpToIndex c from rfl, h1]
      simp
    · rw [show (c.nodeIndex, BuildNode.newWithJumpAndEnd c.nodeIndex containing c.jumpIndexToUpdate
          [(Instruction.jumpTo, some jumpToIndex)]) = itemNode containing jumpToIndex c from rfl, h2]
      simp

theorem setNodeIdx_eq {nodes : Nodes} {i : Nat} (hi : i < nodes.size) (b : BuildNode) (site : String) :
    setNodeIdx nodes i b site = .ok (putNode nodes i b) := by
  unfold setNodeIdx putNode
  rw [dif_pos hi]
  simp [Array.setIfInBounds, hi]

theorem assignNewItems_eq : ∀ (l : List (Nat × BuildNode)) (nodes : Nodes), (∀ p, p ∈ l → p.1 < nodes.size) →
    assignNewItems nodes l = .ok (assign nodes l) := by
  intro l
  induction l with
  | nil => intro nodes _; rfl
  | cons p rest ih =>
    intro nodes hp
    obtain ⟨i, b⟩ := p
    simp only [assignNewItems, assign, List.foldl_cons]
    rw [setNodeIdx_eq (hp (i, b) List.mem_cons_self)]
    simp only [bind_ok]
    exact ih _ (fun q hq => by rw [size_putNode]; exact hp q (List.mem_cons_of_mem _ hq))

/-! ### the head of an else-chain releases its arms (`ElseJump`, second visit) -/

theorem else_inv (V : Validated root tree G) {ph : Nat → Phase} {ctx ctx' : Ctx F} (h : Inv root tree G ph ctx)
    {ni : Nat} (hG : G ni) (hph : ph ni = .p1 ∨ ph ni = .p2) (hns : ni ∉ ctx.stack.toList)
    {node : BuildNode} (hnode : ctx.nodes[ni]? = some (some node)) (containing jumpToIndex : Nat)
    (hS : ctx'.stack = ctx.stack)
    (hR : ctx'.rootStack.toList = ctx.rootStack.toList ++ node.conditionalItems.toList.map (·.nodeIndex))
    (hN : ctx'.nodes = assign ctx.nodes (node.conditionalItems.toList.map (itemNode containing jumpToIndex))) :
    ∃ ph', Inv root tree G ph' ctx' ∧ total ph' tree.size < total ph tree.size := by
  have hni0 : ph ni ≠ .p0 := by rcases hph with h1 | h1 <;> rw [h1] <;> intro h <;> cases h
  have hni3 : ph ni ≠ .p3 := by rcases hph with h1 | h1 <;> rw [h1] <;> intro h <;> cases h
  let idxs := node.conditionalItems.toList.map (·.nodeIndex)
  have hidx : ∀ x, x ∈ idxs → G x ∧ ph x = .pc ni := by
    intro x hx
    obtain ⟨it, hit, hxe⟩ := List.mem_map.1 hx
    subst hxe
    exact h.items ni node hnode hni3 it hit
  have hidxN : idxs.Nodup := h.itemsNodup ni node hnode hni3
  have hidxni : ni ∉ idxs := by
    intro hm
    have := (hidx ni hm).2
    rcases hph with h1 | h1 <;> rw [h1] at this <;> cases this
  let ph' : Nat → Phase := fun x => if x = ni then .p3 else if x ∈ idxs then .pr else ph x
  have hni' : ph' ni = .p3 := by simp [ph']
  have hidx' : ∀ x, x ∈ idxs → ph' x = .pr := by
    intro x hx
    have : x ≠ ni := fun hxn => hidxni (hxn ▸ hx)
    simp [ph', this, hx]
  have hother : ∀ x, x ≠ ni → x ∉ idxs → ph' x = ph x := by
    intro x h1 h2; simp [ph', h1, h2]
  -- a node whose phase is not `pc ni` (and which is not `ni`) keeps its phase
  have hsame : ∀ x, x ≠ ni → ph x ≠ .pc ni → ph' x = ph x := by
    intro x h1 h2
    exact hother x h1 (fun hm => h2 (hidx x hm).2)
  have hkeys : ∀ (x : Nat) (b : BuildNode), (x, b) ∈ node.conditionalItems.toList.map (itemNode containing jumpToIndex) →
      x ∈ idxs ∧ b.conditionalItems = #[] := by
    intro x b hm
    obtain ⟨it, hit, he⟩ := List.mem_map.1 hm
    simp only [itemNode, Prod.mk.injEq] at he
    obtain ⟨h1, h2⟩ := he
    subst h1; subst h2
    exact ⟨List.mem_map.2 ⟨it, hit, rfl⟩, by simp [BuildNode.newWithJumpAndEnd, BuildNode.new]⟩
  have hget : ∀ (x : Nat) (bn' : BuildNode), ctx'.nodes[x]? = some (some bn') →
      (x ∈ idxs ∧ bn'.conditionalItems = #[]) ∨ ctx.nodes[x]? = some (some bn') := by
    intro x bn' hx
    rw [hN] at hx
    rcases assign_get _ ctx.nodes x _ hx with ⟨b, hb, hv⟩ | ⟨hold, _⟩
    · cases hv; exact Or.inl (hkeys x b hb)
    · exact Or.inr hold
  have hold3 : ∀ x, ph' x ≠ .p3 → x ≠ ni := fun x hx hxn => hx (hxn ▸ hni')
  have keep : ∀ (y : Nat) (bn : BuildNode), ctx.nodes[y]? = some (some bn) → y ≠ ni → ph y ≠ .p3 →
      ∀ it, it ∈ bn.conditionalItems.toList → G it.nodeIndex ∧ ph' it.nodeIndex = .pc y := by
    intro y bn hy hyn hy3 it hit
    obtain ⟨g, hp⟩ := h.items y bn hy hy3 it hit
    have hn : it.nodeIndex ≠ ni := by
      intro hn; rw [hn] at hp
      rcases hph with h2 | h2 <;> rw [h2] at hp <;> cases hp
    have hne : ph it.nodeIndex ≠ .pc ni := by
      rw [hp]; intro he; cases he; exact hyn rfl
    exact ⟨g, by rw [hsame _ hn hne]; exact hp⟩
  refine ⟨ph', ⟨?_, ?_, ?_, ?_, ?_, ?_, ?_, ?_, ?_, ?_⟩, ?_⟩
  · rw [hS]; exact h.stackNodup
  · intro x hx
    rw [hS] at hx
    have hso := h.stackOk x hx
    have hxn : x ≠ ni := fun hxn => hns (hxn ▸ hx)
    have hne : ph x ≠ .pc ni := by rcases hso.2 with h2 | h2 <;> rw [h2] <;> intro h <;> cases h
    rw [hsame x hxn hne]; exact hso
  · rw [hR]
    refine List.nodup_append.2 ⟨h.rootNodup, hidxN, fun a ha b hb hab => ?_⟩
    subst hab
    have h1 := (h.rootOk a ha).2
    rw [(hidx a hb).2] at h1; cases h1
  · intro x hx
    rw [hR] at hx
    rcases List.mem_append.1 hx with h1 | h1
    · have hro := h.rootOk x h1
      have hxn : x ≠ ni := by
        intro hxn; subst hxn
        rcases hph with h2 | h2 <;> rw [h2] at hro <;> cases hro.2
      have hne : ph x ≠ .pc ni := by rw [hro.2]; intro h; cases h
      rw [hsame x hxn hne]; exact hro
    · exact ⟨(hidx x h1).1, hidx' x h1⟩
  · rw [hN, assign_size]; exact h.size
  · intro x bn' hx hp2
    have hxn : x ≠ ni := fun hxn => by subst hxn; rw [hni'] at hp2; cases hp2
    have hxi : x ∉ idxs := fun hm => by rw [hidx' x hm] at hp2; cases hp2
    rcases hget x bn' hx with ⟨h1, _⟩ | h1
    · exact absurd h1 hxi
    · rw [hother x hxn hxi] at hp2; exact h.init x bn' h1 hp2
  · intro x bn' hx hp3 it hit
    have hxn := hold3 x hp3
    rcases hget x bn' hx with ⟨_, h2⟩ | h1
    · rw [h2] at hit; simp at hit
    · have hx3 : ph x ≠ .p3 := by
        rcases Classical.em (x ∈ idxs) with hm | hm
        · rw [(hidx x hm).2]; intro h; cases h
        · rw [← hother x hxn hm]; exact hp3
      exact keep x bn' h1 hxn hx3 it hit
  · intro x bn' hx hp3
    have hxn := hold3 x hp3
    rcases hget x bn' hx with ⟨_, h2⟩ | h1
    · rw [h2]; simp
    · have hx3 : ph x ≠ .p3 := by
        rcases Classical.em (x ∈ idxs) with hm | hm
        · rw [(hidx x hm).2]; intro h; cases h
        · rw [← hother x hxn hm]; exact hp3
      exact h.itemsNodup x bn' h1 hx3
  · have hsd : ∀ p c, SchedDone tree ph p c → SchedDone tree ph' p c := by
      intro p c ⟨hs1, hs2⟩
      rcases Classical.em (p = ni) with hpn' | hpn'
      · subst hpn'
        exact ⟨Or.inr hni', fun _ => hni'⟩
      · have hne : ph p ≠ .pc ni := by rcases hs1 with h1 | h1 <;> rw [h1] <;> intro h <;> cases h
        rw [SchedDone, hsame p hpn' hne]; exact ⟨hs1, hs2⟩
    intro c hcG hc0
    have hc0' : ph c ≠ .p0 := by
      rcases Classical.em (c = ni) with hcn | hcn
      · subst hcn; exact hni0
      · rcases Classical.em (c ∈ idxs) with hm | hm
        · rw [(hidx c hm).2]; intro h; cases h
        · rw [← hother c hcn hm]; exact hc0
    rcases h.fresh c hcG hc0' with h1 | ⟨p, hp, hpc, hs⟩
    · exact Or.inl h1
    · exact Or.inr ⟨p, hp, hpc, hsd p c hs⟩
  · intro x pn' hx hp2
    have hxn : x ≠ ni := fun hxn => by subst hxn; rw [hni'] at hp2; cases hp2
    have hxi : x ∉ idxs := fun hm => by rw [hidx' x hm] at hp2; cases hp2
    rw [hother x hxn hxi] at hp2
    exact h.p2two x pn' hx hp2
  · apply total_lt
    · intro x _
      rcases Classical.em (x = ni) with hxn | hxn
      · subst hxn; rw [hni']; simp [Phase.rank]
      · rcases Classical.em (x ∈ idxs) with hm | hm
        · rw [hidx' x hm, (hidx x hm).2]; simp [Phase.rank]
        · rw [hother x hxn hm]; exact Nat.le_refl _
    · refine ⟨ni, G_lt V hG, ?_⟩
      rw [hni']
      rcases hph with h2 | h2 <;> rw [h2] <;> decide

end Garnish.Lemmas.BuildTotal
