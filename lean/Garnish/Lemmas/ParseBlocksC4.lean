/-
`refParseB` on `e op [ body ]` (the block ends the input): `refParseB_op_block`.
-/
import Garnish.Lemmas.ParseBlocksC3

namespace Garnish.Spec
open Garnish Garnish.Gen Garnish.Model.Parser Garnish.Abs.Source

theorem refParseB_op_block {F : Fl} (e body : Ex) (op o c : PToken) (ws1 ws2 wsA wsB : List PToken)
    (he : e.ok F false = true) (hbody : body.ok F false = true) (hop : isBin3Tok op = true)
    (ho : o.type = .startSideEffect) (hc : c.type = .endSideEffect)
    (hw1 : ∀ w ∈ ws1, isTriviaTok w = true) (hw2 : ∀ w ∈ ws2, isTriviaTok w = true)
    (hwA : ∀ w ∈ wsA, isTriviaTok w = true) (hwB : ∀ w ∈ wsB, isTriviaTok w = true)
    (hnum : NumberedFrom 0 (e.toks ++ (ws1 ++ (op :: (ws2 ++ (o :: (wsA ++ (body.toks ++ (wsB ++ [c])))))))))
    (te tb : RTree) (hte : refParse Table.gen e.toks = .ok te) (htb : refParse Table.gen body.toks = .ok tb)
    (q : Nat) (hq : priority (getDefinition op.type).1 = some q) :
    refParseB Table.gen (e.toks ++ (ws1 ++ (op :: (ws2 ++ (o :: (wsA ++ (body.toks ++ (wsB ++ [c])))))))) =
      .ok (plug (attach Table.gen q ((getDefinition op.type).2 == .binaryRightToLeft) (getDefinition op.type).1
            (e.toks.length + ws1.length) te)
          (.node .nil .sideEffect (e.toks.length + ws1.length + 1 + ws2.length)
            (tb.shift (e.toks.length + ws1.length + 1 + ws2.length + 1 + wsA.length)))) := by
  have hne : e.toks ++ (ws1 ++ (op :: (ws2 ++ (o :: (wsA ++ (body.toks ++ (wsB ++ [c]))))))) ≠ [] := by
    have := e.toks_ne; simp [this]
  obtain ⟨th, trest, hth, hthn⟩ := ex_head e false he
  have hhead : isTrimmable ((e.toks ++ (ws1 ++ (op :: (ws2 ++ (o :: (wsA ++ (body.toks ++ (wsB ++ [c])))))))).head hne) =
      false := by
    have : (e.toks ++ (ws1 ++ (op :: (ws2 ++ (o :: (wsA ++ (body.toks ++ (wsB ++ [c])))))))).head hne = th := by simp [hth]
    rw [this]; exact hthn
  have hlast : isTrimmable ((e.toks ++ (ws1 ++ (op :: (ws2 ++ (o :: (wsA ++ (body.toks ++ (wsB ++ [c])))))))).getLast hne) =
      false := by
    have e1 : e.toks ++ (ws1 ++ (op :: (ws2 ++ (o :: (wsA ++ (body.toks ++ (wsB ++ [c]))))))) =
        (e.toks ++ (ws1 ++ (op :: (ws2 ++ (o :: (wsA ++ (body.toks ++ wsB))))))) ++ [c] := by simp
    rw [getLast_of_eq_append hne e1]; simp only [isTrimmable, hc]; rfl
  obtain ⟨_, hts, htr⟩ := trim_id _ hne hhead hlast
  have hnumE := numbered_prefix e.toks _ 0 hnum
  have hn1 := numbered_append e.toks _ 0 hnum
  have hn2 := numbered_append ws1 _ _ hn1
  have hn3 := numbered_append ws2 _ _ hn2.2
  have hn4 := numbered_append wsA _ _ hn3.2
  have hnumB := numbered_prefix body.toks _ _ hn4
  rw [Nat.zero_add] at hnumB
  unfold refParseB
  simp only [hts, htr]
  have hlen : ¬ (0 ≥ (e.toks ++ (ws1 ++ (op :: (ws2 ++ (o :: (wsA ++ (body.toks ++ (wsB ++ [c])))))))).length) := by
    have := List.length_pos_iff.mpr hne; omega
  simp only [List.drop_zero, Nat.sub_zero, List.take_length, hlen, if_false]
  obtain ⟨sB, hB, hstack, _, hpend, hcur⟩ := refLoopB_op_block e body op o c ws1 ws2 wsA wsB [] he hbody hop ho hc
    hw1 hw2 hwA hwB hnumE hnumB te tb hte htb q hq
  rw [hB]
  simp only [refLoopB, hstack, List.isEmpty_nil, Bool.not_true, Bool.false_eq_true, if_false, hpend, Option.isNone_some,
    Bool.false_and, Outcome.ok.injEq, hcur]
  have hnbE : ∀ x ∈ e.toks, noBlockTok x = true := by
    intro x hx
    have hl := hte
    rw [refParse_ex e he] at hl
    exact refLoop_ok_noblock _ _ _ _ _ hl x hx
  have hnbB : ∀ x ∈ body.toks, noBlockTok x = true := by
    intro x hx
    have hl := htb
    rw [refParse_ex body hbody] at hl
    exact refLoop_ok_noblock _ _ _ _ _ hl x hx
  have hA := noBG_attach Table.gen q ((getDefinition op.type).2 == .binaryRightToLeft) (getDefinition op.type).1
    (e.toks.length + ws1.length) te (refParse_noBG hte hnbE)
  have hutb : unB tb = tb := unB_of_noBG tb (refParse_noBG htb hnbB)
  rw [unB_plug _ _ hA rfl (by simp only [unB, beq_self_eq_true, if_true]; rfl)]
  simp only [unB, beq_self_eq_true, if_true, unB_shift, hutb]

end Garnish.Spec
