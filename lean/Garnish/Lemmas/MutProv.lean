/-
Provenance of the cells behind the index list of `clone_index_stack`: every new node with links is the copy of a
node of the original block with the same label, and each of its links is the image of the corresponding link of
the original (the retained address itself, or a copy with the same label at a lower address).
Consequence: the copies of input-value cells form a chain again (`previous` of a copy is an input-value cell).
-/
import Garnish.Lemmas.MutWF
set_option maxHeartbeats 1000000
namespace Garnish.BasicOpt
open Garnish

/-- where the link `x'` of a fresh copy at `j` comes from -/
def LinkF (off : Nat) (s0 : Array Cell) (cur : Store) (hi j x x' : Nat) : Prop :=
  (x' = x ∧ x < cur.retention) ∨
  (hi ≤ x' + off ∧ x' + off < j ∧ ∃ shx shx', shape s0 x = some shx ∧ shape cur.cells (x' + off) = some shx' ∧
    shx'.label = shx.label)

def Prov (off : Nat) (s0 : Array Cell) (cur : Store) (hi : Nat) : Prop :=
  ∀ j, hi ≤ j → j < cur.cells.size → ∀ sh', shape cur.cells j = some sh' → sh'.kids ≠ [] →
    ∃ o sh, shape s0 o = some sh ∧ sh'.label = sh.label ∧ AllRel (LinkF off s0 cur hi j) sh.kids sh'.kids

theorem LinkF.mono {off : Nat} {s0 : Array Cell} {cur cur' : Store} {hi j x x' : Nat}
    (hret : cur'.retention = cur.retention) (hag : AgreeNC cur.cells cur'.cells) (h : LinkF off s0 cur hi j x x') :
    LinkF off s0 cur' hi j x x' := by
  rcases h with ⟨h1, h2⟩ | ⟨h1, h2, shx, shx', h3, h4, h5⟩
  · exact Or.inl ⟨h1, by rw [hret]; exact h2⟩
  · exact Or.inr ⟨h1, h2, shx, shx', h3, shape_agree hag h4, h5⟩

/-- the label of a shape says whether the cell is an input-value cell -/
theorem label_sv {cells : Array Cell} {a : Nat} {sh : Shape} (h : shape cells a = some sh) :
    isSV sh.label = svAt cells a := by
  unfold shape at h
  cases hc : cells[a]? with
  | none => simp [hc] at h
  | some c =>
    rw [hc] at h
    simp only [svAt, hc]
    cases c <;> simp only [] at h <;> try (simp at h; done)
    all_goals first
      | (simp only [Option.some.injEq] at h; subst h; rfl)
      | (simp only [Option.map_eq_some_iff] at h; obtain ⟨t, _, rfl⟩ := h; rfl)
      | (split at h
         · simp only [Option.some.injEq] at h; subst h; rfl
         · simp at h)

/-- a shape labelled `Value` is a `Value` cell with its two links -/
theorem label_value {cells : Array Cell} {a : Nat} {sh : Shape} (h : shape cells a = some sh)
    (hl : sh.label = .value 0 0) : ∃ p v, cells[a]? = some (.value p v) ∧ sh.kids = [p, v] := by
  unfold shape at h
  cases hc : cells[a]? with
  | none => simp [hc] at h
  | some c =>
    rw [hc] at h
    cases c <;> simp only [] at h <;> try (simp at h; done)
    all_goals first
      | (simp only [Option.some.injEq] at h; subst h; simp only [] at hl
         first | (cases hl; done) | exact ⟨_, _, rfl, rfl⟩)
      | (simp only [Option.map_eq_some_iff] at h; obtain ⟨t, _, rfl⟩ := h; simp only [] at hl; cases hl)
      | (split at h
         · simp only [Option.some.injEq] at h; subst h; simp only [] at hl; cases hl
         · simp at h)

/-- **the walk keeps provenance** -/
theorem cloneLoop_prov {off : Nat} {s0 : Array Cell} {s1 : Store} {top hi : Nat} (htop : s0.size ≤ top)
    (hnl : ListsWF s0) (hcase : off = 0 ∨ s1.retention ≤ hi) (hoff : s1.retention + off ≤ hi)
    (hpre : FreshPre s0 s1 top hi) :
    ∀ (k : Nat) (cur s' : Store), CInv off s0 s1 top hi k cur → Prov off s0 cur hi →
      Store.cloneLoop off (s1.start + hi) top k cur = .ok s' → Prov off s0 s' hi
  | 0, cur, s', _, hp, h => by
    simp only [Store.cloneLoop, Outcome.ok.injEq] at h
    subst h; exact hp
  | k + 1, cur, s', hinv, hp, h => by
    obtain ⟨index, cur2, nw, s2, st, hinv2, hrest⟩ := cloneLoop_one htop hnl hcase k cur s' hinv h
    refine cloneLoop_prov htop hnl hcase hoff hpre k s2 s' hinv2 ?_ hrest
    have hagc : AgreeNC cur.cells cur2.cells := by
      intro j' d hj' _
      have hjl : j' < cur.cells.size := by
        rcases Nat.lt_or_ge j' cur.cells.size with h | h
        · exact h
        · rw [Array.getElem?_eq_none h] at hj'; cases hj'
      rw [st.keep j' hjl]; exact hj'
    have hret2 : cur2.retention = cur.retention := st.ext.frame.1
    have hret3 : s2.retention = cur2.retention := st.frame2.1
    intro j hj1 hj2 sh' hsh' hkids
    rw [st.size2] at hj2
    by_cases hold : j < cur.cells.size
    · -- a cell that was there before the step
      obtain ⟨c, hc, _, hk⟩ := hinv.fresh hpre j hj1 hold
      rcases hk with hn | ⟨sh, hsh, _⟩
      · exfalso
        have h2 : cur2.cells[j]? = some c := by rw [st.keep j hold]; exact hc
        have h3 : s2.cells[j]? = some c := by rw [st.other j (by have := hinv.bound; omega)]; exact h2
        rw [neverNode_shape h3 hn] at hsh'; cases hsh'
      · have hfw : shape s2.cells j = some sh := shape_agree st.agree2 (shape_agree hagc hsh)
        rw [hfw] at hsh'
        simp only [Option.some.injEq] at hsh'
        subst hsh'
        obtain ⟨o, sh0, h1, h2, h3⟩ := hp j hj1 hold sh hsh hkids
        exact ⟨o, sh0, h1, h2, AllRel.imp (fun a b hab =>
          (hab.mono hret2 hagc).mono hret3 st.agree2) h3⟩
    · -- a cell the step appended
      rcases st.news hpre j (by omega) hj2 with hjn | ⟨d, hd, hside⟩
      · rcases st.good with ⟨e1, e2⟩ | ⟨ni, hni1, hni2, hcl⟩
        · exfalso
          have : cur2.retention = s1.retention := by rw [hret2]; exact hinv.ret
          omega
        · have hjni : j = ni := by omega
          subst hjni
          obtain ⟨hkn, hitems⟩ := hpre
          have hi_lt : top + k < hi := by have := hinv.bound; omega
          obtain ⟨sh, hsh⟩ := hitems (top + k) (by omega) hi_lt index (by
            rw [← hinv.pending (top + k) (by omega) hi_lt]; exact st.item)
          obtain ⟨sh'', g1, g2, _, g4⟩ := hcl sh hsh
          have hfw : shape s2.cells j = some sh'' := shape_agree st.agree2 g1
          rw [hfw] at hsh'
          simp only [Option.some.injEq] at hsh'
          subst hsh'
          refine ⟨index, sh, hsh, g2, AllRel.imp_mem (fun x x' hx hl => ?_) g4⟩
          rcases hl with ⟨h1, h2⟩ | ⟨jm, h1, h2, h3⟩
          · exact Or.inl ⟨h1, by rw [hret3]; exact h2⟩
          · rw [st.keep jm (by have := hinv.hiLe; omega)] at h3
            obtain ⟨o, n, hcell, _, hgood⟩ := hinv.done jm (by omega) h2
            rw [h3] at hcell
            simp only [Option.some.injEq, Cell.cloneIndexMap.injEq] at hcell
            obtain ⟨ho, hn⟩ := hcell
            subst ho; subst hn
            rcases hgood with ⟨e1, e2⟩ | ⟨ni2, f1, f2, f3⟩
            · exact Or.inl ⟨e1, by rw [hret3, hret2]; exact e2⟩
            · obtain ⟨shx, hshx⟩ := hkn index sh hsh x hx
              obtain ⟨sh2, q1, q2, _, _⟩ := f3 shx hshx
              have hb := shape_bound q1
              exact Or.inr ⟨by omega, by omega, shx, sh2, hshx,
                by rw [f2]; exact shape_agree st.agree2 (shape_agree hagc q1), q2⟩
      · exfalso
        have h3 : s2.cells[j]? = some d := by rw [st.other j (by have := hinv.bound; omega)]; exact hd
        rcases hside with hn | hl
        · rw [neverNode_shape h3 hn] at hsh'; cases hsh'
        · rw [shape_of_solo h3 hl] at hsh'
          simp only [Option.some.injEq] at hsh'
          subst hsh'
          exact hkids rfl

/-- with a chain in the original block, the copies of input-value cells are chained: `previous` of a copy at `j`
is a retained input-value cell or a copy of one below `j` -/
theorem Prov.chain {off : Nat} {s0 : Array Cell} {cur : Store} {hi : Nat} (hp : Prov off s0 cur hi)
    (hchain : ChainWF s0) (hagree : ∀ (i : Nat) (c : Cell), s0[i]? = some c → cur.cells[i]? = some c)
    {j p' v' : Nat} (hj : hi ≤ j) (hc : cur.cells[j]? = some (.value p' v')) :
    (p' < cur.retention ∧ svAt cur.cells p' = true) ∨
    (hi ≤ p' + off ∧ p' + off < j ∧ svAt cur.cells (p' + off) = true) := by
  have hjl : j < cur.cells.size := by
    rcases Nat.lt_or_ge j cur.cells.size with h | h
    · exact h
    · rw [Array.getElem?_eq_none h] at hc; cases hc
  have hsh : shape cur.cells j = some ⟨.value 0 0, [], [p', v']⟩ := shape_of_solo hc rfl
  obtain ⟨o, sh, h1, h2, h3⟩ := hp j hj hjl _ hsh (by simp)
  obtain ⟨p, v, hco, hk⟩ := label_value h1 h2.symm
  rw [hk] at h3
  have hpsv := (hchain o p v hco).2
  cases h3 with
  | cons hab _ =>
    rcases hab with ⟨e1, e2⟩ | ⟨e1, e2, shx, shx', e3, e4, e5⟩
    · subst e1
      left
      refine ⟨e2, ?_⟩
      rcases sv_cell hpsv with ⟨a, b, hcp⟩ | ⟨b, hcp⟩
      · simp [svAt, hagree _ _ hcp, isSV]
      · simp [svAt, hagree _ _ hcp, isSV]
    · right
      refine ⟨e1, e2, ?_⟩
      rw [← label_sv e4, e5, label_sv e3]; exact hpsv

end Garnish.BasicOpt
