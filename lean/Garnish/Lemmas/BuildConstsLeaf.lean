/-
Every constant `build` adds to the data object is a leaf (`isLeafS`: Unit / True / False, numbers, char lists, byte lists,
symbols, expressions — never a pair, list, range, slice, concatenation or partial application): `build_consts_leaf`, for
every node vector, root, fuel and start state whose constants are leaves.
-/
import Garnish.Lemmas.BuildAttr4
import Garnish.Props.C01TextStoreSimple
set_option linter.unusedSimpArgs false
namespace Garnish.Lemmas.BuildConstsLeaf
open Garnish Garnish.Gen Garnish.Model.Parser Garnish.Model.Literals Garnish.Model.Build Garnish.Lemmas.Build
open Garnish.Props.C01TextStore (isLeafS)

variable {F : Type}

/-- the constants are leaves -/
def CL (d : BState F) : Prop := d.consts.toList.all isLeafS = true

theorem cl_push {d : BState F} (h : CL d) {v : Val F} (hv : isLeafS v = true) :
    CL ({ instrs := d.instrs, jumps := d.jumps, consts := d.consts.push v, metadata := d.metadata } : BState F) := by
  simp only [CL] at h ⊢
  simp [h, hv]

theorem cl_congr {d d' : BState F} (h : CL d) (hc : d'.consts = d.consts) : CL d' := by
  simp only [CL] at h ⊢; rw [hc]; exact h

/-- closes `Sat (fun c => CL c.data) …` for a handler that was unfolded down to the data operations -/
macro "cl_tac" : tactic => `(tactic| (
  repeat' (first
    | exact sat_buildErr
    | exact sat_panic
    | (simp only [sat_ok]
       first
         | assumption
         | (refine cl_congr ‹CL _› ?_; rfl)
         | (refine cl_push ‹CL _› ?_; rfl)
         | (refine cl_congr (cl_push ‹CL _› ?_) ?_; rotate_left; rfl; rfl))
    | simp only [bind_ok]
    | split
    | (refine sat_bind (Q := fun _ => True) sat_true (fun _ _ => ?_)))))

section handlers
variable {ctx : Ctx F} {ni : Nat} {pn : ParseNode}

theorem handleUnaryPrefix_cl (h : CL ctx.data) (ins : Instruction) : Sat (fun c => CL c.data) (handleUnaryPrefix ins ctx ni pn) := by
  unfold handleUnaryPrefix
  try simp only [pushInstr, pushToJumpTable, addConst, parseAddSymbol, getJumpTableLen, getInstructionLen]
  cl_tac

theorem handleUnarySuffix_cl (h : CL ctx.data) (ins : Instruction) : Sat (fun c => CL c.data) (handleUnarySuffix ins ctx ni pn) := by
  unfold handleUnarySuffix
  try simp only [pushInstr, pushToJumpTable, addConst, parseAddSymbol, getJumpTableLen, getInstructionLen]
  cl_tac

theorem handleBinaryOperationWithPush_cl (h : CL ctx.data) (ins : Instruction) (lr : Bool) : Sat (fun c => CL c.data) (handleBinaryOperationWithPush ins lr ctx ni pn) := by
  unfold handleBinaryOperationWithPush
  try simp only [pushInstr, pushToJumpTable, addConst, parseAddSymbol, getJumpTableLen, getInstructionLen]
  cl_tac

theorem handleList_cl (h : CL ctx.data) : Sat (fun c => CL c.data) (handleList ctx ni pn) := by
  unfold handleList
  try simp only [pushInstr, pushToJumpTable, addConst, parseAddSymbol, getJumpTableLen, getInstructionLen]
  cl_tac

theorem handleLogicalBinary_cl (h : CL ctx.data) (ins : Instruction) : Sat (fun c => CL c.data) (handleLogicalBinary ins ctx ni pn) := by
  unfold handleLogicalBinary
  try simp only [pushInstr, pushToJumpTable, addConst, parseAddSymbol, getJumpTableLen, getInstructionLen]
  cl_tac

theorem handleJumpIf_cl (h : CL ctx.data) (ins : Instruction) : Sat (fun c => CL c.data) (handleJumpIf ins ctx ni pn) := by
  unfold handleJumpIf
  try simp only [pushInstr, pushToJumpTable, addConst, parseAddSymbol, getJumpTableLen, getInstructionLen]
  cl_tac

theorem handleUnaryFixApply_cl (h : CL ctx.data) (child : Option Nat) : Sat (fun c => CL c.data) (handleUnaryFixApply child ctx ni pn) := by
  unfold handleUnaryFixApply
  try simp only [pushInstr, pushToJumpTable, addConst, parseAddSymbol, getJumpTableLen, getInstructionLen]
  cl_tac

theorem handleGroup_cl (h : CL ctx.data) : Sat (fun c => CL c.data) (handleGroup ctx ni pn) := by
  unfold handleGroup
  try simp only [pushInstr, pushToJumpTable, addConst, parseAddSymbol, getJumpTableLen, getInstructionLen]
  cl_tac

theorem handleSideEffect_cl (h : CL ctx.data) : Sat (fun c => CL c.data) (handleSideEffect ctx ni pn) := by
  unfold handleSideEffect
  try simp only [pushInstr, pushToJumpTable, addConst, parseAddSymbol, getJumpTableLen, getInstructionLen]
  cl_tac

theorem handleNestedExpression_cl (h : CL ctx.data) (crj : Nat) : Sat (fun c => CL c.data) (handleNestedExpression ctx crj ni pn) := by
  unfold handleNestedExpression
  try simp only [pushInstr, pushToJumpTable, addConst, parseAddSymbol, getJumpTableLen, getInstructionLen]
  cl_tac

theorem handleReapply_cl (h : CL ctx.data) : Sat (fun c => CL c.data) (handleReapply ctx ni pn) := by
  unfold handleReapply
  try simp only [pushInstr, pushToJumpTable, addConst, parseAddSymbol, getJumpTableLen, getInstructionLen]
  cl_tac

theorem handleSubexpression_cl (h : CL ctx.data) : Sat (fun c => CL c.data) (handleSubexpression ctx ni pn) := by
  unfold handleSubexpression
  try simp only [pushInstr, pushToJumpTable, addConst, parseAddSymbol, getJumpTableLen, getInstructionLen]
  cl_tac

theorem handleInfixApply_cl (h : CL ctx.data) : Sat (fun c => CL c.data) (handleInfixApply ctx ni pn) := by
  unfold handleInfixApply
  try simp only [pushInstr, pushToJumpTable, addConst, parseAddSymbol, getJumpTableLen, getInstructionLen]
  cl_tac

theorem handleElseJump_cl (h : CL ctx.data) : Sat (fun c => CL c.data) (handleElseJump ctx ni pn) := by
  unfold handleElseJump
  try simp only [pushInstr, pushToJumpTable, addConst, parseAddSymbol, getJumpTableLen, getInstructionLen]
  cl_tac

/-- an `add_fn` closure adds leaves only -/
def AddLeaf (addFn : AddFn F) (pn : ParseNode) : Prop := ∀ d, CL d → Sat (fun r => CL r.1) (addFn d pn)

theorem handleValueLike_cl (h : CL ctx.data) {addFn : AddFn F} (hadd : AddLeaf addFn pn) (ins : Instruction) :
    Sat (fun c => CL c.data) (handleValueLike addFn ins ctx ni pn) := by
  unfold handleValueLike
  refine sat_bind (Q := fun _ => True) sat_true (fun node _ => ?_)
  split
  · cl_tac
  · refine sat_bind (hadd ctx.data h) (fun r hr => ?_)
    obtain ⟨data, operand⟩ := r
    exact cl_congr hr rfl

theorem handleValuePrimitive_cl (h : CL ctx.data) {addFn : BState F → ParseNode → Outcome (BState F × Nat)}
    (hadd : ∀ d, CL d → Sat (fun r => CL r.1) (addFn d pn)) : Sat (fun c => CL c.data) (handleValuePrimitive addFn ctx ni pn) := by
  unfold handleValuePrimitive
  refine handleValueLike_cl h (fun d hd => ?_) _
  refine sat_bind (hadd d hd) (fun r hr => ?_)
  exact hr

theorem cl_addConst {d : BState F} (h : CL d) {v : Val F} (hv : isLeafS v = true) : CL (addConst d v).1 := cl_push h hv

variable (parseFloat : List Char → Option F)

theorem handleParseNode_cl (h : CL ctx.data) (crj : Nat) : Sat (fun c => CL c.data) (handleParseNode parseFloat ctx crj ni pn) := by
  unfold handleParseNode
  split
  · exact handleValuePrimitive_cl h (fun d hd => cl_addConst hd rfl)
  · exact handleValuePrimitive_cl h (fun d hd => cl_addConst hd rfl)
  · exact handleValuePrimitive_cl h (fun d hd => cl_addConst hd rfl)
  · exact handleValuePrimitive_cl h (fun d hd => by
      unfold parseAddNumber; exact sat_bind (Q := fun _ => True) sat_true (fun _ _ => cl_addConst hd rfl))
  · exact handleValuePrimitive_cl h (fun d hd => by
      unfold parseAddCharList; exact sat_bind (Q := fun _ => True) sat_true (fun _ _ => cl_addConst hd rfl))
  · exact handleValuePrimitive_cl h (fun d hd => by
      unfold parseAddByteList; exact sat_bind (Q := fun _ => True) sat_true (fun _ _ => cl_addConst hd rfl))
  · exact handleValuePrimitive_cl h (fun d hd => by
      unfold parseAddSymbolLiteral
      split
      · exact sat_panic
      · exact cl_addConst hd rfl)
  · refine handleValueLike_cl h (fun d hd => ?_) _
    first | exact hd | exact cl_addConst hd rfl
  · refine handleValueLike_cl h (fun d hd => ?_) _
    first | exact hd | exact cl_addConst hd rfl
  · refine handleValueLike_cl h (fun d hd => ?_) _
    first | exact hd | exact cl_addConst hd rfl
  · refine handleValueLike_cl h (fun d hd => ?_) _
    first | exact hd | exact cl_addConst hd rfl
  · exact handleUnaryPrefix_cl h _
  · exact handleUnaryPrefix_cl h _
  · exact handleUnaryPrefix_cl h _
  · exact handleUnaryPrefix_cl h _
  · exact handleUnaryPrefix_cl h _
  · exact handleUnaryPrefix_cl h _
  · exact handleUnaryPrefix_cl h _
  · exact handleUnarySuffix_cl h _
  · exact handleUnarySuffix_cl h _
  · exact handleUnarySuffix_cl h _
  · exact handleBinaryOperationWithPush_cl h _ _
  · exact handleBinaryOperationWithPush_cl h _ _
  · exact handleBinaryOperationWithPush_cl h _ _
  · exact handleBinaryOperationWithPush_cl h _ _
  · exact handleBinaryOperationWithPush_cl h _ _
  · exact handleBinaryOperationWithPush_cl h _ _
  · exact handleBinaryOperationWithPush_cl h _ _
  · exact handleBinaryOperationWithPush_cl h _ _
  · exact handleBinaryOperationWithPush_cl h _ _
  · exact handleBinaryOperationWithPush_cl h _ _
  · exact handleBinaryOperationWithPush_cl h _ _
  · exact handleBinaryOperationWithPush_cl h _ _
  · exact handleBinaryOperationWithPush_cl h _ _
  · exact handleBinaryOperationWithPush_cl h _ _
  · exact handleBinaryOperationWithPush_cl h _ _
  · exact handleBinaryOperationWithPush_cl h _ _
  · exact handleBinaryOperationWithPush_cl h _ _
  · exact handleBinaryOperationWithPush_cl h _ _
  · exact handleBinaryOperationWithPush_cl h _ _
  · exact handleBinaryOperationWithPush_cl h _ _
  · exact handleBinaryOperationWithPush_cl h _ _
  · exact handleBinaryOperationWithPush_cl h _ _
  · exact handleBinaryOperationWithPush_cl h _ _
  · exact handleBinaryOperationWithPush_cl h _ _
  · exact handleBinaryOperationWithPush_cl h _ _
  · exact handleBinaryOperationWithPush_cl h _ _
  · exact handleBinaryOperationWithPush_cl h _ _
  · exact handleBinaryOperationWithPush_cl h _ _
  · exact handleBinaryOperationWithPush_cl h _ _
  · exact handleBinaryOperationWithPush_cl h _ _
  · exact handleBinaryOperationWithPush_cl h _ _
  · exact handleList_cl h
  · exact handleList_cl h
  · exact handleLogicalBinary_cl h _
  · exact handleLogicalBinary_cl h _
  · exact handleGroup_cl h
  · exact handleSideEffect_cl h
  · exact handleNestedExpression_cl h crj
  · exact handleJumpIf_cl h _
  · exact handleJumpIf_cl h _
  · exact handleElseJump_cl h
  · exact handleReapply_cl h
  · exact handleSubexpression_cl h
  · exact handleSubexpression_cl h
  · exact handleUnaryFixApply_cl h _
  · exact handleUnaryFixApply_cl h _
  · exact handleInfixApply_cl h
  · exact sat_buildErr

theorem innerLoop_cl (tree : Array ParseNode) (crj : Nat) : ∀ (fuel : Nat) (ctx : Ctx F), CL ctx.data →
    Sat (fun r => CL r.1.data) (innerLoop parseFloat tree crj fuel ctx) := by
  intro fuel
  induction fuel with
  | zero => intro ctx _; exact sat_fuelOut
  | succ k ih =>
    intro ctx h
    unfold innerLoop
    split
    · exact h
    · split
      · exact sat_buildErr
      · refine sat_bind (handleParseNode_cl parseFloat (ctx := { ctx with stack := ctx.stack.pop }) h crj) (fun ctx1 h1 => ?_)
        refine sat_bind (Q := fun _ => True) sat_true (fun nodes _ => ?_)
        exact ih _ h1

theorem rootJump_cl (data : BState F) (nodes : Nodes) (rootIndex : Nat) (h : CL data) :
    Sat (fun r => CL r.1) (rootJump data nodes rootIndex) := by
  unfold rootJump
  dsimp only
  have hpush : CL (pushToJumpTable data (getInstructionLen data)) := cl_congr h rfl
  split
  · split
    · split
      · rename_i d' hset
        unfold setJump? at hset
        split at hset
        · cases hset; exact cl_congr h rfl
        · cases hset
      · exact sat_buildErr
    · exact hpush
  · exact hpush

theorem pushEndInstructions_cl (last : Option Instr) (rs : Nat) : ∀ (endL : List Instr) (data : BState F), CL data →
    CL (pushEndInstructions last rs data endL) := by
  intro endL
  induction endL with
  | nil => intro data h; exact h
  | cons e rest ih =>
    intro data h
    unfold pushEndInstructions
    dsimp only
    split
    · split
      · exact ih data h
      · exact ih _ (cl_congr h rfl)
    · exact ih _ (cl_congr h rfl)

theorem rootLoop_cl (tree : Array ParseNode) : ∀ (rootFuel stepFuel : Nat) (ctx : Ctx F), CL ctx.data →
    Sat (fun c => CL c.data) (Garnish.Model.Build.rootLoop parseFloat tree rootFuel stepFuel ctx) := by
  intro rootFuel
  induction rootFuel with
  | zero => intro _ ctx _; exact sat_fuelOut
  | succ k ih =>
    intro stepFuel ctx h
    unfold Garnish.Model.Build.rootLoop
    split
    · exact h
    · dsimp only
      refine sat_bind (rootJump_cl _ _ _ h) (fun res hres => ?_)
      obtain ⟨data, crj⟩ := res
      dsimp only at hres ⊢
      refine sat_bind (innerLoop_cl parseFloat tree crj stepFuel _ hres) (fun res2 h2 => ?_)
      obtain ⟨ctx2, fuel2⟩ := res2
      dsimp only at h2 ⊢
      exact ih fuel2 _ (pushEndInstructions_cl _ _ _ _ h2)

/-- every constant `build` adds is a leaf -/
theorem build_consts_leaf (fuel root : Nat) (tree : Array ParseNode) (data : BState F) (h : CL data) :
    Sat (fun r => CL r.1) (build parseFloat fuel root tree data) := by
  unfold build
  split
  · exact cl_congr h rfl
  · refine sat_bind (Q := fun _ => True) sat_true (fun _ _ => ?_)
    unfold buildCore
    dsimp only
    refine sat_bind (Q := fun _ => True) sat_true (fun N _ => ?_)
    refine sat_bind (rootLoop_cl parseFloat tree fuel fuel _ h) (fun ctx hctx => ?_)
    split
    · exact hctx
    · exact sat_buildErr

end handlers

end Garnish.Lemmas.BuildConstsLeaf
