/-
`StoreLawsOn` for `BasicGarnishData`, continued: appending a block of value cells, and `merge_to_symbol_list`.
-/
import Garnish.Lemmas.BasicLaws7
set_option linter.unusedSimpArgs false
set_option linter.unusedVariables false
set_option maxHeartbeats 2000000
namespace Garnish.Lemmas.Runtime.Basic
open Garnish Gen Garnish.Model.Equality Garnish.Model.Runtime Garnish.Model.Runtime.Basic Garnish.BasicOpt
open Garnish.Lemmas.Runtime Garnish.Lemmas.EqualityRefine

variable {F : Type}

/-- a cell that is neither a register cell nor a frame cell -/
def plainCell (c : Cell) : Bool :=
  !frameKind c && (match c with | .register _ _ => false | _ => true)

/-- the invariant after a block of plain cells, heads untouched -/
theorem binv_append {st : BState} (hinv : BInv st) {s' : Store} (B : List Cell)
    (hcells : s'.cells.toList = st.store.cells.toList ++ B) (hf : SameFrame st.store s') (hw : WFq s') (hfit : Fits s')
    (hB : ∀ c ∈ B, plainCell c = true) : BInv { st with store := s' } := by
  have hsub : Sub st.store.cells s'.cells := by
    intro i c hc
    have hi := cell_lt hc
    rw [← Array.getElem?_toList, hcells, List.getElem?_append_left (by simpa using hi), Array.getElem?_toList]
    exact hc
  have hnew : ∀ (i : Nat) (x : Cell), s'.cells[i]? = some x → st.store.cells[i]? = some x ∨ x ∈ B := by
    intro i x hx
    rw [← Array.getElem?_toList, hcells] at hx
    rcases Nat.lt_or_ge i st.store.cells.size with h | h
    · rw [List.getElem?_append_left (by simpa using h), Array.getElem?_toList] at hx; exact Or.inl hx
    · rw [List.getElem?_append_right (by simpa using h)] at hx; exact Or.inr (List.mem_of_getElem? hx)
  have hsz : st.store.cells.size ≤ s'.cells.size := by
    have := congrArg List.length hcells
    simp at this; omega
  have plain : ∀ x ∈ B, (∀ p v, x ≠ Cell.register p v) ∧ frameKind x = false := by
    intro x hx
    have := hB x hx
    simp only [plainCell, Bool.and_eq_true, Bool.not_eq_true'] at this
    refine ⟨?_, this.1⟩
    intro p v h; rw [h] at this; simp at this
  refine ⟨hw, hfit, ?_, ?_, ?_, ⟨?_, ?_, ?_⟩⟩
  · intro a ha
    rw [hf.2.2.2.2.1] at ha
    exact isRegCell_sub hsub (hinv.regHead a ha)
  · intro i p v hx
    rcases hnew i _ hx with h | h
    · exact isRegCell_sub hsub (hinv.regPrev i p v h)
    · exact absurd rfl ((plain _ h).1 p v)
  · intro i p r hx
    rcases hx with hx | hx
    · rcases hnew i _ hx with h | h
      · exact Nat.lt_of_lt_of_le (hinv.frameSaved i p r (Or.inl h)) hsz
      · have := (plain _ h).2; simp [frameKind] at this
    · rcases hnew i _ hx with h | h
      · exact Nat.lt_of_lt_of_le (hinv.frameSaved i p r (Or.inr h)) hsz
      · have := (plain _ h).2; simp [frameKind] at this
  · intro a ha
    rw [hf.2.2.2.2.2] at ha
    exact isFrameCell_sub hsub (hinv.ftyped.head a ha)
  · intro i p hx
    rcases hx with ⟨r, hx⟩ | hx
    · rcases hnew i _ hx with h | h
      · exact isFrameCell_sub hsub (hinv.ftyped.prev i p (Or.inl ⟨r, h⟩))
      · have := (plain _ h).2; simp [frameKind] at this
    · rcases hnew i _ hx with h | h
      · exact isFrameCell_sub hsub (hinv.ftyped.prev i p (Or.inr h))
      · have := (plain _ h).2; simp [frameKind] at this
  · intro i r hx
    rcases hx with ⟨p, hx⟩ | hx
    · rcases hnew i _ hx with h | h
      · exact isRegCell_sub hsub (hinv.ftyped.reg i r (Or.inl ⟨p, h⟩))
      · have := (plain _ h).2; simp [frameKind] at this
    · rcases hnew i _ hx with h | h
      · exact isRegCell_sub hsub (hinv.ftyped.reg i r (Or.inr h))
      · have := (plain _ h).2; simp [frameKind] at this

theorem sub_of_toList {A B : Array Cell} {l : List Cell} (h : B.toList = A.toList ++ l) : Sub A B := by
  intro i c hc
  have hi := cell_lt hc
  rw [← Array.getElem?_toList, h, List.getElem?_append_left (by simpa using hi), Array.getElem?_toList]
  exact hc

/-- a successful push keeps `Fits` -/
theorem push_fits {s s' : Store} {c : Cell} {i : Nat} (hf : Fits s) (h : s.push c = .ok (s', i)) : Fits s' := by
  obtain ⟨s2, h2, _, hf2⟩ := push_total c hf
  rw [h] at h2
  simp only [Outcome.ok.injEq, Prod.mk.injEq] at h2
  rw [h2.1]; exact hf2

/-- `copy_cells` of an inline run that is there: succeeds, appends the run, keeps the heads and `Fits` -/
theorem copyCells_total {p : Cell → Bool} (hp : ∀ x, p (.cloneItem x) = false) :
    ∀ (n : Nat) (s : Store) (i : Nat) (l : List Cell), Fits s → inlineCells s.cells p i n = some l →
      ∃ s', Store.copyCells s i n = .ok s' ∧ s'.cells.toList = s.cells.toList ++ l ∧ SameFrame s s' ∧ Fits s'
  | 0, s, i, l, hf, hl => by
    simp only [inlineCells, Option.some.injEq] at hl
    subst hl
    exact ⟨s, rfl, by simp, SameFrame.rfl' s, hf⟩
  | n + 1, s, i, l, hf, hl => by
    simp only [inlineCells] at hl
    cases hc : s.cells[i]? with
    | none => simp [hc] at hl
    | some c =>
      rw [hc] at hl
      simp only at hl
      split at hl
      · rename_i hpc
        simp only [Option.map_eq_some_iff] at hl
        obtain ⟨l', hl', rfl⟩ := hl
        obtain ⟨s1, hp1, hc1, hf1⟩ := push_total c hf
        obtain ⟨_, _, hfr1⟩ := push_ok hp1
        have hag : AgreeNC s.cells s1.cells := by rw [hc1]; simpa using agree_append s.cells #[c]
        obtain ⟨s2, h2, hc2, hfr2, hf2⟩ := copyCells_total hp n s1 (i + 1) l' hf1
          (inlineCells_agree hag p hp _ _ _ hl')
        refine ⟨s2, ?_, ?_, hfr1.trans hfr2, hf2⟩
        · simp only [Store.copyCells, bind, Outcome.bind, Store.get, hc, hp1]
          exact h2
        · rw [hc2, hc1]; simp
      · cases hl

/-- the new symbol list: header and parts appended to the block -/
theorem adds_symList (nc : NumCode F) {st : BState} (hinv : BInv st) {s' : Store} {n : Nat} {items : List Cell}
    {m : RM BState Nat} (hm : m st = .ok (st.store.cells.size, { st with store := s' }))
    (hl : s'.cells.toList = st.store.cells.toList ++ (Cell.symbolList n :: items)) (hf : SameFrame st.store s')
    (hfit : Fits s') (hlen : items.length = n) (hall : ∀ c ∈ items, isSymPart c = true) :
    AddsB nc m st (.symList (items.map (symPartOf nc.dec))) := by
  have hcells : s'.cells = st.store.cells ++ (#[Cell.symbolList n] ++ items.toArray) := by
    apply Array.ext'; rw [hl]; simp
  obtain ⟨hw, hn⟩ := inline_block_wfq hinv.wfq hcells hf (Or.inr (Or.inr ⟨by rw [hlen], hall⟩))
  have hsub : Sub st.store.cells s'.cells := sub_of_toList hl
  have hhdr : s'.cells[st.store.cells.size]? = some (Cell.symbolList n) := by
    rw [← Array.getElem?_toList, hl]; simp
  have hread : inlineCells s'.cells isSymPart (st.store.cells.size + 1) n = some items := by
    have := inlineCells_suffix (p := isSymPart) items (st.store.cells.toList ++ [Cell.symbolList n]) [] s'.cells hall
      (by rw [hl]; simp)
    simpa [hlen] using this
  refine ⟨_, _, hm, ?_, eff_sub nc hinv hsub hf, ?_⟩
  · exact .symList (by simp [basicRStore, bv_typeOf, hhdr, cellTy])
      (by simp [basicRStore, bv_symList, hhdr, hread])
  · refine binv_append hinv _ hl hf hw hfit ?_
    intro c hc
    rcases List.mem_cons.mp hc with rfl | h
    · rfl
    · have := hall c h
      cases c <;> simp [isSymPart] at this <;> rfl

end Garnish.Lemmas.Runtime.Basic
