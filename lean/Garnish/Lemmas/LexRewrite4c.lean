/-
Text-level rewrites, lexer side, part 4c (C18): an annotation `@name` inserted inside a run of blanks, directly before a
blank `c`. From inside the Whitespace token (`InWhitespace σ cs`) the text `@name` ends that token with the text `cs`, is
one Annotation token, and the blank starts a new Whitespace token; from there the lexer differs from the one that read
the blank without the annotation only in the pending text (`cs ++ [c]` / `[c]`), positions, and the dead fields of
LexRewrite4b. Hence (`lexLoop_annotation`): the whitespace token `W` of the original text is split into `cs`, the
annotation and the rest of `W`, everything else has the same types and texts.
-/
import Garnish.Lemmas.LexRewrite4b
set_option linter.unusedSimpArgs false
set_option linter.unusedVariables false
namespace Garnish.Model.Lexer
open Garnish.Model Garnish.Model.Parser Garnish.Spec

/-- `@` is neither numeric nor alphanumeric -/
structure CharClass.SaneAt (cc : CharClass) : Prop where
  atN : cc.isNumeric '@' = false
  atA : cc.isAlphanumeric '@' = false

theorem atFacts : walkOperator theTree ['@'] = none := by decide +kernel

theorem starts_at (cc : CharClass) (hcc : cc.SaneAt) : Starts cc '@' .annotation (some .annotation) := by
  intro σ htr
  unfold startToken
  simp [currentOperator, push, htr, atFacts, isAsciiWhitespace, isIdentifierChar, hcc.atN, hcc.atA]

theorem arm_annotation (cc : CharClass) (τ : Lexer) (x : Char) {ty cs p0 p sq eq ae}
    (h : At τ .annotation ty cs p0 p sq eq ae) (hx : (cc.isAlphanumeric x || x == '_') = true) (hx2 : x ≠ '@') :
    ∃ e, stateStep cc τ x = .ok (.cont e none false) ∧ At e .annotation ty (cs ++ [x]) p0 p sq eq ae := by
  obtain ⟨h1, h2, h3, h4, h5, h6, h7, h8, h9, h10, h11, h12, h13⟩ := h
  have hxa : (x == '@') = false := by simpa using hx2
  have hs : stateStep cc τ x = .ok (.cont { τ with currentCharacters := τ.currentCharacters ++ [x] } none false) := by
    unfold stateStep; rw [h1]; simp [Step.ofPair, armAnnotation, hx, hxa, push, h1]
  exact ⟨_, hs, by constructor <;> simp_all⟩

/-- `emit_step`, also recording that the new token has not seen a newline -/
theorem emit_step_couldBe (cc : CharClass) (σ e : Lexer) (x : Char) {st ty cs p0 p sq eq ae st' ty'}
    (hstep : stateStep cc { σ with charactersLexed := σ.charactersLexed + 1 } x = .ok (.cont e none true))
    (he : At e st (some ty) cs p0 p sq eq ae) (hnt : st ≠ .noToken) (hne : ty ≠ .identifier) (hst : Starts cc x st' ty') :
    ∃ σ', processChar cc σ x = .ok (σ', some ⟨cs, ty, p0.1, p0.2⟩) ∧ At σ' st' ty' [x] p (adv p x) 0 0 ae ∧
      σ'.couldBeSubExpression = false := by
  obtain ⟨σ', hp, hA⟩ := emit_step cc σ e x hstep he hnt hne hst
  refine ⟨σ', hp, hA, ?_⟩
  have hp' := emit_any cc σ e x hstep he hnt hne
  rw [hp] at hp'
  have e1 : σ' = bumpColumn (startToken cc (afterEmit e) x) x := by
    simp only [Outcome.ok.injEq, Prod.mk.injEq] at hp'; exact hp'.1
  rw [e1, hst (afterEmit e) (by simp only [afterEmit]; exact he.tree)]
  unfold bumpColumn
  split <;> rfl

theorem sameTT_cons_left {t : LexerToken} {l r : List LexerToken} (h : SameTT (t :: l) r) :
    ∃ t' l', r = t' :: l' ∧ t'.tokenType = t.tokenType ∧ t'.text = t.text ∧ SameTT l l' := by
  cases r with
  | nil => simp [SameTT] at h
  | cons t' l' =>
    simp only [SameTT, List.map_cons, List.cons.injEq, Prod.mk.injEq] at h
    exact ⟨t', l', rfl, h.1.1.symm, h.1.2.symm, h.2⟩

theorem SameTT.trans' {a b c : List LexerToken} (h1 : SameTT a b) (h2 : SameTT b c) : SameTT a c := by
  unfold SameTT at *; rw [h1, h2]

/-- **an annotation inserted inside a run of blanks**: if the original text lexes from inside the whitespace token, so
does the text with `@name` inserted before the blank `c`; the whitespace token `W` is split into `cs`, the annotation and a
token of the type of `W` with the rest of its text, everything after it has the same types and texts -/
theorem lexLoop_annotation (cc : CharClass) (hcc : cc.SaneBlank) (hat : cc.SaneAt) (σ : Lexer) (cs name : List Char)
    (c : Char) (b : List Char) (toks : List LexerToken) (hw : InWhitespace σ cs) (htr : σ.operatorTree = theTree)
    (hae : σ.atEnd = false) (hname : ∀ x ∈ name, cc.isAlphanumeric x = true ∨ x = '_') (hc : IsBlank c)
    (T : List LexerToken) (σf : Lexer) (hT : lexLoop cc (c :: b) σ toks = .ok (T, σf)) :
    ∃ T' σf' W W2 rest rest', lexLoop cc ('@' :: (name ++ c :: b)) σ toks = .ok (T', σf') ∧ T = toks ++ W :: rest ∧
      T' = toks ++ ⟨cs, .whitespace, σ.tokenStartRow, σ.tokenStartColumn⟩ ::
        ⟨'@' :: name, .annotation, σ.textRow, σ.textColumn⟩ :: W2 :: rest' ∧
      W.text = cs ++ W2.text ∧ W2.tokenType = W.tokenType ∧
      (W.tokenType = .whitespace ∨ W.tokenType = .subexpression) ∧ SameTT rest rest' := by
  obtain ⟨⟨w1, w2, w3, w4, w5⟩, wty⟩ := hw
  have hA : At σ .spaces (some .whitespace) cs (σ.tokenStartRow, σ.tokenStartColumn) (σ.textRow, σ.textColumn)
      σ.startQuoteCount σ.endQuoteCount false := ⟨w1, wty, w2, rfl, rfl, rfl, rfl, w4, w5, htr, hae, rfl, rfl⟩
  -- the original text: the blank continues the token
  obtain ⟨σ1, hp1, hw1, hpe⟩ := inWhitespace_blank cc σ cs c ⟨⟨w1, w2, w3, w4, w5⟩, wty⟩ hc
  have hR : lexLoop cc (c :: b) σ toks = lexLoop cc b σ1 toks := by
    simp only [lexLoop, isErr_of_ok w5, hp1, Bool.false_eq_true, ↓reduceIte]
  rw [hR] at hT
  -- the text with the annotation
  obtain ⟨σ2, hp2, h2⟩ := spaces_emit cc σ '@' hA (by unfold IsBlank; decide) (by decide) (starts_at cc hat)
  have hnameB : ∀ x ∈ name, (cc.isAlphanumeric x || x == '_') = true ∧ x ≠ '@' := by
    intro x hx
    rcases hname x hx with h | h
    · exact ⟨by simp [h], fun e => by rw [e, hat.atA] at h; cases h⟩
    · exact ⟨by simp [h], by rw [h]; decide⟩
  obtain ⟨σ3, r3, h3⟩ := run_ind cc
    (fun cs' p σ' => At σ' .annotation (some .annotation) cs' (σ.textRow, σ.textColumn) p 0 0 false)
    (fun _ x => (cc.isAlphanumeric x || x == '_') = true ∧ x ≠ '@') (fun _ _ _ h => h.ok)
    (fun cs' p σ' x h hx => step_of_arm cc σ' x (arm_annotation cc _ x (h.lexed _) hx.1 hx.2))
    name ['@'] _ σ2 (toks ++ [⟨cs, .whitespace, σ.tokenStartRow, σ.tokenStartColumn⟩]) h2
    (fun u x v e => hnameB x (by simp [e]))
  have hE := ending_plain cc hcc .annotation .annotation ('@' :: name) (Or.inr (Or.inr (Or.inr (Or.inl rfl)))) (by decide)
  obtain ⟨e, hs4, he4⟩ := hE _ c _ _ _ _ _ (ender_of_blank hc) (h3.lexed (σ3.charactersLexed + 1))
  obtain ⟨σ4, hp4, h4, hcb4⟩ := emit_step_couldBe cc σ3 e c hs4 he4 (by decide) (by decide) (starts_blank cc c hc)
  have hrun : runChars cc ('@' :: (name ++ [c])) σ toks = .ok (σ4, toks ++ [⟨cs, .whitespace, σ.tokenStartRow, σ.tokenStartColumn⟩] ++
      [⟨'@' :: name, .annotation, σ.textRow, σ.textColumn⟩]) := by
    rw [runChars_cons_some cc σ σ2 '@' _ toks _ w5 hp2 h2.ok, runChars_append cc name [c] σ2 σ3 _ _ r3,
      runChars_cons_some cc σ3 σ4 c [] _ _ h3.ok hp4 h4.ok]
    rfl
  have hR' : lexLoop cc ('@' :: (name ++ c :: b)) σ toks = lexLoop cc b σ4
      (toks ++ [⟨cs, .whitespace, σ.tokenStartRow, σ.tokenStartColumn⟩] ++ [⟨'@' :: name, .annotation, σ.textRow, σ.textColumn⟩]) := by
    have := lexLoop_append cc ('@' :: (name ++ [c])) b σ σ4 toks _ hrun
    rw [← this]
    simp
  -- the two lexers after the blank
  have hwt1 : WsT σ1 := ⟨Or.inl hw1.wsA.state, Or.inl hw1.type⟩
  have h_i := lexLoop_aux cc σ4.canFloat σ4.startQuoteCount σ4.endQuoteCount b σ1 toks hwt1
  have hrel : WsRel (setAux σ1 σ4.canFloat σ4.startQuoteCount σ4.endQuoteCount) σ4 cs [] [c] := by
    obtain ⟨e0, e2, e4, e1, e5, e6, e7, e8, e9, e10⟩ := posEq_erase hpe
    refine ⟨?_, Or.inl hw1.wsA.state, Or.inl hw1.type, hw1.wsA.chars, by simp [h4.chars]⟩
    rw [posEq_iff]
    refine ⟨?_, rfl, ?_, ?_, ?_, rfl, rfl, rfl, ?_, ?_, ?_⟩
    · show σ4.operatorTree = σ1.operatorTree
      rw [h4.tree, e0, htr]
    · show σ4.currentTokenType = σ1.currentTokenType
      rw [h4.type, hw1.type]
    · show σ4.shouldCreate = σ1.shouldCreate
      rw [h4.create, hw1.wsA.create]
    · show σ4.state = σ1.state
      rw [h4.state, hw1.wsA.state]
    · show σ4.couldBeSubExpression = σ1.couldBeSubExpression
      rw [hcb4, hw1.wsA.couldBe]
    · show σ4.result = σ1.result
      rw [h4.ok, hw1.wsA.ok]
    · show σ4.atEnd = σ1.atEnd
      rw [h4.atEnd, e10, hae]
  have h_iii := lexLoop_ws cc hcc.toSane toks cs [] b _ σ4 [c] hrel (inv_of_spaces hw1.wsA.state) (inv_of_spaces h4.state)
  have h_iv := lexLoop_congr cc hcc.toSane toks
    (toks ++ [⟨cs, .whitespace, σ.tokenStartRow, σ.tokenStartColumn⟩] ++ [⟨'@' :: name, .annotation, σ.textRow, σ.textColumn⟩])
    b σ4 σ4 [] [] (PosEq.refl _) (inv_of_spaces h4.state) (inv_of_spaces h4.state) (SameTT.refl [])
  simp only [List.append_nil] at h_iv
  rw [hR']
  -- compose
  rw [hT] at h_i
  cases hq1 : lexLoop cc b (setAux σ1 σ4.canFloat σ4.startQuoteCount σ4.endQuoteCount) toks with
  | ok q1 =>
    rw [hq1] at h_i h_iii
    simp only [FstEq] at h_i
    cases hq2 : lexLoop cc b σ4 toks with
    | ok q2 =>
      rw [hq2] at h_iii h_iv
      simp only [WsOut] at h_iii
      obtain ⟨t, t', z', rest, rest', e1, e2, ety, ews, et, et'⟩ := h_iii
      obtain ⟨hz, hss⟩ : t'.text = [] ++ z' ∧ SameTT rest rest' := et'
      cases hq3 : lexLoop cc b σ4 (toks ++ [⟨cs, .whitespace, σ.tokenStartRow, σ.tokenStartColumn⟩] ++
          [⟨'@' :: name, .annotation, σ.textRow, σ.textColumn⟩]) with
      | ok q3 =>
        rw [hq3] at h_iv
        simp only [OutSameExt] at h_iv
        obtain ⟨r1, r2, f1, f2, hs12⟩ := h_iv
        have hr1 : r1 = t' :: rest' := by
          rw [e2] at f1
          exact (List.append_cancel_left f1).symm
        rw [hr1] at hs12
        obtain ⟨t'', rest'', hr2, hty2, htx2, hs2⟩ := sameTT_cons_left hs12
        refine ⟨q3.1, q3.2, t, t'', rest, rest'', rfl, by rw [← h_i]; exact e1, by rw [f2, hr2]; simp, ?_, ?_, ews, hss.trans' hs2⟩
        · rw [et, htx2, hz]; simp
        · rw [hty2, ← ety]
      | err _ => rw [hq3] at h_iv; simp [OutSameExt] at h_iv
      | panic _ => rw [hq3] at h_iv; simp [OutSameExt] at h_iv
      | fuelOut => rw [hq3] at h_iv; simp [OutSameExt] at h_iv
    | err _ => rw [hq2] at h_iii; simp [WsOut] at h_iii
    | panic _ => rw [hq2] at h_iii; simp [WsOut] at h_iii
    | fuelOut => rw [hq2] at h_iii; simp [WsOut] at h_iii
  | err _ => rw [hq1] at h_i; simp [FstEq] at h_i
  | panic _ => rw [hq1] at h_i; simp [FstEq] at h_i
  | fuelOut => rw [hq1] at h_i; simp [FstEq] at h_i

end Garnish.Model.Lexer
