/-
`ex_insert`: the syntax trees of the parser theorems are closed under inserting one trivia token after a `Good` token
that is not the last one. One lemma per constructor (`ins_*`), then structural recursion.
-/
import Garnish.Lemmas.ExInsert
set_option linter.unusedVariables false
set_option linter.unusedSimpArgs false
namespace Garnish.Spec
open Garnish Garnish.Gen Garnish.Model.Parser

/-- the statement for one syntax tree -/
def InsOK (w : PToken) (e : Ex) : Prop :=
  ∀ F inG, e.ok F inG = true → ∀ pre p post, e.toks = pre ++ p :: post → post ≠ [] → Good p →
    ∃ e', Like e e' ∧ e'.toks = pre ++ p :: w :: post

variable {w : PToken} (hw : isTriviaTok w = true)
include hw

theorem triv_fill : isFillTok w = true := by simp [isFillTok, hw]
theorem triv_gfill (b : Bool) : isGFill b w = true := by simp [isGFill, hw]

theorem ins_atom (pre0 : List PToken) (a : PToken) : InsOK w (.atom pre0 a) := by
  intro F inG hok pre p post h hpost hg
  simp only [Ex.toks] at h
  rcases split_app h with ⟨post1, h1, h2⟩ | ⟨pre2, h1, h2⟩
  · exfalso
    have hnp := good_not_prefix hg
    subst h1
    simp_all [Ex.ok, triv_fill hw, triv_gfill hw]
  · rcases split_cons h2 with ⟨_, _, h3⟩ | ⟨pre3, _, h3⟩
    · exact absurd h3.symm hpost
    · simp at h3

omit hw in
/-- the tail `ws ++ [c]` of a bracketed tree: the insertion point is in `ws` -/
theorem tail_ws_c {ws pre post : List PToken} {c p : PToken} (h : ws ++ [c] = pre ++ p :: post) (hpost : post ≠ []) :
    ∃ post1, ws = pre ++ p :: post1 ∧ post = post1 ++ [c] := by
  rcases split_app h with ⟨post1, h1, h2⟩ | ⟨pre2, h1, h2⟩
  · exact ⟨post1, h1, h2⟩
  · rcases split_cons h2 with ⟨_, _, h3⟩ | ⟨pre3, _, h3⟩
    · exact absurd h3.symm hpost
    · simp at h3

theorem ins_br (pre0 : List PToken) (o : PToken) (wsA : List PToken) (e : Ex) (wsB : List PToken) (c : PToken)
    (ih : InsOK w e) : InsOK w (.br pre0 o wsA e wsB c) := by
  intro F inG hok pre p post h hpost hg
  simp only [Ex.toks] at h
  rcases split_app h with ⟨post1, h1, h2⟩ | ⟨pre2, h1, h2⟩
  · exfalso
    have hnp := good_not_prefix hg
    subst h1
    simp_all [Ex.ok, triv_fill hw, triv_gfill hw]
  · subst h1
    rcases split_cons h2 with ⟨h3, h4, h5⟩ | ⟨pre3, h3, h5⟩
    · subst h3 h4 h5
      refine ⟨.br pre0 o (w :: wsA) e wsB c, ⟨fun F inG hk => ?_, rfl, rfl, rfl⟩, by simp [Ex.toks]⟩
      simp_all [Ex.ok, triv_fill hw, triv_gfill hw]
    · subst h3
      rcases split_app h5 with ⟨post1, h6, h7⟩ | ⟨pre4, h6, h7⟩
      · subst h6 h7
        refine ⟨.br pre0 o (pre3 ++ p :: w :: post1) e wsB c, ⟨fun F inG hk => ?_, rfl, rfl, rfl⟩, by simp [Ex.toks]⟩
        simp_all [Ex.ok, triv_fill hw, triv_gfill hw]
      · subst h6
        rcases split_app h7 with ⟨post1, h8, h9⟩ | ⟨pre5, h8, h9⟩
        · subst h9
          have hke : e.ok F (Ex.opensGroup o) = true := by simp_all [Ex.ok, triv_fill hw, triv_gfill hw]
          by_cases hp1 : post1 = []
          · subst hp1
            refine ⟨.br pre0 o wsA e (w :: wsB) c, ⟨fun F inG hk => ?_, rfl, rfl, rfl⟩, by simp [Ex.toks, h8]⟩
            simp_all [Ex.ok, triv_fill hw, triv_gfill hw]
          · obtain ⟨e', hl, ht⟩ := ih F _ hke pre4 p post1 h8 hp1 hg
            refine ⟨.br pre0 o wsA e' wsB c, ⟨fun F inG hk => ?_, by simp [Ex.garb, hl.2.1], rfl, rfl⟩,
              by simp [Ex.toks, ht]⟩
            have := hl.1 F (Ex.opensGroup o)
            simp_all [Ex.ok, triv_fill hw, triv_gfill hw]
        · subst h8
          obtain ⟨post1, h10, h11⟩ := tail_ws_c h9 hpost
          subst h10 h11
          refine ⟨.br pre0 o wsA e (pre5 ++ p :: w :: post1) c, ⟨fun F inG hk => ?_, rfl, rfl, rfl⟩, by simp [Ex.toks]⟩
          simp_all [Ex.ok, triv_fill hw, triv_gfill hw]

end Garnish.Spec
