/-
`ex_insert`: the syntax trees of the parser theorems are closed under inserting one trivia token after a `Good` token
that is not the last one. One lemma per constructor (`ins_*`), then structural recursion.
-/
import Garnish.Lemmas.ExInsert
set_option linter.unusedVariables false
set_option linter.unusedSimpArgs false
namespace Garnish.Spec
open Garnish Garnish.Gen Garnish.Model.Parser

/-- the statement for one syntax tree -/
def InsOK (w : PToken) (e : Ex) : Prop :=
  ∀ F inG, e.ok F inG = true → ∀ pre p post, e.toks = pre ++ p :: post → post ≠ [] → Good p →
    ∃ e', Like e e' ∧ e'.toks = pre ++ p :: w :: post

variable {w : PToken} (hw : isTriviaTok w = true)
include hw

theorem triv_fill : isFillTok w = true := by simp [isFillTok, hw]
theorem triv_gfill (b : Bool) : isGFill b w = true := by simp [isGFill, hw]

theorem ins_atom (pre0 : List PToken) (a : PToken) : InsOK w (.atom pre0 a) := by
  intro F inG hok pre p post h hpost hg
  simp only [Ex.toks] at h
  rcases split_app h with ⟨post1, h1, h2⟩ | ⟨pre2, h1, h2⟩
  · exfalso
    have hnp := good_not_prefix hg
    subst h1
    simp_all [Ex.ok, triv_fill hw, triv_gfill hw]
  · rcases split_cons h2 with ⟨_, _, h3⟩ | ⟨pre3, _, h3⟩
    · exact absurd h3.symm hpost
    · simp at h3

omit hw in
/-- the tail `ws ++ [c]` of a bracketed tree: the insertion point is in `ws` -/
theorem tail_ws_c {ws pre post : List PToken} {c p : PToken} (h : ws ++ [c] = pre ++ p :: post) (hpost : post ≠ []) :
    ∃ post1, ws = pre ++ p :: post1 ∧ post = post1 ++ [c] := by
  rcases split_app h with ⟨post1, h1, h2⟩ | ⟨pre2, h1, h2⟩
  · exact ⟨post1, h1, h2⟩
  · rcases split_cons h2 with ⟨_, _, h3⟩ | ⟨pre3, _, h3⟩
    · exact absurd h3.symm hpost
    · simp at h3

theorem ins_br (pre0 : List PToken) (o : PToken) (wsA : List PToken) (e : Ex) (wsB : List PToken) (c : PToken)
    (ih : InsOK w e) : InsOK w (.br pre0 o wsA e wsB c) := by
  intro F inG hok pre p post h hpost hg
  simp only [Ex.toks] at h
  rcases split_app h with ⟨post1, h1, h2⟩ | ⟨pre2, h1, h2⟩
  · exfalso
    have hnp := good_not_prefix hg
    subst h1
    simp_all [Ex.ok, triv_fill hw, triv_gfill hw]
  · subst h1
    rcases split_cons h2 with ⟨h3, h4, h5⟩ | ⟨pre3, h3, h5⟩
    · subst h3 h4 h5
      refine ⟨.br pre0 o (w :: wsA) e wsB c, ⟨fun F inG hk => ?_, rfl, rfl, rfl⟩, by simp [Ex.toks]⟩
      simp_all [Ex.ok, triv_fill hw, triv_gfill hw]
    · subst h3
      rcases split_app h5 with ⟨post1, h6, h7⟩ | ⟨pre4, h6, h7⟩
      · subst h6 h7
        refine ⟨.br pre0 o (pre3 ++ p :: w :: post1) e wsB c, ⟨fun F inG hk => ?_, rfl, rfl, rfl⟩, by simp [Ex.toks]⟩
        simp_all [Ex.ok, triv_fill hw, triv_gfill hw]
      · subst h6
        rcases split_app h7 with ⟨post1, h8, h9⟩ | ⟨pre5, h8, h9⟩
        · subst h9
          have hke : e.ok F (Ex.opensGroup o) = true := by simp_all [Ex.ok, triv_fill hw, triv_gfill hw]
          by_cases hp1 : post1 = []
          · subst hp1
            refine ⟨.br pre0 o wsA e (w :: wsB) c, ⟨fun F inG hk => ?_, rfl, rfl, rfl⟩, by simp [Ex.toks, h8]⟩
            simp_all [Ex.ok, triv_fill hw, triv_gfill hw]
          · obtain ⟨e', hl, ht⟩ := ih F _ hke pre4 p post1 h8 hp1 hg
            refine ⟨.br pre0 o wsA e' wsB c, ⟨fun F inG hk => ?_, by simp [Ex.garb, hl.2.1], rfl, rfl⟩,
              by simp [Ex.toks, ht]⟩
            have := hl.1 F (Ex.opensGroup o)
            simp_all [Ex.ok, triv_fill hw, triv_gfill hw]
        · subst h8
          obtain ⟨post1, h10, h11⟩ := tail_ws_c h9 hpost
          subst h10 h11
          refine ⟨.br pre0 o wsA e (pre5 ++ p :: w :: post1) c, ⟨fun F inG hk => ?_, rfl, rfl, rfl⟩, by simp [Ex.toks]⟩
          simp_all [Ex.ok, triv_fill hw, triv_gfill hw]

/-- a bracketed tree with a separator / comma before the closing bracket: `brT` and `brC` have the same token layout -/
theorem ins_brT (pre0 : List PToken) (o : PToken) (wsA : List PToken) (e : Ex) (ws1 : List PToken) (t : PToken)
    (ws2 : List PToken) (c : PToken) (ih : InsOK w e) : InsOK w (.brT pre0 o wsA e ws1 t ws2 c) := by
  intro F inG hok pre p post h hpost hg
  simp only [Ex.toks] at h
  rcases split_app h with ⟨post1, h1, h2⟩ | ⟨pre2, h1, h2⟩
  · exfalso
    have hnp := good_not_prefix hg
    subst h1
    simp_all [Ex.ok, triv_fill hw, triv_gfill hw]
  · subst h1
    rcases split_cons h2 with ⟨h3, h4, h5⟩ | ⟨pre3, h3, h5⟩
    · subst h3 h4 h5
      refine ⟨.brT pre0 o (w :: wsA) e ws1 t ws2 c, ⟨fun F inG hk => ?_, rfl, rfl, rfl⟩, by simp [Ex.toks]⟩
      simp_all [Ex.ok, triv_fill hw, triv_gfill hw]
    · subst h3
      rcases split_app h5 with ⟨post1, h6, h7⟩ | ⟨pre4, h6, h7⟩
      · subst h6 h7
        refine ⟨.brT pre0 o (pre3 ++ p :: w :: post1) e ws1 t ws2 c, ⟨fun F inG hk => ?_, rfl, rfl, rfl⟩, by simp [Ex.toks]⟩
        simp_all [Ex.ok, triv_fill hw, triv_gfill hw]
      · subst h6
        rcases split_app h7 with ⟨post1, h8, h9⟩ | ⟨pre5, h8, h9⟩
        · subst h9
          have hke : e.ok F false = true := by simp_all [Ex.ok, triv_fill hw, triv_gfill hw]
          by_cases hp1 : post1 = []
          · subst hp1
            refine ⟨.brT pre0 o wsA e (w :: ws1) t ws2 c, ⟨fun F inG hk => ?_, rfl, rfl, rfl⟩, by simp [Ex.toks, h8]⟩
            simp_all [Ex.ok, triv_fill hw, triv_gfill hw]
          · obtain ⟨e', hl, ht⟩ := ih F _ hke pre4 p post1 h8 hp1 hg
            refine ⟨.brT pre0 o wsA e' ws1 t ws2 c, ⟨fun F inG hk => ?_, by simp [Ex.garb, hl.2.1], rfl, rfl⟩,
              by simp [Ex.toks, ht]⟩
            have := hl.1 F false
            simp_all [Ex.ok, triv_fill hw, triv_gfill hw]
        · subst h8
          rcases split_app h9 with ⟨post1, h10, h11⟩ | ⟨pre6, h10, h11⟩
          · subst h10 h11
            refine ⟨.brT pre0 o wsA e (pre5 ++ p :: w :: post1) t ws2 c, ⟨fun F inG hk => ?_, rfl, rfl, rfl⟩, by simp [Ex.toks]⟩
            simp_all [Ex.ok, triv_fill hw, triv_gfill hw]
          · subst h10
            rcases split_cons h11 with ⟨h12, h13, h14⟩ | ⟨pre7, h12, h14⟩
            · subst h12 h13 h14
              refine ⟨.brT pre0 o wsA e ws1 t (w :: ws2) c, ⟨fun F inG hk => ?_, rfl, rfl, rfl⟩, by simp [Ex.toks]⟩
              simp_all [Ex.ok, triv_fill hw, triv_gfill hw]
            · subst h12
              obtain ⟨post1, h15, h16⟩ := tail_ws_c h14 hpost
              subst h15 h16
              refine ⟨.brT pre0 o wsA e ws1 t (pre7 ++ p :: w :: post1) c, ⟨fun F inG hk => ?_, rfl, rfl, rfl⟩, by simp [Ex.toks]⟩
              simp_all [Ex.ok, triv_fill hw, triv_gfill hw]

theorem ins_brC (pre0 : List PToken) (o : PToken) (wsA : List PToken) (e : Ex) (ws1 : List PToken) (k : PToken)
    (wsB : List PToken) (c : PToken) (ih : InsOK w e) : InsOK w (.brC pre0 o wsA e ws1 k wsB c) := by
  intro F inG hok pre p post h hpost hg
  simp only [Ex.toks] at h
  rcases split_app h with ⟨post1, h1, h2⟩ | ⟨pre2, h1, h2⟩
  · exfalso
    have hnp := good_not_prefix hg
    subst h1
    simp_all [Ex.ok, triv_fill hw, triv_gfill hw]
  · subst h1
    rcases split_cons h2 with ⟨h3, h4, h5⟩ | ⟨pre3, h3, h5⟩
    · subst h3 h4 h5
      refine ⟨.brC pre0 o (w :: wsA) e ws1 k wsB c, ⟨fun F inG hk => ?_, rfl, rfl, rfl⟩, by simp [Ex.toks]⟩
      simp_all [Ex.ok, triv_fill hw, triv_gfill hw]
    · subst h3
      rcases split_app h5 with ⟨post1, h6, h7⟩ | ⟨pre4, h6, h7⟩
      · subst h6 h7
        refine ⟨.brC pre0 o (pre3 ++ p :: w :: post1) e ws1 k wsB c, ⟨fun F inG hk => ?_, rfl, rfl, rfl⟩, by simp [Ex.toks]⟩
        simp_all [Ex.ok, triv_fill hw, triv_gfill hw]
      · subst h6
        rcases split_app h7 with ⟨post1, h8, h9⟩ | ⟨pre5, h8, h9⟩
        · subst h9
          have hke : e.ok F (Ex.opensGroup o) = true := by simp_all [Ex.ok, triv_fill hw, triv_gfill hw]
          by_cases hp1 : post1 = []
          · subst hp1
            refine ⟨.brC pre0 o wsA e (w :: ws1) k wsB c, ⟨fun F inG hk => ?_, rfl, rfl, rfl⟩, by simp [Ex.toks, h8]⟩
            simp_all [Ex.ok, triv_fill hw, triv_gfill hw]
          · obtain ⟨e', hl, ht⟩ := ih F _ hke pre4 p post1 h8 hp1 hg
            refine ⟨.brC pre0 o wsA e' ws1 k wsB c, ⟨fun F inG hk => ?_, by simp [Ex.garb, hl.2.1], rfl, rfl⟩,
              by simp [Ex.toks, ht]⟩
            have := hl.1 F (Ex.opensGroup o)
            simp_all [Ex.ok, triv_fill hw, triv_gfill hw]
        · subst h8
          rcases split_app h9 with ⟨post1, h10, h11⟩ | ⟨pre6, h10, h11⟩
          · subst h10 h11
            refine ⟨.brC pre0 o wsA e (pre5 ++ p :: w :: post1) k wsB c, ⟨fun F inG hk => ?_, rfl, rfl, rfl⟩, by simp [Ex.toks]⟩
            simp_all [Ex.ok, triv_fill hw, triv_gfill hw]
          · subst h10
            rcases split_cons h11 with ⟨h12, h13, h14⟩ | ⟨pre7, h12, h14⟩
            · subst h12 h13 h14
              refine ⟨.brC pre0 o wsA e ws1 k (w :: wsB) c, ⟨fun F inG hk => ?_, rfl, rfl, rfl⟩, by simp [Ex.toks]⟩
              simp_all [Ex.ok, triv_fill hw, triv_gfill hw]
            · subst h12
              obtain ⟨post1, h15, h16⟩ := tail_ws_c h14 hpost
              subst h15 h16
              refine ⟨.brC pre0 o wsA e ws1 k (pre7 ++ p :: w :: post1) c, ⟨fun F inG hk => ?_, rfl, rfl, rfl⟩, by simp [Ex.toks]⟩
              simp_all [Ex.ok, triv_fill hw, triv_gfill hw]

theorem ins_bin (e1 : Ex) (ws1 : List PToken) (op : PToken) (ws2 : List PToken) (x : Ex) (ih1 : InsOK w e1)
    (ihx : InsOK w x) : InsOK w (.bin e1 ws1 op ws2 x) := by
  intro F inG hok pre p post h hpost hg
  simp only [Ex.toks] at h
  rcases split_app h with ⟨post1, h1, h2⟩ | ⟨pre2, h1, h2⟩
  · subst h2
    have hke : e1.ok F inG = true := by simp_all [Ex.ok, triv_fill hw, triv_gfill hw]
    by_cases hp1 : post1 = []
    · subst hp1
      refine ⟨.bin e1 (w :: ws1) op ws2 x, ⟨fun F inG hk => ?_, rfl, rfl, rfl⟩, by simp [Ex.toks, h1]⟩
      simp_all [Ex.ok, triv_fill hw, triv_gfill hw]
    · obtain ⟨e', hl, ht⟩ := ih1 F inG hke pre p post1 h1 hp1 hg
      refine ⟨.bin e' ws1 op ws2 x, ⟨fun F inG hk => ?_, by simp [Ex.garb, hl.2.1], rfl, rfl⟩, by simp [Ex.toks, ht]⟩
      have := hl.1 F inG
      simp_all [Ex.ok, triv_fill hw, triv_gfill hw]
  · subst h1
    rcases split_app h2 with ⟨post1, h3, h4⟩ | ⟨pre3, h3, h4⟩
    · subst h3 h4
      refine ⟨.bin e1 (pre2 ++ p :: w :: post1) op ws2 x, ⟨fun F inG hk => ?_, rfl, rfl, rfl⟩, by simp [Ex.toks]⟩
      simp_all [Ex.ok, triv_fill hw, triv_gfill hw]
    · subst h3
      rcases split_cons h4 with ⟨h5, h6, h7⟩ | ⟨pre4, h5, h7⟩
      · subst h5 h6 h7
        refine ⟨.bin e1 ws1 op (w :: ws2) x, ⟨fun F inG hk => ?_, rfl, rfl, rfl⟩, by simp [Ex.toks]⟩
        simp_all [Ex.ok, triv_fill hw, triv_gfill hw]
      · subst h5
        rcases split_app h7 with ⟨post1, h8, h9⟩ | ⟨pre5, h8, h9⟩
        · subst h8 h9
          refine ⟨.bin e1 ws1 op (pre4 ++ p :: w :: post1) x, ⟨fun F inG hk => ?_, rfl, rfl, rfl⟩, by simp [Ex.toks]⟩
          simp_all [Ex.ok, triv_fill hw, triv_gfill hw]
        · subst h8
          have hkx : x.ok F inG = true := by simp_all [Ex.ok, triv_fill hw, triv_gfill hw]
          obtain ⟨x', hl, ht⟩ := ihx F inG hkx pre5 p post h9 hpost hg
          refine ⟨.bin e1 ws1 op ws2 x', ⟨fun F inG hk => ?_, by simp [Ex.garb, hl.2.1], rfl, rfl⟩, by simp [Ex.toks, ht]⟩
          have := hl.1 F inG
          have := hl.2.2.1
          simp_all [Ex.ok, triv_fill hw, triv_gfill hw]

theorem ins_sep (e1 : Ex) (ws1 : List PToken) (t : PToken) (ws2 : List PToken) (x : Ex) (ih1 : InsOK w e1)
    (ihx : InsOK w x) : InsOK w (.sep e1 ws1 t ws2 x) := by
  intro F inG hok pre p post h hpost hg
  simp only [Ex.toks] at h
  rcases split_app h with ⟨post1, h1, h2⟩ | ⟨pre2, h1, h2⟩
  · subst h2
    have hke : e1.ok F inG = true := by (cases inG <;> simp_all [Ex.ok, triv_fill hw, triv_gfill hw])
    by_cases hp1 : post1 = []
    · subst hp1
      refine ⟨.sep e1 (w :: ws1) t ws2 x, ⟨fun F inG hk => ?_, rfl, rfl, rfl⟩, by simp [Ex.toks, h1]⟩
      (cases inG <;> simp_all [Ex.ok, triv_fill hw, triv_gfill hw])
    · obtain ⟨e', hl, ht⟩ := ih1 F inG hke pre p post1 h1 hp1 hg
      refine ⟨.sep e' ws1 t ws2 x, ⟨fun F inG hk => ?_, by simp [Ex.garb, hl.2.1], rfl, rfl⟩, by simp [Ex.toks, ht]⟩
      have := hl.1 F inG
      (cases inG <;> simp_all [Ex.ok, triv_fill hw, triv_gfill hw])
  · subst h1
    rcases split_app h2 with ⟨post1, h3, h4⟩ | ⟨pre3, h3, h4⟩
    · subst h3 h4
      refine ⟨.sep e1 (pre2 ++ p :: w :: post1) t ws2 x, ⟨fun F inG hk => ?_, rfl, rfl, rfl⟩, by simp [Ex.toks]⟩
      (cases inG <;> simp_all [Ex.ok, triv_fill hw, triv_gfill hw])
    · subst h3
      rcases split_cons h4 with ⟨h5, h6, h7⟩ | ⟨pre4, h5, h7⟩
      · subst h5 h6 h7
        refine ⟨.sep e1 ws1 t (w :: ws2) x, ⟨fun F inG hk => ?_, rfl, rfl, rfl⟩, by simp [Ex.toks]⟩
        (cases inG <;> simp_all [Ex.ok, triv_fill hw, triv_gfill hw])
      · subst h5
        rcases split_app h7 with ⟨post1, h8, h9⟩ | ⟨pre5, h8, h9⟩
        · subst h8 h9
          refine ⟨.sep e1 ws1 t (pre4 ++ p :: w :: post1) x, ⟨fun F inG hk => ?_, rfl, rfl, rfl⟩, by simp [Ex.toks]⟩
          (cases inG <;> simp_all [Ex.ok, triv_fill hw, triv_gfill hw])
        · subst h8
          have hkx : x.ok F inG = true := by (cases inG <;> simp_all [Ex.ok, triv_fill hw, triv_gfill hw])
          obtain ⟨x', hl, ht⟩ := ihx F inG hkx pre5 p post h9 hpost hg
          refine ⟨.sep e1 ws1 t ws2 x', ⟨fun F inG hk => ?_, by simp [Ex.garb, hl.2.1], rfl, rfl⟩, by simp [Ex.toks, ht]⟩
          have := hl.1 F inG
          have := hl.2.2.1
          (cases inG <;> simp_all [Ex.ok, triv_fill hw, triv_gfill hw])

omit hw in
theorem any_insert (Q : PToken → Bool) (u v : List PToken) (p w : PToken) (h : (u ++ p :: v).any Q = true) :
    (u ++ p :: w :: v).any Q = true := by
  simp only [List.any_append, List.any_cons, Bool.or_eq_true] at h ⊢
  rcases h with h | h | h
  · exact Or.inl h
  · exact Or.inr (Or.inl h)
  · exact Or.inr (Or.inr (Or.inr h))

omit hw in
theorem all_insert (P : PToken → Bool) (u v : List PToken) (p w : PToken) (h : (u ++ p :: v).all P = true)
    (hw : P w = true) : (u ++ p :: w :: v).all P = true := by
  simp only [List.all_append, List.all_cons, Bool.and_eq_true] at h ⊢
  exact ⟨h.1, h.2.1, hw, h.2.2⟩

theorem ins_lst (e1 : Ex) (ws : List PToken) (x : Ex) (ih1 : InsOK w e1) (ihx : InsOK w x) : InsOK w (.lst e1 ws x) := by
  intro F inG hok pre p post h hpost hg
  simp only [Ex.toks] at h
  rcases split_app h with ⟨post1, h1, h2⟩ | ⟨pre2, h1, h2⟩
  · subst h2
    have hke : e1.ok F inG = true := by simp_all [Ex.ok, triv_fill hw, triv_gfill hw]
    by_cases hp1 : post1 = []
    · subst hp1
      refine ⟨.lst e1 (w :: ws) x, ⟨fun F inG hk => ?_, rfl, rfl, rfl⟩, by simp [Ex.toks, h1]⟩
      simp_all [Ex.ok, triv_fill hw, triv_gfill hw]
    · obtain ⟨e', hl, ht⟩ := ih1 F inG hke pre p post1 h1 hp1 hg
      refine ⟨.lst e' ws x, ⟨fun F inG hk => ?_, by simp [Ex.garb, hl.2.1], rfl, rfl⟩, by simp [Ex.toks, ht]⟩
      have := hl.1 F inG
      have := hl.2.2.2
      simp_all [Ex.ok, triv_fill hw, triv_gfill hw]
  · subst h1
    rcases split_app h2 with ⟨post1, h3, h4⟩ | ⟨pre3, h3, h4⟩
    · subst h3 h4
      refine ⟨.lst e1 (pre2 ++ p :: w :: post1) x, ⟨fun F inG hk => ?_, rfl, rfl, rfl⟩, by simp [Ex.toks]⟩
      simp only [Ex.ok, Bool.and_eq_true] at hk ⊢
      obtain ⟨⟨⟨⟨⟨⟨a1, a2⟩, a3⟩, a4⟩, a5⟩, a6⟩, a7⟩ := hk
      exact ⟨⟨⟨⟨⟨⟨a1, a2⟩, a3⟩, all_insert _ _ _ _ _ a4 (triv_gfill hw _)⟩, any_insert _ _ _ _ _ a5⟩, a6⟩, a7⟩
    · subst h3
      have hkx : x.ok F inG = true := by simp_all [Ex.ok, triv_fill hw, triv_gfill hw]
      obtain ⟨x', hl, ht⟩ := ihx F inG hkx pre3 p post h4 hpost hg
      refine ⟨.lst e1 ws x', ⟨fun F inG hk => ?_, by simp [Ex.garb, hl.2.1], rfl, rfl⟩, by simp [Ex.toks, ht]⟩
      have := hl.1 F inG
      have := hl.2.2.1
      simp_all [Ex.ok, triv_fill hw, triv_gfill hw]

theorem ins_suf (e1 : Ex) (s : PToken) (ih1 : InsOK w e1) : InsOK w (.suf e1 s) := by
  intro F inG hok pre p post h hpost hg
  simp only [Ex.toks] at h
  rcases split_app h with ⟨post1, h1, h2⟩ | ⟨pre2, h1, h2⟩
  · subst h2
    have hke : e1.ok F inG = true := by simp_all [Ex.ok, triv_fill hw, triv_gfill hw]
    by_cases hp1 : post1 = []
    · subst hp1
      exact (not_last_of_good hke h1 hg).elim
    · obtain ⟨e', hl, ht⟩ := ih1 F inG hke pre p post1 h1 hp1 hg
      refine ⟨.suf e' s, ⟨fun F inG hk => ?_, by simp [Ex.garb, hl.2.1], rfl, rfl⟩, by simp [Ex.toks, ht]⟩
      have := hl.1 F inG
      simp_all [Ex.ok, triv_fill hw, triv_gfill hw]
  · rcases split_cons h2 with ⟨_, _, h3⟩ | ⟨pre3, _, h3⟩
    · exact absurd h3.symm hpost
    · simp at h3

theorem ins_lead (op : PToken) (ws : List PToken) (x : Ex) (ihx : InsOK w x) : InsOK w (.lead op ws x) := by
  intro F inG hok pre p post h hpost hg
  simp only [Ex.toks] at h
  rcases split_cons h with ⟨h1, h2, h3⟩ | ⟨pre2, h1, h3⟩
  · subst h1 h2 h3
    refine ⟨.lead op (w :: ws) x, ⟨fun F inG hk => ?_, rfl, rfl, rfl⟩, by simp [Ex.toks]⟩
    simp_all [Ex.ok, triv_fill hw, triv_gfill hw]
  · subst h1
    rcases split_app h3 with ⟨post1, h4, h5⟩ | ⟨pre3, h4, h5⟩
    · subst h4 h5
      refine ⟨.lead op (pre2 ++ p :: w :: post1) x, ⟨fun F inG hk => ?_, rfl, rfl, rfl⟩, by simp [Ex.toks]⟩
      simp_all [Ex.ok, triv_fill hw, triv_gfill hw]
    · subst h4
      have hkx : x.ok F inG = true := by simp_all [Ex.ok, triv_fill hw, triv_gfill hw]
      obtain ⟨x', hl, ht⟩ := ihx F inG hkx pre3 p post h5 hpost hg
      refine ⟨.lead op ws x', ⟨fun F inG hk => ?_, by simp [Ex.garb, hl.2.1], rfl, rfl⟩, by simp [Ex.toks, ht]⟩
      have := hl.1 F inG
      have := hl.2.2.1
      simp_all [Ex.ok, triv_fill hw, triv_gfill hw]

/-- **closure under inserting a trivia token after a `Good` token that is not the last one** -/
theorem ex_insert : ∀ e : Ex, InsOK w e
  | .atom pre a => ins_atom hw pre a
  | .br pre o wsA e wsB c => ins_br hw pre o wsA e wsB c (ex_insert e)
  | .brT pre o wsA e ws1 t ws2 c => ins_brT hw pre o wsA e ws1 t ws2 c (ex_insert e)
  | .bin e ws1 op ws2 x => ins_bin hw e ws1 op ws2 x (ex_insert e) (ex_insert x)
  | .suf e s => ins_suf hw e s (ex_insert e)
  | .lst e ws x => ins_lst hw e ws x (ex_insert e) (ex_insert x)
  | .sep e ws1 t ws2 x => ins_sep hw e ws1 t ws2 x (ex_insert e) (ex_insert x)
  | .brC pre o wsA e ws1 k wsB c => ins_brC hw pre o wsA e ws1 k wsB c (ex_insert e)
  | .lead op ws x => ins_lead hw op ws x (ex_insert x)

end Garnish.Spec
