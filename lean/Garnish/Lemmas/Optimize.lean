/-
Frame lemmas for the compaction / cloning model: every step of `create_index_stack`,
`clone_index_stack` and `optimize_data_block_and_retain` only appends data cells or rewrites cells of
the index list, so everything below the index list — in particular the retained prefix and the
argument graph of `clone_data` — is left untouched.
-/
import Garnish.Store.BasicOptimize
namespace Garnish.BasicOpt
open Garnish

theorem bind_eq_ok {α β} {x : Outcome α} {f : α → Outcome β} {b : β} :
    (x >>= f) = .ok b ↔ ∃ a, x = .ok a ∧ f a = .ok b := by
  cases x <;> simp [Bind.bind, Outcome.bind]

theorem pure_eq_ok {α} {a b : α} : (pure a : Outcome α) = .ok b ↔ a = b := by
  simp [pure]

/-- the fields of a store other than the data cells and the allocated sizes -/
def SameFrame (s s' : Store) : Prop :=
  s'.retention = s.retention ∧ s'.start = s.start ∧ s'.symtab = s.symtab ∧ s'.currentValue = s.currentValue ∧
  s'.currentRegister = s.currentRegister ∧ s'.currentFrame = s.currentFrame

theorem SameFrame.rfl' (s : Store) : SameFrame s s := ⟨rfl, rfl, rfl, rfl, rfl, rfl⟩

theorem SameFrame.trans {s s' s'' : Store} (a : SameFrame s s') (b : SameFrame s' s'') : SameFrame s s'' := by
  obtain ⟨a1, a2, a3, a4, a5, a6⟩ := a
  obtain ⟨b1, b2, b3, b4, b5, b6⟩ := b
  exact ⟨b1.trans a1, b2.trans a2, b3.trans a3, b4.trans a4, b5.trans a5, b6.trans a6⟩

/-- `s'` is `s` with cells appended and cells at positions `≥ lo` possibly rewritten -/
structure Ext (lo : Nat) (s s' : Store) : Prop where
  mono : s.cells.size ≤ s'.cells.size
  keep : ∀ i, i < lo → i < s.cells.size → s'.cells[i]? = s.cells[i]?
  frame : SameFrame s s'

theorem Ext.refl (lo : Nat) (s : Store) : Ext lo s s := ⟨Nat.le_refl _, fun _ _ _ => rfl, SameFrame.rfl' s⟩

theorem Ext.trans {lo : Nat} {s s' s'' : Store} (a : Ext lo s s') (b : Ext lo s' s'') : Ext lo s s'' :=
  ⟨Nat.le_trans a.mono b.mono,
   fun i h1 h2 => (b.keep i h1 (Nat.lt_of_lt_of_le h2 a.mono)).trans (a.keep i h1 h2),
   a.frame.trans b.frame⟩

theorem Ext.weaken {lo lo' : Nat} {s s' : Store} (h : lo' ≤ lo) (a : Ext lo s s') : Ext lo' s s' :=
  ⟨a.mono, fun i h1 h2 => a.keep i (Nat.lt_of_lt_of_le h1 h) h2, a.frame⟩

theorem push_ok {s s' : Store} {c : Cell} {i : Nat} (h : s.push c = .ok (s', i)) :
    i = s.cells.size ∧ s'.cells = s.cells.push c ∧ SameFrame s s' := by
  unfold Store.push at h
  simp only at h
  split at h
  · split at h
    · simp at h
    · simp only [Outcome.ok.injEq, Prod.mk.injEq] at h
      obtain ⟨hs, hi⟩ := h
      subst hs
      exact ⟨hi.symm, rfl, rfl, rfl, rfl, rfl, rfl, rfl⟩
  · simp only [Outcome.ok.injEq, Prod.mk.injEq] at h
    obtain ⟨hs, hi⟩ := h
    subst hs
    exact ⟨hi.symm, rfl, rfl, rfl, rfl, rfl, rfl, rfl⟩

theorem push_ext (lo : Nat) {s s' : Store} {c : Cell} {i : Nat} (h : s.push c = .ok (s', i)) : Ext lo s s' := by
  obtain ⟨_, hc, hf⟩ := push_ok h
  refine ⟨?_, ?_, hf⟩
  · rw [hc]; simp
  · intro j _ hj
    rw [hc, Array.getElem?_push]
    have : j ≠ s.cells.size := Nat.ne_of_lt hj
    simp [this]

theorem push1_ext (lo : Nat) {s s' : Store} {a : Nat} (h : Store.push1 s a = .ok s') : Ext lo s s' := by
  simp only [Store.push1, bind_eq_ok, pure_eq_ok] at h
  obtain ⟨⟨s1, i1⟩, h1, h2⟩ := h
  subst h2
  exact push_ext lo h1

theorem push2_ext (lo : Nat) {s s' : Store} {a b : Nat} (h : Store.push2 s a b = .ok s') : Ext lo s s' := by
  simp only [Store.push2, bind_eq_ok, pure_eq_ok] at h
  obtain ⟨⟨s1, i1⟩, h1, ⟨s2, i2⟩, h2, h3⟩ := h
  subst h3
  exact (push_ext lo h1).trans (push_ext lo h2)

theorem pushListItems_ext (lo : Nat) : ∀ (n : Nat) (s s' : Store) (i : Nat),
    Store.pushListItems s i n = .ok s' → Ext lo s s'
  | 0, s, s', i, h => by
    simp only [Store.pushListItems, Outcome.ok.injEq] at h
    subst h; exact Ext.refl lo s
  | n + 1, s, s', i, h => by
    simp only [Store.pushListItems, bind_eq_ok] at h
    obtain ⟨c, _, h2⟩ := h
    split at h2
    · simp only [bind_eq_ok] at h2
      obtain ⟨⟨s1, i1⟩, h3, h4⟩ := h2
      exact (push_ext lo h3).trans (pushListItems_ext lo n s1 s' (i + 1) h4)
    · simp at h2

theorem pushUninitItems_ext (lo : Nat) : ∀ (n : Nat) (s s' : Store) (i : Nat),
    Store.pushUninitItems s i n = .ok s' → Ext lo s s'
  | 0, s, s', i, h => by
    simp only [Store.pushUninitItems, Outcome.ok.injEq] at h
    subst h; exact Ext.refl lo s
  | n + 1, s, s', i, h => by
    simp only [Store.pushUninitItems, bind_eq_ok] at h
    obtain ⟨c, _, h2⟩ := h
    split at h2
    · simp only [bind_eq_ok] at h2
      obtain ⟨⟨s1, i1⟩, h3, h4⟩ := h2
      exact (push_ext lo h3).trans (pushUninitItems_ext lo n s1 s' (i + 1) h4)
    · exact pushUninitItems_ext lo n s s' (i + 1) h2
    · simp at h2

theorem pushChildren_ext (lo : Nat) {s s' : Store} {index : Nat} {c : Cell}
    (h : Store.pushChildren s index c = .ok s') : Ext lo s s' := by
  unfold Store.pushChildren at h
  split at h
  all_goals first
    | exact push2_ext lo h
    | exact push1_ext lo h
    | exact pushListItems_ext lo _ _ _ _ h
    | exact pushUninitItems_ext lo _ _ _ _ h
    | (simp only [Outcome.ok.injEq] at h; subst h; exact Ext.refl lo s)

theorem indexLoop_ext (lo maxIter : Nat) : ∀ (fuel : Nat) (s s' : Store) (cur it : Nat),
    Store.indexLoop maxIter fuel s cur it = .ok s' → Ext lo s s'
  | 0, s, s', cur, it, h => by simp [Store.indexLoop] at h
  | fuel + 1, s, s', cur, it, h => by
    simp only [Store.indexLoop] at h
    split at h
    · simp only [bind_eq_ok] at h
      obtain ⟨ci, _, h2⟩ := h
      split at h2
      · simp only [bind_eq_ok] at h2
        obtain ⟨c, _, s1, h3, h4⟩ := h2
        split at h4
        · simp at h4
        · exact (pushChildren_ext lo h3).trans (indexLoop_ext lo maxIter fuel s1 s' _ _ h4)
      · simp at h2
    · simp only [Outcome.ok.injEq] at h
      subst h; exact Ext.refl lo s

theorem createIndexStack_ext (lo : Nat) {s s' : Store} {frm st : Nat}
    (h : Store.createIndexStack s frm = .ok (s', st)) : Ext lo s s' ∧ st = s.cells.size := by
  simp only [Store.createIndexStack, bind_eq_ok, pure_eq_ok] at h
  obtain ⟨⟨s1, i1⟩, h1, s2, h2, h3⟩ := h
  simp only [Prod.mk.injEq] at h3
  obtain ⟨h3, h4⟩ := h3
  subst h3
  refine ⟨(push_ext lo h1).trans (indexLoop_ext lo _ _ _ _ _ _ h2), ?_⟩
  rw [← h4]; exact (push_ok h1).1

theorem copyCells_ext (lo : Nat) : ∀ (n : Nat) (s s' : Store) (i : Nat),
    Store.copyCells s i n = .ok s' → Ext lo s s'
  | 0, s, s', i, h => by
    simp only [Store.copyCells, Outcome.ok.injEq] at h
    subst h; exact Ext.refl lo s
  | n + 1, s, s', i, h => by
    simp only [Store.copyCells, bind_eq_ok] at h
    obtain ⟨c, _, ⟨s1, i1⟩, h3, h4⟩ := h
    exact (push_ext lo h3).trans (copyCells_ext lo n s1 s' (i + 1) h4)

theorem cloneSlots_ext (lo ls le : Nat) : ∀ (n : Nat) (s s' : Store) (i : Nat),
    Store.cloneSlots ls le s i n = .ok s' → Ext lo s s'
  | 0, s, s', i, h => by
    simp only [Store.cloneSlots, Outcome.ok.injEq] at h
    subst h; exact Ext.refl lo s
  | n + 1, s, s', i, h => by
    simp only [Store.cloneSlots, bind_eq_ok] at h
    obtain ⟨c, _, h2⟩ := h
    split at h2
    · simp only [bind_eq_ok] at h2
      obtain ⟨_, _, ⟨s1, i1⟩, h3, h4⟩ := h2
      exact (push_ext lo h3).trans (cloneSlots_ext lo ls le n s1 s' (i + 1) h4)
    · simp only [bind_eq_ok] at h2
      obtain ⟨_, _, ⟨s1, i1⟩, h3, h4⟩ := h2
      exact (push_ext lo h3).trans (cloneSlots_ext lo ls le n s1 s' (i + 1) h4)
    · simp only [bind_eq_ok] at h2
      obtain ⟨⟨s1, i1⟩, h3, h4⟩ := h2
      exact (push_ext lo h3).trans (cloneSlots_ext lo ls le n s1 s' (i + 1) h4)
    · simp at h2

theorem pushLast_ext (lo : Nat) : ∀ (cs : List Cell) (s s' : Store) (last r : Nat),
    Store.pushLast s cs last = .ok (s', r) → Ext lo s s'
  | [], s, s', last, r, h => by
    simp only [Store.pushLast, Outcome.ok.injEq, Prod.mk.injEq] at h
    obtain ⟨h, _⟩ := h
    subst h; exact Ext.refl lo s
  | c :: cs, s, s', last, r, h => by
    simp only [Store.pushLast, bind_eq_ok] at h
    obtain ⟨⟨s1, i1⟩, h3, h4⟩ := h
    exact (push_ext lo h3).trans (pushLast_ext lo cs s1 s' i1 r h4)

theorem cloneCell_ext (lo : Nat) {s s' : Store} {ls le index r : Nat} {c : Cell}
    (h : Store.cloneCell s ls le index c = .ok (s', r)) : Ext lo s s' := by
  unfold Store.cloneCell at h
  split at h
  all_goals first
    | exact push_ext lo h
    | (simp only [bind_eq_ok, pure_eq_ok, Prod.mk.injEq] at h
       obtain ⟨⟨s1, i1⟩, h1, s2, h2, h3, _⟩ := h
       subst h3
       first
         | exact (push_ext lo h1).trans (copyCells_ext lo _ _ _ _ h2)
         | exact (push_ext lo h1).trans (cloneSlots_ext lo _ _ _ _ _ _ h2))
    | (simp at h; done)
    | (simp only [bind_eq_ok] at h
       obtain ⟨cells, _, h2⟩ := h
       exact pushLast_ext lo _ _ _ _ _ h2)

theorem setCell_ext {lo : Nat} {s s' : Store} {i : Nat} {c : Cell} (hlo : lo ≤ i)
    (h : Store.setCell s i c = .ok s') : Ext lo s s' := by
  unfold Store.setCell at h
  split at h
  · simp only [Outcome.ok.injEq] at h
    subst h
    refine ⟨by simp, ?_, SameFrame.rfl' _⟩
    intro j hj _
    have : i ≠ j := by omega
    simp [this]
  · simp at h

theorem cloneLoop_ext {lo : Nat} (offset lookupEnd top : Nat) (hlo : lo ≤ top) : ∀ (k : Nat) (s s' : Store),
    Store.cloneLoop offset lookupEnd top k s = .ok s' → Ext lo s s'
  | 0, s, s', h => by
    simp only [Store.cloneLoop, Outcome.ok.injEq] at h
    subst h; exact Ext.refl lo s
  | k + 1, s, s', h => by
    simp only [Store.cloneLoop, bind_eq_ok] at h
    obtain ⟨ci, _, h2⟩ := h
    split at h2
    · simp only [bind_eq_ok] at h2
      obtain ⟨existing, _, ⟨s1, ni⟩, h3, s2, h4, h5⟩ := h2
      have e1 : Ext lo s s1 := by
        split at h3
        · simp only [pure, Outcome.ok.injEq, Prod.mk.injEq] at h3
          obtain ⟨h3, _⟩ := h3
          subst h3; exact Ext.refl lo s
        · simp only [bind_eq_ok] at h3
          obtain ⟨c, _, ⟨s0, n0⟩, h6, h7⟩ := h3
          have e0 := cloneCell_ext lo h6
          split at h7
          · simp only [pure, Outcome.ok.injEq, Prod.mk.injEq] at h7
            obtain ⟨h7, _⟩ := h7
            subst h7; exact e0
          · split at h7
            · simp at h7
            · simp only [pure, Outcome.ok.injEq, Prod.mk.injEq] at h7
              obtain ⟨h7, _⟩ := h7
              subst h7; exact e0
      have e2 : Ext lo s1 s2 := setCell_ext (by omega) h4
      exact (e1.trans e2).trans (cloneLoop_ext offset lookupEnd top hlo k s2 s' h5)
    · simp at h2

theorem cloneIndexStack_ext {lo : Nat} {s s' : Store} {top offset r : Nat} (hlo : lo ≤ top)
    (h : Store.cloneIndexStack s top offset = .ok (s', r)) : Ext lo s s' := by
  simp only [Store.cloneIndexStack, bind_eq_ok] at h
  obtain ⟨s1, h1, c, _, h3⟩ := h
  split at h3
  · simp only [pure, Outcome.ok.injEq, Prod.mk.injEq] at h3
    obtain ⟨h3, _⟩ := h3
    subst h3
    exact cloneLoop_ext offset _ top hlo _ _ _ h1
  · simp at h3

/-- **`clone_data` leaves the original intact**: every cell that existed before the call is unchanged,
the heads, the symbol table and the retention count are unchanged, cells are only appended. -/
theorem cloneData_original_untouched {s s' : Store} {a r : Nat} (h : Store.cloneData s a = .ok (s', r)) :
    Ext s.cells.size s s' := by
  simp only [Store.cloneData, bind_eq_ok] at h
  obtain ⟨⟨s1, st⟩, h1, h2⟩ := h
  obtain ⟨e1, hst⟩ := createIndexStack_ext s.cells.size h1
  have e2 : Ext s.cells.size s1 s' := cloneIndexStack_ext (by omega) h2
  exact e1.trans e2

theorem indexSymbols_ext (lo : Nat) : ∀ (n : Nat) (s s' : Store) (i : Nat),
    Store.indexSymbols s i n = .ok s' → Ext lo s s'
  | 0, s, s', i, h => by
    simp only [Store.indexSymbols, Outcome.ok.injEq] at h
    subst h; exact Ext.refl lo s
  | n + 1, s, s', i, h => by
    simp only [Store.indexSymbols, bind_eq_ok] at h
    obtain ⟨⟨sy, di⟩, _, ⟨s1, st⟩, h3, h4⟩ := h
    exact (createIndexStack_ext lo h3).1.trans (indexSymbols_ext lo n s1 s' (i + 1) h4)

theorem indexOpt_ext (lo : Nat) {s s' : Store} {o : Option Nat} (h : Store.indexOpt s o = .ok s') : Ext lo s s' := by
  cases o with
  | none =>
    simp only [Store.indexOpt, Outcome.ok.injEq] at h
    subst h; exact Ext.refl lo s
  | some i =>
    simp only [Store.indexOpt, bind_eq_ok, pure_eq_ok] at h
    obtain ⟨⟨s1, st⟩, h1, h2⟩ := h
    subst h2
    exact (createIndexStack_ext lo h1).1

theorem indexRoots_ext (lo : Nat) : ∀ (rs : List Nat) (s s' : Store),
    Store.indexRoots s rs = .ok s' → Ext lo s s'
  | [], s, s', h => by
    simp only [Store.indexRoots, Outcome.ok.injEq] at h
    subst h; exact Ext.refl lo s
  | r :: rs, s, s', h => by
    simp only [Store.indexRoots, bind_eq_ok] at h
    obtain ⟨⟨s1, st⟩, h1, h2⟩ := h
    exact (createIndexStack_ext lo h1).1.trans (indexRoots_ext lo rs s1 s' h2)

/-- `remapSymbols` writes the symbol table only -/
theorem remapSymbols_cells (ls le : Nat) : ∀ (n : Nat) (s s' : Store) (i : Nat),
    Store.remapSymbols ls le s i n = .ok s' → s'.cells = s.cells ∧ s'.retention = s.retention ∧ s'.start = s.start
  | 0, s, s', i, h => by
    simp only [Store.remapSymbols, Outcome.ok.injEq] at h
    subst h; exact ⟨rfl, rfl, rfl⟩
  | n + 1, s, s', i, h => by
    simp only [Store.remapSymbols, bind_eq_ok] at h
    obtain ⟨⟨sy, di⟩, _, m, _, h4⟩ := h
    have := remapSymbols_cells ls le n _ s' (i + 1) h4
    simpa using this

theorem get_ok {s : Store} {i : Nat} {c : Cell} (h : s.get i = .ok c) : s.cells[i]? = some c := by
  unfold Store.get at h
  split at h
  · simp only [Outcome.ok.injEq] at h; subst h; assumption
  · simp at h

/-- the re-pointing loop writes cells only (never the frame), and keeps the size -/
theorem repointStep_ext {ls le : Nat} {s s' : Store} {index : Nat} {nxt : Option (Option Nat)}
    (h : Store.repointStep ls le s index = .ok (s', nxt)) : Ext 0 s s' := by
  simp only [Store.repointStep, bind_eq_ok] at h
  obtain ⟨c, _, h2⟩ := h
  split at h2
  · split at h2
    · simp only [bind_eq_ok, pure_eq_ok, Prod.mk.injEq] at h2
      obtain ⟨m, _, s1, h3, h4, _⟩ := h2
      subst h4; exact setCell_ext (Nat.zero_le _) h3
    · simp only [pure_eq_ok, Prod.mk.injEq] at h2
      obtain ⟨h4, _⟩ := h2
      subst h4; exact Ext.refl _ _
  · split at h2
    · simp only [bind_eq_ok, pure_eq_ok, Prod.mk.injEq] at h2
      obtain ⟨m, _, s1, h3, h4, _⟩ := h2
      subst h4; exact setCell_ext (Nat.zero_le _) h3
    · simp only [pure_eq_ok, Prod.mk.injEq] at h2
      obtain ⟨h4, _⟩ := h2
      subst h4; exact Ext.refl _ _
  · simp only [pure_eq_ok, Prod.mk.injEq] at h2
    obtain ⟨h4, _⟩ := h2
    subst h4; exact Ext.refl _ _

theorem repointLoop_ext (ls le : Nat) : ∀ (n : Nat) (s s' : Store) (o : Option Nat),
    Store.repointLoop ls le n s o = .ok s' → Ext 0 s s'
  | n, s, s', none, h => by
    cases n <;> (simp only [Store.repointLoop, Outcome.ok.injEq] at h; subst h; exact Ext.refl _ _)
  | 0, s, s', some i, h => by
    simp only [Store.repointLoop, bind_eq_ok, pure_eq_ok] at h
    obtain ⟨⟨s1, nx⟩, h1, h2⟩ := h
    subst h2; exact repointStep_ext h1
  | n + 1, s, s', some i, h => by
    simp only [Store.repointLoop, bind_eq_ok] at h
    obtain ⟨⟨s1, nx⟩, h1, h2⟩ := h
    have e1 := repointStep_ext h1
    cases nx with
    | none =>
      simp only [pure_eq_ok] at h2
      subst h2; exact e1
    | some prev => exact e1.trans (repointLoop_ext ls le n s1 s' prev h2)

/-- retained input-value cells refer below the retention count (true unless a retained `Value` cell was
updated in place after the count was taken) -/
def ValueLinksClosed (s : Store) : Prop :=
  ∀ (i p v : Nat), i < s.retention →
    (s.cells[i]? = some (.value p v) ∨ s.cells[i]? = some (.valueRoot v)) → v < s.retention

theorem repointStep_noop {ls le : Nat} {s s' : Store} {index : Nat} {nxt : Option (Option Nat)}
    (hc : ValueLinksClosed s) (h : Store.repointStep ls le s index = .ok (s', nxt)) : s' = s := by
  simp only [Store.repointStep, bind_eq_ok] at h
  obtain ⟨c, hg, h2⟩ := h
  have hcell := get_ok hg
  split at h2
  · rename_i previous value
    split at h2
    · rename_i hcond
      have := hc index previous value hcond.1 (Or.inl hcell)
      omega
    · simp only [pure_eq_ok, Prod.mk.injEq] at h2
      exact h2.1.symm
  · rename_i value
    split at h2
    · rename_i hcond
      have := hc index 0 value hcond.1 (Or.inr hcell)
      omega
    · simp only [pure_eq_ok, Prod.mk.injEq] at h2
      exact h2.1.symm
  · simp only [pure_eq_ok, Prod.mk.injEq] at h2
    exact h2.1.symm

theorem repointLoop_noop (ls le : Nat) : ∀ (n : Nat) (s s' : Store) (o : Option Nat),
    ValueLinksClosed s → Store.repointLoop ls le n s o = .ok s' → s' = s
  | n, s, s', none, _, h => by
    cases n <;> (simp only [Store.repointLoop, Outcome.ok.injEq] at h; exact h.symm)
  | 0, s, s', some i, hc, h => by
    simp only [Store.repointLoop, bind_eq_ok, pure_eq_ok] at h
    obtain ⟨⟨s1, nx⟩, h1, h2⟩ := h
    subst h2; exact repointStep_noop hc h1
  | n + 1, s, s', some i, hc, h => by
    simp only [Store.repointLoop, bind_eq_ok] at h
    obtain ⟨⟨s1, nx⟩, h1, h2⟩ := h
    have e1 : s1 = s := repointStep_noop hc h1
    subst e1
    cases nx with
    | none =>
      simp only [pure_eq_ok] at h2
      exact h2.symm
    | some prev => exact repointLoop_noop ls le n s1 s' prev hc h2

theorem slide_size : ∀ (n : Nat) (cells : Array Cell) (dst src : Nat),
    (Store.slide cells dst src n).size = cells.size
  | 0, cells, dst, src => rfl
  | n + 1, cells, dst, src => by
    simp only [Store.slide]
    rw [slide_size n]; simp

theorem slide_below : ∀ (n : Nat) (cells : Array Cell) (dst src i : Nat), i < dst →
    (Store.slide cells dst src n)[i]? = cells[i]?
  | 0, cells, dst, src, i, _ => rfl
  | n + 1, cells, dst, src, i, hi => by
    simp only [Store.slide]
    rw [slide_below n _ (dst + 1) (src + 1) i (by omega)]
    have : dst ≠ i := by omega
    simp [this]

theorem slide_extract_prefix (cells : Array Cell) (r src n : Nat) (hr : r ≤ cells.size) :
    r ≤ ((Store.slide cells r src n).extract 0 (r + n)).size ∧
    ∀ i, i < r → ((Store.slide cells r src n).extract 0 (r + n))[i]? = cells[i]? := by
  constructor
  · simp [Array.size_extract, slide_size]; omega
  · intro i hi
    rw [Array.getElem?_extract]
    simp
    simp [slide_below n cells r src i hi, slide_size]
    omega

theorem optimizeBody_retained_prefix_unchanged {s s' : Store} {roots m : List Nat}
    (h : Store.optimizeBody s roots = .ok (s', m)) (hr : s.retention ≤ s.cells.size) (hvc : ValueLinksClosed s) :
    s'.retention = s.retention ∧ s'.start = s.start ∧ s.retention ≤ s'.cells.size ∧
      ∀ i, i < s.retention → s'.cells[i]? = s.cells[i]? := by
  unfold Store.optimizeBody at h
  simp only [bind_eq_ok] at h
  obtain ⟨s1, h1, s2, h2, s3, h3, s4, h4, s5, h5, h6⟩ := h
  have e1 := indexSymbols_ext s.retention _ _ _ _ h1
  have e2 := indexOpt_ext s.retention h2
  have e3 := indexOpt_ext s.retention h3
  have e4 := indexOpt_ext s.retention h4
  have e5 := indexRoots_ext s.retention _ _ _ h5
  have e15 : Ext s.retention s s5 := (((e1.trans e2).trans e3).trans e4).trans e5
  split at h6
  · simp at h6
  · simp only [bind_eq_ok] at h6
    obtain ⟨s6', h7, s6, hR, s7, h8, reg, _, val, _, fr, _, mapped, _, h9⟩ := h6
    have e6 : Ext s.retention s5 s6' := by
      split at h7
      · simp only [bind_eq_ok, pure_eq_ok] at h7
        obtain ⟨⟨sx, r⟩, hx, hy⟩ := h7
        subst hy
        exact cloneIndexStack_ext (by simpa [Store.cursor] using hr) hx
      · simp only [pure, Outcome.ok.injEq] at h7
        subst h7; exact Ext.refl _ _
    have e16' := e15.trans e6
    have hvc' : ValueLinksClosed s6' := by
      intro i p v hi hcell
      rw [e16'.frame.1] at hi ⊢
      rw [e16'.keep i hi (by omega)] at hcell
      exact hvc i p v hi hcell
    have hsame : s6 = s6' := repointLoop_noop _ _ _ _ _ _ hvc' hR
    subst hsame
    have e16 := e16'
    obtain ⟨hc7, hr7, hs7⟩ := remapSymbols_cells _ _ _ _ _ _ h8
    simp only [pure, Outcome.ok.injEq, Prod.mk.injEq] at h9
    obtain ⟨h9, _⟩ := h9
    subst h9
    have hret : s7.retention = s.retention := hr7.trans e16.frame.1
    have hst : s7.start = s.start := hs7.trans e16.frame.2.1
    have hsz : s.retention ≤ s7.cells.size := by rw [hc7]; exact Nat.le_trans hr e16.mono
    have hk : ∀ i, i < s.retention → s7.cells[i]? = s.cells[i]? := by
      intro i hi; rw [hc7]; exact e16.keep i hi (by omega)
    cases reg <;> cases val <;> cases fr <;> simp only [] <;>
      (refine ⟨hret, hst, ?_, ?_⟩
       · rw [hret]; exact (slide_extract_prefix s7.cells s.retention _ _ hsz).1
       · intro i hi
         rw [hret, (slide_extract_prefix s7.cells s.retention _ _ hsz).2 i hi]
         exact hk i hi)

theorem lookup_retained {s : Store} {ls le r : Nat} (h : r < s.retention) : Store.lookup s ls le r = .ok r := by
  simp [Store.lookup, Store.lookupOpt, h, Bind.bind, Outcome.bind, pure]

theorem remapRoots_retained (s : Store) (ls le : Nat) : ∀ (roots ms : List Nat),
    Store.remapRoots s ls le roots = .ok ms →
      ms.length = roots.length ∧ ∀ (k r : Nat), roots[k]? = some r → r < s.retention → ms[k]? = some r
  | [], ms, h => by
    simp only [Store.remapRoots, Outcome.ok.injEq] at h
    subst h; simp
  | r :: rs, ms, h => by
    simp only [Store.remapRoots, bind_eq_ok, pure_eq_ok] at h
    obtain ⟨m, h1, ms', h2, h3⟩ := h
    subst h3
    obtain ⟨ih1, ih2⟩ := remapRoots_retained s ls le rs ms' h2
    refine ⟨by simp [ih1], ?_⟩
    intro k x hk hx
    cases k with
    | zero =>
      simp only [List.getElem?_cons_zero, Option.some.injEq] at hk
      subst hk
      rw [lookup_retained hx] at h1
      simp only [Outcome.ok.injEq] at h1
      simp [h1]
    | succ k =>
      simp only [List.getElem?_cons_succ] at hk ⊢
      exact ih2 k x hk hx


/-- roots inside the retained prefix are reported at the same address -/
theorem optimizeBody_retained_roots_fixed {s s' : Store} {roots m : List Nat}
    (h : Store.optimizeBody s roots = .ok (s', m)) :
    m.length = roots.length ∧ ∀ (k r : Nat), roots[k]? = some r → r < s.retention → m[k]? = some r := by
  unfold Store.optimizeBody at h
  simp only [bind_eq_ok] at h
  obtain ⟨s1, h1, s2, h2, s3, h3, s4, h4, s5, h5, h6⟩ := h
  have e1 := indexSymbols_ext 0 _ _ _ _ h1
  have e2 := indexOpt_ext 0 h2
  have e3 := indexOpt_ext 0 h3
  have e4 := indexOpt_ext 0 h4
  have e5 := indexRoots_ext 0 _ _ _ h5
  have e15 : Ext 0 s s5 := (((e1.trans e2).trans e3).trans e4).trans e5
  split at h6
  · simp at h6
  · simp only [bind_eq_ok] at h6
    obtain ⟨s6', h7, s6, hR, s7, h8, reg, _, val, _, fr, _, mapped, hm, h9⟩ := h6
    have e6 : Ext 0 s5 s6' := by
      split at h7
      · simp only [bind_eq_ok, pure_eq_ok] at h7
        obtain ⟨⟨sx, r⟩, hx, hy⟩ := h7
        subst hy
        exact cloneIndexStack_ext (Nat.zero_le _) hx
      · simp only [pure, Outcome.ok.injEq] at h7
        subst h7; exact Ext.refl _ _
    have e16 := (e15.trans e6).trans (repointLoop_ext _ _ _ _ _ _ hR)
    obtain ⟨_, hr7, _⟩ := remapSymbols_cells _ _ _ _ _ _ h8
    have hret : s7.retention = s.retention := hr7.trans e16.frame.1
    simp only [pure, Outcome.ok.injEq, Prod.mk.injEq] at h9
    obtain ⟨_, h9⟩ := h9
    subst h9
    cases reg <;> cases val <;> cases fr <;> simp only [] at hm <;>
      (have := remapRoots_retained _ _ _ _ _ hm
       simpa [hret] using this)

theorem optimize_ok {s s' : Store} {roots m : List Nat} (h : Store.optimize s roots = .ok (s', m)) :
    s.retention ≤ s.cells.size ∧ Store.optimizeBody s roots = .ok (s', m) := by
  unfold Store.optimize at h
  split at h
  · simp at h
  · rename_i hgt
    exact ⟨by simpa [Store.cursor] using Nat.le_of_not_gt hgt, h⟩

/-- a retention count beyond the data is refused before anything is touched -/
theorem optimize_retention_beyond (s : Store) (roots : List Nat) (h : s.retention > s.cells.size) :
    Store.optimize s roots = .err .data := by
  simp [Store.optimize, Store.cursor, h]

theorem optimize_retained_prefix_unchanged {s s' : Store} {roots m : List Nat}
    (h : Store.optimize s roots = .ok (s', m)) (hvc : ValueLinksClosed s) :
    s'.retention = s.retention ∧ s'.start = s.start ∧ s.retention ≤ s'.cells.size ∧
      ∀ i, i < s.retention → s'.cells[i]? = s.cells[i]? :=
  optimizeBody_retained_prefix_unchanged (optimize_ok h).2 (optimize_ok h).1 hvc

theorem optimize_retained_roots_fixed {s s' : Store} {roots m : List Nat}
    (h : Store.optimize s roots = .ok (s', m)) :
    m.length = roots.length ∧ ∀ (k r : Nat), roots[k]? = some r → r < s.retention → m[k]? = some r :=
  optimizeBody_retained_roots_fixed (optimize_ok h).2

end Garnish.BasicOpt
