/-
Frame lemmas for the compaction / cloning model: every step of `create_index_stack`,
`clone_index_stack` and `optimize_data_block_and_retain` only appends data cells or rewrites cells of
the index list, so everything below the index list — in particular the retained prefix and the
argument graph of `clone_data` — is left untouched.
-/
import Garnish.Store.BasicOptimize
namespace Garnish.BasicOpt
open Garnish

theorem bind_eq_ok {α β} {x : Outcome α} {f : α → Outcome β} {b : β} :
    (x >>= f) = .ok b ↔ ∃ a, x = .ok a ∧ f a = .ok b := by
  cases x <;> simp [Bind.bind, Outcome.bind]

theorem pure_eq_ok {α} {a b : α} : (pure a : Outcome α) = .ok b ↔ a = b := by
  simp [pure]

/-- the fields of a store other than the data cells and the allocated sizes -/
def SameFrame (s s' : Store) : Prop :=
  s'.retention = s.retention ∧ s'.start = s.start ∧ s'.symtab = s.symtab ∧ s'.currentValue = s.currentValue ∧
  s'.currentRegister = s.currentRegister ∧ s'.currentFrame = s.currentFrame

theorem SameFrame.rfl' (s : Store) : SameFrame s s := ⟨rfl, rfl, rfl, rfl, rfl, rfl⟩

theorem SameFrame.trans {s s' s'' : Store} (a : SameFrame s s') (b : SameFrame s' s'') : SameFrame s s'' := by
  obtain ⟨a1, a2, a3, a4, a5, a6⟩ := a
  obtain ⟨b1, b2, b3, b4, b5, b6⟩ := b
  exact ⟨b1.trans a1, b2.trans a2, b3.trans a3, b4.trans a4, b5.trans a5, b6.trans a6⟩

/-- `s'` is `s` with cells appended and cells at positions `≥ lo` possibly rewritten -/
structure Ext (lo : Nat) (s s' : Store) : Prop where
  mono : s.cells.size ≤ s'.cells.size
  keep : ∀ i, i < lo → i < s.cells.size → s'.cells[i]? = s.cells[i]?
  frame : SameFrame s s'

theorem Ext.refl (lo : Nat) (s : Store) : Ext lo s s := ⟨Nat.le_refl _, fun _ _ _ => rfl, SameFrame.rfl' s⟩

theorem Ext.trans {lo : Nat} {s s' s'' : Store} (a : Ext lo s s') (b : Ext lo s' s'') : Ext lo s s'' :=
  ⟨Nat.le_trans a.mono b.mono,
   fun i h1 h2 => (b.keep i h1 (Nat.lt_of_lt_of_le h2 a.mono)).trans (a.keep i h1 h2),
   a.frame.trans b.frame⟩

theorem Ext.weaken {lo lo' : Nat} {s s' : Store} (h : lo' ≤ lo) (a : Ext lo s s') : Ext lo' s s' :=
  ⟨a.mono, fun i h1 h2 => a.keep i (Nat.lt_of_lt_of_le h1 h) h2, a.frame⟩

theorem push_ok {s s' : Store} {c : Cell} {i : Nat} (h : s.push c = .ok (s', i)) :
    i = s.cells.size ∧ s'.cells = s.cells.push c ∧ SameFrame s s' := by
  unfold Store.push at h
  simp only at h
  split at h
  · split at h
    · simp at h
    · simp only [Outcome.ok.injEq, Prod.mk.injEq] at h
      obtain ⟨hs, hi⟩ := h
      subst hs
      exact ⟨hi.symm, rfl, rfl, rfl, rfl, rfl, rfl, rfl⟩
  · simp only [Outcome.ok.injEq, Prod.mk.injEq] at h
    obtain ⟨hs, hi⟩ := h
    subst hs
    exact ⟨hi.symm, rfl, rfl, rfl, rfl, rfl, rfl, rfl⟩

theorem push_ext (lo : Nat) {s s' : Store} {c : Cell} {i : Nat} (h : s.push c = .ok (s', i)) : Ext lo s s' := by
  obtain ⟨_, hc, hf⟩ := push_ok h
  refine ⟨?_, ?_, hf⟩
  · rw [hc]; simp
  · intro j _ hj
    rw [hc, Array.getElem?_push]
    have : j ≠ s.cells.size := Nat.ne_of_lt hj
    simp [this]

theorem push1_ext (lo : Nat) {s s' : Store} {a : Nat} (h : Store.push1 s a = .ok s') : Ext lo s s' := by
  simp only [Store.push1, bind_eq_ok, pure_eq_ok] at h
  obtain ⟨⟨s1, i1⟩, h1, h2⟩ := h
  subst h2
  exact push_ext lo h1

theorem push2_ext (lo : Nat) {s s' : Store} {a b : Nat} (h : Store.push2 s a b = .ok s') : Ext lo s s' := by
  simp only [Store.push2, bind_eq_ok, pure_eq_ok] at h
  obtain ⟨⟨s1, i1⟩, h1, ⟨s2, i2⟩, h2, h3⟩ := h
  subst h3
  exact (push_ext lo h1).trans (push_ext lo h2)

theorem pushListItems_ext (lo : Nat) : ∀ (n : Nat) (s s' : Store) (i : Nat),
    Store.pushListItems s i n = .ok s' → Ext lo s s'
  | 0, s, s', i, h => by
    simp only [Store.pushListItems, Outcome.ok.injEq] at h
    subst h; exact Ext.refl lo s
  | n + 1, s, s', i, h => by
    simp only [Store.pushListItems, bind_eq_ok] at h
    obtain ⟨c, _, h2⟩ := h
    split at h2
    · simp only [bind_eq_ok] at h2
      obtain ⟨⟨s1, i1⟩, h3, h4⟩ := h2
      exact (push_ext lo h3).trans (pushListItems_ext lo n s1 s' (i + 1) h4)
    · simp at h2

theorem pushUninitItems_ext (lo : Nat) : ∀ (n : Nat) (s s' : Store) (i : Nat),
    Store.pushUninitItems s i n = .ok s' → Ext lo s s'
  | 0, s, s', i, h => by
    simp only [Store.pushUninitItems, Outcome.ok.injEq] at h
    subst h; exact Ext.refl lo s
  | n + 1, s, s', i, h => by
    simp only [Store.pushUninitItems, bind_eq_ok] at h
    obtain ⟨c, _, h2⟩ := h
    split at h2
    · simp only [bind_eq_ok] at h2
      obtain ⟨⟨s1, i1⟩, h3, h4⟩ := h2
      exact (push_ext lo h3).trans (pushUninitItems_ext lo n s1 s' (i + 1) h4)
    · exact pushUninitItems_ext lo n s s' (i + 1) h2
    · simp at h2

theorem pushChildren_ext (lo : Nat) {s s' : Store} {index : Nat} {c : Cell}
    (h : Store.pushChildren s index c = .ok s') : Ext lo s s' := by
  unfold Store.pushChildren at h
  split at h
  all_goals first
    | exact push2_ext lo h
    | exact push1_ext lo h
    | exact pushListItems_ext lo _ _ _ _ h
    | exact pushUninitItems_ext lo _ _ _ _ h
    | (simp only [Outcome.ok.injEq] at h; subst h; exact Ext.refl lo s)

theorem indexLoop_ext (lo maxIter : Nat) : ∀ (fuel : Nat) (s s' : Store) (cur it : Nat),
    Store.indexLoop maxIter fuel s cur it = .ok s' → Ext lo s s'
  | 0, s, s', cur, it, h => by simp [Store.indexLoop] at h
  | fuel + 1, s, s', cur, it, h => by
    simp only [Store.indexLoop] at h
    split at h
    · simp only [bind_eq_ok] at h
      obtain ⟨ci, _, h2⟩ := h
      split at h2
      · simp only [bind_eq_ok] at h2
        obtain ⟨c, _, s1, h3, h4⟩ := h2
        split at h4
        · simp at h4
        · exact (pushChildren_ext lo h3).trans (indexLoop_ext lo maxIter fuel s1 s' _ _ h4)
      · simp at h2
    · simp only [Outcome.ok.injEq] at h
      subst h; exact Ext.refl lo s

theorem createIndexStack_ext (lo : Nat) {s s' : Store} {frm st : Nat}
    (h : Store.createIndexStack s frm = .ok (s', st)) : Ext lo s s' ∧ st = s.cells.size := by
  simp only [Store.createIndexStack, bind_eq_ok, pure_eq_ok] at h
  obtain ⟨⟨s1, i1⟩, h1, s2, h2, h3⟩ := h
  simp only [Prod.mk.injEq] at h3
  obtain ⟨h3, h4⟩ := h3
  subst h3
  refine ⟨(push_ext lo h1).trans (indexLoop_ext lo _ _ _ _ _ _ h2), ?_⟩
  rw [← h4]; exact (push_ok h1).1

theorem copyCells_ext (lo : Nat) : ∀ (n : Nat) (s s' : Store) (i : Nat),
    Store.copyCells s i n = .ok s' → Ext lo s s'
  | 0, s, s', i, h => by
    simp only [Store.copyCells, Outcome.ok.injEq] at h
    subst h; exact Ext.refl lo s
  | n + 1, s, s', i, h => by
    simp only [Store.copyCells, bind_eq_ok] at h
    obtain ⟨c, _, ⟨s1, i1⟩, h3, h4⟩ := h
    exact (push_ext lo h3).trans (copyCells_ext lo n s1 s' (i + 1) h4)

theorem cloneSlots_ext (lo ls le : Nat) : ∀ (n : Nat) (s s' : Store) (i : Nat),
    Store.cloneSlots ls le s i n = .ok s' → Ext lo s s'
  | 0, s, s', i, h => by
    simp only [Store.cloneSlots, Outcome.ok.injEq] at h
    subst h; exact Ext.refl lo s
  | n + 1, s, s', i, h => by
    simp only [Store.cloneSlots, bind_eq_ok] at h
    obtain ⟨c, _, h2⟩ := h
    split at h2
    · simp only [bind_eq_ok] at h2
      obtain ⟨_, _, ⟨s1, i1⟩, h3, h4⟩ := h2
      exact (push_ext lo h3).trans (cloneSlots_ext lo ls le n s1 s' (i + 1) h4)
    · simp only [bind_eq_ok] at h2
      obtain ⟨_, _, ⟨s1, i1⟩, h3, h4⟩ := h2
      exact (push_ext lo h3).trans (cloneSlots_ext lo ls le n s1 s' (i + 1) h4)
    · simp only [bind_eq_ok] at h2
      obtain ⟨⟨s1, i1⟩, h3, h4⟩ := h2
      exact (push_ext lo h3).trans (cloneSlots_ext lo ls le n s1 s' (i + 1) h4)
    · simp at h2

theorem pushLast_ext (lo : Nat) : ∀ (cs : List Cell) (s s' : Store) (last r : Nat),
    Store.pushLast s cs last = .ok (s', r) → Ext lo s s'
  | [], s, s', last, r, h => by
    simp only [Store.pushLast, Outcome.ok.injEq, Prod.mk.injEq] at h
    obtain ⟨h, _⟩ := h
    subst h; exact Ext.refl lo s
  | c :: cs, s, s', last, r, h => by
    simp only [Store.pushLast, bind_eq_ok] at h
    obtain ⟨⟨s1, i1⟩, h3, h4⟩ := h
    exact (push_ext lo h3).trans (pushLast_ext lo cs s1 s' i1 r h4)

theorem cloneCell_ext (lo : Nat) {s s' : Store} {ls le index r : Nat} {c : Cell}
    (h : Store.cloneCell s ls le index c = .ok (s', r)) : Ext lo s s' := by
  unfold Store.cloneCell at h
  split at h
  all_goals first
    | exact push_ext lo h
    | (simp only [bind_eq_ok, pure_eq_ok, Prod.mk.injEq] at h
       obtain ⟨⟨s1, i1⟩, h1, s2, h2, h3, _⟩ := h
       subst h3
       first
         | exact (push_ext lo h1).trans (copyCells_ext lo _ _ _ _ h2)
         | exact (push_ext lo h1).trans (cloneSlots_ext lo _ _ _ _ _ _ h2))
    | (simp at h; done)
    | (simp only [bind_eq_ok] at h
       obtain ⟨cells, _, h2⟩ := h
       exact pushLast_ext lo _ _ _ _ _ h2)

theorem setCell_ext {lo : Nat} {s s' : Store} {i : Nat} {c : Cell} (hlo : lo ≤ i)
    (h : Store.setCell s i c = .ok s') : Ext lo s s' := by
  unfold Store.setCell at h
  split at h
  · simp only [Outcome.ok.injEq] at h
    subst h
    refine ⟨by simp, ?_, SameFrame.rfl' _⟩
    intro j hj _
    have : i ≠ j := by omega
    simp [this]
  · simp at h

theorem cloneLoop_ext {lo : Nat} (offset lookupEnd top : Nat) (hlo : lo ≤ top) : ∀ (k : Nat) (s s' : Store),
    Store.cloneLoop offset lookupEnd top k s = .ok s' → Ext lo s s'
  | 0, s, s', h => by
    simp only [Store.cloneLoop, Outcome.ok.injEq] at h
    subst h; exact Ext.refl lo s
  | k + 1, s, s', h => by
    simp only [Store.cloneLoop, bind_eq_ok] at h
    obtain ⟨ci, _, h2⟩ := h
    split at h2
    · simp only [bind_eq_ok] at h2
      obtain ⟨existing, _, ⟨s1, ni⟩, h3, s2, h4, h5⟩ := h2
      have e1 : Ext lo s s1 := by
        split at h3
        · simp only [pure, Outcome.ok.injEq, Prod.mk.injEq] at h3
          obtain ⟨h3, _⟩ := h3
          subst h3; exact Ext.refl lo s
        · simp only [bind_eq_ok] at h3
          obtain ⟨c, _, ⟨s0, n0⟩, h6, h7⟩ := h3
          have e0 := cloneCell_ext lo h6
          split at h7
          · simp only [pure, Outcome.ok.injEq, Prod.mk.injEq] at h7
            obtain ⟨h7, _⟩ := h7
            subst h7; exact e0
          · split at h7
            · simp at h7
            · simp only [pure, Outcome.ok.injEq, Prod.mk.injEq] at h7
              obtain ⟨h7, _⟩ := h7
              subst h7; exact e0
      have e2 : Ext lo s1 s2 := setCell_ext (by omega) h4
      exact (e1.trans e2).trans (cloneLoop_ext offset lookupEnd top hlo k s2 s' h5)
    · simp at h2

theorem cloneIndexStack_ext {lo : Nat} {s s' : Store} {top offset r : Nat} (hlo : lo ≤ top)
    (h : Store.cloneIndexStack s top offset = .ok (s', r)) : Ext lo s s' := by
  simp only [Store.cloneIndexStack, bind_eq_ok] at h
  obtain ⟨s1, h1, c, _, h3⟩ := h
  split at h3
  · simp only [pure, Outcome.ok.injEq, Prod.mk.injEq] at h3
    obtain ⟨h3, _⟩ := h3
    subst h3
    exact cloneLoop_ext offset _ top hlo _ _ _ h1
  · simp at h3

/-- **`clone_data` leaves the original intact**: every cell that existed before the call is unchanged,
the heads, the symbol table and the retention count are unchanged, cells are only appended. -/
theorem cloneData_original_untouched {s s' : Store} {a r : Nat} (h : Store.cloneData s a = .ok (s', r)) :
    Ext s.cells.size s s' := by
  simp only [Store.cloneData, bind_eq_ok] at h
  obtain ⟨⟨s1, st⟩, h1, h2⟩ := h
  obtain ⟨e1, hst⟩ := createIndexStack_ext s.cells.size h1
  have e2 : Ext s.cells.size s1 s' := cloneIndexStack_ext (by omega) h2
  exact e1.trans e2

theorem indexSymbols_ext (lo : Nat) : ∀ (n : Nat) (s s' : Store) (i : Nat),
    Store.indexSymbols s i n = .ok s' → Ext lo s s'
  | 0, s, s', i, h => by
    simp only [Store.indexSymbols, Outcome.ok.injEq] at h
    subst h; exact Ext.refl lo s
  | n + 1, s, s', i, h => by
    simp only [Store.indexSymbols, bind_eq_ok] at h
    obtain ⟨⟨sy, di⟩, _, ⟨s1, st⟩, h3, h4⟩ := h
    exact (createIndexStack_ext lo h3).1.trans (indexSymbols_ext lo n s1 s' (i + 1) h4)

theorem indexOpt_ext (lo : Nat) {s s' : Store} {o : Option Nat} (h : Store.indexOpt s o = .ok s') : Ext lo s s' := by
  cases o with
  | none =>
    simp only [Store.indexOpt, Outcome.ok.injEq] at h
    subst h; exact Ext.refl lo s
  | some i =>
    simp only [Store.indexOpt, bind_eq_ok, pure_eq_ok] at h
    obtain ⟨⟨s1, st⟩, h1, h2⟩ := h
    subst h2
    exact (createIndexStack_ext lo h1).1

theorem indexRoots_ext (lo : Nat) : ∀ (rs : List Nat) (s s' : Store),
    Store.indexRoots s rs = .ok s' → Ext lo s s'
  | [], s, s', h => by
    simp only [Store.indexRoots, Outcome.ok.injEq] at h
    subst h; exact Ext.refl lo s
  | r :: rs, s, s', h => by
    simp only [Store.indexRoots, bind_eq_ok] at h
    obtain ⟨⟨s1, st⟩, h1, h2⟩ := h
    exact (createIndexStack_ext lo h1).1.trans (indexRoots_ext lo rs s1 s' h2)

/-- `remapSymbols` writes the symbol table only -/
theorem remapSymbols_cells (ls le : Nat) : ∀ (n : Nat) (s s' : Store) (i : Nat),
    Store.remapSymbols ls le s i n = .ok s' → s'.cells = s.cells ∧ s'.retention = s.retention ∧ s'.start = s.start
  | 0, s, s', i, h => by
    simp only [Store.remapSymbols, Outcome.ok.injEq] at h
    subst h; exact ⟨rfl, rfl, rfl⟩
  | n + 1, s, s', i, h => by
    simp only [Store.remapSymbols, bind_eq_ok] at h
    obtain ⟨⟨sy, di⟩, _, m, _, h4⟩ := h
    have := remapSymbols_cells ls le n _ s' (i + 1) h4
    simpa using this

theorem get_ok {s : Store} {i : Nat} {c : Cell} (h : s.get i = .ok c) : s.cells[i]? = some c := by
  unfold Store.get at h
  split at h
  · simp only [Outcome.ok.injEq] at h; subst h; assumption
  · simp at h

/-- the re-pointing loop writes cells only (never the frame), and keeps the size -/
theorem repointStep_ext {ls le : Nat} {s s' : Store} {index : Nat} {nxt : Option (Option Nat)}
    (h : Store.repointStep ls le s index = .ok (s', nxt)) : Ext 0 s s' := by
  simp only [Store.repointStep, bind_eq_ok] at h
  obtain ⟨c, _, h2⟩ := h
  split at h2
  · split at h2
    · simp only [bind_eq_ok, pure_eq_ok, Prod.mk.injEq] at h2
      obtain ⟨m, _, s1, h3, h4, _⟩ := h2
      subst h4; exact setCell_ext (Nat.zero_le _) h3
    · simp only [pure_eq_ok, Prod.mk.injEq] at h2
      obtain ⟨h4, _⟩ := h2
      subst h4; exact Ext.refl _ _
  · split at h2
    · simp only [bind_eq_ok, pure_eq_ok, Prod.mk.injEq] at h2
      obtain ⟨m, _, s1, h3, h4, _⟩ := h2
      subst h4; exact setCell_ext (Nat.zero_le _) h3
    · simp only [pure_eq_ok, Prod.mk.injEq] at h2
      obtain ⟨h4, _⟩ := h2
      subst h4; exact Ext.refl _ _
  · simp only [pure_eq_ok, Prod.mk.injEq] at h2
    obtain ⟨h4, _⟩ := h2
    subst h4; exact Ext.refl _ _

theorem repointLoop_ext (ls le : Nat) : ∀ (n : Nat) (s s' : Store) (o : Option Nat),
    Store.repointLoop ls le n s o = .ok s' → Ext 0 s s'
  | n, s, s', none, h => by
    cases n <;> (simp only [Store.repointLoop, Outcome.ok.injEq] at h; subst h; exact Ext.refl _ _)
  | 0, s, s', some i, h => by
    simp only [Store.repointLoop, bind_eq_ok, pure_eq_ok] at h
    obtain ⟨⟨s1, nx⟩, h1, h2⟩ := h
    subst h2; exact repointStep_ext h1
  | n + 1, s, s', some i, h => by
    simp only [Store.repointLoop, bind_eq_ok] at h
    obtain ⟨⟨s1, nx⟩, h1, h2⟩ := h
    have e1 := repointStep_ext h1
    cases nx with
    | none =>
      simp only [pure_eq_ok] at h2
      subst h2; exact e1
    | some prev => exact e1.trans (repointLoop_ext ls le n s1 s' prev h2)

/-- retained input-value cells refer below the retention count (true unless a retained `Value` cell was
updated in place after the count was taken) -/
def ValueLinksClosed (s : Store) : Prop :=
  ∀ (i p v : Nat), i < s.retention →
    (s.cells[i]? = some (.value p v) ∨ s.cells[i]? = some (.valueRoot v)) → v < s.retention

theorem repointStep_noop {ls le : Nat} {s s' : Store} {index : Nat} {nxt : Option (Option Nat)}
    (hc : ValueLinksClosed s) (h : Store.repointStep ls le s index = .ok (s', nxt)) : s' = s := by
  simp only [Store.repointStep, bind_eq_ok] at h
  obtain ⟨c, hg, h2⟩ := h
  have hcell := get_ok hg
  split at h2
  · rename_i previous value
    split at h2
    · rename_i hcond
      have := hc index previous value hcond.1 (Or.inl hcell)
      omega
    · simp only [pure_eq_ok, Prod.mk.injEq] at h2
      exact h2.1.symm
  · rename_i value
    split at h2
    · rename_i hcond
      have := hc index 0 value hcond.1 (Or.inr hcell)
      omega
    · simp only [pure_eq_ok, Prod.mk.injEq] at h2
      exact h2.1.symm
  · simp only [pure_eq_ok, Prod.mk.injEq] at h2
    exact h2.1.symm

theorem repointLoop_noop (ls le : Nat) : ∀ (n : Nat) (s s' : Store) (o : Option Nat),
    ValueLinksClosed s → Store.repointLoop ls le n s o = .ok s' → s' = s
  | n, s, s', none, _, h => by
    cases n <;> (simp only [Store.repointLoop, Outcome.ok.injEq] at h; exact h.symm)
  | 0, s, s', some i, hc, h => by
    simp only [Store.repointLoop, bind_eq_ok, pure_eq_ok] at h
    obtain ⟨⟨s1, nx⟩, h1, h2⟩ := h
    subst h2; exact repointStep_noop hc h1
  | n + 1, s, s', some i, hc, h => by
    simp only [Store.repointLoop, bind_eq_ok] at h
    obtain ⟨⟨s1, nx⟩, h1, h2⟩ := h
    have e1 : s1 = s := repointStep_noop hc h1
    subst e1
    cases nx with
    | none =>
      simp only [pure_eq_ok] at h2
      exact h2.symm
    | some prev => exact repointLoop_noop ls le n s1 s' prev hc h2

theorem slide_size : ∀ (n : Nat) (cells : Array Cell) (dst src : Nat),
    (Store.slide cells dst src n).size = cells.size
  | 0, cells, dst, src => rfl
  | n + 1, cells, dst, src => by
    simp only [Store.slide]
    rw [slide_size n]; simp

theorem slide_below : ∀ (n : Nat) (cells : Array Cell) (dst src i : Nat), i < dst →
    (Store.slide cells dst src n)[i]? = cells[i]?
  | 0, cells, dst, src, i, _ => rfl
  | n + 1, cells, dst, src, i, hi => by
    simp only [Store.slide]
    rw [slide_below n _ (dst + 1) (src + 1) i (by omega)]
    have : dst ≠ i := by omega
    simp [this]

theorem slide_extract_prefix (cells : Array Cell) (r src n : Nat) (hr : r ≤ cells.size) :
    r ≤ ((Store.slide cells r src n).extract 0 (r + n)).size ∧
    ∀ i, i < r → ((Store.slide cells r src n).extract 0 (r + n))[i]? = cells[i]? := by
  constructor
  · simp [Array.size_extract, slide_size]; omega
  · intro i hi
    rw [Array.getElem?_extract]
    simp
    simp [slide_below n cells r src i hi, slide_size]
    omega

theorem optimizeBody_retained_prefix_unchanged {s s' : Store} {roots m : List Nat}
    (h : Store.optimizeBody s roots = .ok (s', m)) (hr : s.retention ≤ s.cells.size) (hvc : ValueLinksClosed s) :
    s'.retention = s.retention ∧ s'.start = s.start ∧ s.retention ≤ s'.cells.size ∧
      ∀ i, i < s.retention → s'.cells[i]? = s.cells[i]? := by
  unfold Store.optimizeBody at h
  simp only [bind_eq_ok] at h
  obtain ⟨s1, h1, s2, h2, s3, h3, s4, h4, s5, h5, h6⟩ := h
  have e1 := indexSymbols_ext s.retention _ _ _ _ h1
  have e2 := indexOpt_ext s.retention h2
  have e3 := indexOpt_ext s.retention h3
  have e4 := indexOpt_ext s.retention h4
  have e5 := indexRoots_ext s.retention _ _ _ h5
  have e15 : Ext s.retention s s5 := (((e1.trans e2).trans e3).trans e4).trans e5
  split at h6
  · simp at h6
  · simp only [bind_eq_ok] at h6
    obtain ⟨s6', h7, s6, hR, s7, h8, reg, _, val, _, fr, _, mapped, _, h9⟩ := h6
    have e6 : Ext s.retention s5 s6' := by
      split at h7
      · simp only [bind_eq_ok, pure_eq_ok] at h7
        obtain ⟨⟨sx, r⟩, hx, hy⟩ := h7
        subst hy
        exact cloneIndexStack_ext (by simpa [Store.cursor] using hr) hx
      · simp only [pure, Outcome.ok.injEq] at h7
        subst h7; exact Ext.refl _ _
    have e16' := e15.trans e6
    have hvc' : ValueLinksClosed s6' := by
      intro i p v hi hcell
      rw [e16'.frame.1] at hi ⊢
      rw [e16'.keep i hi (by omega)] at hcell
      exact hvc i p v hi hcell
    have hsame : s6 = s6' := repointLoop_noop _ _ _ _ _ _ hvc' hR
    subst hsame
    have e16 := e16'
    obtain ⟨hc7, hr7, hs7⟩ := remapSymbols_cells _ _ _ _ _ _ h8
    simp only [pure, Outcome.ok.injEq, Prod.mk.injEq] at h9
    obtain ⟨h9, _⟩ := h9
    subst h9
    have hret : s7.retention = s.retention := hr7.trans e16.frame.1
    have hst : s7.start = s.start := hs7.trans e16.frame.2.1
    have hsz : s.retention ≤ s7.cells.size := by rw [hc7]; exact Nat.le_trans hr e16.mono
    have hk : ∀ i, i < s.retention → s7.cells[i]? = s.cells[i]? := by
      intro i hi; rw [hc7]; exact e16.keep i hi (by omega)
    cases reg <;> cases val <;> cases fr <;> simp only [] <;>
      (refine ⟨hret, hst, ?_, ?_⟩
       · rw [hret]; exact (slide_extract_prefix s7.cells s.retention _ _ hsz).1
       · intro i hi
         rw [hret, (slide_extract_prefix s7.cells s.retention _ _ hsz).2 i hi]
         exact hk i hi)

theorem lookup_retained {s : Store} {ls le r : Nat} (h : r < s.retention) : Store.lookup s ls le r = .ok r := by
  simp [Store.lookup, Store.lookupOpt, h, Bind.bind, Outcome.bind, pure]

theorem remapRoots_retained (s : Store) (ls le : Nat) : ∀ (roots ms : List Nat),
    Store.remapRoots s ls le roots = .ok ms →
      ms.length = roots.length ∧ ∀ (k r : Nat), roots[k]? = some r → r < s.retention → ms[k]? = some r
  | [], ms, h => by
    simp only [Store.remapRoots, Outcome.ok.injEq] at h
    subst h; simp
  | r :: rs, ms, h => by
    simp only [Store.remapRoots, bind_eq_ok, pure_eq_ok] at h
    obtain ⟨m, h1, ms', h2, h3⟩ := h
    subst h3
    obtain ⟨ih1, ih2⟩ := remapRoots_retained s ls le rs ms' h2
    refine ⟨by simp [ih1], ?_⟩
    intro k x hk hx
    cases k with
    | zero =>
      simp only [List.getElem?_cons_zero, Option.some.injEq] at hk
      subst hk
      rw [lookup_retained hx] at h1
      simp only [Outcome.ok.injEq] at h1
      simp [h1]
    | succ k =>
      simp only [List.getElem?_cons_succ] at hk ⊢
      exact ih2 k x hk hx


/-- roots inside the retained prefix are reported at the same address -/
theorem optimizeBody_retained_roots_fixed {s s' : Store} {roots m : List Nat}
    (h : Store.optimizeBody s roots = .ok (s', m)) :
    m.length = roots.length ∧ ∀ (k r : Nat), roots[k]? = some r → r < s.retention → m[k]? = some r := by
  unfold Store.optimizeBody at h
  simp only [bind_eq_ok] at h
  obtain ⟨s1, h1, s2, h2, s3, h3, s4, h4, s5, h5, h6⟩ := h
  have e1 := indexSymbols_ext 0 _ _ _ _ h1
  have e2 := indexOpt_ext 0 h2
  have e3 := indexOpt_ext 0 h3
  have e4 := indexOpt_ext 0 h4
  have e5 := indexRoots_ext 0 _ _ _ h5
  have e15 : Ext 0 s s5 := (((e1.trans e2).trans e3).trans e4).trans e5
  split at h6
  · simp at h6
  · simp only [bind_eq_ok] at h6
    obtain ⟨s6', h7, s6, hR, s7, h8, reg, _, val, _, fr, _, mapped, hm, h9⟩ := h6
    have e6 : Ext 0 s5 s6' := by
      split at h7
      · simp only [bind_eq_ok, pure_eq_ok] at h7
        obtain ⟨⟨sx, r⟩, hx, hy⟩ := h7
        subst hy
        exact cloneIndexStack_ext (Nat.zero_le _) hx
      · simp only [pure, Outcome.ok.injEq] at h7
        subst h7; exact Ext.refl _ _
    have e16 := (e15.trans e6).trans (repointLoop_ext _ _ _ _ _ _ hR)
    obtain ⟨_, hr7, _⟩ := remapSymbols_cells _ _ _ _ _ _ h8
    have hret : s7.retention = s.retention := hr7.trans e16.frame.1
    simp only [pure, Outcome.ok.injEq, Prod.mk.injEq] at h9
    obtain ⟨_, h9⟩ := h9
    subst h9
    cases reg <;> cases val <;> cases fr <;> simp only [] at hm <;>
      (have := remapRoots_retained _ _ _ _ _ hm
       simpa [hret] using this)

theorem optimize_ok {s s' : Store} {roots m : List Nat} (h : Store.optimize s roots = .ok (s', m)) :
    s.retention ≤ s.cells.size ∧ Store.optimizeBody s roots = .ok (s', m) := by
  unfold Store.optimize at h
  split at h
  · simp at h
  · rename_i hgt
    exact ⟨by simpa [Store.cursor] using Nat.le_of_not_gt hgt, h⟩

/-- a retention count beyond the data is refused before anything is touched -/
theorem optimize_retention_beyond (s : Store) (roots : List Nat) (h : s.retention > s.cells.size) :
    Store.optimize s roots = .err .data := by
  simp [Store.optimize, Store.cursor, h]

theorem optimize_retained_prefix_unchanged {s s' : Store} {roots m : List Nat}
    (h : Store.optimize s roots = .ok (s', m)) (hvc : ValueLinksClosed s) :
    s'.retention = s.retention ∧ s'.start = s.start ∧ s.retention ≤ s'.cells.size ∧
      ∀ i, i < s.retention → s'.cells[i]? = s.cells[i]? :=
  optimizeBody_retained_prefix_unchanged (optimize_ok h).2 (optimize_ok h).1 hvc

theorem optimize_retained_roots_fixed {s s' : Store} {roots m : List Nat}
    (h : Store.optimize s roots = .ok (s', m)) :
    m.length = roots.length ∧ ∀ (k r : Nat), roots[k]? = some r → r < s.retention → m[k]? = some r :=
  optimizeBody_retained_roots_fixed (optimize_ok h).2


/-! ### unfoldings: bisimulation principle, decodable addresses, stability of shapes -/

/-- pairwise relation of two lists (core has no `Forall₂`) -/
inductive AllRel {α β} (R : α → β → Prop) : List α → List β → Prop where
  | nil : AllRel R [] []
  | cons {a b l l'} : R a b → AllRel R l l' → AllRel R (a :: l) (b :: l')

/-- Prop-level bisimulation principle: related addresses have equal shapes up to related children -/
theorem bisim_unfold (h h' : Array Cell) (R : Nat → Nat → Prop)
    (hR : ∀ a a', R a a' → ∃ s s', shape h a = some s ∧ shape h' a' = some s' ∧ s.label = s'.label ∧
      s.inl = s'.inl ∧ AllRel R s.kids s'.kids) :
    ∀ (fuel a a' : Nat), R a a' → unfold h fuel a = unfold h' fuel a' := by
  intro fuel
  induction fuel with
  | zero => intro a a' _; simp [unfold]
  | succ f ih =>
    intro a a' hr
    obtain ⟨s, s', hs, hs', hl, hi, hk⟩ := hR a a' hr
    have hkids : ∀ (l l' : List Nat), AllRel R l l' → allSome (unfold h f) l = allSome (unfold h' f) l' := by
      intro l l' hk
      induction hk with
      | nil => rfl
      | cons hab _ ih2 => simp [allSome, ih _ _ hab, ih2]
    have hkids := hkids _ _ hk
    simp [unfold, hs, hs', hkids, hl, hi]

/-- an address with an unfolding: the graph below it is acyclic and every node has a shape -/
def Dec (cells : Array Cell) (a : Nat) : Prop := ∃ fuel t, unfold cells fuel a = some t

theorem allSome_some_mem {α β} {f : α → Option β} : ∀ {l : List α} {r : List β}, allSome f l = some r →
    ∀ x ∈ l, ∃ y, f x = some y
  | [], _, _, x, hx => by simp at hx
  | a :: l, r, h, x, hx => by
    simp only [allSome] at h
    cases hfa : f a with
    | none => simp [hfa] at h
    | some y =>
      cases hl : allSome f l with
      | none => simp [hfa, hl] at h
      | some ys =>
        rcases List.mem_cons.mp hx with rfl | hm
        · exact ⟨y, hfa⟩
        · exact allSome_some_mem hl x hm

theorem Dec.shape {cells : Array Cell} {a : Nat} (h : Dec cells a) :
    ∃ sh, shape cells a = some sh ∧ ∀ k ∈ sh.kids, Dec cells k := by
  obtain ⟨fuel, t, ht⟩ := h
  cases fuel with
  | zero => simp [unfold] at ht
  | succ f =>
    simp only [unfold] at ht
    cases hs : BasicOpt.shape cells a with
    | none => simp [hs] at ht
    | some sh =>
      simp only [hs, Option.map_eq_some_iff] at ht
      obtain ⟨ts, hts, _⟩ := ht
      refine ⟨sh, rfl, ?_⟩
      intro k hk
      obtain ⟨y, hy⟩ := allSome_some_mem hts k hk
      exact ⟨f, y, hy⟩

/-- every cell of `cells` other than a `CloneItem` is still there in `cells'` -/
def AgreeNC (cells cells' : Array Cell) : Prop :=
  ∀ (i : Nat) (c : Cell), cells[i]? = some c → (∀ x, c ≠ .cloneItem x) → cells'[i]? = some c

theorem inlineCells_agree {cells cells' : Array Cell} (hag : AgreeNC cells cells') (p : Cell → Bool)
    (hp : ∀ x, p (.cloneItem x) = false) :
    ∀ (n a : Nat) (l : List Cell), inlineCells cells p a n = some l → inlineCells cells' p a n = some l
  | 0, a, l, h => by simpa [inlineCells] using h
  | n + 1, a, l, h => by
    simp only [inlineCells] at h ⊢
    cases hc : cells[a]? with
    | none => simp [hc] at h
    | some c =>
      rw [hc] at h
      simp only at h
      split at h
      · rename_i hpc
        have hne : ∀ x, c ≠ .cloneItem x := by
          intro x hx; rw [hx, hp x] at hpc; exact Bool.false_ne_true hpc
        rw [hag a c hc hne]
        simp only [hpc, if_true]
        simp only [Option.map_eq_some_iff] at h ⊢
        obtain ⟨t, ht, rfl⟩ := h
        exact ⟨t, inlineCells_agree hag p hp n (a + 1) t ht, rfl⟩
      · simp at h

theorem listItems_agree {cells cells' : Array Cell} (hag : AgreeNC cells cells') :
    ∀ (n a : Nat) (l : List Nat), listItems cells a n = some l → listItems cells' a n = some l
  | 0, a, l, h => by simpa [listItems] using h
  | n + 1, a, l, h => by
    simp only [listItems] at h ⊢
    cases hc : cells[a]? with
    | none => simp [hc] at h
    | some c =>
      rw [hc] at h
      cases c <;> simp only [] at h <;> try (simp at h; done)
      rw [hag a _ hc (by intro x hx; cases hx)]
      simp only [Option.map_eq_some_iff] at h ⊢
      obtain ⟨t, ht, rfl⟩ := h
      exact ⟨t, listItems_agree hag n (a + 1) t ht, rfl⟩

theorem assocItems_agree {cells cells' : Array Cell} (hag : AgreeNC cells cells') :
    ∀ (n a : Nat) (l : List Cell × List Nat), assocItems cells a n = some l → assocItems cells' a n = some l
  | 0, a, l, h => by simpa [assocItems] using h
  | n + 1, a, l, h => by
    simp only [assocItems] at h ⊢
    cases hc : cells[a]? with
    | none => simp [hc] at h
    | some c =>
      rw [hc] at h
      cases c <;> simp only [] at h <;> try (simp at h; done)
      rw [hag a _ hc (by intro x hx; cases hx)]
      simp only [Option.map_eq_some_iff] at h ⊢
      obtain ⟨t, ht, rfl⟩ := h
      exact ⟨t, assocItems_agree hag n (a + 1) t ht, rfl⟩

theorem framePoint_agree {cells cells' : Array Cell} (hag : AgreeNC cells cells') {a : Nat} {c : Cell}
    (h : framePoint cells a = some c) : framePoint cells' a = some c := by
  cases a with
  | zero => simp [framePoint] at h
  | succ a =>
    simp only [framePoint] at h ⊢
    cases hc : cells[a]? with
    | none => simp [hc] at h
    | some d =>
      rw [hc] at h
      cases d <;> simp only [] at h <;> try (simp at h; done)
      rw [hag a _ hc (by intro x hx; cases hx)]
      exact h

theorem shape_agree {cells cells' : Array Cell} (hag : AgreeNC cells cells') {a : Nat} {sh : Shape}
    (h : shape cells a = some sh) : shape cells' a = some sh := by
  unfold shape at h ⊢
  cases hc : cells[a]? with
  | none => simp [hc] at h
  | some c =>
    rw [hc] at h
    cases c <;> simp only [] at h <;> try (simp at h; done)
    all_goals rw [hag a _ hc (by intro x hx; cases hx)]
    all_goals simp only []
    all_goals first
      | exact h
      | (simp only [Option.map_eq_some_iff] at h ⊢
         obtain ⟨t, ht, rfl⟩ := h
         first
           | exact ⟨t, inlineCells_agree hag _ (by intro x; rfl) _ _ _ ht, rfl⟩
           | exact ⟨t, framePoint_agree hag ht, rfl⟩)
      | (split at h
         · rename_i items keys targets h1 h2
           rw [listItems_agree hag _ _ _ h1, assocItems_agree hag _ _ _ h2]
           exact h
         · simp at h)

theorem AgreeNC.refl (cells : Array Cell) : AgreeNC cells cells := fun _ _ h _ => h

/-- a decodable address unfolds to the same tree in any heap that keeps all non-`CloneItem` cells -/
theorem unfold_agree {cells cells' : Array Cell} (hag : AgreeNC cells cells') {a : Nat} (hd : Dec cells a) :
    ∀ fuel, unfold cells fuel a = unfold cells' fuel a := by
  intro fuel
  refine bisim_unfold cells cells' (fun x x' => x' = x ∧ Dec cells x) ?_ fuel a a ⟨rfl, hd⟩
  intro x x' ⟨hx, hdx⟩
  subst hx
  obtain ⟨sh, hsh, hk⟩ := hdx.shape
  refine ⟨sh, sh, hsh, shape_agree hag hsh, rfl, rfl, ?_⟩
  have : ∀ l : List Nat, (∀ k ∈ l, Dec cells k) → AllRel (fun x x' => x' = x ∧ Dec cells x) l l := by
    intro l
    induction l with
    | nil => intro _; exact AllRel.nil
    | cons k l ih => intro hl; exact AllRel.cons ⟨rfl, hl k (by simp)⟩ (ih (fun k' hk' => hl k' (by simp [hk'])))
  exact this _ hk


/-! ### what one clone step produces, arm by arm -/

/-- the shape of a cell that is read without its neighbours -/
def soloShape : Cell → Option Shape
  | .pair l r => some ⟨.pair 0 0, [], [l, r]⟩
  | .range l r => some ⟨.range 0 0, [], [l, r]⟩
  | .slice l r => some ⟨.slice 0 0, [], [l, r]⟩
  | .partial_ l r => some ⟨.partial_ 0 0, [], [l, r]⟩
  | .concatenation l r => some ⟨.concatenation 0 0, [], [l, r]⟩
  | .value p v => some ⟨.value 0 0, [], [p, v]⟩
  | .valueRoot v => some ⟨.valueRoot 0, [], [v]⟩
  | .register p v => some ⟨.register 0 0, [], [p, v]⟩
  | .registerRoot v => some ⟨.registerRoot 0, [], [v]⟩
  | .instructionWithData code d => some ⟨.instructionWithData code 0, [], [d]⟩
  | .unit => some ⟨.unit, [], []⟩ | .tru => some ⟨.tru, [], []⟩ | .fls => some ⟨.fls, [], []⟩
  | .type t => some ⟨.type t, [], []⟩ | .number n => some ⟨.number n, [], []⟩
  | .char n => some ⟨.char n, [], []⟩ | .byte n => some ⟨.byte n, [], []⟩ | .symbol n => some ⟨.symbol n, [], []⟩
  | .expression n => some ⟨.expression n, [], []⟩ | .external n => some ⟨.external n, [], []⟩
  | .custom => some ⟨.custom, [], []⟩ | .empty => some ⟨.empty, [], []⟩
  | .jumpPoint n => some ⟨.jumpPoint n, [], []⟩ | .instruction n => some ⟨.instruction n, [], []⟩
  | _ => none

theorem shape_of_solo {cells : Array Cell} {a : Nat} {c : Cell} {sh : Shape}
    (hc : cells[a]? = some c) (hs : soloShape c = some sh) : shape cells a = some sh := by
  unfold shape
  rw [hc]
  cases c <;> simp only [soloShape] at hs ⊢ <;> first | exact hs | (simp at hs)

theorem solo_of_shape {cells : Array Cell} {a : Nat} {c : Cell} {sh sh' : Shape}
    (hc : cells[a]? = some c) (hs : soloShape c = some sh') (h : shape cells a = some sh) : sh = sh' := by
  rw [shape_of_solo hc hs] at h
  exact (Option.some.inj h).symm

theorem pushLast_one {s s' : Store} {c : Cell} {r : Nat} (h : Store.pushLast s [c] 0 = .ok (s', r)) :
    r = s.cells.size ∧ s'.cells = s.cells.push c := by
  simp only [Store.pushLast, bind_eq_ok] at h
  obtain ⟨⟨s1, i1⟩, h1, h2⟩ := h
  simp only [Outcome.ok.injEq, Prod.mk.injEq] at h2
  obtain ⟨h3, h4⟩ := h2
  subst h3
  obtain ⟨hi, hc, _⟩ := push_ok h1
  exact ⟨by rw [← h4, hi], hc⟩

theorem pushLast_two {s s' : Store} {c d : Cell} {r : Nat} (h : Store.pushLast s [c, d] 0 = .ok (s', r)) :
    r = s.cells.size + 1 ∧ s'.cells = (s.cells.push c).push d := by
  simp only [Store.pushLast, bind_eq_ok] at h
  obtain ⟨⟨s1, i1⟩, h1, ⟨s2, i2⟩, h2, h3⟩ := h
  simp only [Outcome.ok.injEq, Prod.mk.injEq] at h3
  obtain ⟨h3, h4⟩ := h3
  subst h3
  obtain ⟨_, hc1, _⟩ := push_ok h1
  obtain ⟨hi2, hc2, _⟩ := push_ok h2
  refine ⟨by rw [← h4, hi2, hc1]; simp, by rw [hc2, hc1]⟩

theorem shape_push_solo (A : Array Cell) (c : Cell) (sh : Shape) (hs : soloShape c = some sh) :
    shape (A.push c) A.size = some sh := shape_of_solo (by simp) hs

/-- cloning a cell that is read without its neighbours: the copy has the same label and its links are the
looked-up links of the original -/
theorem cloneCell_shape_solo {cur cur2 : Store} {ls le index ni : Nat} {c : Cell} {sh : Shape}
    (hs : soloShape c = some sh) (hclone : Store.cloneCell cur ls le index c = .ok (cur2, ni)) :
    ∃ sh', shape cur2.cells ni = some sh' ∧ sh'.label = sh.label ∧ sh'.inl = sh.inl ∧
      AllRel (fun x x' => Store.lookup cur ls le x = .ok x') sh.kids sh'.kids := by
  cases c <;> simp only [soloShape, Option.some.injEq] at hs <;> try (simp at hs; done)
  all_goals subst hs
  all_goals simp only [Store.cloneCell, Store.relink, bind_eq_ok, pure_eq_ok] at hclone
  all_goals first
    | (obtain ⟨hi, hc, _⟩ := push_ok hclone
       rw [hi, hc]
       exact ⟨_, shape_push_solo _ _ _ rfl, rfl, rfl, AllRel.nil⟩)
    | (obtain ⟨cells, ⟨l', hl, r', hr, hcs⟩, hp⟩ := hclone
       subst hcs
       obtain ⟨hi, hc⟩ := pushLast_one hp
       rw [hi, hc]
       exact ⟨_, shape_push_solo _ _ _ rfl, rfl, rfl, AllRel.cons hl (AllRel.cons hr AllRel.nil)⟩)
    | (obtain ⟨cells, ⟨l', hl, hcs⟩, hp⟩ := hclone
       subst hcs
       obtain ⟨hi, hc⟩ := pushLast_one hp
       rw [hi, hc]
       exact ⟨_, shape_push_solo _ _ _ rfl, rfl, rfl, AllRel.cons hl AllRel.nil⟩)

theorem jumpBefore_ok {s : Store} {index p : Nat} (h : Store.jumpBefore s index = .ok p) :
    ∃ i, index = i + 1 ∧ s.cells[i]? = some (.jumpPoint p) := by
  cases index with
  | zero => simp [Store.jumpBefore] at h
  | succ i =>
    simp only [Store.jumpBefore, bind_eq_ok] at h
    obtain ⟨c, hg, h2⟩ := h
    have hc := get_ok hg
    cases c <;> simp only [pure_eq_ok] at h2 <;> try (simp at h2; done)
    subst h2
    exact ⟨i, rfl, hc⟩

theorem framePoint_push2 (A : Array Cell) (p : Nat) (c : Cell) :
    framePoint ((A.push (.jumpPoint p)).push c) (A.size + 1) = some (.jumpPoint p) := by
  have : ((A.push (Cell.jumpPoint p)).push c)[A.size]? = some (Cell.jumpPoint p) := by
    rw [Array.getElem?_push]; simp
  simp [framePoint, this]

theorem get_push2 (A : Array Cell) (x c : Cell) : ((A.push x).push c)[A.size + 1]? = some c := by
  have : A.size + 1 = (A.push x).size := by simp
  rw [this, Array.getElem?_push]; simp

theorem framePoint_transfer {s0 : Array Cell} {cur : Store} {i point : Nat} {jp : Cell}
    (hA : ∀ (i : Nat) (c : Cell), s0[i]? = some c → cur.cells[i]? = some c)
    (hjp : framePoint s0 (i + 1) = some jp) (hcell : cur.cells[i]? = some (.jumpPoint point)) :
    jp = .jumpPoint point := by
  simp only [framePoint] at hjp
  cases hs0 : s0[i]? with
  | none => simp [hs0] at hjp
  | some d =>
    have := hA i d hs0
    rw [hcell] at this
    simp only [Option.some.injEq] at this
    subst this
    simpa [hs0] using hjp.symm

/-- cloning a frame cell: the return point stored before it is copied with it -/
theorem cloneCell_shape_frame {s0 : Array Cell} {cur cur2 : Store} {ls le index ni : Nat} {c : Cell} {sh : Shape}
    (hA : ∀ (i : Nat) (c : Cell), s0[i]? = some c → cur.cells[i]? = some c)
    (hc : s0[index]? = some c) (hsh : shape s0 index = some sh)
    (hfr : (∃ p r, c = .frame p r) ∨ (∃ p, c = .frameIndex p) ∨ (∃ r, c = .frameRegister r) ∨ c = .frameRoot)
    (hclone : Store.cloneCell cur ls le index c = .ok (cur2, ni)) :
    ∃ sh', shape cur2.cells ni = some sh' ∧ sh'.label = sh.label ∧ sh'.inl = sh.inl ∧
      AllRel (fun x x' => Store.lookup cur ls le x = .ok x') sh.kids sh'.kids := by
  unfold shape at hsh
  rw [hc] at hsh
  rcases hfr with ⟨p, r, rfl⟩ | ⟨p, rfl⟩ | ⟨r, rfl⟩ | rfl
  all_goals simp only [Option.map_eq_some_iff] at hsh
  all_goals obtain ⟨jp, hjp, rfl⟩ := hsh
  all_goals simp only [Store.cloneCell, Store.relink, bind_eq_ok, pure_eq_ok] at hclone
  · obtain ⟨cells, ⟨point, hpt, p', hp', r', hr', hcs⟩, hpl⟩ := hclone
    subst hcs
    obtain ⟨hi, hcells⟩ := pushLast_two hpl
    obtain ⟨i, hidx, hcell⟩ := jumpBefore_ok hpt
    subst hidx
    have hjp' := framePoint_transfer hA hjp hcell
    subst hjp'
    rw [hi, hcells]
    refine ⟨⟨.frame 0 0, [.jumpPoint point], [p', r']⟩, ?_, rfl, rfl, AllRel.cons hp' (AllRel.cons hr' AllRel.nil)⟩
    unfold shape
    rw [get_push2]
    simp [framePoint_push2]
  · obtain ⟨cells, ⟨point, hpt, p', hp', hcs⟩, hpl⟩ := hclone
    subst hcs
    obtain ⟨hi, hcells⟩ := pushLast_two hpl
    obtain ⟨i, hidx, hcell⟩ := jumpBefore_ok hpt
    subst hidx
    have hjp' := framePoint_transfer hA hjp hcell
    subst hjp'
    rw [hi, hcells]
    refine ⟨⟨.frameIndex 0, [.jumpPoint point], [p']⟩, ?_, rfl, rfl, AllRel.cons hp' AllRel.nil⟩
    unfold shape
    rw [get_push2]
    simp [framePoint_push2]
  · obtain ⟨cells, ⟨point, hpt, p', hp', hcs⟩, hpl⟩ := hclone
    subst hcs
    obtain ⟨hi, hcells⟩ := pushLast_two hpl
    obtain ⟨i, hidx, hcell⟩ := jumpBefore_ok hpt
    subst hidx
    have hjp' := framePoint_transfer hA hjp hcell
    subst hjp'
    rw [hi, hcells]
    refine ⟨⟨.frameRegister 0, [.jumpPoint point], [p']⟩, ?_, rfl, rfl, AllRel.cons hp' AllRel.nil⟩
    unfold shape
    rw [get_push2]
    simp [framePoint_push2]
  · obtain ⟨cells, ⟨point, hpt, hcs⟩, hpl⟩ := hclone
    subst hcs
    obtain ⟨hi, hcells⟩ := pushLast_two hpl
    obtain ⟨i, hidx, hcell⟩ := jumpBefore_ok hpt
    subst hidx
    have hjp' := framePoint_transfer hA hjp hcell
    subst hjp'
    rw [hi, hcells]
    refine ⟨⟨.frameRoot, [.jumpPoint point], []⟩, ?_, rfl, rfl, AllRel.nil⟩
    unfold shape
    rw [get_push2]
    simp [framePoint_push2]


theorem inlineCells_props {cells : Array Cell} {p : Cell → Bool} :
    ∀ (n a : Nat) (l : List Cell), inlineCells cells p a n = some l → l.length = n ∧ ∀ c ∈ l, p c = true
  | 0, a, l, h => by
    simp only [inlineCells, Option.some.injEq] at h
    subst h; simp
  | n + 1, a, l, h => by
    simp only [inlineCells] at h
    cases hc : cells[a]? with
    | none => simp [hc] at h
    | some c =>
      rw [hc] at h
      simp only at h
      split at h
      · rename_i hpc
        simp only [Option.map_eq_some_iff] at h
        obtain ⟨t, ht, rfl⟩ := h
        obtain ⟨h1, h2⟩ := inlineCells_props n (a + 1) t ht
        refine ⟨by simp [h1], ?_⟩
        intro c' hc'
        rcases List.mem_cons.mp hc' with rfl | hm
        · exact hpc
        · exact h2 c' hm
      · simp at h

/-- reading back what was appended -/
theorem inlineCells_suffix {p : Cell → Bool} : ∀ (l pre post : List Cell) (cells : Array Cell),
    (∀ c ∈ l, p c = true) → cells.toList = pre ++ l ++ post → inlineCells cells p pre.length l.length = some l
  | [], pre, post, cells, _, _ => by simp [inlineCells]
  | c :: l, pre, post, cells, hp, hcells => by
    simp only [List.length_cons, inlineCells]
    have hget : cells[pre.length]? = some c := by
      rw [← Array.getElem?_toList, hcells]
      simp
    rw [hget]
    simp only [hp c (by simp), if_true]
    have := inlineCells_suffix l (pre ++ [c]) post cells (fun c' hc' => hp c' (by simp [hc'])) (by simp [hcells])
    simp only [List.length_append, List.length_singleton] at this
    rw [this]; rfl

theorem copyCells_spec {p : Cell → Bool} (hp : ∀ x, p (.cloneItem x) = false) :
    ∀ (n : Nat) (s s' : Store) (i : Nat) (l : List Cell), inlineCells s.cells p i n = some l →
      Store.copyCells s i n = .ok s' → s'.cells.toList = s.cells.toList ++ l
  | 0, s, s', i, l, hl, h => by
    simp only [inlineCells, Option.some.injEq] at hl
    simp only [Store.copyCells, Outcome.ok.injEq] at h
    subst hl; subst h; simp
  | n + 1, s, s', i, l, hl, h => by
    simp only [Store.copyCells, bind_eq_ok] at h
    obtain ⟨c, hg, ⟨s1, i1⟩, hpush, hrest⟩ := h
    have hc := get_ok hg
    simp only [inlineCells, hc] at hl
    split at hl
    · simp only [Option.map_eq_some_iff] at hl
      obtain ⟨t, ht, rfl⟩ := hl
      obtain ⟨_, hcells, _⟩ := push_ok hpush
      have hag : AgreeNC s.cells s1.cells := by
        intro j d hj _
        rw [hcells, Array.getElem?_push]
        have : j < s.cells.size := by
          rcases Nat.lt_or_ge j s.cells.size with h | h
          · exact h
          · rw [Array.getElem?_eq_none h] at hj; cases hj
        simp [Nat.ne_of_lt this, hj]
      have ht' := inlineCells_agree hag p hp n (i + 1) t ht
      have := copyCells_spec hp n s1 s' (i + 1) t ht' hrest
      rw [this, hcells]; simp
    · simp at hl


theorem agreeNC_of_all {s0 cells : Array Cell}
    (hA : ∀ (i : Nat) (c : Cell), s0[i]? = some c → cells[i]? = some c) : AgreeNC s0 cells :=
  fun i c h _ => hA i c h

theorem inline_core {p : Cell → Bool} (hp : ∀ x, p (.cloneItem x) = false) {s0 : Array Cell} {cur s1 s2 : Store}
    {index li n : Nat} {hdr : Cell} {inl : List Cell}
    (hA : ∀ (i : Nat) (c : Cell), s0[i]? = some c → cur.cells[i]? = some c)
    (hinl : inlineCells s0 p (index + 1) n = some inl)
    (hpush : cur.push hdr = .ok (s1, li)) (hcopy : Store.copyCells s1 (index + 1) n = .ok s2) :
    li = cur.cells.size ∧ s2.cells[li]? = some hdr ∧ inlineCells s2.cells p (li + 1) n = some inl := by
  obtain ⟨hi, hcells, _⟩ := push_ok hpush
  have hag1 : AgreeNC s0 s1.cells := by
    intro j d hj _
    have := hA j d hj
    rw [hcells, Array.getElem?_push]
    have hlt : j < cur.cells.size := by
      rcases Nat.lt_or_ge j cur.cells.size with h | h
      · exact h
      · rw [Array.getElem?_eq_none h] at this; cases this
    simp [Nat.ne_of_lt hlt, this]
  have hinl1 := inlineCells_agree hag1 p hp _ _ _ hinl
  have hlist := copyCells_spec hp _ _ _ _ _ hinl1 hcopy
  obtain ⟨hlen, hall⟩ := inlineCells_props _ _ _ hinl
  have hl2 : s2.cells.toList = (cur.cells.toList ++ [hdr]) ++ inl ++ [] := by
    rw [hlist, hcells]; simp
  have hread := inlineCells_suffix inl _ [] s2.cells hall hl2
  have hhdr : s2.cells[li]? = some hdr := by
    rw [← Array.getElem?_toList, hl2, hi]; simp
  simp only [List.length_append, List.length_singleton, Array.length_toList, hlen] at hread
  rw [← hi] at hread
  exact ⟨hi, hhdr, hread⟩

/-- cloning text, bytes or a symbol list: the inline cells are copied behind the header -/
theorem cloneCell_shape_inline {s0 : Array Cell} {cur cur2 : Store} {ls le index ni : Nat} {c : Cell} {sh : Shape}
    (hA : ∀ (i : Nat) (c : Cell), s0[i]? = some c → cur.cells[i]? = some c)
    (hc : s0[index]? = some c) (hsh : shape s0 index = some sh)
    (hin : (∃ n, c = .charList n) ∨ (∃ n, c = .byteList n) ∨ (∃ n, c = .symbolList n))
    (hclone : Store.cloneCell cur ls le index c = .ok (cur2, ni)) :
    ∃ sh', shape cur2.cells ni = some sh' ∧ sh'.label = sh.label ∧ sh'.inl = sh.inl ∧
      AllRel (fun x x' => Store.lookup cur ls le x = .ok x') sh.kids sh'.kids := by
  unfold shape at hsh
  rw [hc] at hsh
  rcases hin with ⟨n, rfl⟩ | ⟨n, rfl⟩ | ⟨n, rfl⟩
  all_goals simp only [Option.map_eq_some_iff] at hsh
  all_goals obtain ⟨inl, hinl, rfl⟩ := hsh
  all_goals simp only [Store.cloneCell, bind_eq_ok, pure_eq_ok, Prod.mk.injEq] at hclone
  all_goals obtain ⟨⟨s1, li⟩, hpush, s2, hcopy, hs2, hli⟩ := hclone
  all_goals subst hs2
  all_goals subst hli
  all_goals obtain ⟨_, hhdr, hread⟩ := inline_core (by intro x; rfl) hA hinl hpush hcopy
  all_goals refine ⟨⟨_, inl, []⟩, ?_, rfl, rfl, AllRel.nil⟩
  all_goals unfold shape
  all_goals rw [hhdr]
  all_goals simp only [hread, Option.map_some]


/-! ### the reversed walk of `clone_index_stack`: invariant and `clone_preserves` -/

set_option maxHeartbeats 1000000

theorem shape_cell {cells : Array Cell} {a : Nat} {sh : Shape} (h : shape cells a = some sh) :
    ∃ c, cells[a]? = some c := by
  unfold shape at h
  cases hc : cells[a]? with
  | none => simp [hc] at h
  | some c => exact ⟨c, rfl⟩

/-- one clone step, every kind of cell except lists -/
theorem cloneCell_shape {s0 : Array Cell} {cur cur2 : Store} {ls le index ni : Nat} {c : Cell} {sh : Shape}
    (hA : ∀ (i : Nat) (c : Cell), s0[i]? = some c → cur.cells[i]? = some c)
    (hc : s0[index]? = some c) (hsh : shape s0 index = some sh)
    (hnl : ∀ n k, c ≠ .list n k)
    (hclone : Store.cloneCell cur ls le index c = .ok (cur2, ni)) :
    ∃ sh', shape cur2.cells ni = some sh' ∧ sh'.label = sh.label ∧ sh'.inl = sh.inl ∧
      AllRel (fun x x' => Store.lookup cur ls le x = .ok x') sh.kids sh'.kids := by
  cases hso : soloShape c with
  | some x =>
    have : sh = x := solo_of_shape hc hso hsh
    subst this
    exact cloneCell_shape_solo hso hclone
  | none =>
    cases c <;> simp only [soloShape] at hso <;> try (simp at hso; done)
    · exact cloneCell_shape_inline hA hc hsh (Or.inr (Or.inr ⟨_, rfl⟩)) hclone
    · exact cloneCell_shape_inline hA hc hsh (Or.inl ⟨_, rfl⟩) hclone
    · exact cloneCell_shape_inline hA hc hsh (Or.inr (Or.inl ⟨_, rfl⟩)) hclone
    · exact absurd rfl (hnl _ _)
    all_goals first
      | (unfold shape at hsh; rw [hc] at hsh; simp at hsh; done)
      | exact cloneCell_shape_frame hA hc hsh (Or.inl ⟨_, _, rfl⟩) hclone
      | exact cloneCell_shape_frame hA hc hsh (Or.inr (Or.inl ⟨_, rfl⟩)) hclone
      | exact cloneCell_shape_frame hA hc hsh (Or.inr (Or.inr (Or.inl ⟨_, rfl⟩))) hclone
      | exact cloneCell_shape_frame hA hc hsh (Or.inr (Or.inr (Or.inr rfl))) hclone

theorem findMap_some {cells : Array Cell} {idx nw : Nat} : ∀ (n lo : Nat), Store.findMap cells idx lo n = some nw →
    ∃ j, lo ≤ j ∧ j < lo + n ∧ cells[j]? = some (.cloneIndexMap idx nw)
  | 0, lo, h => by simp [Store.findMap] at h
  | n + 1, lo, h => by
    simp only [Store.findMap] at h
    split at h
    · rename_i o nw' hcell
      split at h
      · rename_i ho
        simp only [Option.some.injEq] at h
        subst h; subst ho
        exact ⟨lo, Nat.le_refl _, by omega, hcell⟩
      · obtain ⟨j, h1, h2, h3⟩ := findMap_some n (lo + 1) h
        exact ⟨j, by omega, by omega, h3⟩
    · obtain ⟨j, h1, h2, h3⟩ := findMap_some n (lo + 1) h
      exact ⟨j, by omega, by omega, h3⟩

/-- `x ↦ x'` is a link the clone loop has established: retained, or a map entry at a processed position -/
def Link (cur : Store) (lo hi : Nat) (x x' : Nat) : Prop :=
  (x' = x ∧ x < cur.retention) ∨ ∃ j, lo ≤ j ∧ j < hi ∧ cur.cells[j]? = some (.cloneIndexMap x x')

theorem lookupOpt_link {cur : Store} {lo hi x x' : Nat}
    (h : Store.lookupOpt cur (cur.start + lo) (cur.start + hi) x = .ok (some x')) : Link cur lo hi x x' := by
  unfold Store.lookupOpt at h
  split at h
  · simp only [Outcome.ok.injEq, Option.some.injEq] at h
    subst h; exact Or.inl ⟨rfl, by assumption⟩
  · split at h
    · simp at h
    · split at h
      · simp at h
      · simp only [Outcome.ok.injEq] at h
        have e1 : cur.start + lo - cur.start = lo := by omega
        have e2 : cur.start + hi - cur.start = hi := by omega
        rw [e1, e2] at h
        obtain ⟨j, h1, h2, h3⟩ := findMap_some _ _ h
        exact Or.inr ⟨j, h1, by omega, h3⟩

theorem lookup_link {cur : Store} {lo hi x x' : Nat}
    (h : Store.lookup cur (cur.start + lo) (cur.start + hi) x = .ok x') : Link cur lo hi x x' := by
  simp only [Store.lookup, bind_eq_ok] at h
  obtain ⟨o, ho, h2⟩ := h
  cases o with
  | none => simp at h2
  | some v =>
    simp only [pure_eq_ok] at h2
    subst h2
    exact lookupOpt_link ho

theorem AllRel.imp {α β} {R S : α → β → Prop} (h : ∀ a b, R a b → S a b) :
    ∀ {l : List α} {l' : List β}, AllRel R l l' → AllRel S l l'
  | _, _, .nil => .nil
  | _, _, .cons hab t => .cons (h _ _ hab) (AllRel.imp h t)


/-- `st` is `cur` with data cells appended -/
structure Grown (cur st : Store) : Prop where
  start : st.start = cur.start
  ret : st.retention = cur.retention
  keep : ∀ j, j < cur.cells.size → st.cells[j]? = cur.cells[j]?
  mono : cur.cells.size ≤ st.cells.size

theorem Grown.refl (s : Store) : Grown s s := ⟨rfl, rfl, fun _ _ => rfl, Nat.le_refl _⟩

theorem Grown.trans {a b c : Store} (h1 : Grown a b) (h2 : Grown b c) : Grown a c :=
  ⟨h2.start.trans h1.start, h2.ret.trans h1.ret,
   fun j hj => (h2.keep j (Nat.lt_of_lt_of_le hj h1.mono)).trans (h1.keep j hj), Nat.le_trans h1.mono h2.mono⟩

theorem Grown.of_ext {a b : Store} (h : Ext a.cells.size a b) : Grown a b :=
  ⟨h.frame.2.1, h.frame.1, fun j hj => h.keep j hj hj, h.mono⟩

/-- a link looked up in `cur` or in `cur` with cells appended -/
def LinkVia (cur : Store) (ls le x x' : Nat) : Prop := ∃ st, Grown cur st ∧ Store.lookup st ls le x = .ok x'

inductive SlotRel (L : Nat → Nat → Prop) : Cell → Cell → Prop where
  | item {x x'} : L x x' → SlotRel L (.listItem x) (.listItem x')
  | assoc {sy x x'} : L x x' → SlotRel L (.associativeItem sy x) (.associativeItem sy x')
  | empty : SlotRel L .empty .empty

theorem SlotRel.imp {L M : Nat → Nat → Prop} (h : ∀ a b, L a b → M a b) {c c' : Cell} :
    SlotRel L c c' → SlotRel M c c'
  | .item hl => .item (h _ _ hl)
  | .assoc hl => .assoc (h _ _ hl)
  | .empty => .empty

theorem cloneSlots_spec (ls le : Nat) : ∀ (m : Nat) (s s' : Store) (i : Nat),
    Store.cloneSlots ls le s i m = .ok s' →
      Grown s s' ∧ ∀ t, t < m → i + t < s.cells.size →
        ∃ c c', s.cells[i + t]? = some c ∧ s'.cells[s.cells.size + t]? = some c' ∧ SlotRel (LinkVia s ls le) c c'
  | 0, s, s', i, h => by
    simp only [Store.cloneSlots, Outcome.ok.injEq] at h
    subst h
    exact ⟨Grown.refl _, fun t ht => by omega⟩
  | m + 1, s, s', i, h => by
    simp only [Store.cloneSlots, bind_eq_ok] at h
    obtain ⟨c, hg, h2⟩ := h
    have hc := get_ok hg
    -- common tail once the relinked cell `c'` is known
    have tail : ∀ (c' : Cell) (s1 : Store) (i1 : Nat), SlotRel (LinkVia s ls le) c c' → s.push c' = .ok (s1, i1) →
        Store.cloneSlots ls le s1 (i + 1) m = .ok s' →
        Grown s s' ∧ ∀ t, t < m + 1 → i + t < s.cells.size →
          ∃ c c', s.cells[i + t]? = some c ∧ s'.cells[s.cells.size + t]? = some c' ∧ SlotRel (LinkVia s ls le) c c' := by
      intro c' s1 i1 hrel hpush hrest
      obtain ⟨_, hcells, _⟩ := push_ok hpush
      have g1 : Grown s s1 := Grown.of_ext (push_ext _ hpush)
      obtain ⟨g2, ih⟩ := cloneSlots_spec ls le m s1 s' (i + 1) hrest
      have hsz : s1.cells.size = s.cells.size + 1 := by rw [hcells]; simp
      refine ⟨g1.trans g2, ?_⟩
      intro t ht hit
      cases t with
      | zero =>
        refine ⟨c, c', by simpa using hc, ?_, hrel⟩
        rw [Nat.add_zero, g2.keep _ (by omega), hcells]
        simp
      | succ t =>
        obtain ⟨d, d', hd, hd', hrel'⟩ := ih t (by omega) (by omega)
        refine ⟨d, d', ?_, ?_, SlotRel.imp (fun a b ⟨st, hst, hl⟩ => ⟨st, g1.trans hst, hl⟩) hrel'⟩
        · rw [← g1.keep _ (by omega)]
          have : i + (t + 1) = i + 1 + t := by omega
          rw [this]; exact hd
        · have : s.cells.size + (t + 1) = s1.cells.size + t := by omega
          rw [this]; exact hd'
    split at h2
    · simp only [bind_eq_ok] at h2
      obtain ⟨item', hl, ⟨s1, i1⟩, hpush, hrest⟩ := h2
      exact tail _ s1 i1 (.item ⟨s, Grown.refl _, hl⟩) hpush hrest
    · simp only [bind_eq_ok] at h2
      obtain ⟨item', hl, ⟨s1, i1⟩, hpush, hrest⟩ := h2
      exact tail _ s1 i1 (.assoc ⟨s, Grown.refl _, hl⟩) hpush hrest
    · simp only [bind_eq_ok] at h2
      obtain ⟨⟨s1, i1⟩, hpush, hrest⟩ := h2
      exact tail _ s1 i1 .empty hpush hrest
    · simp at h2

theorem listItems_build {L : Nat → Nat → Prop} {s0 cells2 : Array Cell} : ∀ (n a b : Nat) (items : List Nat),
    listItems s0 a n = some items →
    (∀ t, t < n → ∃ c c', s0[a + t]? = some c ∧ cells2[b + t]? = some c' ∧ SlotRel L c c') →
    ∃ items', listItems cells2 b n = some items' ∧ AllRel L items items'
  | 0, a, b, items, h, _ => by
    simp only [listItems, Option.some.injEq] at h
    subst h
    exact ⟨[], by simp [listItems], .nil⟩
  | n + 1, a, b, items, h, hs => by
    simp only [listItems] at h
    obtain ⟨c, c', hc, hc', hrel⟩ := hs 0 (by omega)
    simp only [Nat.add_zero] at hc hc'
    rw [hc] at h
    cases hrel with
    | item hl =>
      simp only [Option.map_eq_some_iff] at h
      obtain ⟨rest, hrest, rfl⟩ := h
      obtain ⟨rest', hr', hall⟩ := listItems_build n (a + 1) (b + 1) rest hrest (fun t ht => by
        obtain ⟨d, d', h1, h2, h3⟩ := hs (t + 1) (by omega)
        refine ⟨d, d', ?_, ?_, h3⟩
        · have : a + 1 + t = a + (t + 1) := by omega
          rw [this]; exact h1
        · have : b + 1 + t = b + (t + 1) := by omega
          rw [this]; exact h2)
      refine ⟨_ :: rest', ?_, .cons hl hall⟩
      simp only [listItems, hc', hr', Option.map_some]
    | assoc _ => simp at h
    | empty => simp at h

theorem assocItems_build {L : Nat → Nat → Prop} {s0 cells2 : Array Cell} : ∀ (n a b : Nat) (keys : List Cell)
    (targets : List Nat), assocItems s0 a n = some (keys, targets) →
    (∀ t, t < n → ∃ c c', s0[a + t]? = some c ∧ cells2[b + t]? = some c' ∧ SlotRel L c c') →
    ∃ targets', assocItems cells2 b n = some (keys, targets') ∧ AllRel L targets targets'
  | 0, a, b, keys, targets, h, _ => by
    simp only [assocItems, Option.some.injEq, Prod.mk.injEq] at h
    obtain ⟨h1, h2⟩ := h
    subst h1; subst h2
    exact ⟨[], by simp [assocItems], .nil⟩
  | n + 1, a, b, keys, targets, h, hs => by
    simp only [assocItems] at h
    obtain ⟨c, c', hc, hc', hrel⟩ := hs 0 (by omega)
    simp only [Nat.add_zero] at hc hc'
    rw [hc] at h
    cases hrel with
    | assoc hl =>
      simp only [Option.map_eq_some_iff] at h
      obtain ⟨⟨ks, js⟩, hrest, heq⟩ := h
      simp only [Prod.mk.injEq] at heq
      obtain ⟨hk, hj⟩ := heq
      subst hk; subst hj
      obtain ⟨rest', hr', hall⟩ := assocItems_build n (a + 1) (b + 1) ks js hrest (fun t ht => by
        obtain ⟨d, d', h1, h2, h3⟩ := hs (t + 1) (by omega)
        refine ⟨d, d', ?_, ?_, h3⟩
        · have : a + 1 + t = a + (t + 1) := by omega
          rw [this]; exact h1
        · have : b + 1 + t = b + (t + 1) := by omega
          rw [this]; exact h2)
      refine ⟨_ :: rest', ?_, .cons hl hall⟩
      simp only [assocItems, hc', hr', Option.map_some]
    | item _ => simp at h
    | empty => simp at h

theorem AllRel.append {α β} {R : α → β → Prop} : ∀ {l1 : List α} {l1' : List β} {l2 : List α} {l2' : List β},
    AllRel R l1 l1' → AllRel R l2 l2' → AllRel R (l1 ++ l2) (l1' ++ l2')
  | _, _, _, _, .nil, h2 => h2
  | _, _, _, _, .cons hab t, h2 => .cons hab (AllRel.append t h2)


theorem listItems_cell {cells : Array Cell} : ∀ (n a : Nat) (items : List Nat), listItems cells a n = some items →
    ∀ t, t < n → ∃ c, cells[a + t]? = some c
  | 0, _, _, _, t, ht => by omega
  | n + 1, a, items, h, t, ht => by
    simp only [listItems] at h
    cases hc : cells[a]? with
    | none => simp [hc] at h
    | some c =>
      cases t with
      | zero => exact ⟨c, by simpa using hc⟩
      | succ t =>
        rw [hc] at h
        cases c <;> simp only [] at h <;> try (simp at h; done)
        simp only [Option.map_eq_some_iff] at h
        obtain ⟨rest, hrest, _⟩ := h
        obtain ⟨d, hd⟩ := listItems_cell n (a + 1) rest hrest t (by omega)
        exact ⟨d, by have : a + (t + 1) = a + 1 + t := by omega
                     rw [this]; exact hd⟩

theorem assocItems_cell {cells : Array Cell} : ∀ (n a : Nat) (r : List Cell × List Nat), assocItems cells a n = some r →
    ∀ t, t < n → ∃ c, cells[a + t]? = some c
  | 0, _, _, _, t, ht => by omega
  | n + 1, a, r, h, t, ht => by
    simp only [assocItems] at h
    cases hc : cells[a]? with
    | none => simp [hc] at h
    | some c =>
      cases t with
      | zero => exact ⟨c, by simpa using hc⟩
      | succ t =>
        rw [hc] at h
        cases c <;> simp only [] at h <;> try (simp at h; done)
        simp only [Option.map_eq_some_iff] at h
        obtain ⟨rest, hrest, _⟩ := h
        obtain ⟨d, hd⟩ := assocItems_cell n (a + 1) rest hrest t (by omega)
        exact ⟨d, by have : a + (t + 1) = a + 1 + t := by omega
                     rw [this]; exact hd⟩

/-- cloning a list: items and key table are copied behind the header with their links looked up -/
theorem cloneCell_shape_list {s0 : Array Cell} {cur cur2 : Store} {ls le index ni n k : Nat} {sh : Shape}
    (hA : ∀ (i : Nat) (c : Cell), s0[i]? = some c → cur.cells[i]? = some c)
    (hc : s0[index]? = some (.list n k)) (hsh : shape s0 index = some sh) (hkn : k ≤ n)
    (hclone : Store.cloneCell cur ls le index (.list n k) = .ok (cur2, ni)) :
    ∃ sh', shape cur2.cells ni = some sh' ∧ sh'.label = sh.label ∧ sh'.inl = sh.inl ∧
      AllRel (LinkVia cur ls le) sh.kids sh'.kids := by
  unfold shape at hsh
  rw [hc] at hsh
  simp only at hsh
  split at hsh
  · rename_i items keys targets h1 h2
    simp only [Option.some.injEq] at hsh
    subst hsh
    simp only [Store.cloneCell, bind_eq_ok, pure_eq_ok, Prod.mk.injEq] at hclone
    obtain ⟨⟨s1, li⟩, hpush, s2, hslots, hs2, hli⟩ := hclone
    subst hs2; subst hli
    obtain ⟨hi, hcells, _⟩ := push_ok hpush
    have g1 : Grown cur s1 := Grown.of_ext (push_ext _ hpush)
    have hsz : s1.cells.size = cur.cells.size + 1 := by rw [hcells]; simp
    obtain ⟨g2, spec⟩ := cloneSlots_spec ls le (n * 2) s1 s2 (index + 1) hslots
    have slot : ∀ u, u < n * 2 → ∀ d, s0[index + 1 + u]? = some d →
        ∃ c c', s0[index + 1 + u]? = some c ∧ s2.cells[li + 1 + u]? = some c' ∧ SlotRel (LinkVia cur ls le) c c' := by
      intro u hu d hd
      have hcur := hA _ d hd
      have hlt : index + 1 + u < cur.cells.size := by
        rcases Nat.lt_or_ge (index + 1 + u) cur.cells.size with h | h
        · exact h
        · rw [Array.getElem?_eq_none h] at hcur; cases hcur
      obtain ⟨c, c', e1, e2, e3⟩ := spec u hu (by omega)
      rw [g1.keep _ hlt, hcur] at e1
      simp only [Option.some.injEq] at e1
      subst e1
      refine ⟨d, c', hd, ?_, SlotRel.imp (fun a b ⟨st, hst, hl⟩ => ⟨st, g1.trans hst, hl⟩) e3⟩
      have : li + 1 + u = s1.cells.size + u := by omega
      rw [this]; exact e2
    obtain ⟨items', hit, hitrel⟩ := listItems_build n (index + 1) (li + 1) items h1 (fun t ht => by
      obtain ⟨d, hd⟩ := listItems_cell _ _ _ h1 t ht
      exact slot t (by omega) d hd)
    obtain ⟨targets', htg, htgrel⟩ := assocItems_build k (index + 1 + n) (li + 1 + n) keys targets h2 (fun t ht => by
      obtain ⟨d, hd⟩ := assocItems_cell _ _ _ h2 t ht
      have e : index + 1 + n + t = index + 1 + (n + t) := by omega
      have e' : li + 1 + n + t = li + 1 + (n + t) := by omega
      rw [e, e']
      rw [e] at hd
      exact slot (n + t) (by omega) d hd)
    have hhdr : s2.cells[li]? = some (.list n k) := by
      rw [g2.keep li (by omega), hcells, hi]; simp
    refine ⟨⟨.list n k, keys, items' ++ targets'⟩, ?_, rfl, rfl, AllRel.append hitrel htgrel⟩
    unfold shape
    rw [hhdr]
    simp only [hit, htg]
  · simp at hsh

/-- one clone step, every kind of cell (lists need `k ≤ n`: the key table lies within the copied slots) -/
theorem cloneCell_shape_all {s0 : Array Cell} {cur cur2 : Store} {ls le index ni : Nat} {c : Cell} {sh : Shape}
    (hA : ∀ (i : Nat) (c : Cell), s0[i]? = some c → cur.cells[i]? = some c)
    (hc : s0[index]? = some c) (hsh : shape s0 index = some sh)
    (hwf : ∀ n k, c = .list n k → k ≤ n)
    (hclone : Store.cloneCell cur ls le index c = .ok (cur2, ni)) :
    ∃ sh', shape cur2.cells ni = some sh' ∧ sh'.label = sh.label ∧ sh'.inl = sh.inl ∧
      AllRel (LinkVia cur ls le) sh.kids sh'.kids := by
  by_cases hl : ∃ n k, c = .list n k
  · obtain ⟨n, k, rfl⟩ := hl
    exact cloneCell_shape_list hA hc hsh (hwf n k rfl) hclone
  · obtain ⟨sh', g1, g2, g3, g4⟩ := cloneCell_shape hA hc hsh (fun n k h => hl ⟨n, k, h⟩) hclone
    exact ⟨sh', g1, g2, g3, AllRel.imp (fun a b hab => ⟨cur, Grown.refl _, hab⟩) g4⟩

/-- list headers whose key-table length does not exceed the list length (what `end_list` produces) -/
def ListsWF (cells : Array Cell) : Prop := ∀ (i n k : Nat), cells[i]? = some (.list n k) → k ≤ n

/-- `n` is a faithful copy of `o`: same label, same inline cells, links established by the loop -/
def CloneOf (s0 : Array Cell) (cur : Store) (lo hi o n : Nat) : Prop :=
  ∀ sh, shape s0 o = some sh → ∃ sh', shape cur.cells n = some sh' ∧ sh'.label = sh.label ∧ sh'.inl = sh.inl ∧
    AllRel (Link cur lo hi) sh.kids sh'.kids

def Good (s0 : Array Cell) (cur : Store) (lo hi o n : Nat) : Prop := n = o ∨ CloneOf s0 cur lo hi o n

/-- heaps without list cells (the list arm of the clone step is not covered by the universal proof yet) -/
def NoLists (cells : Array Cell) : Prop := ∀ (i n k : Nat), cells[i]? ≠ some (.list n k)

/-- invariant of the reversed walk: positions `≥ top + k` of the index list are processed -/
structure CInv (s0 : Array Cell) (s1 : Store) (top hi k : Nat) (cur : Store) : Prop where
  agree0 : ∀ (i : Nat) (c : Cell), s0[i]? = some c → cur.cells[i]? = some c
  start : cur.start = s1.start
  ret : cur.retention = s1.retention
  hiLe : hi ≤ cur.cells.size
  bound : top + k ≤ hi
  pending : ∀ j, j < top + k → j < hi → cur.cells[j]? = s1.cells[j]?
  done : ∀ j, top + k ≤ j → j < hi → ∃ o n, cur.cells[j]? = some (.cloneIndexMap o n) ∧
    s1.cells[j]? = some (.cloneItem o) ∧ Good s0 cur (top + k) hi o n

theorem Link.mono {cur cur' : Store} {lo lo' hi x x' : Nat} (hlo : lo' ≤ lo) (hret : cur'.retention = cur.retention)
    (hcells : ∀ j, lo ≤ j → j < hi → cur'.cells[j]? = cur.cells[j]?) (h : Link cur lo hi x x') :
    Link cur' lo' hi x x' := by
  rcases h with ⟨h1, h2⟩ | ⟨j, h1, h2, h3⟩
  · exact Or.inl ⟨h1, by rw [hret]; exact h2⟩
  · exact Or.inr ⟨j, by omega, h2, by rw [hcells j h1 h2]; exact h3⟩

theorem Good.mono {s0 : Array Cell} {cur cur' : Store} {lo lo' hi o n : Nat} (hlo : lo' ≤ lo)
    (hret : cur'.retention = cur.retention)
    (hcells : ∀ j, lo ≤ j → j < hi → cur'.cells[j]? = cur.cells[j]?)
    (hag : AgreeNC cur.cells cur'.cells) (h : Good s0 cur lo hi o n) : Good s0 cur' lo' hi o n := by
  rcases h with h | h
  · exact Or.inl h
  · refine Or.inr ?_
    intro sh hsh
    obtain ⟨sh', h1, h2, h3, h4⟩ := h sh hsh
    exact ⟨sh', shape_agree hag h1, h2, h3, AllRel.imp (fun a b hab => Link.mono hlo hret hcells hab) h4⟩

theorem setCell_cells {s s' : Store} {i : Nat} {c : Cell} (h : Store.setCell s i c = .ok s') :
    i < s.cells.size ∧ s'.cells = s.cells.setIfInBounds i c ∧ SameFrame s s' := by
  unfold Store.setCell at h
  split at h
  · simp only [Outcome.ok.injEq] at h
    subst h
    exact ⟨by assumption, rfl, SameFrame.rfl' _⟩
  · simp at h

/-- one iteration of the reversed walk keeps the invariant (offset 0: `clone_data`) -/
theorem cloneLoop_step_inv {s0 : Array Cell} {s1 : Store} {top hi : Nat} (htop : s0.size ≤ top) (hnl : ListsWF s0) :
    ∀ (k : Nat) (cur s' : Store), CInv s0 s1 top hi k cur →
      Store.cloneLoop 0 (s1.start + hi) top k cur = .ok s' → CInv s0 s1 top hi 0 s'
  | 0, cur, s', hinv, h => by
    simp only [Store.cloneLoop, Outcome.ok.injEq] at h
    subst h; exact hinv
  | k + 1, cur, s', hinv, h => by
    simp only [Store.cloneLoop, bind_eq_ok] at h
    obtain ⟨ci, hgi, h2⟩ := h
    have hci := get_ok hgi
    split at h2
    · rename_i index
      simp only [bind_eq_ok] at h2
      obtain ⟨existing, hex, ⟨cur2, ni⟩, h3, s2, hset, hrest⟩ := h2
      have hstart : cur.start + (top + k) + 1 = cur.start + (top + k + 1) := by omega
      rw [hstart, ← hinv.start] at hex
      rw [hstart, ← hinv.start] at h3
      -- the store after the optional clone, and what the new map entry satisfies
      have key : Ext (top + k + 1) cur cur2 ∧ (∀ j, j < cur.cells.size → cur2.cells[j]? = cur.cells[j]?) ∧
          Good s0 cur2 (top + k + 1) hi index ni := by
        cases existing with
        | some j' =>
          simp only [pure, Outcome.ok.injEq, Prod.mk.injEq] at h3
          obtain ⟨hc2, hni⟩ := h3
          subst hc2; subst hni
          refine ⟨Ext.refl _ _, fun _ _ => rfl, ?_⟩
          rcases lookupOpt_link hex with ⟨h1, _⟩ | ⟨j, h1, h2, hcell⟩
          · exact Or.inl h1
          · obtain ⟨o, n, hcell', _, hgood⟩ := hinv.done j (by omega) h2
            rw [hcell] at hcell'
            simp only [Option.some.injEq, Cell.cloneIndexMap.injEq] at hcell'
            obtain ⟨ho, hn⟩ := hcell'
            subst ho; subst hn
            have hk : top + (k + 1) = top + k + 1 := by omega
            rw [hk] at hgood
            exact hgood
        | none =>
          simp only [bind_eq_ok] at h3
          obtain ⟨c, hgc, ⟨cur2', ni'⟩, hclone, h4⟩ := h3
          have hni : cur2' = cur2 ∧ ni' = ni := by
            split at h4
            · simpa [pure] using h4
            · split at h4
              · simp at h4
              · simpa [pure] using h4
          obtain ⟨hc2, hni⟩ := hni
          subst hc2; subst hni
          have hext := cloneCell_ext (top + k + 1) hclone
          have hkeep : ∀ j, j < cur.cells.size → cur2'.cells[j]? = cur.cells[j]? :=
            fun j hj => (cloneCell_ext (j + 1) hclone).keep j (by omega) hj
          refine ⟨hext, hkeep, Or.inr ?_⟩
          intro sh hsh
          obtain ⟨c0, hc0⟩ := shape_cell hsh
          have hcc : c = c0 := by
            have := hinv.agree0 index c0 hc0
            rw [get_ok hgc] at this
            exact Option.some.inj this
          subst hcc
          obtain ⟨sh', g1, g2, g3, g4⟩ := cloneCell_shape_all hinv.agree0 hc0 hsh (fun n k hck => hnl index n k (by rw [hc0, hck])) hclone
          refine ⟨sh', g1, g2, g3, AllRel.imp (fun a b ⟨st, hgr, hab⟩ => ?_) g4⟩
          rw [← hgr.start] at hab
          have hl := lookup_link hab
          exact Link.mono (Nat.le_refl _) (hext.frame.1.trans hgr.ret.symm)
            (fun j hj1 hj2 => (hkeep j (by have := hinv.hiLe; omega)).trans
              (hgr.keep j (by have := hinv.hiLe; omega)).symm) hl
      obtain ⟨hext, hkeep, hgood⟩ := key
      obtain ⟨hilt, hcells2, hframe2⟩ := setCell_cells hset
      have hi_lt : top + k < hi := by have := hinv.bound; omega
      have hcur2i : cur2.cells[top + k]? = some (.cloneItem index) := by
        rw [hkeep _ (by have := hinv.hiLe; omega)]; exact hci
      -- only the `CloneItem` at `top + k` changes between `cur2` and `s2`
      have hag2 : AgreeNC cur2.cells s2.cells := by
        intro j d hj hne
        rw [hcells2]
        by_cases hji : j = top + k
        · subst hji
          rw [hcur2i] at hj
          exact absurd (Option.some.inj hj).symm (hne index)
        · simp [Ne.symm hji, hj]
      have hother : ∀ j, j ≠ top + k → s2.cells[j]? = cur2.cells[j]? := by
        intro j hj
        rw [hcells2]
        simp [Ne.symm hj]
      have hinv2 : CInv s0 s1 top hi k s2 := by
        refine ⟨?_, ?_, ?_, ?_, by omega, ?_, ?_⟩
        · intro j d hj
          have hjlt : j < s0.size := by
            rcases Nat.lt_or_ge j s0.size with h | h
            · exact h
            · rw [Array.getElem?_eq_none h] at hj; cases hj
          have h1 := hinv.agree0 j d hj
          have hjc : j < cur.cells.size := by
            rcases Nat.lt_or_ge j cur.cells.size with h | h
            · exact h
            · rw [Array.getElem?_eq_none h] at h1; cases h1
          rw [hother j (by omega), hkeep j hjc]; exact h1
        · rw [hframe2.2.1, hext.frame.2.1]; exact hinv.start
        · rw [hframe2.1, hext.frame.1]; exact hinv.ret
        · rw [hcells2]; simp; exact Nat.le_trans hinv.hiLe hext.mono
        · intro j hj1 hj2
          rw [hother j (by omega), hkeep j (by have := hinv.hiLe; omega)]
          exact hinv.pending j (by omega) hj2
        · intro j hj1 hj2
          have hcellsJ : ∀ j', top + k + 1 ≤ j' → j' < hi → s2.cells[j']? = cur2.cells[j']? :=
            fun j' h1 _ => hother j' (by omega)
          by_cases hji : j = top + k
          · subst hji
            refine ⟨index, ni, ?_, ?_, Good.mono (by omega) hframe2.1 hcellsJ hag2 hgood⟩
            · rw [hcells2]
              simp [hilt]
            · rw [← hinv.pending (top + k) (by omega) hi_lt]; exact hci
          · obtain ⟨o, n, hcell, hs1, hg⟩ := hinv.done j (by omega) hj2
            have hk : top + (k + 1) = top + k + 1 := by omega
            rw [hk] at hg
            refine ⟨o, n, ?_, hs1, ?_⟩
            · rw [hother j hji, hkeep j (by have := hinv.hiLe; omega)]; exact hcell
            · have hg2 : Good s0 cur2 (top + k + 1) hi o n :=
                Good.mono (Nat.le_refl _) hext.frame.1
                  (fun j' h1 h2 => hkeep j' (by have := hinv.hiLe; omega))
                  (fun j' d hj' _ => by
                    have : j' < cur.cells.size := by
                      rcases Nat.lt_or_ge j' cur.cells.size with h | h
                      · exact h
                      · rw [Array.getElem?_eq_none h] at hj'; cases hj'
                    rw [hkeep j' this]; exact hj') hg
              exact Good.mono (by omega) hframe2.1 hcellsJ hag2 hg2
      exact cloneLoop_step_inv htop hnl k s2 s' hinv2 hrest
    · simp at h2


theorem AllRel.imp_mem {α β} {R S : α → β → Prop} : ∀ {l : List α} {l' : List β},
    (∀ a b, a ∈ l → R a b → S a b) → AllRel R l l' → AllRel S l l'
  | _, _, _, .nil => .nil
  | _, _, h, .cons hab t =>
    .cons (h _ _ (by simp) hab) (AllRel.imp_mem (fun a b ha hr => h a b (by simp [ha]) hr) t)

theorem allRel_refl_of {α} {S : α → α → Prop} : ∀ (l : List α), (∀ a ∈ l, S a a) → AllRel S l l
  | [], _ => .nil
  | a :: l, h => .cons (h a (by simp)) (allRel_refl_of l (fun b hb => h b (by simp [hb])))

/-- **clone_preserves**: the address returned by `clone_data` unfolds to the same
tree as the argument, for every fuel, whenever the argument has an unfolding at all (acyclic, well formed) -/
theorem cloneData_preserves {s s' : Store} {a r : Nat} (h : Store.cloneData s a = .ok (s', r))
    (hnl : ListsWF s.cells) (hd : Dec s.cells a) : ∀ fuel, unfold s.cells fuel a = unfold s'.cells fuel r := by
  simp only [Store.cloneData, bind_eq_ok] at h
  obtain ⟨⟨s1, st⟩, h1, h2⟩ := h
  obtain ⟨e1, hst⟩ := createIndexStack_ext s.cells.size h1
  subst hst
  -- the head of the index list is `CloneItem a`
  have hhead : s1.cells[s.cells.size]? = some (.cloneItem a) := by
    simp only [Store.createIndexStack, bind_eq_ok, pure_eq_ok] at h1
    obtain ⟨⟨sp, ip⟩, hp, sl, hl, h3⟩ := h1
    simp only [Prod.mk.injEq] at h3
    obtain ⟨h3, _⟩ := h3
    subst h3
    obtain ⟨_, hcells, _⟩ := push_ok hp
    have e := indexLoop_ext (s.cells.size + 1) _ _ _ _ _ _ hl
    rw [e.keep s.cells.size (by omega) (by rw [hcells]; simp), hcells]
    simp
  simp only [Store.cloneIndexStack, bind_eq_ok] at h2
  obtain ⟨s2, hloop, c, hgt, h3⟩ := h2
  have hsize : s.cells.size < s1.cells.size := by
    rcases Nat.lt_or_ge s.cells.size s1.cells.size with h | h
    · exact h
    · rw [Array.getElem?_eq_none h] at hhead; cases hhead
  have hinv0 : CInv s.cells s1 s.cells.size s1.cells.size (s1.cells.size - s.cells.size) s1 := by
    refine ⟨?_, rfl, rfl, Nat.le_refl _, by omega, fun _ _ _ => rfl, ?_⟩
    · intro i c hc
      have hi : i < s.cells.size := by
        rcases Nat.lt_or_ge i s.cells.size with h | h
        · exact h
        · rw [Array.getElem?_eq_none h] at hc; cases hc
      rw [e1.keep i hi hi]; exact hc
    · intro j hj1 hj2; omega
  have hinv := cloneLoop_step_inv (Nat.le_refl _) hnl _ _ _ hinv0 (by simpa [Store.cursor] using hloop)
  -- the entry at the head of the list
  obtain ⟨o, n, hcell, hs1, hgood⟩ := hinv.done s.cells.size (by omega) hsize
  rw [hhead] at hs1
  simp only [Option.some.injEq, Cell.cloneItem.injEq] at hs1
  subst hs1
  have hc := get_ok hgt
  rw [hcell] at hc
  simp only [Option.some.injEq] at hc
  subst hc
  simp only [pure, Outcome.ok.injEq, Prod.mk.injEq] at h3
  obtain ⟨hs', hr⟩ := h3
  subst hs'; subst hr
  have hag : AgreeNC s.cells s2.cells := agreeNC_of_all hinv.agree0
  -- the bisimulation
  intro fuel
  refine bisim_unfold s.cells s2.cells
    (fun x x' => Dec s.cells x ∧ (x' = x ∨ ∃ j, s.cells.size ≤ j ∧ j < s1.cells.size ∧
      s2.cells[j]? = some (.cloneIndexMap x x'))) ?_ fuel a n ⟨hd, Or.inr ⟨_, Nat.le_refl _, hsize, hcell⟩⟩
  intro x x' ⟨hdx, hx⟩
  obtain ⟨sh, hsh, hk⟩ := hdx.shape
  have ident : ∃ s_1 s'_1, shape s.cells x = some s_1 ∧ shape s2.cells x = some s'_1 ∧ s_1.label = s'_1.label ∧
      s_1.inl = s'_1.inl ∧ AllRel (fun x x' => Dec s.cells x ∧ (x' = x ∨ ∃ j, s.cells.size ≤ j ∧ j < s1.cells.size ∧
        s2.cells[j]? = some (.cloneIndexMap x x'))) s_1.kids s'_1.kids :=
    ⟨sh, sh, hsh, shape_agree hag hsh, rfl, rfl, allRel_refl_of _ (fun k hkm => ⟨hk k hkm, Or.inl rfl⟩)⟩
  rcases hx with rfl | ⟨j, hj1, hj2, hjc⟩
  · exact ident
  · obtain ⟨o', n', hcell', _, hg⟩ := hinv.done j (by omega) hj2
    rw [hjc] at hcell'
    simp only [Option.some.injEq, Cell.cloneIndexMap.injEq] at hcell'
    obtain ⟨ho, hn⟩ := hcell'
    subst ho; subst hn
    rcases hg with rfl | hg
    · exact ident
    · obtain ⟨sh', g1, g2, g3, g4⟩ := hg sh hsh
      refine ⟨sh, sh', hsh, g1, g2.symm, g3.symm, AllRel.imp_mem (fun k k' hkm hl => ⟨hk k hkm, ?_⟩) g4⟩
      rcases hl with ⟨h1, _⟩ | ⟨j', h1, h2, h3⟩
      · exact Or.inl h1
      · exact Or.inr ⟨j', by omega, h2, h3⟩

end Garnish.BasicOpt
