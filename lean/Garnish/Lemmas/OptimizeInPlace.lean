/-
Retained input-value cells that were updated in place (`get_current_value_mut`: `update_value`, reapply, the
top-level `end_expression`) to refer to later data, and the re-pointing loop of `optimize` that repairs them.
Part 1: shapes are insensitive to stack-value cells, the input-value chain, what the re-pointing loop does.
-/
import Garnish.Lemmas.OptimizePreserve
set_option maxHeartbeats 1000000
namespace Garnish.BasicOpt
open Garnish

/-- a cell of the input-value stack -/
def isSV : Cell → Bool
  | .value _ _ => true
  | .valueRoot _ => true
  | _ => false

def svAt (cells : Array Cell) (i : Nat) : Bool :=
  match cells[i]? with
  | some c => isSV c
  | none => false

/-- every cell of `cells` other than an input-value cell is still there in `cells'` -/
def AgreeNS (cells cells' : Array Cell) : Prop :=
  ∀ (i : Nat) (c : Cell), cells[i]? = some c → isSV c = false → cells'[i]? = some c

theorem inlineCells_agreeS {cells cells' : Array Cell} (hag : AgreeNS cells cells') (p : Cell → Bool)
    (hp : ∀ c, p c = true → isSV c = false) :
    ∀ (n a : Nat) (l : List Cell), inlineCells cells p a n = some l → inlineCells cells' p a n = some l
  | 0, a, l, h => by simpa [inlineCells] using h
  | n + 1, a, l, h => by
    simp only [inlineCells] at h ⊢
    cases hc : cells[a]? with
    | none => simp [hc] at h
    | some c =>
      rw [hc] at h
      simp only at h
      split at h
      · rename_i hpc
        rw [hag a c hc (hp c hpc)]
        simp only [hpc, if_true]
        simp only [Option.map_eq_some_iff] at h ⊢
        obtain ⟨t, ht, rfl⟩ := h
        exact ⟨t, inlineCells_agreeS hag p hp n (a + 1) t ht, rfl⟩
      · simp at h

theorem listItems_agreeS {cells cells' : Array Cell} (hag : AgreeNS cells cells') :
    ∀ (n a : Nat) (l : List Nat), listItems cells a n = some l → listItems cells' a n = some l
  | 0, a, l, h => by simpa [listItems] using h
  | n + 1, a, l, h => by
    simp only [listItems] at h ⊢
    cases hc : cells[a]? with
    | none => simp [hc] at h
    | some c =>
      rw [hc] at h
      cases c <;> simp only [] at h <;> try (simp at h; done)
      rw [hag a _ hc rfl]
      simp only [Option.map_eq_some_iff] at h ⊢
      obtain ⟨t, ht, rfl⟩ := h
      exact ⟨t, listItems_agreeS hag n (a + 1) t ht, rfl⟩

theorem assocItems_agreeS {cells cells' : Array Cell} (hag : AgreeNS cells cells') :
    ∀ (n a : Nat) (l : List Cell × List Nat), assocItems cells a n = some l → assocItems cells' a n = some l
  | 0, a, l, h => by simpa [assocItems] using h
  | n + 1, a, l, h => by
    simp only [assocItems] at h ⊢
    cases hc : cells[a]? with
    | none => simp [hc] at h
    | some c =>
      rw [hc] at h
      cases c <;> simp only [] at h <;> try (simp at h; done)
      rw [hag a _ hc rfl]
      simp only [Option.map_eq_some_iff] at h ⊢
      obtain ⟨t, ht, rfl⟩ := h
      exact ⟨t, assocItems_agreeS hag n (a + 1) t ht, rfl⟩

theorem framePoint_agreeS {cells cells' : Array Cell} (hag : AgreeNS cells cells') {a : Nat} {c : Cell}
    (h : framePoint cells a = some c) : framePoint cells' a = some c := by
  cases a with
  | zero => simp [framePoint] at h
  | succ a =>
    simp only [framePoint] at h ⊢
    cases hc : cells[a]? with
    | none => simp [hc] at h
    | some d =>
      rw [hc] at h
      cases d <;> simp only [] at h <;> try (simp at h; done)
      rw [hag a _ hc rfl]
      exact h

/-- the shape of an address that is not an input-value cell does not depend on input-value cells -/
theorem shape_agreeS {cells cells' : Array Cell} (hag : AgreeNS cells cells') {a : Nat} {sh : Shape}
    (h : shape cells a = some sh) (hns : svAt cells a = false) : shape cells' a = some sh := by
  unfold shape at h ⊢
  cases hc : cells[a]? with
  | none => simp [hc] at h
  | some c =>
    rw [hc] at h
    simp only [svAt, hc] at hns
    cases c <;> simp only [] at h <;> try (simp at h; done)
    all_goals first
      | (simp [isSV] at hns; done)
      | skip
    all_goals rw [hag a _ hc rfl]
    all_goals simp only []
    all_goals first
      | exact h
      | (simp only [Option.map_eq_some_iff] at h ⊢
         obtain ⟨t, ht, rfl⟩ := h
         first
           | exact ⟨t, inlineCells_agreeS hag _ (by intro c hc; cases c <;> simp_all [isChar, isByte, isSymPart, isSV]) _ _ _ ht, rfl⟩
           | exact ⟨t, framePoint_agreeS hag ht, rfl⟩)
      | (split at h
         · rename_i items keys targets h1 h2
           rw [listItems_agreeS hag _ _ _ h1, assocItems_agreeS hag _ _ _ h2]
           exact h
         · simp at h)

/-! ### the input-value chain -/

/-- `j` lies on the chain of input-value cells that starts at `i` and follows the `previous` links -/
inductive OnChain (cells : Array Cell) : Nat → Nat → Prop where
  | here {i} : svAt cells i = true → OnChain cells i i
  | there {i p v j} : cells[i]? = some (.value p v) → OnChain cells p j → OnChain cells i j

/-- input-value cells: `previous` is a lower input-value cell -/
def ChainWF (cells : Array Cell) : Prop :=
  ∀ (i p v : Nat), cells[i]? = some (.value p v) → p < i ∧ svAt cells p = true

theorem OnChain.le {cells : Array Cell} (hw : ChainWF cells) {i j : Nat} (h : OnChain cells i j) : j ≤ i := by
  induction h with
  | here _ => exact Nat.le_refl _
  | there hc _ ih => have := (hw _ _ _ hc).1; omega

theorem OnChain.sv {cells : Array Cell} {i j : Nat} (h : OnChain cells i j) : svAt cells j = true := by
  induction h with
  | here h => exact h
  | there _ _ ih => exact ih

theorem OnChain.snoc {cells : Array Cell} (hw : ChainWF cells) {i j p v : Nat} (h : OnChain cells i j)
    (hc : cells[j]? = some (.value p v)) : OnChain cells i p := by
  induction h with
  | here _ => exact .there hc (.here (hw _ _ _ hc).2)
  | there hc' _ ih => exact .there hc' (ih hc)

/-- what the re-pointing loop leaves in a retained chain cell: the same cell with its `value` link looked up -/
def Repointed (s0 : Array Cell) (cur cur' : Store) (c0 cA j : Nat) : Prop :=
  (∃ p v v', s0[j]? = some (.value p v) ∧ cur'.cells[j]? = some (.value p v') ∧ Link cur c0 cA v v') ∨
  (∃ v v', s0[j]? = some (.valueRoot v) ∧ cur'.cells[j]? = some (.valueRoot v') ∧ Link cur c0 cA v v')

/-- one body of the re-pointing loop on an input-value cell -/
theorem repointStep_spec {s0 : Array Cell} {c0 cA r : Nat} {cur s1 : Store} {i : Nat} {nx : Option (Option Nat)}
    (hsv : svAt s0 i = true) (hcell : cur.cells[i]? = s0[i]?) (hret : cur.retention = r)
    (h : Store.repointStep (cur.start + c0) (cur.start + cA) cur i = .ok (s1, nx)) :
    Ext 0 cur s1 ∧ s1.cells.size = cur.cells.size ∧ (∀ j, j ≠ i → s1.cells[j]? = cur.cells[j]?) ∧
    (r ≤ i → s1.cells[i]? = cur.cells[i]?) ∧ (i < r → Repointed s0 cur s1 c0 cA i) ∧
    ((∃ p v, s0[i]? = some (.value p v) ∧ nx = some (some p)) ∨ (∃ v, s0[i]? = some (.valueRoot v) ∧ nx = some none)) := by
  simp only [Store.repointStep, bind_eq_ok] at h
  obtain ⟨c, hg, h2⟩ := h
  have hc := get_ok hg
  rw [hcell] at hc
  have hsvc : isSV c = true := by simpa [svAt, hc] using hsv
  cases c <;> simp only [isSV] at hsvc <;> try (cases hsvc; done)
  · -- Value(previous, value)
    rename_i p v
    simp only at h2
    split at h2
    · rename_i hcond
      simp only [bind_eq_ok, pure_eq_ok, Prod.mk.injEq] at h2
      obtain ⟨m, hm, s2, hset, hs2, hnx⟩ := h2
      subst hs2
      obtain ⟨hilt, hcells, hfr⟩ := setCell_cells hset
      have hl := lookup_link hm
      refine ⟨setCell_ext (Nat.zero_le _) hset, by rw [hcells]; simp, ?_, ?_, ?_, Or.inl ⟨p, v, hc, hnx.symm⟩⟩
      · intro j hj; rw [hcells]; simp [Ne.symm hj]
      · intro hri; rw [hret] at hcond; omega
      · intro _
        exact Or.inl ⟨p, v, m, hc, by rw [hcells]; simp [hilt], hl⟩
    · rename_i hcond
      simp only [pure_eq_ok, Prod.mk.injEq] at h2
      obtain ⟨hs2, hnx⟩ := h2
      subst hs2
      refine ⟨Ext.refl _ _, rfl, fun _ _ => rfl, fun _ => rfl, ?_, Or.inl ⟨p, v, hc, hnx.symm⟩⟩
      intro hir
      have hvr : v < cur.retention := by rw [hret] at hcond ⊢; omega
      exact Or.inl ⟨p, v, v, hc, by rw [hcell]; exact hc, Or.inl ⟨rfl, hvr⟩⟩
  · -- ValueRoot(value)
    rename_i v
    simp only at h2
    split at h2
    · rename_i hcond
      simp only [bind_eq_ok, pure_eq_ok, Prod.mk.injEq] at h2
      obtain ⟨m, hm, s2, hset, hs2, hnx⟩ := h2
      subst hs2
      obtain ⟨hilt, hcells, hfr⟩ := setCell_cells hset
      have hl := lookup_link hm
      refine ⟨setCell_ext (Nat.zero_le _) hset, by rw [hcells]; simp, ?_, ?_, ?_, Or.inr ⟨v, hc, hnx.symm⟩⟩
      · intro j hj; rw [hcells]; simp [Ne.symm hj]
      · intro hri; rw [hret] at hcond; omega
      · intro _
        exact Or.inr ⟨v, m, hc, by rw [hcells]; simp [hilt], hl⟩
    · rename_i hcond
      simp only [pure_eq_ok, Prod.mk.injEq] at h2
      obtain ⟨hs2, hnx⟩ := h2
      subst hs2
      refine ⟨Ext.refl _ _, rfl, fun _ _ => rfl, fun _ => rfl, ?_, Or.inr ⟨v, hc, hnx.symm⟩⟩
      intro hir
      have hvr : v < cur.retention := by rw [hret] at hcond ⊢; omega
      exact Or.inr ⟨v, v, hc, by rw [hcell]; exact hc, Or.inl ⟨rfl, hvr⟩⟩

theorem OnChain.root_only {cells : Array Cell} {i j v : Nat} (hc : cells[i]? = some (.valueRoot v))
    (h : OnChain cells i j) : j = i := by
  cases h with
  | here _ => rfl
  | there hc' _ => rw [hc] at hc'; cases hc'

theorem Repointed.mono {s0 : Array Cell} {cur cur1 cur' : Store} {c0 cA j : Nat}
    (hret : cur.retention = cur1.retention) (hcells : ∀ k, c0 ≤ k → k < cA → cur.cells[k]? = cur1.cells[k]?)
    (h : Repointed s0 cur1 cur' c0 cA j) : Repointed s0 cur cur' c0 cA j := by
  rcases h with ⟨p, v, v', h1, h2, h3⟩ | ⟨v, v', h1, h2, h3⟩
  · exact Or.inl ⟨p, v, v', h1, h2, Link.mono (Nat.le_refl _) hret (fun k a b => hcells k a b) h3⟩
  · exact Or.inr ⟨v, v', h1, h2, Link.mono (Nat.le_refl _) hret (fun k a b => hcells k a b) h3⟩

theorem Repointed.cell {s0 : Array Cell} {cur cur' cur'' : Store} {c0 cA j : Nat}
    (hsame : cur''.cells[j]? = cur'.cells[j]?) (h : Repointed s0 cur cur' c0 cA j) : Repointed s0 cur cur'' c0 cA j := by
  rcases h with ⟨p, v, v', h1, h2, h3⟩ | ⟨v, v', h1, h2, h3⟩
  · exact Or.inl ⟨p, v, v', h1, by rw [hsame]; exact h2, h3⟩
  · exact Or.inr ⟨v, v', h1, by rw [hsame]; exact h2, h3⟩

/-- **the re-pointing loop**: started at a chain cell `i` with at least `i` rounds to go, it leaves every cell that
is not a retained chain cell as it was, and every retained chain cell re-pointed along a link -/
theorem repointLoop_spec {s0 : Array Cell} (hw : ChainWF s0) {c0 cA r : Nat} (hrc0 : r ≤ c0) :
    ∀ (n : Nat) (cur cur' : Store) (i : Nat), i ≤ n → i < c0 → svAt s0 i = true →
      (∀ j, j ≤ i → cur.cells[j]? = s0[j]?) → cur.retention = r →
      Store.repointLoop (cur.start + c0) (cur.start + cA) n cur (some i) = .ok cur' →
        Ext 0 cur cur' ∧ cur'.cells.size = cur.cells.size ∧
        (∀ j, ¬ (OnChain s0 i j ∧ j < r) → cur'.cells[j]? = cur.cells[j]?) ∧
        (∀ j, OnChain s0 i j → j < r → Repointed s0 cur cur' c0 cA j) := by
  intro n
  induction n with
  | zero =>
    intro cur cur' i hin hic0 hsv hag hret h
    have hi0 : i = 0 := by omega
    subst hi0
    simp only [Store.repointLoop, bind_eq_ok, pure_eq_ok] at h
    obtain ⟨⟨s1, nx⟩, hstep, hs1⟩ := h
    subst hs1
    obtain ⟨hA, hB, hC, hD, hE, hF⟩ := repointStep_spec hsv (hag 0 (Nat.le_refl _)) hret hstep
    have honly : ∀ j, OnChain s0 0 j → j = 0 := by
      intro j hj
      have := hj.le hw; omega
    refine ⟨hA, hB, ?_, ?_⟩
    · intro j hj
      by_cases hj0 : j = 0
      · subst hj0
        exact hD (by
          rcases Nat.lt_or_ge 0 r with h | h
          · exact absurd ⟨OnChain.here hsv, h⟩ hj
          · exact h)
      · exact hC j hj0
    · intro j hj hjr
      have := honly j hj
      subst this
      exact hE hjr
  | succ n ih =>
    intro cur cur' i hin hic0 hsv hag hret h
    simp only [Store.repointLoop, bind_eq_ok] at h
    obtain ⟨⟨s1, nx⟩, hstep, hrest⟩ := h
    obtain ⟨hA, hB, hC, hD, hE, hF⟩ := repointStep_spec hsv (hag i (Nat.le_refl _)) hret hstep
    rcases hF with ⟨p, v, hci, hnx⟩ | ⟨v, hci, hnx⟩
    · -- `Value(previous, value)`: go on with `previous`
      subst hnx
      simp only at hrest
      obtain ⟨hpi, hsvp⟩ := hw i p v hci
      have hstart : s1.start = cur.start := hA.frame.2.1
      rw [← hstart] at hrest
      obtain ⟨iA, iB, iC, iD⟩ := ih s1 cur' p (by omega) (by omega) hsvp
        (fun j hj => by rw [hC j (by omega)]; exact hag j (by omega)) (hA.frame.1.trans hret) hrest
      have hnotp : ¬ OnChain s0 p i := fun hpc => by have := hpc.le hw; omega
      have hkeepI : cur'.cells[i]? = s1.cells[i]? := iC i (fun ⟨h1, _⟩ => hnotp h1)
      refine ⟨hA.trans iA, iB.trans hB, ?_, ?_⟩
      · intro j hj
        by_cases hji : j = i
        · subst hji
          rw [hkeepI]
          exact hD (by
            rcases Nat.lt_or_ge j r with h | h
            · exact absurd ⟨OnChain.here hsv, h⟩ hj
            · exact h)
        · rw [iC j (fun ⟨h1, h2⟩ => hj ⟨OnChain.there hci h1, h2⟩)]
          exact hC j hji
      · intro j hj hjr
        cases hj with
        | here _ => exact (hE hjr).cell hkeepI
        | there hci' hpj =>
          rw [hci] at hci'
          simp only [Option.some.injEq, Cell.value.injEq] at hci'
          obtain ⟨hp, _⟩ := hci'
          subst hp
          exact (iD j hpj hjr).mono (hA.frame.1).symm
            (fun k hk1 hk2 => (hC k (by omega)).symm)
    · -- `ValueRoot(value)`: the chain ends here
      subst hnx
      have hs1 : s1 = cur' := by
        cases n <;> (simp only [Store.repointLoop, Outcome.ok.injEq] at hrest; exact hrest)
      subst hs1
      refine ⟨hA, hB, ?_, ?_⟩
      · intro j hj
        by_cases hji : j = i
        · subst hji
          exact hD (by
            rcases Nat.lt_or_ge j r with h | h
            · exact absurd ⟨OnChain.here hsv, h⟩ hj
            · exact h)
        · exact hC j hji
      · intro j hj hjr
        have := hj.root_only hci
        subst this
        exact hE hjr

/-! ### the bisimulation with re-pointed cells -/

/-- structural hypotheses that let input-value cells refer to later data -/
structure OptHypV (s : Store) : Prop where
  listsWF : ListsWF s.cells
  /-- every node other than an input-value cell links downwards, and not to input-value cells -/
  nodeBack : ∀ (i : Nat) (sh : Shape), shape s.cells i = some sh → svAt s.cells i = false →
    ∀ k ∈ sh.kids, k < i ∧ svAt s.cells k = false
  /-- `previous` of an input-value cell is a lower input-value cell -/
  chain : ChainWF s.cells
  /-- the `value` of an input-value cell is not an input-value cell (it may lie anywhere: updated in place) -/
  valueData : ∀ (i p v : Nat), s.cells[i]? = some (.value p v) → svAt s.cells v = false
  rootData : ∀ (i v : Nat), s.cells[i]? = some (.valueRoot v) → svAt s.cells v = false
  extent : ∀ (i : Nat) (sh : Shape), i < s.retention → shape s.cells i = some sh →
    shape (s.cells.extract 0 s.retention) i = some sh

/-- on the chain below the current input-value head -/
def OnHead (cells : Array Cell) (head : Option Nat) (j : Nat) : Prop := ∃ h, head = some h ∧ OnChain cells h j

theorem sv_cell {cells : Array Cell} {x : Nat} (h : svAt cells x = true) :
    (∃ p v, cells[x]? = some (.value p v)) ∨ (∃ v, cells[x]? = some (.valueRoot v)) := by
  unfold svAt at h
  cases hc : cells[x]? with
  | none => simp [hc] at h
  | some c =>
    rw [hc] at h
    cases c <;> simp [isSV] at h
    · exact Or.inl ⟨_, _, rfl⟩
    · exact Or.inr ⟨_, rfl⟩

theorem kids_onHead {s : Store} (hy : OptHypV s) {head : Option Nat} {x : Nat} {sh : Shape}
    (hsh : shape s.cells x = some sh) (hx : svAt s.cells x = true → OnHead s.cells head x) :
    ∀ k ∈ sh.kids, svAt s.cells k = true → OnHead s.cells head k := by
  intro k hk hsvk
  cases hsx : svAt s.cells x with
  | false =>
    have := (hy.nodeBack x sh hsh hsx k hk).2
    rw [this] at hsvk; cases hsvk
  | true =>
    obtain ⟨h, hh, hch⟩ := hx hsx
    rcases sv_cell hsx with ⟨p, v, hc⟩ | ⟨v, hc⟩
    · have : sh = ⟨.value 0 0, [], [p, v]⟩ := solo_of_shape hc rfl hsh
      subst this
      simp at hk
      rcases hk with rfl | rfl
      · exact ⟨h, hh, hch.snoc hy.chain hc⟩
      · rw [hy.valueData x _ _ hc] at hsvk; cases hsvk
    · have : sh = ⟨.valueRoot 0, [], [v]⟩ := solo_of_shape hc rfl hsh
      subst this
      simp at hk
      subst hk
      rw [hy.rootData x _ hc] at hsvk; cases hsvk

/-- the link relation is a bisimulation between the block before and the compacted block, also when retained
input-value cells were re-pointed -/
theorem links_unfold_v {off : Nat} {s : Store} {V : Array Cell} {s5 s6 sR : Store} {c0 cA : Nat}
    (hy : OptHypV s) (hinv : CInv off s.cells s5 c0 cA 0 s6) (hr : s.retention ≤ cA) (hoff : off = cA - s.retention)
    (hret : s6.retention = s.retention)
    (hkeep : ∀ j, ¬ (OnHead s.cells s.currentValue j ∧ j < s.retention) → sR.cells[j]? = s6.cells[j]?)
    (hrep : ∀ j, OnHead s.cells s.currentValue j → j < s.retention → Repointed s.cells s6 sR c0 cA j)
    (hpre : ∀ i, i < s.retention → V[i]? = sR.cells[i]?) (hshift : Shift s6.cells V cA s.retention) :
    ∀ x x', Link s6 c0 cA x x' → Dec s.cells x → (svAt s.cells x = true → OnHead s.cells s.currentValue x) →
      ∀ fuel, unfold s.cells fuel x = unfold V fuel x' := by
  intro x x' hl hd hsvx fuel
  refine bisim_unfold s.cells V (fun x x' => Dec s.cells x ∧ Link s6 c0 cA x x' ∧
    (svAt s.cells x = true → OnHead s.cells s.currentValue x)) ?_ fuel x x' ⟨hd, hl, hsvx⟩
  intro x x' ⟨hdx, hlx, hsx⟩
  obtain ⟨sh, hsh, hk⟩ := hdx.shape
  have hkids := kids_onHead hy hsh hsx
  -- a retained address
  have retained : x < s.retention → ∃ s_1 s'_1, shape s.cells x = some s_1 ∧ shape V x = some s'_1 ∧
      s_1.label = s'_1.label ∧ s_1.inl = s'_1.inl ∧ AllRel (fun x x' => Dec s.cells x ∧ Link s6 c0 cA x x' ∧
        (svAt s.cells x = true → OnHead s.cells s.currentValue x)) s_1.kids s'_1.kids := by
    intro hxr
    cases hsvx' : svAt s.cells x with
    | false =>
      have h1 := hy.extent x sh hxr hsh
      have hag : AgreeNS (s.cells.extract 0 s.retention) V := by
        intro i c hc hns
        have hi : i < s.retention := by
          rcases Nat.lt_or_ge i s.retention with h | h
          · exact h
          · rw [Array.getElem?_eq_none (by simp [Array.size_extract]; omega)] at hc; cases hc
        rw [Array.getElem?_extract] at hc
        have hc' : i < min s.retention s.cells.size ∧ s.cells[i]? = some c := by simpa [hi] using hc
        rw [hpre i hi, hkeep i (fun ⟨⟨h, _, hch⟩, _⟩ => by
          have := hch.sv
          simp [svAt, hc'.2, hns] at this)]
        exact hinv.agree0 i c hc'.2
      have hns : svAt (s.cells.extract 0 s.retention) x = false := by
        have : (s.cells.extract 0 s.retention)[x]? = s.cells[x]? := by
          rw [Array.getElem?_extract]; simp; omega
        simpa [svAt, this] using hsvx'
      refine ⟨sh, sh, hsh, shape_agreeS hag h1 hns, rfl, rfl, allRel_refl_of _ (fun k hkm => ?_)⟩
      obtain ⟨hkx, hksv⟩ := hy.nodeBack x sh hsh hsvx' k hkm
      exact ⟨hk k hkm, Or.inl ⟨rfl, by rw [hret]; omega⟩, fun h => by rw [hksv] at h; cases h⟩
    | true =>
      have hon := hsx hsvx'
      have hVx : V[x]? = sR.cells[x]? := hpre x hxr
      rcases hrep x hon hxr with ⟨p, v, v', h1, h2, h3⟩ | ⟨v, v', h1, h2, h3⟩
      · have e : sh = ⟨.value 0 0, [], [p, v]⟩ := solo_of_shape h1 rfl hsh
        subst e
        have hpx := (hy.chain x p v h1).1
        refine ⟨_, ⟨.value 0 0, [], [p, v']⟩, hsh, shape_of_solo (by rw [hVx]; exact h2) rfl, rfl, rfl, ?_⟩
        refine AllRel.cons ⟨hk p (by simp), Or.inl ⟨rfl, by rw [hret]; omega⟩, hkids p (by simp)⟩
          (AllRel.cons ⟨hk v (by simp), h3, hkids v (by simp)⟩ AllRel.nil)
      · have e : sh = ⟨.valueRoot 0, [], [v]⟩ := solo_of_shape h1 rfl hsh
        subst e
        refine ⟨_, ⟨.valueRoot 0, [], [v']⟩, hsh, shape_of_solo (by rw [hVx]; exact h2) rfl, rfl, rfl, ?_⟩
        exact AllRel.cons ⟨hk v (by simp), h3, hkids v (by simp)⟩ AllRel.nil
  rcases hlx with ⟨rfl, hxr⟩ | ⟨j, hj1, hj2, hjc⟩
  · exact retained (by rw [hret] at hxr; exact hxr)
  · obtain ⟨o', n', hcell', _, hg⟩ := hinv.done j (by omega) hj2
    rw [hjc] at hcell'
    simp only [Option.some.injEq, Cell.cloneIndexMap.injEq] at hcell'
    obtain ⟨ho, hn⟩ := hcell'
    subst ho; subst hn
    rcases hg with ⟨rfl, hxr⟩ | ⟨ni, hni1, hni2, hg⟩
    · exact retained (by rw [hret] at hxr; exact hxr)
    · obtain ⟨sh', g1, g2, g3, g4⟩ := hg sh hsh
      have hno : framePoint s6.cells cA = none := by
        have hpos : c0 < cA := by omega
        obtain ⟨o2, n2, hc2, _, _⟩ := hinv.done (cA - 1) (by omega) (by omega)
        have e : cA = (cA - 1) + 1 := by omega
        rw [e]
        simp [framePoint, hc2]
      have e1 : ni = cA + (ni - cA) := by omega
      have e2 : x' = s.retention + (ni - cA) := by omega
      rw [e1] at g1
      have g1' := shape_shift hshift hno g1
      rw [← e2] at g1'
      exact ⟨sh, sh', hsh, g1', g2.symm, g3.symm,
        AllRel.imp_mem (fun k k' hkm hl => ⟨hk k hkm, hl, hkids k hkm⟩) g4⟩

/-- which addresses the heads, the roots and the symbol names may be: the input-value head is an input-value
cell, nothing else is -/
structure HeadsV (s : Store) (roots : List Nat) : Prop where
  reg : ∀ i, s.currentRegister = some i → svAt s.cells i = false
  val : ∀ i, s.currentValue = some i → svAt s.cells i = true
  frm : ∀ i, s.currentFrame = some i → svAt s.cells i = false
  roots : ∀ r ∈ roots, svAt s.cells r = false
  syms : ∀ (j sym di : Nat), s.symtab[j]? = some (.associativeItem sym di) → svAt s.cells di = false

/-- `LinksPreserved` when retained input-value cells may have been re-pointed -/
structure LinksPreservedV (s s' : Store) (roots m : List Nat) (L : Nat → Nat → Prop) : Prop where
  unfolds : ∀ x x', L x x' → Dec s.cells x → ∀ fuel, unfold s.cells fuel x = unfold s'.cells fuel x'
  register : HeadRel L s.currentRegister s'.currentRegister
  value : HeadRel L s.currentValue s'.currentValue
  frame : HeadRel L s.currentFrame s'.currentFrame
  rootsLen : m.length = roots.length
  roots : ∀ (k r : Nat), roots[k]? = some r → ∃ r', m[k]? = some r' ∧ L r r'
  symLen : s'.symtab.size = s.symtab.size
  syms : ∀ (j sym di : Nat), s.symtab[j]? = some (.associativeItem sym di) →
    ∃ di', s'.symtab[j]? = some (.associativeItem sym di') ∧ L di di'
  retention : s'.retention = s.retention
  /-- the retained prefix is unchanged cell for cell, except the cells of the input-value chain … -/
  retained : ∀ i, i < s.retention → ¬ OnHead s.cells s.currentValue i → s'.cells[i]? = s.cells[i]?
  /-- … which keep their kind and `previous`, and whose `value` is reported along a link -/
  repointed : ∀ i, i < s.retention → OnHead s.cells s.currentValue i →
    (∃ p v v', s.cells[i]? = some (.value p v) ∧ s'.cells[i]? = some (.value p v') ∧ L v v') ∨
    (∃ v v', s.cells[i]? = some (.valueRoot v) ∧ s'.cells[i]? = some (.valueRoot v') ∧ L v v')

theorem HeadRel.imp {L M : Nat → Nat → Prop} {o o' : Option Nat} (h : HeadRel L o o')
    (hi : ∀ i m, o = some i → L i m → M i m) : HeadRel M o o' := by
  rcases h with h | ⟨i, m, h1, h2, h3⟩
  · exact Or.inl h
  · exact Or.inr ⟨i, m, h1, h2, hi i m h1 h3⟩

/-- **`optimize` after its guard, with input-value cells updated in place** -/
theorem optimizeBody_links_v {s s' : Store} {roots m : List Nat}
    (h : Store.optimizeBody s roots = .ok (s', m)) (hr : s.retention ≤ s.cells.size) (hy : OptHypV s)
    (hh : HeadsV s roots) : ∃ L, LinksPreservedV s s' roots m L := by
  obtain ⟨s5, s6, sR, hinv, hc0A, hret6, hstart6, hval6, hR, tf, _, _⟩ := optimizeBody_core h hr hy.listsWF
  -- what the re-pointing loop did
  have hrepair : Ext 0 s6 sR ∧
      (∀ j, ¬ (OnHead s.cells s.currentValue j ∧ j < s.retention) → sR.cells[j]? = s6.cells[j]?) ∧
      (∀ j, OnHead s.cells s.currentValue j → j < s.retention → Repointed s.cells s6 sR s.cells.size s5.cells.size j) := by
    cases hcv : s.currentValue with
    | none =>
      rw [hcv] at hR
      have : sR = s6 := by
        cases hsz : s.cells.size <;> (rw [hsz] at hR; simp only [Store.repointLoop, Outcome.ok.injEq] at hR; exact hR.symm)
      subst this
      exact ⟨Ext.refl _ _, fun _ _ => rfl, fun j ⟨h, hh', _⟩ => by cases hh'⟩
    | some hd =>
      rw [hcv] at hR
      have hsv := hh.val hd hcv
      have hlt : hd < s.cells.size := by
        rcases sv_cell hsv with ⟨_, _, hc⟩ | ⟨_, hc⟩ <;>
        · rcases Nat.lt_or_ge hd s.cells.size with h | h
          · exact h
          · rw [Array.getElem?_eq_none h] at hc; cases hc
      obtain ⟨eA, _, eC, eD⟩ := repointLoop_spec hy.chain (c0 := s.cells.size) (cA := s5.cells.size) hr
        s.cells.size s6 sR hd (by omega) hlt hsv
        (fun j hj => by
          have hjl : j < s.cells.size := by omega
          obtain ⟨c, hc⟩ : ∃ c, s.cells[j]? = some c := ⟨s.cells[j], by simp [hjl]⟩
          rw [hc]; exact hinv.agree0 j c hc) hret6 hR
      refine ⟨eA, ?_, ?_⟩
      · intro j hj
        exact eC j (fun ⟨h1, h2⟩ => hj ⟨⟨hd, rfl, h1⟩, h2⟩)
      · intro j ⟨h', hh', hch⟩ hjr
        cases hh'
        exact eD j hch hjr
  obtain ⟨eR, hkeep, hrep⟩ := hrepair
  -- chain cells lie below the index list, so the index list and the copies are as the walk left them
  have hchainlt : ∀ j, OnHead s.cells s.currentValue j → j < s.cells.size := by
    intro j ⟨hd, _, hch⟩
    rcases sv_cell hch.sv with ⟨_, _, hc⟩ | ⟨_, hc⟩ <;>
    · rcases Nat.lt_or_ge j s.cells.size with h | h
      · exact h
      · rw [Array.getElem?_eq_none h] at hc; cases hc
  have hhigh : ∀ j, s.cells.size ≤ j → sR.cells[j]? = s6.cells[j]? :=
    fun j hj => hkeep j (fun ⟨h1, _⟩ => by have := hchainlt j h1; omega)
  have hlinkR : ∀ x x', Link sR s.cells.size s5.cells.size x x' → Link s6 s.cells.size s5.cells.size x x' :=
    fun x x' hl => Link.mono (Nat.le_refl _) eR.frame.1.symm (fun j hj1 _ => (hhigh j hj1).symm) hl
  have hshift6 : Shift s6.cells s'.cells s5.cells.size s.retention := by
    intro t
    rw [tf.shift t, hhigh _ (by omega)]
  have hunf := links_unfold_v (V := s'.cells) hy hinv (by omega) rfl hret6 hkeep hrep tf.pre hshift6
  refine ⟨fun x x' => Link s6 s.cells.size s5.cells.size x x' ∧
    (svAt s.cells x = true → OnHead s.cells s.currentValue x), ?_⟩
  refine ⟨fun x x' ⟨h1, h2⟩ hd fuel => hunf x x' h1 hd h2 fuel, ?_, ?_, ?_, tf.rootsLen, ?_, tf.symLen, ?_,
    tf.retention, ?_, ?_⟩
  · exact tf.register.imp (fun i m hi hl => ⟨hlinkR _ _ hl, fun h => by rw [hh.reg i hi] at h; cases h⟩)
  · exact tf.value.imp (fun i m hi hl => ⟨hlinkR _ _ hl, fun _ => ⟨i, hi, OnChain.here (hh.val i hi)⟩⟩)
  · exact tf.frame.imp (fun i m hi hl => ⟨hlinkR _ _ hl, fun h => by rw [hh.frm i hi] at h; cases h⟩)
  · intro k r hk
    obtain ⟨r', g1, g2⟩ := tf.roots k r hk
    exact ⟨r', g1, hlinkR _ _ g2, fun h => by rw [hh.roots r (List.mem_of_getElem? hk)] at h; cases h⟩
  · intro j sym di hj
    obtain ⟨di', g1, g2⟩ := tf.syms j sym di hj
    exact ⟨di', g1, hlinkR _ _ g2, fun h => by rw [hh.syms j sym di hj] at h; cases h⟩
  · intro i hi hnot
    rw [tf.pre i hi, hkeep i (fun ⟨h1, _⟩ => hnot h1)]
    have hlt : i < s.cells.size := by omega
    obtain ⟨c, hc⟩ : ∃ c, s.cells[i]? = some c := ⟨s.cells[i], by simp [hlt]⟩
    rw [hc]; exact hinv.agree0 i c hc
  · intro i hi hon
    have hsvk : ∀ v, (∃ p, s.cells[i]? = some (.value p v)) ∨ s.cells[i]? = some (.valueRoot v) →
        svAt s.cells v = false := by
      intro v hv
      rcases hv with ⟨p, hc⟩ | hc
      · exact hy.valueData i p v hc
      · exact hy.rootData i v hc
    rcases hrep i hon hi with ⟨p, v, v', h1, h2, h3⟩ | ⟨v, v', h1, h2, h3⟩
    · exact Or.inl ⟨p, v, v', h1, by rw [tf.pre i hi]; exact h2, h3,
        fun h => by rw [hsvk v (Or.inl ⟨p, h1⟩)] at h; cases h⟩
    · exact Or.inr ⟨v, v', h1, by rw [tf.pre i hi]; exact h2, h3,
        fun h => by rw [hsvk v (Or.inr h1)] at h; cases h⟩

end Garnish.BasicOpt
