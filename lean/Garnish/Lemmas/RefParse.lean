/-
Facts about the core operations of the reference parser (Garnish/Spec/RefParse.lean):
operator insertion (`absorb` / `attach`) and operand placement (`plug`) keep the in-order token sequence and the
precedence condition `PrecOK`.
-/
import Garnish.Spec.RefParse

namespace Garnish.Spec
open Garnish Garnish.Gen Garnish.Model.Parser

/-! ### in-order -/

theorem absorb_inorder (tbl : Table) (q : Nat) (rtl : Bool) (d : Definition) (k : Nat) :
    ∀ (t t' : RTree), absorb tbl q rtl d k t = some t' → t'.inorderToks = t.inorderToks ++ [k] := by
  intro t
  induction t with
  | nil => intro t' h; simp [absorb] at h
  | group gd gk inner _ => intro t' h; simp [absorb] at h
  | node l a ka r _ ihr =>
    intro t' h
    simp only [absorb] at h
    cases hr : absorb tbl q rtl d k r with
    | some r' =>
      simp only [hr, Option.some.injEq] at h
      subst h
      simp [RTree.inorderToks, ihr r' hr]
    | none =>
      simp only [hr] at h
      cases hp : tbl.prio a with
      | none => simp [hp] at h
      | some pa =>
        simp only [hp] at h
        split at h
        · simp only [Option.some.injEq] at h
          subst h
          simp [RTree.inorderToks]
        · simp at h

/-- an operator is appended to the in-order sequence -/
theorem attach_inorder (tbl : Table) (q : Nat) (rtl : Bool) (d : Definition) (k : Nat) (t : RTree) :
    (attach tbl q rtl d k t).inorderToks = t.inorderToks ++ [k] := by
  unfold attach
  cases h : absorb tbl q rtl d k t with
  | some t' => exact absorb_inorder tbl q rtl d k t t' h
  | none => simp [RTree.inorderToks]

/-- the right spine of `t` ends in an open operand position -/
def openSpine : RTree → Bool
  | .nil => true
  | .group _ _ _ => false
  | .node _ _ _ r => if r.isNil then true else openSpine r

theorem asProperty_inorder (x : RTree) : (asProperty x).inorderToks = x.inorderToks := by
  unfold asProperty
  split <;> simp [RTree.inorderToks]

/-- an operand is appended to the in-order sequence -/
theorem plug_inorder : ∀ (t x : RTree), openSpine t = true → (plug t x).inorderToks = t.inorderToks ++ x.inorderToks := by
  intro t
  induction t with
  | nil => intro x _; simp [plug, RTree.inorderToks]
  | group gd gk inner _ => intro x h; simp [openSpine] at h
  | node l a ka r _ ihr =>
    intro x h
    simp only [plug]
    cases hr : r.isNil with
    | true =>
      have : r = .nil := by cases r <;> simp_all [RTree.isNil]
      subst this
      simp only [if_true, RTree.inorderToks]
      split <;> simp [asProperty_inorder]
    | false =>
      simp only [openSpine, hr] at h
      simp only [Bool.false_eq_true, if_false, RTree.inorderToks, ihr x h]
      simp

/-! ### precedence -/

/-- every node below the same top keeps its top: `absorb` only rewrites the right spine below the root -/
theorem absorb_node_shape (tbl : Table) (q : Nat) (rtl : Bool) (d : Definition) (k : Nat) (l : RTree) (a : Definition)
    (ka : Nat) (r t' : RTree) (h : absorb tbl q rtl d k (.node l a ka r) = some t') : ∃ r', t' = .node l a ka r' := by
  simp only [absorb] at h
  cases hr : absorb tbl q rtl d k r with
  | some r' => simp only [hr, Option.some.injEq] at h; exact ⟨r', h.symm⟩
  | none =>
    simp only [hr] at h
    cases hp : tbl.prio a with
    | none => simp [hp] at h
    | some pa =>
      simp only [hp] at h
      split at h
      · simp only [Option.some.injEq] at h; exact ⟨_, h.symm⟩
      · simp at h

/-- if the walk passes the whole tree, no node of its right spine stops the operator -/
theorem absorb_none_spine (tbl : Table) (q : Nat) (rtl : Bool) (d : Definition) (k : Nat) :
    ∀ t : RTree, absorb tbl q rtl d k t = none → ∀ pa ∈ spinePrios tbl t, stops q rtl pa = false := by
  intro t
  induction t with
  | nil => intro _ pa hpa; simp [spinePrios] at hpa
  | group gd gk inner _ => intro _ pa hpa; simp [spinePrios] at hpa
  | node l a ka r _ ihr =>
    intro h pa hpa
    simp only [absorb] at h
    cases hr : absorb tbl q rtl d k r with
    | some r' => simp [hr] at h
    | none =>
      simp only [hr] at h
      simp only [spinePrios, List.mem_append] at hpa
      rcases hpa with hpa | hpa
      · cases hp : tbl.prio a with
        | none => simp [hp] at hpa
        | some pa' =>
          simp only [hp, Option.toList, List.mem_singleton] at hpa
          subst hpa
          simp only [hp] at h
          split at h
          · simp at h
          · rename_i hs; simpa using hs
      · exact ihr hr pa hpa

theorem absorb_precOK (tbl : Table) (rtlf : Definition → Bool) (q : Nat) (d : Definition) (k : Nat)
    (hq : tbl.prio d = some q) :
    ∀ (t t' : RTree), PrecOK tbl rtlf t → absorb tbl q (rtlf d) d k t = some t' → PrecOK tbl rtlf t' := by
  intro t
  induction t with
  | nil => intro t' _ h; simp [absorb] at h
  | group gd gk inner _ => intro t' _ h; simp [absorb] at h
  | node l a ka r _ ihr =>
    intro t' hok h
    cases hok with
    | node _ _ _ _ hl hr hL hR =>
      simp only [absorb] at h
      cases hab : absorb tbl q (rtlf d) d k r with
      | some r' =>
        simp only [hab, Option.some.injEq] at h
        subst h
        refine PrecOK.node l a ka r' hl (ihr r' hr hab) hL ?_
        intro lc dc kc rc pc pn hr' hlc hpc hpn
        cases r with
        | nil => simp [absorb] at hab
        | group gd gk inner => simp [absorb] at hab
        | node lr ar kr rr =>
          obtain ⟨rr', hshape⟩ := absorb_node_shape tbl q (rtlf d) d k lr ar kr rr r' hab
          rw [hshape] at hr'
          injection hr' with h1 h2 h3 h4
          subst h1; subst h2
          exact hR lr ar kr rr pc pn rfl hlc hpc hpn
      | none =>
        simp only [hab] at h
        cases hp : tbl.prio a with
        | none => simp [hp] at h
        | some pa =>
          simp only [hp] at h
          split at h
          · rename_i hs
            simp only [Option.some.injEq] at h
            subst h
            have hN : PrecOK tbl rtlf (.node r d k .nil) := by
              refine PrecOK.node r d k .nil hr PrecOK.nil ?_ ?_
              · intro pn hpn pa' hpa'
                rw [hq] at hpn
                injection hpn with hpn
                subst hpn
                exact absorb_none_spine tbl q (rtlf d) d k r hab pa' hpa'
              · intro lc dc kc rc pc pn hc; cases hc
            refine PrecOK.node l a ka _ hl hN hL ?_
            intro lc dc kc rc pc pn hc hlc hpc hpn
            injection hc with h1 h2 h3 h4
            subst h1; subst h2
            rw [hq] at hpc; injection hpc with hpc; subst hpc
            rw [hp] at hpn; injection hpn with hpn; subst hpn
            exact hs
          · simp at h

/-- inserting an operator keeps the precedence condition -/
theorem attach_precOK (tbl : Table) (rtlf : Definition → Bool) (q : Nat) (d : Definition) (k : Nat)
    (hq : tbl.prio d = some q) (t : RTree) (hok : PrecOK tbl rtlf t) :
    PrecOK tbl rtlf (attach tbl q (rtlf d) d k t) := by
  unfold attach
  cases h : absorb tbl q (rtlf d) d k t with
  | some t' => exact absorb_precOK tbl rtlf q d k hq t t' hok h
  | none =>
    refine PrecOK.node t d k .nil hok PrecOK.nil ?_ ?_
    · intro pn hpn pa hpa
      rw [hq] at hpn; injection hpn with hpn; subst hpn
      exact absorb_none_spine tbl q (rtlf d) d k t h pa hpa
    · intro lc dc kc rc pc pn hc; cases hc

/-- `x` is an operand: a value, a closed bracket, or a prefix operator (no left child) -/
def OperandLike (x : RTree) : Prop := ∀ lc dc kc rc, x = .node lc dc kc rc → lc.isNil = true

theorem asProperty_operandLike (x : RTree) (h : OperandLike x) : OperandLike (asProperty x) := by
  unfold asProperty
  split
  · intro lc dc kc rc hc; injection hc with h1; subst h1; rfl
  · exact h

theorem asProperty_precOK (tbl : Table) (rtlf : Definition → Bool) (x : RTree) (h : PrecOK tbl rtlf x) :
    PrecOK tbl rtlf (asProperty x) := by
  unfold asProperty
  split
  · refine PrecOK.node .nil _ _ .nil PrecOK.nil PrecOK.nil ?_ ?_
    · intro pn _ pa hpa; simp [spinePrios] at hpa
    · intro lc dc kc rc pc pn hc; cases hc
  · exact h

/-- placing an operand keeps the precedence condition -/
theorem plug_precOK (tbl : Table) (rtlf : Definition → Bool) :
    ∀ (t x : RTree), PrecOK tbl rtlf t → PrecOK tbl rtlf x → OperandLike x → PrecOK tbl rtlf (plug t x) := by
  intro t
  induction t with
  | nil => intro x _ hx _; simpa [plug] using hx
  | group gd gk inner _ => intro x ht _ _; simpa [plug] using ht
  | node l a ka r _ ihr =>
    intro x ht hx hop
    cases ht with
    | node _ _ _ _ hl hr hL hR =>
      simp only [plug]
      cases hrn : r.isNil with
      | true =>
        simp only [if_true]
        have hx' : PrecOK tbl rtlf (if a == .access then asProperty x else x) := by
          split
          · exact asProperty_precOK tbl rtlf x hx
          · exact hx
        have hop' : OperandLike (if a == .access then asProperty x else x) := by
          split
          · exact asProperty_operandLike x hop
          · exact hop
        refine PrecOK.node l a ka _ hl hx' hL ?_
        intro lc dc kc rc pc pn hc hlc _ _
        have := hop' lc dc kc rc hc
        rw [this] at hlc
        cases hlc
      | false =>
        simp only [Bool.false_eq_true, if_false]
        refine PrecOK.node l a ka _ hl (ihr x hr hx hop) hL ?_
        intro lc dc kc rc pc pn hc hlc hpc hpn
        cases r with
        | nil => simp [RTree.isNil] at hrn
        | group gd gk inner => simp [plug] at hc
        | node lr ar kr rr =>
          simp only [plug] at hc
          split at hc <;>
          · injection hc with h1 h2 h3 h4
            subst h1; subst h2
            exact hR lr ar kr rr pc pn rfl hlc hpc hpn

/-! ### the whole pass keeps `PrecOK` in every open bracket -/

/-- the table's right-to-left flag agrees with the syntactic class of every token type, `List` is left-to-right -/
structure RtlAgrees (tbl : Table) (rtlf : Definition → Bool) : Prop where
  tokens : ∀ tt, rtlf (tbl.define tt).1 = ((tbl.define tt).2 == .binaryRightToLeft)
  list : rtlf .list = false

def FramesOK (tbl : Table) (rtlf : Definition → Bool) (f : Frame) (stack : List Frame) : Prop :=
  PrecOK tbl rtlf f.cur ∧ ∀ g ∈ stack, PrecOK tbl rtlf g.cur

theorem leaf_precOK (tbl : Table) (rtlf : Definition → Bool) (d : Definition) (k : Nat) :
    PrecOK tbl rtlf (.node .nil d k .nil) := by
  refine PrecOK.node .nil d k .nil PrecOK.nil PrecOK.nil ?_ ?_
  · intro pn _ pa hpa; simp [spinePrios] at hpa
  · intro lc dc kc rc pc pn hc; cases hc

theorem leaf_operandLike (d : Definition) (k : Nat) : OperandLike (.node .nil d k .nil) := by
  intro lc dc kc rc hc; injection hc with h1; subst h1; rfl

theorem group_operandLike (d : Definition) (k : Nat) (inner : RTree) : OperandLike (.group d k inner) := by
  intro lc dc kc rc hc; cases hc

theorem beforeOperand_precOK (tbl : Table) (rtlf : Definition → Bool) (hr : RtlAgrees tbl rtlf) (f f' : Frame) (pos : Nat)
    (h : beforeOperand tbl f pos = .ok f') (hok : PrecOK tbl rtlf f.cur) : PrecOK tbl rtlf f'.cur := by
  unfold beforeOperand at h
  cases hl : f.last <;> simp only [hl] at h
  case suffix => cases h
  case operand =>
    split at h
    · split at h
      · rename_i q hq
        injection h with h; subst h
        have := attach_precOK tbl rtlf q .list (pos - 1) hq f.cur hok
        rw [hr.list] at this
        exact this
      · cases h
    · cases h
  all_goals (injection h with h; subst h; exact hok)

theorem bind_eq_ok {α β : Type} {x : Outcome α} {g : α → Outcome β} {y : β} (h : Outcome.bind x g = .ok y) :
    ∃ a, x = .ok a ∧ g a = .ok y := by
  cases x with
  | ok a => exact ⟨a, rfl, h⟩
  | err e => cases h
  | panic s => cases h
  | fuelOut => cases h

theorem refStep_precOK (tbl : Table) (rtlf : Definition → Bool) (hr : RtlAgrees tbl rtlf) (f : Frame) (stack : List Frame)
    (pos : Nat) (t : PToken) (rest : List PToken) (f' : Frame) (stack' : List Frame)
    (h : refStep tbl f stack pos t rest = .ok (f', stack')) (hok : FramesOK tbl rtlf f stack) :
    FramesOK tbl rtlf f' stack' := by
  unfold refStep at h
  have hrt := hr.tokens t.type
  generalize tbl.define t.type = ds at h hrt
  obtain ⟨d, s⟩ := ds
  simp only at h hrt
  obtain ⟨hcur, hstack⟩ := hok
  cases s <;> simp only at h
  case none => cases h
  case annotation => injection h with h; injection h with h1 h2; subst h1; subst h2; exact ⟨hcur, hstack⟩
  case whitespace => injection h with h; injection h with h1 h2; subst h1; subst h2; exact ⟨hcur, hstack⟩
  case value =>
    split at h
    · cases h
    · obtain ⟨f1, hb, h⟩ := bind_eq_ok h
      injection h with h; injection h with h1 h2; subst h1; subst h2
      exact ⟨plug_precOK tbl rtlf _ _ (beforeOperand_precOK tbl rtlf hr f f1 pos hb hcur) (leaf_precOK tbl rtlf _ _) (leaf_operandLike _ _), hstack⟩
  case identifier =>
    split at h
    · cases h
    · obtain ⟨f1, hb, h⟩ := bind_eq_ok h
      injection h with h; injection h with h1 h2; subst h1; subst h2
      exact ⟨plug_precOK tbl rtlf _ _ (beforeOperand_precOK tbl rtlf hr f f1 pos hb hcur) (leaf_precOK tbl rtlf _ _) (leaf_operandLike _ _), hstack⟩
  case unaryPrefix =>
    obtain ⟨f1, hb, h⟩ := bind_eq_ok h
    injection h with h; injection h with h1 h2; subst h1; subst h2
    exact ⟨plug_precOK tbl rtlf _ _ (beforeOperand_precOK tbl rtlf hr f f1 pos hb hcur) (leaf_precOK tbl rtlf _ _) (leaf_operandLike _ _), hstack⟩
  case startGrouping =>
    obtain ⟨f1, hb, h⟩ := bind_eq_ok h
    injection h with h; injection h with h1 h2; subst h1; subst h2
    refine ⟨PrecOK.nil, ?_⟩
    intro g hg
    rcases List.mem_cons.mp hg with hg | hg
    · subst hg; exact beforeOperand_precOK tbl rtlf hr f f1 pos hb hcur
    · exact hstack g hg
  case endGrouping =>
    split at h
    · rename_i gd gpos parent stack2 hctx
      split at h
      · cases h
      · split at h
        · cases h
        · injection h with h; injection h with h1 h2; subst h1; subst h2
          have hpar : PrecOK tbl rtlf parent.cur := hstack parent (List.mem_cons_self ..)
          refine ⟨plug_precOK tbl rtlf _ _ hpar (PrecOK.group _ _ _ hcur) (group_operandLike _ _ _), ?_⟩
          intro g hg
          exact hstack g (List.mem_cons_of_mem _ hg)
    · cases h
  case startSideEffect => cases h
  case endSideEffect => cases h
  case subexpression =>
    have hfalse : rtlf d = false := by rw [hrt]; rfl
    split at h
    · injection h with h; injection h with h1 h2; subst h1; subst h2; exact ⟨hcur, hstack⟩
    · split at h
      · injection h with h; injection h with h1 h2; subst h1; subst h2; exact ⟨hcur, hstack⟩
      · split at h
        · cases h
        · split at h
          · cases h
          · rename_i q hq
            injection h with h; injection h with h1 h2; subst h1; subst h2
            have := attach_precOK tbl rtlf q d pos hq f.cur hcur
            rw [hfalse] at this
            exact ⟨this, hstack⟩
  all_goals
    split at h
    · cases h
    · rename_i q hq
      split at h
      · cases h
      · injection h with h; injection h with h1 h2; subst h1; subst h2
        have := attach_precOK tbl rtlf q d pos hq f.cur hcur
        rw [hrt] at this
        exact ⟨this, hstack⟩

/-- every open bracket's tree satisfies `PrecOK` all along the pass, hence so does the result -/
theorem refLoop_precOK (tbl : Table) (rtlf : Definition → Bool) (hr : RtlAgrees tbl rtlf) :
    ∀ (toks : List PToken) (f : Frame) (stack : List Frame) (pos : Nat) (t : RTree),
      FramesOK tbl rtlf f stack → refLoop tbl f stack pos toks = .ok t → PrecOK tbl rtlf t := by
  intro toks
  induction toks with
  | nil =>
    intro f stack pos t hok h
    unfold refLoop at h
    split at h
    · cases h
    · split at h
      · cases h
      · injection h with h; subst h; exact hok.1
  | cons tk rest ih =>
    intro f stack pos t hok h
    unfold refLoop at h
    obtain ⟨⟨f', stack'⟩, hs, h⟩ := bind_eq_ok h
    exact ih f' stack' (pos + 1) t (refStep_precOK tbl rtlf hr f stack pos tk rest f' stack' hs hok) h

/-- **the reference parser only returns trees that satisfy the precedence condition** (whole reference grammar) -/
theorem refParse_precOK (tbl : Table) (rtlf : Definition → Bool) (hr : RtlAgrees tbl rtlf) (toks : List PToken) (t : RTree)
    (h : refParse tbl toks = .ok t) : PrecOK tbl rtlf t := by
  unfold refParse at h
  simp only at h
  split at h
  · injection h with h; subst h; exact PrecOK.nil
  · exact refLoop_precOK tbl rtlf hr _ Frame.top [] _ t ⟨PrecOK.nil, by intro g hg; cases hg⟩ h

/-! ### uniqueness: `PrecOK` determines the tree (atoms + binary operators, closed brackets as atoms) -/

theorem stops_false_le {q pa : Nat} {rtl : Bool} (h : stops q rtl pa = false) : pa ≤ q := by
  simp only [stops, Bool.or_eq_false_iff, decide_eq_false_iff_not] at h
  omega

theorem stops_true_le {q pa : Nat} {rtl : Bool} (h : stops q rtl pa = true) : q ≤ pa := by
  simp only [stops, Bool.or_eq_true, decide_eq_true_eq, Bool.and_eq_true, beq_iff_eq] at h
  omega

theorem stops_self {q : Nat} {rtl : Bool} : stops q rtl q = rtl := by
  simp [stops]

theorem items_leaf {l r : RTree} (d : Definition) (k : Nat) (h : (l.isNil && r.isNil) = true) :
    items (.node l d k r) = [.atom (.node l d k r)] := by
  simp [items, h]

theorem items_op {l r : RTree} (d : Definition) (k : Nat) (h : (l.isNil && r.isNil) = false) :
    items (.node l d k r) = items l ++ .op d k :: items r := by
  simp [items, h]

/-- every operator of `t` has a priority ≤ `n` -/
def OpsLe (tbl : Table) (t : RTree) (n : Nat) : Prop :=
  ∀ d k, Item.op d k ∈ items t → ∃ p, tbl.prio d = some p ∧ p ≤ n

theorem binFrag_not_nil {t : RTree} (h : binFrag t = true) : t.isNil = false := by
  cases t <;> simp_all [binFrag, RTree.isNil]

/-- in a `PrecOK` tree of the fragment priorities do not increase downwards -/
theorem opsLe_of_top (tbl : Table) (rtlf : Definition → Bool) :
    ∀ t : RTree, binFrag t = true → allPrio tbl t = true → PrecOK tbl rtlf t → ∀ n,
      (∀ l d k r p, t = .node l d k r → (l.isNil && r.isNil) = false → tbl.prio d = some p → p ≤ n) → OpsLe tbl t n := by
  intro t
  induction t with
  | nil => intro _ _ _ n _ d k hm; simp [items] at hm
  | group gd gk inner _ => intro _ _ _ n _ d k hm; simp [items] at hm
  | node l d k r ihl ihr =>
    intro hb ha hok n htop d' k' hm
    cases hleaf : (l.isNil && r.isNil) with
    | true => rw [items_leaf d k hleaf] at hm; simp at hm
    | false =>
      rw [items_op d k hleaf] at hm
      simp only [binFrag, hleaf, Bool.false_or, Bool.and_eq_true] at hb
      simp only [allPrio, Bool.and_eq_true] at ha
      obtain ⟨⟨hpd, hal⟩, har⟩ := ha
      obtain ⟨p, hp⟩ := Option.isSome_iff_exists.mp hpd
      have hpn : p ≤ n := htop l d k r p rfl hleaf hp
      cases hok with
      | node _ _ _ _ hl hr hL hR =>
        have hopl : OpsLe tbl l p := by
          apply ihl hb.1 hal hl p
          intro ll dl kl rl pl hl' _ hpl
          subst hl'
          have : pl ∈ spinePrios tbl (.node ll dl kl rl) := by simp [spinePrios, hpl]
          exact stops_false_le (hL p hp pl this)
        have hopr : OpsLe tbl r p := by
          apply ihr hb.2 har hr p
          intro lc dc kc rc pc hr' hnl hpc
          subst hr'
          have hbr := hb.2
          simp only [binFrag, hnl, Bool.false_or, Bool.and_eq_true] at hbr
          exact stops_true_le (hR lc dc kc rc pc p rfl (binFrag_not_nil hbr.1) hpc hp)
        simp only [List.mem_append, List.mem_cons] at hm
        rcases hm with hm | hm | hm
        · obtain ⟨p', hp', hle⟩ := hopl d' k' hm; exact ⟨p', hp', Nat.le_trans hle hpn⟩
        · injection hm with h1 h2; subst h1; exact ⟨p, hp, hpn⟩
        · obtain ⟨p', hp', hle⟩ := hopr d' k' hm; exact ⟨p', hp', Nat.le_trans hle hpn⟩

/-- facts about an operator node of the fragment -/
theorem node_facts (tbl : Table) (rtlf : Definition → Bool) (hc : Consistent tbl rtlf) (l : RTree) (d : Definition) (k : Nat)
    (r : RTree) (hleaf : (l.isNil && r.isNil) = false) (hb : binFrag (.node l d k r) = true)
    (ha : allPrio tbl (.node l d k r) = true) (hok : PrecOK tbl rtlf (.node l d k r)) :
    ∃ p, tbl.prio d = some p ∧ OpsLe tbl l p ∧ OpsLe tbl r p ∧
      (∀ d' k', Item.op d' k' ∈ items r → tbl.prio d' = some p → rtlf d' = true) ∧
      (∀ d' k', Item.op d' k' ∈ items l → tbl.prio d' = some p → rtlf d = false) := by
  have hb' := hb
  simp only [binFrag, hleaf, Bool.false_or, Bool.and_eq_true] at hb'
  have ha' := ha
  simp only [allPrio, Bool.and_eq_true] at ha'
  obtain ⟨⟨hpd, hal⟩, har⟩ := ha'
  obtain ⟨p, hp⟩ := Option.isSome_iff_exists.mp hpd
  have hall : OpsLe tbl (.node l d k r) p :=
    opsLe_of_top tbl rtlf _ hb ha hok p (by
      intro l' d' k' r' p' he _ hp'
      injection he with h1 h2 h3 h4
      subst h2
      rw [hp] at hp'; injection hp' with hp'; omega)
  have hopl : OpsLe tbl l p := by
    intro d' k' hm; exact hall d' k' (by rw [items_op d k hleaf]; simp [hm])
  have hopr : OpsLe tbl r p := by
    intro d' k' hm; exact hall d' k' (by rw [items_op d k hleaf]; simp [hm])
  cases hok with
  | node _ _ _ _ hl hr hL hR =>
    refine ⟨p, hp, hopl, hopr, ?_, ?_⟩
    · intro d' k' hm hp'
      cases r with
      | nil => simp [items] at hm
      | group gd gk inner => simp [items] at hm
      | node lc dc kc rc =>
        cases hlr : (lc.isNil && rc.isNil) with
        | true => rw [items_leaf dc kc hlr] at hm; simp at hm
        | false =>
          have hbr := hb'.2
          have hbr' := hbr
          simp only [binFrag, hlr, Bool.false_or, Bool.and_eq_true] at hbr'
          have har' := har
          simp only [allPrio, Bool.and_eq_true] at har'
          obtain ⟨pc, hpc⟩ := Option.isSome_iff_exists.mp har'.1.1
          have hstop := hR lc dc kc rc pc p rfl (binFrag_not_nil hbr'.1) hpc hp
          have h1 : pc ≤ p := stops_true_le hstop
          have hrall : OpsLe tbl (.node lc dc kc rc) pc :=
            opsLe_of_top tbl rtlf _ hbr har hr pc (by
              intro l' d'' k'' r' p'' he _ hp''
              injection he with e1 e2 e3 e4
              subst e2
              rw [hpc] at hp''; injection hp'' with hp''; omega)
          obtain ⟨p2, hp2, hle2⟩ := hrall d' k' hm
          rw [hp'] at hp2; injection hp2 with hp2; subst hp2
          have hpcp : pc = p := by omega
          subst hpcp
          rw [stops_self] at hstop
          rw [hc d' dc pc hp' hpc]; exact hstop
    · intro d' k' hm hp'
      cases l with
      | nil => simp [items] at hm
      | group gd gk inner => simp [items] at hm
      | node ll dl kl rl =>
        cases hll : (ll.isNil && rl.isNil) with
        | true => rw [items_leaf dl kl hll] at hm; simp at hm
        | false =>
          have hal' := hal
          simp only [allPrio, Bool.and_eq_true] at hal'
          obtain ⟨pl, hpl⟩ := Option.isSome_iff_exists.mp hal'.1.1
          have hmem : pl ∈ spinePrios tbl (.node ll dl kl rl) := by simp [spinePrios, hpl]
          have hns := hL p hp pl hmem
          have h1 : pl ≤ p := stops_false_le hns
          have hlall : OpsLe tbl (.node ll dl kl rl) pl :=
            opsLe_of_top tbl rtlf _ hb'.1 hal hl pl (by
              intro l' d'' k'' r' p'' he _ hp''
              injection he with e1 e2 e3 e4
              subst e2
              rw [hpl] at hp''; injection hp'' with hp''; omega)
          obtain ⟨p2, hp2, hle2⟩ := hlall d' k' hm
          rw [hp'] at hp2; injection hp2 with hp2; subst hp2
          have hplp : pl = p := by omega
          subst hplp
          rw [stops_self] at hns
          exact hns

theorem op_mem_items_isOp {t : RTree} {d : Definition} {k : Nat} (h : Item.op d k ∈ items t) :
    ∃ l d' k' r, t = .node l d' k' r ∧ (l.isNil && r.isNil) = false := by
  cases t with
  | nil => simp [items] at h
  | group gd gk inner => simp [items] at h
  | node l d' k' r =>
    cases hl : (l.isNil && r.isNil) with
    | true => rw [items_leaf d' k' hl] at h; simp at h
    | false => exact ⟨l, d', k', r, rfl, hl⟩

/-- **the precedence condition determines the tree**: two trees of the fragment (atoms, closed brackets as atoms, binary
    operators that all have a priority) with the same in-order item sequence that both satisfy `PrecOK` are equal,
    for any table in which operators of equal priority group the same way -/
theorem precOK_unique (tbl : Table) (rtlf : Definition → Bool) (hc : Consistent tbl rtlf) :
    ∀ (t1 t2 : RTree), binFrag t1 = true → binFrag t2 = true → allPrio tbl t1 = true → allPrio tbl t2 = true →
      PrecOK tbl rtlf t1 → PrecOK tbl rtlf t2 → items t1 = items t2 → t1 = t2 := by
  intro t1
  induction t1 with
  | nil => intro t2 hb1; simp [binFrag] at hb1
  | group gd gk inner _ =>
    intro t2 _ hb2 _ _ _ _ hi
    cases t2 with
    | nil => simp [binFrag] at hb2
    | group gd2 gk2 inner2 =>
      simp only [items, List.cons.injEq, and_true] at hi
      injection hi
    | node l2 d2 k2 r2 =>
      cases hl : (l2.isNil && r2.isNil) with
      | true => rw [items_leaf d2 k2 hl] at hi; simp [items] at hi
      | false =>
        have : Item.op d2 k2 ∈ items (RTree.group gd gk inner) := by rw [hi, items_op d2 k2 hl]; simp
        simp [items] at this
  | node l1 d1 k1 r1 ihl ihr =>
    intro t2 hb1 hb2 ha1 ha2 hok1 hok2 hi
    cases hl1 : (l1.isNil && r1.isNil) with
    | true =>
      rw [items_leaf d1 k1 hl1] at hi
      cases t2 with
      | nil => simp [binFrag] at hb2
      | group gd2 gk2 inner2 => simp [items] at hi
      | node l2 d2 k2 r2 =>
        cases hl2 : (l2.isNil && r2.isNil) with
        | true =>
          rw [items_leaf d2 k2 hl2] at hi
          simp only [List.cons.injEq, and_true] at hi
          injection hi
        | false =>
          have : Item.op d2 k2 ∈ [Item.atom (RTree.node l1 d1 k1 r1)] := by rw [hi, items_op d2 k2 hl2]; simp
          simp at this
    | false =>
      have hmem1 : Item.op d1 k1 ∈ items t2 := by rw [← hi, items_op d1 k1 hl1]; simp
      obtain ⟨l2, d2, k2, r2, ht2, hl2⟩ := op_mem_items_isOp hmem1
      subst ht2
      rw [items_op d1 k1 hl1, items_op d2 k2 hl2] at hi
      obtain ⟨p1, hp1, hopl1, hopr1, hR1, hL1⟩ := node_facts tbl rtlf hc l1 d1 k1 r1 hl1 hb1 ha1 hok1
      obtain ⟨p2, hp2, hopl2, hopr2, hR2, hL2⟩ := node_facts tbl rtlf hc l2 d2 k2 r2 hl2 hb2 ha2 hok2
      have hb1' := hb1
      simp only [binFrag, hl1, Bool.false_or, Bool.and_eq_true] at hb1'
      have hb2' := hb2
      simp only [binFrag, hl2, Bool.false_or, Bool.and_eq_true] at hb2'
      have ha1' := ha1
      simp only [allPrio, Bool.and_eq_true] at ha1'
      have ha2' := ha2
      simp only [allPrio, Bool.and_eq_true] at ha2'
      rcases List.append_eq_append_iff.mp hi with ⟨m, hm1, hm2⟩ | ⟨m, hm1, hm2⟩
      · -- items l2 = items l1 ++ m,  op1 :: items r1 = m ++ op2 :: items r2
        cases m with
        | nil =>
          simp only [List.append_nil, List.nil_append, List.cons.injEq] at hm1 hm2
          obtain ⟨hop, hr⟩ := hm2
          injection hop with e1 e2
          subst e1; subst e2
          cases hok1 with
          | node _ _ _ _ hl1' hr1' _ _ =>
            cases hok2 with
            | node _ _ _ _ hl2' hr2' _ _ =>
              rw [ihl l2 hb1'.1 hb2'.1 ha1'.1.2 ha2'.1.2 hl1' hl2' hm1.symm,
                  ihr r2 hb1'.2 hb2'.2 ha1'.2 ha2'.2 hr1' hr2' hr]
        | cons x m' =>
          simp only [List.cons_append, List.cons.injEq] at hm2
          obtain ⟨hx, hr⟩ := hm2
          subst hx
          have h2in : Item.op d2 k2 ∈ items r1 := by rw [hr]; simp
          have h1in : Item.op d1 k1 ∈ items l2 := by rw [hm1]; simp
          obtain ⟨q2, hq2, hle2⟩ := hopr1 d2 k2 h2in
          obtain ⟨q1, hq1, hle1⟩ := hopl2 d1 k1 h1in
          rw [hp2] at hq2; injection hq2 with hq2; subst hq2
          rw [hp1] at hq1; injection hq1 with hq1; subst hq1
          have : p1 = p2 := by omega
          subst this
          have t := hR1 d2 k2 h2in hp2
          have f := hL2 d1 k1 h1in hp1
          rw [t] at f; cases f
      · -- items l1 = items l2 ++ m,  op2 :: items r2 = m ++ op1 :: items r1
        cases m with
        | nil =>
          simp only [List.append_nil, List.nil_append, List.cons.injEq] at hm1 hm2
          obtain ⟨hop, hr⟩ := hm2
          injection hop with e1 e2
          subst e1; subst e2
          cases hok1 with
          | node _ _ _ _ hl1' hr1' _ _ =>
            cases hok2 with
            | node _ _ _ _ hl2' hr2' _ _ =>
              rw [ihl l2 hb1'.1 hb2'.1 ha1'.1.2 ha2'.1.2 hl1' hl2' hm1,
                  ihr r2 hb1'.2 hb2'.2 ha1'.2 ha2'.2 hr1' hr2' hr.symm]
        | cons x m' =>
          simp only [List.cons_append, List.cons.injEq] at hm2
          obtain ⟨hx, hr⟩ := hm2
          subst hx
          have h1in : Item.op d1 k1 ∈ items r2 := by rw [hr]; simp
          have h2in : Item.op d2 k2 ∈ items l1 := by rw [hm1]; simp
          obtain ⟨q1, hq1, hle1⟩ := hopr2 d1 k1 h1in
          obtain ⟨q2, hq2, hle2⟩ := hopl1 d2 k2 h2in
          rw [hp1] at hq1; injection hq1 with hq1; subst hq1
          rw [hp2] at hq2; injection hq2 with hq2; subst hq2
          have : p1 = p2 := by omega
          subst this
          have t := hR2 d1 k1 h1in hp1
          have f := hL1 d2 k2 h2in hp2
          rw [t] at f; cases f

/-! ### the in-order walk of the reference tree = the significant tokens, in source order (generated table) -/

theorem absorb_inorderSig (tbl : Table) (q : Nat) (rtl : Bool) (d : Definition) (k : Nat) :
    ∀ (t t' : RTree), absorb tbl q rtl d k t = some t' →
      t'.inorderSig = t.inorderSig ++ (if d == .list then [] else [k]) ∧ openSpine t' = true ∧ t'.isNil = false := by
  intro t
  induction t with
  | nil => intro t' h; simp [absorb] at h
  | group gd gk inner _ => intro t' h; simp [absorb] at h
  | node l a ka r _ ihr =>
    intro t' h
    simp only [absorb] at h
    cases hr : absorb tbl q rtl d k r with
    | some r' =>
      simp only [hr, Option.some.injEq] at h
      subst h
      obtain ⟨h1, h2, h3⟩ := ihr r' hr
      refine ⟨by simp [RTree.inorderSig, h1], ?_, rfl⟩
      simp [openSpine, h3, h2]
    | none =>
      simp only [hr] at h
      cases hp : tbl.prio a with
      | none => simp [hp] at h
      | some pa =>
        simp only [hp] at h
        split at h
        · simp only [Option.some.injEq] at h
          subst h
          exact ⟨by simp [RTree.inorderSig], by simp [openSpine, RTree.isNil], rfl⟩
        · simp at h

theorem attach_inorderSig (tbl : Table) (q : Nat) (rtl : Bool) (d : Definition) (k : Nat) (t : RTree) :
    (attach tbl q rtl d k t).inorderSig = t.inorderSig ++ (if d == .list then [] else [k]) ∧
      openSpine (attach tbl q rtl d k t) = true := by
  unfold attach
  cases h : absorb tbl q rtl d k t with
  | some t' => exact ⟨(absorb_inorderSig tbl q rtl d k t t' h).1, (absorb_inorderSig tbl q rtl d k t t' h).2.1⟩
  | none => exact ⟨by simp [RTree.inorderSig], by simp [openSpine, RTree.isNil]⟩

theorem asProperty_inorderSig (x : RTree) : (asProperty x).inorderSig = x.inorderSig := by
  unfold asProperty
  split <;> simp [RTree.inorderSig]

theorem plug_inorderSig : ∀ (t x : RTree), openSpine t = true → (plug t x).inorderSig = t.inorderSig ++ x.inorderSig := by
  intro t
  induction t with
  | nil => intro x _; simp [plug, RTree.inorderSig]
  | group gd gk inner _ => intro x h; simp [openSpine] at h
  | node l a ka r _ ihr =>
    intro x h
    simp only [plug]
    cases hr : r.isNil with
    | true =>
      have : r = .nil := by cases r <;> simp_all [RTree.isNil]
      subst this
      have hx : (if a == Definition.access then asProperty x else x).inorderSig = x.inorderSig := by
        split <;> simp [asProperty_inorderSig]
      simp only [if_true, RTree.inorderSig, hx]
      simp
    | false =>
      simp only [openSpine, hr] at h
      simp only [Bool.false_eq_true, if_false, RTree.inorderSig, ihr x h]
      simp

theorem plug_leaf_open : ∀ (t : RTree) (d : Definition) (k : Nat), openSpine t = true →
    openSpine (plug t (.node .nil d k .nil)) = true := by
  intro t
  induction t with
  | nil => intro d k _; simp [plug, openSpine, RTree.isNil]
  | group gd gk inner _ => intro d k h; simp [openSpine] at h
  | node l a ka r _ ihr =>
    intro d k h
    simp only [plug]
    cases hr : r.isNil with
    | true =>
      simp only [if_true]
      split
      · unfold asProperty; split <;> simp [openSpine, RTree.isNil]
      · simp [openSpine, RTree.isNil]
    | false =>
      simp only [openSpine, hr] at h
      simp only [Bool.false_eq_true, if_false, openSpine, ihr d k h]
      simp

/-- what the scan of `significant` does with a token, by the syntactic class the generated table gives it -/
theorem gen_class (tt : TokenType) :
    match (getDefinition tt).2 with
    | .whitespace | .annotation => isFiller tt = true
    | .value | .identifier | .unaryPrefix | .binaryLeftToRight | .binaryRightToLeft | .unarySuffix
    | .optionalBinaryLeftToRight =>
      isFiller tt = false ∧ isCloser tt = false ∧ openerOf tt = none ∧ isSeparator tt = false ∧
        ((getDefinition tt).1 == Definition.list) = false
    | .startGrouping =>
      isFiller tt = false ∧ isCloser tt = false ∧
        (((getDefinition tt).1 = .group ∧ openerOf tt = some .group) ∨
         ((getDefinition tt).1 = .nestedExpression ∧ openerOf tt = some .expr))
    | .endGrouping => isFiller tt = false ∧ isCloser tt = true
    | .subexpression =>
      isFiller tt = false ∧ isCloser tt = false ∧ openerOf tt = none ∧ isSeparator tt = true ∧
        ((getDefinition tt).1 == Definition.list) = false
    | _ => True := by
  cases tt <;> simp only [getDefinition] <;> decide

def bracketOfDef (d : Definition) : Bracket := if d == .group then .group else .expr

/-- the bracket stack of the scan that corresponds to the open frames -/
def brackets (ctx : Option (Definition × Nat)) : List Frame → List Bracket
  | [] => (ctx.map (fun c => bracketOfDef c.1)).toList
  | g :: rest => (ctx.map (fun c => bracketOfDef c.1)).toList ++ brackets g.ctx rest

/-- token positions collected so far, outermost bracket first -/
def pending (ctx : Option (Definition × Nat)) (cur : RTree) : List Frame → List Nat
  | [] => cur.inorderSig
  | g :: rest => pending g.ctx g.cur rest ++ (ctx.map (fun c => c.2)).toList ++ cur.inorderSig

def StackOK (ctx : Option (Definition × Nat)) : List Frame → Prop
  | [] => True
  | g :: rest => ctx.isSome = true ∧ openSpine g.cur = true ∧ StackOK g.ctx rest

def needOpen (f : Frame) : Prop := f.last = .operand ∨ f.last = .suffix ∨ openSpine f.cur = true

def red (p : PrevTok) : Bool := p == .sep || p == .openExpr

theorem pending_append (ctx : Option (Definition × Nat)) (cur cur' : RTree) (extra : List Nat) (stack : List Frame)
    (h : cur'.inorderSig = cur.inorderSig ++ extra) : pending ctx cur' stack = pending ctx cur stack ++ extra := by
  cases stack <;> simp [pending, h, List.append_assoc]

theorem beforeOperand_sig (f f1 : Frame) (pos : Nat) (h : beforeOperand Table.gen f pos = .ok f1) (hn : needOpen f) :
    f1.ctx = f.ctx ∧ f1.cur.inorderSig = f.cur.inorderSig ∧ openSpine f1.cur = true := by
  unfold beforeOperand at h
  cases hl : f.last <;> simp only [hl] at h
  case suffix => cases h
  case operand =>
    split at h
    · split at h
      · rename_i q hq
        injection h with h; subst h
        have := attach_inorderSig Table.gen q false .list (pos - 1) f.cur
        exact ⟨rfl, by simpa using this.1, this.2⟩
      · cases h
    · cases h
  all_goals
    injection h with h; subst h
    refine ⟨rfl, rfl, ?_⟩
    rcases hn with hn | hn | hn
    · rw [hl] at hn; cases hn
    · rw [hl] at hn; cases hn
    · exact hn

theorem head_brackets (ctx : Option (Definition × Nat)) (stack : List Frame) (h : StackOK ctx stack) (f : Frame)
    (hf : f.ctx = ctx) : ((brackets ctx stack).head? == some Bracket.group) = f.inGroup := by
  unfold Frame.inGroup
  rw [hf]
  cases ctx with
  | none =>
    cases stack with
    | nil => simp [brackets]
    | cons g rest => simp [StackOK] at h
  | some c =>
    obtain ⟨d, k⟩ := c
    cases stack <;> (simp only [brackets, Option.map, Option.toList, List.cons_append, List.nil_append, List.head?]; cases d <;> rfl)

theorem refStep_sig (f : Frame) (stack : List Frame) (pos : Nat) (t : PToken) (rest : List PToken) (f' : Frame)
    (stack' : List Frame) (prev : PrevTok)
    (h : refStep Table.gen f stack pos t rest = .ok (f', stack')) (hn : needOpen f) (hs : StackOK f.ctx stack)
    (hp : red prev = f.prevSep) :
    ∃ prev', needOpen f' ∧ StackOK f'.ctx stack' ∧ red prev' = f'.prevSep ∧
      pending f.ctx f.cur stack ++ significantScan (t :: rest) pos (brackets f.ctx stack) prev =
        pending f'.ctx f'.cur stack' ++ significantScan rest (pos + 1) (brackets f'.ctx stack') prev' := by
  unfold refStep at h
  have hc := gen_class t.type
  have hdef : Table.gen.define t.type = getDefinition t.type := rfl
  rw [hdef] at h
  generalize getDefinition t.type = ds at h hc
  obtain ⟨d, s⟩ := ds
  simp only at h hc
  cases s <;> simp only at h hc
  case none => cases h
  case annotation =>
    injection h with h; injection h with h1 h2; subst h1; subst h2
    exact ⟨prev, hn, hs, hp, by simp [significantScan, hc]⟩
  case whitespace =>
    injection h with h; injection h with h1 h2; subst h1; subst h2
    exact ⟨prev, hn, hs, hp, by simp [significantScan, hc]⟩
  case value =>
    obtain ⟨c1, c2, c3, c4, c5⟩ := hc
    split at h
    · cases h
    · obtain ⟨f1, hb, h⟩ := bind_eq_ok h
      injection h with h; injection h with h1 h2; subst h1; subst h2
      obtain ⟨e1, e2, e3⟩ := beforeOperand_sig f f1 pos hb hn
      refine ⟨.other, Or.inl rfl, by simpa [e1] using hs, rfl, ?_⟩
      have hsig : (plug f1.cur (RTree.node .nil d pos .nil)).inorderSig = f.cur.inorderSig ++ [pos] := by
        rw [plug_inorderSig _ _ e3, e2]; simp [RTree.inorderSig, c5]
      simp only [e1]
      rw [pending_append f.ctx f.cur _ [pos] stack hsig]
      simp [significantScan, c1, c2, c3, c4]
  case identifier =>
    obtain ⟨c1, c2, c3, c4, c5⟩ := hc
    split at h
    · cases h
    · obtain ⟨f1, hb, h⟩ := bind_eq_ok h
      injection h with h; injection h with h1 h2; subst h1; subst h2
      obtain ⟨e1, e2, e3⟩ := beforeOperand_sig f f1 pos hb hn
      refine ⟨.other, Or.inl rfl, by simpa [e1] using hs, rfl, ?_⟩
      have hsig : (plug f1.cur (RTree.node .nil d pos .nil)).inorderSig = f.cur.inorderSig ++ [pos] := by
        rw [plug_inorderSig _ _ e3, e2]; simp [RTree.inorderSig, c5]
      simp only [e1]
      rw [pending_append f.ctx f.cur _ [pos] stack hsig]
      simp [significantScan, c1, c2, c3, c4]
  case unaryPrefix =>
    obtain ⟨c1, c2, c3, c4, c5⟩ := hc
    obtain ⟨f1, hb, h⟩ := bind_eq_ok h
    injection h with h; injection h with h1 h2; subst h1; subst h2
    obtain ⟨e1, e2, e3⟩ := beforeOperand_sig f f1 pos hb hn
    refine ⟨.other, Or.inr (Or.inr (plug_leaf_open _ _ _ e3)), by simpa [e1] using hs, rfl, ?_⟩
    have hsig : (plug f1.cur (RTree.node .nil d pos .nil)).inorderSig = f.cur.inorderSig ++ [pos] := by
      rw [plug_inorderSig _ _ e3, e2]; simp [RTree.inorderSig, c5]
    simp only [e1]
    rw [pending_append f.ctx f.cur _ [pos] stack hsig]
    simp [significantScan, c1, c2, c3, c4]
  case startGrouping =>
    obtain ⟨c1, c2, c3⟩ := hc
    obtain ⟨f1, hb, h⟩ := bind_eq_ok h
    injection h with h; injection h with h1 h2; subst h1; subst h2
    obtain ⟨e1, e2, e3⟩ := beforeOperand_sig f f1 pos hb hn
    rcases c3 with ⟨hd, ho⟩ | ⟨hd, ho⟩
    · subst hd
      refine ⟨.other, Or.inr (Or.inr rfl), ⟨rfl, e3, by simpa [e1] using hs⟩, rfl, ?_⟩
      have this : pending f.ctx f1.cur stack = pending f.ctx f.cur stack :=
        (pending_append f.ctx f.cur f1.cur [] stack (by simp [e2])).trans (by simp)
      simp [significantScan, c1, c2, ho, pending, brackets, this, e1, bracketOfDef, RTree.inorderSig]
    · subst hd
      refine ⟨.openExpr, Or.inr (Or.inr rfl), ⟨rfl, e3, by simpa [e1] using hs⟩, rfl, ?_⟩
      have this : pending f.ctx f1.cur stack = pending f.ctx f.cur stack :=
        (pending_append f.ctx f.cur f1.cur [] stack (by simp [e2])).trans (by simp)
      simp [significantScan, c1, c2, ho, pending, brackets, this, e1, bracketOfDef, RTree.inorderSig]
  case endGrouping =>
    obtain ⟨c1, c2⟩ := hc
    split at h
    · rename_i gd gpos parent stack2 hctx
      split at h
      · cases h
      · split at h
        · cases h
        · injection h with h; injection h with h1 h2; subst h1; subst h2
          obtain ⟨_, hop, hrest⟩ := hs
          refine ⟨.other, Or.inl rfl, hrest, rfl, ?_⟩
          have hsig : (plug parent.cur (RTree.group gd gpos f.cur)).inorderSig
              = parent.cur.inorderSig ++ (gpos :: f.cur.inorderSig) := by
            rw [plug_inorderSig _ _ hop]; simp [RTree.inorderSig]
          simp only
          rw [pending_append parent.ctx parent.cur _ _ stack2 hsig, hctx]
          cases stack2 <;> simp [significantScan, c1, c2, pending, brackets, List.append_assoc]
    · cases h
  case startSideEffect => cases h
  case endSideEffect => cases h
  case subexpression =>
    obtain ⟨c1, c2, c3, c4, c5⟩ := hc
    have hhead := head_brackets f.ctx stack hs f rfl
    split at h
    · rename_i hg
      injection h with h; injection h with h1 h2; subst h1; subst h2
      refine ⟨prev, hn, hs, hp, ?_⟩
      simp [significantScan, c1, c2, c3, c4, hhead, hg]
    · rename_i hg
      split at h
      · rename_i hred
        injection h with h; injection h with h1 h2; subst h1; subst h2
        refine ⟨.sep, hn, hs, rfl, ?_⟩
        have hred' : (prev == PrevTok.sep || prev == PrevTok.openExpr ||
            (t.type == TokenType.subexpression && closerFollows rest)) = true := by
          have : red prev = (prev == PrevTok.sep || prev == PrevTok.openExpr) := rfl
          rw [← this, hp]; exact hred
        simp [significantScan, c1, c2, c3, c4, hhead, hg, hred']
      · rename_i hred
        split at h
        · cases h
        · split at h
          · cases h
          · rename_i q hq
            injection h with h; injection h with h1 h2; subst h1; subst h2
            have hat := attach_inorderSig Table.gen q false d pos f.cur
            refine ⟨.sep, Or.inr (Or.inr hat.2), hs, rfl, ?_⟩
            have hred' : (prev == PrevTok.sep || prev == PrevTok.openExpr ||
                (t.type == TokenType.subexpression && closerFollows rest)) = false := by
              have : red prev = (prev == PrevTok.sep || prev == PrevTok.openExpr) := rfl
              rw [← this, hp]; simpa using hred
            have hsig : (attach Table.gen q false d pos f.cur).inorderSig = f.cur.inorderSig ++ [pos] := by
              rw [hat.1]; simp [c5]
            simp only
            rw [pending_append f.ctx f.cur _ [pos] stack hsig]
            simp [significantScan, c1, c2, c3, c4, hhead, hg, hred']
  all_goals
    obtain ⟨c1, c2, c3, c4, c5⟩ := hc
    split at h
    · cases h
    · rename_i q hq
      split at h
      · cases h
      · injection h with h; injection h with h1 h2; subst h1; subst h2
        have hat := fun rtl => attach_inorderSig Table.gen q rtl d pos f.cur
        refine ⟨.other, Or.inr (Or.inr (hat _).2), hs, rfl, ?_⟩
        have hsig : ∀ rtl, (attach Table.gen q rtl d pos f.cur).inorderSig = f.cur.inorderSig ++ [pos] := by
          intro rtl; rw [(hat rtl).1]; simp [c5]
        simp only
        rw [pending_append f.ctx f.cur _ [pos] stack (hsig _)]
        simp [significantScan, c1, c2, c3, c4]

theorem refLoop_sig : ∀ (toks : List PToken) (f : Frame) (stack : List Frame) (pos : Nat) (t : RTree) (prev : PrevTok),
    needOpen f → StackOK f.ctx stack → red prev = f.prevSep → refLoop Table.gen f stack pos toks = .ok t →
      t.inorderSig = pending f.ctx f.cur stack ++ significantScan toks pos (brackets f.ctx stack) prev := by
  intro toks
  induction toks with
  | nil =>
    intro f stack pos t prev _ _ _ h
    unfold refLoop at h
    split at h
    · cases h
    · rename_i hst
      split at h
      · cases h
      · injection h with h; subst h
        have : stack = [] := by cases stack <;> simp_all
        subst this
        simp [pending, significantScan]
  | cons tk rest ih =>
    intro f stack pos t prev hn hs hp h
    unfold refLoop at h
    obtain ⟨⟨f', stack'⟩, hstep, h⟩ := bind_eq_ok h
    obtain ⟨prev', hn', hs', hp', heq⟩ := refStep_sig f stack pos tk rest f' stack' prev hstep hn hs hp
    rw [heq]
    exact ih f' stack' (pos + 1) t prev' hn' hs' hp' h

/-- **the in-order walk of the reference tree is exactly the significant tokens, in source order** -/
theorem refParse_inorder (toks : List PToken) (t : RTree) (h : refParse Table.gen toks = .ok t) :
    t.inorderSig = significant toks := by
  unfold refParse at h
  unfold significant
  simp only at h ⊢
  split at h
  · rename_i hge
    injection h with h; subst h
    simp [hge, RTree.inorderSig]
  · rename_i hge
    simp only [hge, if_false]
    have := refLoop_sig _ Frame.top [] _ t .start (Or.inr (Or.inr rfl)) trivial rfl h
    simpa [pending, brackets, Frame.top, RTree.inorderSig] using this

end Garnish.Spec
