/-
Facts about the core operations of the reference parser (Garnish/Spec/RefParse.lean):
operator insertion (`absorb` / `attach`) and operand placement (`plug`) keep the in-order token sequence and the
precedence condition `PrecOK`.
-/
import Garnish.Spec.RefParse

namespace Garnish.Spec
open Garnish Garnish.Gen Garnish.Model.Parser

/-! ### in-order -/

theorem absorb_inorder (tbl : Table) (q : Nat) (rtl : Bool) (d : Definition) (k : Nat) :
    ∀ (t t' : RTree), absorb tbl q rtl d k t = some t' → t'.inorderToks = t.inorderToks ++ [k] := by
  intro t
  induction t with
  | nil => intro t' h; simp [absorb] at h
  | group gd gk inner _ => intro t' h; simp [absorb] at h
  | node l a ka r _ ihr =>
    intro t' h
    simp only [absorb] at h
    cases hr : absorb tbl q rtl d k r with
    | some r' =>
      simp only [hr, Option.some.injEq] at h
      subst h
      simp [RTree.inorderToks, ihr r' hr]
    | none =>
      simp only [hr] at h
      cases hp : tbl.prio a with
      | none => simp [hp] at h
      | some pa =>
        simp only [hp] at h
        split at h
        · simp only [Option.some.injEq] at h
          subst h
          simp [RTree.inorderToks]
        · simp at h

/-- an operator is appended to the in-order sequence -/
theorem attach_inorder (tbl : Table) (q : Nat) (rtl : Bool) (d : Definition) (k : Nat) (t : RTree) :
    (attach tbl q rtl d k t).inorderToks = t.inorderToks ++ [k] := by
  unfold attach
  cases h : absorb tbl q rtl d k t with
  | some t' => exact absorb_inorder tbl q rtl d k t t' h
  | none => simp [RTree.inorderToks]

/-- the right spine of `t` ends in an open operand position -/
def openSpine : RTree → Bool
  | .nil => true
  | .group _ _ _ => false
  | .node _ _ _ r => if r.isNil then true else openSpine r

theorem asProperty_inorder (x : RTree) : (asProperty x).inorderToks = x.inorderToks := by
  unfold asProperty
  split <;> simp [RTree.inorderToks]

/-- an operand is appended to the in-order sequence -/
theorem plug_inorder : ∀ (t x : RTree), openSpine t = true → (plug t x).inorderToks = t.inorderToks ++ x.inorderToks := by
  intro t
  induction t with
  | nil => intro x _; simp [plug, RTree.inorderToks]
  | group gd gk inner _ => intro x h; simp [openSpine] at h
  | node l a ka r _ ihr =>
    intro x h
    simp only [plug]
    cases hr : r.isNil with
    | true =>
      have : r = .nil := by cases r <;> simp_all [RTree.isNil]
      subst this
      simp only [if_true, RTree.inorderToks]
      split <;> simp [asProperty_inorder]
    | false =>
      simp only [openSpine, hr] at h
      simp only [Bool.false_eq_true, if_false, RTree.inorderToks, ihr x h]
      simp

/-! ### precedence -/

/-- every node below the same top keeps its top: `absorb` only rewrites the right spine below the root -/
theorem absorb_node_shape (tbl : Table) (q : Nat) (rtl : Bool) (d : Definition) (k : Nat) (l : RTree) (a : Definition)
    (ka : Nat) (r t' : RTree) (h : absorb tbl q rtl d k (.node l a ka r) = some t') : ∃ r', t' = .node l a ka r' := by
  simp only [absorb] at h
  cases hr : absorb tbl q rtl d k r with
  | some r' => simp only [hr, Option.some.injEq] at h; exact ⟨r', h.symm⟩
  | none =>
    simp only [hr] at h
    cases hp : tbl.prio a with
    | none => simp [hp] at h
    | some pa =>
      simp only [hp] at h
      split at h
      · simp only [Option.some.injEq] at h; exact ⟨_, h.symm⟩
      · simp at h

/-- if the walk passes the whole tree, no node of its right spine stops the operator -/
theorem absorb_none_spine (tbl : Table) (q : Nat) (rtl : Bool) (d : Definition) (k : Nat) :
    ∀ t : RTree, absorb tbl q rtl d k t = none → ∀ pa ∈ spinePrios tbl t, stops q rtl pa = false := by
  intro t
  induction t with
  | nil => intro _ pa hpa; simp [spinePrios] at hpa
  | group gd gk inner _ => intro _ pa hpa; simp [spinePrios] at hpa
  | node l a ka r _ ihr =>
    intro h pa hpa
    simp only [absorb] at h
    cases hr : absorb tbl q rtl d k r with
    | some r' => simp [hr] at h
    | none =>
      simp only [hr] at h
      simp only [spinePrios, List.mem_append] at hpa
      rcases hpa with hpa | hpa
      · cases hp : tbl.prio a with
        | none => simp [hp] at hpa
        | some pa' =>
          simp only [hp, Option.toList, List.mem_singleton] at hpa
          subst hpa
          simp only [hp] at h
          split at h
          · simp at h
          · rename_i hs; simpa using hs
      · exact ihr hr pa hpa

theorem absorb_precOK (tbl : Table) (rtlf : Definition → Bool) (q : Nat) (d : Definition) (k : Nat)
    (hq : tbl.prio d = some q) :
    ∀ (t t' : RTree), PrecOK tbl rtlf t → absorb tbl q (rtlf d) d k t = some t' → PrecOK tbl rtlf t' := by
  intro t
  induction t with
  | nil => intro t' _ h; simp [absorb] at h
  | group gd gk inner _ => intro t' _ h; simp [absorb] at h
  | node l a ka r _ ihr =>
    intro t' hok h
    cases hok with
    | node _ _ _ _ hl hr hL hR =>
      simp only [absorb] at h
      cases hab : absorb tbl q (rtlf d) d k r with
      | some r' =>
        simp only [hab, Option.some.injEq] at h
        subst h
        refine PrecOK.node l a ka r' hl (ihr r' hr hab) hL ?_
        intro lc dc kc rc pc pn hr' hlc hpc hpn
        cases r with
        | nil => simp [absorb] at hab
        | group gd gk inner => simp [absorb] at hab
        | node lr ar kr rr =>
          obtain ⟨rr', hshape⟩ := absorb_node_shape tbl q (rtlf d) d k lr ar kr rr r' hab
          rw [hshape] at hr'
          injection hr' with h1 h2 h3 h4
          subst h1; subst h2
          exact hR lr ar kr rr pc pn rfl hlc hpc hpn
      | none =>
        simp only [hab] at h
        cases hp : tbl.prio a with
        | none => simp [hp] at h
        | some pa =>
          simp only [hp] at h
          split at h
          · rename_i hs
            simp only [Option.some.injEq] at h
            subst h
            have hN : PrecOK tbl rtlf (.node r d k .nil) := by
              refine PrecOK.node r d k .nil hr PrecOK.nil ?_ ?_
              · intro pn hpn pa' hpa'
                rw [hq] at hpn
                injection hpn with hpn
                subst hpn
                exact absorb_none_spine tbl q (rtlf d) d k r hab pa' hpa'
              · intro lc dc kc rc pc pn hc; cases hc
            refine PrecOK.node l a ka _ hl hN hL ?_
            intro lc dc kc rc pc pn hc hlc hpc hpn
            injection hc with h1 h2 h3 h4
            subst h1; subst h2
            rw [hq] at hpc; injection hpc with hpc; subst hpc
            rw [hp] at hpn; injection hpn with hpn; subst hpn
            exact hs
          · simp at h

/-- inserting an operator keeps the precedence condition -/
theorem attach_precOK (tbl : Table) (rtlf : Definition → Bool) (q : Nat) (d : Definition) (k : Nat)
    (hq : tbl.prio d = some q) (t : RTree) (hok : PrecOK tbl rtlf t) :
    PrecOK tbl rtlf (attach tbl q (rtlf d) d k t) := by
  unfold attach
  cases h : absorb tbl q (rtlf d) d k t with
  | some t' => exact absorb_precOK tbl rtlf q d k hq t t' hok h
  | none =>
    refine PrecOK.node t d k .nil hok PrecOK.nil ?_ ?_
    · intro pn hpn pa hpa
      rw [hq] at hpn; injection hpn with hpn; subst hpn
      exact absorb_none_spine tbl q (rtlf d) d k t h pa hpa
    · intro lc dc kc rc pc pn hc; cases hc

/-- `x` is an operand: a value, a closed bracket, or a prefix operator (no left child) -/
def OperandLike (x : RTree) : Prop := ∀ lc dc kc rc, x = .node lc dc kc rc → lc.isNil = true

theorem asProperty_operandLike (x : RTree) (h : OperandLike x) : OperandLike (asProperty x) := by
  unfold asProperty
  split
  · intro lc dc kc rc hc; injection hc with h1; subst h1; rfl
  · exact h

theorem asProperty_precOK (tbl : Table) (rtlf : Definition → Bool) (x : RTree) (h : PrecOK tbl rtlf x) :
    PrecOK tbl rtlf (asProperty x) := by
  unfold asProperty
  split
  · refine PrecOK.node .nil _ _ .nil PrecOK.nil PrecOK.nil ?_ ?_
    · intro pn _ pa hpa; simp [spinePrios] at hpa
    · intro lc dc kc rc pc pn hc; cases hc
  · exact h

/-- placing an operand keeps the precedence condition -/
theorem plug_precOK (tbl : Table) (rtlf : Definition → Bool) :
    ∀ (t x : RTree), PrecOK tbl rtlf t → PrecOK tbl rtlf x → OperandLike x → PrecOK tbl rtlf (plug t x) := by
  intro t
  induction t with
  | nil => intro x _ hx _; simpa [plug] using hx
  | group gd gk inner _ => intro x ht _ _; simpa [plug] using ht
  | node l a ka r _ ihr =>
    intro x ht hx hop
    cases ht with
    | node _ _ _ _ hl hr hL hR =>
      simp only [plug]
      cases hrn : r.isNil with
      | true =>
        simp only [if_true]
        have hx' : PrecOK tbl rtlf (if a == .access then asProperty x else x) := by
          split
          · exact asProperty_precOK tbl rtlf x hx
          · exact hx
        have hop' : OperandLike (if a == .access then asProperty x else x) := by
          split
          · exact asProperty_operandLike x hop
          · exact hop
        refine PrecOK.node l a ka _ hl hx' hL ?_
        intro lc dc kc rc pc pn hc hlc _ _
        have := hop' lc dc kc rc hc
        rw [this] at hlc
        cases hlc
      | false =>
        simp only [Bool.false_eq_true, if_false]
        refine PrecOK.node l a ka _ hl (ihr x hr hx hop) hL ?_
        intro lc dc kc rc pc pn hc hlc hpc hpn
        cases r with
        | nil => simp [RTree.isNil] at hrn
        | group gd gk inner => simp [plug] at hc
        | node lr ar kr rr =>
          simp only [plug] at hc
          split at hc <;>
          · injection hc with h1 h2 h3 h4
            subst h1; subst h2
            exact hR lr ar kr rr pc pn rfl hlc hpc hpn

/-! ### the whole pass keeps `PrecOK` in every open bracket -/

/-- the table's right-to-left flag agrees with the syntactic class of every token type, `List` is left-to-right -/
structure RtlAgrees (tbl : Table) (rtlf : Definition → Bool) : Prop where
  tokens : ∀ tt, rtlf (tbl.define tt).1 = ((tbl.define tt).2 == .binaryRightToLeft)
  list : rtlf .list = false

def FramesOK (tbl : Table) (rtlf : Definition → Bool) (f : Frame) (stack : List Frame) : Prop :=
  PrecOK tbl rtlf f.cur ∧ ∀ g ∈ stack, PrecOK tbl rtlf g.cur

theorem leaf_precOK (tbl : Table) (rtlf : Definition → Bool) (d : Definition) (k : Nat) :
    PrecOK tbl rtlf (.node .nil d k .nil) := by
  refine PrecOK.node .nil d k .nil PrecOK.nil PrecOK.nil ?_ ?_
  · intro pn _ pa hpa; simp [spinePrios] at hpa
  · intro lc dc kc rc pc pn hc; cases hc

theorem leaf_operandLike (d : Definition) (k : Nat) : OperandLike (.node .nil d k .nil) := by
  intro lc dc kc rc hc; injection hc with h1; subst h1; rfl

theorem group_operandLike (d : Definition) (k : Nat) (inner : RTree) : OperandLike (.group d k inner) := by
  intro lc dc kc rc hc; cases hc

theorem beforeOperand_precOK (tbl : Table) (rtlf : Definition → Bool) (hr : RtlAgrees tbl rtlf) (f f' : Frame) (pos : Nat)
    (h : beforeOperand tbl f pos = .ok f') (hok : PrecOK tbl rtlf f.cur) : PrecOK tbl rtlf f'.cur := by
  unfold beforeOperand at h
  cases hl : f.last <;> simp only [hl] at h
  case suffix => cases h
  case operand =>
    split at h
    · split at h
      · rename_i q hq
        injection h with h; subst h
        have := attach_precOK tbl rtlf q .list (pos - 1) hq f.cur hok
        rw [hr.list] at this
        exact this
      · cases h
    · cases h
  all_goals (injection h with h; subst h; exact hok)

theorem bind_eq_ok {α β : Type} {x : Outcome α} {g : α → Outcome β} {y : β} (h : Outcome.bind x g = .ok y) :
    ∃ a, x = .ok a ∧ g a = .ok y := by
  cases x with
  | ok a => exact ⟨a, rfl, h⟩
  | err e => cases h
  | panic s => cases h
  | fuelOut => cases h

theorem refStep_precOK (tbl : Table) (rtlf : Definition → Bool) (hr : RtlAgrees tbl rtlf) (f : Frame) (stack : List Frame)
    (pos : Nat) (t : PToken) (rest : List PToken) (f' : Frame) (stack' : List Frame)
    (h : refStep tbl f stack pos t rest = .ok (f', stack')) (hok : FramesOK tbl rtlf f stack) :
    FramesOK tbl rtlf f' stack' := by
  unfold refStep at h
  have hrt := hr.tokens t.type
  generalize tbl.define t.type = ds at h hrt
  obtain ⟨d, s⟩ := ds
  simp only at h hrt
  obtain ⟨hcur, hstack⟩ := hok
  cases s <;> simp only at h
  case none => cases h
  case annotation => injection h with h; injection h with h1 h2; subst h1; subst h2; exact ⟨hcur, hstack⟩
  case whitespace => injection h with h; injection h with h1 h2; subst h1; subst h2; exact ⟨hcur, hstack⟩
  case value =>
    split at h
    · cases h
    · obtain ⟨f1, hb, h⟩ := bind_eq_ok h
      injection h with h; injection h with h1 h2; subst h1; subst h2
      exact ⟨plug_precOK tbl rtlf _ _ (beforeOperand_precOK tbl rtlf hr f f1 pos hb hcur) (leaf_precOK tbl rtlf _ _) (leaf_operandLike _ _), hstack⟩
  case identifier =>
    split at h
    · cases h
    · obtain ⟨f1, hb, h⟩ := bind_eq_ok h
      injection h with h; injection h with h1 h2; subst h1; subst h2
      exact ⟨plug_precOK tbl rtlf _ _ (beforeOperand_precOK tbl rtlf hr f f1 pos hb hcur) (leaf_precOK tbl rtlf _ _) (leaf_operandLike _ _), hstack⟩
  case unaryPrefix =>
    obtain ⟨f1, hb, h⟩ := bind_eq_ok h
    injection h with h; injection h with h1 h2; subst h1; subst h2
    exact ⟨plug_precOK tbl rtlf _ _ (beforeOperand_precOK tbl rtlf hr f f1 pos hb hcur) (leaf_precOK tbl rtlf _ _) (leaf_operandLike _ _), hstack⟩
  case startGrouping =>
    obtain ⟨f1, hb, h⟩ := bind_eq_ok h
    injection h with h; injection h with h1 h2; subst h1; subst h2
    refine ⟨PrecOK.nil, ?_⟩
    intro g hg
    rcases List.mem_cons.mp hg with hg | hg
    · subst hg; exact beforeOperand_precOK tbl rtlf hr f f1 pos hb hcur
    · exact hstack g hg
  case endGrouping =>
    split at h
    · rename_i gd gpos parent stack2 hctx
      split at h
      · cases h
      · split at h
        · cases h
        · injection h with h; injection h with h1 h2; subst h1; subst h2
          have hpar : PrecOK tbl rtlf parent.cur := hstack parent (List.mem_cons_self ..)
          refine ⟨plug_precOK tbl rtlf _ _ hpar (PrecOK.group _ _ _ hcur) (group_operandLike _ _ _), ?_⟩
          intro g hg
          exact hstack g (List.mem_cons_of_mem _ hg)
    · cases h
  case startSideEffect => cases h
  case endSideEffect => cases h
  case subexpression =>
    have hfalse : rtlf d = false := by rw [hrt]; rfl
    split at h
    · injection h with h; injection h with h1 h2; subst h1; subst h2; exact ⟨hcur, hstack⟩
    · split at h
      · injection h with h; injection h with h1 h2; subst h1; subst h2; exact ⟨hcur, hstack⟩
      · split at h
        · cases h
        · split at h
          · cases h
          · rename_i q hq
            injection h with h; injection h with h1 h2; subst h1; subst h2
            have := attach_precOK tbl rtlf q d pos hq f.cur hcur
            rw [hfalse] at this
            exact ⟨this, hstack⟩
  all_goals
    split at h
    · cases h
    · rename_i q hq
      split at h
      · cases h
      · injection h with h; injection h with h1 h2; subst h1; subst h2
        have := attach_precOK tbl rtlf q d pos hq f.cur hcur
        rw [hrt] at this
        exact ⟨this, hstack⟩

/-- every open bracket's tree satisfies `PrecOK` all along the pass, hence so does the result -/
theorem refLoop_precOK (tbl : Table) (rtlf : Definition → Bool) (hr : RtlAgrees tbl rtlf) :
    ∀ (toks : List PToken) (f : Frame) (stack : List Frame) (pos : Nat) (t : RTree),
      FramesOK tbl rtlf f stack → refLoop tbl f stack pos toks = .ok t → PrecOK tbl rtlf t := by
  intro toks
  induction toks with
  | nil =>
    intro f stack pos t hok h
    unfold refLoop at h
    split at h
    · cases h
    · split at h
      · cases h
      · injection h with h; subst h; exact hok.1
  | cons tk rest ih =>
    intro f stack pos t hok h
    unfold refLoop at h
    obtain ⟨⟨f', stack'⟩, hs, h⟩ := bind_eq_ok h
    exact ih f' stack' (pos + 1) t (refStep_precOK tbl rtlf hr f stack pos tk rest f' stack' hs hok) h

/-- **the reference parser only returns trees that satisfy the precedence condition** (whole reference grammar) -/
theorem refParse_precOK (tbl : Table) (rtlf : Definition → Bool) (hr : RtlAgrees tbl rtlf) (toks : List PToken) (t : RTree)
    (h : refParse tbl toks = .ok t) : PrecOK tbl rtlf t := by
  unfold refParse at h
  simp only at h
  split at h
  · injection h with h; subst h; exact PrecOK.nil
  · exact refLoop_precOK tbl rtlf hr _ Frame.top [] _ t ⟨PrecOK.nil, by intro g hg; cases hg⟩ h

end Garnish.Spec
