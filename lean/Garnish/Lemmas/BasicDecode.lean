/-
`Decodes` (Model/Equality.lean, over `basicView`) and the structural read-back `decode` (Store/BasicCells.lean):
whatever `decode` reads back at an address, the address `Decodes` to it (`decodes_of_decode`), on heaps whose
concatenation cells link downwards (every `WF` / `WFq` store).
-/
import Garnish.Lemmas.BasicLaws2
set_option linter.unusedSimpArgs false
set_option maxHeartbeats 2000000
namespace Garnish.Lemmas.Runtime.Basic
open Garnish Gen Garnish.Model.Equality Garnish.Model.Runtime Garnish.Model.Runtime.Basic Garnish.BasicOpt
open Garnish.Lemmas.Runtime Garnish.Lemmas.EqualityRefine

variable {F : Type} (numOf : Nat → Number F)

theorem listItems_length {cells : Array Cell} : ∀ (n a : Nat) (items : List Nat), listItems cells a n = some items →
    items.length = n
  | 0, _, items, h => by simp only [listItems, Option.some.injEq] at h; rw [← h]; rfl
  | n + 1, a, items, h => by
    simp only [listItems] at h
    cases hc : cells[a]? with
    | none => simp [hc] at h
    | some c =>
      rw [hc] at h
      cases c <;> simp only [] at h <;> try (cases h; done)
      simp only [Option.map_eq_some_iff] at h
      obtain ⟨l, hl, rfl⟩ := h
      simp [listItems_length n _ l hl]

theorem decodesList_take {view : StoreView F} : ∀ (xs ys : List Nat) (vs : List (Val F)),
    DecodesList view (xs ++ ys) vs → DecodesList view xs (vs.take xs.length)
  | [], _, _, _ => by simpa using DecodesList.nil
  | x :: xs, ys, vs, h => by
    cases h with
    | cons hd tl => simpa using DecodesList.cons hd (decodesList_take xs ys _ tl)

/-- the kids of a node, decoded one by one -/
theorem decodesList_of {cells : Array Cell} {f : Nat}
    (ih : ∀ a v, decode numOf cells f a = some v → Decodes (basicView numOf cells) a v) :
    ∀ (as : List Nat) (ts : List Tree) (vs : List (Val F)), allSome (unfold cells f) as = some ts →
      Tree.toVals numOf ts = some vs → DecodesList (basicView numOf cells) as vs
  | [], ts, vs, h1, h2 => by
    simp only [allSome, Option.some.injEq] at h1
    subst h1
    simp only [Tree.toVals, Option.some.injEq] at h2
    subst h2
    exact .nil
  | a :: as, ts, vs, h1, h2 => by
    simp only [allSome] at h1
    cases hu : unfold cells f a with
    | none => simp [hu] at h1
    | some t =>
      cases hr : allSome (unfold cells f) as with
      | none => simp [hu, hr] at h1
      | some ts' =>
        simp only [hu, hr, Option.some.injEq] at h1
        subst h1
        simp only [Tree.toVals] at h2
        cases hv : Tree.toVal numOf t with
        | none => simp [hv] at h2
        | some v =>
          cases hvs : Tree.toVals numOf ts' with
          | none => simp [hv, hvs] at h2
          | some vs' =>
            simp only [hv, hvs, Option.some.injEq] at h2
            subst h2
            exact .cons (ih a v (by simp [decode, hu, hv])) (decodesList_of ih as ts' vs' hr hvs)

/-- two kids -/
theorem two_kids {cells : Array Cell} {f : Nat}
    (ih : ∀ a v, decode numOf cells f a = some v → Decodes (basicView numOf cells) a v)
    {l r : Nat} {ts : List Tree} {vs : List (Val F)} (h1 : allSome (unfold cells f) [l, r] = some ts)
    (h2 : Tree.toVals numOf ts = some vs) :
    ∃ x y, vs = [x, y] ∧ Decodes (basicView numOf cells) l x ∧ Decodes (basicView numOf cells) r y := by
  have := decodesList_of numOf ih [l, r] ts vs h1 h2
  cases this with
  | cons hl tl =>
    cases tl with
    | cons hr tl2 =>
      cases tl2
      exact ⟨_, _, rfl, hl, hr⟩

/-- **what `decode` reads back is what the address `Decodes` to** -/
theorem decodes_of_decode {cells : Array Cell}
    (hcat : ∀ (a l r : Nat), cells[a]? = some (Cell.concatenation l r) → l < a ∧ r < a) :
    ∀ (fuel a : Nat) (v : Val F), decode numOf cells fuel a = some v → Decodes (basicView numOf cells) a v
  | 0, a, v, h => by simp [decode, unfold] at h
  | f + 1, a, v, h => by
    have ih := decodes_of_decode hcat f
    simp only [decode, unfold] at h
    cases hs : shape cells a with
    | none => simp [hs] at h
    | some sh =>
      simp only [hs] at h
      cases hk : allSome (unfold cells f) sh.kids with
      | none => simp [hk] at h
      | some ts =>
        simp only [hk, Option.map_some, Option.bind_some] at h
        obtain ⟨c, hc⟩ := shape_cell hs
        unfold shape at hs
        rw [hc] at hs
        cases c <;> simp only [] at hs <;> try (cases hs; done)
        -- leaves
        all_goals try (
          simp only [Option.some.injEq] at hs
          subst hs
          simp only [Tree.toVal, Option.some.injEq] at h
          first
            | (cases h; done)
            | (subst h
               first
                 | exact .unit (by simp [bv_typeOf, hc, cellTy])
                 | exact .tru (by simp [bv_typeOf, hc, cellTy])
                 | exact .fls (by simp [bv_typeOf, hc, cellTy])
                 | exact .type (by simp [bv_typeOf, hc, cellTy]) (by simp [bv_type_, hc])
                 | exact .num (by simp [bv_typeOf, hc, cellTy]) (by simp [bv_number, hc])
                 | exact .char (by simp [bv_typeOf, hc, cellTy]) (by simp [bv_char, hc])
                 | exact .byte (by simp [bv_typeOf, hc, cellTy]) (by simp [bv_byte, hc])
                 | exact .sym (by simp [bv_typeOf, hc, cellTy]) (by simp [bv_symbol, hc])
                 | exact .expr (by simp [bv_typeOf, hc, cellTy]) (by simp [bv_expression, hc])
                 | exact .ext (by simp [bv_typeOf, hc, cellTy]) (by simp [bv_external, hc])
                 | exact .custom (by simp [bv_typeOf, hc, cellTy])))
        -- text, bytes, symbol lists
        all_goals try (
          simp only [Option.map_eq_some_iff] at hs
          obtain ⟨inl, hinl, rfl⟩ := hs
          simp only [Tree.toVal, Option.some.injEq] at h
          first
            | (cases h; done)
            | (subst h
               first
                 | exact .chars (by simp [bv_typeOf, hc, cellTy]) (by simp [bv_chars, hc, hinl])
                 | exact .bytes (by simp [bv_typeOf, hc, cellTy]) (by simp [bv_bytes, hc, hinl])
                 | exact .symList (by simp [bv_typeOf, hc, cellTy]) (by simp [bv_symList, hc, hinl])))
        -- two links
        all_goals try (
          simp only [Option.some.injEq] at hs
          subst hs
          simp only [Tree.toVal, Option.bind_eq_some_iff] at h
          obtain ⟨vs, hvs, hm⟩ := h
          obtain ⟨x, y, rfl, dl, dr⟩ := two_kids numOf ih hk hvs
          simp only [Option.some.injEq] at hm
          subst hm
          first
            | exact .pair (by simp [bv_typeOf, hc, cellTy]) (by simp [bv_pair, hc]) dl dr
            | exact .range (by simp [bv_typeOf, hc, cellTy]) (by simp [bv_range, hc]) dl dr
            | exact .slice (by simp [bv_typeOf, hc, cellTy]) (by simp [bv_slice, hc]) dl dr
            | exact .part (by simp [bv_typeOf, hc, cellTy]) (by simp [bv_partial_, hc]) dl dr
            | (obtain ⟨hl, hr⟩ := hcat _ _ _ hc
               obtain ⟨il, f1, g1⟩ := flat_of_decodes dl
               obtain ⟨ir, f2, g2⟩ := flat_of_decodes dr
               refine .concat (by simp [bv_typeOf, hc, cellTy]) (by simp [bv_concatenation, hc]) dl dr f1 f2 ?_
               rw [bv_concatItems, hc]
               simp only
               rw [if_pos ⟨hl, hr⟩, flatB_fuel cells _ _ hl, flatB_fuel cells _ _ hr, g1, g2]))
        -- lists
        · rename_i n k
          split at hs
          · rename_i items keys targets h1 h2
            simp only [Option.some.injEq] at hs
            subst hs
            simp only [Tree.toVal, Option.map_eq_some_iff] at h
            obtain ⟨vs, hvs, rfl⟩ := h
            have hd := decodesList_of numOf ih _ ts vs hk hvs
            have hlen := listItems_length _ _ _ h1
            have := decodesList_take items targets vs hd
            rw [hlen] at this
            exact .list (by simp [bv_typeOf, hc, cellTy]) (by simp [bv_listItems, hc, h1]) this
          · cases hs
        -- frames: not values
        all_goals (
          simp only [Option.map_eq_some_iff] at hs
          obtain ⟨j, _, rfl⟩ := hs
          simp [Tree.toVal] at h)

/-- on every `WFq` store -/
theorem decodes_of_decode_wfq {s : Store} (hwf : WFq s) (fuel a : Nat) (v : Val F)
    (h : decode numOf s.cells fuel a = some v) : Decodes (basicView numOf s.cells) a v := by
  refine decodes_of_decode numOf ?_ fuel a v h
  intro a l r hc
  have hsh : shape s.cells a = some ⟨.concatenation 0 0, [], [l, r]⟩ := shape_of_solo hc rfl
  exact ⟨hwf.kid_lt hsh (by simp [svAt, hc, isSV]) (by simp), hwf.kid_lt hsh (by simp [svAt, hc, isSV]) (by simp)⟩

end Garnish.Lemmas.Runtime.Basic
