/-
Text-level rewrites, lexer side (C18): conversion of lexer tokens to parser tokens (`Garnish.Model.toP`), the text
rewrite `TextAddSpace` (a run of spaces/tabs inside an existing Whitespace token is replaced by another run) and its
transfer through `lex`: the token list changes in the text of ONE whitespace token only, hence the parser's input keeps
its token types (`SameTypes`) and its numbering (`NumberedFrom 0`).
-/
import Garnish.Lemmas.LexerC18Ws
import Garnish.Model.Tokens
import Garnish.Lemmas.RefTrivia2
import Garnish.Lemmas.ParserFrag3
set_option linter.unusedSimpArgs false
set_option linter.unusedVariables false
namespace Garnish.Model.Lexer
open Garnish.Model Garnish.Model.Parser Garnish.Spec

/-! ### `toP` -/

theorem toPFrom_numbered : ∀ (k : Nat) (l : List LexerToken), NumberedFrom k (toPFrom k l)
  | _, [] => trivial
  | k, t :: rest => ⟨rfl, toPFrom_numbered (k + 1) rest⟩

/-- the parser's input is numbered by token position -/
theorem toP_numbered (l : List LexerToken) : NumberedFrom 0 (toP l) := toPFrom_numbered 0 l

theorem toPFrom_types : ∀ (k : Nat) (l : List LexerToken), (toPFrom k l).map (·.type) = l.map (·.tokenType)
  | _, [] => rfl
  | k, t :: rest => by simp [toPFrom, toPFrom_types (k + 1) rest]

theorem toPFrom_texts : ∀ (k : Nat) (l : List LexerToken), (toPFrom k l).map (·.text) = l.map (·.text)
  | _, [] => rfl
  | k, t :: rest => by simp [toPFrom, toPFrom_texts (k + 1) rest]

theorem toPFrom_length : ∀ (k : Nat) (l : List LexerToken), (toPFrom k l).length = l.length
  | _, [] => rfl
  | k, t :: rest => by simp [toPFrom, toPFrom_length (k + 1) rest]

/-- `toP` forgets rows and columns: token lists with the same types and texts give the same parser input -/
theorem toPFrom_congr : ∀ (k : Nat) (l l' : List LexerToken), SameTT l l' → toPFrom k l = toPFrom k l'
  | _, [], [], _ => rfl
  | _, [], _ :: _, h => by simp [SameTT] at h
  | _, _ :: _, [], h => by simp [SameTT] at h
  | k, t :: rest, t' :: rest', h => by
    simp only [SameTT, List.map_cons, List.cons.injEq, Prod.mk.injEq] at h
    obtain ⟨⟨h1, h2⟩, h3⟩ := h
    simp only [toPFrom, h1, h2, toPFrom_congr (k + 1) rest rest' h3]

theorem toPFrom_append (k : Nat) (a b : List LexerToken) :
    toPFrom k (a ++ b) = toPFrom k a ++ toPFrom (k + a.length) b := by
  induction a generalizing k with
  | nil => simp [toPFrom]
  | cons t r ih => simp [toPFrom, ih, Nat.add_assoc, Nat.add_comm 1]

/-! ### one whitespace token changed -/

/-- `t'` is `t` with the text of ONE token of whitespace type replaced (rows / columns of the later tokens may differ) -/
def OneWsChanged (t t' : List LexerToken) : Prop :=
  ∃ pre x x' rest rest', t = pre ++ x :: rest ∧ t' = pre ++ x' :: rest' ∧ x.tokenType = x'.tokenType ∧
    (x.tokenType = .whitespace ∨ x.tokenType = .subexpression) ∧ SameTT rest rest'

/-- the parser's inputs then differ in the TEXT of that one token only: same length, same types, same numbering -/
theorem OneWsChanged.parserInput {t t' : List LexerToken} (h : OneWsChanged t t') :
    ∃ pre x x' rest, Garnish.Model.toP t = pre ++ x :: rest ∧ Garnish.Model.toP t' = pre ++ x' :: rest ∧ x.type = x'.type ∧ x.col = x'.col ∧
      (x.type = .whitespace ∨ x.type = .subexpression) := by
  obtain ⟨pre, x, x', rest, rest', rfl, rfl, hty, hws, hs⟩ := h
  refine ⟨toPFrom 0 pre, ⟨x.text, x.tokenType, 0, 0 + pre.length⟩, ⟨x'.text, x'.tokenType, 0, 0 + pre.length⟩,
    toPFrom (0 + pre.length + 1) rest, ?_, ?_, hty, rfl, hws⟩
  · simp [Garnish.Model.toP, toPFrom_append, toPFrom]
  · simp only [Garnish.Model.toP, toPFrom_append, toPFrom]
    rw [toPFrom_congr _ rest' rest (Eq.symm hs)]

theorem OneWsChanged.sameTypes {t t' : List LexerToken} (h : OneWsChanged t t') : SameTypes (toP t) (toP t') := by
  obtain ⟨pre, x, x', rest, h1, h2, hty, _, _⟩ := h.parserInput
  simp [SameTypes, h1, h2, hty]

/-! ### the text rewrite -/

/-- after the prefix `p` the lexer is inside a Whitespace token (no newline yet) whose text so far is `cs` -/
def InWsAfter (cc : CharClass) (p cs : List Char) : Prop :=
  ∃ σ toks, runChars cc p (Lexer.init theTree) [] = .ok (σ, toks) ∧ InWhitespace σ cs

/-- executable form of `InWsAfter` -/
def inWsAfterB (cc : CharClass) (p cs : List Char) : Bool :=
  match runChars cc p (Lexer.init theTree) [] with
  | .ok (σ, _) => inWhitespaceB σ cs
  | _ => false

theorem inWsAfter_of_check {cc : CharClass} {p cs : List Char} (h : inWsAfterB cc p cs = true) : InWsAfter cc p cs := by
  unfold inWsAfterB at h
  cases hr : runChars cc p (Lexer.init theTree) [] with
  | ok r => obtain ⟨σ, toks⟩ := r; rw [hr] at h; exact ⟨σ, toks, hr, inWhitespace_of_check h⟩
  | err e => rw [hr] at h; cases h
  | panic m => rw [hr] at h; cases h
  | fuelOut => rw [hr] at h; cases h

/-- **the text rewrite**: `s = p ++ r ++ b` and `s' = p ++ r' ++ b` where `r`, `r'` are runs of spaces/tabs (either may
be empty) and `p` ends inside a Whitespace token — i.e. spaces/tabs are inserted into, or removed from, an existing run
of spaces/tabs that the lexer reads as whitespace (the run keeps at least the part `cs` that lies in `p`).
The guard `InWsAfter` refers to the lexer model (a space inside a char list is not whitespace); `inWsAfterB` decides it. -/
def TextAddSpace (cc : CharClass) (s s' : List Char) : Prop :=
  ∃ p cs r r' b, InWsAfter cc p cs ∧ (∀ c ∈ r, c = ' ' ∨ c = '\t') ∧ (∀ c ∈ r', c = ' ' ∨ c = '\t') ∧
    s = p ++ (r ++ b) ∧ s' = p ++ (r' ++ b)

theorem TextAddSpace.symm {cc : CharClass} {s s' : List Char} (h : TextAddSpace cc s s') : TextAddSpace cc s' s := by
  obtain ⟨p, cs, r, r', b, h1, h2, h3, h4, h5⟩ := h
  exact ⟨p, cs, r', r, b, h1, h3, h2, h5, h4⟩

theorem lex_of_lexFull {cc : CharClass} {s : List Char} {t : List LexerToken} (h : lex cc s = .ok t) :
    ∃ σ, lexFull cc s = .ok (t, σ) := by
  unfold lex at h
  cases hf : lexFull cc s with
  | ok r => obtain ⟨a, σ⟩ := r; rw [hf] at h; simp at h; subst h; exact ⟨σ, rfl⟩
  | err e => rw [hf] at h; cases h
  | panic m => rw [hf] at h; cases h
  | fuelOut => rw [hf] at h; cases h

/-- **transfer through the lexer**: if `s` lexes and `TextAddSpace s s'`, then `s'` lexes, to the same token list except
for the text of one whitespace token (and rows / columns after it) -/
theorem lex_textAddSpace (cc : CharClass) (hcc : cc.Sane) {s s' : List Char} {t : List LexerToken}
    (hl : lex cc s = .ok t) (h : TextAddSpace cc s s') : ∃ t', lex cc s' = .ok t' ∧ OneWsChanged t t' := by
  obtain ⟨p, cs, r, r', b, ⟨σ, toks, hrun, hin⟩, hr, hr', rfl, rfl⟩ := h
  obtain ⟨σf, hfull⟩ := lex_of_lexFull hl
  have hw := lexFull_whitespace_local cc hcc p r r' b cs σ toks hrun hin hr hr'
  rw [hfull] at hw
  cases hf' : lexFull cc (p ++ (r' ++ b)) with
  | ok q =>
    obtain ⟨t', σ'⟩ := q
    rw [hf'] at hw
    simp only [WsOut] at hw
    obtain ⟨x, x', z', rest, rest', e1, e2, hty, hws, _, _, hs⟩ := hw
    refine ⟨t', by simp [lex, hf'], toks, x, x', rest, rest', e1, e2, hty, hws, hs⟩
  | err e => rw [hf'] at hw; simp [WsOut] at hw
  | panic m => rw [hf'] at hw; simp [WsOut] at hw
  | fuelOut => rw [hf'] at hw; simp [WsOut] at hw

end Garnish.Model.Lexer
