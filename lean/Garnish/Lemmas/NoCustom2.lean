/-
`nc` is kept by the look-ups of Abs/Ops: `accessInt`, `accessSym`, `getAccess`, `accessPath`.
-/
import Garnish.Lemmas.NoCustom1
set_option linter.unusedSimpArgs false
set_option linter.unusedVariables false
namespace Garnish.Lemmas.NoCustom
open Garnish Gen Garnish.Abs

variable {F : Type} (fo : FloatOps F)

theorem nc_accessInt {idx : Number F} {v x : Val F} (hv : nc v = true) (h : accessInt fo idx v = .some x) :
    nc x = true := by
  unfold accessInt at h
  split at h
  · split at h
    · cases h; exact hv
    · cases h
  · cases h
  · rename_i items
    simp [nc] at hv
    split at h
    · cases h
    · split at h
      · split at h
        · rename_i y hy; cases h; exact ncL_get hv hy
        · cases h
      · cases h
  · split at h
    · cases h
    · split at h
      · split at h
        · cases h; rfl
        · cases h
      · cases h
  · split at h
    · cases h
    · split at h
      · split at h
        · cases h; rfl
        · cases h
      · cases h
  · split at h
    · cases h
    · split at h
      · split at h
        · cases h; rfl
        · cases h; rfl
        · cases h
      · cases h
  · split at h
    · cases h
    · split at h
      · split at h
        · cases h; rfl
        · cases h
      · cases h
  · cases h
  · rename_i l r
    simp [nc] at hv
    split at h
    · split at h
      · cases h
      · split at h
        · rename_i y hy
          cases h
          refine ncL_get ?_ hy
          rw [ncL_append, nc_flatItems l hv.1, nc_flatItems r hv.2]; rfl
        · cases h
    · cases h
  · cases h
  · cases h

theorem nc_accessSym {s : Nat} {v x : Val F} (hv : nc v = true) (h : accessSym s v = .some x) : nc x = true := by
  unfold accessSym at h
  split at h
  · split at h
    · cases h; simp [nc] at hv; exact hv
    · cases h
  · cases h
  · rename_i items
    simp [nc] at hv
    split at h
    · rename_i y hy; cases h; exact nc_lookupSym s items hv _ hy
    · cases h
  · rename_i l r
    simp [nc] at hv
    split at h
    · rename_i y hy
      cases h
      cases hr : lookupRev s r with
      | some z => rw [hr] at hy; simp [Option.orElse] at hy; subst hy; exact nc_lookupRev s r hv.2 z hr
      | none => rw [hr] at hy; simp [Option.orElse] at hy; exact nc_lookupRev s l hv.1 _ hy
    · cases h
  · cases h
  · cases h

theorem nc_getAccess {key v x : Val F} (hv : nc v = true) (h : getAccess fo key v = .some x) : nc x = true := by
  unfold getAccess at h
  split at h
  · exact nc_accessInt fo hv h
  · exact nc_accessSym hv h
  · cases h

theorem nc_accessPath : ∀ (ps : List (SymPart F)) (cur x : Val F), nc cur = true → accessPath fo ps cur = .some x →
    nc x = true
  | [], cur, x, hc, h => by simp [accessPath] at h; subst h; exact hc
  | p :: ps, cur, x, hc, h => by
    simp only [accessPath] at h
    cases p with
    | sym s =>
      simp only at h
      cases hr : accessSym s cur with
      | some v => rw [hr] at h; exact nc_accessPath ps v x (nc_accessSym hc hr) h
      | none => rw [hr] at h; simp at h; subst h; rfl
      | unsupported => rw [hr] at h; simp at h; subst h; rfl
      | err e => rw [hr] at h; cases h
    | num n =>
      simp only at h
      cases hr : accessInt fo n cur with
      | some v => rw [hr] at h; exact nc_accessPath ps v x (nc_accessInt fo hc hr) h
      | none => rw [hr] at h; simp at h; subst h; rfl
      | unsupported => rw [hr] at h; simp at h; subst h; rfl
      | err e => rw [hr] at h; cases h

end Garnish.Lemmas.NoCustom
