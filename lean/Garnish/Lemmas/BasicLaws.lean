/-
The contract `StoreLaws` (Model/Runtime/Store.lean) for `BasicGarnishData`, on the states its interface operations
reach: `BInv` = `WFq` (Lemmas/MutWF.lean) + room for one more cell under a growing policy (`Fits`) + the typing of the
register and frame chains.  This file: the invariant, the effect of appending cells, and the value adders.
-/
import Garnish.Lemmas.BasicChains
import Garnish.Lemmas.MutOps
import Garnish.Lemmas.OptimizeLimit
import Garnish.Lemmas.EqualityRefine
set_option linter.unusedSimpArgs false
set_option maxHeartbeats 1000000
namespace Garnish.Lemmas.Runtime.Basic
open Garnish Gen Garnish.Model.Equality Garnish.Model.Runtime Garnish.Model.Runtime.Basic Garnish.BasicOpt
open Garnish.Lemmas.Runtime Garnish.Lemmas.EqualityRefine

variable {F : Type}

def isRegCell (cells : Array Cell) (a : Nat) : Bool :=
  match cells[a]? with
  | some (.register _ _) | some (.registerRoot _) => true
  | _ => false

def isFrameCell (cells : Array Cell) (a : Nat) : Bool :=
  match cells[a]? with
  | some (.frame _ _) | some (.frameIndex _) | some (.frameRegister _) | some .frameRoot => true
  | _ => false

/-- a cell of the frame chain -/
def frameKind : Cell → Bool
  | .frame _ _ | .frameIndex _ | .frameRegister _ | .frameRoot => true
  | _ => false

/-- the frame chain is typed: the head and every `previous` link is a frame cell, every saved register head is a
register cell -/
structure FrameTyped (s : Store) : Prop where
  head : ∀ a, s.currentFrame = some a → isFrameCell s.cells a = true
  prev : ∀ (i p : Nat), ((∃ r, s.cells[i]? = some (Cell.frame p r)) ∨ s.cells[i]? = some (Cell.frameIndex p)) →
    isFrameCell s.cells p = true
  reg : ∀ (i r : Nat), ((∃ p, s.cells[i]? = some (Cell.frame p r)) ∨ s.cells[i]? = some (Cell.frameRegister r)) →
    isRegCell s.cells r = true

/-- the states of the interface: `WFq`, room to grow, typed register chain, saved registers of frames exist, typed
frame chain -/
structure BInv (st : BState) : Prop where
  wfq : WFq st.store
  fits : Fits st.store
  regHead : ∀ a, st.store.currentRegister = some a → isRegCell st.store.cells a = true
  regPrev : ∀ (i p v : Nat), st.store.cells[i]? = some (Cell.register p v) → isRegCell st.store.cells p = true
  frameSaved : ∀ (i p r : Nat), (st.store.cells[i]? = some (Cell.frame p r) ∨
    st.store.cells[i]? = some (Cell.frameRegister r)) → r < st.store.cells.size
  ftyped : FrameTyped st.store

theorem binv_init : BInv BState.init := by
  refine ⟨WFq_fresh, by decide, ?_, ?_, ?_, ⟨?_, ?_, ?_⟩⟩
  · intro a h; cases h
  · intro i p v h; simp [BState.init, Store.fresh] at h
  · intro i p r h; simp [BState.init, Store.fresh] at h
  · intro a h; cases h
  · intro i p h; simp [BState.init, Store.fresh] at h
  · intro i r h; simp [BState.init, Store.fresh] at h

theorem isRegCell_sub {cells cells' : Array Cell} (h : Sub cells cells') {a : Nat} (ha : isRegCell cells a = true) :
    isRegCell cells' a = true := by
  unfold isRegCell at ha ⊢
  cases hc : cells[a]? with
  | none => simp [hc] at ha
  | some c => rw [h a c hc]; rw [hc] at ha; exact ha

theorem isFrameCell_sub {cells cells' : Array Cell} (h : Sub cells cells') {a : Nat} (ha : isFrameCell cells a = true) :
    isFrameCell cells' a = true := by
  unfold isFrameCell at ha ⊢
  cases hc : cells[a]? with
  | none => simp [hc] at ha
  | some c => rw [h a c hc]; rw [hc] at ha; exact ha

/-- one more cell that is not a frame cell, same frame head -/
theorem FrameTyped.push {s s' : Store} {c : Cell} (ht : FrameTyped s) (hcells : s'.cells = s.cells.push c)
    (hfr : s'.currentFrame = s.currentFrame) (hc : frameKind c = false) : FrameTyped s' := by
  have hsub : Sub s.cells s'.cells := by rw [hcells]; simpa using sub_append s.cells #[c]
  have hnew : ∀ (i : Nat) (x : Cell), s'.cells[i]? = some x → s.cells[i]? = some x ∨ x = c := by
    intro i x hx
    rcases Nat.lt_or_ge i s.cells.size with h | h
    · exact Or.inl (by rw [← hsub.get h]; exact hx)
    · right
      have hi : i < s'.cells.size := cell_lt hx
      have : i = s.cells.size := by rw [hcells] at hi; simp at hi; omega
      subst this
      rw [hcells] at hx
      simpa using hx.symm
  refine ⟨?_, ?_, ?_⟩
  · intro a ha; rw [hfr] at ha; exact isFrameCell_sub hsub (ht.head a ha)
  · intro i p h
    rcases h with ⟨r, h⟩ | h
    · rcases hnew i _ h with h' | h'
      · exact isFrameCell_sub hsub (ht.prev i p (Or.inl ⟨r, h'⟩))
      · rw [← h'] at hc; cases hc
    · rcases hnew i _ h with h' | h'
      · exact isFrameCell_sub hsub (ht.prev i p (Or.inr h'))
      · rw [← h'] at hc; cases hc
  · intro i r h
    rcases h with ⟨p, h⟩ | h
    · rcases hnew i _ h with h' | h'
      · exact isRegCell_sub hsub (ht.reg i r (Or.inl ⟨p, h'⟩))
      · rw [← h'] at hc; cases hc
    · rcases hnew i _ h with h' | h'
      · exact isRegCell_sub hsub (ht.reg i r (Or.inr h'))
      · rw [← h'] at hc; cases hc

/-- contract of an adder on the Basic store: as `Adds`, and the invariant is kept -/
def AddsB (nc : NumCode F) (m : RM BState Nat) (st : BState) (v : Val F) : Prop :=
  ∃ a st', m st = .ok (a, st') ∧ Decodes ((basicRStore nc).view st') a v ∧
    Eff (basicRStore nc) st st' ((basicRStore nc).regs st) ((basicRStore nc).vals st) ∧ BInv st'

/-- **appending cells and keeping the heads** changes nothing the interface observes -/
theorem eff_sub (nc : NumCode F) {st : BState} {s' : Store} (hinv : BInv st) (hsub : Sub st.store.cells s'.cells)
    (hf : SameFrame st.store s') :
    Eff (basicRStore nc) st { st with store := s' } ((basicRStore nc).regs st) ((basicRStore nc).vals st) := by
  refine ⟨⟨fun a v h => decodes_mono (basicView_le _ hsub.agreeNS) h, rfl, rfl, rfl, rfl⟩, ?_, ?_, rfl, ?_⟩
  · show regsOf s'.cells s'.currentRegister = regsOf st.store.cells st.store.currentRegister
    rw [hf.2.2.2.2.1]
    exact regsOf_sub hsub (fun a ha => by have := hinv.wfq.reg; rw [ha] at this; exact node_lt this)
  · show valsOf s'.cells s'.currentValue = valsOf st.store.cells st.store.currentValue
    rw [hf.2.2.2.1]
    exact valsOf_sub hsub (fun a ha => by have := hinv.wfq.val; rw [ha] at this; exact svAt_lt this)
  · show framesOf s'.cells s'.currentFrame = framesOf st.store.cells st.store.currentFrame
    rw [hf.2.2.2.2.2]
    exact framesOf_sub hsub hinv.frameSaved
      (fun a ha => by have := hinv.wfq.frm; rw [ha] at this; exact node_lt this)

/-- a decodable address is a readable address -/
theorem decodes_node {numOf : Nat → Number F} {s : Store} (hwf : WFq s) {a : Nat} {v : Val F}
    (h : Decodes (basicView numOf s.cells) a v) : a < s.cells.size ∧ isNode s.cells a = true := by
  have ht := decodes_typeOf h
  rw [bv_typeOf] at ht
  cases hc : s.cells[a]? with
  | none => simp [hc] at ht
  | some c =>
    have hlt := cell_lt hc
    refine ⟨hlt, ?_⟩
    rw [hc] at ht
    simp only [Option.bind_some] at ht
    have hhd := hwf.headers a hlt
    simp only [headerOK, hc] at hhd
    cases c <;> simp only [cellTy] at ht <;> first
      | (cases ht; done)
      | exact hhd
      | (simp [isNode, shape_of_solo hc (sh := _) rfl])

/-- **pushing one value cell**: the address is the old cursor, the invariant is kept, nothing observable changes -/
theorem push_value_cell (nc : NumCode F) {st : BState} (hinv : BInv st) {c : Cell} {t : Ty} {sh : Shape}
    (hty : cellTy c = some t) (hso : soloShape c = some sh)
    (hk : ∀ k ∈ sh.kids, k < st.store.cells.size ∧ isNode st.store.cells k = true) :
    ∃ s', st.store.push c = .ok (s', st.store.cells.size) ∧ s'.cells = st.store.cells.push c ∧
      BInv { st with store := s' } ∧
      Eff (basicRStore nc) st { st with store := s' } ((basicRStore nc).regs st) ((basicRStore nc).vals st) := by
  obtain ⟨s', hp, hcells, hfit⟩ := push_total c hinv.fits
  obtain ⟨_, _, hf⟩ := push_ok hp
  have hsub : Sub st.store.cells s'.cells := by rw [hcells]; simpa using sub_append st.store.cells #[c]
  obtain ⟨hw, _, _⟩ := push_solo_wfq hinv.wfq hso (cellTy_nsv hty) hk hp
  have hold : ∀ i, i < st.store.cells.size → s'.cells[i]? = st.store.cells[i]? := fun i hi => hsub.get hi
  have hnew : ∀ i x, s'.cells[i]? = some x → i < st.store.cells.size ∨ x = c := by
    intro i x hx
    rcases Nat.lt_or_ge i st.store.cells.size with h | h
    · exact Or.inl h
    · right
      have hi : i < s'.cells.size := cell_lt hx
      have : i = st.store.cells.size := by rw [hcells] at hi; simp at hi; omega
      subst this
      rw [hcells] at hx
      simpa using hx.symm
  refine ⟨s', hp, hcells, ⟨hw, hfit, ?_, ?_, ?_,
    hinv.ftyped.push hcells hf.2.2.2.2.2 (by cases c <;> simp [cellTy] at hty <;> rfl)⟩, eff_sub nc hinv hsub hf⟩
  · intro a ha
    rw [hf.2.2.2.2.1] at ha
    exact isRegCell_sub hsub (hinv.regHead a ha)
  · intro i p v hx
    rcases hnew i _ hx with hi | hc
    · rw [hold i hi] at hx; exact isRegCell_sub hsub (hinv.regPrev i p v hx)
    · rw [← hc] at hty; simp [cellTy] at hty
  · intro i p r hx
    have hsz : st.store.cells.size ≤ s'.cells.size := by rw [hcells]; simp
    rcases hx with hx | hx
    · rcases hnew i _ hx with hi | hc
      · rw [hold i hi] at hx; exact Nat.lt_of_lt_of_le (hinv.frameSaved i p r (Or.inl hx)) hsz
      · rw [← hc] at hty; simp [cellTy] at hty
    · rcases hnew i _ hx with hi | hc
      · rw [hold i hi] at hx; exact Nat.lt_of_lt_of_le (hinv.frameSaved i p r (Or.inr hx)) hsz
      · rw [← hc] at hty; simp [cellTy] at hty

theorem liftAdd_ok {f : Store → Outcome (Store × Nat)} {st : BState} {s' : Store} {a : Nat}
    (h : f st.store = .ok (s', a)) : liftAdd f st = .ok (a, { st with store := s' }) := by
  simp [liftAdd, h]

/-- the cell at the new address -/
theorem new_cell {cells : Array Cell} (c : Cell) : (cells.push c)[cells.size]? = some c := by simp

/-- an adder of a leaf value -/
theorem adds_leaf (nc : NumCode F) {st : BState} (hinv : BInv st) {c : Cell} {t : Ty} (hty : cellTy c = some t)
    (hso : soloShape c = some ⟨c, [], []⟩) {v : Val F}
    (hdec : ∀ cells : Array Cell, cells[st.store.cells.size]? = some c →
      Decodes (basicView nc.dec cells) st.store.cells.size v) :
    AddsB nc (liftAdd (·.push c)) st v := by
  obtain ⟨s', hp, hcells, hi, he⟩ := push_value_cell nc hinv hty hso (by intro k hk; simp at hk)
  exact ⟨_, _, liftAdd_ok hp, hdec s'.cells (by rw [hcells]; exact new_cell c), he, hi⟩

/-- an adder of a value with two links -/
theorem adds_two (nc : NumCode F) {st : BState} (hinv : BInv st) {c : Cell} {t : Ty} {lab : Cell} {l r : Nat}
    (hty : cellTy c = some t) (hso : soloShape c = some ⟨lab, [], [l, r]⟩) {vl vr v : Val F}
    (hl : Decodes (basicView nc.dec st.store.cells) l vl) (hr : Decodes (basicView nc.dec st.store.cells) r vr)
    (hdec : ∀ cells : Array Cell, cells[st.store.cells.size]? = some c → Decodes (basicView nc.dec cells) l vl →
      Decodes (basicView nc.dec cells) r vr → Decodes (basicView nc.dec cells) st.store.cells.size v) :
    AddsB nc (liftAdd (·.push c)) st v := by
  obtain ⟨s', hp, hcells, hi, he⟩ := push_value_cell nc hinv hty hso (by
    intro k hk
    simp at hk
    rcases hk with rfl | rfl
    · exact decodes_node hinv.wfq hl
    · exact decodes_node hinv.wfq hr)
  exact ⟨_, _, liftAdd_ok hp,
    hdec s'.cells (by rw [hcells]; exact new_cell c) (he.keeps.dec _ _ hl) (he.keeps.dec _ _ hr), he, hi⟩

end Garnish.Lemmas.Runtime.Basic
