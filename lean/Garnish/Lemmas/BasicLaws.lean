/-
The contract `StoreLaws` (Model/Runtime/Store.lean) for `BasicGarnishData`, on the states its interface operations
reach: `BInv` = `WFq` (Lemmas/MutWF.lean) + room for one more cell under a growing policy (`Fits`) + the typing of the
register and frame chains.  This file: the invariant, the effect of appending cells, and the value adders.
-/
import Garnish.Lemmas.BasicChains
import Garnish.Lemmas.MutOps
import Garnish.Lemmas.OptimizeLimit
import Garnish.Lemmas.EqualityRefine
set_option linter.unusedSimpArgs false
set_option maxHeartbeats 1000000
namespace Garnish.Lemmas.Runtime.Basic
open Garnish Gen Garnish.Model.Equality Garnish.Model.Runtime Garnish.Model.Runtime.Basic Garnish.BasicOpt
open Garnish.Lemmas.Runtime Garnish.Lemmas.EqualityRefine

variable {F : Type}

def isRegCell (cells : Array Cell) (a : Nat) : Bool :=
  match cells[a]? with
  | some (.register _ _) | some (.registerRoot _) => true
  | _ => false

/-- the states of the interface: `WFq`, room to grow, typed register chain, saved registers of frames exist -/
structure BInv (st : BState) : Prop where
  wfq : WFq st.store
  fits : Fits st.store
  regHead : ∀ a, st.store.currentRegister = some a → isRegCell st.store.cells a = true
  regPrev : ∀ (i p v : Nat), st.store.cells[i]? = some (Cell.register p v) → isRegCell st.store.cells p = true
  frameSaved : ∀ (i p r : Nat), (st.store.cells[i]? = some (Cell.frame p r) ∨
    st.store.cells[i]? = some (Cell.frameRegister r)) → r < st.store.cells.size

theorem binv_init : BInv BState.init := by
  refine ⟨WFq_fresh, by decide, ?_, ?_, ?_⟩
  · intro a h; cases h
  · intro i p v h; simp [BState.init, Store.fresh] at h
  · intro i p r h; simp [BState.init, Store.fresh] at h

theorem isRegCell_sub {cells cells' : Array Cell} (h : Sub cells cells') {a : Nat} (ha : isRegCell cells a = true) :
    isRegCell cells' a = true := by
  unfold isRegCell at ha ⊢
  cases hc : cells[a]? with
  | none => simp [hc] at ha
  | some c => rw [h a c hc]; rw [hc] at ha; exact ha

/-- contract of an adder on the Basic store: as `Adds`, and the invariant is kept -/
def AddsB (nc : NumCode F) (m : RM BState Nat) (st : BState) (v : Val F) : Prop :=
  ∃ a st', m st = .ok (a, st') ∧ Decodes ((basicRStore nc).view st') a v ∧
    Eff (basicRStore nc) st st' ((basicRStore nc).regs st) ((basicRStore nc).vals st) ∧ BInv st'

/-- **appending cells and keeping the heads** changes nothing the interface observes -/
theorem eff_sub (nc : NumCode F) {st : BState} {s' : Store} (hinv : BInv st) (hsub : Sub st.store.cells s'.cells)
    (hf : SameFrame st.store s') :
    Eff (basicRStore nc) st { st with store := s' } ((basicRStore nc).regs st) ((basicRStore nc).vals st) := by
  refine ⟨⟨fun a v h => decodes_mono (basicView_le _ hsub.agreeNS) h, rfl, rfl, rfl, rfl⟩, ?_, ?_, rfl, ?_⟩
  · show regsOf s'.cells s'.currentRegister = regsOf st.store.cells st.store.currentRegister
    rw [hf.2.2.2.2.1]
    exact regsOf_sub hsub (fun a ha => by have := hinv.wfq.reg; rw [ha] at this; exact node_lt this)
  · show valsOf s'.cells s'.currentValue = valsOf st.store.cells st.store.currentValue
    rw [hf.2.2.2.1]
    exact valsOf_sub hsub (fun a ha => by have := hinv.wfq.val; rw [ha] at this; exact svAt_lt this)
  · show framesOf s'.cells s'.currentFrame = framesOf st.store.cells st.store.currentFrame
    rw [hf.2.2.2.2.2]
    exact framesOf_sub hsub hinv.frameSaved
      (fun a ha => by have := hinv.wfq.frm; rw [ha] at this; exact node_lt this)

/-- a decodable address is a readable address -/
theorem decodes_node {numOf : Nat → Number F} {s : Store} (hwf : WFq s) {a : Nat} {v : Val F}
    (h : Decodes (basicView numOf s.cells) a v) : a < s.cells.size ∧ isNode s.cells a = true := by
  have ht := decodes_typeOf h
  rw [bv_typeOf] at ht
  cases hc : s.cells[a]? with
  | none => simp [hc] at ht
  | some c =>
    have hlt := cell_lt hc
    refine ⟨hlt, ?_⟩
    rw [hc] at ht
    simp only [Option.bind_some] at ht
    have hhd := hwf.headers a hlt
    simp only [headerOK, hc] at hhd
    cases c <;> simp only [cellTy] at ht <;> first
      | (cases ht; done)
      | exact hhd
      | (simp [isNode, shape_of_solo hc (sh := _) rfl])

/-- **pushing one value cell**: the address is the old cursor, the invariant is kept, nothing observable changes -/
theorem push_value_cell (nc : NumCode F) {st : BState} (hinv : BInv st) {c : Cell} {t : Ty} {sh : Shape}
    (hty : cellTy c = some t) (hso : soloShape c = some sh)
    (hk : ∀ k ∈ sh.kids, k < st.store.cells.size ∧ isNode st.store.cells k = true) :
    ∃ s', st.store.push c = .ok (s', st.store.cells.size) ∧ s'.cells = st.store.cells.push c ∧
      BInv { st with store := s' } ∧
      Eff (basicRStore nc) st { st with store := s' } ((basicRStore nc).regs st) ((basicRStore nc).vals st) := by
  obtain ⟨s', hp, hcells, hfit⟩ := push_total c hinv.fits
  obtain ⟨_, _, hf⟩ := push_ok hp
  have hsub : Sub st.store.cells s'.cells := by rw [hcells]; simpa using sub_append st.store.cells #[c]
  obtain ⟨hw, _, _⟩ := push_solo_wfq hinv.wfq hso (cellTy_nsv hty) hk hp
  have hold : ∀ i, i < st.store.cells.size → s'.cells[i]? = st.store.cells[i]? := fun i hi => hsub.get hi
  have hnew : ∀ i x, s'.cells[i]? = some x → i < st.store.cells.size ∨ x = c := by
    intro i x hx
    rcases Nat.lt_or_ge i st.store.cells.size with h | h
    · exact Or.inl h
    · right
      have hi : i < s'.cells.size := cell_lt hx
      have : i = st.store.cells.size := by rw [hcells] at hi; simp at hi; omega
      subst this
      rw [hcells] at hx
      simpa using hx.symm
  refine ⟨s', hp, hcells, ⟨hw, hfit, ?_, ?_, ?_⟩, eff_sub nc hinv hsub hf⟩
  · intro a ha
    rw [hf.2.2.2.2.1] at ha
    exact isRegCell_sub hsub (hinv.regHead a ha)
  · intro i p v hx
    rcases hnew i _ hx with hi | hc
    · rw [hold i hi] at hx; exact isRegCell_sub hsub (hinv.regPrev i p v hx)
    · rw [← hc] at hty; simp [cellTy] at hty
  · intro i p r hx
    have hsz : st.store.cells.size ≤ s'.cells.size := by rw [hcells]; simp
    rcases hx with hx | hx
    · rcases hnew i _ hx with hi | hc
      · rw [hold i hi] at hx; exact Nat.lt_of_lt_of_le (hinv.frameSaved i p r (Or.inl hx)) hsz
      · rw [← hc] at hty; simp [cellTy] at hty
    · rcases hnew i _ hx with hi | hc
      · rw [hold i hi] at hx; exact Nat.lt_of_lt_of_le (hinv.frameSaved i p r (Or.inr hx)) hsz
      · rw [← hc] at hty; simp [cellTy] at hty

theorem liftAdd_ok {f : Store → Outcome (Store × Nat)} {st : BState} {s' : Store} {a : Nat}
    (h : f st.store = .ok (s', a)) : liftAdd f st = .ok (a, { st with store := s' }) := by
  simp [liftAdd, h]

/-- the cell at the new address -/
theorem new_cell {cells : Array Cell} (c : Cell) : (cells.push c)[cells.size]? = some c := by simp

/-- an adder of a leaf value -/
theorem adds_leaf (nc : NumCode F) {st : BState} (hinv : BInv st) {c : Cell} {t : Ty} (hty : cellTy c = some t)
    (hso : soloShape c = some ⟨c, [], []⟩) {v : Val F}
    (hdec : ∀ cells : Array Cell, cells[st.store.cells.size]? = some c →
      Decodes (basicView nc.dec cells) st.store.cells.size v) :
    AddsB nc (liftAdd (·.push c)) st v := by
  obtain ⟨s', hp, hcells, hi, he⟩ := push_value_cell nc hinv hty hso (by intro k hk; simp at hk)
  exact ⟨_, _, liftAdd_ok hp, hdec s'.cells (by rw [hcells]; exact new_cell c), he, hi⟩

/-- an adder of a value with two links -/
theorem adds_two (nc : NumCode F) {st : BState} (hinv : BInv st) {c : Cell} {t : Ty} {lab : Cell} {l r : Nat}
    (hty : cellTy c = some t) (hso : soloShape c = some ⟨lab, [], [l, r]⟩) {vl vr v : Val F}
    (hl : Decodes (basicView nc.dec st.store.cells) l vl) (hr : Decodes (basicView nc.dec st.store.cells) r vr)
    (hdec : ∀ cells : Array Cell, cells[st.store.cells.size]? = some c → Decodes (basicView nc.dec cells) l vl →
      Decodes (basicView nc.dec cells) r vr → Decodes (basicView nc.dec cells) st.store.cells.size v) :
    AddsB nc (liftAdd (·.push c)) st v := by
  obtain ⟨s', hp, hcells, hi, he⟩ := push_value_cell nc hinv hty hso (by
    intro k hk
    simp at hk
    rcases hk with rfl | rfl
    · exact decodes_node hinv.wfq hl
    · exact decodes_node hinv.wfq hr)
  exact ⟨_, _, liftAdd_ok hp,
    hdec s'.cells (by rw [hcells]; exact new_cell c) (he.keeps.dec _ _ hl) (he.keeps.dec _ _ hr), he, hi⟩

end Garnish.Lemmas.Runtime.Basic
