/-
`run_located`, continued: lists, identifier application, and the constructs with out-of-line bodies:
conditionals, else-chains, `&&`/`||`.
-/
import Garnish.Lemmas.CompileRun2
namespace Garnish.Abs
open Garnish Gen Garnish.Spec

variable {F : Type} {fo : FloatOps F} {host : Host F} {P : Prog F} {bodies : List (Nat × Expr F)}

theorem lt_size_of_get {α : Type} {a : Array α} {i : Nat} {x : α} (h : a[i]? = some x) : i < a.size :=
  (Array.getElem?_eq_some_iff.mp h).1

/-! ### lists -/

theorem simL_step {fuel : Nat} (ih : SimE fo host P bodies fuel) (ihL : SimL fo host P bodies fuel) :
    SimL fo host P bodies (fuel + 1) := by
  intro cur items st acc r st' h root pc rs0 vs fr entry hloc hwf hj hent hlt
  cases items with
  | nil =>
    simp only [evalListS, Out.ok.injEq, Prod.mk.injEq] at h
    obtain ⟨rfl, rfl⟩ := h
    exact ⟨[], by simp, rfl, by simpa [lenList] using Reach.refl _⟩
  | cons x xs =>
    simp only [LocatedList] at hloc
    simp only [wfCList, Bool.and_eq_true] at hwf
    simp only [lenList] at hlt
    simp only [evalListS] at h
    rcases eval_cases (fo := fo) (host := host) (bodies := bodies) (cur := cur) (fuel := fuel) (x := x) (st := st)
      with ⟨w, st1, hx⟩ | ⟨w, st1, hx⟩ | ⟨e, hx⟩ | hx <;> simp only [hx] at h
    · have ihx := (ih x cur st _ _ hx root pc rs0 vs fr entry hloc.1 hwf.1 hj hent (by omega)).toReach
      have ihr := ihL cur xs st1 (w :: acc) r st' h root (pc + len x) (w :: rs0) vs fr entry hloc.2 hwf.2
        hj hent (by omega)
      cases r with
      | inl vals =>
        obtain ⟨nv, hv, hn, hr⟩ := ihr
        refine ⟨w :: nv, by simp [hv], by simp [hn], ?_⟩
        have e1 : pc + lenList (x :: xs) = pc + len x + lenList xs := by simp only [lenList]; omega
        have e2 : (w :: nv).reverse ++ rs0 = nv.reverse ++ w :: rs0 := by simp
        rw [e1, e2]
        exact ihx.trans hr
      | inr v =>
        obtain ⟨extra, hr⟩ := ihr
        refine ⟨extra ++ [w], ?_⟩
        have : extra ++ [w] ++ rs0 = extra ++ w :: rs0 := by simp
        rw [this]
        exact ihx.trans hr
    · simp only [Out.ok.injEq, Prod.mk.injEq] at h
      obtain ⟨rfl, rfl⟩ := h
      obtain ⟨extra, hr, _⟩ := ih x cur st _ _ hx root pc rs0 vs fr entry hloc.1 hwf.1 hj hent (by omega)
      exact ⟨extra, hr⟩
    · simp at h
    · simp at h

theorem sim_list {fuel : Nat} (ihL : SimL fo host P bodies fuel)
    (items : List (Expr F)) : SimAt fo host P bodies (fuel + 1) (.list items) := by
  intro cur st res st' h root pc rs vs fr entry hloc hwf hj hent hlt
  have h0 := h
  simp only [Located] at hloc
  obtain ⟨hll, hi⟩ := hloc
  simp only [wfC] at hwf
  have hend : pc + len (.list items) = pc + lenList items + 1 := by simp only [len]; omega
  rw [hend] at hlt ⊢
  simp only [evalFS] at h
  cases hl : evalListS fo host bodies cur fuel items st [] with
  | err e => simp [hl] at h
  | fuelOut => simp [hl] at h
  | ok p =>
    obtain ⟨r, st1⟩ := p
    have ihr := ihL cur items st [] r st1 hl root pc rs vs fr entry hll hwf hj hent (by omega)
    cases r with
    | inl vals =>
      simp only [hl, Out.ok.injEq, Prod.mk.injEq] at h
      obtain ⟨rfl, rfl⟩ := h
      obtain ⟨nv, hv, hn, hr⟩ := ihr
      simp only [List.reverse_nil, List.nil_append] at hv
      subst hv
      refine ResOK.ofReach (hr.snoc ?_)
      have hs := step_makeList (fo := fo) (host := host) (P := P) (pc := pc + lenList items)
        (regs := vals.reverse ++ rs) (vs := st1.inp :: vs) (fr := fr) (tr := st1.trace) hi hlt (by simp [hn])
      rw [hs]
      have h1 : (vals.reverse ++ rs).take items.length = vals.reverse := List.take_left' (by simp [hn])
      have h2 : (vals.reverse ++ rs).drop items.length = rs := List.drop_left' (by simp [hn])
      rw [h1, h2, List.reverse_reverse]
    | inr v =>
      simp only [hl, Out.ok.injEq, Prod.mk.injEq] at h
      obtain ⟨rfl, rfl⟩ := h
      obtain ⟨extra, hr⟩ := ihr
      exact ⟨extra, hr, fun ht => (noR_sound (by simpa [tailR] using ht) h0).elim⟩

/-! ### identifier application -/

theorem sim_prefixApply {fuel : Nat} (ih : SimE fo host P bodies fuel) (ihA : SimA fo host P bodies fuel)
    (sym : Nat) (x : Expr F) : SimAt fo host P bodies (fuel + 1) (.prefixApply sym x) := by
  intro cur st res st' h root pc rs vs fr entry hloc hwf hj hent hlt
  have h0 := h
  simp only [Located] at hloc
  obtain ⟨⟨k, hi0, hc⟩, hlx, hi⟩ := hloc
  simp only [wfC] at hwf
  have hend : pc + len (.prefixApply sym x) = pc + 1 + len x + 1 := by simp only [len]; omega
  rw [hend] at hlt ⊢
  simp only [evalFS] at h
  rcases resolveVal_cases (fo := fo) (host := host) st sym with ⟨wf, st1, hr⟩ | ⟨e, hr⟩ <;> simp only [hr] at h
  · have hinp := resolveVal_inp hr
    have h1 : Reach fo host P ⟨pc, rs, st.inp :: vs, fr, st.trace⟩ ⟨pc + 1, wf :: rs, st1.inp :: vs, fr, st1.trace⟩ := by
      rw [hinp]; exact .single (step_resolve hi0 hc (by omega) rfl rfl hr)
    rcases eval_cases (fo := fo) (host := host) (bodies := bodies) (cur := cur) (fuel := fuel) (x := x) (st := st1)
      with ⟨wx, st2, hy⟩ | ⟨w, st2, hy⟩ | ⟨e, hy⟩ | hy <;> simp only [hy] at h
    · have ihx := (ih x cur st1 _ _ hy root (pc + 1) (wf :: rs) vs fr entry hlx hwf hj hent (by omega)).toReach
      obtain ⟨v, rfl, hr⟩ := apply_reach ihA h (regs := wx :: wf :: rs) (rs := rs) hlt (step_apply hi)
      exact ResOK.ofReach ((h1.trans ihx).trans hr)
    · simp only [Out.ok.injEq, Prod.mk.injEq] at h
      obtain ⟨rfl, rfl⟩ := h
      exact ResOK.sub_restart (pend := [wf]) h1
        (ih x cur st1 _ _ hy root (pc + 1) (wf :: rs) vs fr entry hlx hwf hj hent (by omega))
        (fun ht => (noR_sound (by simpa [tailR] using ht) h0).elim)
    · simp at h
    · simp at h
  · simp at h

theorem sim_suffixApply {fuel : Nat} (ih : SimE fo host P bodies fuel) (ihA : SimA fo host P bodies fuel)
    (x : Expr F) (sym : Nat) : SimAt fo host P bodies (fuel + 1) (.suffixApply x sym) := by
  intro cur st res st' h root pc rs vs fr entry hloc hwf hj hent hlt
  have h0 := h
  simp only [Located] at hloc
  obtain ⟨⟨k, hi0, hc⟩, hlx, hi⟩ := hloc
  simp only [wfC] at hwf
  have hend : pc + len (.suffixApply x sym) = pc + 1 + len x + 1 := by simp only [len]; omega
  rw [hend] at hlt ⊢
  simp only [evalFS] at h
  rcases resolveVal_cases (fo := fo) (host := host) st sym with ⟨wf, st1, hr⟩ | ⟨e, hr⟩ <;> simp only [hr] at h
  · have hinp := resolveVal_inp hr
    have h1 : Reach fo host P ⟨pc, rs, st.inp :: vs, fr, st.trace⟩ ⟨pc + 1, wf :: rs, st1.inp :: vs, fr, st1.trace⟩ := by
      rw [hinp]; exact .single (step_resolve hi0 hc (by omega) rfl rfl hr)
    rcases eval_cases (fo := fo) (host := host) (bodies := bodies) (cur := cur) (fuel := fuel) (x := x) (st := st1)
      with ⟨wx, st2, hy⟩ | ⟨w, st2, hy⟩ | ⟨e, hy⟩ | hy <;> simp only [hy] at h
    · have ihx := (ih x cur st1 _ _ hy root (pc + 1) (wf :: rs) vs fr entry hlx hwf hj hent (by omega)).toReach
      obtain ⟨v, rfl, hr⟩ := apply_reach ihA h (regs := wx :: wf :: rs) (rs := rs) hlt (step_apply hi)
      exact ResOK.ofReach ((h1.trans ihx).trans hr)
    · simp only [Out.ok.injEq, Prod.mk.injEq] at h
      obtain ⟨rfl, rfl⟩ := h
      exact ResOK.sub_restart (pend := [wf]) h1
        (ih x cur st1 _ _ hy root (pc + 1) (wf :: rs) vs fr entry hlx hwf hj hent (by omega))
        (fun ht => (noR_sound (by simpa [tailR] using ht) h0).elim)
    · simp at h
    · simp at h
  · simp at h

theorem sim_infixApply {fuel : Nat} (ih : SimE fo host P bodies fuel) (ihA : SimA fo host P bodies fuel)
    (a : Expr F) (sym : Nat) (b : Expr F) : SimAt fo host P bodies (fuel + 1) (.infixApply a sym b) := by
  intro cur st res st' h root pc rs vs fr entry hloc hwf hj hent hlt
  have h0 := h
  simp only [Located] at hloc
  obtain ⟨⟨k, hi0, hc⟩, hla, hlb, hi1, hi2⟩ := hloc
  simp only [wfC, Bool.and_eq_true] at hwf
  have hend : pc + len (.infixApply a sym b) = pc + 1 + len a + len b + 1 + 1 := by simp only [len]; omega
  rw [hend] at hlt ⊢
  simp only [evalFS] at h
  rcases resolveVal_cases (fo := fo) (host := host) st sym with ⟨wf, st1, hr⟩ | ⟨e, hr⟩ <;> simp only [hr] at h
  · have hinp := resolveVal_inp hr
    have h1 : Reach fo host P ⟨pc, rs, st.inp :: vs, fr, st.trace⟩ ⟨pc + 1, wf :: rs, st1.inp :: vs, fr, st1.trace⟩ := by
      rw [hinp]; exact .single (step_resolve hi0 hc (by omega) rfl rfl hr)
    rcases eval_cases (fo := fo) (host := host) (bodies := bodies) (cur := cur) (fuel := fuel) (x := a) (st := st1)
      with ⟨wa, st2, hy⟩ | ⟨w, st2, hy⟩ | ⟨e, hy⟩ | hy <;> simp only [hy] at h
    · have iha := (ih a cur st1 _ _ hy root (pc + 1) (wf :: rs) vs fr entry hla hwf.1 hj hent
        (by omega)).toReach
      rcases eval_cases (fo := fo) (host := host) (bodies := bodies) (cur := cur) (fuel := fuel) (x := b) (st := st2)
        with ⟨wb, st3, hz⟩ | ⟨w, st3, hz⟩ | ⟨e, hz⟩ | hz <;> simp only [hz] at h
      · have ihb := (ih b cur st2 _ _ hz root (pc + 1 + len a) (wa :: wf :: rs) vs fr entry hlb hwf.2
          hj hent (by omega)).toReach
        have hml := step_makeList (fo := fo) (host := host) (P := P) (pc := pc + 1 + len a + len b)
          (regs := wb :: wa :: wf :: rs) (vs := st3.inp :: vs) (fr := fr) (tr := st3.trace) hi1 (by omega) (by simp)
        simp only [List.take_succ_cons, List.take_zero, List.reverse_cons, List.reverse_nil, List.nil_append,
          List.cons_append, List.drop_succ_cons, List.drop_zero] at hml
        obtain ⟨v, rfl, hr⟩ := apply_reach ihA h (regs := .list [wa, wb] :: wf :: rs) (rs := rs) hlt (step_apply hi2)
        exact ResOK.ofReach ((((h1.trans iha).trans ihb).snoc hml).trans hr)
      · simp only [Out.ok.injEq, Prod.mk.injEq] at h
        obtain ⟨rfl, rfl⟩ := h
        exact ResOK.sub_restart (pend := [wa, wf]) (h1.trans iha)
          (ih b cur st2 _ _ hz root (pc + 1 + len a) (wa :: wf :: rs) vs fr entry hlb hwf.2 hj hent
            (by omega))
          (fun ht => (noR_sound (by simpa [tailR] using ht) h0).elim)
      · simp at h
      · simp at h
    · simp only [Out.ok.injEq, Prod.mk.injEq] at h
      obtain ⟨rfl, rfl⟩ := h
      exact ResOK.sub_restart (pend := [wf]) h1
        (ih a cur st1 _ _ hy root (pc + 1) (wf :: rs) vs fr entry hla hwf.1 hj hent (by omega))
        (fun ht => (noR_sound (by simpa [tailR] using ht) h0).elim)
    · simp at h
    · simp at h
  · simp at h

/-! ### out-of-line bodies -/

/-- the body of a conditional or of an arm of an else-chain: laid out at `tb`, it returns to the join -/
theorem branch_body {fuel : Nat} (ih : SimE fo host P bodies fuel) {cur : Nat} {t : Expr F} {st st' : St F} {res : Res F}
    (h : evalFS fo host bodies cur fuel t st = .ok (res, st'))
    {j tb join pcJoin entry : Nat} {rs vs : List (Val F)} {fr : List (Frame F)}
    (hlt : Located P j cur tb t)
    (hterm : InstrsAt P (tb + len t) (termsAfter P (tb + len t) [(.jumpTo, some join)]))
    (hwf : wfC t = true) (hjoin : P.jumps[join]? = some pcJoin) (hne : join ≠ cur)
    (hpj : pcJoin < P.instrs.size) (hj : P.jumps[cur]? = some entry) (hent : entry < P.instrs.size) :
    tb < P.instrs.size ∧ ResOK fo host P entry tb pcJoin (tailR t) rs vs fr st res st' := by
  rw [termsAfter_jump] at hterm
  simp only [InstrsAt, and_true] at hterm
  have hsz := lt_size_of_get hterm
  have := len_pos t
  refine ⟨by omega, ?_⟩
  have ihx := ih t cur st res st' h j tb rs vs fr entry hlt hwf hj hent hsz
  cases res with
  | val v => exact ResOK.ofReach (ihx.toReach.snoc (step_jumpTo hterm hjoin hpj))
  | restart v => exact ihx

theorem sim_cond {fuel : Nat} (ih : SimE fo host P bodies fuel)
    (onTrue : Bool) (c t : Expr F) : SimAt fo host P bodies (fuel + 1) (.cond onTrue c t) := by
  intro cur st res st' h root pc rs vs fr entry hloc hwf hj hent hlt
  simp only [Located] at hloc
  obtain ⟨hlc, j, join, tb, hi1, hi2, hjj, hjoin, hne, hlt', hterm⟩ := hloc
  simp only [wfC, Bool.and_eq_true] at hwf
  have hend : pc + len (.cond onTrue c t) = pc + len c + 2 := by simp only [len]; omega
  rw [hend] at hlt ⊢
  simp only [evalFS] at h
  rcases eval_cases (fo := fo) (host := host) (bodies := bodies) (cur := cur) (fuel := fuel) (x := c) (st := st)
    with ⟨wc, st1, hx⟩ | ⟨w, st1, hx⟩ | ⟨e, hx⟩ | hx <;> simp only [hx] at h
  · have ihc := (ih c cur st _ _ hx root pc rs vs fr entry hlc hwf.1 hj hent (by omega)).toReach
    split at h
    · rename_i htr
      obtain ⟨htb, hb⟩ := branch_body (rs := rs) (vs := vs) (fr := fr) ih h hlt' hterm hwf.2 hjoin hne hlt hj hent
      have hjmp := step_jumpIf (fo := fo) (host := host) (rs := rs) (vs := st1.inp :: vs) (fr := fr) (tr := st1.trace)
        (d := wc) hi1 hjj htb (by omega)
      simp only [htr, if_true] at hjmp
      have pre := ihc.snoc hjmp
      cases res with
      | val v => exact ResOK.ofReach (pre.trans hb.toReach)
      | restart v =>
        refine ResOK.sub_restart (pend := []) pre hb (fun ht => ?_)
        simp only [tailR, Bool.and_eq_true] at ht
        exact ⟨ht.2, rfl⟩
    · rename_i htr
      simp only [Out.ok.injEq, Prod.mk.injEq] at h
      obtain ⟨rfl, rfl⟩ := h
      have htb : tb < P.instrs.size := by
        rw [termsAfter_jump] at hterm
        simp only [InstrsAt, and_true] at hterm
        have := lt_size_of_get hterm
        omega
      have hjmp := step_jumpIf (fo := fo) (host := host) (rs := rs) (vs := st1.inp :: vs) (fr := fr) (tr := st1.trace)
        (d := wc) hi1 hjj htb (by omega)
      simp only [htr, Bool.false_eq_true, if_false] at hjmp
      exact ResOK.ofReach ((ihc.snoc hjmp).snoc (step_putValue hi2 (by omega)))
  · simp only [Out.ok.injEq, Prod.mk.injEq] at h
    obtain ⟨rfl, rfl⟩ := h
    refine ResOK.sub_restart (pend := []) (.refl _)
      (ih c cur st _ _ hx root pc rs vs fr entry hlc hwf.1 hj hent (by omega)) (fun ht => ?_)
    simp only [tailR, Bool.and_eq_true] at ht
    exact (noR_sound ht.1 hx).elim
  · simp at h
  · simp at h

theorem simC_step {fuel : Nat} (ih : SimE fo host P bodies fuel) (ihC : SimC fo host P bodies fuel) :
    SimC fo host P bodies (fuel + 1) := by
  intro cur arms fe st res st' h root pc rs vs fr entry join hla hlf hwa hwf hjoin hj hent hlt
  cases arms with
  | nil =>
    simp only [evalChainS] at h
    simp only [lenArms, Nat.add_zero] at hlf hlt ⊢
    have := ih fe cur st res st' h root pc rs vs fr entry hlf hwf hj hent hlt
    simpa [tailRArms] using this
  | cons arm rest =>
    obtain ⟨onTrue, c, t⟩ := arm
    obtain ⟨hjoin, hne⟩ := hjoin (by simp)
    simp only [LocatedArms] at hla
    obtain ⟨hlc, ⟨j, tb, hi1, hjj, hlt', hterm⟩, hlr⟩ := hla
    simp only [wfCArms, Bool.and_eq_true] at hwa
    have hend : pc + lenArms ((onTrue, c, t) :: rest) + len fe = pc + len c + 1 + lenArms rest + len fe := by
      simp only [lenArms]; omega
    rw [hend] at hlt hjoin ⊢
    have hlf' : Located P root cur (pc + len c + 1 + lenArms rest) fe := by
      have : pc + lenArms ((onTrue, c, t) :: rest) = pc + len c + 1 + lenArms rest := by simp only [lenArms]; omega
      rw [this] at hlf; exact hlf
    simp only [evalChainS] at h
    rcases eval_cases (fo := fo) (host := host) (bodies := bodies) (cur := cur) (fuel := fuel) (x := c) (st := st)
      with ⟨wc, st1, hx⟩ | ⟨w, st1, hx⟩ | ⟨e, hx⟩ | hx <;> simp only [hx] at h
    · have ihc := (ih c cur st _ _ hx root pc rs vs fr entry hlc hwa.1.1 hj hent (by omega)).toReach
      have htb : tb < P.instrs.size := by
        rw [termsAfter_jump] at hterm
        simp only [InstrsAt, and_true] at hterm
        have := lt_size_of_get hterm
        omega
      have hjmp := step_jumpIf (fo := fo) (host := host) (rs := rs) (vs := st1.inp :: vs) (fr := fr) (tr := st1.trace)
        (d := wc) hi1 hjj htb (by omega)
      split at h
      · rename_i htr
        obtain ⟨_, hb⟩ := branch_body (rs := rs) (vs := vs) (fr := fr) ih h hlt' hterm hwa.1.2 hjoin hne hlt hj hent
        simp only [htr, if_true] at hjmp
        have pre := ihc.snoc hjmp
        cases res with
        | val v => exact ResOK.ofReach (pre.trans hb.toReach)
        | restart v =>
          refine ResOK.sub_restart (pend := []) pre hb (fun ht => ?_)
          simp only [tailRArms, Bool.and_eq_true] at ht
          exact ⟨ht.1.1.2, rfl⟩
      · rename_i htr
        simp only [htr, Bool.false_eq_true, if_false] at hjmp
        have pre := ihc.snoc hjmp
        have ihr := ihC cur rest fe st1 res st' h root (pc + len c + 1) rs vs fr entry join hlr hlf' hwa.2 hwf
          (fun _ => ⟨hjoin, hne⟩) hj hent hlt
        cases res with
        | val v => exact ResOK.ofReach (pre.trans ihr.toReach)
        | restart v =>
          refine ResOK.sub_restart (pend := []) pre ihr (fun ht => ?_)
          simp only [tailRArms, Bool.and_eq_true] at ht
          exact ⟨by simp [ht.1.2, ht.2], rfl⟩
    · simp only [Out.ok.injEq, Prod.mk.injEq] at h
      obtain ⟨rfl, rfl⟩ := h
      refine ResOK.sub_restart (pend := []) (.refl _)
        (ih c cur st _ _ hx root pc rs vs fr entry hlc hwa.1.1 hj hent (by omega)) (fun ht => ?_)
      simp only [tailRArms, Bool.and_eq_true] at ht
      exact (noR_sound ht.1.1.1 hx).elim
    · simp at h
    · simp at h

theorem simCN_step {fuel : Nat} (ih : SimE fo host P bodies fuel) (ihC : SimCN fo host P bodies fuel) :
    SimCN fo host P bodies (fuel + 1) := by
  intro cur arms st res st' h root pc rs vs fr entry join hla hwa hjoin hj hent hlt
  cases arms with
  | nil => simp [evalChainS] at h
  | cons arm rest =>
    obtain ⟨onTrue, c, t⟩ := arm
    obtain ⟨hjoin, hne⟩ := hjoin (by simp)
    simp only [LocatedArms] at hla
    obtain ⟨hlc, ⟨j, tb, hi1, hjj, hlt', hterm⟩, hlr⟩ := hla
    simp only [wfCArms, Bool.and_eq_true] at hwa
    have hend : pc + lenArms ((onTrue, c, t) :: rest) = pc + len c + 1 + lenArms rest := by
      simp only [lenArms]; omega
    rw [hend] at hlt hjoin ⊢
    simp only [evalChainS] at h
    rcases eval_cases (fo := fo) (host := host) (bodies := bodies) (cur := cur) (fuel := fuel) (x := c) (st := st)
      with ⟨wc, st1, hx⟩ | ⟨w, st1, hx⟩ | ⟨e, hx⟩ | hx <;> simp only [hx] at h
    · have ihc := (ih c cur st _ _ hx root pc rs vs fr entry hlc hwa.1.1 hj hent (by omega)).toReach
      have htb : tb < P.instrs.size := by
        rw [termsAfter_jump] at hterm
        simp only [InstrsAt, and_true] at hterm
        have := lt_size_of_get hterm
        omega
      have hjmp := step_jumpIf (fo := fo) (host := host) (rs := rs) (vs := st1.inp :: vs) (fr := fr) (tr := st1.trace)
        (d := wc) hi1 hjj htb (by omega)
      split at h
      · rename_i htr
        obtain ⟨_, hb⟩ := branch_body (rs := rs) (vs := vs) (fr := fr) ih h hlt' hterm hwa.1.2 hjoin hne hlt hj hent
        simp only [htr, if_true] at hjmp
        have pre := ihc.snoc hjmp
        cases res with
        | val v => exact ResOK.ofReach (pre.trans hb.toReach)
        | restart v =>
          refine ResOK.sub_restart (pend := []) pre hb (fun ht => ?_)
          simp only [tailRArms, Bool.and_eq_true] at ht
          exact ⟨ht.1.2, rfl⟩
      · rename_i htr
        simp only [htr, Bool.false_eq_true, if_false] at hjmp
        have pre := ihc.snoc hjmp
        have ihr := ihC cur rest st1 res st' h root (pc + len c + 1) rs vs fr entry join hlr hwa.2
          (fun _ => ⟨hjoin, hne⟩) hj hent hlt
        cases res with
        | val v => exact ResOK.ofReach (pre.trans ihr.toReach)
        | restart v =>
          refine ResOK.sub_restart (pend := []) pre ihr (fun ht => ?_)
          simp only [tailRArms, Bool.and_eq_true] at ht
          exact ⟨ht.2, rfl⟩
    · simp only [Out.ok.injEq, Prod.mk.injEq] at h
      obtain ⟨rfl, rfl⟩ := h
      refine ResOK.sub_restart (pend := []) (.refl _)
        (ih c cur st _ _ hx root pc rs vs fr entry hlc hwa.1.1 hj hent (by omega)) (fun ht => ?_)
      simp only [tailRArms, Bool.and_eq_true] at ht
      exact (noR_sound ht.1.1 hx).elim
    · simp at h
    · simp at h

theorem sim_chain {fuel : Nat} (ihC : SimC fo host P bodies fuel) (ihCN : SimCN fo host P bodies fuel)
    (arms : List (Bool × Expr F × Expr F)) (final : Option (Expr F)) :
    SimAt fo host P bodies (fuel + 1) (.chain arms final) := by
  intro cur st res st' h root pc rs vs fr entry hloc hwf hj hent hlt
  cases final with
  | none =>
    rw [Located_chain] at hloc
    obtain ⟨join, hla, _, hjoin⟩ := hloc
    simp only [wfC_chain, Bool.and_eq_true] at hwf
    simp only [evalFS] at h
    cases arms with
    | nil => cases fuel <;> simp [evalChainS] at h
    | cons a rest =>
      have hend : pc + len (.chain (a :: rest) none) = pc + lenArms (a :: rest) := by rw [len_chain]; simp only; omega
      rw [hend] at hlt hjoin ⊢
      have := ihCN cur (a :: rest) st res st' h root pc rs vs fr entry join hla hwf.1 hjoin hj hent hlt
      rw [tailR_chain]
      simpa using this
  | some fe =>
    rw [Located_chain] at hloc
    obtain ⟨join, hla, hlf, hjoin⟩ := hloc
    simp only [wfC_chain, Bool.and_eq_true] at hwf
    have hend : pc + len (.chain arms (some fe)) = pc + lenArms arms + len fe := by rw [len_chain]; simp only; omega
    rw [hend] at hlt hjoin ⊢
    simp only [evalFS] at h
    have := ihC cur arms fe st res st' h root pc rs vs fr entry join hla hlf hwf.1 hwf.2 hjoin hj hent hlt
    rw [tailR_chain]
    exact this

/-- the right operand of `&&` / `||`: laid out at `tb`, followed by `Tis` and the jump to the join -/
theorem logical_body {fuel : Nat} (ih : SimE fo host P bodies fuel) {cur : Nat} {r : Expr F} {st st' : St F} {res : Res F}
    (h : evalFS fo host bodies cur fuel r st = .ok (res, st'))
    {j tb join pcJoin entry : Nat} {rs vs : List (Val F)} {fr : List (Frame F)}
    (hlr : Located P j cur tb r)
    (hterm : InstrsAt P (tb + len r) (termsAfter P (tb + len r) [(.tis, none), (.jumpTo, some join)]))
    (hwf : wfC r = true)
    (hjoin : P.jumps[join]? = some pcJoin)
    (hpj : pcJoin < P.instrs.size) (hj : P.jumps[cur]? = some entry) (hent : entry < P.instrs.size) :
    tb < P.instrs.size ∧
    match res with
    | .val v => Reach fo host P ⟨tb, rs, st.inp :: vs, fr, st.trace⟩
        ⟨pcJoin, Val.ofBool v.truthy :: rs, st'.inp :: vs, fr, st'.trace⟩
    | .restart v => ResOK fo host P entry tb pcJoin (tailR r) rs vs fr st (.restart v) st' := by
  have hpos := len_pos r
  rw [termsAfter_tis] at hterm
  simp only [InstrsAt, and_true] at hterm
  obtain ⟨ht1, ht2⟩ := hterm
  have hsz := lt_size_of_get ht1
  have hsz2 := lt_size_of_get ht2
  refine ⟨by omega, ?_⟩
  have ihx := ih r cur st res st' h j tb rs vs fr entry hlr hwf hj hent hsz
  cases res with
  | val v =>
    have hs : settle host st' (.val (Val.ofBool v.truthy)) = .ok (Val.ofBool v.truthy, st') := rfl
    have htis := step_unary (fo := fo) (host := host) (P := P) (rs := rs) (vs := st'.inp :: vs) (fr := fr)
      (x := v) ht1 hsz2 (by rfl) rfl hs
    exact (ihx.toReach.snoc htis).snoc (step_jumpTo ht2 hjoin hpj)
  | restart v => exact ihx

theorem sim_and {fuel : Nat} (ih : SimE fo host P bodies fuel)
    (l r : Expr F) : SimAt fo host P bodies (fuel + 1) (.and l r) := by
  intro cur st res st' h root pc rs vs fr entry hloc hwf hj hent hlt
  simp only [Located] at hloc
  obtain ⟨hll, j, join, tb, hi1, hjj, hjoin, hne, hlr, hterm⟩ := hloc
  simp only [wfC, Bool.and_eq_true] at hwf
  have hend : pc + len (.and l r) = pc + len l + 1 := by simp only [len]; omega
  rw [hend] at hlt ⊢
  simp only [evalFS] at h
  rcases eval_cases (fo := fo) (host := host) (bodies := bodies) (cur := cur) (fuel := fuel) (x := l) (st := st)
    with ⟨wl, st1, hx⟩ | ⟨w, st1, hx⟩ | ⟨e, hx⟩ | hx <;> simp only [hx] at h
  · have ihl := (ih l cur st _ _ hx root pc rs vs fr entry hll hwf.1 hj hent (by omega)).toReach
    split at h
    · rename_i htr
      rcases eval_cases (fo := fo) (host := host) (bodies := bodies) (cur := cur) (fuel := fuel) (x := r) (st := st1)
        with ⟨wr, st2, hy⟩ | ⟨w, st2, hy⟩ | ⟨e, hy⟩ | hy <;> simp only [hy] at h
      · obtain ⟨htb, hb⟩ := logical_body (rs := rs) (vs := vs) (fr := fr) ih hy hlr hterm hwf.2 hjoin
          hlt hj hent
        have hjmp := step_and (fo := fo) (host := host) (rs := rs) (vs := st1.inp :: vs) (fr := fr) (tr := st1.trace)
          (d := wl) hi1 hjj htb (by omega)
        simp only [htr, if_true] at hjmp
        simp only [Out.ok.injEq, Prod.mk.injEq] at h
        obtain ⟨rfl, rfl⟩ := h
        exact ResOK.ofReach ((ihl.snoc hjmp).trans hb)
      · obtain ⟨htb, hb⟩ := logical_body (rs := rs) (vs := vs) (fr := fr) ih hy hlr hterm hwf.2 hjoin
          hlt hj hent
        have hjmp := step_and (fo := fo) (host := host) (rs := rs) (vs := st1.inp :: vs) (fr := fr) (tr := st1.trace)
          (d := wl) hi1 hjj htb (by omega)
        simp only [htr, if_true] at hjmp
        simp only [Out.ok.injEq, Prod.mk.injEq] at h
        obtain ⟨rfl, rfl⟩ := h
        refine ResOK.sub_restart (pend := []) (ihl.snoc hjmp) hb (fun ht => ?_)
        simp only [tailR, Bool.and_eq_true] at ht
        exact ⟨ht.2, rfl⟩
      · simp at h
      · simp at h
    · rename_i htr
      simp only [Out.ok.injEq, Prod.mk.injEq] at h
      obtain ⟨rfl, rfl⟩ := h
      have htb : tb < P.instrs.size := by
        rw [termsAfter_tis] at hterm
        simp only [InstrsAt, and_true] at hterm
        have := lt_size_of_get hterm.1; omega
      have hjmp := step_and (fo := fo) (host := host) (rs := rs) (vs := st1.inp :: vs) (fr := fr) (tr := st1.trace)
        (d := wl) hi1 hjj htb (by omega)
      simp only [htr, Bool.false_eq_true, if_false] at hjmp
      exact ResOK.ofReach (ihl.snoc hjmp)
  · simp only [Out.ok.injEq, Prod.mk.injEq] at h
    obtain ⟨rfl, rfl⟩ := h
    refine ResOK.sub_restart (pend := []) (.refl _)
      (ih l cur st _ _ hx root pc rs vs fr entry hll hwf.1 hj hent (by omega)) (fun ht => ?_)
    simp only [tailR, Bool.and_eq_true] at ht
    exact (noR_sound ht.1 hx).elim
  · simp at h
  · simp at h

theorem sim_or {fuel : Nat} (ih : SimE fo host P bodies fuel)
    (l r : Expr F) : SimAt fo host P bodies (fuel + 1) (.or l r) := by
  intro cur st res st' h root pc rs vs fr entry hloc hwf hj hent hlt
  simp only [Located] at hloc
  obtain ⟨hll, j, join, tb, hi1, hjj, hjoin, hne, hlr, hterm⟩ := hloc
  simp only [wfC, Bool.and_eq_true] at hwf
  have hend : pc + len (.or l r) = pc + len l + 1 := by simp only [len]; omega
  rw [hend] at hlt ⊢
  simp only [evalFS] at h
  rcases eval_cases (fo := fo) (host := host) (bodies := bodies) (cur := cur) (fuel := fuel) (x := l) (st := st)
    with ⟨wl, st1, hx⟩ | ⟨w, st1, hx⟩ | ⟨e, hx⟩ | hx <;> simp only [hx] at h
  · have ihl := (ih l cur st _ _ hx root pc rs vs fr entry hll hwf.1 hj hent (by omega)).toReach
    split at h
    · rename_i htr
      simp only [Out.ok.injEq, Prod.mk.injEq] at h
      obtain ⟨rfl, rfl⟩ := h
      have htb : tb < P.instrs.size := by
        rw [termsAfter_tis] at hterm
        simp only [InstrsAt, and_true] at hterm
        have := lt_size_of_get hterm.1; omega
      have hjmp := step_or (fo := fo) (host := host) (rs := rs) (vs := st1.inp :: vs) (fr := fr) (tr := st1.trace)
        (d := wl) hi1 hjj htb (by omega)
      simp only [htr, if_true] at hjmp
      exact ResOK.ofReach (ihl.snoc hjmp)
    · rename_i htr
      rcases eval_cases (fo := fo) (host := host) (bodies := bodies) (cur := cur) (fuel := fuel) (x := r) (st := st1)
        with ⟨wr, st2, hy⟩ | ⟨w, st2, hy⟩ | ⟨e, hy⟩ | hy <;> simp only [hy] at h
      · obtain ⟨htb, hb⟩ := logical_body (rs := rs) (vs := vs) (fr := fr) ih hy hlr hterm hwf.2 hjoin
          hlt hj hent
        have hjmp := step_or (fo := fo) (host := host) (rs := rs) (vs := st1.inp :: vs) (fr := fr) (tr := st1.trace)
          (d := wl) hi1 hjj htb (by omega)
        simp only [htr, Bool.false_eq_true, if_false] at hjmp
        simp only [Out.ok.injEq, Prod.mk.injEq] at h
        obtain ⟨rfl, rfl⟩ := h
        exact ResOK.ofReach ((ihl.snoc hjmp).trans hb)
      · obtain ⟨htb, hb⟩ := logical_body (rs := rs) (vs := vs) (fr := fr) ih hy hlr hterm hwf.2 hjoin
          hlt hj hent
        have hjmp := step_or (fo := fo) (host := host) (rs := rs) (vs := st1.inp :: vs) (fr := fr) (tr := st1.trace)
          (d := wl) hi1 hjj htb (by omega)
        simp only [htr, Bool.false_eq_true, if_false] at hjmp
        simp only [Out.ok.injEq, Prod.mk.injEq] at h
        obtain ⟨rfl, rfl⟩ := h
        refine ResOK.sub_restart (pend := []) (ihl.snoc hjmp) hb (fun ht => ?_)
        simp only [tailR, Bool.and_eq_true] at ht
        exact ⟨ht.2, rfl⟩
      · simp at h
      · simp at h
  · simp only [Out.ok.injEq, Prod.mk.injEq] at h
    obtain ⟨rfl, rfl⟩ := h
    refine ResOK.sub_restart (pend := []) (.refl _)
      (ih l cur st _ _ hx root pc rs vs fr entry hll hwf.1 hj hent (by omega)) (fun ht => ?_)
    simp only [tailR, Bool.and_eq_true] at ht
    exact (noR_sound ht.1 hx).elim
  · simp at h
  · simp at h

end Garnish.Abs
