/-
Refinement lemmas for comparison.rs, part 1: the index loop of `cmp_list` computes Abs/Ops `cmpTail` /
`cmpListFrom` (for integer start indexes inside the item getter's contract), with a sufficient fuel.
-/
import Garnish.Lemmas.RuntimeBase
import Garnish.Lemmas.Num
import Garnish.Model.Runtime.Comparison
import Garnish.Model.Runtime.CompareSpec
set_option linter.unusedSimpArgs false
set_option linter.unusedVariables false
namespace Garnish.Lemmas.Runtime
open Garnish Gen Garnish.Abs Garnish.Model.Equality Garnish.Model.Runtime

variable {F σ : Type} {S : RStore F σ} (fo : FloatOps F)

theorem increment_nat (i : Nat) (h : (i : Int) + 1 ≤ 2147483647) :
    Number.increment fo (.int (i : Int)) = some (.int ((i + 1 : Nat) : Int)) := by
  have hr : InRange ((i : Int) + 1) := by unfold InRange; omega
  simp [Number.increment, Number.overflowingAdd, Lemmas.ovf_eq, hr]

theorem numLt_int (x y : Int) : numLt fo (.int x) (.int y) = decide (x < y) := by
  simp only [numLt, Number.partialCmp]
  by_cases h : x < y
  · simp [h, Int.compare_eq_lt.mpr h]
  · have : compare x y ≠ .lt := fun e => h (Int.compare_eq_lt.mp e)
    simp only [h, decide_false]
    split
    · rename_i e; simp at e; exact absurd e this
    · rfl

theorem compare_cast (n m : Nat) : compare (n : Int) (m : Int) = compare n m := by
  rcases Nat.lt_trichotomy n m with h | h | h
  · rw [Nat.compare_eq_lt.mpr h, Int.compare_eq_lt]; omega
  · subst h; simp
  · rw [Nat.compare_eq_gt.mpr h, Int.compare_eq_gt]; omega

/-- the loop of `cmp_list` from integer indexes inside the contract of the item getter -/
theorem cmpListLoop_spec (getFunc : σ → Nat → Number F → Outcome (Option Nat)) (left right : Nat) (s0 : σ)
    (a b : List Nat) (ha : a.length ≤ 2147483647) (hb : b.length ≤ 2147483647)
    (hgl : ∀ i, i < a.length → getFunc s0 left (.int i) = .ok a[i]?)
    (hgr : ∀ i, i < b.length → getFunc s0 right (.int i) = .ok b[i]?) :
    ∀ (fuel i j : Nat), min (a.length - i) (b.length - j) + 1 ≤ fuel →
      cmpListLoop fo getFunc left right (.int a.length) (.int b.length) fuel (.int i) (.int j) s0
        = .ok (some (cmpTail (a.drop i) (b.drop j) a.length b.length), s0) := by
  intro fuel
  induction fuel with
  | zero => intro i j h; omega
  | succ fuel ih =>
    intro i j hf
    rw [cmpListLoop]
    simp only [numLt_int]
    by_cases hc : i < a.length ∧ j < b.length
    · have h1 : ((i : Int) < (a.length : Int)) := by omega
      have h2 : ((j : Int) < (b.length : Int)) := by omega
      simp only [h1, h2, decide_true, Bool.and_self, if_true]
      have ea : a.drop i = a[i] :: a.drop (i + 1) := (List.drop_eq_getElem_cons hc.1)
      have eb : b.drop j = b[j] :: b.drop (j + 1) := (List.drop_eq_getElem_cons hc.2)
      rw [ea, eb, cmpTail]
      have gl := readR_ok (g := fun s => getFunc s left (Number.int (i : Int))) (hgl i hc.1)
      have gr := readR_ok (g := fun s => getFunc s right (Number.int (j : Int))) (hgr j hc.2)
      rw [bind_ok gl, bind_ok gr, List.getElem?_eq_getElem hc.1, List.getElem?_eq_getElem hc.2]
      simp only [optCmp]
      rcases Nat.lt_trichotomy a[i] b[j] with h | h | h
      · rw [Nat.compare_eq_lt.mpr h]; simp [h]
      · have hcmp : compare a[i] b[j] = .eq := Nat.compare_eq_eq.mpr h
        have n1 : ¬ a[i] < b[j] := by omega
        have n2 : ¬ a[i] > b[j] := by omega
        rw [hcmp]
        simp only [n1, n2, if_false]
        have i1 := increment_nat fo i (by omega)
        have i2 := increment_nat fo j (by omega)
        rw [i1, bind_ok (orNumErr_some _ s0), i2, bind_ok (orNumErr_some _ s0)]
        exact ih (i + 1) (j + 1) (by omega)
      · rw [Nat.compare_eq_gt.mpr h]
        have : ¬ a[i] < b[j] := by omega
        simp [this, h]
    · have hcc : ¬ (decide ((i : Int) < (a.length : Int)) && decide ((j : Int) < (b.length : Int))) = true := by
        simp only [Bool.and_eq_true, decide_eq_true_eq]
        intro ⟨x, y⟩; exact hc ⟨by omega, by omega⟩
      simp only [hcc, if_false]
      have : cmpTail (a.drop i) (b.drop j) a.length b.length = compare a.length b.length := by
        by_cases h1 : i < a.length
        · have h2 : ¬ j < b.length := fun h => hc ⟨h1, h⟩
          rw [List.drop_eq_nil_of_le (Nat.le_of_not_lt h2)]
          cases a.drop i <;> simp [cmpTail]
        · rw [List.drop_eq_nil_of_le (Nat.le_of_not_lt h1)]
          simp [cmpTail]
      rw [this]
      simp [Number.partialCmp, compare_cast]

/-- `cmp_list` from integer start indexes -/
theorem cmpList_spec (getFunc : σ → Nat → Number F → Outcome (Option Nat)) (lenFunc : σ → Nat → Outcome Nat)
    (seq : Nat → Option (List Nat)) (s0 : σ) (hI : Indexes (lenFunc s0) (getFunc s0) seq)
    (left right : Nat) (a b : List Nat) (hsa : seq left = some a) (hsb : seq right = some b)
    (ha : a.length ≤ 2147483647) (hb : b.length ≤ 2147483647) (i j fuel : Nat)
    (hf : min a.length b.length + 1 ≤ fuel) :
    Model.Runtime.cmpList fo fuel left right (.int i) (.int j) getFunc lenFunc s0 = .ok (some (cmpListFrom a b i j), s0) := by
  obtain ⟨hl1, hg1⟩ := hI left a hsa
  obtain ⟨hl2, hg2⟩ := hI right b hsb
  have w1 : (sizeToNumber a.length : Number F) = .int a.length := by
    simp only [sizeToNumber]; rw [Lemmas.wrap_of_inRange (by unfold InRange; omega)]
  have w2 : (sizeToNumber b.length : Number F) = .int b.length := by
    simp only [sizeToNumber]; rw [Lemmas.wrap_of_inRange (by unfold InRange; omega)]
  rw [Model.Runtime.cmpList, bind_ok (readR_ok (g := fun s => lenFunc s left) hl1),
    bind_ok (readR_ok (g := fun s => lenFunc s right) hl2)]
  simp only [w1, w2]
  exact cmpListLoop_spec fo getFunc left right s0 a b ha hb hg1 hg2 fuel i j (by omega)

theorem cmpTail_eq_cmpList : ∀ (xs ys : List Nat) (k : Nat),
    cmpTail xs ys (k + xs.length) (k + ys.length) = Abs.cmpList xs ys
  | [], [], k => by simp [cmpTail, Abs.cmpList]
  | [], y :: ys, k => by
    simp only [cmpTail, Abs.cmpList, List.length_nil, List.length_cons]
    exact Nat.compare_eq_lt.mpr (by omega)
  | x :: xs, [], k => by
    simp only [cmpTail, Abs.cmpList, List.length_nil, List.length_cons]
    exact Nat.compare_eq_gt.mpr (by omega)
  | x :: xs, y :: ys, k => by
    have := cmpTail_eq_cmpList xs ys (k + 1)
    simp only [cmpTail, Abs.cmpList, List.length_cons]
    rw [show k + (xs.length + 1) = k + 1 + xs.length by omega, show k + (ys.length + 1) = k + 1 + ys.length by omega,
      this]

theorem cmpListFrom_zero (a b : List Nat) : cmpListFrom a b 0 0 = Abs.cmpList a b := by
  have := cmpTail_eq_cmpList a b 0
  simpa [cmpListFrom] using this


end Garnish.Lemmas.Runtime
