/-
Refinement lemmas for casting.rs, part 4: the arms of `castBody` that build a list from a symbol list, a range, a
text or a byte list, and the `(CharList, Char)` arm, each against the corresponding arm of Abs/Casts `castCore`.
-/
import Garnish.Lemmas.RuntimeCast3
set_option linter.unusedSimpArgs false
set_option linter.unusedVariables false
namespace Garnish.Lemmas.Runtime
open Garnish Gen Garnish.Abs Garnish.Model.Equality Garnish.Model.Runtime

variable {F σ : Type} {S : RStore F σ} {C : CastOps σ} {env : CastEnv F} (fo : FloatOps F)

theorem _root_.Garnish.Model.Runtime.StoreLawsC.numAdder (L : StoreLawsC S C env) : ItemAdder S S.addNumber (Val.num (F := F)) :=
  ⟨L.addNumber, L.buildAddNumber⟩
theorem _root_.Garnish.Model.Runtime.StoreLawsC.symAdder (L : StoreLawsC S C env) : ItemAdder S S.addSymbol (Val.sym (F := F)) :=
  ⟨L.addSymbol, L.buildAddSymbol⟩
theorem _root_.Garnish.Model.Runtime.StoreLawsC.charAdder (L : StoreLawsC S C env) : ItemAdder S S.addChar (Val.char (F := F)) :=
  ⟨L.addChar, L.buildAddChar⟩
theorem _root_.Garnish.Model.Runtime.StoreLawsC.byteAdder (L : StoreLawsC S C env) : ItemAdder S S.addByte (Val.byte (F := F)) :=
  ⟨L.addByte, L.buildAddByte⟩

theorem numberToSize_eq (n : Number F) : (numberToSize fo n).getD 0 = numToSize fo n := by cases n <;> rfl
theorem numberToSize_some (n : Number F) : numberToSize fo n = some (numToSize fo n) := by cases n <;> rfl

theorem buildList_simple (declared : Nat) (items : List (Val F)) :
    buildList .simple declared items = .val (.list items) := rfl

theorem buildList_exact (st : StoreKind) (items : List (Val F)) :
    buildList st items.length items = .val (.list items) := by cases st <;> simp [buildList]

/-! ### `get_range`, exactly -/

theorem getRange_num {s0 : σ} {ra : Nat} {x y : Number F}
    (h : Decodes (S.view s0) ra (.range (.num x) (.num y))) :
    getRange fo S ra s0 = match Abs.rangeLen fo x y with
      | some len => .ok ((x, y, len), s0)
      | none => .err .number := by
  cases h with
  | range _ hrange ds de =>
    rw [getRange, bind_ok (getRangeRaw_of hrange)]
    simp only []
    rw [bind_ok (getDataType_of ds), bind_ok (getDataType_of de)]
    simp only [Val.typeOf]
    rw [bind_ok (getNumber_of ds), bind_ok (getNumber_of de), bind_apply, rangeLen_rm]
    cases Abs.rangeLen fo x y <;> rfl

theorem getRange_nonnum {s0 : σ} {ra : Nat} {a b : Val F} (h : Decodes (S.view s0) ra (.range a b))
    (hn : ¬ (a.typeOf = .number ∧ b.typeOf = .number)) : getRange fo S ra s0 = .err .state := by
  cases h with
  | range _ hrange ds de =>
    rw [getRange, bind_ok (getRangeRaw_of hrange)]
    simp only []
    rw [bind_ok (getDataType_of ds), bind_ok (getDataType_of de)]
    generalize a.typeOf = t1 at hn ⊢
    generalize b.typeOf = t2 at hn ⊢
    cases t1
    case number =>
      cases t2
      case number => exact absurd ⟨rfl, rfl⟩ hn
      all_goals rfl
    all_goals rfl

theorem getRange_nonrange (L : StoreLaws S) {s0 : σ} {ra : Nat} {v : Val F} (h : Decodes (S.view s0) ra v)
    (hr : v.typeOf ≠ .range) : getRange fo S ra s0 = .err .data := by
  have : (S.view s0).range ra = none := by
    cases hx : (S.view s0).range ra with
    | none => rfl
    | some p =>
      have := L.rangeTyped s0 ra p hx
      rw [EqualityRefine.decodes_typeOf h] at this
      exact absurd (Option.some.inj this) hr
  rw [getRange, bind_err (getRangeRaw_none this)]

theorem rangeToList_nonnum (st : StoreKind) {a b : Val F} (hn : ¬ (a.typeOf = .number ∧ b.typeOf = .number)) :
    rangeToList fo st a b = .err .state := by
  cases a <;> cases b <;> first | rfl | (exfalso; exact hn ⟨rfl, rfl⟩)

/-! ### the arms -/

/-- `(SymbolList, List)` -/
theorem castBody_symbolListList (L : StoreLawsC S C env) (fuel : Nat) {s s0 : σ} {rest : List Nat} {l r : Nat}
    {ps : List (SymPart F)} (e0 : Eff S s s0 rest (S.vals s)) (hl : Decodes (S.view s0) l (.symList ps)) :
    Pushed S s ((castBody fo S C fuel l r .symbolList .list >>= fun _ => pure (none : Option Nat)) s0) none rest
      (.list (ps.map symPartVal)) := by
  have hiter : getSymbolListIter S l s0 = .ok (ps, s0) := by
    simp [getSymbolListIter, RM.lift, symList_of hl, fetch, Outcome.ofOption, Outcome.bind]
  obtain ⟨hlen, _⟩ := L.symIdx s0 l ps (symList_of hl)
  have := buildTail (n := ps.length) L.toStoreLaws e0
    (fun t s1 _ hb => symListLoop_spec L.toStoreLaws L.symAdder L.numAdder ps t [] s1 hb)
  have harm : castArm .symbolList .list = .symbolListList := rfl
  unfold castBody
  rw [harm]
  simp only []
  rw [bind_ok2 hiter, bind_ok2 (readR_ok (g := fun st => S.symLen st l) hlen)]
  exact this

/-- `(Range, List)` on two number ends whose length exists -/
theorem castBody_rangeList (L : StoreLawsC S C env) (fuel : Nat) {s s0 : σ} {rest : List Nat} {l r : Nat}
    {a b : Val F} (e0 : Eff S s s0 rest (S.vals s)) (hl : Decodes (S.view s0) l (.range a b))
    (hfuel : ∀ x y len, a = .num x → b = .num y → Abs.rangeLen fo x y = some len → numToSize fo len + 1 ≤ fuel) :
    RefinesCast S s ((castBody fo S C fuel l r .range .list >>= fun _ => pure (none : Option Nat)) s0) none rest l r
      (rangeToList fo .simple a b) := by
  have harm : castArm .range .list = .rangeList := rfl
  unfold castBody
  rw [harm]
  simp only []
  by_cases hn : a.typeOf = .number ∧ b.typeOf = .number
  · obtain ⟨x, rfl⟩ := typeOf_number hn.1
    obtain ⟨y, rfl⟩ := typeOf_number hn.2
    cases hlen : Abs.rangeLen fo x y with
    | none =>
      have hg : getRange fo S l s0 = .err .number := by rw [getRange_num fo hl, hlen]
      simp only [rangeToList, hlen]
      exact bind_err (bind_err hg)
    | some len =>
      have hg : getRange fo S l s0 = .ok ((x, y, len), s0) := by rw [getRange_num fo hl, hlen]
      have hf := hfuel x y len rfl rfl hlen
      have hloop := fun t s1 (hb : S.building s1 = some (t, [])) =>
        rangeListLoop_spec fo L.toStoreLaws L.numAdder (numToSize fo len) y (numToSize fo len) fuel 0 x t [] s1
          (by omega) hf hb
      rw [bind_ok2 hg]
      simp only [rangeToList, hlen, numberToSize_eq]
      cases hri : rangeItems fo (numToSize fo len) x y with
      | ok xs =>
        simp only [hri] at hloop
        simp only [buildList_simple]
        exact buildTail (n := numToSize fo len) L.toStoreLaws e0 (fun t s1 _ hb => hloop t s1 hb)
      | error err =>
        simp only [hri] at hloop
        obtain ⟨t0, s1, h1, e1, b1⟩ := L.startList (numToSize fo len) s0
        show _ = Outcome.err err
        rw [bind_ok2 h1]
        exact bind_err (bind_err (hloop t0 s1 b1))
  · rw [rangeToList_nonnum fo _ hn]
    exact bind_err (bind_err (getRange_nonnum fo hl hn))

/-- the text / byte list at `addr` converts to the list of its elements (`list_from_*` from 0 to the length) -/
theorem listFromSeq_full (L : StoreLaws S) {len : σ → Nat → Outcome Nat}
    {item : σ → Nat → Number F → Outcome (Option Nat)} {add : Nat → RM σ Nat} {mk : Nat → Val F}
    (hadd : ItemAdder S add mk) (fuel : Nat) {s s0 : σ} {rest : List Nat} (addr : Nat) (vseq : Val F) (xs : List Nat)
    (hmax : xs.length ≤ 2147483647)
    (e0 : Eff S s s0 rest (S.vals s)) (hd : Decodes (S.view s0) addr vseq)
    (hlen : ∀ s, Decodes (S.view s) addr vseq → len s addr = .ok xs.length)
    (hitem : ∀ s, Decodes (S.view s) addr vseq → ∀ i, i < xs.length → item s addr (.int i) = .ok xs[i]?)
    (i : Nat) (e : Int) (he : e ≤ xs.length) (hfuel : (e - i).toNat + 1 ≤ fuel) :
    Pushed S s ((listFromSeq fo S len item add fuel addr (.int (i : Int)) (.int e) >>= fun _ => pure (none : Option Nat)) s0)
      none rest (.list (((xs.drop i).take (e - i).toNat).map mk)) := by
  have hloop := fun t s1 (hd1 : Decodes (S.view s1) addr vseq) (hb : S.building s1 = some (t, [])) =>
    listFromLoop_spec fo L hadd addr vseq xs hmax hitem e he (e - i).toNat fuel i t [] s1 rfl hfuel hd1 hb
  obtain ⟨t0, s1, h1, e1, b1⟩ := L.startList xs.length s0
  obtain ⟨t2, s2, new, h2, e2, b2, d2⟩ := hloop t0 s1 (e1.dec hd) b1
  rw [e1.regs, e1.vals] at e2
  obtain ⟨a, s3, h3, d3, e3⟩ := L.endList t2 new _ s2 (by simpa using b2) d2
  rw [e2.regs, e2.vals] at e3
  obtain ⟨s4, h4, e4⟩ := L.pushRegister a s3
  rw [e3.regs, e3.vals, e0.regs, e0.vals] at e4
  refine ⟨a, s4, ?_, e4.dec d3, ((e0.trans (e1.trans e2)).trans e3).trans e4⟩
  rw [listFromSeq, bind_ok2 (readR_ok (g := fun st => len st addr) (hlen s0 hd)), bind_ok2 h1, bind_ok2 h2, bind_ok2 h3, bind_ok h4]; rfl

theorem charSeq_laws (L : StoreLaws S) (addr : Nat) (cs : List Nat) :
    (∀ s, Decodes (S.view s) addr (.chars cs) → S.charLen s addr = .ok cs.length) ∧
    (∀ s, Decodes (S.view s) addr (.chars cs) → ∀ i, i < cs.length → S.charItem s addr (.int i) = .ok cs[i]?) :=
  ⟨fun s hd => (L.charIdx s addr cs (chars_of hd)).1, fun s hd => (L.charIdx s addr cs (chars_of hd)).2⟩

theorem byteSeq_laws (L : StoreLaws S) (addr : Nat) (bs : List Nat) :
    (∀ s, Decodes (S.view s) addr (.bytes bs) → S.byteLen s addr = .ok bs.length) ∧
    (∀ s, Decodes (S.view s) addr (.bytes bs) → ∀ i, i < bs.length → S.byteItem s addr (.int i) = .ok bs[i]?) :=
  ⟨fun s hd => (L.byteIdx s addr bs (bytes_of hd)).1, fun s hd => (L.byteIdx s addr bs (bytes_of hd)).2⟩

/-- `(CharList, List)` -/
theorem castBody_charListList (L : StoreLawsC S C env) (fuel : Nat) {s s0 : σ} {rest : List Nat} {l r : Nat}
    {cs : List Nat} (e0 : Eff S s s0 rest (S.vals s)) (hl : Decodes (S.view s0) l (.chars cs))
    (hmax : cs.length ≤ 2147483647) (hfuel : cs.length + 1 ≤ fuel) :
    Pushed S s ((castBody fo S C fuel l r .charList .list >>= fun _ => pure (none : Option Nat)) s0) none rest
      (.list (cs.map .char)) := by
  obtain ⟨hlen, hitem⟩ := charSeq_laws L.toStoreLaws l cs
  have := listFromSeq_full fo L.toStoreLaws L.charAdder fuel l (.chars cs) cs hmax e0 hl hlen hitem 0 cs.length
    (Int.le_refl _) (by simpa using hfuel)
  have harm : castArm .charList .list = .charListList := rfl
  unfold castBody
  rw [harm]
  simp only []
  rw [bind_ok2 (readR_ok (g := fun st => S.charLen st l) (hlen s0 hl)), sizeToNumber_small hmax]
  simpa [listFromCharList] using this

/-- `(ByteList, List)` -/
theorem castBody_byteListList (L : StoreLawsC S C env) (fuel : Nat) {s s0 : σ} {rest : List Nat} {l r : Nat}
    {bs : List Nat} (e0 : Eff S s s0 rest (S.vals s)) (hl : Decodes (S.view s0) l (.bytes bs))
    (hmax : bs.length ≤ 2147483647) (hfuel : bs.length + 1 ≤ fuel) :
    Pushed S s ((castBody fo S C fuel l r .byteList .list >>= fun _ => pure (none : Option Nat)) s0) none rest
      (.list (bs.map .byte)) := by
  obtain ⟨hlen, hitem⟩ := byteSeq_laws L.toStoreLaws l bs
  have := listFromSeq_full fo L.toStoreLaws L.byteAdder fuel l (.bytes bs) bs hmax e0 hl hlen hitem 0 bs.length
    (Int.le_refl _) (by simpa using hfuel)
  have harm : castArm .byteList .list = .byteListList := rfl
  unfold castBody
  rw [harm]
  simp only []
  rw [bind_ok2 (readR_ok (g := fun st => S.byteLen st l) (hlen s0 hl)), sizeToNumber_small hmax]
  simpa [listFromByteList] using this

/-- `(CharList, Char)`: the one character of a text of length one, unit otherwise -/
theorem castBody_charListChar (L : StoreLawsC S C env) (fuel : Nat) {s s0 : σ} {rest : List Nat} {l r : Nat}
    {cs : List Nat} (e0 : Eff S s s0 rest (S.vals s)) (hl : Decodes (S.view s0) l (.chars cs)) :
    Pushed S s ((castBody fo S C fuel l r .charList .char >>= fun _ => pure (none : Option Nat)) s0) none rest
      (oneChar cs) := by
  obtain ⟨hlen, _⟩ := charSeq_laws L.toStoreLaws l cs
  have hiter : getCharListIter S l s0 = .ok (cs, s0) := by
    simp [getCharListIter, RM.lift, chars_of hl, fetch, Outcome.ofOption, Outcome.bind]
  have harm : castArm .charList .char = .charListChar := rfl
  unfold castBody
  rw [harm]
  simp only []
  rw [bind_ok2 (readR_ok (g := fun st => S.charLen st l) (hlen s0 hl))]
  cases cs with
  | nil => simp only [List.length_nil, Nat.zero_ne_one, if_false]; exact castPushUnit L.toStoreLaws e0
  | cons c cs =>
    cases cs with
    | nil =>
      simp only [List.length_cons, List.length_nil, Nat.zero_add, if_true]
      rw [bind_ok2 hiter]
      simp only [List.head?_cons]
      exact castPush L.toStoreLaws e0 (L.addChar c s0)
    | cons c2 cs =>
      have : ¬ (c :: c2 :: cs).length = 1 := by simp
      simp only [this, if_false]
      exact castPushUnit L.toStoreLaws e0

end Garnish.Lemmas.Runtime
