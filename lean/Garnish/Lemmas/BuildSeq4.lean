/-
C04, builder half — evaluation order, part 4: one handler call keeps the positional part of the order invariant.
-/
import Garnish.Lemmas.BuildSeq3
namespace Garnish.Lemmas.BuildSeq
open Garnish Garnish.Gen Garnish.Model.Parser Garnish.Model.Literals Garnish.Model.Build Garnish.Lemmas.Build
open Garnish.Lemmas.BuildTotal
open Garnish.Lemmas.BuildOrder (Above above_append_left above_append_mem above_append_right above_mem above_irrefl
  above_top_false above_init Attr Moving nm1 nm2 nm3 nmr nm23 nm123 get_append attr_append)

variable {F : Type} {root : Nat} {tree : Array ParseNode} {G : Nat → Prop} {m0 : Nat}
variable {ph ph' : Nat → Phase} {ctx ctx' : Ctx F} {ni : Nat} {pn : ParseNode} {vni : Phase} {cs rs suf : List Nat}
  {l : List (Option Nat)} {M M' : Array (Option Nat)}

theorem step_sibAbove (st : Step root tree G ph ph' ctx ctx' ni pn vni cs rs suf l M M')
    (ho : SInv root tree G m0 ph (ctx.stack.toList ++ [ni]) ctx.nodes M) :
    ∀ y a b x, G y → Ord tree y a b → IDesc tree a x → Act ph' x → ph' b = .p1 ∧ Above ctx'.stack.toList x b := by
  intro y a b x hy hord hda hact
  have haG := (child_facts st.V hy hord.left.isChild).1
  rcases st.act' hact with ⟨hx, hv2, _⟩ | ⟨hx, _, _, _⟩ | ⟨hxn, _, hactx, _⟩
  · subst hx
    obtain ⟨hb1, hab⟩ := ho.sibAbove y a b x hy hord hda st.hph
    exact ⟨by rw [st.keep (nm1 hb1) (st.below_ne ho hab)]; exact hb1, st.liftTop ho hab (st.hsufni hv2)⟩
  · rcases st.idesc_cs haG hda hx with e | ⟨hdn, _⟩
    · subst e
      have := st.parent_cs hy hord.left.isChild hx
      subst this
      obtain ⟨hbcs, hab⟩ := st.hord x b hord hx
      exact ⟨st.hcs' b hbcs, by rw [st.hS]; exact above_append_right hab⟩
    · obtain ⟨hb1, hab⟩ := ho.sibAbove y a b ni hy hord hdn st.hph
      exact ⟨by rw [st.keep (nm1 hb1) (st.below_ne ho hab)]; exact hb1, st.liftTop ho hab (st.hsufcs x hx)⟩
  · obtain ⟨hb1, hab⟩ := ho.sibAbove y a b x hy hord hda hactx
    exact ⟨by rw [st.keep (nm1 hb1) (st.below_ne ho hab)]; exact hb1, st.lift hab hxn⟩

theorem step_sibDone (st : Step root tree G ph ph' ctx ctx' ni pn vni cs rs suf l M M')
    (ho : SInv root tree G m0 ph (ctx.stack.toList ++ [ni]) ctx.nodes M) :
    ∀ y a b x, G y → Ord tree y a b → IDesc tree a x → (ph' b = .p2 ∨ ph' b = .p3) → ¬ Act ph' x := by
  intro y a b x hy hord hda hbv hact
  have haG := (child_facts st.V hy hord.left.isChild).1
  rcases st.vis' hbv with hb | ⟨_, hbv0, _⟩
  · subst hb
    rcases st.act' hact with ⟨hx, _, _⟩ | ⟨hx, _, _, _⟩ | ⟨_, _, hactx, _⟩
    · subst hx
      exact above_irrefl ho.nodup (ho.sibAbove y a x x hy hord hda st.hph).2
    · rcases st.idesc_cs haG hda hx with e | ⟨hdn, _⟩
      · subst e
        have := st.parent_cs hy hord.left.isChild hx
        subst this
        exact (st.hfreshcs y (st.hord x y hord hx).1).2.1 rfl
      · exact above_irrefl ho.nodup (ho.sibAbove y a b b hy hord hdn st.hph).2
    · exact st.top ho x (ho.sibAbove y a b x hy hord hda hactx).2
  · have hold := fun x' (hd : IDesc tree a x') => ho.sibDone y a b x' hy hord hd hbv0
    rcases st.act' hact with ⟨hx, _, _⟩ | ⟨hx, _, _, _⟩ | ⟨_, _, hactx, _⟩
    · subst hx; exact hold x hda st.hph
    · rcases st.idesc_cs haG hda hx with e | ⟨hdn, _⟩
      · subst e
        have := st.parent_cs hy hord.left.isChild hx
        subst this
        have hb0 := (st.hfreshcs b (st.hord x b hord hx).1).1
        rw [hb0] at hbv0; rcases hbv0 with h | h <;> cases h
      · exact hold ni hdn st.hph
    · exact hold x hda hactx

theorem step_preAbove (st : Step root tree G ph ph' ctx ctx' ni pn vni cs rs suf l M M')
    (ho : SInv root tree G m0 ph (ctx.stack.toList ++ [ni]) ctx.nodes M) :
    ∀ y c x, G y → PreC tree y c → IDesc tree c x → Act ph' x → ph' y = .p2 ∧ Above ctx'.stack.toList x y := by
  intro y c x hy hc hdc hact
  have hcG := (child_facts st.V hy hc.ilink.isChild).1
  rcases st.act' hact with ⟨hx, hv2, _⟩ | ⟨hx, _, _, _⟩ | ⟨hxn, _, hactx, _⟩
  · subst hx
    obtain ⟨hy2, hab⟩ := ho.preAbove y c x hy hc hdc st.hph
    exact ⟨by rw [st.keep (nm2 hy2) (st.below_ne ho hab)]; exact hy2, st.liftTop ho hab (st.hsufni hv2)⟩
  · rcases st.idesc_cs hcG hdc hx with e | ⟨hdn, _⟩
    · subst e
      have := st.parent_cs hy hc.ilink.isChild hx
      subst this
      obtain ⟨hv2', hab⟩ := st.hpre x hc hx
      exact ⟨by rw [st.hni']; exact hv2', by rw [st.hS]; exact above_append_right hab⟩
    · obtain ⟨hy2, hab⟩ := ho.preAbove y c ni hy hc hdn st.hph
      exact ⟨by rw [st.keep (nm2 hy2) (st.below_ne ho hab)]; exact hy2, st.liftTop ho hab (st.hsufcs x hx)⟩
  · obtain ⟨hy2, hab⟩ := ho.preAbove y c x hy hc hdc hactx
    exact ⟨by rw [st.keep (nm2 hy2) (st.below_ne ho hab)]; exact hy2, st.lift hab hxn⟩

theorem step_preDone (st : Step root tree G ph ph' ctx ctx' ni pn vni cs rs suf l M M')
    (ho : SInv root tree G m0 ph (ctx.stack.toList ++ [ni]) ctx.nodes M) :
    ∀ y c x, G y → PreC tree y c → IDesc tree c x → ph' y = .p3 → ¬ Act ph' x := by
  intro y c x hy hc hdc hy3 hact
  have hcG := (child_facts st.V hy hc.ilink.isChild).1
  rcases st.vis' (Or.inr hy3) with hyn | ⟨hyn, _, hsame⟩
  · subst hyn
    have hv3 : vni = .p3 := by rw [← st.hni']; exact hy3
    rcases st.act' hact with ⟨_, hv2, _⟩ | ⟨hx, _, _, _⟩ | ⟨_, _, hactx, _⟩
    · rw [hv3] at hv2; cases hv2
    · rcases st.idesc_cs hcG hdc hx with e | ⟨hdn, _⟩
      · subst e
        have := (st.hpre x hc hx).1
        rw [hv3] at this; cases this
      · exact above_irrefl ho.nodup (ho.preAbove y c y hy hc hdn st.hph).2
    · exact st.top ho x (ho.preAbove y c x hy hc hdc hactx).2
  · rw [hsame] at hy3
    have hold := fun x' (hd : IDesc tree c x') => ho.preDone y c x' hy hc hd hy3
    rcases st.act' hact with ⟨hx, _, _⟩ | ⟨hx, _, _, _⟩ | ⟨_, _, hactx, _⟩
    · subst hx; exact hold x hdc st.hph
    · rcases st.idesc_cs hcG hdc hx with e | ⟨hdn, _⟩
      · subst e
        exact hyn (st.parent_cs hy hc.ilink.isChild hx)
      · exact hold ni hdn st.hph
    · exact hold x hdc hactx

theorem step_postBelow (st : Step root tree G ph ph' ctx ctx' ni pn vni cs rs suf l M M')
    (ho : SInv root tree G m0 ph (ctx.stack.toList ++ [ni]) ctx.nodes M) :
    ∀ y c z, G y → PostC tree y c → IDesc tree c z → Act ph' z → ph' y = .p2 → Above ctx'.stack.toList y z := by
  intro y c z hy hc hdc hact hy2
  have hcG := (child_facts st.V hy hc.ilink.isChild).1
  -- if `y` is the visited node it is in its first visit, so nothing below `c` is scheduled
  have hyni : ∀ z', IDesc tree c z' → ph z' ≠ .p0 → ph ni = .p1 → y ≠ ni := by
    intro z' hd hz0 hp1 e
    subst e
    rcases idesc_parent_visited st.V st.hinv hy hc.ilink.isChild hd hz0 with h | h <;> rw [hp1] at h <;> cases h
  rcases st.act' hact with ⟨hz, _, hp1⟩ | ⟨hz, _, _, _⟩ | ⟨hzn, _, hactz, _⟩
  · subst hz
    have hyn := hyni z hdc st.hph.ne0 hp1
    rcases st.vis' (Or.inl hy2) with e | ⟨_, _, hsame⟩
    · exact absurd e hyn
    · rw [hsame] at hy2
      exact absurd (ho.postBelow y c z hy hc hdc st.hph hy2) (st.top ho y)
  · rcases st.idesc_cs hcG hdc hz with e | ⟨hdn, _⟩
    · subst e
      have := st.parent_cs hy hc.ilink.isChild hz
      subst this
      rw [st.hS]; exact above_append_right (st.hpost z hc hz)
    · have hp1 := st.hcs1 (List.ne_nil_of_mem hz)
      have hyn := hyni ni hdn st.hph.ne0 hp1
      rcases st.vis' (Or.inl hy2) with e | ⟨_, _, hsame⟩
      · exact absurd e hyn
      · rw [hsame] at hy2
        exact absurd (ho.postBelow y c ni hy hc hdn st.hph hy2) (st.top ho y)
  · rcases st.vis' (Or.inl hy2) with e | ⟨hyn, _, hsame⟩
    · subst e
      have hv2 : vni = .p2 := by rw [← st.hni']; exact hy2
      exact absurd rfl (hyni z hdc hactz.ne0 (st.hv2 hv2))
    · rw [hsame] at hy2
      exact st.lift (ho.postBelow y c z hy hc hdc hactz hy2) hyn

theorem step_postAfter (st : Step root tree G ph ph' ctx ctx' ni pn vni cs rs suf l M M')
    (ho : SInv root tree G m0 ph (ctx.stack.toList ++ [ni]) ctx.nodes M) :
    ∀ y c z, G y → PostC tree y c → IDesc tree c z → (ph' z = .p2 ∨ ph' z = .p3) → ph' y = .p3 := by
  intro y c z hy hc hdc hzv
  rcases st.vis' hzv with hz | ⟨_, hzv0, _⟩
  · subst hz
    rcases idesc_parent_visited st.V st.hinv hy hc.ilink.isChild hdc st.hph.ne0 with h2 | h3
    · exact absurd (ho.postBelow y c z hy hc hdc st.hph h2) (st.top ho y)
    · have hyn : y ≠ z := fun e => st.hph.ne3 (e ▸ h3)
      rw [st.keep (nm3 h3) hyn]; exact h3
  · have h3 := ho.postAfter y c z hy hc hdc hzv0
    have hyn : y ≠ ni := fun e => st.hph.ne3 (e ▸ h3)
    rw [st.keep (nm3 h3) hyn]; exact h3

theorem step_owner (st : Step root tree G ph ph' ctx ctx' ni pn vni cs rs suf l M M')
    (ho : SInv root tree G m0 ph (ctx.stack.toList ++ [ni]) ctx.nodes M) :
    ∀ ρ y r x, G ρ → IDesc tree ρ y → OolChild tree y r → (ph' r = .p1 ∨ ph' r = .p2 ∨ ph' r = .p3) → IDesc tree ρ x →
      ¬ Act ph' x := by
  intro ρ y r x hρ hdy hool hr hdx hact
  have hyG := idesc_G st.V hρ hdy
  have hr0 : ph r = .p1 ∨ ph r = .p2 ∨ ph r = .p3 := by
    rcases st.cases r with h | ⟨h, _⟩ | ⟨h, _⟩ | ⟨h1, h2⟩
    · subst h
      rcases st.hph with h | h
      · exact Or.inl h
      · exact Or.inr (Or.inl h)
    · have := st.parent_cs hyG hool.isChild h
      subst this
      exact absurd (st.hinl r h) (ool_not_ilink st.V hyG hool)
    · rcases hr with h' | h' | h'
      · exact absurd h' (st.hrsN r h).1
      · exact absurd h' (st.hrsN r h).2.1
      · exact absurd h' (st.hrsN r h).2.2
    · rw [st.hother r h1 h2] at hr; exact hr
  have hold := fun x' (hd : IDesc tree ρ x') => ho.owner ρ y r x' hρ hdy hool hr0 hd
  rcases st.act' hact with ⟨hx, _, _⟩ | ⟨hx, hx0, _, _⟩ | ⟨_, _, hactx, _⟩
  · subst hx; exact hold x hdx st.hph
  · rcases st.idesc_cs hρ hdx hx with e | ⟨hdn, _⟩
    · subst e
      have hrne : ph r ≠ .p0 := by rcases hr0 with h | h | h <;> rw [h] <;> intro h' <;> cases h'
      have hyv := child_visited st.V st.hinv hyG hool.isChild hrne
      have hy0 : ph y ≠ .p0 := by rcases hyv with h | h <;> rw [h] <;> intro h' <;> cases h'
      rcases idesc_climb st.V st.hinv hρ hdy hy0 with h | h
      · subst h; exact hy0 hx0
      · rw [hx0] at h; rcases h with h | h <;> cases h
    · exact hold ni hdn st.hph
  · exact hold x hdx hactx

theorem step_inl (st : Step root tree G ph ph' ctx ctx' ni pn vni cs rs suf l M M')
    (ho : SInv root tree G m0 ph (ctx.stack.toList ++ [ni]) ctx.nodes M) :
    ∀ y c, G y → ILink tree y c → ph' c ≠ .pr ∧ ∀ o, ph' c ≠ .pc o := by
  intro y c hy hc
  rcases st.cases c with h | ⟨h, _⟩ | ⟨h, hm⟩ | ⟨h1, h2⟩
  · subst h
    rw [st.hni']
    rcases st.hv with h | h <;> rw [h] <;> exact ⟨(fun h' => by cases h'), (fun o h' => by cases h')⟩
  · rw [st.hcs' c h]; exact ⟨(fun h' => by cases h'), (fun o h' => by cases h')⟩
  · rcases hm with h0 | ⟨o, ho'⟩
    · have hoo := st.hool c h h0
      have := parent_unique st.V hy st.hG hc.isChild hoo.isChild
      subst this
      exact absurd hc (ool_not_ilink st.V hy hoo)
    · exact absurd ho' ((ho.inl y c hy hc).2 o)
  · rw [st.hother c h1 h2]; exact ho.inl y c hy hc

end Garnish.Lemmas.BuildSeq
