/-
The tie between the two builder models (8): `^~`, identifier application with one operand.
-/
import Garnish.Lemmas.CompileTree7
namespace Garnish.Abs.Tree
open Garnish Garnish.Gen Garnish.Spec Garnish.Abs Garnish.Model.Parser Garnish.Model.Literals Garnish.Model.Build

variable {F : Type} {pf : List Char → Option F} {tree : Array ParseNode} {bodies : List (Nat × Expr F)}

theorem sim_reapply {hi i r : Nat} {x : Expr F} {pn : ParseNode} (hpn : tree[i]? = some pn)
    (hd : pn.definition = .reapply) (hr : pn.right = some r) (hri : i + 1 ≤ r ∧ r < hi) (hrt : r < tree.size)
    (ih : SimT pf tree bodies (i + 1) hi r x) : SimT pf tree bodies i hi i (.reapply x) := by
  refine sim_one_child (pre_ := id) (post := fun cur s => (s.push .updateValue none).push .jumpTo (some cur)) hpn
    ⟨Nat.le_refl _, by omega⟩ hri hrt (ival_succ i hi (by omega)) (by simp only [Ival]; omega) ?_ ?_
    (fun _ => rfl) (fun _ => Nat.le_refl _) (fun _ _ => rfl) (fun _ _ _ => by simp only [emit, id]) ih
  · intro crj data nodes RS S b s hb hs hpi hlt hdat
    refine ⟨data, ?_, hdat⟩
    simp only [handleParseNode, hd, handleReapply, getNode, hb, Outcome.bind, hs, hr]
    rw [setNodeIdx_ok (by simpa using hlt), show S.push b.parseNodeIndex = S.push i by rw [hpi]]
    rfl
  · intro crj cur data nodes RS S b s hb hs hpi hc hdat
    refine ⟨_, ?_, (hdat.push .updateValue none (some i)).push .jumpTo (some cur) (some i)⟩
    simp only [handleParseNode, hd, handleReapply, getNode, hb, Outcome.bind, hs, hc]

theorem sim_prefixApply {hi i r : Nat} {x : Expr F} {pn : ParseNode} (hpn : tree[i]? = some pn)
    (hd : pn.definition = .prefixApply) (hr : pn.right = some r) (hri : i + 1 ≤ r ∧ r < hi) (hrt : r < tree.size)
    (ih : SimT pf tree bodies (i + 1) hi r x) :
    SimT pf tree bodies i hi i (.prefixApply (parseSymbol (trimMatches '`' pn.lexToken.text)) x) := by
  refine sim_one_child (pre_ := fun s => s.pushConst .resolve (.sym (parseSymbol (trimMatches '`' pn.lexToken.text))))
    (post := fun _ s => s.push .apply none) hpn
    ⟨Nat.le_refl _, by omega⟩ hri hrt (ival_succ i hi (by omega)) (by simp only [Ival]; omega) ?_ ?_
    (fun _ => rfl) (fun _ => by simp [LState.pushConst]) (fun _ _ => rfl) (fun _ _ _ => by simp only [emit]) ih
  · intro crj data nodes RS S b s hb hs hpi hlt hdat
    refine ⟨_, ?_, hdat.pushConst .resolve _ none⟩
    simp only [handleParseNode, hd, handleUnaryFixApply, getNode, hb, Outcome.bind, hs, hr, parseAddSymbol]
    rw [setNodeIdx_ok (by simpa using hlt)]
    rfl
  · intro crj cur data nodes RS S b s hb hs hpi hc hdat
    refine ⟨_, ?_, hdat.push .apply none (some i)⟩
    simp only [handleParseNode, hd, handleUnaryFixApply, getNode, hb, Outcome.bind, hs]

theorem sim_suffixApply {lo i l : Nat} {x : Expr F} {pn : ParseNode} (hpn : tree[i]? = some pn)
    (hd : pn.definition = .suffixApply) (hl : pn.left = some l) (hli : lo ≤ l ∧ l < i) (hlt : l < tree.size)
    (ih : SimT pf tree bodies lo i l x) :
    SimT pf tree bodies lo (i + 1) i (.suffixApply x (parseSymbol (trimMatches '`' pn.lexToken.text))) := by
  refine sim_one_child (pre_ := fun s => s.pushConst .resolve (.sym (parseSymbol (trimMatches '`' pn.lexToken.text))))
    (post := fun _ s => s.push .apply none) hpn
    ⟨by omega, by omega⟩ hli hlt (ival_pred lo i (by omega)) (by simp only [Ival]; omega) ?_ ?_
    (fun _ => rfl) (fun _ => by simp [LState.pushConst]) (fun _ _ => rfl) (fun _ _ _ => by simp only [emit]) ih
  · intro crj data nodes RS S b s hb hs hpi hlt hdat
    refine ⟨_, ?_, hdat.pushConst .resolve _ none⟩
    simp only [handleParseNode, hd, handleUnaryFixApply, getNode, hb, Outcome.bind, hs, hl, parseAddSymbol]
    rw [setNodeIdx_ok (by simpa using hlt)]
    rfl
  · intro crj cur data nodes RS S b s hb hs hpi hc hdat
    refine ⟨_, ?_, hdat.push .apply none (some i)⟩
    simp only [handleParseNode, hd, handleUnaryFixApply, getNode, hb, Outcome.bind, hs]

end Garnish.Abs.Tree
