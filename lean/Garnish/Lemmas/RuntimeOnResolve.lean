/-
`resolve` (from Props/RuntimeRefineAccess.lean) and the `Access` step lemma over `StoreLawsOn`.
-/
import Garnish.Lemmas.RuntimeOnG3
import Garnish.Lemmas.RuntimeStep8
set_option linter.unusedSimpArgs false
set_option linter.unusedVariables false
namespace Garnish.Lemmas.Runtime.On
open Garnish Gen Garnish.Abs Garnish.Model.Equality Garnish.Model.Runtime Garnish.Lemmas.Runtime
open Garnish.Props.RuntimeRefine

variable {F σ : Type} {S : RStore F σ} {Inv : σ → Prop} {Rd : σ → Nat → Prop} {P : Prog F} {host : Host F}
  (fo : FloatOps F)

/-- the second half of `resolve` from a state that kept everything of `s` -/
theorem resolveContext_spec (L : StoreLawsOn S Inv Rd) {s s0 : σ} {data : Nat} {key : Val F}
    (e0 : EffI S Inv s s0 (S.regs s) (S.vals s)) (hk : Decodes (S.view s0) data key) :
    ResolveContextI S Inv s (resolveContext S data s0) none key := by
  refine ⟨s0, e0, ?_⟩
  rw [resolveContext, bind_ok (getDataType_of hk)]
  cases key
  case sym sy =>
    simp only [Val.typeOf]
    rw [bind_apply, bind_ok (getSymbol_of hk)]
    unfold ResolveProtocolI
    cases hr : S.resolve sy s0 with
    | ok p =>
      obtain ⟨b, s1⟩ := p
      cases b with
      | true => rfl
      | false =>
        simp only [Bool.false_eq_true, if_false]
        intro hi1
        obtain ⟨a, s2, h2, d2, e2⟩ := pushUnit_spec L s1
        exact ⟨a, s2, by rw [bind_ok h2]; rfl, d2, e2⟩
    | err e => rfl
    | panic p => rfl
    | fuelOut => rfl
  all_goals
    simp only [Val.typeOf, Bool.false_eq_true, if_false]
    obtain ⟨a, s2, h2, d2, e2⟩ := pushUnit_spec L s0
    exact ⟨a, s2, by rw [bind_ok (pure_apply false s0)]; simp only [Bool.false_eq_true, if_false]; rw [bind_ok h2]; rfl, d2, e2⟩

/-- `resolve` with no input value: straight to the context -/
theorem C17_refine_resolve_no_input (L : StoreLawsOn S Inv Rd) (fuel : Nat) {s : σ} {data : Nat} {key : Val F}
    (hv : S.vals s = []) (hk : Decodes (S.view s) data key)
    (hinv : Inv s := by inv_tac) :
    ResolveContextI S Inv s (Model.Runtime.resolve fo S fuel data s) none key := by
  have hg : getCurrentValue S s = .ok (none, s) := by
    show Outcome.ok ((S.vals s).head?, s) = _
    rw [hv]; rfl
  rw [Model.Runtime.resolve, bind_ok hg]
  exact resolveContext_spec L (EffI.refl s (by inv_tac)) hk

/-- `resolve` (C17): the key is looked up in the current input value first (`get_access_addr`, Abs/Ops
`getAccess`). Found ↦ the value's address is pushed and the host is NOT asked. Not found, or the input value
cannot be looked into with this kind of key ↦ the context: a symbol key is offered to the host exactly once with
that symbol (`ResolveProtocol`), unit is pushed iff it declines; any other key gives unit without a host call.
Another error of the lookup is the instruction's error. -/
theorem C17_refine_resolve (L : StoreLawsOn S Inv Rd) (fuel : Nat) {s : σ} {data c : Nat} {vs : List Nat} {key cur : Val F}
    (hv : S.vals s = c :: vs) (hk : Decodes (S.view s) data key) (hc : Decodes (S.view s) c cur)
    (hd : AccessDomain cur) (hkey : ∀ n, key = .num n → (∃ i, n = .int i) ∧ RangeOrdered fo n cur)
    (hf : accessFuel cur ≤ fuel) (hnc : ncConcat cur)
    (hls : (∀ y, key = .sym y → ∀ vs, cur ≠ .list vs) ∨ ListSymOn S Inv)
    (hres : ∀ v, getAccess fo key cur = .some v → v ≠ .custom)
    (hinv : Inv s := by inv_tac) (hdp : Deep S s (S.regs s) := by deep_tac) :
    match getAccess fo key cur with
    | .some v => PushedI S Inv s (Model.Runtime.resolve fo S fuel data s) none (S.regs s) v
    | .none => ResolveContextI S Inv s (Model.Runtime.resolve fo S fuel data s) none key
    | .unsupported => ResolveContextI S Inv s (Model.Runtime.resolve fo S fuel data s) none key
    | .err e => e ≠ .unsupported → Model.Runtime.resolve fo S fuel data s = .err e := by
  have hg : getCurrentValue S s = .ok (some c, s) := by
    show Outcome.ok ((S.vals s).head?, s) = _
    rw [hv]; rfl
  have ha := getAccessAddr_spec fo L fuel hk hc hd hkey hf hnc hls
  rw [Model.Runtime.resolve, bind_ok hg]
  simp only []
  cases hga : getAccess fo key cur with
  | some v =>
    rw [hga] at ha
    obtain ⟨x, s1, h1, d1, e1⟩ := ha
    obtain ⟨s2, h2, e2⟩ := pushReg L d1 (hres v hga)
    rw [e1.regs, e1.vals] at e2
    simp only [h1]
    exact ⟨x, s2, by rw [bind_ok h2]; rfl, e2.dec d1, e1.trans e2⟩
  | none =>
    rw [hga] at ha
    obtain ⟨s1, h1, e1⟩ := ha
    simp only [h1]
    exact resolveContext_spec L e1 (e1.dec hk)
  | unsupported =>
    rw [hga] at ha
    simp only [AccOutI] at ha
    simp only [ha, beq_self_eq_true, if_true]
    exact resolveContext_spec L (EffI.refl s (by inv_tac)) hk
  | err e =>
    rw [hga] at ha
    simp only [AccOutI] at ha
    intro hne
    have : (e == ErrClass.unsupported) = false := by simpa using hne
    simp only [ha, this, Bool.false_eq_true, if_false]


/-- `Access` -/
theorem stepSim_access (L : StoreLawsOn S Inv Rd) (HR : HostRefinesI S Inv host) (fuel : Nat) (H : OtherHandlers σ)
    {s : σ} {m : MState F} (hsim : Sim S P s m) {operand : Option Nat}
    (hfetch : P.instrs[m.pc]? = some (.access, operand)) {vr vl : Val F} {rs : List (Val F)}
    (hregs : m.regs = vr :: vl :: rs) (hi : Inv s) (hm : MDeep m rs)
    (hd : accessArm vl.typeOf vr.typeOf = .get → AccessDomain vl ∧ accessFuel vl ≤ fuel ∧
      ∀ n, vr = .num n → (∃ i, n = .int i) ∧ RangeOrdered fo n vl)
    (hx : accessArm vl.typeOf vr.typeOf = .get → ncConcat vl ∧
      ((∀ y, vr = .sym y → ∀ vs, vl ≠ .list vs) ∨ ListSymOn S Inv) ∧ ∀ v, getAccess fo vr vl = .some v → v ≠ .custom)
    (hmg : accessArm vl.typeOf vr.typeOf = .merge → (∀ n, vl ≠ .num n) ∧ (∀ n, vr ≠ .num n)) :
    StepSimOn fo host S Inv P fuel H s m :=
  stepSim_binary fo L HR fuel H hsim hfetch rfl hregs (o := Abs.access fo vl vr) rfl rfl
    (fun r l rest hr hdp dl dr => access_spec fo L fuel hr dl dr hd hx hmg) (fun op' a b h => access_defer fo h) hi hm


end Garnish.Lemmas.Runtime.On
