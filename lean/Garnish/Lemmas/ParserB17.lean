/-
Implicit space lists, part 3: what a complete operand after an inserted operator node yields (`operand_closeU`, the general
form of the second half of `bin_stepU`), the List operator on a state that satisfies `UInv` (`list_openU`), the reference
parser's list insertion (`ref_list_head`), and operands in list mode on both sides (`ListOpdOK`).
-/
import Garnish.Lemmas.ParserB16

namespace Garnish.Spec
open Garnish Garnish.Gen Garnish.Model.Parser

/-- **the List operator** on a state that satisfies `UInv` -/
theorem list_openU {st : PState} {ug p : Option Nat} {base : Nat} {E : Tree} {re cb : Nat}
    (hinv : UInv st ug p base E re cb) :
    ∃ (nodes' : Array ParseNode) (info : Info),
      parseToken st.nodes.size .list st.lastLeft (some (st.nodes.size + 1)) st.nodes ug false = .ok (nodes', info) ∧
      info.right = some (st.nodes.size + 1) ∧ nodes'.size = st.nodes.size ∧
      OpenB (listState st nodes' info) ug ∧ AllPrio (listState st nodes' info).nodes ∧
      aboveDef (listState st nodes' info) = .list ∧ (listState st nodes' info).nodes.size = st.nodes.size + 1 ∧
      ∀ (st2 : PState) (sub : Tree) (cb' : Nat), OpdRes (listState st nodes' info) st2 sub cb' →
        ∃ re', UInv st2 ug p base (insertC cb (prioAt st.nodes) 220 false st.nodes.size st.lastToken.col sub E) re' cb' ∧
          (∀ j, j < st.nodes.size → (st2.nodes[j]?).map (·.definition) = (st.nodes[j]?).map (·.definition)) ∧
          (∀ j, j < base → (st2.nodes[j]?).map (setRight none) = (st.nodes[j]?).map (setRight none)) ∧
          (∀ j, j + 1 < base → st2.nodes[j]? = st.nodes[j]?) ∧
          dfOf st2.nodes st.nodes.size = .list := by
  obtain ⟨nodes', info, hpt, hir, hdefs, hout1, hout2, htreeK, _⟩ :=
    core_effectU hinv .list 220 false (some (st.nodes.size + 1)) rfl (by omega)
  have hsz' : nodes'.size = st.nodes.size := (parseToken_size_def hpt).1
  have hL : (listState st nodes' info).nodes[st.nodes.size]? =
      some ⟨.list, .startGrouping, info.parent, info.left, info.right, st.lastToken⟩ := by
    simp only [listState]; rw [Array.getElem?_push, if_pos hsz'.symm]
  have hsL : (listState st nodes' info).nodes.size = st.nodes.size + 1 := by simp [listState, hsz']
  have hO : OpenB (listState st nodes' info) ug := by
    refine ⟨rfl, hinv.nnl, hinv.hug, rfl, adjust_noop _ _ (Or.inr ⟨_, _, rfl, hL, Or.inl rfl⟩), Or.inr ?_,
      Or.inr (Or.inl rfl)⟩
    refine ⟨_, 220, by omega, by rw [hsL]; rfl, by rw [hsL, Nat.add_sub_cancel]; exact hL, rfl, by rw [hsL]; exact hir,
      rfl, Or.inl ⟨by omega, rfl⟩⟩
  have hn1 : (listState st nodes' info).nodes =
      nodes'.push ⟨.list, .startGrouping, info.parent, info.left, some (st.nodes.size + 1), st.lastToken⟩ := by
    simp only [listState, hir]
  obtain ⟨h1, h2, h3, h4⟩ := operand_closeU hinv .list .startGrouping st.lastToken 220 false rfl rfl nodes' info hsz' hdefs
    hout1 hout2 htreeK (listState st nodes' info) hn1 hO
  exact ⟨nodes', info, hpt, hir, hsz', hO, h1, h2, h3, h4⟩

/-! ### the reference parser's list insertion -/

/-- the first token of an operand after a complete operand and whitespace: the reference parser first inserts `List` -/
theorem ref_list_head (f : Frame) (stack : List Frame) (pos : Nat) (t : PToken) (rest : List PToken)
    (ht : isPrefixTok t = true ∨ isOpenTok t = true ∨ isAtom10 t = true) (hl : f.last = .operand) (hw : f.ws = true) :
    refStep Table.gen f stack pos t rest =
      refStep Table.gen { f with cur := attach Table.gen 220 false .list (pos - 1) f.cur, last := .op, ws := false }
        stack pos t rest := by
  have hgen : Table.gen.define = getDefinition := rfl
  have hpl : Table.gen.prio Definition.list = some 220 := rfl
  unfold refStep
  rw [hgen]
  rcases ht with ht | ht | ht
  · have hs : (getDefinition t.type).2 = .unaryPrefix := by unfold isPrefixTok at ht; simpa using ht
    generalize getDefinition t.type = ds at hs ⊢
    obtain ⟨d, s⟩ := ds
    simp only at hs ⊢
    subst hs
    simp [beforeOperand, hl, hw, hpl, Outcome.bind]
  · obtain ⟨hs, _⟩ := open_def_facts ht
    generalize getDefinition t.type = ds at hs ⊢
    obtain ⟨d, s⟩ := ds
    simp only at hs ⊢
    subst hs
    simp [beforeOperand, hl, hw, hpl, Outcome.bind]
  · obtain ⟨hsa, hqa⟩ := atom10_facts ht
    have hns := prio10_not_special hqa
    generalize getDefinition t.type = ds at hsa hns ⊢
    obtain ⟨d, s⟩ := ds
    simp only at hsa hns ⊢
    rcases hsa with rfl | rfl <;> simp [hns, beforeOperand, hl, hw, hpl, Outcome.bind]

theorem ref_skipK_ws : ∀ (ws : List PToken) (f : Frame) (stack : List Frame) (pos : Nat) (rest : List PToken),
    (∀ w ∈ ws, isTriviaTok w = true) → (f.ws = true ∨ ∃ w ∈ ws, w.type = .whitespace) →
    refLoop Table.gen f stack pos (ws ++ rest) = refLoop Table.gen { f with ws := true } stack (pos + ws.length) rest := by
  intro ws
  induction ws with
  | nil =>
    intro f stack pos rest _ hc
    rcases hc with hc | ⟨w, hw, _⟩
    · have : { f with ws := true } = f := by cases f; simp_all
      rw [this]; rfl
    · cases hw
  | cons w ws ih =>
    intro f stack pos rest hws hc
    have hw := hws w (List.mem_cons_self ..)
    have hstep : refStep Table.gen f stack pos w (ws ++ rest) =
        .ok ({ f with ws := (if w.type == .whitespace then true else f.ws) }, stack) := by
      unfold refStep
      have hgen : Table.gen.define = getDefinition := rfl
      rw [hgen]
      unfold isTriviaTok at hw
      simp only [Bool.or_eq_true, beq_iff_eq] at hw
      rcases hw with (h | h) | h <;> rw [h] <;> simp only [getDefinition] <;> rfl
    have hc' : (if w.type == .whitespace then true else f.ws) = true ∨ ∃ w' ∈ ws, w'.type = .whitespace := by
      rcases hc with hc | ⟨w', hw', hwt⟩
      · left; split <;> simp [hc]
      · rcases List.mem_cons.mp hw' with e | e
        · subst e; left; simp [hwt]
        · exact Or.inr ⟨w', e, hwt⟩
    have := ih { f with ws := (if w.type == .whitespace then true else f.ws) } stack (pos + 1) rest
      (fun x hx => hws x (List.mem_cons_of_mem _ hx)) hc'
    simp only [List.cons_append, List.length_cons]
    conv => lhs; unfold refLoop
    rw [hstep]
    simp only [Outcome.bind]
    rw [this]
    have : pos + 1 + ws.length = pos + (ws.length + 1) := by omega
    rw [this]

/-- the same for the whitespace of the innermost frame: inside a group separators count -/
theorem ref_fill_ws (inG : Bool) : ∀ (ws : List PToken) (f : Frame) (stack : List Frame) (pos : Nat) (rest : List PToken),
    f.inGroup = inG → (∀ w ∈ ws, isGFill inG w = true) → (f.ws = true ∨ ∃ w ∈ ws, setsList w = true) →
    refLoop Table.gen f stack pos (ws ++ rest) = refLoop Table.gen { f with ws := true } stack (pos + ws.length) rest := by
  intro ws
  induction ws with
  | nil =>
    intro f stack pos rest _ _ hc
    rcases hc with hc | ⟨w, hw, _⟩
    · have : { f with ws := true } = f := by cases f; simp_all
      rw [this]; rfl
    · cases hw
  | cons w ws ih =>
    intro f stack pos rest hig hws hc
    have hw := hws w (List.mem_cons_self ..)
    unfold isGFill at hw
    have hstep : refStep Table.gen f stack pos w (ws ++ rest) =
        .ok ({ f with ws := (if setsList w then true else f.ws) }, stack) := by
      by_cases htr : isTriviaTok w = true
      · unfold refStep
        have hgen : Table.gen.define = getDefinition := rfl
        rw [hgen]
        unfold isTriviaTok at htr
        simp only [Bool.or_eq_true, beq_iff_eq] at htr
        rcases htr with (h | h) | h <;> rw [h] <;> simp only [getDefinition, setsList, isSepTok, h] <;> rfl
      · have hsp : inG = true ∧ isSepTok w = true := by simpa [htr] using hw
        have hs : (getDefinition w.type).2 = .subexpression := by
          have := hsp.2; unfold isSepTok at this; simpa using this
        have hsl : setsList w = true := by unfold setsList; simp [hsp.2]
        have hgen : Table.gen.define = getDefinition := rfl
        unfold refStep
        rw [hgen, hsl]
        generalize getDefinition w.type = ds at hs ⊢
        obtain ⟨d, s⟩ := ds
        simp only at hs ⊢
        subst hs
        simp [hig, hsp.1]
    have hc' : (if setsList w then true else f.ws) = true ∨ ∃ w' ∈ ws, setsList w' = true := by
      rcases hc with hc | ⟨w', hw', hwt⟩
      · left; split <;> simp [hc]
      · rcases List.mem_cons.mp hw' with e | e
        · subst e; left; simp [hwt]
        · exact Or.inr ⟨w', e, hwt⟩
    have := ih { f with ws := (if setsList w then true else f.ws) } stack (pos + 1) rest hig
      (fun x hx => hws x (List.mem_cons_of_mem _ hx)) hc'
    simp only [List.cons_append, List.length_cons]
    conv => lhs; unfold refLoop
    rw [hstep]
    simp only [Outcome.bind]
    rw [this]
    have : pos + 1 + ws.length = pos + (ws.length + 1) := by omega
    rw [this]

/-! ### operands in list mode -/

/-- **the tokens `x` form a complete operand in list mode** (the list flag is set, the first token inserts the List node) -/
def ListOpdOK (c : Nat) (x : List PToken) : Prop :=
  ∀ (st : PState) (ug : Option Nat) (nodes' : Array ParseNode) (info : Info),
    underGroupOf st = .ok ug → adjustLastLeft st ug = .ok st → st.nextLastLeft = none → st.checkForList = true →
    (st.previousSecondDef = .whitespace ∨ st.previousSecondDef = .annotation ∨ st.previousSecondDef = .subexpression) →
    parseToken st.nodes.size .list st.lastLeft (some (st.nodes.size + 1)) st.nodes ug false = .ok (nodes', info) →
    info.right = some (st.nodes.size + 1) →
    OpenB (listState st nodes' info) ug → AllPrio (listState st nodes' info).nodes → CGOK (listState st nodes' info) →
    aboveDef (listState st nodes' info) = .list →
    ∀ (pos : Nat), NumberedFrom pos x → ∀ (rest : List PToken),
    ∃ (st2 : PState) (sub : Tree) (cb : Nat) (P : RTree → RTree),
      loop st (x ++ rest) = loop st2 rest ∧ OpdRes (listState st nodes' info) st2 sub cb ∧
      PlugFn (dfOf st2.nodes) .list sub P ∧
      sub.inorder.length + (listState st nodes' info).nodes.size + c = st2.nodes.size ∧
      ∀ (f : Frame) (stack : List Frame) (restR : List PToken), f.last = .operand → f.ws = true →
        refLoop Table.gen f stack pos (x ++ restR) =
          refLoop Table.gen { f with cur := P (attach Table.gen 220 false .list (pos - 1) f.cur), last := .operand,
                                     ws := false, prevSep := false } stack (pos + x.length) restR

/-- an operand that starts with a prefix operator or an opening bracket -/
theorem listOpd_po {c : Nat} {t : PToken} {r : List PToken} (hx : OpdOK c (t :: r)) (hr : r ≠ [])
    (ht : isPrefixTok t = true ∨ isOpenTok t = true) : ListOpdOK c (t :: r) := by
  intro st ug nodes' info hug hadj hnnl hcfl hprev hpt hir hO hprios hcg habove pos hnum rest
  obtain ⟨st2, sub, cb, P, hloop, hres, hP, hcnt, href⟩ := hx (listState st nodes' info) ug hO hprios hcg pos hnum rest
  refine ⟨st2, sub, cb, P, ?_, hres, by rw [← habove]; exact hP, hcnt, ?_⟩
  · rw [← hloop]
    simp only [List.cons_append, loop]
    have he : (r ++ rest).isEmpty = false := by cases r <;> simp_all
    rw [he]
    rcases ht with ht | ht
    · rw [step_list_prefix st ug t ht hug hadj hnnl hcfl hprev hpt,
        step_prefix_eqG _ t ht hO.cfl hO.nnl hO.hug hO.adj hO.comp_prefix]
    · rw [step_list_open st ug t ht hug hadj hnnl hcfl hprev hpt, step_openB _ ug t ht hO]
  · intro f stack restR hl hw
    have := href { f with cur := attach Table.gen 220 false .list (pos - 1) f.cur, last := .op, ws := false } stack restR
      (Or.inl rfl)
    rw [← this]
    simp only [List.cons_append]
    conv => lhs; unfold refLoop
    conv => rhs; unfold refLoop
    rw [ref_list_head f stack pos t _ (by rcases ht with h | h; exact Or.inl h; exact Or.inr (Or.inl h)) hl hw]

/-- an operand that is a single value -/
theorem listOpd_value (a : PToken) (ha : isAtom10 a = true) : ListOpdOK 0 [a] := by
  intro st ug nodes' info hug hadj hnnl hcfl hprev hpt hir hO hprios hcg habove pos hnum rest
  obtain ⟨hsa, hqa⟩ := atom10_facts ha
  have hsz' : nodes'.size = st.nodes.size := (parseToken_size_def hpt).1
  have hstep := step_list_value st ug a rest.isEmpty ha hug hadj hnnl hcfl hprev hpt hir
  have hsL : (listState st nodes' info).nodes.size = st.nodes.size + 1 := by simp [listState, hsz']
  have hacol : a.col = pos := hnum.1
  have hVprio : priority (underDef Definition.list (getDefinition a.type).1) = some 10 := underDef_prio hqa
  have hVn : (listValue st nodes' info a).nodes[st.nodes.size + 1]? =
      some ⟨underDef .list (getDefinition a.type).1, (getDefinition a.type).2, some st.nodes.size, none, none, a⟩ := by
    simp only [listValue]; rw [Array.getElem?_push, if_pos hsL.symm]
  have hs2 : (listValue st nodes' info a).nodes.size = st.nodes.size + 2 := by simp [listValue, hsL]
  have hlt2 : ∀ j, j < st.nodes.size + 1 → (listValue st nodes' info a).nodes[j]? = (listState st nodes' info).nodes[j]? := by
    intro j hj
    simp only [listValue]; rw [Array.getElem?_push, if_neg (by omega)]
  have hdfV : dfOf (listValue st nodes' info a).nodes (st.nodes.size + 1) = underDef .list (getDefinition a.type).1 := by
    simp [dfOf, hVn]
  refine ⟨listValue st nodes' info a, .node .nil (st.nodes.size + 1) a.col .nil, (listValue st nodes' info a).nodes.size,
    fun R => plug (plugLeaves R []) (.node .nil (getDefinition a.type).1 pos .nil), ?_, ?_, ?_,
    by simp only [Tree.inorder, List.nil_append, List.length_cons, List.length_nil]; omega, ?_⟩
  · simp only [List.cons_append, List.nil_append, loop, hstep, Outcome.bind]
  · refine ⟨fun j hj => hlt2 j (by omega), by omega, ?_, ?_, hnnl, rfl, rfl, ?_, ?_, ?_, ?_, ?_⟩
    · rw [hsL]
      exact isTreeAt_node _ hVn rfl (.nil _) (.nil _) rfl
    · rw [hsL, hs2]
      simp only [Tree.inorder, List.nil_append]
      exact sortedIn_range' (st.nodes.size + 1) 1 _ (by omega)
    · refine .plain (by rw [hs2]; rfl) ⟨_, by rw [hs2]; exact hVn, rfl, prio10_not_groupLike hVprio⟩ ?_ ?_
      · rw [hs2]; rfl
      · intro nd hnd
        rw [hs2] at hnd
        have e : st.nodes.size + 2 - 1 = st.nodes.size + 1 := by omega
        rw [e, hVn] at hnd
        injection hnd with hnd; rw [← hnd]
        rcases hsa with h | h <;> rw [h] <;> rfl
    · simp only [SpineG, if_neg (show st.nodes.size + 1 ≠ (listValue st nodes' info a).nodes.size by omega), hdfV]
      exact ⟨prio10_not_bracket hVprio, trivial⟩
    · intro i nd hi
      by_cases c1 : i < st.nodes.size + 1
      · rw [hlt2 i c1] at hi; exact hprios i nd hi
      · by_cases c2 : i = st.nodes.size + 1
        · subst c2; rw [hVn] at hi; injection hi with hi; subst hi; exact ⟨10, hVprio⟩
        · have : (listValue st nodes' info a).nodes[i]? = none := by apply Array.getElem?_eq_none; omega
          rw [this] at hi; cases hi
    · show (getDefinition a.type).2 = _ ∨ (getDefinition a.type).2 = _ ∨ _
      rcases hsa with h | h
      · exact Or.inl h
      · exact Or.inr (Or.inl h)
    · exact ⟨_, _, rfl, hVn, Or.inl (prio10_valueLike hVprio)⟩
  · apply plugFn_of _ _ _ [] _ (fun p hp => by cases hp)
    · simp only [wrapR, adjY, toRG, hdfV, prio10_not_bracket hVprio, Bool.false_eq_true, if_false, hacol]
      rw [underDef_not_access _ (by decide)]
      rfl
    · intro _; rfl
  · intro f stack restR hl hw
    simp only [List.cons_append, List.nil_append, List.length_cons, List.length_nil]
    conv => lhs; unfold refLoop
    rw [ref_list_head f stack pos a restR (Or.inr (Or.inr ha)) hl hw,
      ref_atom_stepK _ stack pos a restR ha (Or.inl rfl)]
    simp only [Outcome.bind, plugLeaves]

end Garnish.Spec
