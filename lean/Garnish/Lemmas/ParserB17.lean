/-
Implicit space lists, part 3: what a complete operand after an inserted operator node yields (`operand_closeU`, the general
form of the second half of `bin_stepU`), the List operator on a state that satisfies `UInv` (`list_openU`), the reference
parser's list insertion (`ref_list_head`), and operands in list mode on both sides (`ListOpdOK`).
-/
import Garnish.Lemmas.ParserB16

namespace Garnish.Spec
open Garnish Garnish.Gen Garnish.Model.Parser

/-- an operator node `(d, tok)` has been inserted after the frame's tree `E` and `st1` is the open operand position behind
    it: any complete operand yields the invariant for `insertC .. sub E` -/
theorem operand_closeU {st : PState} {ug p : Option Nat} {base : Nat} {E : Tree} {re cb : Nat}
    (hinv : UInv st ug p base E re cb) (d : Definition) (sd : SecDef) (tok : PToken) (q : Nat) (rtl : Bool)
    (hq : priority d = some q) (hnb : isBracketDef d = false) (nodes' : Array ParseNode) (info : Info)
    (hsz' : nodes'.size = st.nodes.size)
    (hdefs : ∀ j, j < st.nodes.size → (nodes'[j]?).map (·.definition) = (st.nodes[j]?).map (·.definition))
    (hout1 : ∀ j, j < base → (nodes'[j]?).map (setRight none) = (st.nodes[j]?).map (setRight none))
    (hout2 : ∀ j, j + 1 < base → nodes'[j]? = st.nodes[j]?)
    (htreeK : ∀ (arr : Array ParseNode) (sub : Tree) (ko : Nat), (∀ j, j < st.nodes.size → arr[j]? = nodes'[j]?) →
      (∃ on, arr[st.nodes.size]? = some on ∧ on.parent = info.parent ∧ on.left = info.left ∧
        on.right = some (st.nodes.size + 1) ∧ tokPos on = ko) →
      IsTreeAt arr (some st.nodes.size) (some (st.nodes.size + 1)) sub →
      ∃ re', FrameTree arr p re' (insertC cb (prioAt st.nodes) q rtl st.nodes.size ko sub E))
    (st1 : PState)
    (hn1 : st1.nodes = nodes'.push ⟨d, sd, info.parent, info.left, some (st.nodes.size + 1), tok⟩)
    (hO1 : OpenB st1 ug) :
    AllPrio st1.nodes ∧ aboveDef st1 = d ∧ st1.nodes.size = st.nodes.size + 1 ∧
      ∀ (st2 : PState) (sub : Tree) (cb' : Nat), OpdRes st1 st2 sub cb' →
        ∃ re', UInv st2 ug p base (insertC cb (prioAt st.nodes) q rtl st.nodes.size tok.col sub E) re' cb' ∧
          (∀ j, j < st.nodes.size → (st2.nodes[j]?).map (·.definition) = (st.nodes[j]?).map (·.definition)) ∧
          (∀ j, j < base → (st2.nodes[j]?).map (setRight none) = (st.nodes[j]?).map (setRight none)) ∧
          (∀ j, j + 1 < base → st2.nodes[j]? = st.nodes[j]?) ∧
          dfOf st2.nodes st.nodes.size = d := by
  have hs1 : st1.nodes.size = st.nodes.size + 1 := by rw [hn1]; simp [hsz']
  have hon1 : st1.nodes[st.nodes.size]? = some ⟨d, sd, info.parent, info.left, some (st.nodes.size + 1), tok⟩ := by
    rw [hn1, Array.getElem?_push, if_pos hsz'.symm]
  have hlt1 : ∀ j, j < st.nodes.size → st1.nodes[j]? = nodes'[j]? := by
    intro j hj; rw [hn1, Array.getElem?_push, if_neg (by omega)]
  have hprios1 : AllPrio st1.nodes := by
    intro i nd hi
    by_cases c1 : i < st.nodes.size
    · have := hdefs i c1
      rw [← hlt1 i c1, hi] at this
      cases hsi : st.nodes[i]? with
      | none => rw [hsi] at this; cases this
      | some nd0 =>
        rw [hsi] at this
        simp only [Option.map_some, Option.some.injEq] at this
        rw [this]; exact hinv.n.prios i nd0 hsi
    · by_cases c2 : i = st.nodes.size
      · subst c2; rw [hon1] at hi; injection hi with hi; subst hi; exact ⟨q, hq⟩
      · have : st1.nodes[i]? = none := by apply Array.getElem?_eq_none; omega
        rw [this] at hi; cases hi
  have habove : aboveDef st1 = d := by
    unfold aboveDef; rw [hs1, Nat.add_sub_cancel, hon1]; rfl
  refine ⟨hprios1, habove, hs1, ?_⟩
  intro st2 sub cb' hres
  have hbase := hinv.n.pos
  have hlt2 : ∀ j, j < st.nodes.size → st2.nodes[j]? = nodes'[j]? := by
    intro j hj; rw [hres.below j (by omega), hlt1 j hj]
  have hon2 : st2.nodes[st.nodes.size]? = some ⟨d, sd, info.parent, info.left, some (st.nodes.size + 1), tok⟩ := by
    rw [hres.below _ (by omega), hon1]
  have hnp1 : st1.nextParent = some st.nodes.size := by
    rw [hO1.link, hO1.lastLeft_eq (by omega), hs1]; rfl
  have hsub := hres.tree
  rw [hnp1, hs1] at hsub
  obtain ⟨re', htree', hfr'⟩ := htreeK st2.nodes sub tok.col hlt2 ⟨_, hon2, rfl, rfl, rfl, rfl⟩ hsub
  have hdefs2 : ∀ j, j < st.nodes.size → (st2.nodes[j]?).map (·.definition) = (st.nodes[j]?).map (·.definition) := by
    intro j hj; rw [hlt2 j hj]; exact hdefs j hj
  have hdn : dfOf st2.nodes st.nodes.size = d := by simp [dfOf, hon2]
  refine ⟨re', ?_, hdefs2, fun j hj => by rw [hlt2 j (by omega)]; exact hout1 j hj,
    fun j hj => by rw [hlt2 j (by omega)]; exact hout2 j hj, hdn⟩
  have hsz2 := hres.size
  have hframe2 : FrameOK st2.nodes ug p base re' := by
    cases hinv.n.frame with
    | top re => exact .top re'
    | bracket g re G pg hG hgl hpg hGr =>
      obtain ⟨G', hG', hGr', hgl', pg', hpg'⟩ := hfr' g rfl
      exact .bracket g re' G' pg' hG' hgl' hpg' hGr'
  have hcbge := hres.cb_ge
  refine ⟨⟨htree', ?_, by omega, hframe2, hres.prios⟩, hres.nnl, hres.hug hO1.hug, ?_, ?_, hres.prev6⟩
  · rw [insertC_inorder, hinv.n.inord, hres.inord, hs1]
    have e1 : st2.nodes.size - base = (st.nodes.size - base) + ((st2.nodes.size - (st.nodes.size + 1)) + 1) := by omega
    have e2 : base + (st.nodes.size - base) = st.nodes.size := by omega
    rw [e1, ← List.range'_append_1, List.range'_succ, e2]
  · cases hres.bot with
    | plain hl hb => exact .plain hl hb
    | closed _ G h1 h2 h3 h4 h5 => exact .closed _ G h1 h2 h3 h4 (onSpine_insertC h5)
  · have hcong : ∀ i ∈ E.inorder, dfOf st.nodes i = dfOf st2.nodes i := by
      intro i hi
      have := hdefs2 i ((hinv.n.mem i).mp hi).2
      simp only [dfOf, this]
    apply spineG_insertC (by omega) (by rw [hdn]; exact hnb) hres.spine
    · intro hm; have := ((hinv.n.mem _).mp hm).2; omega
    · exact hinv.spine.congr hcong

/-- **the List operator** on a state that satisfies `UInv` -/
theorem list_openU {st : PState} {ug p : Option Nat} {base : Nat} {E : Tree} {re cb : Nat}
    (hinv : UInv st ug p base E re cb) :
    ∃ (nodes' : Array ParseNode) (info : Info),
      parseToken st.nodes.size .list st.lastLeft (some (st.nodes.size + 1)) st.nodes ug false = .ok (nodes', info) ∧
      info.right = some (st.nodes.size + 1) ∧ nodes'.size = st.nodes.size ∧
      OpenB (listState st nodes' info) ug ∧ AllPrio (listState st nodes' info).nodes ∧
      aboveDef (listState st nodes' info) = .list ∧ (listState st nodes' info).nodes.size = st.nodes.size + 1 ∧
      ∀ (st2 : PState) (sub : Tree) (cb' : Nat), OpdRes (listState st nodes' info) st2 sub cb' →
        ∃ re', UInv st2 ug p base (insertC cb (prioAt st.nodes) 220 false st.nodes.size st.lastToken.col sub E) re' cb' ∧
          (∀ j, j < st.nodes.size → (st2.nodes[j]?).map (·.definition) = (st.nodes[j]?).map (·.definition)) ∧
          (∀ j, j < base → (st2.nodes[j]?).map (setRight none) = (st.nodes[j]?).map (setRight none)) ∧
          (∀ j, j + 1 < base → st2.nodes[j]? = st.nodes[j]?) ∧
          dfOf st2.nodes st.nodes.size = .list := by
  obtain ⟨nodes', info, hpt, hir, hdefs, hout1, hout2, htreeK⟩ :=
    core_effectU hinv .list 220 false (some (st.nodes.size + 1)) rfl (by omega)
  have hsz' : nodes'.size = st.nodes.size := (parseToken_size_def hpt).1
  have hL : (listState st nodes' info).nodes[st.nodes.size]? =
      some ⟨.list, .startGrouping, info.parent, info.left, info.right, st.lastToken⟩ := by
    simp only [listState]; rw [Array.getElem?_push, if_pos hsz'.symm]
  have hsL : (listState st nodes' info).nodes.size = st.nodes.size + 1 := by simp [listState, hsz']
  have hO : OpenB (listState st nodes' info) ug := by
    refine ⟨rfl, hinv.nnl, hinv.hug, rfl, adjust_noop _ _ (Or.inr ⟨_, _, rfl, hL, Or.inl rfl⟩), Or.inr ?_,
      Or.inr (Or.inl rfl)⟩
    refine ⟨_, 220, by omega, by rw [hsL]; rfl, by rw [hsL, Nat.add_sub_cancel]; exact hL, rfl, by rw [hsL]; exact hir,
      rfl, Or.inl ⟨by omega, rfl⟩⟩
  have hn1 : (listState st nodes' info).nodes =
      nodes'.push ⟨.list, .startGrouping, info.parent, info.left, some (st.nodes.size + 1), st.lastToken⟩ := by
    simp only [listState, hir]
  obtain ⟨h1, h2, h3, h4⟩ := operand_closeU hinv .list .startGrouping st.lastToken 220 false rfl rfl nodes' info hsz' hdefs
    hout1 hout2 htreeK (listState st nodes' info) hn1 hO
  exact ⟨nodes', info, hpt, hir, hsz', hO, h1, h2, h3, h4⟩

/-! ### the reference parser's list insertion -/

/-- the first token of an operand after a complete operand and whitespace: the reference parser first inserts `List` -/
theorem ref_list_head (f : Frame) (stack : List Frame) (pos : Nat) (t : PToken) (rest : List PToken)
    (ht : isPrefixTok t = true ∨ isOpenTok t = true ∨ isAtom10 t = true) (hl : f.last = .operand) (hw : f.ws = true) :
    refStep Table.gen f stack pos t rest =
      refStep Table.gen { f with cur := attach Table.gen 220 false .list (pos - 1) f.cur, last := .op, ws := false }
        stack pos t rest := by
  have hgen : Table.gen.define = getDefinition := rfl
  have hpl : Table.gen.prio Definition.list = some 220 := rfl
  unfold refStep
  rw [hgen]
  rcases ht with ht | ht | ht
  · have hs : (getDefinition t.type).2 = .unaryPrefix := by unfold isPrefixTok at ht; simpa using ht
    generalize getDefinition t.type = ds at hs ⊢
    obtain ⟨d, s⟩ := ds
    simp only at hs ⊢
    subst hs
    simp [beforeOperand, hl, hw, hpl, Outcome.bind]
  · obtain ⟨hs, _⟩ := open_def_facts ht
    generalize getDefinition t.type = ds at hs ⊢
    obtain ⟨d, s⟩ := ds
    simp only at hs ⊢
    subst hs
    simp [beforeOperand, hl, hw, hpl, Outcome.bind]
  · obtain ⟨hsa, hqa⟩ := atom10_facts ht
    have hns := prio10_not_special hqa
    generalize getDefinition t.type = ds at hsa hns ⊢
    obtain ⟨d, s⟩ := ds
    simp only at hsa hns ⊢
    rcases hsa with rfl | rfl <;> simp [hns, beforeOperand, hl, hw, hpl, Outcome.bind]

theorem ref_skipK_ws : ∀ (ws : List PToken) (f : Frame) (stack : List Frame) (pos : Nat) (rest : List PToken),
    (∀ w ∈ ws, isTriviaTok w = true) → (f.ws = true ∨ ∃ w ∈ ws, w.type = .whitespace) →
    refLoop Table.gen f stack pos (ws ++ rest) = refLoop Table.gen { f with ws := true } stack (pos + ws.length) rest := by
  intro ws
  induction ws with
  | nil =>
    intro f stack pos rest _ hc
    rcases hc with hc | ⟨w, hw, _⟩
    · have : { f with ws := true } = f := by cases f; simp_all
      rw [this]; rfl
    · cases hw
  | cons w ws ih =>
    intro f stack pos rest hws hc
    have hw := hws w (List.mem_cons_self ..)
    have hstep : refStep Table.gen f stack pos w (ws ++ rest) =
        .ok ({ f with ws := (if w.type == .whitespace then true else f.ws) }, stack) := by
      unfold refStep
      have hgen : Table.gen.define = getDefinition := rfl
      rw [hgen]
      unfold isTriviaTok at hw
      simp only [Bool.or_eq_true, beq_iff_eq] at hw
      rcases hw with (h | h) | h <;> rw [h] <;> simp only [getDefinition] <;> rfl
    have hc' : (if w.type == .whitespace then true else f.ws) = true ∨ ∃ w' ∈ ws, w'.type = .whitespace := by
      rcases hc with hc | ⟨w', hw', hwt⟩
      · left; split <;> simp [hc]
      · rcases List.mem_cons.mp hw' with e | e
        · subst e; left; simp [hwt]
        · exact Or.inr ⟨w', e, hwt⟩
    have := ih { f with ws := (if w.type == .whitespace then true else f.ws) } stack (pos + 1) rest
      (fun x hx => hws x (List.mem_cons_of_mem _ hx)) hc'
    simp only [List.cons_append, List.length_cons]
    conv => lhs; unfold refLoop
    rw [hstep]
    simp only [Outcome.bind]
    rw [this]
    have : pos + 1 + ws.length = pos + (ws.length + 1) := by omega
    rw [this]

/-! ### operands in list mode -/

/-- **the tokens `x` form a complete operand in list mode** (the list flag is set, the first token inserts the List node) -/
def ListOpdOK (x : List PToken) : Prop :=
  ∀ (st : PState) (ug : Option Nat) (nodes' : Array ParseNode) (info : Info),
    underGroupOf st = .ok ug → adjustLastLeft st ug = .ok st → st.nextLastLeft = none → st.checkForList = true →
    (st.previousSecondDef = .whitespace ∨ st.previousSecondDef = .annotation) →
    parseToken st.nodes.size .list st.lastLeft (some (st.nodes.size + 1)) st.nodes ug false = .ok (nodes', info) →
    info.right = some (st.nodes.size + 1) →
    OpenB (listState st nodes' info) ug → AllPrio (listState st nodes' info).nodes → CGOK (listState st nodes' info) →
    aboveDef (listState st nodes' info) = .list →
    ∀ (pos : Nat), NumberedFrom pos x → ∀ (rest : List PToken),
    ∃ (st2 : PState) (sub : Tree) (cb : Nat) (P : RTree → RTree),
      loop st (x ++ rest) = loop st2 rest ∧ OpdRes (listState st nodes' info) st2 sub cb ∧
      PlugFn (dfOf st2.nodes) .list sub P ∧
      ∀ (f : Frame) (stack : List Frame) (restR : List PToken), f.last = .operand → f.ws = true →
        refLoop Table.gen f stack pos (x ++ restR) =
          refLoop Table.gen { f with cur := P (attach Table.gen 220 false .list (pos - 1) f.cur), last := .operand,
                                     ws := false, prevSep := false } stack (pos + x.length) restR

/-- an operand that starts with a prefix operator or an opening bracket -/
theorem listOpd_po {t : PToken} {r : List PToken} (hx : OpdOK (t :: r)) (hr : r ≠ [])
    (ht : isPrefixTok t = true ∨ isOpenTok t = true) : ListOpdOK (t :: r) := by
  intro st ug nodes' info hug hadj hnnl hcfl hprev hpt hir hO hprios hcg habove pos hnum rest
  obtain ⟨st2, sub, cb, P, hloop, hres, hP, href⟩ := hx (listState st nodes' info) ug hO hprios hcg pos hnum rest
  refine ⟨st2, sub, cb, P, ?_, hres, by rw [← habove]; exact hP, ?_⟩
  · rw [← hloop]
    simp only [List.cons_append, loop]
    have he : (r ++ rest).isEmpty = false := by cases r <;> simp_all
    rw [he]
    rcases ht with ht | ht
    · rw [step_list_prefix st ug t ht hug hadj hnnl hcfl hprev hpt,
        step_prefix_eqG _ t ht hO.cfl hO.nnl hO.hug hO.adj hO.comp_prefix]
    · rw [step_list_open st ug t ht hug hadj hnnl hcfl hprev hpt, step_openB _ ug t ht hO]
  · intro f stack restR hl hw
    have := href { f with cur := attach Table.gen 220 false .list (pos - 1) f.cur, last := .op, ws := false } stack restR
      (Or.inl rfl)
    rw [← this]
    simp only [List.cons_append]
    conv => lhs; unfold refLoop
    conv => rhs; unfold refLoop
    rw [ref_list_head f stack pos t _ (by rcases ht with h | h; exact Or.inl h; exact Or.inr (Or.inl h)) hl hw]

/-- an operand that is a single value -/
theorem listOpd_value (a : PToken) (ha : isAtom10 a = true) : ListOpdOK [a] := by
  intro st ug nodes' info hug hadj hnnl hcfl hprev hpt hir hO hprios hcg habove pos hnum rest
  obtain ⟨hsa, hqa⟩ := atom10_facts ha
  have hsz' : nodes'.size = st.nodes.size := (parseToken_size_def hpt).1
  have hstep := step_list_value st ug a rest.isEmpty ha hug hadj hnnl hcfl hprev hpt hir
  have hsL : (listState st nodes' info).nodes.size = st.nodes.size + 1 := by simp [listState, hsz']
  have hacol : a.col = pos := hnum.1
  have hVprio : priority (underDef Definition.list (getDefinition a.type).1) = some 10 := underDef_prio hqa
  have hVn : (listValue st nodes' info a).nodes[st.nodes.size + 1]? =
      some ⟨underDef .list (getDefinition a.type).1, (getDefinition a.type).2, some st.nodes.size, none, none, a⟩ := by
    simp only [listValue]; rw [Array.getElem?_push, if_pos hsL.symm]
  have hs2 : (listValue st nodes' info a).nodes.size = st.nodes.size + 2 := by simp [listValue, hsL]
  have hlt2 : ∀ j, j < st.nodes.size + 1 → (listValue st nodes' info a).nodes[j]? = (listState st nodes' info).nodes[j]? := by
    intro j hj
    simp only [listValue]; rw [Array.getElem?_push, if_neg (by omega)]
  have hdfV : dfOf (listValue st nodes' info a).nodes (st.nodes.size + 1) = underDef .list (getDefinition a.type).1 := by
    simp [dfOf, hVn]
  refine ⟨listValue st nodes' info a, .node .nil (st.nodes.size + 1) a.col .nil, (listValue st nodes' info a).nodes.size,
    fun R => plug (plugLeaves R []) (.node .nil (getDefinition a.type).1 pos .nil), ?_, ?_, ?_, ?_⟩
  · simp only [List.cons_append, List.nil_append, loop, hstep, Outcome.bind]
  · refine ⟨fun j hj => hlt2 j (by omega), by omega, ?_, ?_, hnnl, rfl, rfl, ?_, ?_, ?_, ?_, ?_⟩
    · rw [hsL]
      exact isTreeAt_node _ hVn rfl (.nil _) (.nil _) rfl
    · rw [hsL, hs2]
      simp only [Tree.inorder, List.nil_append]
      have : st.nodes.size + 2 - (st.nodes.size + 1) = 1 := by omega
      rw [this]; rfl
    · exact .plain (by rw [hs2]; rfl) ⟨_, by rw [hs2]; exact hVn, rfl, prio10_not_groupLike hVprio⟩
    · simp only [SpineG, if_neg (show st.nodes.size + 1 ≠ (listValue st nodes' info a).nodes.size by omega), hdfV]
      exact ⟨prio10_not_bracket hVprio, trivial⟩
    · intro i nd hi
      by_cases c1 : i < st.nodes.size + 1
      · rw [hlt2 i c1] at hi; exact hprios i nd hi
      · by_cases c2 : i = st.nodes.size + 1
        · subst c2; rw [hVn] at hi; injection hi with hi; subst hi; exact ⟨10, hVprio⟩
        · have : (listValue st nodes' info a).nodes[i]? = none := by apply Array.getElem?_eq_none; omega
          rw [this] at hi; cases hi
    · show (getDefinition a.type).2 = _ ∨ (getDefinition a.type).2 = _ ∨ _
      rcases hsa with h | h
      · exact Or.inl h
      · exact Or.inr (Or.inl h)
    · exact ⟨_, _, rfl, hVn, Or.inl (prio10_valueLike hVprio)⟩
  · apply plugFn_of _ _ _ [] _ (fun p hp => by cases hp)
    · simp only [wrapR, adjY, toRG, hdfV, prio10_not_bracket hVprio, Bool.false_eq_true, if_false, hacol]
      rw [underDef_not_access _ (by decide)]
      rfl
    · intro _; rfl
  · intro f stack restR hl hw
    simp only [List.cons_append, List.nil_append, List.length_cons, List.length_nil]
    conv => lhs; unfold refLoop
    rw [ref_list_head f stack pos a restR (Or.inr (Or.inr ha)) hl hw,
      ref_atom_stepK _ stack pos a restR ha (Or.inl rfl)]
    simp only [Outcome.bind, plugLeaves]

end Garnish.Spec
