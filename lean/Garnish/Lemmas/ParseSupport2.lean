/-
Fragment membership depends on the token TYPES only, part 2: `fragF`, `fragFN`, `fragTC`, `fragTCN`, `frag9N` are
invariant under type-preserving maps of the tokens; two numbered lists with the same token types are related by such a
map, hence `frag9N_of_sameTypes`.
-/
import Garnish.Lemmas.ParseSupport1
import Garnish.Lemmas.RefTrivia2

namespace Garnish.Spec
open Garnish Garnish.Gen Garnish.Model.Parser

section
variable {f : PToken → PToken}

theorem Ex.toks_map : ∀ e : Ex, (e.map f).toks = e.toks.map f
  | .atom pre a => by simp [Ex.map, Ex.toks]
  | .br pre o wsA e wsB c => by simp [Ex.map, Ex.toks, Ex.toks_map e]
  | .brT pre o wsA e ws1 t ws2 c => by simp [Ex.map, Ex.toks, Ex.toks_map e]
  | .bin e ws1 op ws2 x => by simp [Ex.map, Ex.toks, Ex.toks_map e, Ex.toks_map x]
  | .suf e s => by simp [Ex.map, Ex.toks, Ex.toks_map e]
  | .lst e ws x => by simp [Ex.map, Ex.toks, Ex.toks_map e, Ex.toks_map x]
  | .sep e ws1 t ws2 x => by simp [Ex.map, Ex.toks, Ex.toks_map e, Ex.toks_map x]
  | .brC pre o wsA e ws1 k wsB c => by simp [Ex.map, Ex.toks, Ex.toks_map e]
  | .lead op ws x => by simp [Ex.map, Ex.toks, Ex.toks_map x]

theorem Ex.garb_map : ∀ e : Ex, (e.map f).garb = e.garb
  | .atom _ _ => rfl
  | .br _ _ _ e _ _ => by simp only [Ex.map, Ex.garb, Ex.garb_map e]
  | .brT _ _ _ e _ _ _ _ => by simp only [Ex.map, Ex.garb, Ex.garb_map e]
  | .bin e _ _ _ x => by simp only [Ex.map, Ex.garb, Ex.garb_map e, Ex.garb_map x]
  | .suf e _ => by simp only [Ex.map, Ex.garb, Ex.garb_map e]
  | .lst e _ x => by simp only [Ex.map, Ex.garb, Ex.garb_map e, Ex.garb_map x]
  | .sep e _ _ _ x => by simp only [Ex.map, Ex.garb, Ex.garb_map e, Ex.garb_map x]
  | .brC _ _ _ e _ _ _ _ => by simp only [Ex.map, Ex.garb, Ex.garb_map e]
  | .lead _ _ x => by simp only [Ex.map, Ex.garb, Ex.garb_map x]

variable (hf : ∀ t, (f t).type = t.type)
include hf

theorem Ex.ok_map (F : Fl) : ∀ (e : Ex) (inG : Bool), (e.map f).ok F inG = e.ok F inG
  | .atom pre a, _ => by simp only [Ex.map, Ex.ok, all_mapT _ (tp_prefix hf), tp_atom hf]
  | .br pre o wsA e wsB c, _ => by
    simp only [Ex.map, Ex.ok, all_mapT _ (tp_prefix hf), tp_open hf, tp_close hf, all_mapT (fun w => isTriviaTok w || (F.S && isSepTok w)) (tp_fillA hf F.S),
      tp_opens hf, Ex.ok_map F e, all_mapT _ (tp_gfill hf _)]
  | .brT pre o wsA e ws1 t ws2 c, _ => by
    simp only [Ex.map, Ex.ok, all_mapT _ (tp_prefix hf), tp_open hf, tp_close hf, all_mapT _ (tp_fill hf),
      tp_opens hf, Ex.ok_map F e, all_mapT _ (tp_trivia hf), hf]
  | .bin e ws1 op ws2 x, inG => by
    simp only [Ex.map, Ex.ok, Ex.ok_map F e, Ex.ok_map F x, all_mapT _ (tp_trivia hf), tp_binop hf, tp_opt hf,
      Ex.isOpd_map]
  | .suf e s, inG => by simp only [Ex.map, Ex.ok, Ex.ok_map F e, tp_suffix hf]
  | .lst e ws x, inG => by
    simp only [Ex.map, Ex.ok, Ex.ok_map F e, Ex.ok_map F x, Ex.endsSuffix_map, all_mapT _ (tp_gfill hf _),
      any_mapT (fun w : PToken => w.type == .whitespace || (F.S && inG && isSepTok w)) (tp_lstws hf F.S inG), Ex.isOpd_map]
  | .sep e ws1 t ws2 x, inG => by
    simp only [Ex.map, Ex.ok, Ex.ok_map F e, Ex.ok_map F x, all_mapT _ (tp_trivia hf), tp_sep hf,
      all_mapT _ (tp_fill hf), Ex.isOpd_map]
  | .brC pre o wsA e ws1 k wsB c, _ => by
    simp only [Ex.map, Ex.ok, all_mapT _ (tp_prefix hf), tp_open hf, tp_close hf, all_mapT (fun w => isTriviaTok w || (F.S && isSepTok w)) (tp_fillA hf F.S),
      tp_opens hf, Ex.ok_map F e, all_mapT _ (tp_trivia hf), tp_comma hf]
  | .lead op ws x, inG => by
    simp only [Ex.map, Ex.ok, Ex.ok_map F x, tp_opt hf, all_mapT _ (tp_trivia hf), Ex.isOpd_map]

theorem exOf_map (F : Fl) (toks : List PToken) : exOf F (toks.map f) = (exOf F toks).map (Ex.map f) := by
  unfold exOf
  have := parseG_map hf F (3 * toks.length + 6) (.expr false) toks
  simp only [PMode.map] at this
  rw [List.length_map, this]
  cases parseG F (3 * toks.length + 6) (.expr false) toks with
  | none => rfl
  | some p =>
    obtain ⟨e, r⟩ := p
    cases r with
    | nil => rfl
    | cons a r => rfl

theorem fragF_map {F : Fl} {toks : List PToken} (h : fragF F toks = true) : fragF F (toks.map f) = true := by
  unfold fragF at h ⊢
  rw [exOf_map hf]
  cases he : exOf F toks with
  | none => rw [he] at h; cases h
  | some e =>
    rw [he] at h
    simp only [Bool.and_eq_true, decide_eq_true_eq, Option.map_some] at h ⊢
    exact ⟨by rw [Ex.ok_map hf]; exact h.1, by rw [Ex.toks_map, h.2]⟩

theorem fragFN_map {F : Fl} {toks : List PToken} (h : fragFN F toks = true) : fragFN F (toks.map f) = true := by
  unfold fragFN at h ⊢
  rw [exOf_map hf]
  cases he : exOf F toks with
  | none => rw [he] at h; cases h
  | some e =>
    rw [he] at h
    simp only [Bool.and_eq_true, decide_eq_true_eq, Option.map_some, beq_iff_eq] at h ⊢
    exact ⟨⟨by rw [Ex.ok_map hf]; exact h.1.1, by rw [Ex.toks_map, h.1.2]⟩, by rw [Ex.garb_map]; exact h.2⟩

theorem fragTC_map {F : Fl} {toks : List PToken} (h : fragTC F toks = true) : fragTC F (toks.map f) = true := by
  unfold fragTC at h ⊢
  rw [← List.map_reverse]
  cases hr : toks.reverse with
  | nil => rw [hr] at h; cases h
  | cons k r =>
    rw [hr] at h
    simp only [List.map_cons, Bool.and_eq_true, tp_comma hf] at h ⊢
    refine ⟨h.1, ?_⟩
    rw [dropWhile_mapT _ (tp_trivia hf), ← List.map_reverse]
    exact fragF_map hf h.2

theorem fragTCN_map {F : Fl} {toks : List PToken} (h : fragTCN F toks = true) : fragTCN F (toks.map f) = true := by
  unfold fragTCN at h ⊢
  rw [← List.map_reverse]
  cases hr : toks.reverse with
  | nil => rw [hr] at h; cases h
  | cons k r =>
    rw [hr] at h
    simp only [List.map_cons, Bool.and_eq_true, tp_comma hf] at h ⊢
    refine ⟨h.1, ?_⟩
    rw [dropWhile_mapT _ (tp_trivia hf), ← List.map_reverse]
    exact fragFN_map hf h.2

end

/-! ### two numbered lists with the same types -/

/-- replace a token by the token of `b` at its position, if that has the same type -/
def retok (b : List PToken) (t : PToken) : PToken :=
  match b[t.col]? with
  | some t' => if t'.type = t.type then t' else t
  | none => t

theorem retok_type (b : List PToken) (t : PToken) : (retok b t).type = t.type := by
  unfold retok
  split
  · split
    · assumption
    · rfl
  · rfl

theorem map_retok : ∀ (a b pre : List PToken), NumberedFrom pre.length a → SameTypes a b →
    a.map (retok (pre ++ b)) = b
  | [], [], _, _, _ => rfl
  | [], _ :: _, _, _, h => by simp [SameTypes] at h
  | _ :: _, [], _, _, h => by simp [SameTypes] at h
  | x :: a, y :: b, pre, hn, hs => by
    simp only [SameTypes, List.map_cons, List.cons.injEq] at hs
    have hx : retok (pre ++ y :: b) x = y := by
      unfold retok
      rw [hn.1, List.getElem?_append_right (Nat.le_refl _)]
      simp [hs.1]
    have ih := map_retok a b (pre ++ [y]) (by simpa using hn.2) hs.2
    simp only [List.append_assoc, List.cons_append, List.nil_append] at ih
    rw [List.map_cons, hx, ih]

/-- **fragment membership depends on the token types only** (for numbered lists) -/
theorem frag_of_sameTypes {P : List PToken → Bool}
    (hP : ∀ (f : PToken → PToken), (∀ t, (f t).type = t.type) → ∀ toks, P toks = true → P (toks.map f) = true)
    {a b : List PToken} (ha : NumberedFrom 0 a) (hb : NumberedFrom 0 b) (h : SameTypes a b) : P a = P b := by
  have e1 : a.map (retok b) = b := map_retok a b [] ha h
  have e2 : b.map (retok a) = a := map_retok b a [] hb h.symm
  cases hpa : P a with
  | true => rw [← e1]; exact (hP _ (retok_type b) a hpa).symm
  | false =>
    cases hpb : P b with
    | false => rfl
    | true =>
      have := hP _ (retok_type a) b hpb
      rw [e2, hpa] at this; cases this

theorem frag9N_map {f : PToken → PToken} (hf : ∀ t, (f t).type = t.type) (toks : List PToken)
    (h : frag9N toks = true) : frag9N (toks.map f) = true := by
  unfold frag9N at h ⊢
  rcases Bool.or_eq_true _ _ |>.mp h with h | h
  · rw [fragFN_map hf h]; rfl
  · rw [fragTCN_map hf h]; simp

end Garnish.Spec
