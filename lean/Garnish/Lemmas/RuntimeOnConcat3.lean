/-
Lemmas/RuntimeConcat3.lean over `StoreLawsOn`: `concatenation_len` (the counting work-list).
-/
import Garnish.Lemmas.RuntimeOnStep6
import Garnish.Model.Runtime.Internals
set_option linter.unusedSimpArgs false
set_option linter.unusedVariables false
namespace Garnish.Lemmas.Runtime.On
open Garnish Gen Garnish.Abs Garnish.Model.Equality Garnish.Model.Runtime Garnish.Lemmas.Runtime

variable {F σ : Type} {S : RStore F σ} {Inv : σ → Prop} {Rd : σ → Nat → Prop} (fo : FloatOps F)

/-- the check of `concatenation_len`: never answers -/
def noCheck : Unit → Number F → Nat → RM σ (Option Nat × Unit) := fun _ _ _ => pure (none, ())

theorem noCheck_refines : CheckRefines S (noCheck (F := F) (σ := σ)) (fun _ _ => none) :=
  fun s k addr v _ _ => ⟨none, rfl, rfl⟩

theorem firstHit_none : ∀ (k : Nat) (xs : List (Val F)), firstHit (fun _ _ => (none : Option (Val F))) k xs = none
  | _, [] => rfl
  | k, _ :: xs => by simp [firstHit, firstHit_none (k + 1) xs]

/-- with a check that never answers the work-list counts every item and gives all registers back -/
theorem iterLoop_count (L : StoreLawsOn S Inv Rd) (base : List Nat) :
    ∀ (fuel : Nat) (ps : List Nat) (pvs : List (Val F)) (index : Nat) (s : σ),
      Inv s → Deep S s base → ncAll pvs →
      S.regs s = ps ++ base → DecodesList (S.view s) ps pvs → nodesAll pvs + 1 ≤ fuel →
      index + (visitAll false pvs).length ≤ 2147483647 →
      ∃ s', iterLoop fo S false noCheck base.length fuel index () s
          = .ok (((none, index + (visitAll false pvs).length), ()), s') ∧ EffI S Inv s s' base (S.vals s) := by
  intro fuel
  induction fuel with
  | zero => intro ps pvs index s _ _ _ _ _ hf _; omega
  | succ fuel ih =>
    intro ps pvs index s hinv hdb hnc hregs hd hf hb
    have hlen : getRegisterLen S s = .ok ((ps ++ base).length, s) := by
      show Outcome.ok ((S.regs s).length, s) = _
      rw [hregs]
    rw [iterLoop, bind_ok hlen]
    cases hd with
    | nil =>
      simp only [List.nil_append, Nat.lt_irrefl, gt_iff_lt, if_false]
      exact ⟨s, rfl, ⟨⟨Keeps.refl S s, by simpa using hregs, rfl, rfl, rfl⟩, hinv⟩⟩
    | cons dp dps =>
      rename_i p ps' v vs
      have hgt : (p :: ps' ++ base).length > base.length := by simp; omega
      simp only [hgt, if_true]
      have hncv : ncNodes v := hnc v (List.mem_cons_self ..)
      have hncs : ncAll vs := fun x hx => hnc x (List.mem_cons_of_mem _ hx)
      obtain ⟨s1, h1, e1⟩ := popReg L hregs hinv (deep_app hdb ps')
      rw [bind_ok h1]
      simp only []
      have dp1 := e1.dec dp
      have dps1 := decodesList_keeps e1.keeps dps
      rw [bind_ok (getDataType_of dp1)]
      by_cases hcat : v.typeOf = .concatenation
      · obtain ⟨vl, vr, rfl⟩ := typeOf_concat hcat
        obtain ⟨la, ra, hc, dl, dr⟩ := concat_of dp1
        simp only [Val.typeOf]
        rw [bind_ok2 (getMethod_of false hc)]
        simp only [Bool.false_eq_true, if_false]
        obtain ⟨s2, h2, e2⟩ := pushReg L dr (ncNodes_ne hncv.2)
        rw [e1.regs, e1.vals] at e2
        obtain ⟨s3, h3, e3⟩ := pushReg L (e2.dec dl) (ncNodes_ne hncv.1)
        rw [e2.regs, e2.vals] at e3
        rw [bind_ok2 h2, bind_ok2 h3, bind_ok (pure_apply _ s3)]
        simp only []
        obtain ⟨s', hr, er⟩ := ih (la :: ra :: ps') (vl :: vr :: vs) index s3 e3.inv (((e1.trans e2).trans e3).deep hdb)
          (fun x hx => by rcases List.mem_cons.mp hx with rfl | hx; exact hncv.1; rcases List.mem_cons.mp hx with rfl | hx; exact hncv.2; exact hncs x hx) e3.regs
          (.cons ((e2.trans e3).dec dl) (.cons ((e2.trans e3).dec dr) (decodesList_keeps (e2.trans e3).keeps dps1)))
          (by simp only [nodesAll, nodes] at hf ⊢; omega)
          (by simpa [visitAll, visit, List.append_assoc] using hb)
        rw [e3.vals] at er
        refine ⟨s', ?_, ((e1.trans e2).trans e3).trans er⟩
        rw [hr]
        simp [visitAll, visit, List.append_assoc, Nat.add_assoc]
      · by_cases hlist : v.typeOf = .list
        · obtain ⟨xs, rfl⟩ := typeOf_list hlist
          obtain ⟨items, hi, hdl⟩ := listItems_of dp1
          have hl := EqualityRefine.decodesList_length hdl
          obtain ⟨hlen', _⟩ := L.listIdx s1 p items hi
          have hb' : index + items.length ≤ 2147483647 := by
            simp only [visitAll, visit, List.length_append] at hb; omega
          obtain ⟨o, ho, hres⟩ := iterListLoop_spec fo L (noCheck_refines (S := S)) s1 p items xs hi hdl index hb'
            items.length 0 (by omega)
          rw [firstHit_none] at hres
          simp only [] at hres
          subst hres
          simp only [Val.typeOf]
          rw [bind_ok2 (readR_ok (g := fun st => S.listLen st p) hlen'), bind_ok2 ho, bind_ok (pure_apply _ s1)]
          simp only []
          obtain ⟨s', hr, er⟩ := ih ps' vs (index + items.length) s1 e1.inv (e1.deep hdb) hncs e1.regs dps1
            (by simp only [nodesAll, nodes] at hf ⊢; omega)
            (by simp only [visitAll, visit, List.length_append] at hb; omega)
          rw [e1.vals] at er
          refine ⟨s', ?_, e1.trans er⟩
          rw [hr]
          simp [visitAll, visit, hl, Nat.add_assoc]
        · have hvis := visit_other false hlist hcat
          have hn1 : nodes v = 1 := nodes_other hcat
          have hb2 : index + 1 + (visitAll false vs).length ≤ 2147483647 := by
            simp only [visitAll, hvis, List.length_append, List.length_singleton] at hb; omega
          obtain ⟨s', hr, er⟩ := ih ps' vs (index + 1) s1 e1.inv (e1.deep hdb) hncs e1.regs dps1 (by simp only [nodesAll] at hf ⊢; omega) hb2
          rw [e1.vals] at er
          have hfin : index + 1 + (visitAll false vs).length = index + (visitAll false (v :: vs)).length := by
            simp only [visitAll, hvis, List.length_append, List.length_singleton]; omega
          generalize v.typeOf = t at hcat hlist
          cases t
          case concatenation => exact absurd rfl hcat
          case list => exact absurd rfl hlist
          all_goals
            simp only []
            rw [bind_ok2 (show noCheck () (sizeToNumber index) p s1 = .ok ((none, ()), s1) from rfl),
              bind_ok (pure_apply _ s1)]
            simp only []
            exact ⟨s', by rw [hr, hfin], e1.trans er⟩


/-- `concatenation_len` counts the flattened items -/
theorem concatenationLen_spec (L : StoreLawsOn S Inv Rd) (fuel : Nat) {s : σ} {addr : Nat} {vl vr : Val F}
    (h : Decodes (S.view s) addr (.concat vl vr)) (hf : nodes vl + nodes vr + 1 ≤ fuel)
    (hb : (flatItems vl ++ flatItems vr).length ≤ 2147483647) (hnc : ncNodes (.concat vl vr))
    (hinv : Inv s := by inv_tac) (hdp : Deep S s (S.regs s) := by deep_tac) :
    ∃ s', concatenationLen fo S fuel addr s = .ok ((flatItems vl ++ flatItems vr).length, s') ∧
      EffI S Inv s s' (S.regs s) (S.vals s) := by
  obtain ⟨la, ra, hc, dl, dr⟩ := concat_of h
  have hlen : getRegisterLen S s = .ok ((S.regs s).length, s) := rfl
  obtain ⟨s1, h1, e1⟩ := pushReg L dr (ncNodes_ne hnc.2)
  obtain ⟨s2, h2, e2⟩ := pushReg L (e1.dec dl) (ncNodes_ne hnc.1)
  rw [e1.regs, e1.vals] at e2
  have e02 := e1.trans e2
  have hvis : visitAll false [vl, vr] = flatItems vl ++ flatItems vr := by
    simp [visitAll, visit_false]
  obtain ⟨s3, h3, e3⟩ := iterLoop_count fo L (S.regs s) fuel [la, ra] [vl, vr] 0 s2 e2.inv (e02.deep hdp)
    (fun x hx => by rcases List.mem_cons.mp hx with rfl | hx; exact hnc.1; rcases List.mem_cons.mp hx with rfl | hx; exact hnc.2; cases hx)
    (by rw [e2.regs]; rfl)
    (.cons (e02.dec dl) (.cons (e02.dec dr) .nil)) (by simp only [nodesAll]; omega) (by rw [hvis]; simpa using hb)
  rw [e2.vals] at e3
  obtain ⟨s4, h4, e4⟩ := clearBorrowed_spec L (S.regs s) fuel [] s3 e3.inv ((e02.trans e3).deep hdp) (by simpa using e3.regs) (by simp; omega)
  rw [e3.vals] at e4
  refine ⟨s4, ?_, (e02.trans e3).trans e4⟩
  have h3' : iterLoop fo S false (fun (_ : Unit) (_ : Number F) (_ : Nat) => (pure (none, ()) : RM σ (Option Nat × Unit)))
      (S.regs s).length fuel 0 () s2 = .ok (((none, 0 + (visitAll false [vl, vr]).length), ()), s3) := h3
  rw [concatenationLen, iterateConcatenation, bind_ok2 (getMethod_of false hc)]
  simp only [Bool.false_eq_true, if_false]
  rw [bind_ok2 hlen, bind_ok2 h1, bind_ok2 h2, bind_ok2 h3']
  simp only []
  rw [bind_ok2 h4, hvis]
  simp
  rfl

end Garnish.Lemmas.Runtime.On
