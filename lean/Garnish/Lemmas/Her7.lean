/-
`ExprsKnown`: the instance for "every `Expression` value names a body the depth analysis knows" (`exprQ`); leaf constants are known;
`step_exprsKnown`; which operand shapes make `applyKind` enter a body.
-/
import Garnish.Lemmas.Her6
import Garnish.Props.C06Static
set_option linter.unusedSimpArgs false
set_option linter.unusedVariables false
namespace Garnish.Lemmas.Her
open Garnish Gen Garnish.Abs Garnish.Props.C06

variable {F : Type} {fo : FloatOps F} {host : Host F} {P : Prog F}

/-- leaf test: an `Expression j` value names a body the depth analysis knows (its jump-table entry, if any, is among
`exprEntries P`) -/
def exprQ (P : Prog F) : Val F → Bool
  | .expr j => match P.jumps[j]? with
    | some t => (exprEntries P).contains t
    | none => true
  | _ => true

instance (P : Prog F) : LeafOK (exprQ P) :=
  ⟨rfl, rfl, rfl, fun _ => rfl, fun _ => rfl, fun _ => rfl, fun _ => rfl, fun _ => rfl, fun _ => rfl⟩

/-- every `Expression` value in the state — hereditarily — names a known body -/
abbrev ExprsKnown (P : Prog F) (m : MState F) : Prop := HerState (exprQ P) m

/-- the host never answers with an unknown `Expression` -/
abbrev HostExprsKnown (P : Prog F) (host : Host F) : Prop := HostHer (exprQ P) host

/-- values that are not containers -/
def leafV : Val F → Bool
  | .pair _ _ | .list _ | .concat _ _ | .range _ _ | .slice _ _ | .part _ _ => false
  | _ => true

/-- leaf constants are known: `exprEntries` collects exactly the entries of the `Expression` constants -/
theorem consts_exprsKnown (hleaf : ∀ (k : Nat) (v : Val F), P.consts[k]? = some v → leafV v = true) :
    ConstsHer (exprQ P) P := by
  intro k v hk
  have hl := hleaf k v hk
  cases v <;> first | rfl | (cases hl; done) | skip
  case expr j =>
    show exprQ P (.expr j) = true
    simp only [exprQ]
    cases hj : P.jumps[j]? with
    | none => rfl
    | some t =>
      simp only [List.contains_iff_mem] 
      simp only [exprEntries, List.mem_filterMap]
      exact ⟨.expr j, List.mem_of_getElem? (by simpa using hk), hj⟩

/-- one step keeps the invariant -/
theorem step_exprsKnown (HN : HostExprsKnown P host) (hc : ConstsHer (exprQ P) P) {s s' : MState F}
    (hs : ExprsKnown P s) (h : Abs.step fo host P s = .running s' ∨ Abs.step fo host P s = .halted s') :
    ExprsKnown P s' := step_her HN hc hs h

theorem applyKind_enter {instr : Instruction} {ur : Bool} {l r input : Val F} {j : Nat}
    (h : applyKind fo instr ur l r = .enter j input) : l = .expr j ∨ ∃ x, l = .part (.expr j) x := by
  unfold applyKind at h
  simp only [] at h
  split at h
  · cases h; exact Or.inl rfl
  · cases h
  · cases h; exact Or.inr ⟨_, rfl⟩
  · cases h
  all_goals first
    | (cases h; done)
    | (split at h <;> cases h)
    | skip
  all_goals
    rename_i a _ _ _ _ _ _ _ _ _
    cases a <;> cases h

end Garnish.Lemmas.Her
