/-
Facts about restarts (`^~`) in the reference evaluator: an expression without a `^~` of its own body never
asks for a restart, and applying a value never does.
-/
import Garnish.Lemmas.CompileBase
import Garnish.Lemmas.CompileStrict
namespace Garnish.Abs
open Garnish Gen Garnish.Spec

variable {F : Type} {fo : FloatOps F} {host : Host F}

/-- applying a value yields a value (a restart inside the applied body restarts that body) -/
theorem applyVals_val {bodies : List (Nat × Expr F)} {cur fuel : Nat} {instr : Instruction} {useRight : Bool}
    {f x : Val F} {st st' : St F} {res : Res F}
    (h : applyValsS fo host bodies cur fuel instr useRight f x st = .ok (res, st')) : ∃ v, res = .val v := by
  cases fuel with
  | zero => simp [applyValsS] at h
  | succ fuel =>
    simp only [applyValsS] at h
    split at h
    · split at h
      · simp at h
      · split at h <;> simp at h
        exact ⟨_, h.1.symm⟩
    · split at h <;> simp at h <;> exact ⟨_, h.1.symm⟩
    · split at h <;> simp at h
      exact ⟨_, h.1.symm⟩

section
variable (fo host) (bodies : List (Nat × Expr F))

def NoRE (fuel : Nat) : Prop := ∀ cur e st v st', noR e = true →
  evalFS fo host bodies cur fuel e st ≠ .ok (.restart v, st')
def NoRL (fuel : Nat) : Prop := ∀ cur items st acc v st', noRList items = true →
  evalListS fo host bodies cur fuel items st acc ≠ .ok (.inr v, st')
def NoRC (fuel : Nat) : Prop := ∀ cur arms final st v st', noRArms arms = true →
  (match final with | some e => noR e | none => true) = true →
  evalChainS fo host bodies cur fuel arms final st ≠ .ok (.restart v, st')
end

variable {bodies : List (Nat × Expr F)}

/-- a sub-evaluation that cannot restart either yields a value, or its failure is the failure of the whole -/
theorem sub_cases {cur fuel : Nat} {x : Expr F} {st : St F} (ih : NoRE fo host bodies fuel) (hx : noR x = true) :
    (∃ v st1, evalFS fo host bodies cur fuel x st = .ok (.val v, st1)) ∨
    (∃ e, evalFS fo host bodies cur fuel x st = .err e) ∨ evalFS fo host bodies cur fuel x st = .fuelOut := by
  cases h : evalFS fo host bodies cur fuel x st with
  | ok p =>
    obtain ⟨r, st1⟩ := p
    cases r with
    | val v => exact .inl ⟨v, st1, rfl⟩
    | restart v => exact absurd h (ih cur x st v st1 hx)
  | err e => exact .inr (.inl ⟨e, rfl⟩)
  | fuelOut => exact .inr (.inr rfl)

theorem resolveVal_cases (st : St F) (sym : Nat) :
    (∃ v st1, resolveVal fo host st sym = .ok (v, st1)) ∨ (∃ e, resolveVal fo host st sym = .err e) := by
  cases h : resolveVal fo host st sym with
  | ok p => exact .inl ⟨p.1, p.2, rfl⟩
  | err e => exact .inr ⟨e, rfl⟩
  | fuelOut =>
    simp only [resolveVal] at h
    cases hg : getAccess fo (.sym sym) st.inp with
    | some v => simp [hg] at h
    | none => simp only [hg] at h; split at h <;> simp at h
    | unsupported => simp only [hg] at h; split at h <;> simp at h
    | err e => cases e <;> simp only [hg] at h <;> (try simp at h) <;> (split at h <;> simp at h)

theorem settle_ne_restart {st : St F} {o : OpOut F} {v : Val F} {st' : St F} :
    (match settle host st o with
      | .ok (r, st2) => (Out.ok (Res.val r, st2) : Out (Res F × St F))
      | .err e => .err e
      | .fuelOut => .fuelOut) ≠ .ok (.restart v, st') := by
  cases settle host st o with
  | ok p => simp
  | err e => simp
  | fuelOut => simp

theorem noRE_step {fuel : Nat} (ih : NoRE fo host bodies fuel) (ihL : NoRL fo host bodies fuel)
    (ihC : NoRC fo host bodies fuel) : NoRE fo host bodies (fuel + 1) := by
  intro cur e st v st' hn h
  have av : ∀ {instr useRight f x st1}, applyValsS fo host bodies cur fuel instr useRight f x st1 ≠ .ok (.restart v, st') := by
    intro instr useRight f x st1 ha
    obtain ⟨w, hw⟩ := applyVals_val ha
    cases hw
  cases e with
  | lit w => simp [evalFS] at h
  | input => simp [evalFS] at h
  | ident sym =>
    simp only [evalFS] at h
    rcases resolveVal_cases (fo := fo) (host := host) st sym with ⟨w, st1, hr⟩ | ⟨e, hr⟩ <;> simp [hr] at h
  | nested id => simp [evalFS] at h
  | emptyNested => simp [evalFS] at h
  | reapply x => simp [noR] at hn
  | unary op x =>
    simp only [noR] at hn
    simp only [evalFS] at h
    rcases sub_cases (cur := cur) (st := st) ih hn with ⟨w, st1, hx⟩ | ⟨e, hx⟩ | hx <;> simp only [hx] at h
    · split at h
      · exact av h
      · split at h
        · exact settle_ne_restart h
        · simp at h
    · simp at h
    · simp at h
  | binary op l r =>
    simp only [noR, Bool.and_eq_true] at hn
    simp only [evalFS] at h
    rcases sub_cases (cur := cur) (st := st) ih hn.1 with ⟨w, st1, hx⟩ | ⟨e, hx⟩ | hx <;> simp only [hx] at h
    · rcases sub_cases (cur := cur) (st := st1) ih hn.2 with ⟨w2, st2, hy⟩ | ⟨e, hy⟩ | hy <;> simp only [hy] at h
      · split at h
        · exact av h
        · split at h
          · exact settle_ne_restart h
          · simp at h
      · simp at h
      · simp at h
    · simp at h
    · simp at h
  | pair l r =>
    simp only [noR, Bool.and_eq_true] at hn
    simp only [evalFS] at h
    rcases sub_cases (cur := cur) (st := st) ih hn.2 with ⟨w, st1, hx⟩ | ⟨e, hx⟩ | hx <;> simp only [hx] at h
    · rcases sub_cases (cur := cur) (st := st1) ih hn.1 with ⟨w2, st2, hy⟩ | ⟨e, hy⟩ | hy <;> simp [hy] at h
    · simp at h
    · simp at h
  | applyTo x f =>
    simp only [noR, Bool.and_eq_true] at hn
    simp only [evalFS] at h
    rcases sub_cases (cur := cur) (st := st) ih hn.2 with ⟨w, st1, hx⟩ | ⟨e, hx⟩ | hx <;> simp only [hx] at h
    · rcases sub_cases (cur := cur) (st := st1) ih hn.1 with ⟨w2, st2, hy⟩ | ⟨e, hy⟩ | hy <;> simp only [hy] at h
      · exact av h
      · simp at h
      · simp at h
    · simp at h
    · simp at h
  | list items =>
    simp only [noR] at hn
    simp only [evalFS] at h
    split at h
    · simp at h
    · rename_i w st1 hl
      exact ihL cur items st [] w st1 hn hl
    · simp at h
    · simp at h
  | cond onTrue c t =>
    simp only [noR, Bool.and_eq_true] at hn
    simp only [evalFS] at h
    rcases sub_cases (cur := cur) (st := st) ih hn.1 with ⟨w, st1, hx⟩ | ⟨e, hx⟩ | hx <;> simp only [hx] at h
    · split at h
      · exact ih cur t st1 v st' hn.2 h
      · simp at h
    · simp at h
    · simp at h
  | chain arms final =>
    simp only [noR_chain, Bool.and_eq_true] at hn
    simp only [evalFS] at h
    exact ihC cur arms final st v st' hn.1 hn.2 h
  | and l r =>
    simp only [noR, Bool.and_eq_true] at hn
    simp only [evalFS] at h
    rcases sub_cases (cur := cur) (st := st) ih hn.1 with ⟨w, st1, hx⟩ | ⟨e, hx⟩ | hx <;> simp only [hx] at h
    · split at h
      · rcases sub_cases (cur := cur) (st := st1) ih hn.2 with ⟨w2, st2, hy⟩ | ⟨e, hy⟩ | hy <;> simp [hy] at h
      · simp at h
    · simp at h
    · simp at h
  | or l r =>
    simp only [noR, Bool.and_eq_true] at hn
    simp only [evalFS] at h
    rcases sub_cases (cur := cur) (st := st) ih hn.1 with ⟨w, st1, hx⟩ | ⟨e, hx⟩ | hx <;> simp only [hx] at h
    · split at h
      · simp at h
      · rcases sub_cases (cur := cur) (st := st1) ih hn.2 with ⟨w2, st2, hy⟩ | ⟨e, hy⟩ | hy <;> simp [hy] at h
    · simp at h
    · simp at h
  | seq a b =>
    simp only [noR, Bool.and_eq_true] at hn
    simp only [evalFS] at h
    rcases sub_cases (cur := cur) (st := st) ih hn.1 with ⟨w, st1, hx⟩ | ⟨e, hx⟩ | hx <;> simp only [hx] at h
    · exact ih cur b _ v st' hn.2 h
    · simp at h
    · simp at h
  | sideAfter x b =>
    simp only [noR, Bool.and_eq_true] at hn
    simp only [evalFS] at h
    rcases sub_cases (cur := cur) (st := st) ih hn.1 with ⟨w, st1, hx⟩ | ⟨e, hx⟩ | hx <;> simp only [hx] at h
    · rcases sub_cases (cur := cur) (st := st1) ih hn.2 with ⟨w2, st2, hy⟩ | ⟨e, hy⟩ | hy <;> simp [hy] at h
    · simp at h
    · simp at h
  | prefixApply sym x =>
    simp only [noR] at hn
    simp only [evalFS] at h
    rcases resolveVal_cases (fo := fo) (host := host) st sym with ⟨w, st1, hr⟩ | ⟨e, hr⟩ <;> simp only [hr] at h
    · rcases sub_cases (cur := cur) (st := st1) ih hn with ⟨w2, st2, hy⟩ | ⟨e, hy⟩ | hy <;> simp only [hy] at h
      · exact av h
      · simp at h
      · simp at h
    · simp at h
  | suffixApply x sym =>
    simp only [noR] at hn
    simp only [evalFS] at h
    rcases resolveVal_cases (fo := fo) (host := host) st sym with ⟨w, st1, hr⟩ | ⟨e, hr⟩ <;> simp only [hr] at h
    · rcases sub_cases (cur := cur) (st := st1) ih hn with ⟨w2, st2, hy⟩ | ⟨e, hy⟩ | hy <;> simp only [hy] at h
      · exact av h
      · simp at h
      · simp at h
    · simp at h
  | infixApply a sym b =>
    simp only [noR, Bool.and_eq_true] at hn
    simp only [evalFS] at h
    rcases resolveVal_cases (fo := fo) (host := host) st sym with ⟨w, st1, hr⟩ | ⟨e, hr⟩ <;> simp only [hr] at h
    · rcases sub_cases (cur := cur) (st := st1) ih hn.1 with ⟨w2, st2, hy⟩ | ⟨e, hy⟩ | hy <;> simp only [hy] at h
      · rcases sub_cases (cur := cur) (st := st2) ih hn.2 with ⟨w3, st3, hz⟩ | ⟨e, hz⟩ | hz <;> simp only [hz] at h
        · exact av h
        · simp at h
        · simp at h
      · simp at h
      · simp at h
    · simp at h

theorem noRL_step {fuel : Nat} (ih : NoRE fo host bodies fuel) (ihL : NoRL fo host bodies fuel) :
    NoRL fo host bodies (fuel + 1) := by
  intro cur items st acc v st' hn h
  cases items with
  | nil => simp [evalListS] at h
  | cons x xs =>
    simp only [noRList, Bool.and_eq_true] at hn
    simp only [evalListS] at h
    rcases sub_cases (cur := cur) (st := st) ih hn.1 with ⟨w, st1, hx⟩ | ⟨e, hx⟩ | hx <;> simp only [hx] at h
    · exact ihL cur xs st1 (w :: acc) v st' hn.2 h
    · simp at h
    · simp at h

theorem noRC_step {fuel : Nat} (ih : NoRE fo host bodies fuel) (ihC : NoRC fo host bodies fuel) :
    NoRC fo host bodies (fuel + 1) := by
  intro cur arms final st v st' hn hf h
  cases arms with
  | nil =>
    cases final with
    | none => simp [evalChainS] at h
    | some e =>
      simp only [evalChainS] at h
      exact ih cur e st v st' hf h
  | cons arm rest =>
    obtain ⟨onTrue, c, t⟩ := arm
    simp only [noRArms, Bool.and_eq_true] at hn
    simp only [evalChainS] at h
    rcases sub_cases (cur := cur) (st := st) ih hn.1.1 with ⟨w, st1, hx⟩ | ⟨e, hx⟩ | hx <;> simp only [hx] at h
    · split at h
      · exact ih cur t st1 v st' hn.1.2 h
      · exact ihC cur rest final st1 v st' hn.2 hf h
    · simp at h
    · simp at h

theorem noR_all (fo : FloatOps F) (host : Host F) (bodies : List (Nat × Expr F)) :
    ∀ fuel, NoRE fo host bodies fuel ∧ NoRL fo host bodies fuel ∧ NoRC fo host bodies fuel := by
  intro fuel
  induction fuel with
  | zero =>
    refine ⟨?_, ?_, ?_⟩
    · intro cur e st v st' _ h; simp [evalFS] at h
    · intro cur items st acc v st' _ h; simp [evalListS] at h
    · intro cur arms final st v st' _ _ h; simp [evalChainS] at h
  | succ fuel ih =>
    exact ⟨noRE_step ih.1 ih.2.1 ih.2.2, noRL_step ih.1 ih.2.1, noRC_step ih.1 ih.2.2⟩

/-- an expression without a `^~` of its own body never asks for a restart -/
theorem noR_sound {cur fuel : Nat} {e : Expr F} {st st' : St F} {v : Val F} (hn : noR e = true) :
    evalFS fo host bodies cur fuel e st ≠ .ok (.restart v, st') :=
  (noR_all fo host bodies fuel).1 cur e st v st' hn

theorem noRList_sound {cur fuel : Nat} {items : List (Expr F)} {acc : List (Val F)} {st st' : St F} {v : Val F}
    (hn : noRList items = true) :
    evalListS fo host bodies cur fuel items st acc ≠ .ok (.inr v, st') :=
  (noR_all fo host bodies fuel).2.1 cur items st acc v st' hn

end Garnish.Abs
