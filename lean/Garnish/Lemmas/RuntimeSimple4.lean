/-
`SimpleGarnishData` as a store: `merge_to_symbol_list` (symbols and symbol lists; a NUMBER operand is an `Err`, where
`Abs.mergeSymList` merges), the list builder, the indexed getters.
-/
import Garnish.Lemmas.RuntimeSimple3
namespace Garnish.Lemmas.Runtime.Simple
open Garnish Gen Garnish.Model.Equality Garnish.Model.Runtime Garnish.Lemmas.Runtime
variable {F : Type} {hit : List (SimCell F) → SimCell F → Option Nat} {h : SimHost F}

theorem sym_inv {cells : List (SimCell F)} {a s : Nat} (hd : Decodes (simView cells) a (.sym s : Val F)) :
    cells[a]? = some (.sym s) := by
  cases hd with
  | sym _ hs =>
    simp only [simView] at hs
    cases hc : cells[a]? with
    | none => rw [hc] at hs; cases hs
    | some c => rw [hc] at hs; cases c <;> cases hs; rfl

theorem symList_inv {cells : List (SimCell F)} {a : Nat} {ps : List (SymPart F)}
    (hd : Decodes (simView cells) a (.symList ps)) : ∃ ss, cells[a]? = some (.symList ss) ∧ ps = ss.map SymPart.sym := by
  cases hd with
  | symList _ hs =>
    simp only [simView] at hs
    cases hc : cells[a]? with
    | none => rw [hc] at hs; cases hs
    | some c => rw [hc] at hs; cases c <;> cases hs; exact ⟨_, rfl, rfl⟩

theorem num_inv {cells : List (SimCell F)} {a : Nat} {n : Number F} (hd : Decodes (simView cells) a (.num n)) :
    cells[a]? = some (.num n) := by
  cases hd with
  | num _ hs =>
    simp only [simView] at hs
    cases hc : cells[a]? with
    | none => rw [hc] at hs; cases hs
    | some c => rw [hc] at hs; cases c <;> cases hs; rfl

theorem addsI_congr {m m' : RM (SimState F) Nat} {st : SimState F} {v : Val F} (he : m st = m' st)
    (ha : AddsI hit h m' st v) : AddsI hit h m st v := by
  obtain ⟨a, st', h1, rest⟩ := ha; exact ⟨a, st', he ▸ h1, rest⟩

section merge
variable {st : SimState F} (hinv : SInv st) {l r : Nat} {vl vr v : Val F}
  (hl : Decodes (simView st.cells) l vl) (hr : Decodes (simView st.cells) r vr)
include hinv hl hr

/-- `merge_to_symbol_list` on symbols and symbol lists -/
theorem merge_law (hm : Abs.mergeSymList vl vr = some v) (nl : ∀ n, vl ≠ .num n) (nr : ∀ n, vr ≠ .num n) :
    AddsI hit h ((simpleRStore hit h).mergeToSymbolList l r) st v := by
  have new : ∀ ss : List Nat, AddsI hit h (SimState.push (.symList ss)) st (.symList (ss.map SymPart.sym)) :=
    fun ss => push_adds hinv _ (dec_symList (new_cell _ _))
  cases vl <;> cases vr <;> simp only [Abs.mergeSymList] at hm <;> (try (cases hm; done)) <;>
    (try exact absurd rfl (nl _)) <;> (try exact absurd rfl (nr _)) <;> cases hm
  · have h1 := sym_inv hl; have h2 := sym_inv hr
    exact addsI_congr (by simp only [simpleRStore, h1, h2]) (new [_, _])
  · have h1 := sym_inv hl; obtain ⟨ss, h2, rfl⟩ := symList_inv hr
    exact addsI_congr (by simp only [simpleRStore, h1, h2]) (new (_ :: ss))
  · obtain ⟨ss, h1, rfl⟩ := symList_inv hl; have h2 := sym_inv hr
    rename_i s
    have := new (ss ++ [s]); rw [List.map_append] at this
    refine addsI_congr ?_ this
    simp only [simpleRStore, h1, h2]
  · obtain ⟨s1, h1, rfl⟩ := symList_inv hl; obtain ⟨s2, h2, rfl⟩ := symList_inv hr
    have := new (s1 ++ s2); rw [List.map_append] at this
    refine addsI_congr ?_ this
    simp only [simpleRStore, h1, h2]

end merge

/-- where the contract asks for a merge (`Abs.mergeSymList` accepts numbers as parts), Simple answers `Err` -/
theorem merge_number_left_errs {st : SimState F} {l r : Nat} {n : Number F} (hl : Decodes (simView st.cells) l (.num n)) :
    (simpleRStore hit h).mergeToSymbolList l r st = .err .data := by
  have h1 := num_inv hl
  simp only [simpleRStore, h1]

/-! ### the list builder -/

theorem startList_law {st : SimState F} (hinv : SInv st) (n : Nat) :
    ∃ t st', (simpleRStore hit h).startList n st = .ok (t, st') ∧
      Eff (simpleRStore hit h) st st' ((simpleRStore hit h).regs st) ((simpleRStore hit h).vals st) ∧
      (simpleRStore hit h).building st' = some (t, []) ∧ SInv st' :=
  ⟨0, { st with currentList := some [] }, rfl, eff_ext hinv (ext_refl _) rfl rfl rfl rfl rfl rfl, rfl,
    sinv_ext hinv (ext_refl _) rfl⟩

theorem addToList_law {st : SimState F} (hinv : SInv st) {t : Nat} {items : List Nat} (a : Nat)
    (hb : (simpleRStore hit h).building st = some (t, items)) :
    ∃ t' st', (simpleRStore hit h).addToList t a st = .ok (t', st') ∧
      Eff (simpleRStore hit h) st st' ((simpleRStore hit h).regs st) ((simpleRStore hit h).vals st) ∧
      (simpleRStore hit h).building st' = some (t', items ++ [a]) ∧ SInv st' := by
  simp only [simpleRStore] at hb
  cases hc : st.currentList with
  | none => rw [hc] at hb; cases hb
  | some xs =>
    rw [hc] at hb; cases hb
    refine ⟨0, { st with currentList := some (items ++ [a]) }, ?_,
      eff_ext hinv (ext_refl _) rfl rfl rfl rfl rfl rfl, rfl, sinv_ext hinv (ext_refl _) rfl⟩
    simp only [simpleRStore, hc]

theorem dec_list {cells : List (SimCell F)} {a : Nat} {items : List Nat} {vs : List (Val F)}
    (hc : cells[a]? = some (.list items)) (hd : DecodesList (simView cells) items vs) :
    Decodes (simView cells) a (.list vs) :=
  .list (by simp only [simView, hc, SimCell.ty]) (by simp only [simView, hc]) hd

theorem endList_law {st : SimState F} (hinv : SInv st) {t : Nat} {items : List Nat} {vs : List (Val F)}
    (hb : (simpleRStore hit h).building st = some (t, items)) (hd : DecodesList (simView st.cells) items vs) :
    AddsI hit h ((simpleRStore hit h).endList t) st (.list vs) := by
  simp only [simpleRStore] at hb
  cases hc : st.currentList with
  | none => rw [hc] at hb; cases hb
  | some xs =>
    rw [hc] at hb; cases hb
    refine addsI_congr ?_ (push_adds hinv (.list items)
      (dec_list (new_cell _ _) (decodesList_mono (viewLe_ext (ext_append _ _)) hd)))
    simp only [simpleRStore, hc, SimState.push]

theorem popRegisterBuilding_law {st st' : SimState F} {o : Option Nat}
    (hp : (simpleRStore hit h).popRegister st = .ok (o, st')) :
    (simpleRStore hit h).building st' = (simpleRStore hit h).building st := by
  simp only [simpleRStore] at hp ⊢
  cases hr : st.register with
  | nil => simp only [hr] at hp; cases hp; rfl
  | cons a rest =>
    simp only [hr] at hp
    cases hc : st.cells[a]? with
    | none => rw [hc] at hp; cases hp
    | some c => rw [hc] at hp; cases c <;> cases hp <;> rfl

/-! ### the getters -/

theorem rangeTyped_law (st : SimState F) (a : Nat) (p : Nat × Nat)
    (hr : ((simpleRStore hit h).view st).range a = some p) :
    ((simpleRStore hit h).view st).typeOf a = some .range := by
  simp only [simpleRStore, simView] at hr ⊢
  cases hc : st.cells[a]? with
  | none => rw [hc] at hr; cases hr
  | some c => rw [hc] at hr; cases c <;> cases hr; rfl

theorem simIdx_nat (i : Nat) : simIdx (i : Int) = i := by
  unfold simIdx; rw [if_pos (Int.natCast_nonneg i)]; exact Int.toNat_natCast i

theorem simIdx_eq (v : Int) (hv : v < 18446744073709551616) : simIdx v = Access.Simple.asUsize v := by
  unfold simIdx Access.Simple.asUsize
  split
  · rw [Int.emod_eq_of_lt (by assumption) hv]
  · rfl

theorem listIdx_law (st : SimState F) :
    Indexes ((simpleRStore hit h).listLen st) ((simpleRStore hit h).listItem st)
      ((simpleRStore hit h).view st).listItems := by
  intro a xs hx
  simp only [simpleRStore, simView] at hx ⊢
  cases hc : st.cells[a]? with
  | none => rw [hc] at hx; cases hx
  | some c =>
    rw [hc] at hx; cases c <;> cases hx
    exact ⟨rfl, fun i _ => by simp only [simIdx_nat]⟩

theorem charIdx_law (st : SimState F) :
    Indexes ((simpleRStore hit h).charLen st) ((simpleRStore hit h).charItem st)
      ((simpleRStore hit h).view st).chars := by
  intro a xs hx
  simp only [simpleRStore, simView] at hx ⊢
  cases hc : st.cells[a]? with
  | none => rw [hc] at hx; cases hx
  | some c =>
    rw [hc] at hx; cases c <;> cases hx
    refine ⟨rfl, fun i hi => ?_⟩
    simp only [simIdx_nat, List.getElem?_eq_getElem hi]

theorem byteIdx_law (st : SimState F) :
    Indexes ((simpleRStore hit h).byteLen st) ((simpleRStore hit h).byteItem st)
      ((simpleRStore hit h).view st).bytes := by
  intro a xs hx
  simp only [simpleRStore, simView] at hx ⊢
  cases hc : st.cells[a]? with
  | none => rw [hc] at hx; cases hx
  | some c =>
    rw [hc] at hx; cases c <;> cases hx
    refine ⟨rfl, fun i hi => ?_⟩
    simp only [simIdx_nat, List.getElem?_eq_getElem hi]

theorem symIdx_law (st : SimState F) :
    Indexes ((simpleRStore hit h).symLen st) ((simpleRStore hit h).symItem st)
      ((simpleRStore hit h).view st).symList := by
  intro a xs hx
  simp only [simpleRStore, simView] at hx ⊢
  cases hc : st.cells[a]? with
  | none => rw [hc] at hx; cases hx
  | some c =>
    rw [hc] at hx; cases c <;> cases hx
    refine ⟨by simp only [List.length_map], fun i hi => ?_⟩
    rw [List.length_map] at hi
    simp only [simIdx_nat, List.getElem?_eq_getElem hi, List.getElem?_map, Option.map]

end Garnish.Lemmas.Runtime.Simple
