/-
`literal operator literal` sources, symbolically (see Lemmas/SourceLit.lean): five tokens — literal, whitespace, binary
operator, whitespace, literal — for every token text.
-/
import Garnish.Lemmas.SourceLit
import Garnish.Lemmas.KernelRfl
namespace Garnish.Abs.Source
open Garnish Garnish.Gen Garnish.Spec Garnish.Abs Garnish.Abs.Tree Garnish.Model Garnish.Model.Parser
open Garnish.Model.Lexer Garnish.Model.Literals Garnish.Model.Build Garnish.Props.C01Build Garnish.Props.C01Source

variable {F : Type} {pf : List Char → Option F}

/-- the literal token types whose nodes are plain value nodes with text -/
def litDef4 : TokenType → Option Definition
  | .number => some .number
  | .charList => some .charList
  | .byteList => some .byteList
  | .symbol => some .symbol
  | _ => none

/-- binary operator tokens: the definition of the node and the instruction -/
def opTok : TokenType → Option (Definition × Instruction)
  | .plusSign => some (.addition, .add)
  | .subtraction => some (.subtraction, .subtract)
  | .multiplicationSign => some (.multiplicationSign, .multiply)
  | .division => some (.division, .divide)
  | .integerDivision => some (.integerDivision, .integerDivide)
  | .exponentialSign => some (.exponentialSign, .power)
  | .remainder => some (.remainder, .remainder)
  | .bitwiseAnd => some (.bitwiseAnd, .bitwiseAnd)
  | .bitwiseOr => some (.bitwiseOr, .bitwiseOr)
  | .bitwiseXor => some (.bitwiseXor, .bitwiseXor)
  | .bitwiseLeftShift => some (.bitwiseLeftShift, .bitwiseShiftLeft)
  | .bitwiseRightShift => some (.bitwiseRightShift, .bitwiseShiftRight)
  | .equality => some (.equality, .equal)
  | .inequality => some (.inequality, .notEqual)
  | .lessThan => some (.lessThan, .lessThan)
  | .lessThanOrEqual => some (.lessThanOrEqual, .lessThanOrEqual)
  | .greaterThan => some (.greaterThan, .greaterThan)
  | .greaterThanOrEqual => some (.greaterThanOrEqual, .greaterThanOrEqual)
  | _ => none

theorem opTok_binOp {oty : TokenType} {d : Definition} {op : Instruction} (h : opTok oty = some (d, op)) :
    binOp d = some op ∧ binOK op = true := by
  cases oty <;> simp only [opTok, reduceCtorEq, Option.some.injEq, Prod.mk.injEq] at h <;>
    (obtain ⟨rfl, rfl⟩ := h; exact ⟨rfl, rfl⟩)

/-- the tokens of `a op b` -/
def fiveToks (ta w1 to w2 tb : List Char) (tya oty tyb : TokenType) : List PToken :=
  [⟨ta, tya, 0, 0⟩, ⟨w1, .whitespace, 0, 1⟩, ⟨to, oty, 0, 2⟩, ⟨w2, .whitespace, 0, 3⟩, ⟨tb, tyb, 0, 4⟩]

/-- the result of `parse` on them -/
def threeNodes (da dop db : Definition) (sd : SecDef) (A O B : PToken) : ParseResult :=
  ⟨1, #[⟨da, .value, some 1, none, none, A⟩, ⟨dop, sd, none, some 0, some 2, O⟩, ⟨db, .value, some 1, none, none, B⟩]⟩

def binTree : Spec.Tree := .node (.node .nil 0 0 .nil) 1 2 (.node .nil 2 4 .nil)

open Garnish.Lemmas in
theorem five_tokens (ta w1 to w2 tb : List Char) (tya oty tyb : TokenType) (da dop db : Definition) (op : Instruction)
    (hda : litDef4 tya = some da) (hdb : litDef4 tyb = some db) (hop : opTok oty = some (dop, op)) :
    parse (fiveToks ta w1 to w2 tb tya oty tyb) =
      .ok (threeNodes da dop db (getDefinition oty).2 ⟨ta, tya, 0, 0⟩ ⟨to, oty, 0, 2⟩ ⟨tb, tyb, 0, 4⟩) ∧
    toTree (threeNodes da dop db (getDefinition oty).2 ⟨ta, tya, 0, 0⟩ ⟨to, oty, 0, 2⟩ ⟨tb, tyb, 0, 4⟩) = some binTree ∧
    binTree.inorder = List.range 3 ∧
    refTreeOf (threeNodes da dop db (getDefinition oty).2 ⟨ta, tya, 0, 0⟩ ⟨to, oty, 0, 2⟩ ⟨tb, tyb, 0, 4⟩) binTree =
      .node (.node .nil da 0 .nil) dop 2 (.node .nil db 4 .nil) := by
  cases tya <;> simp only [litDef4, reduceCtorEq, Option.some.injEq] at hda <;> subst hda <;>
  cases tyb <;> simp only [litDef4, reduceCtorEq, Option.some.injEq] at hdb <;> subst hdb <;>
  cases oty <;> simp only [opTok, reduceCtorEq, Option.some.injEq, Prod.mk.injEq] at hop <;>
    (obtain ⟨rfl, rfl⟩ := hop; exact ⟨by kernel_rfl, by kernel_rfl, rfl, by kernel_rfl⟩)

/-- the elaboration of the reference tree of `a op b` -/
theorem five_elab (ta w1 to w2 tb : List Char) (tya oty tyb : TokenType) (da dop db : Definition) (op : Instruction)
    (hop : binOp dop = some op) (va vb : Val F) (ha : leafE pf da ta = some (.lit va)) (hb : leafE pf db tb = some (.lit vb)) :
    elaborate pf (fiveToks ta w1 to w2 tb tya oty tyb) (.node (.node .nil da 0 .nil) dop 2 (.node .nil db 4 .nil)) =
      some (binProg op va vb) := by
  simp [elaborate, elabSrc, elabWith, go_bin, go_leaf, textAt, fiveToks, ha, hb, plain, binE, hop, idsOK, nodupB, binProg]

end Garnish.Abs.Source
