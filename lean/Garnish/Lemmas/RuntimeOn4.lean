/-
The runtime refinement over the RELATIVISED store contract `StoreLawsOn` (Model/Runtime/StoreOn.lean), part 4.
Handlers / step / run lemmas of Lemmas/Runtime{Base,Step*,Run}.lean redone with the invariant threaded (`Inv s` in,
`Inv s'` out), `Readable` established at every push (from a `Decodes` fact of a non-`custom` value) and `Deep`
at every pop (from `Sim` and the machine-side condition `MDeep`) — for the instructions `MachOKOn` lists.
-/
import Garnish.Lemmas.RuntimeOn3
import Garnish.Lemmas.RuntimeRun
set_option linter.unusedSimpArgs false
set_option linter.unusedVariables false
namespace Garnish.Lemmas.Runtime.On
open Garnish Gen Garnish.Abs Garnish.Model.Equality Garnish.Model.Runtime Garnish.Lemmas.Runtime
open Garnish.Props.RuntimeRefine

variable {F σ : Type} {S : RStore F σ} {Inv : σ → Prop} {Rd : σ → Nat → Prop} {P : Prog F} {host : Host F}
  (fo : FloatOps F)

/-- MULTI-STEP, relativised contract: the address-level loop follows the machine's run to its end; the invariant holds
at the end -/
theorem executeLoop_spec_on (L : StoreLawsOn S Inv Rd) (fuel : Nat) (H : OtherHandlers σ) :
    ∀ (n : Nat) (s : σ) (m : MState F), Sim S P s m → Inv s → Loaded S P s → RunOKOn fo host P n m →
      ∀ (m' : MState F) (k : Nat), Abs.run fo host P n m = (.halted m', k) →
        ∃ s', executeLoop fo S fuel H n s = .ok ((.end_, k), s') ∧
          SimD S P s' m'.regs m'.vals m'.frames ∧ DecKept S s s' ∧ Inv s' := by
  intro n
  induction n with
  | zero => intro s m _ _ _ _ m' k h; simp [Abs.run] at h
  | succ n ih =>
    intro s m hsim hi hl hok m' k hrun
    obtain ⟨hmach, hnext⟩ := hok
    have hstepsim : StepSimOn fo host S Inv P fuel H s m := by
      cases hf : P.instrs[m.pc]? with
      | none => exact refine_step_end_on fo fuel H hsim hi hf
      | some p =>
        obtain ⟨instr, operand⟩ := p
        exact refine_step_on fo L fuel H hsim hi hl hf (hmach instr operand hf)
    unfold StepSimOn at hstepsim
    rw [Abs.run] at hrun
    cases hst : Abs.step fo host P m with
    | running m1 =>
      rw [hst] at hstepsim hrun
      obtain ⟨s1, h1, hs1, hk1, i1⟩ := hstepsim
      simp only [] at hrun
      cases hr : Abs.run fo host P n m1 with
      | mk r k' =>
        rw [hr] at hrun
        simp only [Prod.mk.injEq] at hrun
        obtain ⟨rfl, rfl⟩ := hrun
        obtain ⟨s2, h2, hd2, hk2, i2⟩ := ih s1 m1 hs1 i1 (loaded_kept hl hk1) (hnext m1 hst) m' k' hr
        refine ⟨s2, ?_, hd2, fun a v h => hk2 a v (hk1 a v h), i2⟩
        rw [executeLoop, bind_ok h1]
        simp only []
        rw [bind_ok h2]; rfl
    | halted m1 =>
      rw [hst] at hstepsim hrun
      obtain ⟨s1, h1, hd1, hk1, i1⟩ := hstepsim
      simp only [Prod.mk.injEq, StepRes.halted.injEq] at hrun
      obtain ⟨rfl, rfl⟩ := hrun
      exact ⟨s1, by rw [executeLoop, bind_ok h1]; rfl, hd1, hk1, i1⟩
    | err e =>
      rw [hst] at hrun
      simp at hrun

end Garnish.Lemmas.Runtime.On
