/-
C04, builder half — evaluation order, part 3: the description of one handler call (`Step`) and its elementary consequences.
-/
import Garnish.Lemmas.BuildSeq2
namespace Garnish.Lemmas.BuildSeq
open Garnish Garnish.Gen Garnish.Model.Parser Garnish.Model.Literals Garnish.Model.Build Garnish.Lemmas.Build
open Garnish.Lemmas.BuildTotal
open Garnish.Lemmas.BuildOrder (Above above_append_left above_append_mem above_append_right above_mem above_irrefl
  above_top_false above_init Attr Moving nm1 nm2 nm3 nmr nm23 nm123 get_append attr_append)

variable {F : Type} {root : Nat} {tree : Array ParseNode} {G : Nat → Prop} {m0 : Nat}

/-- one handler call: the visited node `ni` (on top of the work list) moves to `vni`, the children `cs` are pushed (phase
p1) in the arrangement `suf`, the children `rs` leave p0 / pc for a phase outside {p1, p2, p3}, the metadata grows by `l`,
which names at most `ni`; the arrangement agrees with `layout` -/
structure Step (root : Nat) (tree : Array ParseNode) (G : Nat → Prop) (ph ph' : Nat → Phase) (ctx ctx' : Ctx F) (ni : Nat)
    (pn : ParseNode) (vni : Phase) (cs rs suf : List Nat) (l : List (Option Nat)) (M M' : Array (Option Nat)) : Prop where
  V : Validated root tree G
  hinv : Inv root tree G ph ctx
  hG : G ni
  hph : Act ph ni
  hpn : tree[ni]? = some pn
  hv : vni = .p2 ∨ vni = .p3
  hv2 : vni = .p2 → ph ni = .p1
  hni' : ph' ni = vni
  hcs' : ∀ c, c ∈ cs → ph' c = .p1
  hrsN : ∀ c, c ∈ rs → ph' c ≠ .p1 ∧ ph' c ≠ .p2 ∧ ph' c ≠ .p3
  hother : ∀ x, x ≠ ni → x ∉ cs ++ rs → ph' x = ph x
  hS : ctx'.stack.toList = ctx.stack.toList ++ suf
  hM : M'.toList = M.toList ++ l
  hl : ∀ m, m ∈ l → m = none ∨ m = some ni
  hsufni : vni = .p2 → ni ∈ suf
  hsufcs : ∀ c, c ∈ cs → c ∈ suf
  hnodup' : ctx'.stack.toList.Nodup
  hfreshcs : ∀ c, c ∈ cs → ph c = .p0 ∧ c ≠ ni ∧ IsChild tree ni c
  hfreshrs : ∀ c, c ∈ rs → Moving ph c ∧ c ≠ ni
  huninit : ∀ (x : Nat) (bn : BuildNode), ctx'.nodes[x]? = some (some bn) → (ph' x = .p1 ∨ ph' x = .pr) → x ≠ ni →
    (x ∈ cs ++ rs → bn.state = .uninitialized) ∧
    (x ∉ cs ++ rs → ∃ bn0, ctx.nodes[x]? = some (some bn0) ∧ bn.state = bn0.state)
  -- the arrangement
  hcs1 : cs ≠ [] → ph ni = .p1
  hinl : ∀ c, c ∈ cs → ILink tree ni c
  hord : ∀ a b, Ord tree ni a b → a ∈ cs → b ∈ cs ∧ Above suf a b
  hpre : ∀ c, PreC tree ni c → c ∈ cs → vni = .p2 ∧ Above suf c ni
  hpost : ∀ c, PostC tree ni c → c ∈ cs → Above suf ni c
  hattr : some ni ∈ l → vni = .p3 ∨ pn.definition = .sideEffect
  hse : pn.definition = .sideEffect → some ni ∈ l
  hool : ∀ c, c ∈ rs → ph c = .p0 → OolChild tree ni c

namespace Step
variable {ph ph' : Nat → Phase} {ctx ctx' : Ctx F} {ni : Nat} {pn : ParseNode} {vni : Phase} {cs rs suf : List Nat}
  {l : List (Option Nat)} {M M' : Array (Option Nat)}

theorem keep (st : Step root tree G ph ph' ctx ctx' ni pn vni cs rs suf l M M') {x : Nat} (hx : ¬ Moving ph x) (hxn : x ≠ ni) :
    ph' x = ph x := by
  refine st.hother x hxn (fun hm => hx ?_)
  rcases List.mem_append.1 hm with h | h
  · exact Or.inl (st.hfreshcs x h).1
  · exact (st.hfreshrs x h).1

theorem keepAct (st : Step root tree G ph ph' ctx ctx' ni pn vni cs rs suf l M M') {x : Nat} (hx : Act ph x) (hxn : x ≠ ni) :
    ph' x = ph x := by
  rcases hx with h | h
  · exact st.keep (nm1 h) hxn
  · exact st.keep (nm2 h) hxn

theorem keep23 (st : Step root tree G ph ph' ctx ctx' ni pn vni cs rs suf l M M') {x : Nat} (hx : ph x = .p2 ∨ ph x = .p3)
    (hxn : x ≠ ni) : ph' x = ph x := st.keep (nm23 hx) hxn

theorem vni_ne1 (st : Step root tree G ph ph' ctx ctx' ni pn vni cs rs suf l M M') : vni ≠ .p1 := by
  intro h; rcases st.hv with h' | h' <;> rw [h'] at h <;> cases h

/-- the nodes: `ni`, a pushed child, an out-of-line child, or untouched -/
theorem cases (st : Step root tree G ph ph' ctx ctx' ni pn vni cs rs suf l M M') (x : Nat) :
    x = ni ∨ (x ∈ cs ∧ ph x = .p0) ∨ (x ∈ rs ∧ Moving ph x) ∨ (x ≠ ni ∧ x ∉ cs ++ rs) := by
  rcases Classical.em (x = ni) with h | h
  · exact Or.inl h
  · rcases Classical.em (x ∈ cs) with h1 | h1
    · exact Or.inr (Or.inl ⟨h1, (st.hfreshcs x h1).1⟩)
    · rcases Classical.em (x ∈ rs) with h2 | h2
      · exact Or.inr (Or.inr (Or.inl ⟨h2, (st.hfreshrs x h2).1⟩))
      · exact Or.inr (Or.inr (Or.inr ⟨h, fun hm => by rcases List.mem_append.1 hm with h3 | h3 <;> contradiction⟩))

/-- the nodes that are active after the step -/
theorem act' (st : Step root tree G ph ph' ctx ctx' ni pn vni cs rs suf l M M') {x : Nat} (h : Act ph' x) :
    (x = ni ∧ vni = .p2 ∧ ph ni = .p1) ∨ (x ∈ cs ∧ ph x = .p0 ∧ x ≠ ni ∧ IsChild tree ni x) ∨
    (x ≠ ni ∧ x ∉ cs ∧ Act ph x ∧ ph' x = ph x) := by
  rcases st.cases x with hx | ⟨hx, h0⟩ | ⟨hx, _⟩ | ⟨h1, h2⟩
  · subst hx
    rw [Act, st.hni'] at h
    rcases h with h | h
    · exact absurd h st.vni_ne1
    · exact Or.inl ⟨rfl, h, st.hv2 h⟩
  · exact Or.inr (Or.inl ⟨hx, h0, (st.hfreshcs x hx).2.1, (st.hfreshcs x hx).2.2⟩)
  · rcases h with h | h
    · exact absurd h (st.hrsN x hx).1
    · exact absurd h (st.hrsN x hx).2.1
  · have := st.hother x h1 h2
    refine Or.inr (Or.inr ⟨h1, fun hc => h2 (List.mem_append_left _ hc), ?_, this⟩)
    rw [Act, this] at h; exact h

/-- the phase of a node that is visited (p2 / p3) after the step -/
theorem vis' (st : Step root tree G ph ph' ctx ctx' ni pn vni cs rs suf l M M') {x : Nat} (h : ph' x = .p2 ∨ ph' x = .p3) :
    x = ni ∨ (x ≠ ni ∧ (ph x = .p2 ∨ ph x = .p3) ∧ ph' x = ph x) := by
  rcases st.cases x with hx | ⟨hx, _⟩ | ⟨hx, _⟩ | ⟨h1, h2⟩
  · exact Or.inl hx
  · rw [st.hcs' x hx] at h; rcases h with h | h <;> cases h
  · rcases h with h | h
    · exact absurd h (st.hrsN x hx).2.1
    · exact absurd h (st.hrsN x hx).2.2
  · have := st.hother x h1 h2
    rw [this] at h
    exact Or.inr ⟨h1, h, this⟩

theorem top (st : Step root tree G ph ph' ctx ctx' ni pn vni cs rs suf l M M') {nodes : Nodes}
    (ho : SInv root tree G m0 ph (ctx.stack.toList ++ [ni]) nodes M) (u : Nat) : ¬ Above (ctx.stack.toList ++ [ni]) u ni :=
  above_top_false ho.nodup

theorem lift (st : Step root tree G ph ph' ctx ctx' ni pn vni cs rs suf l M M') {u v : Nat}
    (h : Above (ctx.stack.toList ++ [ni]) u v) (hu : u ≠ ni) : Above ctx'.stack.toList u v := by
  rw [st.hS]; exact above_append_left (above_init h hu)

/-- an entry below the top entry is below every entry of the new arrangement -/
theorem liftTop (st : Step root tree G ph ph' ctx ctx' ni pn vni cs rs suf l M M') {nodes : Nodes}
    (ho : SInv root tree G m0 ph (ctx.stack.toList ++ [ni]) nodes M) {v u : Nat}
    (h : Above (ctx.stack.toList ++ [ni]) ni v) (hs : u ∈ suf) : Above ctx'.stack.toList u v := by
  have hv' := (above_mem h).2
  have hvn : v ≠ ni := fun e => above_irrefl ho.nodup (e ▸ h)
  have : v ∈ ctx.stack.toList := by
    rcases List.mem_append.1 hv' with h1 | h1
    · exact h1
    · simp only [List.mem_singleton] at h1; exact absurd h1 hvn
  rw [st.hS]; exact above_append_mem this hs

/-- an entry above which the top entry lies is not the top entry -/
theorem below_ne (st : Step root tree G ph ph' ctx ctx' ni pn vni cs rs suf l M M') {nodes : Nodes}
    (ho : SInv root tree G m0 ph (ctx.stack.toList ++ [ni]) nodes M) {u v : Nat}
    (h : Above (ctx.stack.toList ++ [ni]) u v) : v ≠ ni := fun e => st.top ho u (e ▸ h)

/-- an in-line descendant that is pushed in this step: the child itself, or below the visited node -/
theorem idesc_cs (st : Step root tree G ph ph' ctx ctx' ni pn vni cs rs suf l M M') {a x : Nat} (ha : G a)
    (h : IDesc tree a x) (hx : x ∈ cs) : x = a ∨ (IDesc tree a ni ∧ ILink tree ni x) := by
  rcases Classical.em (x = a) with e | e
  · exact Or.inl e
  · exact Or.inr (idesc_parent st.V ha h e st.hG (st.hfreshcs x hx).2.2)

/-- the parent of a pushed child is the visited node -/
theorem parent_cs (st : Step root tree G ph ph' ctx ctx' ni pn vni cs rs suf l M M') {y c : Nat} (hy : G y)
    (hc : IsChild tree y c) (hm : c ∈ cs) : y = ni :=
  parent_unique st.V hy st.hG hc (st.hfreshcs c hm).2.2

end Step

end Garnish.Lemmas.BuildSeq
