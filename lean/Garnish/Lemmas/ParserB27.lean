/-
Operators with optional operands, part 3: a trailing comma as the very last token.  `step_bin3_specT` / `step_bin3_okT`
are the `step_bin3_*G` lemmas for the last token of the input (`assumed_right = None`), script-generated.
-/
import Garnish.Lemmas.ParserB26

namespace Garnish.Spec
open Garnish Garnish.Gen Garnish.Model.Parser

/-- the fields of the state after a successful step on a binary-operator token -/
theorem step_bin3_specT (st st1 : PState) (o : PToken) (ho : isBin3Tok o = true) (hnl : st.nextLastLeft = none)
    {ug : Option Nat} (hug : underGroupOf st = .ok ug) (hadj : adjustLastLeft st ug = .ok st) (h : step st o true = .ok st1) :
    ∃ nodes' info,
      parseToken st.nodes.size (getDefinition o.type).1 st.lastLeft none st.nodes ug
        ((getDefinition o.type).2 == .binaryRightToLeft) = .ok (nodes', info) ∧
      st1.nodes = nodes'.push ⟨(getDefinition o.type).1, (getDefinition o.type).2, info.parent, info.left, info.right, o⟩ ∧
      st1.lastLeft = some st.nodes.size ∧ st1.checkForList = false ∧ st1.nextLastLeft = none ∧
      st1.groupStack = st.groupStack ∧ st1.currentGroup = st.currentGroup ∧ st1.previousSecondDef = (getDefinition o.type).2 := by
  unfold step at h
  simp only [hug, hadj, Outcome.bind, if_true] at h
  unfold isBin3Tok at ho
  obtain ⟨f1, f2, _, _⟩ := bin3_def_facts o.type ho
  generalize getDefinition o.type = ds at h ho f1 f2 ⊢
  obtain ⟨d, so⟩ := ds
  simp only at h ho f1 f2 ⊢
  split at h
  · cases h
  · have hso : so = .binaryLeftToRight ∨ so = .binaryRightToLeft ∨ so = .optionalBinaryLeftToRight := by
      simpa [Bool.or_eq_true, beq_iff_eq, or_assoc] using ho
    have hdisp : ∀ (stx : PState) (ar : Option Nat),
        dispatch stx st.nodes.size o d so ar ug =
          parseTokenSt { stx with nextParent := some st.nodes.size } st.nodes.size d stx.lastLeft ar ug
            (so == .binaryRightToLeft) := by
      intro stx ar
      rcases hso with hso | hso | hso <;> subst hso <;> rfl
    rw [hdisp] at h
    simp only [parseTokenSt] at h
    obtain ⟨⟨stp, info⟩, hd, h⟩ := bind_ok h
    obtain ⟨⟨nodes', info'⟩, hpt, hd⟩ := bind_ok hd
    injection hd with hd; injection hd with e1 e2; subst e1; subst e2
    obtain ⟨hsz, hdef⟩ := parseToken_size_def hpt
    simp only [pushNode, hdef, f1, if_true, hnl] at h
    injection h with h; subst h
    refine ⟨nodes', info', by simpa using hpt, ?_, ?_, rfl, rfl, rfl, rfl, rfl⟩
    · have hmatch : (match d with
          | Definition.identifier =>
            match info'.parent.bind fun p => nodes'[p]? with
            | none => d
            | some p => if (p.definition == Definition.access) = true then Definition.property else d
          | d => d) = d := by
        cases d <;> first | rfl | exact absurd rfl f2
      simp [hmatch]
    · dsimp only
      rw [if_neg]
      simp [Array.size_push]

/-- a binary-operator step succeeds as soon as its `parse_token` does -/
theorem step_bin3_okT (st : PState) (o : PToken) (ho : isBin3Tok o = true) {ug : Option Nat} (hug : underGroupOf st = .ok ug)
    (hadj : adjustLastLeft st ug = .ok st)
    (hcomp : checkComposition st.previousSecondDef (getDefinition o.type).2 st.checkForList = true)
    (hpt : ∃ nodes' info, parseToken st.nodes.size (getDefinition o.type).1 st.lastLeft none st.nodes ug
        ((getDefinition o.type).2 == .binaryRightToLeft) = .ok (nodes', info)) :
    ∃ st1, step st o true = .ok st1 := by
  obtain ⟨nodes', info, hpt⟩ := hpt
  unfold step
  simp only [hug, hadj, Outcome.bind, if_true]
  unfold isBin3Tok at ho
  generalize getDefinition o.type = ds at ho hcomp hpt ⊢
  obtain ⟨d, so⟩ := ds
  simp only at ho hcomp hpt ⊢
  have hso : so = .binaryLeftToRight ∨ so = .binaryRightToLeft ∨ so = .optionalBinaryLeftToRight := by
    simpa [Bool.or_eq_true, beq_iff_eq, or_assoc] using ho
  simp only [hcomp, Bool.not_true, Bool.false_eq_true, if_false]
  rcases hso with hso | hso | hso
  · subst hso
    have e : (SecDef.binaryLeftToRight == SecDef.binaryRightToLeft) = false := rfl
    rw [e] at hpt
    simp only [dispatch, parseTokenLeftToRight, parseTokenSt, hpt, Outcome.bind]
    exact ⟨_, rfl⟩
  · subst hso
    have e : (SecDef.binaryRightToLeft == SecDef.binaryRightToLeft) = true := rfl
    rw [e] at hpt
    simp only [dispatch, parseTokenRightToLeft, parseTokenSt, hpt, Outcome.bind]
    exact ⟨_, rfl⟩
  · subst hso
    have e : (SecDef.optionalBinaryLeftToRight == SecDef.binaryRightToLeft) = false := rfl
    rw [e] at hpt
    simp only [dispatch, parseTokenLeftToRight, parseTokenSt, hpt, Outcome.bind]
    exact ⟨_, rfl⟩


end Garnish.Spec
