/-
`SimpleGarnishData` as a store: `push_frame` / `pop_frame` (frames are `StackFrame` cells on the register `Vec`), the
data bound, and the three places where `StoreLaws` as stated is NOT met (`pop_dangling_errs`, `pop_under_frame_errs`,
`popFrameNil_fails`).
-/
import Garnish.Lemmas.RuntimeSimple5
namespace Garnish.Lemmas.Runtime.Simple
open Garnish Gen Garnish.Model.Equality Garnish.Model.Runtime Garnish.Lemmas.Runtime
variable {F : Type} {hit : List (SimCell F) → SimCell F → Option Nat} {h : SimHost F}

local notation "S" => simpleRStore hit h

theorem isFrame_new (cells : List (SimCell F)) (j : Nat) : isFrame (cells ++ [.stackFrame j]) cells.length = true := by
  unfold isFrame; rw [new_cell]

/-- `push_frame(j)`: the `StackFrame` goes on the register `Vec`; the registers (without frames) stay, the frame
remembers them — `StoreLaws.pushFrame` -/
theorem pushFrame_law {st : SimState F} (hinv : SInv st) (j : Nat) :
    ∃ st', (S).pushFrame j st = .ok ((), st') ∧
      FEff (S) st st' ((S).regs st) ((S).vals st) ((j, (S).regs st) :: (S).frames st) ∧ SInv st' ∧
      st'.currentList = st.currentList := by
  have hext := ext_append st.cells (.stackFrame j)
  refine ⟨{ st with cells := st.cells ++ [.stackFrame j], register := st.cells.length :: st.register }, rfl,
    ⟨keeps_ext hext rfl rfl rfl, ?_, rfl, rfl, ?_⟩, ⟨(sinv_ext hinv hext (st' := { st with cells := _ }) rfl).seeded, ?_⟩,
    rfl⟩
  · show flatRegs _ (st.cells.length :: st.register) = flatRegs st.cells st.register
    rw [flatRegs_cons_frame (isFrame_new _ _)]; exact flatRegs_ext hext hinv.regs
  · show framesOf _ (st.cells.length :: st.register) = _
    rw [framesOf, new_cell]
    show (j, flatRegs _ st.register) :: framesOf _ st.register = _
    rw [flatRegs_ext hext hinv.regs, framesOf_ext hext hinv.regs]; rfl
  · intro b hb
    show b < (st.cells ++ [SimCell.stackFrame j]).length
    rw [List.length_append]
    cases hb with
    | head => simp
    | tail _ hb => have := hinv.regs b hb; simp; omega

theorem popFrameGo_cons {cells : List (SimCell F)} : ∀ {reg : List Nat}, RegsOK cells reg →
    ∀ {ret : Nat} {saved : List Nat} {fs : List (Nat × List Nat)}, framesOf cells reg = (ret, saved) :: fs →
    ∃ rest, popFrameGo cells reg = .ok (some ret, rest) ∧ flatRegs cells rest = saved ∧ framesOf cells rest = fs ∧
      RegsOK cells rest := by
  intro reg
  induction reg with
  | nil => intro _ _ _ _ hf; cases hf
  | cons a below ih =>
    intro hok ret saved fs hf
    have ha : a < cells.length := hok a (List.mem_cons_self ..)
    have hb : RegsOK cells below := fun b hb => hok b (List.mem_cons_of_mem _ hb)
    have hcell : cells[a]? = some cells[a] := List.getElem?_eq_getElem ha
    rw [framesOf] at hf
    rw [popFrameGo]
    generalize cells[a]? = oc at hcell hf
    cases hcell
    generalize cells[a] = c at hf
    cases c
    case stackFrame r =>
      simp only at hf ⊢
      cases hf
      exact ⟨below, rfl, rfl, rfl, hb⟩
    all_goals exact ih hb hf

theorem popFrameGo_nil {cells : List (SimCell F)} : ∀ {reg : List Nat}, RegsOK cells reg → framesOf cells reg = [] →
    popFrameGo cells reg = .ok (none, []) := by
  intro reg
  induction reg with
  | nil => intro _ _; rfl
  | cons a below ih =>
    intro hok hf
    have ha : a < cells.length := hok a (List.mem_cons_self ..)
    have hb : RegsOK cells below := fun b hb => hok b (List.mem_cons_of_mem _ hb)
    have hcell : cells[a]? = some cells[a] := List.getElem?_eq_getElem ha
    rw [framesOf] at hf
    rw [popFrameGo]
    generalize cells[a]? = oc at hcell hf
    cases hcell
    generalize cells[a] = c at hf
    cases c
    case stackFrame r => cases hf
    all_goals exact ih hb hf

/-- `pop_frame` with a frame: its return address; the registers are the ones below it — `StoreLaws.popFrameCons` -/
theorem popFrameCons_law {st : SimState F} (hinv : SInv st) {ret : Nat} {saved : List Nat}
    {fs : List (Nat × List Nat)} (hf : (S).frames st = (ret, saved) :: fs) :
    ∃ st', (S).popFrame st = .ok (some ret, st') ∧ FEff (S) st st' saved ((S).vals st) fs ∧ SInv st' ∧
      st'.currentList = st.currentList := by
  obtain ⟨rest, hgo, h1, h2, h3⟩ := popFrameGo_cons hinv.regs hf
  refine ⟨{ st with register := rest }, ?_, ⟨keeps_same rfl rfl rfl rfl, h1, rfl, rfl, h2⟩, ⟨hinv.seeded, h3⟩, rfl⟩
  simp only [simpleRStore, hgo]

/-- `pop_frame` with no frame: `None`, and the register `Vec` is EMPTY afterwards -/
theorem popFrame_drains {st : SimState F} (hinv : SInv st) (hf : (S).frames st = []) :
    (S).popFrame st = .ok (none, { st with register := [] }) := by
  have hgo := popFrameGo_nil hinv.regs hf
  simp only [simpleRStore, hgo]

/-- so `StoreLaws.popFrameNil` holds exactly when there is no register -/
theorem popFrameNil_law {st : SimState F} (hinv : SInv st) (hf : (S).frames st = []) (hr : (S).regs st = []) :
    ∃ st', (S).popFrame st = .ok (none, st') ∧ Eff (S) st st' ((S).regs st) ((S).vals st) ∧ SInv st' :=
  ⟨_, popFrame_drains hinv hf, ⟨keeps_same rfl rfl rfl rfl, hr.symm, rfl, rfl, hf.symm⟩,
    ⟨hinv.seeded, fun _ hb => by cases hb⟩⟩

theorem popFrame_drains_regs {st : SimState F} (hinv : SInv st) (hf : (S).frames st = []) {a : Nat} {rest : List Nat}
    (hr : (S).regs st = a :: rest) :
    ¬ ∃ st', (S).popFrame st = .ok (none, st') ∧ Eff (S) st st' ((S).regs st) ((S).vals st) := by
  rintro ⟨st', hp, he⟩
  rw [popFrame_drains hinv hf] at hp
  cases hp
  have := he.regs
  rw [hr] at this
  cases this

/-- a decodable address is inside the data list — `StoreLawsRun.dataBound` -/
theorem dataBound_law (st : SimState F) (a : Nat) (v : Val F) (hd : Decodes ((S).view st) a v) : a < (S).dataLen st :=
  dec_lt hd

/-! ### where `SimpleGarnishData` does NOT meet `StoreLaws` as stated -/

theorem sinv_init : SInv (SimState.init : SimState F) :=
  ⟨⟨rfl, rfl, rfl⟩, fun _ hb => by cases hb⟩

/-- `push_register` takes any number; `pop_register` then looks the address up: a register that is no data address
makes it fail, where `StoreLaws.pushRegister` / `popRegisterCons` (for ALL `a`) promise `Some(a)` -/
theorem pop_dangling_errs (st : SimState F) {a : Nat} (ha : st.cells.length ≤ a) :
    ∃ st', (S).pushRegister a st = .ok ((), st') ∧ (S).popRegister st' = .err .data := by
  refine ⟨_, rfl, ?_⟩
  simp only [simpleRStore, List.getElem?_eq_none_iff.mpr ha]

/-- after `push_frame` the top of the register `Vec` is the `StackFrame`: `pop_register` fails although the contract's
register view (unchanged by `push_frame`) is not empty -/
theorem pop_under_frame_errs {st : SimState F} (j : Nat) :
    ∃ st', (S).pushFrame j st = .ok ((), st') ∧ (S).popRegister st' = .err .data := by
  refine ⟨_, rfl, ?_⟩
  simp only [simpleRStore, new_cell]

/-- `StoreLaws.popFrameNil` fails in a reachable state: one register, no frame -/
theorem popFrameNil_fails :
    ∃ st : SimState F, SInv st ∧ (S).frames st = [] ∧
      ¬ ∃ st', (S).popFrame st = .ok (none, st') ∧ Eff (S) st st' ((S).regs st) ((S).vals st) := by
  refine ⟨{ (SimState.init : SimState F) with register := [0] }, ⟨⟨rfl, rfl, rfl⟩, ?_⟩, rfl, ?_⟩
  · intro b hb; cases hb with
    | head => exact Nat.zero_lt_succ _
    | tail _ hb => cases hb
  · exact popFrame_drains_regs (a := 0) (rest := []) ⟨⟨rfl, rfl, rfl⟩, by
      intro b hb; cases hb with
      | head => exact Nat.zero_lt_succ _
      | tail _ hb => cases hb⟩ rfl rfl

end Garnish.Lemmas.Runtime.Simple
