/-
The tie between the two builder models (15): every represented expression is simulated (`sim_of_rep`).
-/
import Garnish.Lemmas.CompileTreeC4
import Garnish.Lemmas.CompileTree19
namespace Garnish.Abs.Tree
open Garnish Garnish.Gen Garnish.Spec Garnish.Abs Garnish.Model.Parser Garnish.Model.Literals Garnish.Model.Build

variable {F : Type} {pf : List Char → Option F} {tree : Array ParseNode} {bodies : List (Nat × Expr F)}

mutual
theorem Rep.bounds : ∀ {lo hi i : Nat} {e : Expr F}, Rep pf tree bodies lo hi i e → lo ≤ i ∧ i < hi ∧ i < tree.size
  | _, _, _, _, .group h _ _ hr => by have := hr.bounds; exact ⟨Nat.le_refl _, by omega, lt_of_get h⟩
  | _, _, _, _, .lit h _ _ _ => ⟨Nat.le_refl _, by omega, lt_of_get h⟩
  | _, _, _, _, .input h _ _ _ => ⟨Nat.le_refl _, by omega, lt_of_get h⟩
  | _, _, _, _, .ident h _ _ _ => ⟨Nat.le_refl _, by omega, lt_of_get h⟩
  | _, _, _, _, .unaryPre h _ _ hr => by have := hr.bounds; exact ⟨Nat.le_refl _, by omega, lt_of_get h⟩
  | _, _, _, _, .unarySuf h _ _ hl => by have := hl.bounds; exact ⟨by omega, by omega, lt_of_get h⟩
  | _, _, _, _, .binary h _ _ _ hl hr => by have := hl.bounds; have := hr.bounds; exact ⟨by omega, by omega, lt_of_get h⟩
  | _, _, _, _, .pair h _ _ _ hl hr => by have := hl.bounds; have := hr.bounds; exact ⟨by omega, by omega, lt_of_get h⟩
  | _, _, _, _, .applyTo h _ _ _ hl hr => by have := hl.bounds; have := hr.bounds; exact ⟨by omega, by omega, lt_of_get h⟩
  | _, _, _, _, .list _ hi => hi.bounds
  | _, _, _, _, .seq h _ _ _ hl hr => by have := hl.bounds; have := hr.bounds; exact ⟨by omega, by omega, lt_of_get h⟩
  | _, _, _, _, .reapply h _ _ hr => by have := hr.bounds; exact ⟨Nat.le_refl _, by omega, lt_of_get h⟩
  | _, _, _, _, .prefixApply h _ _ hr => by have := hr.bounds; exact ⟨Nat.le_refl _, by omega, lt_of_get h⟩
  | _, _, _, _, .suffixApply h _ _ hl => by have := hl.bounds; exact ⟨by omega, by omega, lt_of_get h⟩
  | _, _, _, _, .infixApply h _ _ _ hl hr => by have := hl.bounds; have := hr.bounds; exact ⟨by omega, by omega, lt_of_get h⟩
  | _, _, _, _, .side h _ _ _ _ _ _ hr => by have := hr.bounds; exact ⟨Nat.le_refl _, by omega, lt_of_get h⟩
  | _, _, _, _, .nested h _ _ _ hr => by have := hr.bounds; exact ⟨Nat.le_refl _, by omega, lt_of_get h⟩
  | _, _, _, _, .emptyNested h _ _ => ⟨Nat.le_refl _, by omega, lt_of_get h⟩
  | _, _, _, _, .cond h _ _ _ hl hr => by have := hl.bounds; have := hr.bounds; exact ⟨by omega, by omega, lt_of_get h⟩
  | _, _, _, _, .and h _ _ _ _ hl hr => by have := hl.bounds; have := hr.bounds; exact ⟨by omega, by omega, lt_of_get h⟩
  | _, _, _, _, .or h _ _ _ _ hl hr => by have := hl.bounds; have := hr.bounds; exact ⟨by omega, by omega, lt_of_get h⟩
  | _, _, _, _, .chain h _ _ _ hl _ hr => by have := hl.bounds; have := hr.bounds; exact ⟨by omega, by omega, lt_of_get h⟩
  | _, _, _, _, .chainNoFinal h _ _ _ hl hr => by have := hl.bounds; have := hr.bounds; exact ⟨by omega, by omega, lt_of_get h⟩
theorem RepItems.bounds : ∀ {d : Definition} {lo hi i : Nat} {items : List (Expr F)}, RepItems pf tree bodies d lo hi i items →
    lo ≤ i ∧ i < hi ∧ i < tree.size
  | _, _, _, _, _, .two h _ _ _ _ _ hl hr => by have := hl.bounds; have := hr.bounds; exact ⟨by omega, by omega, lt_of_get h⟩
  | _, _, _, _, _, .snoc h _ _ _ _ hl hr => by have := hl.bounds; have := hr.bounds; exact ⟨by omega, by omega, lt_of_get h⟩
theorem RepArms.bounds : ∀ {lo hi i : Nat} {arms : List (Bool × Expr F × Expr F)}, RepArms pf tree bodies lo hi i arms →
    lo ≤ i ∧ i < hi ∧ i < tree.size
  | _, _, _, _, .one h => h.bounds
  | _, _, _, _, .more h _ _ _ hl hr => by have := hl.bounds; have := hr.bounds; exact ⟨by omega, by omega, lt_of_get h⟩
theorem RepArm.bounds : ∀ {lo hi i : Nat} {b : Bool} {c t : Expr F}, RepArm pf tree bodies lo hi i b c t →
    lo ≤ i ∧ i < hi ∧ i < tree.size
  | _, _, _, _, _, _, .mk h _ _ _ hl hr => by have := hl.bounds; have := hr.bounds; exact ⟨by omega, by omega, lt_of_get h⟩
end

theorem RepArms.ne_nil {lo hi i : Nat} {arms : List (Bool × Expr F × Expr F)} (h : RepArms pf tree bodies lo hi i arms) : arms ≠ [] := by
  cases h with
  | one _ => simp
  | more _ _ _ _ _ _ => simp

theorem emitArms_length (root cur : Nat) : ∀ (arms : List (Bool × Expr F × Expr F)) (s : LState F),
    (emitArms root cur arms s).2.length = arms.length
  | [], s => by simp [emitArms]
  | (b, c, t) :: rest, s => by simp [emitArms, emitArms_length root cur rest]

theorem SimArmsF.congr {lo hi c : Nat} {f g : Nat → Nat → LState F → LState F × List (Expr F × Nat)}
    (h : SimArmsF pf tree bodies lo hi c f) (e : ∀ root cur s, f root cur s = g root cur s) : SimArmsF pf tree bodies lo hi c g := by
  have : f = g := funext fun root => funext fun cur => funext fun s => e root cur s
  exact this ▸ h

theorem emitArms_mono (arms : List (Bool × Expr F × Expr F)) (root cur : Nat) (s : LState F) (h : cur < s.jumps.size) :
    cur < (emitArms root cur arms s).1.jumps.size := by
  have := (emitArms_pre root cur arms s h).1.jsize; omega

mutual
/-- **every represented expression is simulated**: the work-list loop of `build`, started on the node, does what `emit`
does with the expression -/
theorem sim_of_rep : ∀ {lo hi i : Nat} {e : Expr F}, Rep pf tree bodies lo hi i e → SimT pf tree bodies lo hi i e
  | _, _, _, _, .group h hd hr hrep => by
    have b := hrep.bounds; exact sim_group h hd hr ⟨b.1, b.2.1⟩ b.2.2 (sim_of_rep hrep)
  | _, _, _, _, .lit h hl hr hv => sim_lit h hl hr hv
  | _, _, _, _, .input h hd hl hr => sim_input h hd hl hr
  | _, _, _, _, .ident h hd hl hr => sim_ident h hd hl hr
  | _, _, _, _, .unaryPre h hop hr hrep => by
    have b := hrep.bounds; exact sim_unaryPre h hop hr ⟨b.1, b.2.1⟩ b.2.2 (sim_of_rep hrep)
  | _, _, _, _, .unarySuf h hop hl hrep => by
    have b := hrep.bounds; exact sim_unarySuf h hop hl ⟨b.1, b.2.1⟩ b.2.2 (sim_of_rep hrep)
  | _, _, _, _, .binary h hop hl hr ha hb => by
    have b1 := ha.bounds; have b2 := hb.bounds
    exact sim_binary h hop hl hr ⟨b1.1, b1.2.1⟩ ⟨b2.1, b2.2.1⟩ b1.2.2 b2.2.2 (sim_of_rep ha) (sim_of_rep hb)
  | _, _, _, _, .pair h hd hl hr ha hb => by
    have b1 := ha.bounds; have b2 := hb.bounds
    exact sim_pair h hd hl hr ⟨b1.1, b1.2.1⟩ ⟨b2.1, b2.2.1⟩ b1.2.2 b2.2.2 (sim_of_rep ha) (sim_of_rep hb)
  | _, _, _, _, .applyTo h hd hl hr ha hb => by
    have b1 := ha.bounds; have b2 := hb.bounds
    exact sim_applyTo h hd hl hr ⟨b1.1, b1.2.1⟩ ⟨b2.1, b2.2.1⟩ b1.2.2 b2.2.2 (sim_of_rep ha) (sim_of_rep hb)
  | _, _, _, _, .list hdl hitems => sim_of_items hdl hitems
  | _, _, _, _, .seq h hd hl hr ha hb => by
    have b1 := ha.bounds; have b2 := hb.bounds
    exact sim_seq h hd hl hr ⟨b1.1, b1.2.1⟩ ⟨b2.1, b2.2.1⟩ b1.2.2 b2.2.2 (sim_of_rep ha) (sim_of_rep hb)
  | _, _, _, _, .reapply h hd hr hrep => by
    have b := hrep.bounds; exact sim_reapply h hd hr ⟨b.1, b.2.1⟩ b.2.2 (sim_of_rep hrep)
  | _, _, _, _, .prefixApply h hd hr hrep => by
    have b := hrep.bounds; exact sim_prefixApply h hd hr ⟨b.1, b.2.1⟩ b.2.2 (sim_of_rep hrep)
  | _, _, _, _, .suffixApply h hd hl hrep => by
    have b := hrep.bounds; exact sim_suffixApply h hd hl ⟨b.1, b.2.1⟩ b.2.2 (sim_of_rep hrep)
  | _, _, _, _, .infixApply h hd hl hr ha hb => by
    have b1 := ha.bounds; have b2 := hb.bounds
    exact sim_infixApply h hd hl hr ⟨b1.1, b1.2.1⟩ ⟨b2.1, b2.2.1⟩ b1.2.2 b2.2.2 (sim_of_rep ha) (sim_of_rep hb)
  | _, _, _, _, .side h hl hr hx hps hd hrb hrep => by
    have b := hrep.bounds; exact sim_side h hl hr hx hps hd hrb ⟨b.1, b.2.1⟩ b.2.2 (sim_of_rep hrep)
  | _, _, _, _, .nested h hd hr hbody hrep => by
    have b := hrep.bounds; exact sim_nested h hd hr ⟨b.1, b.2.1⟩ b.2.2 hbody hrep
  | _, _, _, _, .emptyNested h hd hr => sim_emptyNested h hd hr
  | _, _, _, _, .cond h hd hl hr hc ht => by
    have b1 := hc.bounds; have b2 := ht.bounds
    exact sim_cond h hd hl hr ⟨b1.1, b1.2.1⟩ ⟨b2.1, b2.2.1⟩ b1.2.2 b2.2.2 ht (sim_of_rep hc)
  | _, _, _, _, .and h hd hl hr hnc ha hb => by
    have b1 := ha.bounds; have b2 := hb.bounds
    exact sim_and h hd hl hr ⟨b1.1, b1.2.1⟩ ⟨b2.1, b2.2.1⟩ b1.2.2 b2.2.2 hnc hb (sim_of_rep ha)
  | _, _, _, _, .or h hd hl hr hnc ha hb => by
    have b1 := ha.bounds; have b2 := hb.bounds
    exact sim_or h hd hl hr ⟨b1.1, b1.2.1⟩ ⟨b2.1, b2.2.1⟩ b1.2.2 b2.2.2 hnc hb (sim_of_rep ha)
  | _, _, _, _, .chain (arms := arms) (fe := fe) h hd hl hr harms hnc hfe => by
    have b1 := harms.bounds; have b2 := hfe.bounds
    refine sim_chain_top (f1 := fun root cur s => emitArms root cur arms s) (f2 := fun root cur s => (emit root cur fe s, []))
      h hd hl hr ⟨b1.1, b1.2.1⟩ ⟨b2.1, b2.2.1⟩ b1.2.2 b2.2.2 (arms_of_rep harms) (SimArmsF.final hnc (sim_of_rep hfe))
      (fun root cur s hc => emitArms_mono arms root cur s hc) (fun root cur s hh => ?_) (fun root cur s => ?_)
    · have := emitArms_length root cur arms s
      rw [hh] at this
      exact harms.ne_nil (List.length_eq_zero_iff.1 this.symm)
    · simp only [emit, List.append_nil]
  | _, _, _, _, .chainNoFinal (arms := arms) (onTrue := onTrue) (c := c) (t := t) h hd hl hr harms harm => by
    have b1 := harms.bounds; have b2 := harm.bounds
    refine sim_chain_top (f1 := fun root cur s => emitArms root cur arms s)
      (f2 := fun root cur s => emitArms root cur [(onTrue, c, t)] s)
      h hd hl hr ⟨b1.1, b1.2.1⟩ ⟨b2.1, b2.2.1⟩ b1.2.2 b2.2.2 (arms_of_rep harms) (arm_of_rep harm)
      (fun root cur s hc => emitArms_mono arms root cur s hc) (fun root cur s hh => ?_) (fun root cur s => ?_)
    · have := emitArms_length root cur arms s
      rw [hh] at this
      exact harms.ne_nil (List.length_eq_zero_iff.1 this.symm)
    · simp only [emit]
      rw [emitArms_append]
      cases harr : arms ++ [(onTrue, c, t)] with
      | nil => simp at harr
      | cons a rest => simp only [chainNoFinal]
/-- the conditional arms of a chain -/
theorem arms_of_rep : ∀ {lo hi i : Nat} {arms : List (Bool × Expr F × Expr F)}, RepArms pf tree bodies lo hi i arms →
    SimArms pf tree bodies lo hi i arms
  | _, _, _, _, .one harm => arm_of_rep harm
  | _, _, _, _, .more (arms := arms) (onTrue := onTrue) (c := c) (t := t) h hd hl hr harms harm => by
    have b1 := harms.bounds; have b2 := harm.bounds
    exact (SimArmsF.inner h hd hl hr ⟨b1.1, b1.2.1⟩ ⟨b2.1, b2.2.1⟩ b1.2.2 b2.2.2 (arms_of_rep harms) (arm_of_rep harm)
      (fun root cur s hc => emitArms_mono arms root cur s hc)).congr (fun root cur s => (emitArms_append root cur arms _ s).symm)
/-- one conditional arm -/
theorem arm_of_rep : ∀ {lo hi i : Nat} {b : Bool} {c t : Expr F}, RepArm pf tree bodies lo hi i b c t →
    SimArms pf tree bodies lo hi i [(b, c, t)]
  | _, _, _, _, _, _, .mk h hd hl hr hc ht => by
    have b1 := hc.bounds; have b2 := ht.bounds
    exact sim_arm h hd hl hr ⟨b1.1, b1.2.1⟩ ⟨b2.1, b2.2.1⟩ b1.2.2 b2.2.2 ht (sim_of_rep hc)
/-- the list node at the top of a spine -/
theorem sim_of_items : ∀ {d : Definition} {lo hi i : Nat} {items : List (Expr F)}, (d = .list ∨ d = .commaList) →
    RepItems pf tree bodies d lo hi i items → SimT pf tree bodies lo hi i (.list items)
  | _, _, _, _, _, hdl, .two h hd hl hr hnl hnr ha hb => by
    have b1 := ha.bounds; have b2 := hb.bounds
    exact sim_list (itemsL := [_]) h hd hdl hl hr ⟨b1.1, b1.2.1⟩ ⟨b2.1, b2.2.1⟩ b1.2.2 b2.2.2
      (SimPart.item hnl (sim_of_rep ha)) (SimPart.item hnr (sim_of_rep hb))
  | _, _, _, _, _, hdl, .snoc h hd hl hr hnr hitems hb => by
    have b1 := hitems.bounds; have b2 := hb.bounds
    exact sim_list h hd hdl hl hr ⟨b1.1, b1.2.1⟩ ⟨b2.1, b2.2.1⟩ b1.2.2 b2.2.2
      (part_of_items hdl hitems) (SimPart.item hnr (sim_of_rep hb))
/-- an inner node of a spine -/
theorem part_of_items : ∀ {d : Definition} {lo hi i : Nat} {items : List (Expr F)}, (d = .list ∨ d = .commaList) →
    RepItems pf tree bodies d lo hi i items → SimPart pf tree bodies d lo hi i items
  | _, _, _, _, _, hdl, .two h hd hl hr hnl hnr ha hb => by
    have b1 := ha.bounds; have b2 := hb.bounds
    exact SimPart.spine (itemsL := [_]) h hd hdl hl hr ⟨b1.1, b1.2.1⟩ ⟨b2.1, b2.2.1⟩ b1.2.2 b2.2.2
      (SimPart.item hnl (sim_of_rep ha)) (SimPart.item hnr (sim_of_rep hb))
  | _, _, _, _, _, hdl, .snoc h hd hl hr hnr hitems hb => by
    have b1 := hitems.bounds; have b2 := hb.bounds
    exact SimPart.spine h hd hdl hl hr ⟨b1.1, b1.2.1⟩ ⟨b2.1, b2.2.1⟩ b1.2.2 b2.2.2
      (part_of_items hdl hitems) (SimPart.item hnr (sim_of_rep hb))
end

end Garnish.Abs.Tree
