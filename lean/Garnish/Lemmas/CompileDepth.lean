/-
C06 static half on compiled code, part 1: the ghost depth bookkeeping of `emit`.
`LState.depths[i]` is the operand depth (relative to the frame base) at which instruction `i` is entered, `dep` the
depth at which the next instruction will be entered, `pendDep` the depth at which each pending root starts.
This file: how `emit` moves them — it only appends depths, keeps them aligned with the instructions, leaves the
depth one higher than it found it (an expression pushes exactly one value), and keeps (root, depth) pairs.
-/
import Garnish.Lemmas.CompileLayout4
namespace Garnish.Abs
open Garnish Gen Garnish.Spec

variable {F : Type}

structure AppD (s s' : LState F) : Prop where
  depths : ∀ i, i < s.depths.size → s'.depths[i]? = s.depths[i]?
  dsize : s.depths.size ≤ s'.depths.size
  keepZ : ∀ p ∈ s.pending.zip s.pendDep, p ∈ s'.pending.zip s'.pendDep

theorem AppD.refl (s : LState F) : AppD s s := ⟨fun _ _ => rfl, Nat.le_refl _, fun _ h => h⟩

theorem AppD.trans {a b c : LState F} (h1 : AppD a b) (h2 : AppD b c) : AppD a c where
  depths i hi := by rw [h2.depths i (by have := h1.dsize; omega), h1.depths i hi]
  dsize := Nat.le_trans h1.dsize h2.dsize
  keepZ p hp := h2.keepZ p (h1.keepZ p hp)

theorem AppD.push (s : LState F) (i : Instruction) (d : Option Nat) : AppD s (s.push i d) :=
  ⟨fun k hk => by simp [LState.push, Array.getElem?_push, Nat.ne_of_lt hk], by simp [LState.push], fun _ h => h⟩

theorem AppD.pushConst (s : LState F) (i : Instruction) (v : Val F) : AppD s (s.pushConst i v) :=
  ⟨fun k hk => by simp [LState.pushConst, Array.getElem?_push, Nat.ne_of_lt hk], by simp [LState.pushConst], fun _ h => h⟩

theorem AppD.pushJump (s : LState F) (t : Nat) : AppD s (s.pushJump t) := ⟨fun _ _ => rfl, Nat.le_refl _, fun _ h => h⟩

theorem AppD.pushRoot (s : LState F) (r : Root F) : AppD s (s.pushRoot r) :=
  ⟨fun _ _ => rfl, Nat.le_refl _, fun p hp => by
    simp only [LState.pushRoot, List.zip_cons_cons, List.mem_cons]; exact .inr hp⟩

@[simp] theorem push_dsize (s : LState F) (i : Instruction) (d : Option Nat) :
    (s.push i d).depths.size = s.depths.size + 1 := by simp [LState.push]
@[simp] theorem push_dep (s : LState F) (i : Instruction) (d : Option Nat) : (s.push i d).dep = fall i d s.dep := rfl
@[simp] theorem push_pendDep (s : LState F) (i : Instruction) (d : Option Nat) : (s.push i d).pendDep = s.pendDep := rfl
@[simp] theorem pushConst_dsize (s : LState F) (i : Instruction) (v : Val F) :
    (s.pushConst i v).depths.size = s.depths.size + 1 := by simp [LState.pushConst]
@[simp] theorem pushConst_dep (s : LState F) (i : Instruction) (v : Val F) : (s.pushConst i v).dep = s.dep + 1 := rfl
@[simp] theorem pushConst_pendDep (s : LState F) (i : Instruction) (v : Val F) : (s.pushConst i v).pendDep = s.pendDep := rfl
@[simp] theorem pushJump_depths (s : LState F) (t : Nat) : (s.pushJump t).depths = s.depths := rfl
@[simp] theorem pushJump_dep (s : LState F) (t : Nat) : (s.pushJump t).dep = s.dep := rfl
@[simp] theorem pushJump_pendDep (s : LState F) (t : Nat) : (s.pushJump t).pendDep = s.pendDep := rfl
@[simp] theorem pushRoot_depths (s : LState F) (r : Root F) : (s.pushRoot r).depths = s.depths := rfl
@[simp] theorem pushRoot_dep (s : LState F) (r : Root F) : (s.pushRoot r).dep = s.dep := rfl

/-- what one emission does to the ghost depth state: `n` depths appended, and as many depths of pending roots
as pending roots were added -/
structure DepStep (s s' : LState F) (n : Nat) : Prop where
  app : AppD s s'
  dsize : s'.depths.size = s.depths.size + n
  zlen : s'.pendDep.length + s.pending.length = s'.pending.length + s.pendDep.length

theorem DepStep.trans {a b c : LState F} {n m : Nat} (h1 : DepStep a b n) (h2 : DepStep b c m) :
    DepStep a c (n + m) :=
  ⟨h1.app.trans h2.app, by rw [h2.dsize, h1.dsize]; omega, by have := h1.zlen; have := h2.zlen; omega⟩

theorem DepStep.refl (s : LState F) : DepStep s s 0 := ⟨.refl s, rfl, Nat.add_comm _ _⟩

theorem DepStep.pushConst (s : LState F) (i : Instruction) (v : Val F) : DepStep s (s.pushConst i v) 1 :=
  ⟨.pushConst s i v, by simp, Nat.add_comm _ _⟩

theorem DepStep.push (s : LState F) (i : Instruction) (d : Option Nat) : DepStep s (s.push i d) 1 :=
  ⟨.push s i d, by simp, Nat.add_comm _ _⟩

theorem DepStep.pushJump (s : LState F) (t : Nat) : DepStep s (s.pushJump t) 0 :=
  ⟨.pushJump s t, rfl, Nat.add_comm _ _⟩

theorem DepStep.pushRoot (s : LState F) (r : Root F) : DepStep s (s.pushRoot r) 0 :=
  ⟨.pushRoot s r, rfl, by simp [LState.pushRoot]; omega⟩

theorem DepStep.cast {a b : LState F} {n m : Nat} (h : DepStep a b n) (e : n = m) : DepStep a b m := e ▸ h

theorem fall_un {op : Instruction} {o : Option Nat} {k : Nat} (h : unOK op = true) : fall op o k = k := by
  cases op <;> simp [unOK] at h <;> rfl

theorem fall_bin {op : Instruction} {o : Option Nat} {k : Nat} (h : binOK op = true) : fall op o (k + 2) = k + 1 := by
  cases op <;> simp [binOK] at h <;> simp [fall]

theorem condTail_dep {cur : Nat} {onTrue : Bool} {t : Expr F} {s1 : LState F} {k : Nat} (hk : s1.dep = k + 1) :
    DepStep s1 (condTail cur onTrue t s1) 2 ∧ (condTail cur onTrue t s1).dep = k + 1 := by
  simp only [condTail]
  refine ⟨((((DepStep.pushJump _ _).trans (.push _ _ _)).trans (.push _ _ _)).trans (.pushRoot _ _)).trans
    (.pushJump _ _) |>.cast (by omega), ?_⟩
  cases onTrue <;> simp [jumpIf, fall, hk]

theorem logicalTail_dep {cur : Nat} {instr : Instruction} {r : Expr F} {s1 : LState F}
    (hi : instr = .and ∨ instr = .or) :
    DepStep s1 (logicalTail cur instr r s1) 1 ∧ (logicalTail cur instr r s1).dep = s1.dep := by
  simp only [logicalTail]
  refine ⟨(((DepStep.pushJump _ _).trans (.push _ _ _)).trans (.pushRoot _ _)).trans (.pushJump _ _) |>.cast (by omega), ?_⟩
  rcases hi with rfl | rfl <;> simp [fall]

theorem finishChain_dep {cur : Nat} {s2 : LState F} {items : List (Expr F × Nat)} :
    DepStep s2 (finishChain cur s2 items) 0 ∧ (finishChain cur s2 items).dep = s2.dep := by
  cases items with
  | nil => exact ⟨.refl _, rfl⟩
  | cons it its =>
    simp only [finishChain]
    refine ⟨⟨⟨fun _ _ => rfl, Nat.le_refl _, fun p hp => ?_⟩, rfl, ?_⟩, rfl⟩
    · simp only [pushJump_pending, pushJump_pendDep] at hp ⊢
      rw [List.zip_append (by simp [armRoots])]
      exact List.mem_append.2 (.inr hp)
    · simp [armRoots]; omega

mutual
theorem emit_dep (root cur : Nat) : ∀ (e : Expr F) (s : LState F), wfE e = true →
    DepStep s (emit root cur e s) (len e) ∧ (emit root cur e s).dep = s.dep + 1
  | .lit v, s, _ => by simp only [emit, len]; exact ⟨.pushConst s _ _, rfl⟩
  | .input, s, _ => by simp only [emit, len]; exact ⟨.push s _ _, rfl⟩
  | .ident sym, s, _ => by simp only [emit, len]; exact ⟨.pushConst s _ _, rfl⟩
  | .emptyNested, s, _ => by simp only [emit, len]; exact ⟨.pushConst s _ _, rfl⟩
  | .nested id, s, _ => by
    simp only [emit, len]
    exact ⟨((DepStep.pushJump _ _).trans (.pushConst _ _ _)).trans (.pushRoot _ _) |>.cast (by omega), rfl⟩
  | .unary op x, s, hw => by
    simp only [wfE, Bool.and_eq_true] at hw
    obtain ⟨d1, z1⟩ := emit_dep root cur x s hw.2
    simp only [emit, len]
    exact ⟨d1.trans (.push _ _ _), by simp [z1, fall_un hw.1]⟩
  | .binary op l r, s, hw => by
    simp only [wfE, Bool.and_eq_true] at hw
    obtain ⟨d1, z1⟩ := emit_dep root cur l s hw.1.2
    obtain ⟨d2, z2⟩ := emit_dep root cur r (emit root cur l s) hw.2
    simp only [emit, len]
    exact ⟨(d1.trans d2).trans (.push _ _ _), by simp only [push_dep, z2, z1]; exact fall_bin hw.1.1⟩
  | .pair l r, s, hw => by
    simp only [wfE, Bool.and_eq_true] at hw
    obtain ⟨d1, z1⟩ := emit_dep root cur r s hw.2
    obtain ⟨d2, z2⟩ := emit_dep root cur l (emit root cur r s) hw.1
    simp only [emit, len]
    exact ⟨((d1.trans d2).trans (.push _ _ _)).cast (by omega), by simp [z2, z1, fall]⟩
  | .applyTo x f, s, hw => by
    simp only [wfE, Bool.and_eq_true] at hw
    obtain ⟨d1, z1⟩ := emit_dep root cur f s hw.2
    obtain ⟨d2, z2⟩ := emit_dep root cur x (emit root cur f s) hw.1
    simp only [emit, len]
    exact ⟨((d1.trans d2).trans (.push _ _ _)).cast (by omega), by simp [z2, z1, fall]⟩
  | .list items, s, hw => by
    simp only [wfE] at hw
    obtain ⟨d1, z1⟩ := emitList_dep root cur items s hw
    simp only [emit, len]
    exact ⟨d1.trans (.push _ _ _), by simp [z1, fall]⟩
  | .cond onTrue c t, s, hw => by
    simp only [wfE, Bool.and_eq_true] at hw
    obtain ⟨d1, z1⟩ := emit_dep root cur c s hw.1
    obtain ⟨d2, z2⟩ := condTail_dep (cur := cur) (onTrue := onTrue) (t := t) z1
    simp only [emit, len]
    exact ⟨d1.trans d2, z2⟩
  | .and l r, s, hw => by
    simp only [wfE, Bool.and_eq_true] at hw
    obtain ⟨d1, z1⟩ := emit_dep root cur l s hw.1
    obtain ⟨d2, z2⟩ := logicalTail_dep (cur := cur) (r := r) (s1 := emit root cur l s) (.inl rfl)
    simp only [emit, len]
    exact ⟨d1.trans d2, by rw [z2, z1]⟩
  | .or l r, s, hw => by
    simp only [wfE, Bool.and_eq_true] at hw
    obtain ⟨d1, z1⟩ := emit_dep root cur l s hw.1
    obtain ⟨d2, z2⟩ := logicalTail_dep (cur := cur) (r := r) (s1 := emit root cur l s) (.inr rfl)
    simp only [emit, len]
    exact ⟨d1.trans d2, by rw [z2, z1]⟩
  | .seq a b, s, hw => by
    simp only [wfE, Bool.and_eq_true] at hw
    obtain ⟨d1, z1⟩ := emit_dep root cur a s hw.1
    obtain ⟨d2, z2⟩ := emit_dep root cur b ((emit root cur a s).push .updateValue none) hw.2
    simp only [emit, len]
    exact ⟨((d1.trans (.push _ _ _)).trans d2).cast (by omega), by simp [z2, z1, fall]⟩
  | .sideAfter x b, s, hw => by
    simp only [wfE, Bool.and_eq_true] at hw
    obtain ⟨d1, z1⟩ := emit_dep root cur x s hw.1.1
    obtain ⟨d2, z2⟩ := emit_dep root cur b ((emit root cur x s).push .startSideEffect none) hw.1.2
    simp only [emit, len]
    exact ⟨(((d1.trans (.push _ _ _)).trans d2).trans (.push _ _ _)).cast (by omega), by simp [z2, z1, fall]⟩
  | .reapply x, s, hw => by
    simp only [wfE] at hw
    obtain ⟨d1, z1⟩ := emit_dep root cur x s hw
    simp only [emit, len]
    exact ⟨((d1.trans (.push _ _ _)).trans (.push _ _ _)).cast (by omega), by simp [z1, fall]⟩
  | .prefixApply sym x, s, hw => by
    simp only [wfE] at hw
    obtain ⟨d1, z1⟩ := emit_dep root cur x (s.pushConst .resolve (.sym sym)) hw
    simp only [emit, len]
    exact ⟨(((DepStep.pushConst s _ _).trans d1).trans (.push _ _ _)).cast (by omega), by simp [z1, fall]⟩
  | .suffixApply x sym, s, hw => by
    simp only [wfE] at hw
    obtain ⟨d1, z1⟩ := emit_dep root cur x (s.pushConst .resolve (.sym sym)) hw
    simp only [emit, len]
    exact ⟨(((DepStep.pushConst s _ _).trans d1).trans (.push _ _ _)).cast (by omega), by simp [z1, fall]⟩
  | .infixApply a sym b, s, hw => by
    simp only [wfE, Bool.and_eq_true] at hw
    obtain ⟨d1, z1⟩ := emit_dep root cur a (s.pushConst .resolve (.sym sym)) hw.1
    obtain ⟨d2, z2⟩ := emit_dep root cur b (emit root cur a (s.pushConst .resolve (.sym sym))) hw.2
    simp only [emit, len]
    exact ⟨(((((DepStep.pushConst s _ _).trans d1).trans d2).trans (.push _ _ _)).trans (.push _ _ _)).cast (by omega),
      by simp [z2, z1, fall]⟩
  | .chain arms none, s, hw => by simp [wfE_chain] at hw
  | .chain arms (some e), s, hw => by
    simp only [wfE_chain, Bool.and_eq_true] at hw
    obtain ⟨d1, z1⟩ := emitArms_dep root cur arms s hw.1
    obtain ⟨d2, z2⟩ := emit_dep root cur e (emitArms root cur arms s).1 hw.2
    obtain ⟨d3, z3⟩ := finishChain_dep (cur := cur) (s2 := emit root cur e (emitArms root cur arms s).1)
      (items := (emitArms root cur arms s).2)
    simp only [emit]
    rw [len_chain]
    exact ⟨((d1.trans d2).trans d3).cast (by simp), by rw [z3, z2, z1]⟩

theorem emitList_dep (root cur : Nat) : ∀ (items : List (Expr F)) (s : LState F), wfEList items = true →
    DepStep s (emitList root cur items s) (lenList items) ∧ (emitList root cur items s).dep = s.dep + items.length
  | [], s, _ => by simp only [emitList, lenList]; exact ⟨.refl s, by simp⟩
  | x :: xs, s, hw => by
    simp only [wfEList, Bool.and_eq_true] at hw
    obtain ⟨d1, z1⟩ := emit_dep root cur x s hw.1
    obtain ⟨d2, z2⟩ := emitList_dep root cur xs (emit root cur x s) hw.2
    simp only [emitList, lenList]
    exact ⟨d1.trans d2, by rw [z2, z1]; simp; omega⟩

theorem emitArms_dep (root cur : Nat) : ∀ (arms : List (Bool × Expr F × Expr F)) (s : LState F), wfEArms arms = true →
    DepStep s (emitArms root cur arms s).1 (lenArms arms) ∧ (emitArms root cur arms s).1.dep = s.dep
  | [], s, _ => by simp only [emitArms, lenArms]; exact ⟨.refl s, trivial⟩
  | (onTrue, c, t) :: rest, s, hw => by
    simp only [wfEArms, Bool.and_eq_true] at hw
    obtain ⟨d1, z1⟩ := emit_dep root cur c s hw.1.1
    obtain ⟨d2, z2⟩ := emitArms_dep root cur rest
      (((emit root cur c s).pushJump 0).push (jumpIf onTrue) (some (emit root cur c s).jumps.size)) hw.2
    simp only [emitArms, lenArms]
    refine ⟨((d1.trans ((DepStep.pushJump _ _).trans (.push _ _ _))).trans d2).cast (by omega), ?_⟩
    rw [z2]
    cases onTrue <;> simp [jumpIf, fall, z1]
end

end Garnish.Abs
