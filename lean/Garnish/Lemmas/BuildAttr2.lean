/-
C04, builder half — part 2: every handler keeps the attribution invariant.
-/
import Garnish.Lemmas.BuildAttr
import Garnish.Lemmas.BuildTotalHandlers
namespace Garnish.Lemmas.BuildAttr
open Garnish Garnish.Gen Garnish.Model.Parser Garnish.Model.Literals Garnish.Model.Build Garnish.Lemmas.Build
open Garnish.Lemmas.BuildTotal (assign assign_get assign_size getElem?_putNode size_putNode)

variable {F : Type}

theorem getNode_sat_eq (nodes : Nodes) (i : Nat) : Sat (fun node => nodes[i]? = some (some node)) (getNode nodes i) := by
  unfold getNode
  split
  · rename_i b hb; exact hb
  · exact sat_buildErr

theorem setNodeIdx_sat_eq (nodes : Nodes) (i : Nat) (b : BuildNode) (site : String) :
    Sat (fun N => N = putNode nodes i b) (setNodeIdx nodes i b site) := by
  unfold setNodeIdx
  split
  · rename_i hi
    show nodes.set i (some b) hi = putNode nodes i b
    simp [putNode, Array.setIfInBounds, hi]
  · exact sat_panic

/-- `∀ x ∈ S, x ∈ S'` when `S'` is `S` with pushes -/
macro "mem_tac" : tactic => `(tactic| (intro x hx; first | exact hx | simp [hx]))

/-- conditional parents of the assigned nodes exist: either inherited from the visited node or absent -/
macro "asgc_tac" h:term "," hnode:term : tactic => `(tactic| (
  intro q hq cp hcp
  simp only [List.mem_cons, List.mem_nil_iff, or_false] at hq
  first
    | (rcases hq with e | e | e <;> subst e <;>
        first | exact AInv.cpOk $h _ _ cp $hnode hcp | (simp [BuildNode.new, BuildNode.newWithList, BuildNode.newWithJump, BuildNode.newWithJumpAndEnd] at hcp))
    | (rcases hq with e | e <;> subst e <;>
        first | exact AInv.cpOk $h _ _ cp $hnode hcp | (simp [BuildNode.new, BuildNode.newWithList, BuildNode.newWithJump, BuildNode.newWithJumpAndEnd] at hcp))
    | (subst hq; first | exact AInv.cpOk $h _ _ cp $hnode hcp | (simp [BuildNode.new, BuildNode.newWithList, BuildNode.newWithJump, BuildNode.newWithJumpAndEnd] at hcp))))

/-- every assigned node is the visited node or was pushed -/
macro "asgd_tac" : tactic => `(tactic| (
  intro q hq
  simp only [List.mem_cons, List.mem_nil_iff, or_false] at hq
  first
    | (rcases hq with e | e | e <;> subst e <;> simp)
    | (rcases hq with e | e <;> subst e <;> simp)
    | (subst hq; simp)))

section handlers
variable {tree : Array ParseNode} {m0 ni : Nat} {ctx : Ctx F} {pn : ParseNode}

/-- second visit that only appends instructions, one of which names the node -/
theorem attr_emit (h : AInv tree m0 (some ni) ctx) {ctx' : Ctx F} (l : List (Option Nat))
    (hN : ctx'.nodes = ctx.nodes) (hS : ctx'.stack = ctx.stack) (hR : ctx'.rootStack = ctx.rootStack)
    (hM : ctx'.data.metadata.toList = ctx.data.metadata.toList ++ l) (hl : some ni ∈ l) : AInv tree m0 none ctx' :=
  attr_step h [] l (by rw [hN]; rfl) (by rw [hS]; exact fun _ h => h) (by rw [hR]; exact fun _ h => h) hM
    (fun q hq => by cases hq) (fun q hq => by cases hq) (fun q hq => by cases hq)
    (fun _ _ => Or.inr (Or.inr (Or.inl hl)))

theorem handleUnaryPrefix_attr (h : AInv tree m0 (some ni) ctx) (ins : Instruction) :
    Sat (AInv tree m0 none) (handleUnaryPrefix ins ctx ni pn) := by
  unfold handleUnaryPrefix
  refine sat_bind (getNode_sat_eq ctx.nodes ni) (fun node hnode => ?_)
  have hpni := h.pni ni node hnode
  cases hst : node.state with
  | uninitialized =>
    dsimp only
    cases hr : pn.right with
    | none => exact sat_buildErr
    | some r =>
      dsimp only
      refine sat_bind (setNodeIdx_sat_eq _ _ _ _) (fun N1 h1 => ?_)
      subst h1
      simp only [hpni]
      exact attr_step h [(ni, _), (r, _)] [] rfl (by mem_tac) (by mem_tac) (by simp) (by asgp_tac) (by asgc_tac h, hnode)
        (by asgd_tac) (fun _ _ => Or.inl (by simp))
  | initialized =>
    dsimp only
    try simp only [hpni]
    exact attr_emit h [some ni] rfl rfl rfl (by simp [pushInstr]) (by simp)


theorem handleUnarySuffix_attr (h : AInv tree m0 (some ni) ctx) (ins : Instruction) :
    Sat (AInv tree m0 none) (handleUnarySuffix ins ctx ni pn) := by
  unfold handleUnarySuffix
  refine sat_bind (getNode_sat_eq ctx.nodes ni) (fun node hnode => ?_)
  have hpni := h.pni ni node hnode
  cases hst : node.state with
  | uninitialized =>
    dsimp only
    cases hc : pn.left with
    | none => exact sat_buildErr
    | some c =>
      dsimp only
      refine sat_bind (setNodeIdx_sat_eq _ _ _ _) (fun N1 h1 => ?_)
      subst h1
      simp only [hpni]
      exact attr_step h [(ni, _), (c, _)] [] rfl (by mem_tac) (by mem_tac) (by simp) (by asgp_tac) (by asgc_tac h, hnode)
        (by asgd_tac) (fun _ _ => Or.inl (by simp))
  | initialized =>
    dsimp only
    try simp only [hpni]
    exact attr_emit h [some ni] rfl rfl rfl (by simp [pushInstr]) (by simp)

theorem handleReapply_attr (h : AInv tree m0 (some ni) ctx) :
    Sat (AInv tree m0 none) (handleReapply  ctx ni pn) := by
  unfold handleReapply
  refine sat_bind (getNode_sat_eq ctx.nodes ni) (fun node hnode => ?_)
  have hpni := h.pni ni node hnode
  cases hst : node.state with
  | uninitialized =>
    dsimp only
    cases hc : pn.right with
    | none => exact sat_buildErr
    | some c =>
      dsimp only
      refine sat_bind (setNodeIdx_sat_eq _ _ _ _) (fun N1 h1 => ?_)
      subst h1
      simp only [hpni]
      exact attr_step h [(ni, _), (c, _)] [] rfl (by mem_tac) (by mem_tac) (by simp) (by asgp_tac) (by asgc_tac h, hnode)
        (by asgd_tac) (fun _ _ => Or.inl (by simp))
  | initialized =>
    dsimp only
    try simp only [hpni]
    exact attr_emit h [some ni, some ni] rfl rfl rfl (by simp [pushInstr]) (by simp)

theorem handleBinaryOperationWithPush_attr (h : AInv tree m0 (some ni) ctx) (ins : Instruction) (lr : Bool) :
    Sat (AInv tree m0 none) (handleBinaryOperationWithPush ins lr ctx ni pn) := by
  unfold handleBinaryOperationWithPush
  refine sat_bind (getNode_sat_eq ctx.nodes ni) (fun node hnode => ?_)
  have hpni := h.pni ni node hnode
  cases hst : node.state with
  | uninitialized =>
    dsimp only
    cases hr : pn.right with
    | none => exact sat_buildErr
    | some r =>
      cases hl : pn.left with
      | none => exact sat_buildErr
      | some l =>
        dsimp only
        refine sat_bind (setNodeIdx_sat_eq _ _ _ _) (fun N1 h1 => ?_)
        subst h1
        refine sat_bind (setNodeIdx_sat_eq _ _ _ _) (fun N2 h2 => ?_)
        subst h2
        simp only [hpni]
        cases lr
        · exact attr_step h [(ni, _), (r, _), (l, _)] [] rfl (by mem_tac) (by mem_tac) (by simp) (by asgp_tac) (by asgc_tac h, hnode)
            (by asgd_tac) (fun _ _ => Or.inl (by simp))
        · exact attr_step h [(ni, _), (r, _), (l, _)] [] rfl (by mem_tac) (by mem_tac) (by simp) (by asgp_tac) (by asgc_tac h, hnode)
            (by asgd_tac) (fun _ _ => Or.inl (by simp))
  | initialized =>
    dsimp only
    try simp only [hpni]
    exact attr_emit h [some ni] rfl rfl rfl (by simp [pushInstr]) (by simp)

theorem handleSubexpression_attr (h : AInv tree m0 (some ni) ctx) :
    Sat (AInv tree m0 none) (handleSubexpression  ctx ni pn) := by
  unfold handleSubexpression
  refine sat_bind (getNode_sat_eq ctx.nodes ni) (fun node hnode => ?_)
  have hpni := h.pni ni node hnode
  cases hst : node.state with
  | uninitialized =>
    dsimp only
    cases hr : pn.right with
    | none => exact sat_buildErr
    | some r =>
      cases hl : pn.left with
      | none => exact sat_buildErr
      | some l =>
        dsimp only
        refine sat_bind (setNodeIdx_sat_eq _ _ _ _) (fun N1 h1 => ?_)
        subst h1
        refine sat_bind (setNodeIdx_sat_eq _ _ _ _) (fun N2 h2 => ?_)
        subst h2
        simp only [hpni]
        exact attr_step h [(ni, _), (r, _), (l, _)] [] rfl (by mem_tac) (by mem_tac) (by simp) (by asgp_tac) (by asgc_tac h, hnode)
          (by asgd_tac) (fun _ _ => Or.inl (by simp))
  | initialized =>
    dsimp only
    try simp only [hpni]
    exact attr_emit h [some ni] rfl rfl rfl (by simp [pushInstr]) (by simp)

theorem handleInfixApply_attr (h : AInv tree m0 (some ni) ctx) :
    Sat (AInv tree m0 none) (handleInfixApply  ctx ni pn) := by
  unfold handleInfixApply
  refine sat_bind (getNode_sat_eq ctx.nodes ni) (fun node hnode => ?_)
  have hpni := h.pni ni node hnode
  cases hst : node.state with
  | uninitialized =>
    dsimp only
    cases hr : pn.right with
    | none => exact sat_buildErr
    | some r =>
      cases hl : pn.left with
      | none => exact sat_buildErr
      | some l =>
        dsimp only
        refine sat_bind (setNodeIdx_sat_eq _ _ _ _) (fun N1 h1 => ?_)
        subst h1
        refine sat_bind (setNodeIdx_sat_eq _ _ _ _) (fun N2 h2 => ?_)
        subst h2
        simp only [hpni]
        exact attr_step h [(ni, _), (r, _), (l, _)] [none] rfl (by mem_tac) (by mem_tac) (by simp [pushInstr, parseAddSymbol, addConst]) (by asgp_tac) (by asgc_tac h, hnode)
          (by asgd_tac) (fun _ _ => Or.inl (by simp))
  | initialized =>
    dsimp only
    try simp only [hpni]
    exact attr_emit h [none, some ni] rfl rfl rfl (by simp [pushInstr]) (by simp)

theorem handleUnaryFixApply_attr (h : AInv tree m0 (some ni) ctx) (child : Option Nat) :
    Sat (AInv tree m0 none) (handleUnaryFixApply child ctx ni pn) := by
  unfold handleUnaryFixApply
  refine sat_bind (getNode_sat_eq ctx.nodes ni) (fun node hnode => ?_)
  have hpni := h.pni ni node hnode
  cases hst : node.state with
  | uninitialized =>
    dsimp only
    cases hc : child with
    | none => exact sat_buildErr
    | some c =>
      dsimp only
      refine sat_bind (setNodeIdx_sat_eq _ _ _ _) (fun N1 h1 => ?_)
      subst h1
      simp only [hpni]
      exact attr_step h [(ni, _), (c, _)] [none] rfl (by mem_tac) (by mem_tac) (by simp [pushInstr, parseAddSymbol, addConst])
        (by asgp_tac) (by asgc_tac h, hnode) (by asgd_tac) (fun _ _ => Or.inl (by simp))
  | initialized =>
    dsimp only
    try simp only [hpni]
    exact attr_emit h [some ni] rfl rfl rfl (by simp [pushInstr]) (by simp)

theorem handleSideEffect_attr (h : AInv tree m0 (some ni) ctx) :
    Sat (AInv tree m0 none) (handleSideEffect ctx ni pn) := by
  unfold handleSideEffect
  refine sat_bind (getNode_sat_eq ctx.nodes ni) (fun node hnode => ?_)
  have hpni := h.pni ni node hnode
  cases hst : node.state with
  | uninitialized =>
    dsimp only
    cases hr : pn.right with
    | none =>
      dsimp only
      simp only [hpni]
      exact attr_step h [(ni, _)] [some ni] rfl (by mem_tac) (by mem_tac) (by simp [pushInstr]) (by asgp_tac)
        (by asgc_tac h, hnode) (by asgd_tac) (fun _ _ => Or.inl (by simp))
    | some r =>
      dsimp only
      refine sat_bind (setNodeIdx_sat_eq _ _ _ _) (fun N1 h1 => ?_)
      subst h1
      simp only [hpni]
      exact attr_step h [(ni, _), (r, _)] [some ni] rfl (by mem_tac) (by mem_tac) (by simp [pushInstr]) (by asgp_tac)
        (by asgc_tac h, hnode) (by asgd_tac) (fun _ _ => Or.inl (by simp))
  | initialized =>
    dsimp only
    try simp only [hpni]
    exact attr_emit h [some ni] rfl rfl rfl (by simp [pushInstr]) (by simp)

end handlers

end Garnish.Lemmas.BuildAttr
