/-
Operands with prefix operators, model side, part 3: one whole item `trivia* binop trivia* prefix* value` (`operand_step`)
and the first operand `prefix* value` of a token list (`first_operand`).
-/
import Garnish.Lemmas.ParserPrefix2

namespace Garnish.Spec
open Garnish Garnish.Gen Garnish.Model.Parser

/-- `trivia* binop trivia* prefix* value` -/
structure OItem where
  ws1 : List PToken
  op : PToken
  ws2 : List PToken
  pre : List PToken
  atom : PToken

def OItem.dec (it : OItem) : List PToken := it.ws1 ++ it.op :: (it.ws2 ++ (it.pre ++ [it.atom]))
def OItem.ok (it : OItem) : Prop :=
  (∀ w ∈ it.ws1, isTriviaTok w = true) ∧ isBinopTok it.op = true ∧ (∀ w ∈ it.ws2, isTriviaTok w = true) ∧
    (∀ p ∈ it.pre, isPrefixTok p = true) ∧ isAtom10 it.atom = true

theorem underDef_prio {dAbove dA : Definition} (h : priority dA = some 10) : priority (underDef dAbove dA) = some 10 :=
  leafDef_prio (dOp := dAbove) h

theorem range_append_range' (n k : Nat) : List.range n ++ List.range' n k = List.range (n + k) := by
  rw [List.range_eq_range', List.range_eq_range']
  have := List.range'_append_1 (s := 0) (m := n) (n := k)
  rw [Nat.zero_add] at this
  exact this

theorem pushP_def' : ∀ (ps : List PToken) (st : PState) (i : Nat) (p : PToken), ps[i]? = some p →
    ((pushP st ps).nodes[st.nodes.size + i]?).map (·.definition) = some (getDefinition p.type).1 := by
  intro ps
  induction ps with
  | nil => intro st i p h; simp at h
  | cons p0 ps ih =>
    intro st i p h
    cases i with
    | zero =>
      simp only [List.getElem?_cons_zero, Option.some.injEq] at h
      subst h
      simp only [pushP, Nat.add_zero]
      rw [pushP_below ps _ st.nodes.size (by simp [stepP])]
      simp [stepP]
    | succ i =>
      simp only [List.getElem?_cons_succ] at h
      have := ih (stepP st p0) i p h
      have e : (stepP st p0).nodes.size + i = st.nodes.size + (i + 1) := by simp [stepP]; omega
      rw [e] at this
      exact this

theorem pushP_def (ps : List PToken) (st : PState) (i : Nat) (h : i < ps.length) :
    ((pushP st ps).nodes[st.nodes.size + i]?).map (·.definition) = some (getDefinition (ps[i]).type).1 :=
  pushP_def' ps st i ps[i] (List.getElem?_eq_getElem h)

theorem OpenInv.trivOK {st : PState} (h : OpenInv st) (hpos : 0 < st.nodes.size) : TrivOK st := by
  rcases h.top with ⟨_, h2⟩ | ⟨nd, q, _, hl, hnd, _, _, _, f3, f4⟩
  · rw [h2] at hpos; simp at hpos
  · exact ⟨_, nd, hl, hnd, f3, f4⟩

theorem OpenInv.lastLeft_eq {st : PState} (h : OpenInv st) (hpos : 0 < st.nodes.size) :
    st.lastLeft = some (st.nodes.size - 1) := by
  rcases h.top with ⟨_, h2⟩ | ⟨nd, q, _, hl, _⟩
  · rw [h2] at hpos; simp at hpos
  · exact hl

/-- the operand `prefix* value` processed from an open state with at least one node: the final array -/
theorem operand_tail {st1 : PState} (h1 : OpenInv st1) (pre : List PToken) (hpos : 0 < st1.nodes.size + pre.length) (a : PToken)
    (rest : List PToken) (hpre : ∀ p ∈ pre, isPrefixTok p = true) (ha : isAtom10 a = true) :
    ∃ st2 nd, loop st1 (pre ++ a :: rest) = loop st2 rest ∧
      st2.nodes.size = st1.nodes.size + pre.length + 1 ∧
      (∀ j, j < st1.nodes.size + pre.length → st2.nodes[j]? = (pushP st1 pre).nodes[j]?) ∧
      (pushP st1 pre).nodes[st1.nodes.size + pre.length - 1]? = some nd ∧
      st2.nodes[st1.nodes.size + pre.length]? = some ⟨underDef nd.definition (getDefinition a.type).1,
        (getDefinition a.type).2, some (st1.nodes.size + pre.length - 1), none, none, a⟩ ∧
      IsTreeAt st2.nodes st1.nextParent (some st1.nodes.size) (chainTree st1.nodes.size (pre.map (·.col)) a.col) ∧
      st2.lastLeft = some (st1.nodes.size + pre.length) ∧ st2.checkForList = false ∧ st2.nextLastLeft = none ∧
      st2.groupStack = #[] ∧ st2.currentGroup = none ∧
      (st2.previousSecondDef = .value ∨ st2.previousSecondDef = .identifier) := by
  have hO := pushP_openInv pre st1 h1 hpre
  have hsz := pushP_size pre st1
  have hpos' : 0 < (pushP st1 pre).nodes.size := by omega
  obtain ⟨st2, nd, h2, hnd, s2, lt2, lf2, ll2, c2, n2, g2, cg2, p2⟩ := value_step (pushP st1 pre) a rest.isEmpty hO hpos' ha
  rw [hsz] at hnd s2 lt2 lf2 ll2
  refine ⟨st2, nd, ?_, by omega, lt2, hnd, lf2, ?_, ll2, c2, n2, g2, cg2, p2⟩
  · rw [prefix_run pre st1 (a :: rest) h1 hpre (by simp)]
    simp only [loop, h2, Outcome.bind]
  · apply chain_isTreeAt pre st1 st2.nodes a.col
    · intro j hj; rw [hsz] at hj; exact lt2 j hj
    · refine ⟨_, by rw [hsz]; exact lf2, ?_, rfl, rfl, rfl⟩
      rw [pushP_nextParent pre st1 h1.link, hO.lastLeft_eq hpos', hsz]

/-- **one item** `trivia* binop trivia* prefix* value` -/
theorem operand_step {st : PState} {T : Tree} {rt : Nat} (hinv : FragInv st T rt) (it : OItem) (hok : it.ok)
    (rest : List PToken) :
    ∃ (q : Nat) (st2 : PState) (rt' : Nat), priority (getDefinition it.op.type).1 = some q ∧
      loop st (it.dec ++ rest) = loop st2 rest ∧
      FragInv st2 (insertS (prioAt st.nodes) q ((getDefinition it.op.type).2 == .binaryRightToLeft) st.nodes.size it.op.col
        (chainTree (st.nodes.size + 1) (it.pre.map (·.col)) it.atom.col) T) rt' ∧
      (∀ j, j < st.nodes.size → (st2.nodes[j]?).map (·.definition) = (st.nodes[j]?).map (·.definition)) ∧
      dfOf st2.nodes st.nodes.size = (getDefinition it.op.type).1 ∧
      (∀ (i : Nat) (h : i < it.pre.length), dfOf st2.nodes (st.nodes.size + 1 + i) = (getDefinition (it.pre[i]).type).1) ∧
      dfOf st2.nodes (st.nodes.size + 1 + it.pre.length) =
        underDef (match it.pre.getLast? with | some p => (getDefinition p.type).1 | none => (getDefinition it.op.type).1)
          (getDefinition it.atom.type).1 := by
  obtain ⟨hw1, ho, hw2, hpre, ha⟩ := hok
  obtain ⟨hadj, hat, hug⟩ := fragInv_adjust hinv
  have hso := binop_secdef ho
  obtain ⟨hsa, hqa⟩ := atom10_facts ha
  obtain ⟨q, nodes', info, st1, hq, hq10, h1, hn1, hsz', hO1, hl1, hdefs, htreeK⟩ := op_effect hinv ho
  have hs1 : st1.nodes.size = st.nodes.size + 1 := by rw [hn1]; simp [hsz']
  have hpos1 : 0 < st1.nodes.size := by omega
  have hopn : st1.nodes[st.nodes.size]? = some ⟨(getDefinition it.op.type).1, (getDefinition it.op.type).2, info.parent,
      info.left, some (st.nodes.size + 1), it.op⟩ := by
    rw [hn1, Array.getElem?_push, if_pos hsz'.symm]
  obtain ⟨st2, nd, hloop2, s2, lt2, hnd, lf2, hchain, ll2, c2, n2, g2, cg2, p2⟩ :=
    operand_tail hO1 it.pre (by omega) it.atom rest hpre ha
  rw [hs1] at s2 lt2 hnd lf2 hchain ll2
  have hnp : st1.nextParent = some st.nodes.size := by rw [hO1.link, hl1]
  rw [hnp] at hchain
  -- the array below the operand
  have hlt : ∀ j, j < st.nodes.size → st2.nodes[j]? = nodes'[j]? := by
    intro j hj
    rw [lt2 j (by omega), pushP_below it.pre st1 j (by omega), hn1, Array.getElem?_push, if_neg (by omega)]
  have hon : st2.nodes[st.nodes.size]? = some ⟨(getDefinition it.op.type).1, (getDefinition it.op.type).2, info.parent,
      info.left, some (st.nodes.size + 1), it.op⟩ := by
    rw [lt2 _ (by omega), pushP_below it.pre st1 _ (by omega), hopn]
  obtain ⟨rt', htree'⟩ := htreeK st2.nodes _ it.op.col hlt ⟨_, hon, rfl, rfl, rfl, rfl⟩ hchain
  have hdefs2 : ∀ j, j < st.nodes.size → (st2.nodes[j]?).map (·.definition) = (st.nodes[j]?).map (·.definition) := by
    intro j hj; rw [hlt j hj]; exact hdefs j hj
  have hpdef : ∀ (i : Nat) (h : i < it.pre.length),
      (st2.nodes[st.nodes.size + 1 + i]?).map (·.definition) = some (getDefinition (it.pre[i]).type).1 := by
    intro i h
    rw [lt2 _ (by omega)]
    have := pushP_def it.pre st1 i h
    rw [hs1] at this
    exact this
  -- the definition of the node above the value
  have hnddef : nd.definition = (match it.pre.getLast? with
      | some p => (getDefinition p.type).1 | none => (getDefinition it.op.type).1) := by
    cases hgl : it.pre.getLast? with
    | none =>
      have hnil : it.pre = [] := by simpa using hgl
      rw [hnil] at hnd
      simp only [pushP, List.length_nil, Nat.add_zero, Nat.add_sub_cancel] at hnd
      rw [hopn] at hnd; injection hnd with hnd; rw [← hnd]
    | some pl =>
      have hne : it.pre ≠ [] := by intro e; rw [e] at hgl; simp at hgl
      have hlen : 0 < it.pre.length := List.length_pos_iff.mpr hne
      have hidx := pushP_def it.pre st1 (it.pre.length - 1) (by omega)
      have e : st1.nodes.size + (it.pre.length - 1) = st.nodes.size + 1 + it.pre.length - 1 := by omega
      rw [e, hnd] at hidx
      simp only [Option.map_some, Option.some.injEq] at hidx
      rw [hidx]
      have : it.pre[it.pre.length - 1]'(by omega) = pl := by
        have h1 := List.getLast?_eq_getElem? (l := it.pre)
        rw [hgl] at h1
        have h2 := (List.getElem?_eq_some_iff.mp h1.symm)
        exact h2.2
      rw [this]
  refine ⟨q, st2, rt', hq, ?_, ?_, hdefs2, ?_, ?_, ?_⟩
  · -- the loop
    have e1 : it.dec ++ rest = it.ws1 ++ it.op :: (it.ws2 ++ (it.pre ++ it.atom :: rest)) := by simp [OItem.dec]
    rw [e1, loop_trivia_then_binop it.op _ ho it.ws1 st hw1 hat hinv.nnl hug
      (by rw [hinv.cfl]; exact composition_atom_binop _ _ hinv.prev hso)]
    simp only [loop]
    have he : (it.ws2 ++ (it.pre ++ it.atom :: rest)).isEmpty = false := by cases it.ws2 <;> cases it.pre <;> rfl
    rw [he, h1]
    simp only [Outcome.bind]
    have hug1 : underGroupOf st1 = .ok none := by simp [underGroupOf, hO1.cg]
    cases hp : it.pre with
    | nil =>
      rw [hp] at hloop2
      simp only [List.nil_append] at hloop2 ⊢
      rw [loop_trivia_then_atom it.atom rest (isAtomTok_of_atom10 ha) it.ws2 st1 hw2 (hO1.trivOK hpos1) hO1.cfl hO1.nnl
        hug1 (hO1.comp_atom _ hsa)]
      exact hloop2
    | cons p ps =>
      rw [hp] at hloop2
      simp only [List.cons_append] at hloop2 ⊢
      rw [loop_trivia_then_prefix p (ps ++ it.atom :: rest) (hpre p (by rw [hp]; exact List.mem_cons_self ..)) (by simp)
        it.ws2 st1 hw2 (hO1.trivOK hpos1) hO1.cfl hO1.nnl hO1.cg hO1.comp_prefix]
      exact hloop2
  · -- the invariant
    refine ⟨htree', ?_, by omega, by rw [ll2, s2]; rfl, c2, n2, g2, cg2, ?_, ?_, p2⟩
    · rw [insertS_inorder, hinv.inord, chainTree_inorder, List.length_map, s2]
      have := range_append_range' st.nodes.size (it.pre.length + 1 + 1)
      rw [List.range'_succ] at this
      rw [← Nat.add_assoc] at this
      have e : st.nodes.size + it.pre.length + 1 + 1 = st.nodes.size + 1 + it.pre.length + 1 := by omega
      rw [← e]; exact this
    · intro i ndi hi
      by_cases c1 : i < st.nodes.size
      · have := hdefs2 i c1
        rw [hi] at this
        cases hsi : st.nodes[i]? with
        | none => rw [hsi] at this; cases this
        | some nd0 =>
          rw [hsi] at this
          simp only [Option.map_some, Option.some.injEq] at this
          rw [this]; exact hinv.prios i nd0 hsi
      · by_cases c2' : i = st.nodes.size
        · subst c2'; rw [hon] at hi; injection hi with hi; subst hi; exact ⟨q, hq⟩
        · by_cases c3 : i < st.nodes.size + 1 + it.pre.length
          · have hk : i - (st.nodes.size + 1) < it.pre.length := by omega
            have := hpdef (i - (st.nodes.size + 1)) hk
            have e : st.nodes.size + 1 + (i - (st.nodes.size + 1)) = i := by omega
            rw [e, hi] at this
            simp only [Option.map_some, Option.some.injEq] at this
            rw [this]
            have hs : (getDefinition (it.pre[i - (st.nodes.size + 1)]).type).2 = .unaryPrefix := by
              have := hpre _ (List.getElem_mem hk)
              unfold isPrefixTok at this; simpa using this
            obtain ⟨qp, hqp, _⟩ := prefix_def_facts _ hs
            exact ⟨qp, hqp⟩
          · by_cases c4 : i = st.nodes.size + 1 + it.pre.length
            · subst c4; rw [lf2] at hi; injection hi with hi; subst hi
              exact ⟨10, underDef_prio hqa⟩
            · have : st2.nodes[i]? = none := by apply Array.getElem?_eq_none; omega
              rw [this] at hi; cases hi
    · refine ⟨_, by rw [s2]; exact lf2, underDef_prio hqa⟩
  · simp [dfOf, hon]
  · intro i h
    simp only [dfOf, hpdef i h, Option.getD_some]
  · simp only [dfOf, lf2, Option.map_some, Option.getD_some, hnddef]

end Garnish.Spec
